#!/usr/bin/env python3
"""readable operations -> abstract operation file.  Each argument/line: e.g.  insert 0 "/a(/b)" 1"""
import json, sys
def hexs(s): return s.encode().hex() or "-"
def conv(line):
    line = line.strip()
    if not line: return None
    f = line.split(" ", 2)
    if f[0] in ("insert", "delete", "search"):
        rest = f[2]
        if rest.startswith('"'):
            end = rest.rindex('"')
            s = json.loads(rest[:end + 1]); tail = rest[end + 1:].strip()
        else:
            s, _, tail = rest.partition(" ")
        return " ".join(x for x in (f[0], f[1], hexs(s), tail) if x)
    if f[0] == "parse":
        return "parse " + hexs(json.loads(line.split(" ", 1)[1]))
    return line
if __name__ == "__main__":
    out = [conv(l) for l in sys.stdin.read().splitlines()]
    print("\n".join(o for o in out if o))
