#!/bin/sh
# usage: confirm_seeded.sh <seeded-id>   confirms in a scratch worktree that the seeded change compiles, passes the
# existing suite, and that the demonstration fails with it and passes without it. Prints a JSON summary line.
id=$1; dir=/verif/seeded/$id; wt=/tmp/confirm-wt
export CARGO_NET_OFFLINE=true
[ -d $wt ] || git -C /repo worktree add -q $wt HEAD
cd $wt && git checkout -q -- . && git clean -fdq -e target && git checkout -q --detach $(git -C /repo rev-parse HEAD)
git apply $dir/patch.diff || { echo "{\"id\":\"$id\",\"applies\":false}"; exit 1; }
suite=$(cargo test --offline -p wayfind 2>&1 | grep -E "^test result" | awk '{p+=$4; f+=$6} END{print p" "f}')
cp $dir/demo.rs tests/seeded_demo.rs
with=$(cargo test --offline -p wayfind --test seeded_demo 2>&1 | grep -E "^test result" | awk '{print $4" "$6}')
git checkout -q -- src examples
without=$(cargo test --offline -p wayfind --test seeded_demo 2>&1 | grep -E "^test result" | awk '{print $4" "$6}')
rm -f tests/seeded_demo.rs
echo "{\"id\":\"$id\",\"applies\":true,\"suite_passed_failed_with_change\":\"$suite\",\"demo_passed_failed_with_change\":\"$with\",\"demo_passed_failed_without\":\"$without\"}"
