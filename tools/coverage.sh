#!/bin/sh
# usage: tools/coverage.sh [quick|thorough]
# Measures which regions of /repo/src the operation files of the correspondence check actually execute:
# builds the harness with source-based coverage (nightly toolchain + its llvm-tools), generates every suite at the
# tier's size, runs it on the real crate, and prints per-file line/region coverage plus the uncovered lines of src/.
# This is a diagnostic for generator blind spots (DESIGN §12.9); it is not part of any verdict.
set -e
tier=${1:-quick}
V=$(cd "$(dirname "$0")/.." && pwd)
W=/tmp/wfh-cov
rm -rf $W; mkdir -p $W/prof $W/ops
export CARGO_NET_OFFLINE=true
BIN=$(dirname $(find ~/.rustup/toolchains/nightly-x86_64-unknown-linux-gnu -name llvm-profdata | head -1))
(cd $V/harness && CARGO_TARGET_DIR=$W/target RUSTFLAGS="--cfg wayfind_verif -C instrument-coverage" cargo +nightly build --offline 2>&1 | tail -1)
WFH=$W/target/debug/wfh
python3 - "$V" "$tier" > $W/jobs.txt <<'E'
import re, sys, ast
src = open(sys.argv[1] + "/tools/check.py").read()
m = re.search(r"PROPS = \{(.*?)\n\}\n", src, flags=re.S)
seen = {}
for suite, qs, qc, ts, tc in re.findall(r'\("(\w+)", (\d+), (\d+), (\d+), (\d+)\)', m.group(1)):
    size, chunks = (int(qs), int(qc)) if sys.argv[2] == "quick" else (int(ts), int(tc))
    old = seen.get(suite, (0, 0))
    seen[suite] = (max(old[0], size), max(old[1], chunks))
for s, (size, chunks) in seen.items():
    for c in range(chunks):
        print(s, size, c, chunks)
E
export LLVM_PROFILE_FILE="$W/prof/%p-%m.profraw"
# corpus first, then every suite
for f in $V/corpus/*/*.ops; do
  $WFH run $f $W/ops/full.txt $W/ops/impl.txt $W/ops/orc.txt >/dev/null 2>&1 || true
done
cat $W/jobs.txt | xargs -P 12 -L 1 sh -c '
  d='$W'/ops/$0-$2; mkdir -p $d
  '$WFH' gen $0 1 $1 $2 $3 $d/ops.txt >/dev/null 2>&1 && '$WFH' run $d/ops.txt $d/full.txt $d/impl.txt $d/orc.txt >/dev/null 2>&1
  rm -rf $d'
$BIN/llvm-profdata merge -sparse $W/prof/*.profraw -o $W/all.profdata
$BIN/llvm-cov report $WFH -instr-profile=$W/all.profdata $(find /repo/src -name '*.rs' ! -name verif.rs) 2>/dev/null | cut -c1-200
$BIN/llvm-cov show $WFH -instr-profile=$W/all.profdata --show-line-counts-or-regions $(find /repo/src -name '*.rs' ! -name verif.rs) > $W/show.txt 2>/dev/null
echo "--- uncovered lines (count 0) outside #[cfg(test)] ---"
python3 - $W/show.txt <<'E'
import re, sys
cur = None; intest = False
for l in open(sys.argv[1], errors="replace"):
    m = re.match(r"^(/repo/src/\S+):$", l)
    if m:
        cur = m.group(1); intest = False; continue
    m = re.match(r"^\s*(\d+)\|\s*(\S*)\|(.*)$", l)
    if not m or not cur:
        continue
    no, cnt, text = m.groups()
    if "#[cfg(test)]" in text:
        intest = True
    if cnt == "0" and not intest:
        print(f"{cur}:{no}: {text.rstrip()[:150]}")
E
rm -rf $W/target $W/prof
