#!/bin/sh
# runs every check of the given tier (default quick) on /repo as it is; prints one line per property
cd "$(dirname "$0")/.."
tier=${1:-quick}
for i in 01 02 03 04 05 06 07 08 09 10 11 12 13 14 15 16 17 18 19; do
  s=$(date +%s)
  out=$(./check C$i $tier 2>&1); rc=$?
  e=$(date +%s)
  echo "C$i rc=$rc $((e-s))s $(echo "$out" | grep -E '^VIOLATION|^KNOWN|machinery' | head -2 | tr '\n' ' ')"
done
