#!/bin/sh
# usage: regress_seeded.sh [id-prefix]   runs every seeded change (seeded/<id>/patch.diff) against the quick check of its own
# property and prints one line per change: detected (with or without an input) or MISSED. Applies and reverts /repo for
# each change (tools/try_patch.sh), so nothing else may use /repo meanwhile.
cd "$(dirname "$0")/.."
V=$(pwd)
for d in seeded/${1}*/; do
  id=$(basename $d); p=${id%%-*}
  out=$($V/tools/try_patch.sh $V/seeded/$id/patch.diff $p 2>&1 | grep -E "VIOLATION|no alarm|does not apply|machinery" | head -1)
  case "$out" in
    *no-failing-input-found*) echo "$id detected-without-input";;
    *VIOLATION*) echo "$id detected";;
    *"does not apply"*) echo "$id PATCH-DOES-NOT-APPLY";;
    *) echo "$id MISSED ($out)";;
  esac
done
