#!/bin/sh
# usage: import_round.sh <worktree> <seeded-id> <Cxx>...   copies out/patch.diff + out/demo.rs of a sub-agent's worktree into
# seeded/<id>/, confirms it independently (confirm_seeded.sh), then runs the given quick checks against it (try_patch.sh).
wt=$1; id=$2; shift; shift
d=/verif/seeded/$id; mkdir -p $d
cp $wt/out/patch.diff $d/patch.diff; cp $wt/out/demo.rs $d/demo.rs; cp $wt/out/notes.md $d/notes.md 2>/dev/null
echo "== $id confirm: $(/verif/tools/confirm_seeded.sh $id 2>&1 | tail -1)"
/verif/tools/try_patch.sh $d/patch.diff "$@" 2>&1 | sed "s/^/   $id /"
