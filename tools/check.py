#!/usr/bin/env python3
"""./check Cxx [quick|thorough] [--replay FILE]

One check = (1) rebuild the Rust harness from /repo's working tree, (2) regenerate the translator facts,
rebuild and audit the property's Lean theorems and the model driver, (3) run the property's suites through
  harness (real crate)  ->  ops.full + impl.out  ->  wfmodel judge (Lean model + L0 oracles)
(4) decide: oracle failure on the implementation -> shrink -> VIOLATION with a failing input;
            broken correspondence / proof obligation without an oracle failure -> VIOLATION ... no-failing-input-found.
(5) rewrite evidence/Cxx.json from the counters measured in this run.
Only the Python standard library is used.
"""
import fcntl
import hashlib
import json
import os
import re
import shutil
import subprocess
import sys
import time
from concurrent.futures import ThreadPoolExecutor

VERIF = os.path.dirname(os.path.dirname(os.path.abspath(__file__)))
REPO = "/repo"
LEAN = os.path.join(VERIF, "lean")
HARNESS = os.path.join(VERIF, "harness")
WFH = os.path.join(HARNESS, "target", "debug", "wfh")
WFMODEL = os.path.join(LEAN, ".lake", "build", "bin", "wfmodel")
ALLOWED_AXIOMS = {"propext", "Quot.sound", "Classical.choice"}
TRUSTED = [
    "Lean 4.33 kernel; axioms at most propext, Quot.sound, Classical.choice (audited by #print axioms on every property theorem, every run)",
    "hand-written Lean model L1 of the crate, tied to /repo by the differential correspondence of this run (harness = real crate in-process)",
    "Rust harness (generators, hex line protocol, constraint truth tables), Lean driver I/O, this Python orchestration",
    "Vec/SmallVec/HashMap/Arc/String semantics, sort_by, from_utf8(_lossy) modelled as lists/counters/decoders; usize as Nat for inputs < 2^31 bytes",
]

# per property: suites = [(suite, quick size, quick chunks, thorough size, thorough chunks)],
# corr = operation classes whose model/implementation disagreement concerns this property,
# oracles = oracle tags evaluated on the implementation that decide this property
PROPS = {
    "C01": dict(suites=[("hist", 60, 4, 1500, 16), ("scope", 4, 8, 6, 16), ("cells", 1, 16, 2, 16), ("kin", 40, 4, 1000, 16)], corr=["search", "stored"], oracles=["C01"]),
    "C02": dict(suites=[("hist", 60, 4, 1500, 16), ("scope", 4, 8, 6, 16), ("splitopt", 1, 4, 2, 16), ("kin", 40, 4, 1000, 16)], corr=["search"], oracles=["C02"]),
    "C03": dict(suites=[("hist", 60, 4, 1500, 16), ("scope", 4, 8, 6, 16), ("cells", 1, 16, 2, 16), ("prio", 1, 2, 2, 8), ("sibs", 1, 4, 3, 16), ("grouprank", 1, 4, 2, 16), ("kin", 40, 4, 1000, 16)], corr=["search", "stored"], oracles=["C03"]),
    "C04": dict(suites=[("parse", 5, 4, 7, 16), ("dup", 1, 4, 2, 4), ("groups", 100, 4, 1500, 16), ("regs", 1, 4, 2, 8), ("grouprank", 1, 4, 2, 16)], corr=["parse", "search", "display", "stored"], oracles=["C04", "C11", "C01", "C02", "C03"]),
    "C05": dict(suites=[("hist", 100, 4, 1500, 16), ("orders", 1, 4, 4, 16), ("splitopt", 1, 4, 2, 16), ("kin", 40, 4, 1000, 16)], corr=["search", "display", "dump"], oracles=["FUN"]),
    "C06": dict(suites=[("hist", 100, 4, 1500, 16), ("scope", 4, 8, 6, 16), ("splitopt", 1, 4, 2, 16), ("sibs", 1, 4, 3, 16), ("kin", 40, 4, 1000, 16)], corr=["search"], oracles=["C06", "C02"]),
    "C07": dict(suites=[("parse", 5, 4, 7, 16), ("junk", 100, 4, 1500, 16), ("hist", 50, 4, 1500, 16), ("family", 50, 4, 1500, 16), ("regs", 1, 4, 2, 8), ("dup", 1, 4, 2, 8), ("kinfamily", 40, 4, 1000, 16), ("long", 1, 4, 2, 8)], corr=["checked", "parse"], oracles=["C07"]),
    "C08": dict(suites=[("hist", 100, 4, 1500, 16), ("dup", 1, 4, 2, 8), ("dupsib", 1, 4, 2, 8), ("pairs", 1, 4, 2, 16), ("kin", 40, 4, 1000, 16)], corr=["insert", "search"], oracles=["C08", "C02"]),
    "C09": dict(suites=[("hist", 100, 4, 1500, 16), ("dup", 1, 4, 2, 8), ("family", 50, 4, 1500, 16), ("pairs", 1, 4, 2, 16), ("clonescope", 1, 4, 2, 16), ("dupsib", 1, 4, 2, 8), ("kin", 40, 4, 1000, 16)], corr=["delete", "search", "display", "dump"], oracles=["C09", "C01", "C02", "FUN"]),
    "C10": dict(suites=[("hist", 100, 4, 1500, 16), ("dup", 1, 4, 2, 8), ("dupsib", 1, 4, 2, 8), ("kin", 40, 4, 1000, 16)], corr=["insert", "delete", "search", "display", "dump"], oracles=["FUN", "C09"]),
    "C11": dict(suites=[("parse", 5, 4, 7, 16), ("parsefocus", 7, 4, 9, 16), ("regs", 1, 4, 2, 8)], corr=["parse", "insert"], oracles=["C11"]),
    "C12": dict(suites=[("scope1", 5, 4, 6, 16), ("single", 300, 4, 6000, 16)], corr=["search"], oracles=["C12"]),
    "C13": dict(suites=[("hist", 60, 4, 1500, 16), ("fromstr", 1, 1, 4, 4), ("cells", 1, 16, 2, 16), ("regs", 1, 4, 2, 8)], corr=["constraint", "insert", "search"], oracles=["C13", "C02", "C03"]),
    "C14": dict(suites=[("parse", 5, 4, 7, 16), ("parsefocus", 7, 4, 9, 16), ("regs", 1, 4, 2, 8)], corr=["parse", "render-template"], oracles=["C14"]),
    "C15": dict(suites=[("ascii", 100, 4, 1500, 16), ("splitopt", 1, 4, 2, 16), ("prio", 1, 4, 2, 8), ("hist", 60, 4, 1500, 16), ("kin", 40, 4, 1000, 16)], corr=["display", "dump"], oracles=["C15"]),
    "C16": dict(suites=[("family", 100, 4, 1500, 16), ("clonescope", 1, 4, 2, 16), ("clonerank", 1, 8, 2, 16), ("dupsib", 1, 4, 2, 8), ("kinfamily", 40, 4, 1000, 16), ("regs", 1, 4, 2, 8)], corr=["insert", "delete", "search", "display", "clone", "dump", "stored"], oracles=["FUN", "C09", "C08", "C03"]),
    "C17": dict(suites=[("oci", 4, 8, 5, 16)], corr=["search", "nameck"], oracles=["C17"]),
    "C18": dict(suites=[("threads", 30, 2, 600, 8), ("sibs", 1, 4, 3, 16)], corr=["search", "display"], oracles=["C18", "FUN"]),
    "C19": dict(suites=[("hist", 100, 4, 1500, 16), ("pairs", 1, 4, 2, 16), ("regs", 1, 4, 2, 8), ("kin", 40, 4, 1000, 16)], corr=["insert", "delete", "constraint", "render"], oracles=["C19", "C08", "C09"]),
}

FACTS = {"C05": ["nodes_cache_ops"], "C19": ["error_formats", "conflict_list_format"], "C13": ["builtin_impls", "builtin_checks", "builtin_registrations"], "C11": ["invalid_param_chars"], "C03": ["search_kind_order"],
         "C15": ["display_kind_order"], "C18": ["interior_mutability"], "C17": ["oci_routes", "oci_name_pattern"], "C07": ["panic_sites"]}
# Tripwires: syntactic facts about the source that no theorem needs (they say nothing about the model) and that a
# behaviour-preserving rewrite changes: the order in which `Node::search` / `Display` mention the child kinds, and the per-file
# count of index / unwrap / subtraction tokens. A deviation from the value pinned here is not a verdict; it makes the check
# run its suites once more, larger and with another seed (DESIGN 12.9), and the evidence records it.
TRIPWIRES = {
    "C03": {"search_kind_order": [0, 1, 2, 3, 4, 5, 6]},
    "C05": {"nodes_cache_ops": {"new": "false", "push": "false", "remove": "keep", "iter_mut": "false", "sort": "true+early-return",
                                "default": "false", "index_mut": "keep"}},
    "C15": {"display_kind_order": [0, 1, 2, 3, 4, 5, 6]},
    "C07": {"panic_sites": [["src/parser.rs", 11, 0, 14], ["src/router.rs", 0, 17, 0], ["src/node/insert.rs", 8, 0, 0], ["src/node/find.rs", 3, 0, 0],
                            ["src/node/delete.rs", 6, 0, 0], ["src/node/search.rs", 21, 1, 2], ["src/node/optimize.rs", 0, 0, 0], ["src/node/display.rs", 0, 0, 7],
                            ["src/nodes.rs", 2, 0, 0], ["src/errors/template.rs", 0, 0, 0]]},
}
# which measured count is "distinct and non-trivial" for a property, and why
NT = {
    "fit2": "distinct (live set, path) pairs for which at least two live routes fit the path",
    "mut": "distinct (live set, insert/delete call) pairs",
    "tree": "distinct live sets with at least three routes whose printed tree was parsed back and checked",
    "ambiguous": "distinct (single template, path) pairs with at least two possible assignments",
    "rejected": "distinct rejected template strings", "expectmatch": "distinct endpoint URLs (name x shape x method x slash) whose independent reading expects a match", "groups": "distinct accepted templates with more than one expansion",
}
NT_OF = {"C01": "fit2", "C02": "fit2", "C03": "fit2", "C04": "groups", "C05": "mut", "C06": "fit2", "C07": "rejected", "C08": "mut", "C09": "mut",
         "C10": "mut", "C11": "rejected", "C12": "ambiguous", "C13": "fit2", "C14": "rejected", "C15": "tree", "C16": "mut", "C17": "expectmatch", "C18": "fit2", "C19": "mut"}
IMPLEMENTED_SUITES = None  # filled from `wfh suites`


def sh(cmd, cwd=None, env=None, timeout=None):
    e = dict(os.environ)
    e.update({"CARGO_NET_OFFLINE": "true"})
    if env:
        e.update(env)
    p = subprocess.run(cmd, cwd=cwd, env=e, stdout=subprocess.PIPE, stderr=subprocess.STDOUT, text=True, timeout=timeout)
    return p.returncode, p.stdout


class Lock:
    def __init__(self, name):
        os.makedirs(os.path.join(VERIF, "work"), exist_ok=True)
        self.path = os.path.join(VERIF, "work", name)

    def __enter__(self):
        self.f = open(self.path, "w")
        fcntl.flock(self.f, fcntl.LOCK_EX)

    def __exit__(self, *a):
        fcntl.flock(self.f, fcntl.LOCK_UN)
        self.f.close()


def build_harness(log):
    """returns (ok, features dict, output). Feature fallbacks: the hook (needs --cfg wayfind_verif and the names the
    hook touches) and the compile-time Send/Sync assertion are each dropped only if the build fails with them."""
    with Lock(".cargo.lock"):
        # every feature on; if that does not build, the feature sets with one, then two … features dropped, in this order of
        # preference (each feature stands for something of /repo the harness touches beyond the public API)
        allf = ["hook", "hookdata", "sendsync", "ocisrc", "ociapp"]
        import itertools
        attempts = []
        for k in range(len(allf) + 1):
            for drop in itertools.combinations(["ociapp", "hookdata", "ocisrc", "sendsync", "hook"], k):
                feats = [f for f in allf if f not in drop and not (f == "hookdata" and "hook" in drop)]
                if (feats, "hook" in feats) not in attempts:
                    attempts.append((feats, "hook" in feats))
        first_out = None
        for feats, cfg in attempts:
            cmd = ["cargo", "build", "--offline", "--no-default-features"]
            if feats:
                cmd += ["--features", ",".join(feats)]
            rc, out = sh(cmd, cwd=HARNESS, env={"RUSTFLAGS": "--cfg wayfind_verif"} if cfg else None)
            if first_out is None:
                first_out = out
            if rc == 0:
                if feats != allf:
                    log.append("harness built with features " + str(feats))
                return True, dict(hook="hook" in feats, sendsync="sendsync" in feats, first_output=first_out), out
        return False, dict(hook=False, sendsync=False, first_output=first_out), first_out


def theorem_names(pid):
    path = os.path.join(LEAN, "Wayfind", "Theorems", pid + ".lean")
    if not os.path.exists(path):
        return []
    src = open(path).read()
    src = re.sub(r"/-.*?-/", "", src, flags=re.S)
    return re.findall(r"^theorem\s+([A-Za-z0-9_.']+)", src, flags=re.M)


FORBIDDEN = re.compile(r"\b(sorry|admit|native_decide|bv_decide|implemented_by)\b|^\s*axiom\s|\bunsafe\s|maxHeartbeats\s+0\b", re.M)


def scan_sources():
    bad = []
    for root, _, files in os.walk(os.path.join(LEAN, "Wayfind")):
        for f in files:
            if not f.endswith(".lean"):
                continue
            p = os.path.join(root, f)
            src = open(p).read()
            src = re.sub(r"/-.*?-/", "", src, flags=re.S)
            src = re.sub(r"--.*", "", src)
            for m in FORBIDDEN.finditer(src):
                bad.append(f"{os.path.relpath(p, LEAN)}: {m.group(0).strip()}")
    return bad


def build_lean(pid, work, log):
    """returns dict(obligations, discharged, failures[list], checker_cmd, generated{})"""
    res = dict(obligations=0, discharged=0, failures=[], checker_cmd="", generated={})
    with Lock(".lake.lock"):
        rc, out = sh([sys.executable, os.path.join(VERIF, "tools", "extract.py")], cwd=VERIF)
        try:
            res["generated"] = json.loads(out.strip().splitlines()[-1]) if rc == 0 and out.strip() else {}
        except Exception:
            res["generated"] = {}
        if rc != 0:
            log.append("translator failed: " + out[-400:])
        targets = ["wfmodel"]
        thm_mod = "Wayfind.Theorems." + pid
        has_thms = os.path.exists(os.path.join(LEAN, "Wayfind", "Theorems", pid + ".lean"))
        if has_thms:
            targets.append(thm_mod)
        cmd = ["lake", "build"] + targets
        res["checker_cmd"] = "cd /verif/lean && " + " ".join(cmd) + " && lake env lean <Audit with #print axioms>"
        rc, out = sh(cmd, cwd=LEAN)
        open(os.path.join(work, "lake.log"), "w").write(out)
        names = theorem_names(pid)
        res["obligations"] = len(names)
        if rc != 0:
            errs = [l for l in out.splitlines() if l.startswith("error")]
            res["failures"].append("lake build failed: " + "; ".join(errs[:5]))
            if not os.path.exists(WFMODEL):
                return res
            # which theorems still check? none of this module can be trusted
            return res
        if not names:
            return res
        audit = os.path.join(work, "Audit.lean")
        with open(audit, "w") as f:
            f.write(f"import {thm_mod}\n")
            for n in names:
                f.write(f"#print axioms {n}\n")
        rc, out = sh(["lake", "env", "lean", audit], cwd=LEAN)
        open(os.path.join(work, "audit.log"), "w").write(out)
        ok = 0
        flat = out.replace("\n", " ")
        for n in names:
            m = re.search(r"'" + re.escape(n) + r"' (depends on axioms: \[([^\]]*)\]|does not depend on any axioms)", flat)
            if not m:
                res["failures"].append(f"audit: no axiom report for {n}")
                continue
            axs = set(a.strip() for a in (m.group(2) or "").split(",") if a.strip())
            if axs - ALLOWED_AXIOMS:
                res["failures"].append(f"audit: {n} depends on {sorted(axs - ALLOWED_AXIOMS)}")
            else:
                ok += 1
        bad = scan_sources()
        if bad:
            res["failures"].append("source scan: " + "; ".join(bad[:5]))
            ok = 0
        res["discharged"] = ok
    return res


def run_chunk(work, suite, seed, size, chunk, nchunks, tag):
    d = os.path.join(work, f"{suite}-{tag}-{chunk}")
    os.makedirs(d, exist_ok=True)
    ops, full, impl, orc, verdict = [os.path.join(d, n) for n in ("ops.txt", "full.txt", "impl.txt", "oracle.txt", "verdict.txt")]
    rc, out = sh([WFH, "gen", suite, str(seed), str(size), str(chunk), str(nchunks), ops])
    if rc != 0:
        return dict(dir=d, error=f"gen failed rc={rc}: {out[-300:]}")
    r = judge_ops(d, ops)
    # disk: a chunk on which nothing was flagged keeps only its verdict (chunk 0 also keeps its files for the samples)
    if "error" not in r and not r["D"] and not r["O"] and chunk != 0:
        for n in ("ops.txt", "full.txt", "impl.txt"):
            try:
                os.remove(os.path.join(d, n))
            except OSError:
                pass
    return r


def judge_ops(d, ops):
    full, impl, orc, verdict = [os.path.join(d, n) for n in ("full.txt", "impl.txt", "oracle.txt", "verdict.txt")]
    rc, out = sh([WFH, "run", ops, full, impl, orc])
    if rc != 0:
        return dict(dir=d, error=f"harness run died rc={rc} (abort/stack overflow?): {out[-300:]}")
    with open(verdict, "w") as vf:
        try:
            p = subprocess.run([WFMODEL, "judge", full, impl], stdout=vf, stderr=subprocess.PIPE, text=True, timeout=3600)
        except subprocess.TimeoutExpired:
            return dict(dir=d, error="model driver timed out (machinery)")
    if p.returncode != 0:
        return dict(dir=d, error=f"model driver died rc={p.returncode}: {p.stderr[-300:]}")
    D, O, S = [], [], {}
    for src in (verdict, orc):
        for line in open(src, errors="replace"):
            line = line.rstrip("\n")
            if line.startswith("D "):
                head, _, rest = line.partition("\t")
                _, idx, cls = head.split(" ", 2)
                D.append((int(idx), cls, rest))
            elif line.startswith("O "):
                _, idx, tag, msg = line.split(" ", 3)
                O.append((int(idx), tag, msg))
            elif line.startswith("S "):
                k, v = line[2:].rsplit(" ", 1)
                S[k] = S.get(k, 0) + int(v)
    return dict(dir=d, D=D, O=O, S=S, ops=ops)


def history_of(ops_path, idx):
    """the abstract operations of the history containing line idx (from the last `reset` up to idx)"""
    lines = open(ops_path).read().splitlines()
    start = idx
    while start > 0 and lines[start] != "reset":
        start -= 1
    return lines[start: idx + 1]


def fails(d, ops_lines, pred):
    os.makedirs(d, exist_ok=True)
    p = os.path.join(d, "ops.txt")
    open(p, "w").write("\n".join(ops_lines) + "\n")
    r = judge_ops(d, p)
    if "error" in r:
        return None
    hits = [x for x in r["O"] if pred("O", x)] + [x for x in r["D"] if pred("D", x)]
    return hits[0] if hits else None


def shrink(work, ops_lines, pred, budget_s=60):
    """delta debugging on the operation list, keeping the first line (`reset`)"""
    d = os.path.join(work, "shrink")
    t0 = time.time()
    cur = list(ops_lines)
    if fails(d, cur, pred) is None:
        return cur, None
    n = 2
    while len(cur) >= 2 and time.time() - t0 < budget_s:
        size = max(1, len(cur) // n)
        reduced = False
        for i in range(0, len(cur), size):
            cand = cur[:i] + cur[i + size:]
            if not cand:
                continue
            if fails(d, cand, pred) is not None:
                cur = cand
                n = max(n - 1, 2)
                reduced = True
                break
        if not reduced:
            if size == 1:
                break
            n = min(n * 2, len(cur))
    hit = fails(d, cur, pred)
    return cur, hit


def unhex(s):
    if s in ("-", "."):
        return ""
    try:
        return bytes.fromhex(s).decode("utf-8", "replace")
    except ValueError:
        return s


def pretty_op(l):
    f = l.split(" ")
    if f[0] in ("insert", "delete", "search", "parse") and len(f) >= 2:
        i = 1 if f[0] == "parse" else 2
        f[i] = json.dumps(unhex(f[i]), ensure_ascii=False)
    return " ".join(f)


def known_findings():
    path = os.path.join(VERIF, "KNOWN_FINDINGS.txt")
    out = []
    if os.path.exists(path):
        for l in open(path):
            l = l.strip()
            m = re.match(r"finding:\s+property=(\S+)\s+key=(\S+)\s+(.*)", l)
            if m:
                out.append((m.group(1), m.group(2), m.group(3)))
    return out


def key_of(ops_lines):
    """canonical key of a shrunken replay: the mutating/searching operations, hex as written"""
    core = [" ".join(l.split(" ")[:3]) for l in ops_lines if l.split(" ")[0] in ("insert", "delete", "search", "clone", "parse")]
    return hashlib.sha1("\n".join(core).encode()).hexdigest()[:16]


def main():
    args = sys.argv[1:]
    if not args or args[0] not in PROPS:
        print(__doc__)
        return 2
    pid = args[0]
    tier = os.environ.get("VERIF_TIER", "quick")
    replay = None
    i = 1
    while i < len(args):
        if args[i] in ("quick", "thorough"):
            tier = args[i]
        elif args[i] == "--tier":
            i += 1
            tier = args[i]
        elif args[i] == "--replay":
            i += 1
            replay = args[i]
        i += 1
    seed = int(os.environ.get("VERIF_SEED", "1") or "1")
    t0 = time.time()
    work = os.path.join(VERIF, "work", pid)
    shutil.rmtree(work, ignore_errors=True)
    os.makedirs(work, exist_ok=True)
    os.makedirs(os.path.join(VERIF, "evidence"), exist_ok=True)
    os.makedirs(os.path.join(VERIF, "replays"), exist_ok=True)
    log = []
    spec = PROPS[pid]
    violations = []   # (replay path, suffix)
    known_hits = []

    def write_replay(name, obj):
        p = os.path.join(VERIF, "replays", f"{pid}-{name}.json")
        json.dump(obj, open(p, "w"), indent=1, ensure_ascii=False)
        return p

    ok, feats, out = build_harness(log)
    hooks = feats["hook"]
    if ok and pid == "C18" and not feats["sendsync"]:
        p = write_replay("sendsync", dict(property=pid, kind="failing-input", oracle="C18: Router<T> / Match<T> are no longer Send + Sync for every T: Send + Sync",
                                         detail="the harness' compile-time assertion `is_send_sync::<wayfind::Router<T>>()` is rejected by rustc; the compiler output is the witness",
                                         compiler_output=feats["first_output"][-4000:]))
        print(f"VIOLATION property={pid} replay={p}")
        write_evidence(pid, tier, seed, t0, dict(obligations=1, discharged=0, checker_cmd="cargo build --features sendsync", trusted_base=TRUSTED,
                                                 evaluations=1, distinct_nontrivial=0, explanation="Send/Sync assertion does not compile"), 1)
        return 1
    if not ok:
        p = write_replay("build", dict(property=pid, kind="no-failing-input-found", theorem_or_stream="harness build against /repo",
                                      detail="the crate (or its public API used by the harness) no longer builds", compiler_output=out[-4000:]))
        print(f"VIOLATION property={pid} replay={p} no-failing-input-found")
        write_evidence(pid, tier, seed, t0, dict(obligations=1, discharged=0, checker_cmd="cargo build", trusted_base=TRUSTED,
                                                 evaluations=0, distinct_nontrivial=0, explanation="build failed"), 1)
        return 1

    lean = build_lean(pid, work, log)
    if not os.path.exists(WFMODEL):
        print("machinery error: model driver did not build\n" + "\n".join(lean["failures"]))
        return 2

    suites = [s for s in spec["suites"] if s[0] in implemented_suites()]
    corr, oracles = set(spec["corr"]), set(spec["oracles"])
    tripped = {}
    for name, pinned in TRIPWIRES.get(pid, {}).items():
        now = lean["generated"].get("_values", {}).get(name)
        if now != pinned:
            tripped[name] = dict(pinned=pinned, now=now)
    if tripped:
        log.append("tripwire(s) " + ", ".join(tripped) + " deviate from the pinned value: suites also run at the escalated size")

    def relevant(kind, x):
        if kind == "O":
            return x[1] in oracles or x[1] == "C07" and pid == "C07" or x[1] == "BAD"
        return x[1] in corr

    results = []
    if replay:
        rp = json.load(open(replay))
        d = os.path.join(work, "replay")
        os.makedirs(d, exist_ok=True)
        p = os.path.join(d, "ops.txt")
        open(p, "w").write("\n".join(rp.get("ops", [])) + "\n")
        results.append(judge_ops(d, p))
    else:
        jobs = []
        # corpus first
        cdir = os.path.join(VERIF, "corpus", pid)
        if os.path.isdir(cdir):
            for f in sorted(os.listdir(cdir)):
                if f.endswith(".ops"):
                    d = os.path.join(work, "corpus-" + f[:-4])
                    os.makedirs(d, exist_ok=True)
                    shutil.copy(os.path.join(cdir, f), os.path.join(d, "ops.txt"))
                    jobs.append(("corpus", d))
        for (suite, qs, qc, ts, tc) in suites:
            size, chunks = (qs, qc) if tier == "quick" else (ts, tc)
            for c in range(chunks):
                jobs.append((suite, seed, size, c, chunks))
            if tripped and tier == "quick":
                # escalation: every suite once more with another seed — random suites at four times the quick size,
                # enumerations (size = a length or a level) one step deeper — bounded so that a quick check stays quick
                esize = min(ts, qs * 4) if qs >= 20 else min(ts, qs + 1)
                for c in range(tc):
                    jobs.append((suite, seed + 7, esize, c, tc))
        with ThreadPoolExecutor(max_workers=min(16, max(1, len(jobs)))) as ex:
            futs = []
            for j in jobs:
                if j[0] == "corpus":
                    futs.append(ex.submit(judge_ops, j[1], os.path.join(j[1], "ops.txt")))
                else:
                    futs.append(ex.submit(run_chunk, work, j[0], j[1], j[2], j[3], j[4], f"{tier}{j[1]}"))
            results = [f.result() for f in futs]

    stats = {}
    errors = [r for r in results if "error" in r]
    oracle_hits, corr_hits = [], []
    for r in results:
        if "error" in r:
            continue
        for k, v in r["S"].items():
            stats[k] = stats.get(k, 0) + v
        for x in r["O"]:
            if relevant("O", x):
                oracle_hits.append((r, x))
        for x in r["D"]:
            if relevant("D", x):
                corr_hits.append((r, x))

    known = [k for k in known_findings() if k[0] == pid]

    # (a) oracle failures on the implementation -> shrink -> failing input
    seen_keys = set()
    for (r, x) in oracle_hits[:40]:
        if len(violations) + len(known_hits) >= 3:
            break
        hist = history_of(r["ops"], x[0])
        tag = x[1]
        small, hit = shrink(work, hist, lambda kind, y, tag=tag: kind == "O" and y[1] == tag, budget_s=40 if tier == "quick" else 120)
        if hit is None:
            hit = x
            small = hist
        k = key_of(small)
        if k in seen_keys:
            continue
        seen_keys.add(k)
        listed = [kf for kf in known if kf[1] == k]
        if listed:
            known_hits.append((listed[0], small))
            continue
        p = write_replay(f"{tier}-{seed}-{len(violations)}", dict(
            property=pid, kind="failing-input", oracle=f"{hit[1]}: {hit[2]}", key=k, ops=small,
            readable=[pretty_op(l) for l in small], found_in=os.path.relpath(r["dir"], VERIF)))
        violations.append((p, ""))

    # (b) correspondence / proof obligations broken, no oracle failure found
    if not violations and not known_hits:
        pan = next(((r, x) for (r, x) in corr_hits if x[2].split("\t")[0].startswith("panic")), None)
        if pan:
            # the real crate panicked where the model returns a value: a concrete input on which the call yields no result
            # at all (for C14: the error cannot be rendered)
            r, x = pan
            hist = history_of(r["ops"], x[0])
            small, hit = shrink(work, hist, lambda kind, y: kind == "D" and y[2].split("\t")[0].startswith("panic"), budget_s=40)
            div = (hit or x)[2]
            p = write_replay(f"{tier}-{seed}-panic", dict(
                property=pid, kind="failing-input", oracle="PANIC: the implementation panicked instead of returning (message in hex): " + div.split("\t")[0],
                ops=small, readable=[pretty_op(l) for l in small]))
            violations.append((p, ""))
        if violations:
            pass
        elif corr_hits:
            r, x = corr_hits[0]
            hist = history_of(r["ops"], x[0])
            cls = x[1]
            small, hit = shrink(work, hist, lambda kind, y, cls=cls: kind == "D" and y[1] == cls, budget_s=40)
            p = write_replay(f"{tier}-{seed}-corr", dict(
                property=pid, kind="no-failing-input-found", theorem_or_stream=f"correspondence stream '{cls}' (model vs implementation)",
                detail="the Lean model and the implementation disagree on an observable this property talks about, and no oracle failure was found "
                       "by the suites of this run; the property is no longer shown to hold",
                first_divergence=(hit or x)[2] if (hit or x) else "", ops=small, readable=[pretty_op(l) for l in small],
                disagreements=len(corr_hits)))
            violations.append((p, " no-failing-input-found"))
        elif lean["failures"]:
            p = write_replay(f"{tier}-{seed}-proof", dict(
                property=pid, kind="no-failing-input-found", theorem_or_stream="; ".join(lean["failures"]),
                detail="a proof obligation (theorem, generated fact or audit) no longer checks; the suites of this run found no failing input"))
            violations.append((p, " no-failing-input-found"))
        elif errors:
            # a harness abort (stack overflow, allocation failure) is a crash of the real code on a concrete input file
            e = errors[0]
            p = write_replay(f"{tier}-{seed}-abort", dict(property=pid, kind="failing-input" if pid == "C07" else "no-failing-input-found",
                                                        theorem_or_stream="harness execution", detail=e["error"], dir=e["dir"]))
            violations.append((p, "" if pid == "C07" else " no-failing-input-found"))

    for (kf, small) in known_hits:
        print(f"KNOWN-FINDING: property={pid} {kf[2]}")
    for (p, suffix) in violations:
        print(f"VIOLATION property={pid} replay={p}{suffix}")

    evaluations = sum(v for k, v in stats.items() if k.startswith("ops."))
    samples = []
    for r in results:
        if "error" in r or not os.path.exists(os.path.join(r["dir"], "full.txt")):
            continue
        ops = open(os.path.join(r["dir"], "full.txt")).read().splitlines()
        imp = open(os.path.join(r["dir"], "impl.txt")).read().splitlines()
        picks = [i for i, l in enumerate(ops) if l.split(" ")[0] in ("search", "insert", "delete", "parse")][5:400:97][:3]
        for i in picks:
            samples.append(dict(op=pretty_op(ops[i])[:200], impl=imp[i][:200], model="identical" if not any(x[0] == i for x in r["D"]) else "differs"))
        if len(samples) >= 6:
            break
    cov = dict(
        obligations=max(1, lean["obligations"]),
        discharged=lean["discharged"],
        checker_cmd=lean["checker_cmd"], trusted_base=TRUSTED,
        theorems=theorem_names(pid), proof_failures=lean["failures"],
        translator_facts={k: lean["generated"].get(k, "unavailable") for k in FACTS.get(pid, [])},
        tripwires={k: ("as pinned" if k not in tripped else f"deviates (now {tripped[k]['now']}); suites escalated (4x random histories / one enumeration level deeper, other seed)") for k in TRIPWIRES.get(pid, {})},
        evaluations=evaluations, distinct_nontrivial=stats.get("nt." + NT_OF[pid], 0),
        rule="operations executed on the real crate and replayed on the Lean model; distinct_nontrivial = " + NT[NT_OF[pid]] +
             " (counted by the Lean driver per chunk and summed; chunks of an enumeration are disjoint)",
        samples=samples or [dict(note="no operations ran")],
        traces_validated_against_impl=len([r for r in results if "error" not in r]),
        disagreements_checked=len(corr_hits), oracle_failures=len(oracle_hits),
        suites=[dict(suite=s[0], size=(s[1] if tier == "quick" else s[3]), chunks=(s[2] if tier == "quick" else s[4])) for s in suites],
        suites_planned_not_built=[s[0] for s in spec["suites"] if s[0] not in implemented_suites()],
        hooks="available" if hooks else "unavailable", counters=stats, harness_errors=[e["error"] for e in errors], log=log,
    )
    write_evidence(pid, tier, seed, t0, cov, len(violations))
    if not violations and not replay:
        # disk: a clean run keeps only logs and verdicts
        for r in results:
            for n in ("ops.txt", "full.txt", "impl.txt"):
                try:
                    os.remove(os.path.join(r["dir"], n))
                except OSError:
                    pass
    return 1 if violations else 0


_suites = None


def implemented_suites():
    global _suites
    if _suites is None:
        rc, out = sh([WFH, "suites"])
        _suites = set(out.split())
    return _suites


def write_evidence(pid, tier, seed, t0, cov, violations):
    ev = dict(property_id=pid, tier=tier, seed=seed, level="proof", coverage=cov,
              assumptions=["constraint functions are pure", "inputs shorter than 2^31 bytes", "stack depth, allocation and time are outside the model"],
              wall_s=round(time.time() - t0, 2), violations=violations)
    json.dump(ev, open(os.path.join(VERIF, "evidence", pid + ".json"), "w"), indent=1, ensure_ascii=False)


if __name__ == "__main__":
    sys.exit(main())
