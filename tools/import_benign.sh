#!/bin/sh
# usage: import_benign.sh <worktree> <benign-id>   copies out/patch.diff of a behaviour-preserving change into benign/<id>/,
# confirms in a scratch worktree that it applies and that the existing suite passes, then runs EVERY quick check against it.
wt=$1; id=$2
d=/verif/benign/$id; mkdir -p $d
cp $wt/out/patch.diff $d/patch.diff; cp $wt/out/notes.md $d/notes.md 2>/dev/null
c=/tmp/confirm-wt
export CARGO_NET_OFFLINE=true
[ -d $c ] || git -C /repo worktree add -q $c HEAD
cd $c && git checkout -q -- . && git clean -fdq -e target && git checkout -q --detach $(git -C /repo rev-parse HEAD)
git apply $d/patch.diff || { echo "== $id patch does not apply"; exit 1; }
suite=$(cargo test --offline -p wayfind 2>&1 | grep -E "^test result" | awk '{p+=$4; f+=$6} END{print p" "f}')
git checkout -q -- . && git clean -fdq -e target
echo "== $id suite passed/failed with change: $suite"
/verif/tools/try_patch.sh $d/patch.diff C01 C02 C03 C04 C05 C06 C07 C08 C09 C10 C11 C12 C13 C14 C15 C16 C17 C18 C19 2>&1 | sed "s/^/   $id /"
