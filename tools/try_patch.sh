#!/bin/sh
# usage: try_patch.sh <patch.diff> <Cxx>...   applies the patch to /repo, runs the quick checks, reverts.
# The evidence files written while the patch is applied are thrown away afterwards (evidence must describe /repo itself).
patch=$1; shift
cd /repo && git apply "$patch" || { echo "patch does not apply"; exit 2; }
for p in "$@"; do
  out=$(cd /verif && ./check $p quick 2>&1 | grep -E "^VIOLATION|^KNOWN|machinery" | head -3)
  echo "$p: ${out:-no alarm}"
done
cd /repo && git checkout -- . && git clean -fdq -- src tests examples && git status --short | head -3
cd /verif && git checkout -- evidence && python3 tools/extract.py >/dev/null
