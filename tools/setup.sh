#!/bin/sh
# Builds the framework from files on disk only (offline): the Rust harness against /repo, the Lean library
# (model, specs, proofs, property theorems) and the model driver.
set -e
cd "$(dirname "$0")/.."
export CARGO_NET_OFFLINE=true
(cd harness && RUSTFLAGS="--cfg wayfind_verif" cargo build --offline 2>&1 | tail -2)
python3 tools/extract.py >/dev/null
(cd lean && lake build Wayfind wfmodel 2>&1 | grep -E "^error|error:|Build completed" || true)
test -x lean/.lake/build/bin/wfmodel
test -x harness/target/debug/wfh
echo setup-ok
