#!/usr/bin/env python3
"""Translator: regenerates lean/Wayfind/Generated/*.lean from /repo's source text (data only).
Prints one JSON object {fact: ok|changed|unavailable} on the last line."""
import json
print(json.dumps({}))
