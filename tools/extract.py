#!/usr/bin/env python3
"""Translator: regenerates lean/Wayfind/Generated/Facts.lean from /repo's source text on every run.

Deliberately dumb: regular expressions over specific items, output is *data only* (lists of byte lists / numbers).
The theorems over this data live in lean/Wayfind/Theorems/*.lean (`decide`), so an edit to one of these tables breaks
a proof obligation directly. An item whose shape is no longer recognised is emitted as an empty list and reported as
"unavailable": the property then rests on the behavioural tie alone.
Prints one JSON object {fact: ok|unavailable} on the last line.
"""
import json
import os
import re
import sys

REPO = "/repo"
OUT = os.path.join(os.path.dirname(os.path.dirname(os.path.abspath(__file__))), "lean", "Wayfind", "Generated", "Facts.lean")


def read(p):
    try:
        return open(os.path.join(REPO, p), encoding="utf-8").read()
    except OSError:
        return ""


def all_rs(root):
    out = []
    for base, _, files in os.walk(os.path.join(REPO, root)):
        for f in sorted(files):
            if f.endswith(".rs") and f != "verif.rs":
                out.append(os.path.relpath(os.path.join(base, f), REPO))
    return sorted(out)


def read_where(expected, pattern, root="src"):
    """the text of the file `expected`; if the pattern is not (or no longer) in it — the item moved in a
    reorganisation of the modules — the text of the first source file under `root` that contains it"""
    src = read(expected)
    if re.search(pattern, src):
        return src
    for rel in all_rs(root):
        t = read(rel)
        if re.search(pattern, t):
            return t
    return src


def strip_comments(src):
    src = re.sub(r"//[^\n]*", "", src)
    return src


def bl(s):
    return "[" + ", ".join(str(b) for b in s.encode()) + "]"


def lst(items):
    return "[" + ", ".join(items) + "]"


status = {}
out = []

# --- C13: built-in constraints: (NAME, implementing type) in source order, and the registration order of Router::new
src = strip_comments(read_where("src/constraints.rs", r"impl\s+Constraint\s+for\s+u8\b"))
impls = re.findall(r"impl\s+Constraint\s+for\s+(\w+)\s*\{\s*const\s+NAME\s*:\s*&'static\s+str\s*=\s*\"([^\"]*)\"", src)
checks = re.findall(r"impl\s+Constraint\s+for\s+(\w+)\s*\{.*?fn\s+check\s*\([^)]*\)\s*->\s*bool\s*\{\s*(.*?)\s*\}\s*\}", src, flags=re.S)
status["builtin_impls"] = "ok" if impls else "unavailable"
out.append("/-- `impl Constraint for T { const NAME = … }` of src/constraints.rs: (NAME, T) -/")
out.append("def builtinImpls : List (Bytes × Bytes) := " + lst(f"({bl(n)}, {bl(t)})" for t, n in impls))
# every built-in check must be `part.parse::<Self>().is_ok()`
fromstr = [t for t, body in checks if re.sub(r"\s+", "", body) == "part.parse::<Self>().is_ok()"]
status["builtin_checks"] = "ok" if checks else "unavailable"
out.append("/-- the types whose `check` is literally `part.parse::<Self>().is_ok()` -/")
out.append("def builtinFromStr : List Bytes := " + lst(bl(t) for t in fromstr))
rsrc = strip_comments(read_where("src/router.rs", r"router\.constraint::<u8>\(\)"))
m = re.search(r"pub fn new\(\)\s*->\s*Self\s*\{(.*?)\n    \}", rsrc, flags=re.S)
regs = re.findall(r"router\.constraint::<(\w+)>\(\)", m.group(1)) if m else []
status["builtin_registrations"] = "ok" if regs else "unavailable"
out.append("/-- `router.constraint::<T>()` calls of `Router::new`, in order -/")
out.append("def builtinRegistrations : List Bytes := " + lst(bl(t) for t in regs))

# --- C11: characters that are not allowed in parameter and constraint names
psrc = strip_comments(read_where("src/parser.rs", r"INVALID_PARAM_CHARS\s*:"))
m = re.search(r"const\s+INVALID_PARAM_CHARS\s*:\s*\[u8;\s*\d+\]\s*=\s*\[(.*?)\];", psrc, flags=re.S)
chars = re.findall(r"b'(\\?.)'", m.group(1)) if m else []
status["invalid_param_chars"] = "ok" if chars else "unavailable"
out.append("/-- `INVALID_PARAM_CHARS` of src/parser.rs -/")
out.append("def invalidParamChars : Bytes := " + lst(str(ord(c[-1])) for c in chars))

# --- C03 / C15: order of the kinds in Node::search and in Display
ssrc = strip_comments(read_where("src/node/search.rs", r"pub fn search<"))
m = re.search(r"pub fn search<.*?\n    \}\n", ssrc, flags=re.S)
KIND = {"static": 0, "dynamic_constrained": 1, "dynamic": 2, "wildcard_constrained": 3, "wildcard": 4,
        "end_wildcard_constrained": 5, "end_wildcard": 6}
order = []
if m:
    for name in re.findall(r"self\s*\.\s*search_(\w+?)(?:_segment|_inline)?\s*\(", m.group(0)):
        k = KIND.get(name)
        if k is not None and (not order or order[-1] != k):
            order.append(k)
status["search_kind_order"] = "ok" if order else "unavailable"
out.append("/-- kinds in the order `Node::search` tries them (0 = literal … 6 = catch-all) -/")
out.append("def searchKindOrder : List Nat := " + lst(str(k) for k in order))
dsrc = strip_comments(read("src/node/display.rs"))
dorder = [KIND[n] for n in re.findall(r"for\s+child\s+in\s+&node\.(\w+?)_children\b", dsrc) if n in KIND]
status["display_kind_order"] = "ok" if dorder else "unavailable"
out.append("/-- kinds in the order `Display` prints the child vectors -/")
out.append("def displayKindOrder : List Nat := " + lst(str(k) for k in dorder))

# --- C18: no unsafe code, no interior mutability, search takes &self
cargo = read("Cargo.toml")
forbid = 1 if re.search(r"unsafe_code\s*=\s*\"forbid\"", cargo) else 0
toks = 0
for root, _, files in os.walk(os.path.join(REPO, "src")):
    for f in files:
        if f.endswith(".rs") and f != "verif.rs":
            s = strip_comments(open(os.path.join(root, f), encoding="utf-8").read())
            toks += len(re.findall(r"\b(Cell|RefCell|OnceCell|Mutex|RwLock|Atomic\w*|UnsafeCell|thread_local|LazyLock|OnceLock)\b|static\s+mut\b|\bRc<", s))
selfref = 1 if re.search(r"pub fn search<'r, 'p>\(\s*&'r self", rsrc) else 0
status["interior_mutability"] = "ok"
out.append("/-- `unsafe_code = \"forbid\"` present in Cargo.toml (1/0) -/")
out.append(f"def unsafeForbidden : Nat := {forbid}")
out.append("/-- occurrences of interior-mutability / global-state tokens in src/ (comments stripped, hook module excluded) -/")
out.append(f"def interiorMutabilityTokens : Nat := {toks}")
out.append("/-- `Router::search` takes `&self` (1/0) -/")
out.append(f"def searchTakesSharedRef : Nat := {selfref}")

# --- C17: the OCI example's route table and name pattern
# string constants of the example (`const X: &str = "…";` / `static X: &str = r"…";`), so that a table written with names
# instead of literals is still read
oci_consts = {}
for rel in all_rs("examples/oci/src"):
    for cm in re.finditer(r"(?:const|static)\s+([A-Z_][A-Z0-9_]*)\s*:\s*&(?:'static\s+)?str\s*=\s*(r?)\"(.*?)\"\s*;", strip_comments(read(rel)), flags=re.S):
        oci_consts[cm.group(1)] = cm.group(3)


def oci_str(tok):
    tok = tok.strip()
    m_ = re.fullmatch(r"r?\"(.*)\"", tok, flags=re.S)
    if m_:
        return m_.group(1)
    return oci_consts.get(tok.split("::")[-1], tok)


# lib.rs first (registration order), then every other file of the example (registrations may live next to the handlers)
osrc = "\n".join(strip_comments(read(rel)) for rel in ["examples/oci/src/lib.rs"] + [r_ for r_ in all_rs("examples/oci/src") if r_ != "examples/oci/src/lib.rs"])
routes = []
METHOD = r"(?:\w+::)*Method::(\w+)"


def route_calls(text, var=None, methods=()):
    """(method, template, handler) of the `X.route(M, T, h)` calls in `text`; with `var`, calls whose first argument is that
    loop variable count once for every method of the loop"""
    found = []
    for call in re.findall(r"\.route\((.*?)\)\s*;", text, flags=re.S):
        parts = [p_.strip() for p_ in call.split(",") if p_.strip()]
        if len(parts) < 3:
            continue
        mm = re.fullmatch(METHOD, parts[0])
        if mm:
            found.append((mm.group(1), oci_str(parts[1]), parts[2].split("::")[-1]))
        elif var and re.fullmatch(re.escape(var) + r"(\.clone\(\))?", parts[0]):
            for m_ in methods:
                found.append((m_, oci_str(parts[1]), parts[2].split("::")[-1]))
    return found


# registrations inside `for m in [Method::A, Method::B] { … }` first, then the direct ones
rest_src = osrc
for lm in list(re.finditer(r"for\s+(\w+)\s+in\s+\[(.*?)\]\s*\{((?:[^{}]|\{[^{}]*\})*)\}", osrc, flags=re.S)):
    ms = re.findall(METHOD, lm.group(2))
    if ms:
        routes += route_calls(lm.group(3), lm.group(1), ms)
        rest_src = rest_src.replace(lm.group(0), "")
routes += route_calls(rest_src)
if not routes:
    # a table of (Method::M, template, handler) tuples registered in a loop
    for m_, t_, h_ in re.findall(r"\(\s*" + METHOD + r"\s*,\s*(r?\"[^\"]*\"|[A-Za-z_][\w:]*)\s*,\s*([\w:]+)\s*,?\s*\)", osrc):
        routes.append((m_, oci_str(t_), h_.split("::")[-1]))
status["oci_routes"] = "ok" if routes else "unavailable"
# the same table for the harness (one reader of the example's source, not two)
with open(os.path.join(os.path.dirname(OUT), "oci_routes.tsv"), "w") as f_:
    for m_, t_, h_ in routes:
        f_.write(f"{m_}\t{t_}\t{h_}\n")
out.append("/-- `router.route(Method::M, \"template\", handler)` calls of examples/oci/src/lib.rs: (M, template, handler) -/")
out.append("def ociRoutes : List (Bytes × Bytes × Bytes) := " + lst(f"({bl(m_)}, {bl(t)}, {bl(h)})" for m_, t, h in routes))
nsrc = read_where("examples/oci/src/constraints/name.rs", r"Regex::new\(", root="examples/oci/src")
m = re.search(r"Regex::new\(\s*(r?\".*?\"|[A-Za-z_][\w:]*)\s*\)", nsrc, flags=re.S)
pattern = oci_str(m.group(1)) if m else ""
if m and pattern == m.group(1).strip():
    pattern = ""    # a name that is not a string constant of the example
status["oci_name_pattern"] = "ok" if pattern else "unavailable"
out.append("/-- the regular expression literal of examples/oci/src/constraints/name.rs -/")
out.append("def ociNamePattern : Bytes := " + bl(pattern))
m = re.search(r"const\s+NAME\s*:\s*&'static\s+str\s*=\s*\"([^\"]*)\"", nsrc)
out.append("def ociConstraintName : Bytes := " + bl(m.group(1) if m else ""))

# --- C17: what the example hands to `Router::search` — the glue between a request and the route table. The expression is
# followed back through `let` bindings; borrowing and copying (`&`, `to_owned`, `to_string`, `clone`, `as_str`, `into`, …) are
# the identity on the text; whatever is left is the provenance of the searched path (`REQ.uri().path()` on the unchanged tree).
IDENT_SUFFIX = re.compile(r"\.(?:to_owned|to_string|into_owned|clone|as_str|as_ref|into|borrow|to_str|as_deref)\(\)$")


def balanced_arg(src, start):
    """text between the parenthesis opened at src[start-1] and its partner"""
    depth, i = 1, start
    while i < len(src) and depth:
        depth += src[i] in "([{"
        depth -= src[i] in ")]}"
        i += 1
    return src[start:i - 1]


def bound_expr(src, pos, var):
    """(expression, position, through a pattern?) of the last `let` before pos that binds var"""
    best = None
    for m_ in re.finditer(r"let\s+(?:(Ok|Some)\(\s*)?(?:mut\s+)?" + re.escape(var) + r"\s*\)?\s*(?::[^=;]+)?=(?!=)", src[:pos]):
        best = m_
    if not best:
        return None
    i, depth = best.end(), 0
    while i < len(src):
        c = src[i]
        if depth == 0 and (c == ";" or re.match(r"\belse\b", src[i:])):
            break
        depth += c in "([{"
        depth -= c in ")]}"
        i += 1
    return src[best.end():i].strip(), best.start(), bool(best.group(1))


def provenance(src, call_pos, expr):
    pos = call_pos
    for _ in range(12):
        expr = expr.strip()
        changed = True
        while changed:
            changed = False
            e2 = re.sub(r"^[&*]\s*(?:mut\s+)?", "", expr)
            e2 = IDENT_SUFFIX.sub("", e2)
            m_ = re.fullmatch(r"(?:String::from|Cow::from|Cow::Borrowed|std::borrow::Cow::Borrowed)\((.*)\)", e2, flags=re.S)
            if m_:
                e2 = m_.group(1).strip()
            if e2 != expr:
                expr, changed = e2, True
        m_ = re.fullmatch(r"([A-Za-z_]\w*)((?:\..*)?)", expr, flags=re.S)
        if m_:
            b_ = bound_expr(src, pos, m_.group(1))
            if not b_:
                break
            head, pos, _ = b_
            # the receiver of a method chain is resolved too (`let uri = req.uri().clone(); … uri.path()`)
            head = IDENT_SUFFIX.sub("", re.sub(r"^[&*]\s*", "", head.strip()))
            expr = head + m_.group(2)
            continue
        break
    expr = re.sub(r"\s+", "", expr)
    return re.sub(r"^[A-Za-z_]\w*(?=\.uri\(\)\.path\(\)$)", "REQ", expr)


def split_top(args):
    parts, depth, cur = [], 0, ""
    for c in args:
        if c == "," and depth == 0:
            parts.append(cur)
            cur = ""
            continue
        depth += c in "([{<"
        depth -= c in ")]}>"
        cur += c
    if cur.strip():
        parts.append(cur)
    return [p_.strip() for p_ in parts]


def through_calls(src_, call_pos, arg, depth=0):
    """provenance of `arg` at call_pos; a parameter of the enclosing function is followed to that function's call site"""
    fn_start = max(0, src_.rfind(" fn ", 0, call_pos))
    prov = provenance(src_[fn_start:], call_pos - fn_start, arg)
    m_ = re.match(r"\s*fn\s+(\w+)\s*(?:<[^>]*>)?\s*\(", src_[fn_start:])
    if depth < 3 and m_ and re.fullmatch(r"[A-Za-z_]\w*", prov):
        params = [p_ for p_ in split_top(balanced_arg(src_, fn_start + m_.end())) if not re.fullmatch(r"&?\s*(?:'\w+\s+)?(?:mut\s+)?self", p_)]
        names = [re.sub(r"^mut\s+", "", p_.split(":")[0].strip()) for p_ in params]
        if prov in names:
            for c_ in re.finditer(r"(?<!fn )\b" + m_.group(1) + r"\(", src_):
                if src_[max(0, c_.start() - 3):c_.start()] == "fn ":
                    continue
                args = split_top(balanced_arg(src_, c_.end()))
                if len(args) == len(names):
                    return through_calls(src_, c_.start(), args[names.index(prov)], depth + 1)
    return prov


search_arg = ""
for rel in all_rs("examples/oci/src"):
    src_ = strip_comments(read(rel))
    m_ = re.search(r"\.search\(", src_)
    if m_:
        search_arg = through_calls(src_, m_.start(), balanced_arg(src_, m_.end()))
        break
status["oci_search_arg"] = "ok" if search_arg else "unavailable"
out.append("/-- provenance of the path the example hands to `Router::search` (borrowing and copying removed) -/")
out.append("def ociSearchArg : Bytes := " + bl(search_arg))

# --- C19: the format strings of the route-table errors (`impl Display` of src/errors/{insert,delete,constraint}.rs)
def unescape(lit, raw):
    return lit if raw else lit.encode("utf-8").decode("unicode_escape").encode("latin-1").decode("utf-8")


def str_expr(expr, consts):
    """the value of a string expression made of literals, `concat!( … )` of such, and constants of the file"""
    expr = expr.strip().rstrip(",").strip()
    m_ = re.fullmatch(r"(r?)\"((?:\\.|[^\"\\])*)\"", expr, flags=re.S)
    if m_:
        return unescape(m_.group(2), m_.group(1))
    m_ = re.fullmatch(r"concat!\s*\((.*)\)", expr, flags=re.S)
    if m_:
        parts = [str_expr(p_.group(0), consts) for p_ in re.finditer(r"r?\"(?:\\.|[^\"\\])*\"|[A-Za-z_]\w*", m_.group(1))]
        return None if any(p_ is None for p_ in parts) else "".join(parts)
    return consts.get(expr)


def display_formats(rel):
    """[(Variant, format string)] of the `write!(f, FMT, args…)` arms of the `impl Display`, in source order. FMT is a string
    literal or `concat!` of literals; a named argument bound to a string constant of the file (`help = CONFLICT_HELP`) is
    substituted into the format, so that what is left are the payload fields"""
    src_ = read_where(rel[0], r"impl\s+Display\s+for\s+" + rel[1] + r"\b")
    consts = {}
    for _ in range(3):      # constants may be built from constants
        for cm in re.finditer(r"const\s+([A-Z_][A-Z0-9_]*)\s*:\s*&(?:'static\s+)?str\s*=\s*(.*?);", src_, flags=re.S):
            v = str_expr(cm.group(2), consts)
            if v is not None:
                consts[cm.group(1)] = v
    m_ = re.search(r"impl\s+Display\s+for\s+" + rel[1] + r"\s*\{(.*?)\n\}\n", src_, flags=re.S)
    if not m_:
        return []
    body_ = m_.group(1)
    res = []
    arms = list(re.finditer(r"Self::(\w+)\s*(\{[^{}]*\}|\([^()]*\))?\s*=>", body_))
    for i_, a in enumerate(arms):
        seg = body_[a.end(): arms[i_ + 1].start() if i_ + 1 < len(arms) else len(body_)]
        w = re.search(r"write!\(\s*f\s*,\s*(r?\"(?:\\.|[^\"\\])*\"|concat!\s*\((?:[^()]|\([^()]*\))*\))\s*(,.*?)?\)\s*[,}\n]", seg, flags=re.S)
        if not w:
            continue
        text = str_expr(w.group(1), consts)
        if text is None:
            continue
        for am in re.finditer(r"(\w+)\s*=\s*([A-Z_][A-Z0-9_]*)\b", w.group(2) or ""):
            if am.group(2) in consts:
                text = text.replace("{" + am.group(1) + "}", consts[am.group(2)].replace("{", "{{").replace("}", "}}"))
        res.append((a.group(1), text, seg))
    return res


fmts = []
for rel in [("src/errors/insert.rs", "InsertError"), ("src/errors/delete.rs", "DeleteError"), ("src/errors/constraint.rs", "ConstraintError")]:
    fmts += display_formats(rel)
status["error_formats"] = "ok" if len(fmts) >= 5 else "unavailable"
out.append("/-- (variant, format string) of the `write!` arms of the Display impls of InsertError, DeleteError, ConstraintError -/")
out.append("def errorFormats : List (Bytes × Bytes) := " + lst(f"({bl(v)}, {bl(t)})" for v, t, _ in fmts))
# the list of conflicts: `conflicts.iter().map(|conflict| format!("…{conflict}")).collect::<Vec<_>>().join("…")<more calls>`
item, sep, chain = "", "", []
for v, t, seg in fmts:
    if v == "Conflict":
        mi = re.search(r"format!\(\s*\"(.*?)\"\s*\)", seg, flags=re.S)
        mj = re.search(r"\.collect::<Vec<_>>\(\)(.*?);", seg, flags=re.S)
        if mi:
            item = mi.group(1)
        if mj:
            chain = re.findall(r"\.(\w+)\(", mj.group(1))
            ms = re.search(r"\.join\(\s*\"(.*?)\"\s*\)", mj.group(1), flags=re.S)
            if ms:
                sep = ms.group(1).encode("utf-8").decode("unicode_escape")
status["conflict_list_format"] = "ok" if item and chain else "unavailable"
out.append("/-- how `Conflict` renders its list: the per-item format string, the separator, and the methods applied after `collect` -/")
out.append("def conflictItemFormat : Bytes := " + bl(item))
out.append("def conflictSeparator : Bytes := " + bl(sep))
out.append("def conflictChain : List Bytes := " + lst(bl(c) for c in chain))

# --- C07: panic sites per file: index/slice expressions, unwrap/expect, explicit subtraction
sites = []
for rel in ["src/parser.rs", "src/router.rs", "src/node/insert.rs", "src/node/find.rs", "src/node/delete.rs", "src/node/search.rs",
            "src/node/optimize.rs", "src/node/display.rs", "src/nodes.rs", "src/errors/template.rs"]:
    s = strip_comments(read(rel))
    s = s.split("#[cfg(test)]")[0]
    s = re.sub(r'r?"(\\.|[^"\\])*"', '""', s)
    idx = len(re.findall(r"[\w\)\]]\[[^\[\]\n]*\]", s))
    unw = len(re.findall(r"\.(unwrap|expect)\(", s))
    sub = len(re.findall(r"[\w\)]\s-\s[\w\(]|-=", s))
    sites.append((rel, idx, unw, sub))
status["panic_sites"] = "ok" if any(x[1] for x in sites) else "unavailable"
out.append("/-- per file: (index or slice expressions, unwrap/expect calls, subtractions) outside tests, comments and strings -/")
out.append("def panicSites : List (Bytes × Nat × Nat × Nat) := " + lst(f"({bl(r)}, {a}, {b}, {c})" for r, a, b, c in sites))

body = "import Wayfind.Model.Basic\n\n/-! GENERATED by tools/extract.py from /repo's source text — do not edit; regenerated on every run. -/\nnamespace Generated\n\n" + "\n".join(out) + "\n\nend Generated\n"
os.makedirs(os.path.dirname(OUT), exist_ok=True)
old = open(OUT).read() if os.path.exists(OUT) else None
if old != body:
    open(OUT, "w").write(body)
# --- C05 / C03: which method of `Nodes` (src/nodes.rs) does what to the `sorted` flag (tripwire: the model of the cache,
# Model/NodesCache.lean, mirrors this table)
nsrc_ = strip_comments(read_where("src/nodes.rs", r"struct\s+Nodes\b"))
cache_ops = {}
for fm in re.finditer(r"fn\s+(\w+)\s*(?:<[^>]*>)?\s*\([^)]*\)[^{;]*\{((?:[^{}]|\{(?:[^{}]|\{[^{}]*\})*\})*)\}", nsrc_, flags=re.S):
    name_, body_ = fm.group(1), fm.group(2)
    if name_ in ("new", "push", "remove", "iter_mut", "index_mut", "sort", "default"):
        eff = "true" if re.search(r"self\.sorted\s*=\s*true", body_) else "false" if re.search(r"sorted\s*[:=]\s*false", body_) else "keep"
        if name_ == "sort" and re.search(r"if\s+self\.sorted\s*\{\s*return", body_):
            eff += "+early-return"
        cache_ops[name_] = eff
status["nodes_cache_ops"] = "ok" if cache_ops else "unavailable"
status["_values"] = {"nodes_cache_ops": cache_ops, "search_kind_order": order, "display_kind_order": dorder, "panic_sites": [[r, a, b, c] for r, a, b, c in sites]}
print(json.dumps(status))
