import Wayfind.Model.Optimize

def Node.isEmptyN : Node → Bool
  | .mk x s dc d wc w ec e _ _ _ => x.isNone && s.isNil && dc.isNil && d.isNil && wc.isNil && w.isNil && ec.isNil && e.isNil

def Kids.single : Kids → Option (Label × Node)
  | .cons l n .nil => some (l, n)
  | _ => none

/-- `is_compressible`: no data, exactly one static child, nothing else -/
def Node.compress? : Node → Option (Label × Node)
  | .mk x s dc d wc w ec e _ _ _ =>
    if x.isNone && dc.isNil && d.isNil && wc.isNil && w.isNil && ec.isNil && e.isNil then s.single else none

def Node.setDirty : Node → Node
  | .mk x s dc d wc w ec e ds ws _ => .mk x s dc d wc w ec e ds ws true

/-- what `delete_static` does to the child after the recursive call: prune, merge, or keep -/
def afterStatic (l : Label) (n' : Node) (r : Kids) : Kids × Bool :=
  if n'.isEmptyN then (r, true)
  else match n'.compress? with
    | some (lg, g) => (.cons {pre := l.pre ++ lg.pre} g.setDirty r, false)
    | none => (.cons l n' r, false)

mutual
/-- `mark` = the caller has already set `needs_optimization` on this node -/
def Node.delete (mark : Bool) : Node → List Part → Node × Option Info
  | .mk x s dc d wc w ec e ds ws dirty, [] =>
    match x with
    | none => (.mk none s dc d wc w ec e ds ws (dirty || mark), none)
    | some i => (.mk none s dc d wc w ec e ds ws true, some i)
  | .mk x s dc d wc w ec e ds ws dirty, .stat p :: rest =>
    let (s', res, pd) := Kids.deleteStatic s p rest
    (.mk x s' dc d wc w ec e ds ws (dirty || mark || pd), res)
  | .mk x s dc d wc w ec e ds ws dirty, .par k l :: rest =>
    match slotOf k rest.isEmpty with
    | .dc => let (v, res, pd) := Kids.deletePar dc l rest; (.mk x s v d wc w ec e ds ws (dirty || mark || pd), res)
    | .d  => let (v, res, pd) := Kids.deletePar d l rest; (.mk x s dc v wc w ec e ds ws (dirty || mark || pd), res)
    | .wc => let (v, res, pd) := Kids.deletePar wc l rest; (.mk x s dc d v w ec e ds ws (dirty || mark || pd), res)
    | .w  => let (v, res, pd) := Kids.deletePar w l rest; (.mk x s dc d wc v ec e ds ws (dirty || mark || pd), res)
    | .ec => let (v, res, pd) := Kids.deleteEnd ec l; (.mk x s dc d wc w v e ds ws (dirty || mark || pd), res)
    | .e  => let (v, res, pd) := Kids.deleteEnd e l; (.mk x s dc d wc w ec v ds ws (dirty || mark || pd), res)
termination_by structural n => n
/-- returns the new vector, the removed data, and whether the parent must be marked dirty -/
def Kids.deleteStatic : Kids → Bytes → List Part → Kids × Option Info × Bool
  | .nil, _, _ => (.nil, none, false)
  | .cons l n r, p, rest =>
    if l.pre.isPrefixOf p then
      let remaining := p.drop l.pre.length
      let (n', res) := if remaining.isEmpty then Node.delete true n rest else Node.delete true n (.stat remaining :: rest)
      let (ks, pd) := afterStatic l n' r
      (ks, res, pd)
    else
      let (r', res, pd) := Kids.deleteStatic r p rest
      (.cons l n r', res, pd)
termination_by structural k => k
def Kids.deletePar : Kids → Label → List Part → Kids × Option Info × Bool
  | .nil, _, _ => (.nil, none, false)
  | .cons l' n r, l, rest =>
    if l' = l then
      let (n', res) := Node.delete false n rest
      if n'.isEmptyN then (r, res, true) else (.cons l' n' r, res, false)
    else
      let (r', res, pd) := Kids.deletePar r l rest
      (.cons l' n r', res, pd)
termination_by structural k => k
def Kids.deleteEnd : Kids → Label → Kids × Option Info × Bool
  | .nil, _ => (.nil, none, false)
  | .cons l' n r, l =>
    if l' = l then (r, n.data, n.data.isSome)
    else
      let (r', res, pd) := Kids.deleteEnd r l
      (.cons l' n r', res, pd)
termination_by structural k => k
end

#print axioms Node.delete
