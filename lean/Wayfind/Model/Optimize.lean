import Wayfind.Model.Search

/-! optimize: dirty-gated recursion, per-vector sort, recomputation of the two flags (executable model) -/

def Kids.insertSorted (l : Label) (n : Node) : Kids → Kids
  | .nil => .cons l n .nil
  | .cons l' n' r => if Label.lt l l' then .cons l n (.cons l' n' r) else .cons l' n' (Kids.insertSorted l n r)

/-- insertion sort by the sibling order (keys are unique among siblings) -/
def Kids.sort : Kids → Kids
  | .nil => .nil
  | .cons l n r => Kids.insertSorted l n (Kids.sort r)

def Kids.isNil : Kids → Bool | .nil => true | _ => false

def Kids.allSlashB : Kids → Bool
  | .nil => true
  | .cons l _ r => (l.pre.head? == some 47) && Kids.allSlashB r

/-- the per-child test of `update_*_children_shortcut`: no children at all, or all static children start with '/' -/
def Node.shortOK : Node → Bool
  | .mk _ s dc d wc w ec e _ _ _ =>
    (s.isNil && dc.isNil && d.isNil && wc.isNil && w.isNil && ec.isNil && e.isNil) || s.allSlashB

def Kids.allShortOK : Kids → Bool
  | .nil => true
  | .cons _ n r => n.shortOK && Kids.allShortOK r

mutual
def Node.optimize : Node → Node
  | .mk x s dc d wc w ec e ds ws dirty =>
    if !dirty then .mk x s dc d wc w ec e ds ws dirty else
    let s' := (Kids.optimizeAll s).sort
    let dc' := (Kids.optimizeAll dc).sort
    let d' := (Kids.optimizeAll d).sort
    let wc' := (Kids.optimizeAll wc).sort
    let w' := (Kids.optimizeAll w).sort
    let ec' := (Kids.optimizeAll ec).sort
    let e' := (Kids.optimizeAll e).sort
    .mk x s' dc' d' wc' w' ec' e' (dc'.allShortOK && d'.allShortOK) (wc'.allShortOK && w'.allShortOK) false
termination_by structural n => n
def Kids.optimizeAll : Kids → Kids
  | .nil => .nil
  | .cons l n r => .cons l (Node.optimize n) (Kids.optimizeAll r)
termination_by structural k => k
end
