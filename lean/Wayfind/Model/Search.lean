import Wayfind.Model.Insert

abbrev Params := List (Bytes × Bytes)

/-- constraint answers and the UTF-8 validity test are parameters of every theorem -/
structure Env where
  chk   : Bytes → Bytes → Bool      -- constraint name → value → accepted
  valid : Bytes → Bool

abbrev Res := Option (Info × Params)

def better (r : Info) : Res → Bool
  | none => true
  | some (b, _) => r.depth > b.depth || (r.depth == b.depth && r.length >= b.length)

/-- one capture loop, generic in the continuation `k` (the search of the child) -/
def tryCands (env : Env) (cons : Option Bytes) (name : Bytes) (path : Bytes) (ps : Params)
    (k : Bytes → Params → Res) : List Nat → Res → Res
  | [], best => best
  | c :: cs, best =>
    let v := path.take c
    let ok := env.valid v && (match cons with | some cn => env.chk cn v | none => true)
    let best' :=
      if ok then
        match k (path.drop c) (ps ++ [(name, v)]) with
        | none => best
        | some (r, ps') => if better r best then some (r, ps') else best
      else best
    tryCands env cons name path ps k cs best'

def segLen (path : Bytes) : Nat := (path.takeWhile (· != 47)).length

/-- candidate capture lengths of the byte-wise strategy -/
def candsInline (wild : Bool) (path : Bytes) : List Nat :=
  (List.range (if wild then path.length else segLen path)).map (· + 1)

/-- candidate capture lengths of the whole-segment strategy -/
def candsSegment (wild : Bool) (path : Bytes) : List Nat :=
  if wild then
    (candsInline true path).filter (fun c => c == path.length || (path.drop c).head? == some 47)
  else
    if segLen path = 0 then [] else [segLen path]

def orElse' (a : Res) (b : Res) : Res := match a with | some x => some x | none => b

mutual
def Node.search (env : Env) : Node → Bytes → Params → Res
  | .mk x s dc d wc w ec e ds ws _, path, ps =>
    if path.isEmpty then x.map (·, ps) else
    let cd := if ds then candsSegment false path else candsInline false path
    let cw := if ws then candsSegment true path else candsInline true path
    orElse' (Kids.searchStatic env s path ps) <|
    orElse' (Kids.searchPar env true cd dc path ps) <|
    orElse' (Kids.searchPar env false cd d path ps) <|
    orElse' (Kids.searchPar env true cw wc path ps) <|
    orElse' (Kids.searchPar env false cw w path ps) <|
    orElse' (Kids.searchEndC env ec path ps) (Kids.searchEnd env e path ps)
termination_by structural n => n
def Kids.searchStatic (env : Env) : Kids → Bytes → Params → Res
  | .nil, _, _ => none
  | .cons l n r, path, ps =>
    orElse' (if l.pre.isPrefixOf path then Node.search env n (path.drop l.pre.length) ps else none)
      (Kids.searchStatic env r path ps)
termination_by structural k => k
def Kids.searchPar (env : Env) (constrained : Bool) (cands : List Nat) : Kids → Bytes → Params → Res
  | .nil, _, _ => none
  | .cons l n r, path, ps =>
    orElse' (tryCands env (if constrained then some l.cons else none) l.name path ps (Node.search env n) cands none)
      (Kids.searchPar env constrained cands r path ps)
termination_by structural k => k
/-- constrained catch-alls: the first whose constraint accepts the whole rest -/
def Kids.searchEndC (env : Env) : Kids → Bytes → Params → Res
  | .nil, _, _ => none
  | .cons l n r, path, ps =>
    if env.valid path && env.chk l.cons path then n.data.map (·, ps ++ [(l.name, path)])
    else Kids.searchEndC env r path ps
termination_by structural k => k
/-- unconstrained catch-alls: only the first child is ever consulted -/
def Kids.searchEnd (env : Env) : Kids → Bytes → Params → Res
  | .nil, _, _ => none
  | .cons l n _, path, ps => if env.valid path then n.data.map (·, ps ++ [(l.name, path)]) else none
termination_by structural k => k
end

#print axioms Node.search
def envT : Env := ⟨fun _ _ => true, fun _ => true⟩
def iw : Info := {template := [], data := 9, depth := 2, length := 8}
-- "/{*w}/m"
def tw := Node.insert Node.empty [.stat [47], .par .wild {name := [119]}, .stat [47,109]] iw
example : Node.search envT tw [47,97,47,109,47,98,47,109] [] = some (iw, [([119],[97,47,109,47,98])]) := by decide
