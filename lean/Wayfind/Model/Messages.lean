import Wayfind.Model.Basic
import Wayfind.Generated.Facts

/-! Rendering of the route-table errors (`InsertError`, `DeleteError`, `ConstraintError`): the model *interprets the format
strings that the translator extracts from `src/errors/*.rs` on every run* (Generated/Facts.lean), so this part of the model
is regenerated from the source. The rendered text is compared byte for byte with the implementation's `to_string()` on
every error of every run (class `render`). -/

/-- a piece of a Rust format string: literal text or a named argument `{name}` -/
inductive Seg where
  | lit (b : Bytes)
  | field (name : Bytes)
deriving DecidableEq, Repr

/-- split a format string at `{name}` placeholders (`{{` and `}}` are literal braces); `open` = the name being read -/
def parseFmtAux : Bytes → Option Bytes → List Seg
  | [], none => []
  | [], some acc => [.field acc]
  | b :: rest, some acc => if b = 125 then .field acc :: parseFmtAux rest none else parseFmtAux rest (some (acc ++ [b]))
  | 123 :: 123 :: rest, none => .lit [123] :: parseFmtAux rest none
  | 125 :: 125 :: rest, none => .lit [125] :: parseFmtAux rest none
  | 123 :: rest, none => parseFmtAux rest (some [])
  | b :: rest, none => .lit [b] :: parseFmtAux rest none

def parseFmt (fmt : Bytes) : List Seg := parseFmtAux fmt none

def renderSegs (val : Bytes → Bytes) : List Seg → Bytes
  | [] => []
  | .lit b :: rest => b ++ renderSegs val rest
  | .field n :: rest => val n ++ renderSegs val rest

def renderFmt (fmt : Bytes) (val : Bytes → Bytes) : Bytes := renderSegs val (parseFmt fmt)

def sepJoin (sep : Bytes) : List Bytes → Bytes
  | [] => []
  | [x] => x
  | x :: y :: rest => x ++ sep ++ sepJoin sep (y :: rest)

def fmtOf (variant : Bytes) : Bytes := ((Generated.errorFormats.find? (·.1 == variant)).map (·.2)).getD []

def bConflict : Bytes := [67, 111, 110, 102, 108, 105, 99, 116]
def bUnknownConstraint : Bytes := [85, 110, 107, 110, 111, 119, 110, 67, 111, 110, 115, 116, 114, 97, 105, 110, 116]
def bNotFound : Bytes := [78, 111, 116, 70, 111, 117, 110, 100]
def bMismatch : Bytes := [77, 105, 115, 109, 97, 116, 99, 104]
def bDuplicateName : Bytes := [68, 117, 112, 108, 105, 99, 97, 116, 101, 78, 97, 109, 101]
def fTemplate : Bytes := [116, 101, 109, 112, 108, 97, 116, 101]
def fConflicts : Bytes := [99, 111, 110, 102, 108, 105, 99, 116, 115]
def fConflict : Bytes := [99, 111, 110, 102, 108, 105, 99, 116]
def fConstraint : Bytes := [99, 111, 110, 115, 116, 114, 97, 105, 110, 116]
def fInserted : Bytes := [105, 110, 115, 101, 114, 116, 101, 100]
def fName : Bytes := [110, 97, 109, 101]
def fExisting : Bytes := [101, 120, 105, 115, 116, 105, 110, 103, 95, 116, 121, 112, 101]
def fNew : Bytes := [110, 101, 119, 95, 116, 121, 112, 101]

/-- the rendered list of conflicting templates: every item through the item format, joined by the separator -/
def renderConflictList (cs : List Bytes) : Bytes :=
  sepJoin Generated.conflictSeparator (cs.map (fun c => renderFmt Generated.conflictItemFormat (fun n => if n = fConflict then c else [])))

def renderConflict (t : Bytes) (cs : List Bytes) : Bytes :=
  renderFmt (fmtOf bConflict) (fun n => if n = fTemplate then t else if n = fConflicts then renderConflictList cs else [])
def renderUnknownConstraint (c : Bytes) : Bytes := renderFmt (fmtOf bUnknownConstraint) (fun n => if n = fConstraint then c else [])
def renderNotFound (t : Bytes) : Bytes := renderFmt (fmtOf bNotFound) (fun n => if n = fTemplate then t else [])
def renderMismatch (t i : Bytes) : Bytes :=
  renderFmt (fmtOf bMismatch) (fun n => if n = fTemplate then t else if n = fInserted then i else [])
def renderDuplicateName (name ex new : Bytes) : Bytes :=
  renderFmt (fmtOf bDuplicateName) (fun n => if n = fName then name else if n = fExisting then ex else if n = fNew then new else [])
