import Wayfind.Model.Parser
import Wayfind.Model.Display
import Wayfind.Model.Utf8

/-! `src/router.rs`: the `Router` façade, statement by statement.

State: the root node, the constraint registry (name ↦ type name; the check functions themselves are the
`Env` parameter of `search`), and the strong counts of the `Arc<T>` cells of `NodeData::Shared`. -/

structure Router where
  root : Node := Node.empty
  registry : List (Bytes × Bytes) := []
  rc : List (Nat × Nat) := []
  next : Nat := 0

inductive InsertErr where
  | template (e : TErr)
  | unknownConstraint (c : Bytes)
  | conflict (t : Bytes) (cs : List Bytes)
deriving DecidableEq, Repr

inductive DeleteErr where
  | template (e : TErr)
  | notFound (t : Bytes)
  | mismatch (t inserted : Bytes)
deriving DecidableEq, Repr

inductive ConstraintErr where
  | duplicateName (name existing new : Bytes)
deriving DecidableEq, Repr

structure Match where
  template : Bytes
  expanded : Option Bytes
  data : Nat
  params : Params
deriving DecidableEq, Repr

/-- `Router::constraint::<C>()` with `C::NAME = name`, `type_name::<C>() = ty` -/
def Router.constraint (r : Router) (name ty : Bytes) : Except ConstraintErr Router :=
  match r.registry.find? (fun e => e.1 == name) with
  | some e => .error (.duplicateName name e.2 ty)
  | none => .ok { r with registry := r.registry ++ [(name, ty)] }

def Part.consName : Part → Option Bytes
  | .par .dynC l => some l.cons
  | .par .wildC l => some l.cons
  | _ => none

/-- the unknown-constraint scan: expansions in order; inside one expansion the Rust iterates the *reversed* part
vector, i.e. from the last part to the first -/
def firstUnknown (known : Bytes → Bool) (ts : List (Bytes × List Part)) : Option Bytes :=
  (ts.flatMap (fun t => t.2.reverse.filterMap Part.consName)).find? (fun c => !known c)

def insertBytes (x : Bytes) : List Bytes → List Bytes
  | [] => [x]
  | y :: ys => if lexLt y x || y == x then y :: insertBytes x ys else x :: y :: ys

/-- `Vec<String>::sort` (byte-lexicographic, stable) -/
def sortBytes (l : List Bytes) : List Bytes := l.foldr insertBytes []

/-- `Vec::dedup`: removes consecutive repeats -/
def dedupAdj : List Bytes → List Bytes
  | [] => []
  | [x] => [x]
  | x :: y :: r => if x == y then dedupAdj (y :: r) else x :: dedupAdj (y :: r)

def countSlash (b : Bytes) : Nat := (b.filter (· == 47)).length

def rcGet (rc : List (Nat × Nat)) (c : Nat) : Nat := ((rc.find? (·.1 == c)).map (·.2)).getD 0
def rcSet (rc : List (Nat × Nat)) (c n : Nat) : List (Nat × Nat) :=
  (c, n) :: rc.filter (·.1 != c)

/-- the `NodeData::Shared` value stored for expansion `e` of template `t` -/
def sharedInfo (t : Bytes) (d cell : Nat) (e : Bytes × List Part) : Info :=
  { template := t, expanded := some e.1, data := d, cell := some cell, depth := countSlash e.1, length := e.1.length }

/-- the `NodeData::Inline` value of a template without optional groups -/
def inlineInfo (t : Bytes) (d : Nat) (raw : Bytes) : Info :=
  { template := t, data := d, depth := countSlash raw, length := raw.length }

/-- insertion of the expansions of a multi-expansion template, all sharing cell `cell`. Overwriting a node's data,
or finding a catch-all already present, drops one reference to the cell. Returns the root and the number of drops. -/
def insertShared (t : Bytes) (d cell : Nat) : List (Bytes × List Part) → Node → Nat → Node × Nat
  | [], root, drops => (root, drops)
  | e :: rest, root, drops =>
    let dup := (Node.find root e.2).isSome
    insertShared t d cell rest (Node.insert root e.2 (sharedInfo t d cell e)) (if dup then drops + 1 else drops)

/-- templates of the live routes that collide with an expansion, in expansion order -/
def conflictsOf (root : Node) (ts : List (Bytes × List Part)) : List Bytes :=
  ts.filterMap (fun e => (Node.find root e.2).map (·.template))

/-- the mutation of a successful `Router::insert` -/
def Router.insertOk (r : Router) (t : Bytes) (d : Nat) (ts : List (Bytes × List Part)) : Router :=
  match ts with
  | [(raw, parts)] =>
    { r with root := Node.optimize (Node.insert r.root parts (inlineInfo t d raw)) }
  | _ =>
    let res := insertShared t d r.next ts r.root 0
    { r with root := Node.optimize res.1, rc := rcSet r.rc r.next (ts.length - res.2), next := r.next + 1 }

def Router.insert (r : Router) (t : Bytes) (d : Nat) : Except InsertErr Router :=
  match parseTemplates t with
  | .error e => .error (.template e)
  | .ok ts =>
    match firstUnknown (fun c => r.registry.any (·.1 == c)) ts with
    | some c => .error (.unknownConstraint c)
    | none =>
      match conflictsOf r.root ts with
      | [] => .ok (r.insertOk t d ts)
      | c :: cs => .error (.conflict t (dedupAdj (sortBytes (c :: cs))))

/-- the delete loop: every expansion in order; `output` keeps the last `Some` -/
def deleteAll : List (Bytes × List Part) → Node → List (Nat × Nat) → Option Nat → Node × List (Nat × Nat) × Option Nat
  | [], root, rc, out => (root, rc, out)
  | (_, parts) :: rest, root, rc, out =>
    let (root', res) := Node.delete false root parts
    match res with
    | none => deleteAll rest root' rc out
    | some i =>
      match i.cell with
      | none => deleteAll rest root' rc (some i.data)
      | some c =>
        let n := rcGet rc c - 1
        deleteAll rest root' (rcSet rc c n) (if n = 0 then some i.data else out)

/-- the live template, other than `t`, owning the first expansion that is a live route -/
def mismatchOf (root : Node) (t : Bytes) (ts : List (Bytes × List Part)) : Option Bytes :=
  ts.findSome? (fun e =>
    match Node.find root e.2 with
    | some i => if i.template == t then none else some i.template
    | none => none)

/-- the mutation of a `Router::delete` that got past validation, with its outcome -/
def Router.deleteOk (r : Router) (t : Bytes) (ts : List (Bytes × List Part)) : Except DeleteErr Nat × Router :=
  let res := deleteAll ts r.root r.rc none
  match res.2.2 with
  | none => (.error (.notFound t), { r with root := res.1, rc := res.2.1 })
  | some d => (.ok d, { r with root := Node.optimize res.1, rc := res.2.1 })

/-- `Router::delete`; the second component is the state after the call (it differs from the input state on the
late `NotFound` path of `deleteOk`, which is reachable only when a clone shares a cell) -/
def Router.delete (r : Router) (t : Bytes) : Except DeleteErr Nat × Router :=
  match parseTemplates t with
  | .error e => (.error (.template e), r)
  | .ok ts =>
    match mismatchOf r.root t ts with
    | some ins => (.error (.mismatch t ins), r)
    | none =>
      if ts.any (fun e => (Node.find r.root e.2).isNone) then (.error (.notFound t), r)
      else r.deleteOk t ts

/-- what the API reports about a stored value and the collected parameters -/
def toMatch (x : Info × Params) : Match := ⟨x.1.template, x.1.expanded, x.1.data, x.2⟩

def Router.search (env : Env) (r : Router) (path : Bytes) : Option Match :=
  (Node.search env r.root path []).map toMatch

def Router.display (r : Router) : String := Node.display r.root

/-! `Clone` (repaired, F6): every `Shared` node of the copy gets an `Arc` of its own. -/
mutual
def Node.recell : Node → Nat → Node × Nat
  | .mk x s dc d wc w ec e ds ws dirty, nx =>
    let (x', nx) := match x with
      | some i => (match i.cell with
        | some _ => (some { i with cell := some nx }, nx + 1)
        | none => (some i, nx))
      | none => (none, nx)
    let (s', nx) := Kids.recell s nx
    let (dc', nx) := Kids.recell dc nx
    let (d', nx) := Kids.recell d nx
    let (wc', nx) := Kids.recell wc nx
    let (w', nx) := Kids.recell w nx
    let (ec', nx) := Kids.recell ec nx
    let (e', nx) := Kids.recell e nx
    (.mk x' s' dc' d' wc' w' ec' e' ds ws dirty, nx)
termination_by structural n => n
def Kids.recell : Kids → Nat → Kids × Nat
  | .nil, nx => (.nil, nx)
  | .cons l n r, nx =>
    let (n', nx) := Node.recell n nx
    let (r', nx) := Kids.recell r nx
    (.cons l n' r', nx)
termination_by structural k => k
end

def Router.clone (r : Router) : Router :=
  let (root', nx) := Node.recell r.root 0
  { root := root', registry := r.registry, rc := (List.range nx).map (fun c => (c, 1)), next := nx }
