import Wayfind.Model.Basic

/-! UTF-8 validity as `core::str::from_utf8` decides it (the model's stand-in for `from_utf8(..).is_ok()`). -/

def utf8Valid : Bytes → Bool
  | [] => true
  | b :: rest =>
    if b < 0x80 then utf8Valid rest
    else if b < 0xC2 then false
    else if b < 0xE0 then
      match rest with
      | c :: r => (0x80 ≤ c && c ≤ 0xBF) && utf8Valid r
      | _ => false
    else if b < 0xF0 then
      match rest with
      | c :: d :: r =>
        let lo : UInt8 := if b == 0xE0 then 0xA0 else 0x80
        let hi : UInt8 := if b == 0xED then 0x9F else 0xBF
        (lo ≤ c && c ≤ hi) && (0x80 ≤ d && d ≤ 0xBF) && utf8Valid r
      | _ => false
    else if b < 0xF5 then
      match rest with
      | c :: d :: e :: r =>
        let lo : UInt8 := if b == 0xF0 then 0x90 else 0x80
        let hi : UInt8 := if b == 0xF4 then 0x8F else 0xBF
        (lo ≤ c && c ≤ hi) && (0x80 ≤ d && d ≤ 0xBF) && (0x80 ≤ e && e ≤ 0xBF) && utf8Valid r
      | _ => false
    else false
termination_by l => l.length
