import Wayfind.Model.Parser

/-! # Checked, position-based transcription of `src/parser.rs`
The list-based model `parseTemplates` (Model/Parser.lean) is total by construction. This second transcription keeps the
Rust code's *indices*: every `input[i]`, every `&input[a..b]`, every subtraction on `usize` is an explicit check that
returns `CErr.panic <site>` when the Rust expression would panic. The theorem `parseC_never_panics`
(Proofs/CheckedParser*.lean) shows that no check ever fires, for every input; the driver runs both transcriptions on every
`parse` operation and reports a divergence between them, and the list-based one is compared with the real crate, so the
checked transcription is tied to the code by the same differential run.
Not modelled: `i32`/`usize` wrap-around (needs ≥ 2^31 bytes of nesting / input). -/

inductive CErr where
  | panic (site : String)
  | fuel
  | terr (e : TErr)
deriving Repr, DecidableEq

/-- `input[i]` -/
def getB (input : Bytes) (i : Nat) (site : String) : Except CErr Byte :=
  match input[i]? with
  | some b => .ok b
  | none => .error (.panic site)

/-- `&input[a..b]` -/
def sliceC (input : Bytes) (a b : Nat) (site : String) : Except CErr Bytes :=
  if a ≤ b ∧ b ≤ input.length then .ok ((input.drop a).take (b - a)) else .error (.panic site)

/-- `a - b` on `usize` -/
def subC (a b : Nat) (site : String) : Except CErr Nat :=
  if b ≤ a then .ok (a - b) else .error (.panic site)

mutual
/-- `expand_optional_groups(input, start, end)`; one fuel for the recursion and the `while` loop -/
def expandC (input : Bytes) : Nat → Nat → Nat → Except CErr (List Bytes)
  | 0, _, _ => .error .fuel
  | fuel+1, start, end_ => expandLoopC input fuel start end_ start start 0 [[]]
def expandLoopC (input : Bytes) : Nat → Nat → Nat → Nat → Nat → Nat → List Bytes → Except CErr (List Bytes)
  | 0, _, _, _, _, _, _ => .error .fuel
  | fuel+1, start, end_, cursor, group, depth, result =>
    if cursor < end_ then
      match getB input cursor "expand: input[cursor]" with
      | .error e => .error e
      | .ok b =>
        if b = 92 ∧ (input[cursor + 1]?).isSome then expandLoopC input fuel start end_ (cursor + 2) group depth result
        else if b = 40 then
          if depth = 0 then
            match sliceC input group cursor "expand: input[group..cursor]" with
            | .error e => .error e
            | .ok seg => expandLoopC input fuel start end_ (cursor + 1) (cursor + 1) 1 (result.map (· ++ seg))
          else expandLoopC input fuel start end_ (cursor + 1) group (depth + 1) result
        else if b = 41 then
          if depth = 0 then .error (.terr (.unbalancedParenthesis input cursor))
          else if depth = 1 then
            if cursor = group then
              match subC cursor 1 "expand: cursor - 1" with
              | .error e => .error e
              | .ok p => .error (.terr (.emptyParentheses input p))
            else
              match expandC input fuel group cursor with
              | .error e => .error e
              | .ok inner => expandLoopC input fuel start end_ (cursor + 1) (cursor + 1) 0 (productStep result inner)
          else expandLoopC input fuel start end_ (cursor + 1) group (depth - 1) result
        else expandLoopC input fuel start end_ (cursor + 1) group depth result
    else if depth ≠ 0 then
      match subC (start + group) 1 "expand: start + group - 1" with
      | .error e => .error e
      | .ok p => .error (.terr (.unbalancedParenthesis input p))
    else
      let fin (res : List Bytes) : List Bytes :=
        if start = 0 ∧ end_ = input.length then res.map (fun t => if t.isEmpty then [47] else t) else res
      if group < end_ then
        match sliceC input group end_ "expand: input[group..end]" with
        | .error e => .error e
        | .ok seg => .ok (fin (result.map (· ++ seg)))
      else .ok (fin result)
end

/-- `parse_static_part(input, cursor)`: the prefix and the new cursor -/
def parseStaticC (raw : Bytes) : Nat → Nat → Bytes → Except CErr (Bytes × Nat)
  | 0, _, _ => .error .fuel
  | fuel+1, e, pre =>
    if e < raw.length then
      match getB raw e "static: input[end]" with
      | .error x => .error x
      | .ok b =>
        if b = 92 then
          match raw[e + 1]? with
          | some c => parseStaticC raw fuel (e + 2) (pre ++ [c])
          | none => parseStaticC raw fuel (e + 1) (pre ++ [92])
        else if b = 123 ∨ b = 125 then .ok (pre, e)
        else parseStaticC raw fuel (e + 1) (pre ++ [b])
    else .ok (pre, e)

/-- the brace-counting loop of `parse_parameter_part`: returns `end` and `brace_count` -/
def braceScanC (raw : Bytes) : Nat → Nat → Nat → Except CErr (Nat × Nat)
  | 0, _, _ => .error .fuel
  | fuel+1, e, count =>
    if e < raw.length then
      match getB raw e "param: input[end]" with
      | .error x => .error x
      | .ok b =>
        if b = 123 then braceScanC raw fuel (e + 1) (count + 1)
        else if b = 125 then (if count - 1 = 0 then .ok (e, 0) else braceScanC raw fuel (e + 1) (count - 1))
        else braceScanC raw fuel (e + 1) count
    else .ok (e, count)

/-- the split of the brace content at the first ':' -/
def paramSplitC (content : Bytes) : Except CErr (Bytes × Option Bytes) :=
  match content.idxOf? 58 with
  | some p =>
    match sliceC content 0 p "param: content[..colon]" with
    | .error x => .error x
    | .ok a =>
      match sliceC content (p + 1) content.length "param: content[colon+1..]" with
      | .error x => .error x
      | .ok b => .ok (a, some b)
  | none => .ok (content, none)

/-- `&name[1..]` for a wildcard -/
def paramNameC (name : Bytes) : Except CErr Bytes :=
  if name.head? == some 42 then sliceC name 1 name.length "param: name[1..]" else .ok name

/-- the validation of name and constraint, and the part that is built -/
def paramFinishC (raw : Bytes) (cursor e len : Nat) (name0 : Bytes) (cons : Option Bytes) : Except CErr (Part × Nat) :=
  if name0.isEmpty then .error (.terr (.emptyParameter raw cursor len)) else
  let isWild := name0.head? == some 42
  match paramNameC name0 with
  | .error x => .error x
  | .ok name =>
    if isWild && name.isEmpty then .error (.terr (.emptyWildcard raw cursor len)) else
    if name.any (invalidChars.contains ·) then .error (.terr (.invalidParameter raw name cursor len)) else
    match cons with
    | some c =>
      if c.isEmpty then .error (.terr (.emptyConstraint raw cursor len))
      else if c.any (invalidChars.contains ·) then .error (.terr (.invalidConstraint raw c cursor len))
      else .ok (.par (if isWild then .wildC else .dynC) {name := name, cons := c}, e + 1)
    | none => .ok (.par (if isWild then .wild else .dyn) {name := name}, e + 1)

/-- `parse_parameter_part(input, cursor)` with `input[cursor] = '{'` -/
def parseParamC (raw : Bytes) (cursor : Nat) : Except CErr (Part × Nat) :=
  let start := cursor + 1
  match braceScanC raw (raw.length + 1) start 1 with
  | .error x => .error x
  | .ok (e, count) =>
    if count ≠ 0 then .error (.terr (.unbalancedBrace raw cursor)) else
    match sliceC raw start e "param: input[start..end]" with
    | .error x => .error x
    | .ok content =>
      if content.isEmpty then .error (.terr (.emptyBraces raw cursor)) else
      match subC e cursor "param: end - cursor" with
      | .error x => .error x
      | .ok d =>
        match paramSplitC content with
        | .error x => .error x
        | .ok (name, cons) => paramFinishC raw cursor e (d + 1) name cons

/-- the touching-parameters check of `parse_template` -/
def touchC (raw : Bytes) (seen : List (Bytes × Nat × Nat)) (cursor next : Nat) : Except CErr Unit :=
  match seen.getLast? with
  | some (_, st, ln) =>
    if cursor = st + ln then
      match subC next st "template: next_cursor - start" with
      | .error x => .error x
      | .ok d => .error (.terr (.touchingParameters raw st d))
    else .ok ()
  | none => .ok ()

/-- the `while cursor < raw.len()` loop of `parse_template` -/
def parseLoopC (raw : Bytes) : Nat → Nat → List (Bytes × Nat × Nat) → List Part → Except CErr (List Part)
  | 0, _, _, _ => .error .fuel
  | fuel+1, cursor, seen, parts =>
    if cursor < raw.length then
      match getB raw cursor "template: raw[cursor]" with
      | .error x => .error x
      | .ok b =>
        if b = 123 then
          match parseParamC raw cursor with
          | .error x => .error x
          | .ok (part, next) =>
            match touchC raw seen cursor next with
            | .error x => .error x
            | .ok () =>
              match subC next cursor "template: next_cursor - cursor" with
              | .error x => .error x
              | .ok d =>
                match partName part with
                | some name =>
                  match seen.find? (fun x => x.1 == name) with
                  | some (_, st, ln) => .error (.terr (.duplicateParameter raw name st ln cursor d))
                  | none => parseLoopC raw fuel next (seen ++ [(name, cursor, d)]) (parts ++ [part])
                | none => parseLoopC raw fuel next seen (parts ++ [part])
        else if b = 125 then .error (.terr (.unbalancedBrace raw cursor))
        else
          match parseStaticC raw (raw.length + 1) cursor [] with
          | .error x => .error x
          | .ok (pre, next) => parseLoopC raw fuel next seen (parts ++ [.stat pre])
    else .ok parts

def parseTemplateC (raw : Bytes) : Except CErr (List Part) :=
  if !raw.isEmpty then
    match getB raw 0 "template: raw[0]" with
    | .error x => .error x
    | .ok b => if b ≠ 47 then .error (.terr (.missingLeadingSlash raw)) else parseLoopC raw (raw.length + 1) 0 [] []
  else parseLoopC raw (raw.length + 1) 0 [] []

def mapExceptC {α β} (f : α → Except CErr β) : List α → Except CErr (List β)
  | [] => .ok []
  | a :: as => match f a with
    | .error e => .error e
    | .ok b => match mapExceptC f as with
      | .error e => .error e
      | .ok bs => .ok (b :: bs)

/-- `ParsedTemplate::new` -/
def parseC (input : Bytes) : Except CErr (List (Bytes × List Part)) :=
  if input.isEmpty then .error (.terr .empty) else
  match expandC input ((input.length + 2) * (input.length + 2)) 0 input.length with
  | .error e => .error e
  | .ok raws => mapExceptC (fun raw => match parseTemplateC raw with | .error e => .error e | .ok ps => .ok (raw, ps)) raws

/-- what the list-based model says, in the checked model's result type -/
def liftT {α} : Except TErr α → Except CErr α
  | .ok a => .ok a
  | .error e => .error (.terr e)

/-- do the two transcriptions give the same answer? -/
def agreeC {α} [DecidableEq α] : Except CErr α → Except TErr α → Bool
  | .ok a, .ok b => a = b
  | .error (.terr e), .error e' => e = e'
  | _, _ => false

#guard agreeC (parseC "/a(/b(/c))".toUTF8.toList) (parseTemplates "/a(/b(/c))".toUTF8.toList)
#guard agreeC (parseC "/a(()".toUTF8.toList) (parseTemplates "/a(()".toUTF8.toList)
#guard agreeC (parseC "/{a}{b}".toUTF8.toList) (parseTemplates "/{a}{b}".toUTF8.toList)
#guard agreeC (parseC "/{*a:x}/\\{".toUTF8.toList) (parseTemplates "/{*a:x}/\\{".toUTF8.toList)
#guard agreeC (parseC "/a(\\)".toUTF8.toList) (parseTemplates "/a(\\)".toUTF8.toList)
