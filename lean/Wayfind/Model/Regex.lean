import Wayfind.Model.Basic

/-! A model of the anchored regular expressions used by the OCI example's name constraint
(`examples/oci/src/constraints/name.rs`): the pattern literal is taken from the source text on every run
(`Generated.ociNamePattern`), parsed by `parseRe`, and matched by Brzozowski derivatives (`Re.matches`).
Supported syntax — all the example uses: `^…$` (full match; a pattern without both anchors is not supported and parses to
`none`), literal bytes, `\c` escapes of punctuation, classes `[a-z0-9…]` of bytes and byte ranges (no negation), groups
`( )`, alternation `|`, postfixOps `+ * ?`. `Proofs/Regex1` shows that `matches` decides the usual denotation `Re.Lang`;
`Proofs/Regex2` that the denotation of the example's pattern is the repository-name grammar of the distribution
specification. The `regex` crate itself is outside the model: the harness reports the crate's answer for every name it tries
and the judge compares it with `matches` on the same bytes. -/

inductive Re where
  | none
  | eps
  | cls (rs : List (UInt8 × UInt8))
  | seq (a b : Re)
  | alt (a b : Re)
  | star (a : Re)
deriving DecidableEq, Repr

namespace Re

def plus (a : Re) : Re := .seq a (.star a)
def opt (a : Re) : Re := .alt a .eps

def inCls (rs : List (UInt8 × UInt8)) (c : UInt8) : Bool := rs.any (fun r => r.1 ≤ c && c ≤ r.2)

def nullable : Re → Bool
  | .none => false
  | .eps => true
  | .cls _ => false
  | .seq a b => a.nullable && b.nullable
  | .alt a b => a.nullable || b.nullable
  | .star _ => true

def deriv (c : UInt8) : Re → Re
  | .none => .none
  | .eps => .none
  | .cls rs => if inCls rs c then .eps else .none
  | .seq a b => if a.nullable then .alt (.seq (a.deriv c) b) (b.deriv c) else .seq (a.deriv c) b
  | .alt a b => .alt (a.deriv c) (b.deriv c)
  | .star a => .seq (a.deriv c) (.star a)

def derivs : Re → Bytes → Re
  | r, [] => r
  | r, c :: s => derivs (r.deriv c) s

/-- full match of the whole byte string -/
def «matches» (r : Re) (s : Bytes) : Bool := (r.derivs s).nullable

end Re

/-! ### pattern parser -/

namespace ReParse

def special (c : UInt8) : Bool :=
  c == 40 || c == 41 || c == 91 || c == 93 || c == 124 || c == 43 || c == 42 || c == 63 || c == 92 || c == 94 || c == 36 ||
  c == 46 || c == 123 || c == 125

/-- class items up to the closing bracket: `a-z` ranges and single bytes (an escape `\c` is the byte `c`) -/
def classItems : Nat → Bytes → List (UInt8 × UInt8) → Option (List (UInt8 × UInt8) × Bytes)
  | 0, _, _ => none
  | _ + 1, [], _ => none
  | fuel + 1, c :: rest, acc =>
    if c == 93 then (if acc.isEmpty then none else some (acc.reverse, rest))
    else if c == 94 && acc.isEmpty then none          -- negated classes are not supported
    else
      let (lo, rest) : UInt8 × Bytes := if c == 92 then (match rest with | d :: r => (d, r) | [] => (c, [])) else (c, rest)
      match rest with
      | 45 :: hi :: rest' =>
        if hi == 93 then classItems fuel (45 :: hi :: rest') ((lo, lo) :: acc)    -- a trailing '-' is a literal
        else classItems fuel rest' ((lo, hi) :: acc)
      | _ => classItems fuel rest ((lo, lo) :: acc)

def postfixOps : Nat → Re → Bytes → Re × Bytes
  | 0, r, s => (r, s)
  | fuel + 1, r, c :: s =>
    if c == 43 then postfixOps fuel r.plus s
    else if c == 42 then postfixOps fuel (.star r) s
    else if c == 63 then postfixOps fuel r.opt s
    else (r, c :: s)
  | _ + 1, r, [] => (r, [])

mutual
/-- alternation: `seq ('|' seq)*` -/
def alt : Nat → Bytes → Option (Re × Bytes)
  | 0, _ => none
  | fuel + 1, s =>
    match seq fuel s .eps with
    | none => none
    | some (a, 124 :: rest) =>
      match alt fuel rest with
      | some (b, rest') => some (.alt a b, rest')
      | none => none
    | some (a, rest) => some (a, rest)
/-- concatenation of repeated atoms, up to `|`, `)` or the end -/
def seq : Nat → Bytes → Re → Option (Re × Bytes)
  | 0, _, _ => none
  | _ + 1, [], acc => some (acc, [])
  | fuel + 1, c :: rest, acc =>
    if c == 124 || c == 41 then some (acc, c :: rest)
    else
      let atom : Option (Re × Bytes) :=
        if c == 40 then
          match alt fuel rest with
          | some (r, 41 :: rest') => some (r, rest')
          | _ => none
        else if c == 91 then
          match classItems (rest.length + 1) rest [] with
          | some (rs, rest') => some (.cls rs, rest')
          | none => none
        else if c == 92 then
          match rest with
          | d :: rest' => if special d || d == 47 || d == 45 || d == 95 then some (.cls [(d, d)], rest') else none
          | [] => none
        else if special c then none
        else some (.cls [(c, c)], rest)
      match atom with
      | none => none
      | some (r, rest') =>
        let (r, rest'') := postfixOps (rest'.length + 1) r rest'
        if rest''.length < (c :: rest).length then seq fuel rest'' (if acc == .eps then r else .seq acc r) else none
end

end ReParse

/-- `^ alt $` — the only form supported (a full match, which is what `Regex::is_match` with both anchors decides) -/
def parseRe (p : Bytes) : Option Re :=
  match p with
  | 94 :: body =>
    match body.reverse with
    | 36 :: rbody =>
      let inner := rbody.reverse
      match ReParse.alt (inner.length + 2) inner with
      | some (r, []) => some r
      | _ => none
    | _ => none
  | _ => none

/-! the syntax tree of the distribution specification's repository-name pattern
`[a-z0-9]+((\.|_|__|-+)[a-z0-9]+)*(\/[a-z0-9]+((\.|_|__|-+)[a-z0-9]+)*)*`, piece by piece (`Proofs/Regex2`: its denotation is
the name grammar; the pattern literal in the example's source parses to it) -/
namespace OciNameRe
def alnumCls : Re := .cls [(97, 122), (48, 57)]
def wordRe : Re := .seq alnumCls (.star alnumCls)
def sepRe : Re :=
  .alt (.cls [(46, 46)]) (.alt (.cls [(95, 95)]) (.alt (.seq (.cls [(95, 95)]) (.cls [(95, 95)])) (.seq (.cls [(45, 45)]) (.star (.cls [(45, 45)])))))
def tailRe : Re := .star (.seq sepRe wordRe)
def nameRe : Re := .seq (.seq wordRe tailRe) (.star (.seq (.seq (.cls [(47, 47)]) wordRe) tailRe))
end OciNameRe
