import Wayfind.Model.Basic

mutual
def Node.insert : Node → List Part → Info → Node
  | .mk _ s dc d wc w ec e ds ws _, [], i => .mk (some i) s dc d wc w ec e ds ws true
  | .mk x s dc d wc w ec e ds ws _, .stat p :: rest, i =>
      .mk x (Kids.insertStatic s p rest i) dc d wc w ec e ds ws true
  | .mk x s dc d wc w ec e ds ws _, .par k l :: rest, i =>
    match slotOf k rest.isEmpty with
    | .dc => .mk x s (Kids.insertPar dc l rest i) d wc w ec e ds ws true
    | .d  => .mk x s dc (Kids.insertPar d l rest i) wc w ec e ds ws true
    | .wc => .mk x s dc d (Kids.insertPar wc l rest i) w ec e ds ws true
    | .w  => .mk x s dc d wc (Kids.insertPar w l rest i) ec e ds ws true
    | .ec => .mk x s dc d wc w (Kids.insertEnd ec l i) e ds ws true
    | .e  => .mk x s dc d wc w ec (Kids.insertEnd e l i) ds ws true
termination_by structural n => n
/-- `insert_static`: lookup by first byte, descend or split -/
def Kids.insertStatic : Kids → Bytes → List Part → Info → Kids
  | .nil, p, rest, i => .cons {pre := p} (chain rest i) .nil
  | .cons l n r, p, rest, i =>
    if l.pre.head? = p.head? then
      let c := commonLen p l.pre
      if l.pre.length ≤ c then
        if p.length ≤ c then .cons l (Node.insert n rest i) r
        else .cons l (Node.insert n (.stat (p.drop c) :: rest) i) r
      else
        let la : Label := {pre := l.pre.drop c}
        let lp : Label := {pre := l.pre.take c}
        if p.length ≤ c then
          -- new prefix exhausted: continue on the re-labelled parent whose only child is the old node
          match rest with
          | [] => .cons lp (.mk (some i) (.cons la n .nil) .nil .nil .nil .nil .nil .nil false false true) r
          | .par k l' :: rest' =>
            let ch := chain rest' i
            let kid := Kids.cons l' ch .nil
            let a := Kids.cons la n .nil
            match slotOf k rest'.isEmpty with
            | .dc => .cons lp (.mk none a kid .nil .nil .nil .nil .nil false false true) r
            | .d  => .cons lp (.mk none a .nil kid .nil .nil .nil .nil false false true) r
            | .wc => .cons lp (.mk none a .nil .nil kid .nil .nil .nil false false true) r
            | .w  => .cons lp (.mk none a .nil .nil .nil kid .nil .nil false false true) r
            | .ec => .cons lp (.mk none a .nil .nil .nil .nil kid .nil false false true) r
            | .e  => .cons lp (.mk none a .nil .nil .nil .nil .nil kid false false true) r
          | .stat _ :: _ => .cons l n r            -- excluded by `Alternating`
        else
          .cons lp (.mk none (.cons la n (.cons {pre := p.drop c} (chain rest i) .nil))
                     .nil .nil .nil .nil .nil .nil false false true) r
    else .cons l n (Kids.insertStatic r p rest i)
termination_by structural k => k
def Kids.insertPar : Kids → Label → List Part → Info → Kids
  | .nil, l, rest, i => .cons l (chain rest i) .nil
  | .cons l' n r, l, rest, i =>
    if l' = l then .cons l' (Node.insert n rest i) r
    else .cons l' n (Kids.insertPar r l rest i)
termination_by structural k => k
/-- catch-alls: no overwrite when present -/
def Kids.insertEnd : Kids → Label → Info → Kids
  | .nil, l, i => .cons l (Node.leaf i) .nil
  | .cons l' n r, l, i => if l' = l then .cons l' n r else .cons l' n (Kids.insertEnd r l i)
termination_by structural k => k
end

mutual
def Node.find : Node → List Part → Option Info
  | .mk x _ _ _ _ _ _ _ _ _ _, [] => x
  | .mk _ s _ _ _ _ _ _ _ _ _, .stat p :: rest => Kids.findStatic s p rest
  | .mk _ _ dc d wc w ec e _ _ _, .par k l :: rest =>
    match slotOf k rest.isEmpty with
    | .dc => Kids.findPar dc l rest | .d => Kids.findPar d l rest
    | .wc => Kids.findPar wc l rest | .w => Kids.findPar w l rest
    | .ec => Kids.findPar ec l rest | .e => Kids.findPar e l rest
termination_by structural n => n
def Kids.findStatic : Kids → Bytes → List Part → Option Info
  | .nil, _, _ => none
  | .cons l n r, p, rest =>
    if l.pre.head? = p.head? then
      let c := commonLen p l.pre
      if l.pre.length ≤ c then
        if p.length ≤ c then Node.find n rest
        else Node.find n (.stat (p.drop c) :: rest)
      else Kids.findStatic r p rest
    else Kids.findStatic r p rest
termination_by structural k => k
def Kids.findPar : Kids → Label → List Part → Option Info
  | .nil, _, _ => none
  | .cons l' n r, l, rest => if l' = l then Node.find n rest else Kids.findPar r l rest
termination_by structural k => k
end

#print axioms Node.insert
def i1 : Info := {template := [], data := 1, depth := 1, length := 4}
def i2 : Info := {template := [], data := 2, depth := 1, length := 4}
def i3 : Info := {template := [], data := 3, depth := 1, length := 3}
def t1 := Node.insert (Node.empty) [.stat [47,97,98,99]] i1
def t2 := Node.insert t1 [.stat [47,97,98,100]] i2
def t3 := Node.insert t2 [.stat [47,97,98], .par .dyn {name := [120]}] i3
example : Node.find t3 [.stat [47,97,98,100]] = some i2 := by decide
example : Node.find t3 [.stat [47,97,98]] = none := by decide
example : Node.find t3 [.stat [47,97,98], .par .dyn {name := [120]}] = some i3 := by decide
example : Node.find t3 [.stat [47,97,98], .par .wild {name := [120]}] = none := by decide
