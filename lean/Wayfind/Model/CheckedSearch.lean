import Wayfind.Model.Search

/-! A second, *position-based* transcription of `src/node/search.rs`, loop by loop, in which every partial operation of
the Rust code is an explicit check that yields `.error site` (a panic): `path[consumed]`, `&path[..consumed]`,
`&path[consumed..]`, `&path[prefix.len()..]`, `path.len() - consumed` (evaluated eagerly as the argument of `unwrap_or`),
and `constraints.get(name).unwrap()` in `check_constraint`. The `while` loops carry the Rust counter `consumed` and take
fuel. `Proofs/CheckedSearch*.lean` show that no check fires (on any tree all of whose constraint names are registered,
for every path) and that the result is `Node.search` of the list-based model — whose capture loops are written as
candidate lists (`candsInline`, `candsSegment`) — so the counter arithmetic of the code and the candidate lists of the
model are the same thing. -/

/-- the result of a search function, or the site of a panic -/
abbrev PRes := Except String Res

/-- the constraint environment plus `constraints.contains_key` -/
structure CEnv where
  env : Env
  known : Bytes → Bool

def getC (path : Bytes) (i : Nat) (site : String) : Except String Byte :=
  match path[i]? with
  | some b => .ok b
  | none => .error site

def toC (path : Bytes) (n : Nat) (site : String) : Except String Bytes :=
  if n ≤ path.length then .ok (path.take n) else .error site

def fromC (path : Bytes) (n : Nat) (site : String) : Except String Bytes :=
  if n ≤ path.length then .ok (path.drop n) else .error site

def subU (a b : Nat) (site : String) : Except String Nat :=
  if b ≤ a then .ok (a - b) else .error site

/-- `iter().position(|&b| b == b'/')` -/
def posSlash : Bytes → Option Nat
  | [] => none
  | b :: rest => if b == 47 then some 0 else (posSlash rest).map (· + 1)

/-- `check_constraint`: no constraint → true; else `constraints.get(name).unwrap()`, `from_utf8`, the check -/
def checkC (ce : CEnv) (cons : Option Bytes) (seg : Bytes) : Except String Bool :=
  match cons with
  | none => .ok true
  | some c =>
    if ce.known c then .ok (ce.env.valid seg && ce.env.chk c seg)
    else .error "check_constraint: constraints.get(name).unwrap()"

/-- the body of every capture loop after `consumed` is known: slice, constraint, `from_utf8`, recursive search on the
rest with the parameter pushed on a copy, best-match update. `continue` = the unchanged `best`. -/
def candStepC (ce : CEnv) (cons : Option Bytes) (name path : Bytes) (ps : Params) (k : Bytes → Params → PRes)
    (consumed : Nat) (best : Res) : PRes :=
  match toC path consumed "&path[..consumed]" with
  | .error s => .error s
  | .ok segment =>
    match checkC ce cons segment with
    | .error s => .error s
    | .ok false => .ok best
    | .ok true =>
      if !ce.env.valid segment then .ok best
      else
        match fromC path consumed "&path[consumed..]" with
        | .error s => .error s
        | .ok rest =>
          match k rest (ps ++ [(name, segment)]) with
          | .error s => .error s
          | .ok none => .ok best
          | .ok (some (r, ps')) => .ok (if better r best then some (r, ps') else best)

/-- `search_dynamic(_constrained)_inline`, the `while consumed < path.len()` loop of one child -/
def dynInlineLoopC (ce : CEnv) (cons : Option Bytes) (name path : Bytes) (ps : Params) (k : Bytes → Params → PRes) :
    Nat → Nat → Res → PRes
  | 0, _, _ => .error "fuel"
  | fuel + 1, consumed, best =>
    if consumed < path.length then
      match getC path consumed "path[consumed]" with
      | .error s => .error s
      | .ok b =>
        if b == 47 then .ok best
        else
          match candStepC ce cons name path ps k (consumed + 1) best with
          | .error s => .error s
          | .ok best' => dynInlineLoopC ce cons name path ps k fuel (consumed + 1) best'
    else .ok best

/-- `search_wildcard(_constrained)_inline` -/
def wildInlineLoopC (ce : CEnv) (cons : Option Bytes) (name path : Bytes) (ps : Params) (k : Bytes → Params → PRes) :
    Nat → Nat → Res → PRes
  | 0, _, _ => .error "fuel"
  | fuel + 1, consumed, best =>
    if consumed < path.length then
      match candStepC ce cons name path ps k (consumed + 1) best with
      | .error s => .error s
      | .ok best' => wildInlineLoopC ce cons name path ps k fuel (consumed + 1) best'
    else .ok best

/-- `search_wildcard(_constrained)_segment`: `consumed += 1; consumed += path[consumed..].position('/').unwrap_or(path.len() - consumed)` -/
def wildSegLoopC (ce : CEnv) (cons : Option Bytes) (name path : Bytes) (ps : Params) (k : Bytes → Params → PRes) :
    Nat → Nat → Res → PRes
  | 0, _, _ => .error "fuel"
  | fuel + 1, consumed, best =>
    if consumed < path.length then
      let consumed1 := consumed + 1
      match fromC path consumed1 "path[consumed..]" with
      | .error s => .error s
      | .ok tail =>
        match subU path.length consumed1 "path.len() - consumed" with
        | .error s => .error s
        | .ok dflt =>
          let consumed2 := consumed1 + (posSlash tail).getD dflt
          match candStepC ce cons name path ps k consumed2 best with
          | .error s => .error s
          | .ok best' => wildSegLoopC ce cons name path ps k fuel consumed2 best'
    else .ok best

/-- `search_dynamic(_constrained)_segment`, one child: the whole segment or nothing; `none` = try the next child -/
def dynSegChildC (ce : CEnv) (cons : Option Bytes) (name path : Bytes) (ps : Params) (k : Bytes → Params → PRes) : PRes :=
  let segmentEnd := (posSlash path).getD path.length
  match toC path segmentEnd "&path[..segment_end]" with
  | .error s => .error s
  | .ok segment =>
    if segment.isEmpty then .ok none
    else
      match checkC ce cons segment with
      | .error s => .error s
      | .ok false => .ok none
      | .ok true =>
        if !ce.env.valid segment then .ok none
        else
          match fromC path segmentEnd "&path[segment_end..]" with
          | .error s => .error s
          | .ok rest => k rest (ps ++ [(name, segment)])

/-- `a.or_else(b)` on results that may have panicked -/
def orElseC (a : PRes) (b : Unit → PRes) : PRes :=
  match a with
  | .error s => .error s
  | .ok (some x) => .ok (some x)
  | .ok none => b ()

/-- the four shapes of per-child capture: 0 = dynamic segment, 1 = dynamic inline, 2 = wildcard segment, 3 = wildcard inline -/
def childC (ce : CEnv) (shape : Nat) (cons : Option Bytes) (name path : Bytes) (ps : Params) (k : Bytes → Params → PRes) : PRes :=
  match shape with
  | 0 => dynSegChildC ce cons name path ps k
  | 1 => dynInlineLoopC ce cons name path ps k (path.length + 1) 0 none
  | 2 => wildSegLoopC ce cons name path ps k (path.length + 1) 0 none
  | _ => wildInlineLoopC ce cons name path ps k (path.length + 1) 0 none

mutual
def Node.searchC (ce : CEnv) : Node → Bytes → Params → PRes
  | .mk x s dc d wc w ec e ds ws _, path, ps =>
    if path.isEmpty then .ok (x.map (·, ps)) else
    orElseC (Kids.searchStaticC ce s path ps) fun _ =>
    orElseC (Kids.searchParC ce (if ds then 0 else 1) true dc path ps) fun _ =>
    orElseC (Kids.searchParC ce (if ds then 0 else 1) false d path ps) fun _ =>
    orElseC (Kids.searchParC ce (if ws then 2 else 3) true wc path ps) fun _ =>
    orElseC (Kids.searchParC ce (if ws then 2 else 3) false w path ps) fun _ =>
    orElseC (Kids.searchEndCC ce ec path ps) fun _ => Kids.searchEndUC ce e path ps
termination_by structural n => n
/-- `search_static`: `path.len() >= prefix.len() && prefix.iter().zip(path).all(|(a, b)| a == b)`, then `&path[prefix.len()..]` -/
def Kids.searchStaticC (ce : CEnv) : Kids → Bytes → Params → PRes
  | .nil, _, _ => .ok none
  | .cons l n r, path, ps =>
    orElseC
      (if decide (l.pre.length ≤ path.length) && (l.pre.zip path).all (fun ab => ab.1 == ab.2) then
        match fromC path l.pre.length "&path[prefix.len()..]" with
        | .error s => .error s
        | .ok rest => Node.searchC ce n rest ps
      else .ok none)
      fun _ => Kids.searchStaticC ce r path ps
termination_by structural k => k
def Kids.searchParC (ce : CEnv) (shape : Nat) (constrained : Bool) : Kids → Bytes → Params → PRes
  | .nil, _, _ => .ok none
  | .cons l n r, path, ps =>
    orElseC (childC ce shape (if constrained then some l.cons else none) l.name path ps (Node.searchC ce n))
      fun _ => Kids.searchParC ce shape constrained r path ps
termination_by structural k => k
/-- `search_end_wildcard_constrained`: the first child whose constraint accepts the rest; `from_utf8(path).ok()?` -/
def Kids.searchEndCC (ce : CEnv) : Kids → Bytes → Params → PRes
  | .nil, _, _ => .ok none
  | .cons l n r, path, ps =>
    match checkC ce (some l.cons) path with
    | .error s => .error s
    | .ok false => Kids.searchEndCC ce r path ps
    | .ok true => if !ce.env.valid path then .ok none else .ok (n.data.map (·, ps ++ [(l.name, path)]))
termination_by structural k => k
/-- `search_end_wildcard`: only the first child -/
def Kids.searchEndUC (ce : CEnv) : Kids → Bytes → Params → PRes
  | .nil, _, _ => .ok none
  | .cons l n _, path, ps => if !ce.env.valid path then .ok none else .ok (n.data.map (·, ps ++ [(l.name, path)]))
termination_by structural k => k
end
