import Wayfind.Model.Delete

/-- `String::from_utf8_lossy` on bytes: every maximal invalid subpart becomes U+FFFD (`EF BF BD`) -/
def lossy : Bytes → Bytes
  | [] => []
  | b :: rest =>
    let bad : Bytes := [0xEF, 0xBF, 0xBD]
    let cont (c : UInt8) : Bool := 0x80 ≤ c && c ≤ 0xBF
    if b < 0x80 then b :: lossy rest
    else if b < 0xC2 then bad ++ lossy rest
    else if b < 0xE0 then
      match rest with
      | c :: r => if cont c then b :: c :: lossy r else bad ++ lossy (c :: r)
      | [] => bad
    else if b < 0xF0 then
      let lo : UInt8 := if b == 0xE0 then 0xA0 else 0x80
      let hi : UInt8 := if b == 0xED then 0x9F else 0xBF
      match rest with
      | c :: r =>
        if lo ≤ c && c ≤ hi then
          match r with
          | d :: r' => if cont d then b :: c :: d :: lossy r' else bad ++ lossy (d :: r')
          | [] => bad
        else bad ++ lossy (c :: r)
      | [] => bad
    else if b < 0xF5 then
      let lo : UInt8 := if b == 0xF0 then 0x90 else 0x80
      let hi : UInt8 := if b == 0xF4 then 0x8F else 0xBF
      match rest with
      | c :: r =>
        if lo ≤ c && c ≤ hi then
          match r with
          | d :: r' =>
            if cont d then
              match r' with
              | e :: r'' => if cont e then b :: c :: d :: e :: lossy r'' else bad ++ lossy (e :: r'')
              | [] => bad
            else bad ++ lossy (d :: r')
          | [] => bad
        else bad ++ lossy (c :: r)
      | [] => bad
    else bad ++ lossy rest
termination_by l => l.length
decreasing_by all_goals simp_wf; all_goals omega

def bytesToString (b : Bytes) : String :=
  match String.fromUTF8? (ByteArray.mk (lossy b).toArray) with
  | some s => s
  | none => "?"      -- unreachable: `lossy` yields valid UTF-8

/-- `state.key()` per child vector -/
def keyOf (slot : Nat) (l : Label) : String :=
  match slot with
  | 0 => bytesToString l.pre
  | 1 => "{" ++ bytesToString l.name ++ ":" ++ bytesToString l.cons ++ "}"
  | 2 => "{" ++ bytesToString l.name ++ "}"
  | 3 | 5 => "{*" ++ bytesToString l.name ++ ":" ++ bytesToString l.cons ++ "}"
  | _ => "{*" ++ bytesToString l.name ++ "}"

def Kids.len : Kids → Nat | .nil => 0 | .cons _ _ r => r.len + 1

mutual
/-- `debug_node` for a non-root node with key `key`; returns the lines -/
def Node.lines (key : String) (padding : String) (isRoot isLast : Bool) : Node → List String
  | .mk x s dc d wc w ec e _ _ _ =>
    let mark := if x.isSome then " [*]" else ""
    let head : List String :=
      if key.isEmpty then []
      else if isRoot then [key ++ mark]
      else [padding ++ (if isLast then "╰─" else "├─") ++ " " ++ key ++ mark]
    let padding' := if !isRoot && !key.isEmpty then (if isLast then padding ++ "   " else padding ++ "│  ") else padding
    let total := s.len + dc.len + d.len + wc.len + w.len + ec.len + e.len
    let c0 := total
    let l0 := Kids.lines 0 padding' key.isEmpty c0 s
    let c1 := c0 - s.len
    let l1 := Kids.lines 1 padding' key.isEmpty c1 dc
    let c2 := c1 - dc.len
    let l2 := Kids.lines 2 padding' key.isEmpty c2 d
    let c3 := c2 - d.len
    let l3 := Kids.lines 3 padding' key.isEmpty c3 wc
    let c4 := c3 - wc.len
    let l4 := Kids.lines 4 padding' key.isEmpty c4 w
    let c5 := c4 - w.len
    let l5 := Kids.lines 5 padding' key.isEmpty c5 ec
    let c6 := c5 - ec.len
    let l6 := Kids.lines 6 padding' key.isEmpty c6 e
    head ++ l0 ++ l1 ++ l2 ++ l3 ++ l4 ++ l5 ++ l6
termination_by structural n => n
/-- `remaining` = number of siblings not yet printed, including this vector's -/
def Kids.lines (slot : Nat) (padding : String) (isRoot : Bool) (remaining : Nat) : Kids → List String
  | .nil => []
  | .cons l n r =>
    Node.lines (keyOf slot l) padding isRoot (remaining - 1 == 0) n ++ Kids.lines slot padding isRoot (remaining - 1) r
termination_by structural k => k
end

def Node.display (root : Node) : String :=
  let s := "\n".intercalate (Node.lines "" "" true true root)
  s.trimAsciiEnd.toString
