/-! L1 model core: the node tree with seven per-kind child vectors (`src/node.rs`, `src/state.rs`, `src/nodes.rs`). -/
abbrev Byte := UInt8
abbrev Bytes := List Byte

inductive PKind | dynC | dyn | wildC | wild
deriving DecidableEq, Repr

/-- label of a child: static prefix, or parameter name and constraint name -/
structure Label where
  pre  : Bytes := []
  name : Bytes := []
  cons : Bytes := []
deriving DecidableEq, Repr

inductive Part where
  | stat (p : Bytes)
  | par (k : PKind) (l : Label)
deriving DecidableEq, Repr

/-- `NodeData<T>` of `src/node.rs`: `cell = none` is `Inline`; `cell = some c` is `Shared` with `c` the
identity of the `Arc<T>`, and then `expanded` is present. Data values are `Nat` identifiers. -/
structure Info where
  template : Bytes
  expanded : Option Bytes := none
  data : Nat
  cell : Option Nat := none
  depth : Nat
  length : Nat
deriving DecidableEq, Repr

mutual
inductive Node where
  | mk (data : Option Info) (s dc d wc w ec e : Kids) (dynShort wildShort dirty : Bool)
inductive Kids where
  | nil
  | cons (l : Label) (n : Node) (rest : Kids)
end

def Node.empty (dirty : Bool := false) : Node := .mk none .nil .nil .nil .nil .nil .nil .nil false false dirty
def Node.leaf (i : Info) : Node := .mk (some i) .nil .nil .nil .nil .nil .nil .nil false false true

def Kids.snoc : Kids → Label → Node → Kids
  | .nil, l, n => .cons l n .nil
  | .cons l' n' r, l, n => .cons l' n' (Kids.snoc r l n)

/-- which vector a parameter part lives in: catch-alls are wildcards with nothing after them -/
inductive Slot | dc | d | wc | w | ec | e
deriving DecidableEq, Repr
def slotOf (k : PKind) (last : Bool) : Slot :=
  match k, last with
  | .dynC, _ => .dc | .dyn, _ => .d
  | .wildC, false => .wc | .wild, false => .w
  | .wildC, true => .ec | .wild, true => .e

def Node.get : Node → Slot → Kids
  | .mk _ _ dc d wc w ec e _ _ _, sl => match sl with
    | .dc => dc | .d => d | .wc => wc | .w => w | .ec => ec | .e => e
def Node.statics : Node → Kids | .mk _ s _ _ _ _ _ _ _ _ _ => s
def Node.data : Node → Option Info | .mk d _ _ _ _ _ _ _ _ _ _ => d

def commonLen : Bytes → Bytes → Nat
  | a :: as, b :: bs => if a = b then commonLen as bs + 1 else 0
  | _, _ => 0

/-- inserting into a fresh node builds a chain (recursion on the parts) -/
def chain : List Part → Info → Node
  | [], i => Node.leaf i
  | .stat p :: rest, i => .mk none (.cons {pre := p} (chain rest i) .nil) .nil .nil .nil .nil .nil .nil false false true
  | .par k l :: rest, i =>
    let c := chain rest i
    match slotOf k rest.isEmpty with
    | .dc => .mk none .nil (.cons l c .nil) .nil .nil .nil .nil .nil false false true
    | .d  => .mk none .nil .nil (.cons l c .nil) .nil .nil .nil .nil false false true
    | .wc => .mk none .nil .nil .nil (.cons l c .nil) .nil .nil .nil false false true
    | .w  => .mk none .nil .nil .nil .nil (.cons l c .nil) .nil .nil false false true
    | .ec => .mk none .nil .nil .nil .nil .nil (.cons l c .nil) .nil false false true
    | .e  => .mk none .nil .nil .nil .nil .nil .nil (.cons l c .nil) false false true

def lexLt : Bytes → Bytes → Bool
  | [], [] => false
  | [], _ :: _ => true
  | _ :: _, [] => false
  | a :: as, b :: bs => a < b || (a == b && lexLt as bs)

/-- the sibling order of `state.rs`: prefix bytes; name, then constraint -/
def Label.lt (a b : Label) : Bool :=
  lexLt a.pre b.pre || (a.pre == b.pre && (lexLt a.name b.name || (a.name == b.name && lexLt a.cons b.cons)))

