import Wayfind.Model.Basic

/-! Template parser model: group expansion with the code's cursor/group/depth bookkeeping, then per-expansion parsing -/

inductive TErr where
  | empty
  | missingLeadingSlash (tpl : Bytes)
  | emptyBraces (tpl : Bytes) (pos : Nat)
  | unbalancedBrace (tpl : Bytes) (pos : Nat)
  | emptyParentheses (tpl : Bytes) (pos : Nat)
  | unbalancedParenthesis (tpl : Bytes) (pos : Nat)
  | emptyParameter (tpl : Bytes) (start len : Nat)
  | invalidParameter (tpl name : Bytes) (start len : Nat)
  | duplicateParameter (tpl name : Bytes) (first firstLen second secondLen : Nat)
  | emptyWildcard (tpl : Bytes) (start len : Nat)
  | emptyConstraint (tpl : Bytes) (start len : Nat)
  | invalidConstraint (tpl name : Bytes) (start len : Nat)
  | touchingParameters (tpl : Bytes) (start len : Nat)
deriving Repr, DecidableEq

structure ExpSt where
  result : List Bytes
  group : Nat          -- absolute index where the current group / literal run starts
  depth : Nat
  acc : Bytes          -- input[group .. cursor)

/-- product step of `expand_optional_groups`: every partial result extended by every inner expansion, then kept bare -/
def productStep (result inner : List Bytes) : List Bytes :=
  result.flatMap (fun t => inner.map (fun o => t ++ o) ++ [t])

mutual
/-- `full` is the whole template (for error payloads); `next` is the byte following this range in `full`, if any -/
def expandRange (full : Bytes) : Nat → Bytes → Nat → Option Byte → Bool → Except TErr (List Bytes)
  | 0, _, _, _, _ => .ok []                       -- fuel exhausted (unreachable: fuel = |full| + 1)
  | fuel+1, range, start, next, top =>
    expandScan full fuel start next top range start ⟨[[]], start, 0, []⟩
/-- the `while cursor < end` loop; `rest` = input[cursor .. end) -/
def expandScan (full : Bytes) (fuel : Nat) (start : Nat) (next : Option Byte) (top : Bool) :
    Bytes → Nat → ExpSt → Except TErr (List Bytes)
  | [], _, st =>
    if st.depth ≠ 0 then .error (.unbalancedParenthesis full (start + st.group - 1))
    else
      let res := st.result.map (· ++ st.acc)
      .ok (if top then res.map (fun t => if t.isEmpty then [47] else t) else res)
  | b :: rest, cursor, st =>
    if b = 92 ∧ (rest ≠ [] ∨ next.isSome) then
      match rest with
      | b2 :: rest' => expandScan full fuel start next top rest' (cursor + 2) { st with acc := st.acc ++ [b, b2] }
      | [] => expandScan full fuel start next top [] (cursor + 2) { st with acc := st.acc ++ [b] }
    else if b = 40 then
      if st.depth = 0 then
        expandScan full fuel start next top rest (cursor + 1)
          { result := st.result.map (· ++ st.acc), group := cursor + 1, depth := 1, acc := [] }
      else
        expandScan full fuel start next top rest (cursor + 1) { st with depth := st.depth + 1, acc := st.acc ++ [b] }
    else if b = 41 then
      if st.depth = 0 then .error (.unbalancedParenthesis full cursor)
      else if st.depth = 1 then
        if cursor = st.group then .error (.emptyParentheses full (cursor - 1))
        else
          match expandRange full fuel st.acc st.group (some 41) false with
          | .error e => .error e
          | .ok inner =>
            expandScan full fuel start next top rest (cursor + 1)
              { result := productStep st.result inner, group := cursor + 1, depth := 0, acc := [] }
      else
        expandScan full fuel start next top rest (cursor + 1) { st with depth := st.depth - 1, acc := st.acc ++ [b] }
    else
      expandScan full fuel start next top rest (cursor + 1) { st with acc := st.acc ++ [b] }
end

def invalidChars : Bytes := [58, 42, 123, 125, 40, 41, 47]     -- : * { } ( ) /

/-- `parse_static_part`: returns the decoded prefix and the new cursor -/
def parseStatic : Bytes → Nat → Bytes → Bytes × Nat × Bytes
  | [], cur, acc => (acc, cur, [])
  | b :: rest, cur, acc =>
    if b = 92 then
      match rest with
      | c :: rest' => parseStatic rest' (cur + 2) (acc ++ [c])
      | [] => (acc ++ [92], cur + 1, [])
    else if b = 123 ∨ b = 125 then (acc, cur, b :: rest)
    else parseStatic rest (cur + 1) (acc ++ [b])
termination_by l => l.length

/-- find the end of a brace group: `rest` starts right after the opening brace -/
def braceEnd : Bytes → Nat → Nat → Option Nat
  | [], _, _ => none
  | b :: rest, count, idx =>
    if b = 123 then braceEnd rest (count + 1) (idx + 1)
    else if b = 125 then (if count = 1 then some idx else braceEnd rest (count - 1) (idx + 1))
    else braceEnd rest count (idx + 1)

/-- `parse_parameter_part` at `cursor` (raw[cursor] = '{'); `after` = raw[cursor+1 ..] -/
def parseParam (raw : Bytes) (cursor : Nat) (after : Bytes) : Except TErr (Part × Nat) :=
  match braceEnd after 1 0 with
  | none => .error (.unbalancedBrace raw cursor)
  | some n =>
    let content := after.take n
    let endIdx := cursor + 1 + n                 -- index of the closing brace
    let len := endIdx - cursor + 1
    if content.isEmpty then .error (.emptyBraces raw cursor) else
    let (name, cons) : Bytes × Option Bytes :=
      match content.idxOf? 58 with
      | some p => (content.take p, some (content.drop (p + 1)))
      | none => (content, none)
    if name.isEmpty then .error (.emptyParameter raw cursor len) else
    let isWild := name.head? == some 42
    let name := if isWild then name.drop 1 else name
    if isWild && name.isEmpty then .error (.emptyWildcard raw cursor len) else
    if name.any (invalidChars.contains ·) then .error (.invalidParameter raw name cursor len) else
    match cons with
    | some c =>
      if c.isEmpty then .error (.emptyConstraint raw cursor len)
      else if c.any (invalidChars.contains ·) then .error (.invalidConstraint raw c cursor len)
      else .ok (.par (if isWild then .wildC else .dynC) {name := name, cons := c}, endIdx + 1)
    | none => .ok (.par (if isWild then .wild else .dyn) {name := name}, endIdx + 1)

def partName : Part → Option Bytes
  | .par _ l => some l.name
  | _ => none

/-- the `while cursor < raw.len()` loop of `parse_template`; `seen` = (name, start, length) in order -/
def parseLoop (raw : Bytes) : Nat → Bytes → Nat → List (Bytes × Nat × Nat) → List Part → Except TErr (List Part)
  | 0, _, _, _, parts => .ok parts
  | fuel+1, rest, cursor, seen, parts =>
    match rest with
    | [] => .ok parts
    | b :: after =>
      if b = 123 then
        match parseParam raw cursor after with
        | .error e => .error e
        | .ok (part, next) =>
          match seen.getLast? with
          | some (_, st, ln) =>
            if cursor = st + ln then .error (.touchingParameters raw st (next - st)) else
            parseLoopDup raw fuel rest cursor seen parts part next
          | none => parseLoopDup raw fuel rest cursor seen parts part next
      else if b = 125 then .error (.unbalancedBrace raw cursor)
      else
        let (pre, next, rest') := parseStatic rest cursor []
        parseLoop raw fuel rest' next seen (parts ++ [.stat pre])
where
  parseLoopDup (raw : Bytes) (fuel : Nat) (rest : Bytes) (cursor : Nat) (seen : List (Bytes × Nat × Nat))
      (parts : List Part) (part : Part) (next : Nat) : Except TErr (List Part) :=
    match partName part with
    | some name =>
      match seen.find? (fun x => x.1 == name) with
      | some (_, st, ln) => .error (.duplicateParameter raw name st ln cursor (next - cursor))
      | none => parseLoop raw fuel (rest.drop (next - cursor)) next (seen ++ [(name, cursor, next - cursor)]) (parts ++ [part])
    | none => parseLoop raw fuel (rest.drop (next - cursor)) next seen (parts ++ [part])

def parseTemplate (raw : Bytes) : Except TErr (List Part) :=
  if !raw.isEmpty && raw.head? != some 47 then .error (.missingLeadingSlash raw)
  else parseLoop raw (raw.length + 1) raw 0 [] []

def mapExcept {α β ε} (f : α → Except ε β) : List α → Except ε (List β)
  | [] => .ok []
  | a :: as => match f a with
    | .error e => .error e
    | .ok b => match mapExcept f as with
      | .error e => .error e
      | .ok bs => .ok (b :: bs)

/-- `ParsedTemplate::new`: expansions in the code's order, each with its parts in reading order -/
def parseTemplates (input : Bytes) : Except TErr (List (Bytes × List Part)) :=
  if input.isEmpty then .error .empty else
  match expandRange input (input.length + 1) input 0 none true with
  | .error e => .error e
  | .ok raws => mapExcept (fun raw => match parseTemplate raw with | .error e => .error e | .ok ps => .ok (raw, ps)) raws
