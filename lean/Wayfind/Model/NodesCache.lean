import Wayfind.Model.Basic

/-! `Nodes<T, S>` of src/nodes.rs: a vector of child nodes with a cached "already sorted" flag. The tree model
(`Model/Basic`, `Model/Optimize`) carries plain child lists and sorts them in `optimize`; this file models the cache itself —
every method of `Nodes` that touches `vec` or `sorted` — so that "the cache never changes what `sort` leaves behind" is a
theorem (`Proofs/NodesCache`) instead of an assumption about the code. `lt` is the strict order of the node states. -/

structure NodesC (α : Type) where
  vec : List α
  sorted : Bool

namespace NodesC
variable {α : Type}

/-- `Nodes::new` / `Default` -/
def new (v : List α) : NodesC α := ⟨v, false⟩
/-- `push`: appends and clears the flag -/
def push (c : NodesC α) (x : α) : NodesC α := ⟨c.vec ++ [x], false⟩
/-- `remove(index)`: the flag is kept -/
def remove (c : NodesC α) (i : Nat) : NodesC α := ⟨c.vec.eraseIdx i, c.sorted⟩
/-- `iter_mut` (also `for child in &mut nodes`): hands out mutable references — modelled as an arbitrary rewrite of every
element — and clears the flag -/
def iterMut (c : NodesC α) (f : α → α) : NodesC α := ⟨c.vec.map f, false⟩
/-- `IndexMut`: `nodes[i] = x`; the flag is kept -/
def indexSet (c : NodesC α) (i : Nat) (x : α) : NodesC α := ⟨c.vec.set i x, c.sorted⟩

/-- insertion of one element into a sorted list (stable: after the elements that are not greater) -/
def insertSorted (lt : α → α → Bool) (x : α) : List α → List α
  | [] => [x]
  | y :: ys => if lt x y then x :: y :: ys else y :: insertSorted lt x ys

/-- a stable sort (`sort_by` is stable; sibling keys are pairwise different, so any correct sort gives this list) -/
def sortList (lt : α → α → Bool) : List α → List α
  | [] => []
  | x :: xs => insertSorted lt x (sortList lt xs)

/-- `sort()`: returns at once when the flag is set -/
def sort (lt : α → α → Bool) (c : NodesC α) : NodesC α := if c.sorted then c else ⟨sortList lt c.vec, true⟩

/-- what `optimize` does with one child vector: iterate mutably (the recursive `child.optimize()` calls), then sort -/
def optimizeVec (lt : α → α → Bool) (f : α → α) (c : NodesC α) : NodesC α := (c.iterMut f).sort lt

end NodesC
