import Wayfind.Model.Parser

/-! `impl Display for TemplateError` (src/errors/template.rs): the caret rendering, as bytes. -/

def strB (s : String) : Bytes := s.toUTF8.toList
def spaces (n : Nat) : Bytes := List.replicate n 32
def carets (n : Nat) : Bytes := List.replicate n 94

/-- `arrow.replace_range(start..start+len, "^"*len)` on a line of spaces -/
def overlay (line : Bytes) (start len : Nat) : Bytes := line.take start ++ carets len ++ line.drop (start + len)

/-- title, template line, caret line, trailer -/
def renderWith (title tpl arrow trailer : Bytes) : Bytes :=
  title ++ strB "\n\n    Template: " ++ tpl ++ [10] ++ spaces 14 ++ arrow ++ trailer

def helpBrace : Bytes := strB "\n\nhelp: Each '{' must have a matching '}'\n\ntry:\n    - Add the missing closing brace\n    - Use '\\{' and '\\}' to represent literal braces"
def helpParen : Bytes := strB "\n\nhelp: Each '(' must have a matching ')'\n\ntry:\n    - Add the missing closing parenthesis\n    - Use '\\(' and '\\)' to represent literal parentheses"
def helpNames (what : String) : Bytes := strB ("\n\nhelp: " ++ what ++ " names must not contain the characters: ':', '*', '{', '}', '(', ')', '/'")
def helpDup : Bytes := strB "\n\nhelp: Parameter names must be unique within a template\n\ntry:\n    - Rename one of the parameters to be unique"
def helpTouch : Bytes := strB "\n\nhelp: Parameters must be separated by at least one part\n\ntry:\n    - Add a part between the parameters\n    - Combine the parameters if they represent a single value"

def TErr.render : TErr → Bytes
  | .empty => strB "empty template"
  | .missingLeadingSlash t => strB "missing leading slash\n\n    Template: " ++ t ++ strB "\n\nhelp: Templates must begin with '/'"
  | .emptyBraces t p => renderWith (strB "empty braces") t (spaces p ++ carets 2) []
  | .unbalancedBrace t p => renderWith (strB "unbalanced brace") t (spaces p ++ carets 1) helpBrace
  | .emptyParentheses t p => renderWith (strB "empty parentheses") t (spaces p ++ carets 2) []
  | .unbalancedParenthesis t p => renderWith (strB "unbalanced parenthesis") t (spaces p ++ carets 1) helpParen
  | .emptyParameter t s l => renderWith (strB "empty parameter name") t (spaces s ++ carets l) []
  | .invalidParameter t n s l => renderWith (strB "invalid parameter name: '" ++ n ++ strB "'") t (spaces s ++ carets l) (helpNames "Parameter")
  | .duplicateParameter t n f fl s sl =>
    renderWith (strB "duplicate parameter name: '" ++ n ++ strB "'") t (overlay (overlay (spaces t.length) f fl) s sl) helpDup
  | .emptyWildcard t s l => renderWith (strB "empty wildcard name") t (spaces s ++ carets l) []
  | .emptyConstraint t s l => renderWith (strB "empty constraint name") t (spaces s ++ carets l) []
  | .invalidConstraint t n s l => renderWith (strB "invalid constraint name: '" ++ n ++ strB "'") t (spaces s ++ carets l) (helpNames "Constraint")
  | .touchingParameters t s l => renderWith (strB "touching parameters") t (spaces s ++ carets l) helpTouch
