import Wayfind.Model.Parser
import Wayfind.Spec.Expand

/-! L0: "the error names a fault that is really present" (C14), one clause per `TemplateError` variant. -/

/-- per byte: is it a backslash that escapes, or the byte it escapes? -/
def escMask : Bytes → List Bool
  | [] => []
  | 92 :: _ :: rest => true :: true :: escMask rest
  | _ :: rest => false :: escMask rest

/-- positions of unescaped parentheses that the usual matching leaves unmatched -/
def unmatchedParens (s : Bytes) : List Nat :=
  let m := escMask s
  let rec go (i : Nat) (bs : Bytes) (ms : List Bool) (stack un : List Nat) : List Nat :=
    match bs, ms with
    | b :: bs', e :: ms' =>
      if e then go (i + 1) bs' ms' stack un
      else if b = 40 then go (i + 1) bs' ms' (i :: stack) un
      else if b = 41 then
        (match stack with
         | _ :: st => go (i + 1) bs' ms' st un
         | [] => go (i + 1) bs' ms' [] (i :: un))
      else go (i + 1) bs' ms' stack un
    | _, _ => un ++ stack
  go 0 s m [] []

/-- index, relative to `rest`, of the brace that closes a group opened just before `rest`: nested braces are counted,
nothing is an escape inside braces -/
def closeIdx : Bytes → Nat → Nat → Option Nat
  | [], _, _ => none
  | b :: rest, count, idx =>
    if b = 123 then closeIdx rest (count + 1) (idx + 1)
    else if b = 125 then (if count = 1 then some idx else closeIdx rest (count - 1) (idx + 1))
    else closeIdx rest count (idx + 1)

/-- the text between the braces, when `t[start .. start+len)` is a brace group: it opens with `{` at `start` and the brace
that closes it (by counting) is its last byte -/
def braceParam (t : Bytes) (start len : Nat) : Option Bytes :=
  match t.drop start with
  | 123 :: rest => if 2 ≤ len ∧ closeIdx rest 1 0 = some (len - 2) then some (rest.take (len - 2)) else none
  | _ => none

def nameOf (content : Bytes) : Bytes :=
  let n := match content.idxOf? 58 with | some p => content.take p | none => content
  if n.head? == some 42 then n.drop 1 else n

def rawNameOf (content : Bytes) : Bytes :=
  match content.idxOf? 58 with | some p => content.take p | none => content

def consOf (content : Bytes) : Option Bytes :=
  match content.idxOf? 58 with | some p => some (content.drop (p + 1)) | none => none

/-- an opening brace at `pos` with no balancing close after it -/
def openUnbalanced (t : Bytes) (pos : Nat) : Bool :=
  let rec go (bs : Bytes) (c : Nat) : Bool :=
    match bs with
    | [] => true
    | b :: r => if b = 123 then go r (c + 1) else if b = 125 then (if c = 1 then false else go r (c - 1)) else go r c
  go (t.drop (pos + 1)) 1

def hasSub (needle hay : Bytes) : Bool :=
  (List.range (hay.length + 1)).any (fun i => needle.isPrefixOf (hay.drop i))

/-- the fault an error of `parse_template` names, as a condition on the expansion text it carries -/
def localFault : TErr → Bool
  | .missingLeadingSlash t => t.head? != some 47
  | .emptyBraces t p => t[p]? == some 123 && t[p + 1]? == some 125
  | .unbalancedBrace t p =>
    (match t[p]? with
      | some 123 => openUnbalanced t p
      | some 125 => true
      | _ => false)
  | .emptyParameter t s l => (match braceParam t s l with | some c => (rawNameOf c).isEmpty | none => false)
  | .emptyWildcard t s l => (match braceParam t s l with | some c => rawNameOf c == [42] | none => false)
  | .emptyConstraint t s l => (match braceParam t s l with | some c => consOf c == some [] | none => false)
  | .invalidParameter t n s l =>
    (match braceParam t s l with
      | some c => nameOf c == n && n.any (invalidChars.contains ·)
      | none => false)
  | .invalidConstraint t n s l =>
    (match braceParam t s l with
      | some c => consOf c == some n && n.any (invalidChars.contains ·)
      | none => false)
  | .touchingParameters t s l =>
    -- the range is two brace groups, the second starting where the first ends
    (List.range (l + 1)).any (fun k => (braceParam t s k).isSome && (braceParam t (s + k) (l - k)).isSome)
  | .duplicateParameter t n f fl s sl =>
    f + fl ≤ s &&
      (match braceParam t f fl, braceParam t s sl with
       | some c1, some c2 => nameOf c1 == n && nameOf c2 == n
       | _, _ => false)
  | _ => false

def faultPresent (input : Bytes) (err : TErr) : Bool :=
  let inExps (t : Bytes) : Bool :=
    match topExpansions input with | some es => es.contains t | none => false
  match err with
  | .empty => input.isEmpty
  | .emptyParentheses t p =>
    t == input && t[p]? == some 40 && t[p + 1]? == some 41 && (escMask t)[p]? == some false && (escMask t)[p + 1]? == some false
  | .unbalancedParenthesis t p => t == input && (unmatchedParens t).contains p
  | .missingLeadingSlash t | .emptyBraces t _ | .unbalancedBrace t _ | .emptyParameter t _ _ | .emptyWildcard t _ _
  | .emptyConstraint t _ _ | .invalidParameter t _ _ _ | .invalidConstraint t _ _ _ | .touchingParameters t _ _
  | .duplicateParameter t _ _ _ _ _ => inExps t && localFault err
