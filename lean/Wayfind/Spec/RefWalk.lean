import Wayfind.Model.Search

structure Route where
  parts : List Part
  info : Info
deriving DecidableEq, Repr

def Route.push (p : Part) (r : Route) : Route := ⟨p :: r.parts, r.info⟩

def wildK : PKind → Bool | .wild | .wildC => true | _ => false
def consK : PKind → Bool | .dynC | .wildC => true | _ => false

/-- consume one literal byte from the head of a route (adjacent literal parts are tolerated) -/
def stripByte (b : Byte) (r : Route) : Option Route :=
  match r.parts with
  | .stat (c :: p) :: rest => if c = b then some ⟨if p.isEmpty then rest else .stat p :: rest, r.info⟩ else none
  | _ => none

/-- a parameter part of kind `k` counts as mid-route (`last = false`) or as a catch-all (`last = true`) -/
def headPar (k : PKind) (last : Bool) (r : Route) : Option (Label × Route) :=
  match r.parts with
  | .par k' l :: rest => if k' = k ∧ (wildK k && rest.isEmpty) = last then some (l, ⟨rest, r.info⟩) else none
  | _ => none

def stripPar (k : PKind) (last : Bool) (l : Label) (r : Route) : Option Route :=
  match headPar k last r with
  | some (l', r') => if l' = l then some r' else none
  | none => none

def insertLabel (l : Label) : List Label → List Label
  | [] => [l]
  | x :: xs => if l = x then x :: xs else if Label.lt l x then l :: x :: xs else x :: insertLabel l xs

def sortLabels (ls : List Label) : List Label := ls.foldr insertLabel []

def labelsOf (k : PKind) (last : Bool) (rs : List Route) : List Label :=
  sortLabels (rs.filterMap (fun r => (headPar k last r).map (·.1)))

def firstSome {α} (f : α → Res) : List α → Res
  | [] => none
  | a :: as => orElse' (f a) (firstSome f as)

/-- one kind of mid-route parameter in the documented walk -/
def parStep (env : Env) (k : PKind) (rs : List Route) (path : Bytes) (ps : Params)
    (walk : List Route → Bytes → Params → Res) : Res :=
  firstSome (fun l =>
    tryCands env (if consK k then some l.cons else none) l.name path ps
      (walk (rs.filterMap (stripPar k false l))) (candsInline (wildK k) path) none)
    (labelsOf k false rs)

def endInfo (k : PKind) (l : Label) (rs : List Route) : Option Info :=
  (rs.find? (fun r => r.parts == [.par k l])).map (·.info)

/-- The documented walk over a plain list of routes: no tree, no compression, no flags. -/
def refWalk (env : Env) : Nat → List Route → Bytes → Params → Res
  | _, rs, [], ps => (rs.find? (·.parts.isEmpty)).map (·.info, ps)
  | 0, _, _ :: _, _ => none
  | fuel+1, rs, b :: tl, ps =>
    let path := b :: tl
    orElse' (refWalk env fuel (rs.filterMap (stripByte b)) tl ps) <|
    orElse' (parStep env .dynC rs path ps (refWalk env fuel)) <|
    orElse' (parStep env .dyn rs path ps (refWalk env fuel)) <|
    orElse' (parStep env .wildC rs path ps (refWalk env fuel)) <|
    orElse' (parStep env .wild rs path ps (refWalk env fuel)) <|
    orElse'
      (firstSome (fun l => if env.valid path && env.chk l.cons path
                            then (endInfo .wildC l rs).map (·, ps ++ [(l.name, path)]) else none)
        (labelsOf .wildC true rs))
      (match labelsOf .wild true rs with
       | l :: _ => if env.valid path then (endInfo .wild l rs).map (·, ps ++ [(l.name, path)]) else none
       | [] => none)

/-! routes of a tree: root-to-marked-node label paths -/
mutual
def Node.routes : Node → List Route
  | .mk x s dc d wc w ec e _ _ _ =>
    (match x with | some i => [⟨[], i⟩] | none => []) ++ Kids.routes (fun l => .stat l.pre) s
      ++ Kids.routes (.par .dynC) dc ++ Kids.routes (.par .dyn) d
      ++ Kids.routes (.par .wildC) wc ++ Kids.routes (.par .wild) w
      ++ Kids.routes (.par .wildC) ec ++ Kids.routes (.par .wild) e
termination_by structural n => n
def Kids.routes (mk : Label → Part) : Kids → List Route
  | .nil => []
  | .cons l n r => (Node.routes n).map (Route.push (mk l)) ++ Kids.routes mk r
termination_by structural k => k
end

#eval (Node.routes tw).map (·.parts)
example : refWalk envT 8 (Node.routes tw) [47,97,47,109,47,98,47,109] [] = Node.search envT tw [47,97,47,109,47,98,47,109] [] := by decide
