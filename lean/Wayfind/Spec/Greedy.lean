import Wayfind.Spec.Fits

/-! L0: the leftmost-longest assignment (C12), written directly -/

/-- the last acceptable capture length whose remainder can be matched -/
def lastOk (env : Env) (cons : Option Bytes) (name path : Bytes) (g : Bytes → Option Params) :
    List Nat → Option Params → Option Params
  | [], acc => acc
  | c :: cs, acc =>
    lastOk env cons name path g cs
      (if candOk env cons (path.take c) then
        (match g (path.drop c) with
         | some vs => some ((name, path.take c) :: vs)
         | none => acc)
       else acc)

/-- leftmost-longest assignment of a group-free template over a path: each parameter, from the left, takes the
    longest acceptable value for which the rest can still be matched -/
def greedy (env : Env) : List Part → Bytes → Option Params
  | [], path => if path.isEmpty then some [] else none
  | .stat p :: rest, path => if p.isPrefixOf path then greedy env rest (path.drop p.length) else none
  | .par k l :: rest, path =>
    lastOk env (if consK k then some l.cons else none) l.name path (greedy env rest) (candsInline (wildK k) path) none

