import Wayfind.Spec.Fits

/-! Executable forms of `Fits`, used by the driver as oracles on the implementation's outputs
(and proved equivalent to the inductive definition in `Proofs/FitsExec.lean`). -/

/-- does this particular assignment lay the parts over the path? -/
def fitsCheck (env : Env) : List Part → Bytes → Params → Bool
  | [], path, vs => path.isEmpty && vs.isEmpty
  | .stat p :: rest, path, vs => !p.isEmpty && p.isPrefixOf path && fitsCheck env rest (path.drop p.length) vs
  | .par _ _ :: _, _, [] => false
  | .par k l :: rest, path, (n, v) :: vs =>
    n == l.name && !v.isEmpty && v.isPrefixOf path && (wildK k || !v.contains 47) && env.valid v &&
      (!consK k || env.chk l.cons v) && fitsCheck env rest (path.drop v.length) vs

/-- is there any assignment? (backtracking over capture lengths) -/
def anyFits (env : Env) : List Part → Bytes → Bool
  | [], path => path.isEmpty
  | .stat p :: rest, path => !p.isEmpty && p.isPrefixOf path && anyFits env rest (path.drop p.length)
  | .par k l :: rest, path =>
    (candsInline (wildK k) path).any (fun c =>
      candOk env (if consK k then some l.cons else none) (path.take c) && anyFits env rest (path.drop c))

/-- number of assignments -/
def countFits (env : Env) : List Part → Bytes → Nat
  | [], path => if path.isEmpty then 1 else 0
  | .stat p :: rest, path => if !p.isEmpty && p.isPrefixOf path then countFits env rest (path.drop p.length) else 0
  | .par k l :: rest, path =>
    ((candsInline (wildK k) path).map (fun c =>
      if candOk env (if consK k then some l.cons else none) (path.take c) then countFits env rest (path.drop c) else 0)).sum
