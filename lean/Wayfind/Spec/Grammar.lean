import Wayfind.Spec.Expand

/-! L0: the template language of one group-free expansion, and its decoding into parts. -/

def invalidNameChars : Bytes := [58, 42, 123, 125, 40, 41, 47]     -- : * { } ( ) /

/-- literal run up to the next brace: a backslash makes the next byte literal, a trailing backslash is literal -/
def litRun : Bytes → Bytes × Bytes
  | [] => ([], [])
  | 92 :: b :: rest => let (p, r) := litRun rest; (b :: p, r)
  | b :: rest => if b = 123 ∨ b = 125 then ([], b :: rest) else let (p, r) := litRun rest; (b :: p, r)

/-- `{…}` content up to the first `}` -/
def braceContent : Bytes → Option (Bytes × Bytes)
  | [] => none
  | b :: rest => if b = 125 then some ([], rest) else (braceContent rest).map (fun (c, r) => (b :: c, r))

/-- name and optional constraint: split at the first `:` -/
def splitColon (content : Bytes) : Bytes × Option Bytes :=
  match content.idxOf? 58 with
  | some p => (content.take p, some (content.drop (p + 1)))
  | none => (content, none)

/-- a parameter from its name text (with optional leading `*`) and optional constraint text: both non-empty and free
of `: * { } ( ) /` -/
def paramCore (name : Bytes) (cons : Option Bytes) : Option Part :=
  if name.isEmpty then none else
  let wild := name.head? == some 42
  let name := if wild then name.drop 1 else name
  if wild && name.isEmpty then none else
  if name.any (invalidNameChars.contains ·) then none else
  match cons with
  | some c =>
    if c.isEmpty then none
    else if c.any (invalidNameChars.contains ·) then none
    else some (.par (if wild then .wildC else .dynC) { name := name, cons := c })
  | none => some (.par (if wild then .wild else .dyn) { name := name })

/-- the text between the braces: `name`, `*name`, `name:constraint`, `*name:constraint` -/
def paramOf (content : Bytes) : Option Part :=
  if content.isEmpty then none else paramCore (splitColon content).1 (splitColon content).2

/-- decode one expansion (after the leading-slash test): parameters may not touch, names may not repeat -/
def decodeLoop : Nat → Bytes → Bool → List Bytes → Option (List Part)
  | 0, _, _, _ => none
  | _ + 1, [], _, _ => some []
  | fuel + 1, b :: rest, lastParam, names =>
    if b = 123 then
      match braceContent rest with
      | none => none
      | some (content, rest') =>
        match paramOf content with
        | some (.par k l) =>
          if lastParam || names.contains l.name then none
          else (decodeLoop fuel rest' true (l.name :: names)).map (.par k l :: ·)
        | _ => none
    else if b = 125 then none
    else
      let (p, rest') := litRun (b :: rest)
      (decodeLoop fuel rest' false names).map (.stat p :: ·)

def decode (e : Bytes) : Option (List Part) :=
  if e.head? != some 47 then none else decodeLoop (e.length + 1) e false []

/-- accepted templates with their expansions (raw text, parts), in order -/
def specParse (input : Bytes) : Option (List (Bytes × List Part)) :=
  match topExpansions input with
  | none => none
  | some es => es.mapM (fun e => (decode e).map (fun ps => (e, ps)))

def Accepts (input : Bytes) : Bool := (specParse input).isSome
