import Wayfind.Proofs.Reach

/-- merge adjacent literal parts (a route read off the tree may have its literal text split across several nodes) -/
def norm : List Part → List Part
  | [] => []
  | .stat a :: rest =>
    match norm rest with
    | .stat b :: r => .stat (a ++ b) :: r
    | r => .stat a :: r
  | .par k l :: rest => .par k l :: norm rest

/-- every literal part is non-empty -/
def statsNE : List Part → Prop
  | [] => True
  | .stat a :: rest => a ≠ [] ∧ statsNE rest
  | .par _ _ :: rest => statsNE rest

theorem norm_statsNE : ∀ (P : List Part), statsNE P → statsNE (norm P)
  | [], _ => trivial
  | .par k l :: rest, h => by simp only [norm, statsNE]; exact norm_statsNE rest h
  | .stat a :: rest, h => by
    have ih := norm_statsNE rest h.2
    simp only [norm]
    split
    · rename_i b r heq
      rw [heq] at ih
      exact ⟨by simp [h.1], ih.2⟩
    · exact ⟨h.1, ih⟩

theorem norm_eq_nil : ∀ (P : List Part), norm P = [] ↔ P = []
  | [] => by simp [norm]
  | .par k l :: rest => by simp [norm]
  | .stat a :: rest => by
    simp only [norm]
    split <;> simp

theorem norm_par (k : PKind) (l : Label) (rest : List Part) : norm (.par k l :: rest) = .par k l :: norm rest := rfl

/-- a well-formed list after a literal does not start with a literal -/
theorem wf_after_stat {p : Bytes} {rest : List Part} (h : wfParts (.stat p :: rest) = true) :
    ∀ b r, rest ≠ .stat b :: r := by
  intro b r e; subst e; simp [wfParts] at h

/-- N1: a route that starts with the literal `a` normalises to `stat p :: rest` iff `a` is a prefix of `p`
    and the remainder normalises to what is left of `p` followed by `rest` -/
theorem norm_stat_iff (a : Bytes) (parts : List Part) (p : Bytes) (rest : List Part)
    (ha : a ≠ []) (hne : statsNE parts) (hwf : wfParts (.stat p :: rest) = true) :
    norm (.stat a :: parts) = .stat p :: rest ↔ (a.isPrefixOf p = true ∧ norm parts = below p a.length rest) := by
  have hn := norm_statsNE parts hne
  have hrest := wf_after_stat hwf
  simp only [norm]
  constructor
  · intro h
    split at h
    · rename_i b r heq
      injection h with h1 h2
      injection h1 with h1
      subst h1 h2
      rw [heq] at hn
      have hb : b ≠ [] := hn.1
      refine ⟨List.isPrefixOf_iff_prefix.2 ⟨b, rfl⟩, ?_⟩
      unfold below
      have hbl : 0 < b.length := List.length_pos_iff.mpr hb
      have : ¬ ((a ++ b).length ≤ a.length) := by
        simp only [List.length_append]; omega
      rw [if_neg this, heq]; simp
    · rename_i hns
      injection h with h1 h2
      injection h1 with h1
      subst h1
      refine ⟨List.isPrefixOf_iff_prefix.2 ⟨[], by simp⟩, ?_⟩
      simp [below, h2]
  · rintro ⟨hpre, hb⟩
    obtain ⟨t, rfl⟩ := List.isPrefixOf_iff_prefix.1 hpre
    unfold below at hb
    by_cases ht : t = []
    · subst ht
      simp only [List.append_nil, Nat.le_refl, ite_true] at hb
      rw [hb]
      cases rest with
      | nil => simp
      | cons x xs =>
        cases x with
        | stat b => exact absurd rfl (hrest b xs)
        | par k l => simp
    · have : ¬ ((a ++ t).length ≤ a.length) := by
        have : 0 < t.length := List.length_pos_iff.mpr ht
        simp only [List.length_append]; omega
      simp only [this, ite_false, List.drop_left'] at hb
      rw [hb]

/-- N2: the first byte of a normalised route that starts with literal `a` is the first byte of `a` -/
theorem norm_stat_head (a : Bytes) (parts : List Part) (p : Bytes) (rest : List Part) (ha : a ≠ [])
    (h : norm (.stat a :: parts) = .stat p :: rest) : p.head? = a.head? := by
  simp only [norm] at h
  split at h
  · injection h with h1 _; injection h1 with h1; rw [← h1, head_append_ne ha]
  · injection h with h1 _; injection h1 with h1; rw [h1]
