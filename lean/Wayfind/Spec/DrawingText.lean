import Wayfind.Model.Display
import Wayfind.Spec.RefWalk

/-! L0 for the first sentence of C15, at the level of the *printed text*: how a reader takes a printed line apart
(`parseLineC`: indentation → depth, label, `[*]` mark) and how the marked paths are read off the sequence of lines
(`markedTextsC`: the labels of the line's ancestors — the nearest preceding lines of each smaller depth — followed by its
own). `Proofs/DrawText1-2` show that reading the lines printed for a tree gives back, line by line, the tree's nodes in
order with their depths, labels and marks, and that the marked paths read off the text are the tree's routes, rendered. -/

def isPadChar (c : Char) : Bool := c == ' ' || c == '│'

/-- depth and body (label + mark) of a line whose indentation is `pre` and whose remainder is `rest` -/
def lineDepthBody (pre rest cs : List Char) : Nat × List Char :=
  match rest with
  | g :: '─' :: ' ' :: body => if (g == '├' || g == '╰') && pre.length % 3 == 0 then (pre.length / 3 + 1, body) else (0, cs)
  | _ => (0, cs)

/-- label and mark, read from the end of the body -/
def readMark (d : Nat) (body : List Char) : Option (Nat × List Char × Bool) :=
  match body.reverse with
  | ']' :: '*' :: '[' :: ' ' :: k => some (d, k.reverse, true)
  | _ => some (d, body, false)

/-- depth, label and mark of one printed line; `none` for a line that is indented without a branch glyph -/
def parseLineC (cs : List Char) : Option (Nat × List Char × Bool) :=
  let pre := cs.takeWhile isPadChar
  let rest := cs.dropWhile isPadChar
  let db := lineDepthBody pre rest cs
  if db.1 == 0 && !pre.isEmpty then none else readMark db.1 db.2

/-- the texts of the marked lines: labels of the ancestors, then the line's own label. `stack` holds the (depth, label) of
the lines that can still be ancestors, nearest first. -/
def markedTextsGo : List (Nat × List Char × Bool) → List (Nat × List Char) → List (List Char)
  | [], _ => []
  | (d, k, m) :: rest, stack =>
    let stack' := stack.filter (fun e => e.1 < d)
    let pre := (stack'.reverse.map (·.2)).flatten
    (if m then [pre ++ k] else []) ++ markedTextsGo rest ((d, k) :: stack')

def markedTextsC (ls : List (Nat × List Char × Bool)) : List (List Char) := markedTextsGo ls []

/-- the printed form of one part of a route (`state.key()` of the node that holds it) -/
def partKey : Part → String
  | .stat p => keyOf 0 { pre := p }
  | .par .dynC l => keyOf 1 l
  | .par .dyn l => keyOf 2 l
  | .par .wildC l => keyOf 3 l
  | .par .wild l => keyOf 4 l

def partsText (ps : List Part) : List Char := (ps.map (fun p => (partKey p).toList)).flatten

mutual
/-- the nodes of a tree in printing order: depth, label, has-data; the root (empty label) has no entry of its own -/
def Node.dents (d : Nat) (key : List Char) : Node → List (Nat × List Char × Bool)
  | .mk x s dc dy wc w ec e _ _ _ =>
    let d' := if key.isEmpty then d else d + 1
    (if key.isEmpty then [] else [(d, key, x.isSome)]) ++ Kids.dents d' 0 s ++ Kids.dents d' 1 dc ++ Kids.dents d' 2 dy ++
      Kids.dents d' 3 wc ++ Kids.dents d' 4 w ++ Kids.dents d' 5 ec ++ Kids.dents d' 6 e
termination_by structural n => n
def Kids.dents (d : Nat) (slot : Nat) : Kids → List (Nat × List Char × Bool)
  | .nil => []
  | .cons l n r => Node.dents d (keyOf slot l).toList n ++ Kids.dents d slot r
termination_by structural k => k
end

/-- a label that can be read back from a printed line: non-empty, no `]`, and — at the top level, where no branch glyph
precedes it — not starting with an indentation or branch character -/
def keyOK (k : List Char) : Bool :=
  !k.isEmpty && !k.contains ']' && (match k with | c :: _ => !(isPadChar c || c == '├' || c == '╰') | [] => false)

mutual
/-- every label of the tree can be read back -/
def Node.drawable : Node → Bool
  | .mk _ s dc dy wc w ec e _ _ _ =>
    Kids.drawable 0 s && Kids.drawable 1 dc && Kids.drawable 2 dy && Kids.drawable 3 wc && Kids.drawable 4 w &&
      Kids.drawable 5 ec && Kids.drawable 6 e
termination_by structural n => n
def Kids.drawable (slot : Nat) : Kids → Bool
  | .nil => true
  | .cons l n r => keyOK (keyOf slot l).toList && Node.drawable n && Kids.drawable slot r
termination_by structural k => k
end

/-! ### the tree of printed labels -/

mutual
/-- a node as the drawing shows it: printed label, mark, children in printing order (the seven child vectors one after
the other) -/
inductive KT where
  | mk (key : List Char) (marked : Bool) (kids : KTs)
inductive KTs where
  | nil
  | cons (t : KT) (rest : KTs)
end

def KTs.app : KTs → KTs → KTs
  | .nil, b => b
  | .cons t r, b => .cons t (KTs.app r b)

mutual
def KT.flat (d : Nat) : KT → List (Nat × List Char × Bool)
  | .mk k m kids => (d, k, m) :: KTs.flat (d + 1) kids
def KTs.flat (d : Nat) : KTs → List (Nat × List Char × Bool)
  | .nil => []
  | .cons t r => KT.flat d t ++ KTs.flat d r
end

mutual
/-- the children of a node as the drawing shows them -/
def Node.kidTrees : Node → KTs
  | .mk _ s dc dy wc w ec e _ _ _ =>
    (Kids.ktrees 0 s).app ((Kids.ktrees 1 dc).app ((Kids.ktrees 2 dy).app ((Kids.ktrees 3 wc).app
      ((Kids.ktrees 4 w).app ((Kids.ktrees 5 ec).app (Kids.ktrees 6 e))))))
termination_by structural n => n
def Kids.ktrees (slot : Nat) : Kids → KTs
  | .nil => .nil
  | .cons l n r => .cons (.mk (keyOf slot l).toList n.data.isSome (Node.kidTrees n)) (Kids.ktrees slot r)
termination_by structural k => k
end
