import Wayfind.Model.Basic
import Wayfind.Spec.DrawingText

/-! L0 for C15, stated on the *printed* tree: parse the drawing back into (depth, label, mark) lines and check
that it is the canonical compressed radix tree of a given list of route texts. Used as an oracle on the
implementation's `Display` output (alphabets without spaces, brackets or box-drawing characters in labels). -/

structure DLine where
  depth : Nat
  key : String
  marked : Bool
deriving Repr

/-- one printed line: the reader of `Spec/DrawingText.lean` (`parseLineC`, about which `Proofs/DrawText1` proves that it reads
back every line `Display` prints), with the label as a string -/
def parseDLine (line : String) : Option DLine :=
  (parseLineC line.toList).map (fun x => ⟨x.1, String.ofList x.2.1, x.2.2⟩)

def parseDrawing (text : String) : Option (List DLine) :=
  if text.isEmpty then some [] else (text.splitOn "\n").mapM parseDLine

inductive DKind | lit | dynC | dyn | wildC | wild
deriving DecidableEq, Repr

/-- kind, name and constraint of a label as printed -/
def keyKind (key : String) : DKind × String × String :=
  if key.startsWith "{" && key.endsWith "}" then
    let inner := ((key.drop 1).toString.dropEnd 1).toString
    let wild := inner.startsWith "*"
    let inner := if wild then (inner.drop 1).toString else inner
    match inner.splitOn ":" with
    | [n, c] => (if wild then .wildC else .dynC, n, c)
    | _ => (if wild then .wild else .dyn, inner, "")
  else (.lit, key, "")

/-- direct children (with their sub-lines) of a node at depth `d`: `ls` = the lines following the node -/
def childrenOf (d : Nat) (ls : List DLine) : List (DLine × List DLine) :=
  let own := ls.takeWhile (fun l => l.depth > d)
  let rec go (fuel : Nat) (ls : List DLine) : List (DLine × List DLine) :=
    match fuel, ls with
    | 0, _ => []
    | _, [] => []
    | fuel + 1, l :: rest =>
      let sub := rest.takeWhile (fun x => x.depth > l.depth)
      (l, sub) :: go fuel (rest.drop sub.length)
  go own.length own

/-- rank of a sibling in the documented order: literal, constrained dynamic, dynamic, constrained wildcard, wildcard,
constrained catch-all, catch-all. A wildcard that is a leaf is a catch-all. -/
def rankOf (l : DLine) (isLeaf : Bool) : Nat :=
  match (keyKind l.key).1, isLeaf with
  | .lit, _ => 0 | .dynC, _ => 1 | .dyn, _ => 2
  | .wildC, false => 3 | .wild, false => 4 | .wildC, true => 5 | .wild, true => 6

def strLt (a b : String) : Bool := lexLt a.toUTF8.toList b.toUTF8.toList

/-- is `(r1, k1)` strictly before `(r2, k2)` in the sibling order? -/
def sibLt (a b : DLine × Bool) : Bool :=
  let ra := rankOf a.1 a.2; let rb := rankOf b.1 b.2
  if ra != rb then ra < rb else
  let (_, na, ca) := keyKind a.1.key; let (_, nb, cb) := keyKind b.1.key
  strLt na nb || (na == nb && strLt ca cb)

/-- all node-level conditions of C15 below one node (fuel = number of lines) -/
def nodeOk : Nat → DLine → List DLine → List String
  | 0, _, _ => ["fuel"]
  | fuel + 1, l, sub =>
    let kids := childrenOf l.depth sub
    let isLit (x : DLine) := (keyKind x.key).1 == .lit
    let errs1 := if kids.isEmpty && !l.marked then [s!"leaf '{l.key}' is not marked"] else []
    let errs2 := match kids with
      | [(k, _)] => if isLit l && !l.marked && isLit k then [s!"unmarked literal node '{l.key}' has the single literal child '{k.key}'"] else []
      | _ => []
    let lits := (kids.filter (fun k => isLit k.1)).map (fun k => k.1.key.toUTF8.toList.head?)
    let errs3 := if lits.length != lits.eraseDups.length then [s!"literal children of '{l.key}' share a first byte"] else []
    let tagged := kids.map (fun k => (k.1, k.2.isEmpty))
    let rec sorted : List (DLine × Bool) → Bool
      | a :: b :: r => sibLt a b && sorted (b :: r)
      | _ => true
    let errs4 := if sorted tagged then [] else [s!"children of '{l.key}' are not in kind/alphabetical order"]
    errs1 ++ errs2 ++ errs3 ++ errs4 ++ kids.flatMap (fun k => nodeOk fuel k.1 k.2)

/-- texts of the marked nodes: concatenation of the labels from the top -/
def markedTexts (ls : List DLine) : List String :=
  let rec go (ls : List DLine) (stack : List (Nat × String)) (acc : List String) : List String :=
    match ls with
    | [] => acc.reverse
    | l :: rest =>
      let stack := stack.filter (fun s => s.1 < l.depth)
      let pre := String.join (stack.reverse.map (·.2))
      let stack := (l.depth, l.key) :: stack
      go rest stack (if l.marked then (pre ++ l.key) :: acc else acc)
  go ls [] []

/-- C15 on a printed tree against the expected route texts; returns the list of violated clauses -/
def checkDrawing (text : String) (expected : List String) : List String :=
  match parseDrawing text with
  | none => ["the drawing cannot be parsed"]
  | some ls =>
    let tops := childrenOf 0 (ls.map (fun l => { l with depth := l.depth + 1 }))
    let got := (markedTexts ls).toArray.qsort (· < ·) |>.toList
    let want := expected.eraseDups.toArray.qsort (· < ·) |>.toList
    let e0 := if got != want then [s!"marked routes {got} differ from the live expansions {want}"] else []
    let e1 := tops.flatMap (fun k => nodeOk (ls.length + 1) { k.1 with depth := k.1.depth } k.2)
    -- the top level is the root's child list: same sibling conditions
    let lits := (tops.filter (fun k => (keyKind k.1.key).1 == .lit)).map (fun k => k.1.key.toUTF8.toList.head?)
    let e2 := if lits.length != lits.eraseDups.length then ["top-level literal nodes share a first byte"] else []
    e0 ++ e1 ++ e2
