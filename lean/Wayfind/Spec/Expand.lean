import Wayfind.Model.Basic

/-! L0: optional groups. `parseItems` is the definition of "balanced, non-empty parentheses with escapes honoured";
`expansions` keeps or drops every group independently (an inner group only if its enclosing group is kept), kept
variants first, earlier groups more significant; `topExpansions` replaces only a completely empty result by "/". -/

mutual
inductive Item where
  | lit (b : Byte)
  | esc (b : Byte)          -- a backslash followed by `b`
  | grp (items : Items)
inductive Items where
  | nil
  | cons (i : Item) (rest : Items)
end

def Items.isNil : Items → Bool | .nil => true | _ => false

/-- recursive descent; `inGroup` = we are inside a parenthesis that must be closed. Returns the items and the rest
after the closing parenthesis. A backslash escapes the next byte of the *whole* input (also a parenthesis); a
backslash that is the last byte of the input is a literal. -/
def parseSeq : Nat → Bytes → Bool → Option (Items × Bytes)
  | 0, _, _ => none
  | _ + 1, [], inGroup => if inGroup then none else some (.nil, [])
  | fuel + 1, 92 :: b :: rest, inGroup =>
    (parseSeq fuel rest inGroup).map (fun (is, r) => (.cons (.esc b) is, r))
  | fuel + 1, 40 :: rest, inGroup =>
    match parseSeq fuel rest true with
    | none => none
    | some (inner, rest') =>
      if inner.isNil then none else
      (parseSeq fuel rest' inGroup).map (fun (is, r) => (.cons (.grp inner) is, r))
  | _ + 1, 41 :: rest, inGroup => if inGroup then some (.nil, rest) else none
  | fuel + 1, b :: rest, inGroup =>
    (parseSeq fuel rest inGroup).map (fun (is, r) => (.cons (.lit b) is, r))

def parseItems (input : Bytes) : Option Items := (parseSeq (input.length + 1) input false).map (·.1)

mutual
/-- the alternatives one item contributes -/
def Item.alts : Item → List Bytes
  | .lit b => [[b]]
  | .esc b => [[92, b]]
  | .grp g => Items.exps g ++ [[]]
def Items.exps : Items → List Bytes
  | .nil => [[]]
  | .cons i r => (Item.alts i).flatMap (fun a => (Items.exps r).map (a ++ ·))
end

def topExpansions (input : Bytes) : Option (List Bytes) :=
  if input.isEmpty then none else
  (parseItems input).map (fun is => (Items.exps is).map (fun e => if e.isEmpty then [47] else e))
