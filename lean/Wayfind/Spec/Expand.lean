import Wayfind.Model.Basic

/-! L0: optional groups. `parseItems` is the definition of "balanced, non-empty parentheses with escapes honoured"
(a group is the text between an opening parenthesis and its matching closing one);
`expansions` keeps or drops every group independently (an inner group only if its enclosing group is kept), kept
variants first, earlier groups more significant; `topExpansions` replaces only a completely empty result by "/". -/

mutual
inductive Item where
  | lit (b : Byte)
  | esc (b : Byte)          -- a backslash followed by `b`
  | grp (items : Items)
inductive Items where
  | nil
  | cons (i : Item) (rest : Items)
end

def Items.isNil : Items → Bool | .nil => true | _ => false

/-- the text of a group: from just after an opening parenthesis (at nesting depth `d`, 1 = the group itself) up to
its matching closing parenthesis, and what follows it. A backslash escapes the next byte, also a parenthesis. -/
def groupBody : Nat → Bytes → Option (Bytes × Bytes)
  | _, [] => none
  | _, [92] => none
  | d, 92 :: b :: rest => (groupBody d rest).map (fun (g, r) => (92 :: b :: g, r))
  | d, 40 :: rest => (groupBody (d + 1) rest).map (fun (g, r) => (40 :: g, r))
  | d, 41 :: rest => if d ≤ 1 then some ([], rest) else (groupBody (d - 1) rest).map (fun (g, r) => (41 :: g, r))
  | d, b :: rest => (groupBody d rest).map (fun (g, r) => (b :: g, r))

theorem groupBody_length : ∀ (d : Nat) (s g r : Bytes), groupBody d s = some (g, r) → g.length + r.length < s.length
  | _, [], _, _, h => by simp [groupBody] at h
  | d, [b], g, r, h => by
    by_cases h92 : b = 92
    · subst h92; simp [groupBody] at h
    · by_cases h40 : b = 40
      · subst h40; simp [groupBody] at h
      · by_cases h41 : b = 41
        · subst h41
          simp only [groupBody] at h
          split at h
          · injection h with h; injection h with h1 h2; subst h1 h2; simp
          · simp [groupBody] at h
        · rw [groupBody] at h
          · simp [groupBody] at h
          all_goals simp_all
  | d, b :: c :: rest, g, r, h => by
    by_cases h92 : b = 92
    · subst h92
      simp only [groupBody, Option.map_eq_some_iff] at h
      obtain ⟨⟨g', r'⟩, hg, he⟩ := h
      injection he with h1 h2; subst h1 h2
      have := groupBody_length d rest g' r' hg
      simp only [List.length_cons]; omega
    · by_cases h40 : b = 40
      · subst h40
        simp only [groupBody, Option.map_eq_some_iff] at h
        obtain ⟨⟨g', r'⟩, hg, he⟩ := h
        injection he with h1 h2; subst h1 h2
        have := groupBody_length (d + 1) (c :: rest) g' r' hg
        simp only [List.length_cons] at this ⊢; omega
      · by_cases h41 : b = 41
        · subst h41
          simp only [groupBody] at h
          split at h
          · injection h with h; injection h with h1 h2; subst h1 h2; simp
          · simp only [Option.map_eq_some_iff] at h
            obtain ⟨⟨g', r'⟩, hg, he⟩ := h
            injection he with h1 h2; subst h1 h2
            have := groupBody_length (d - 1) (c :: rest) g' r' hg
            simp only [List.length_cons] at this ⊢; omega
        · rw [groupBody] at h
          · simp only [Option.map_eq_some_iff] at h
            obtain ⟨⟨g', r'⟩, hg, he⟩ := h
            injection he with h1 h2; subst h1 h2
            have := groupBody_length d (c :: rest) g' r' hg
            simp only [List.length_cons] at this ⊢; omega
          all_goals simp_all

/-- a template text as items: escapes, literal bytes and groups delimited by matching parentheses. `none` when a
parenthesis has no partner or a group is empty. A backslash that is the last byte is a literal. -/
def parseSeq : Nat → Bytes → Option Items
  | 0, _ => none
  | _ + 1, [] => some .nil
  | fuel + 1, 92 :: b :: rest => (parseSeq fuel rest).map (.cons (.esc b))
  | fuel + 1, 40 :: rest =>
    match groupBody 1 rest with
    | none => none
    | some (g, rest') =>
      if g.isEmpty then none else
      match parseSeq fuel g, parseSeq fuel rest' with
      | some inner, some tail => some (.cons (.grp inner) tail)
      | _, _ => none
  | _ + 1, 41 :: _ => none
  | fuel + 1, b :: rest => (parseSeq fuel rest).map (.cons (.lit b))

def parseItems (input : Bytes) : Option Items := parseSeq (input.length + 1) input

mutual
/-- the alternatives one item contributes -/
def Item.alts : Item → List Bytes
  | .lit b => [[b]]
  | .esc b => [[92, b]]
  | .grp g => Items.exps g ++ [[]]
def Items.exps : Items → List Bytes
  | .nil => [[]]
  | .cons i r => (Item.alts i).flatMap (fun a => (Items.exps r).map (a ++ ·))
end

def topExpansions (input : Bytes) : Option (List Bytes) :=
  if input.isEmpty then none else
  (parseItems input).map (fun is => (Items.exps is).map (fun e => if e.isEmpty then [47] else e))
