import Wayfind.Proofs.WalkBasics

/-- an expansion (as a part list) laid over a path, with the captured values in order -/
inductive Fits (env : Env) : List Part → Bytes → Params → Prop
  | nil : Fits env [] [] []
  | stat (p path vs rest) : p ≠ [] → Fits env rest path vs → Fits env (.stat p :: rest) (p ++ path) vs
  | par (k l v path vs rest) : v ≠ [] → (wildK k = false → (47 : Byte) ∉ v) → env.valid v = true →
      (consK k = true → env.chk l.cons v = true) → Fits env rest path vs →
      Fits env (.par k l :: rest) (v ++ path) ((l.name, v) :: vs)

theorem Fits.nil_path' {env : Env} {parts : List Part} {path : Bytes} {vs : Params} (h : Fits env parts path vs) :
    path = [] → parts = [] ∧ vs = [] := by
  intro hp
  cases h with
  | nil => exact ⟨rfl, rfl⟩
  | stat p path vs rest hne _ => exact absurd (List.append_eq_nil_iff.1 hp).1 hne
  | par k l v path vs rest hv _ _ _ _ => exact absurd (List.append_eq_nil_iff.1 hp).1 hv

def candOk (env : Env) (cons : Option Bytes) (v : Bytes) : Bool :=
  env.valid v && (match cons with | some cn => env.chk cn v | none => true)

/-- one iteration of a capture loop -/
def stepCand (env : Env) (cons : Option Bytes) (name path : Bytes) (ps : Params)
    (k : Bytes → Params → Res) (c : Nat) (best : Res) : Res :=
  if candOk env cons (path.take c) then
    match k (path.drop c) (ps ++ [(name, path.take c)]) with
    | none => best
    | some (r, ps') => if better r best then some (r, ps') else best
  else best

theorem tryCands_cons (env : Env) (cons : Option Bytes) (name path : Bytes) (ps : Params)
    (k : Bytes → Params → Res) (c : Nat) (cs : List Nat) (best : Res) :
    tryCands env cons name path ps k (c :: cs) best =
      tryCands env cons name path ps k cs (stepCand env cons name path ps k c best) := rfl

theorem stepCand_some {env cons name path ps k c best} {r : Info × Params}
    (h : stepCand env cons name path ps k c best = some r) :
    best = some r ∨ (candOk env cons (path.take c) = true ∧ k (path.drop c) (ps ++ [(name, path.take c)]) = some r) := by
  unfold stepCand at h
  by_cases hok : candOk env cons (path.take c) = true
  · simp only [hok, ite_true] at h
    cases hk : k (path.drop c) (ps ++ [(name, path.take c)]) with
    | none => rw [hk] at h; exact Or.inl h
    | some x =>
      obtain ⟨i, ps'⟩ := x
      rw [hk] at h
      simp only at h
      by_cases hb : better i best = true
      · rw [if_pos hb] at h; exact Or.inr ⟨hok, h⟩
      · rw [if_neg hb] at h; exact Or.inl h
  · rw [if_neg hok] at h; exact Or.inl h

theorem stepCand_isSome_of_best {env cons name path ps k c} {best : Res} (h : best.isSome = true) :
    (stepCand env cons name path ps k c best).isSome = true := by
  unfold stepCand
  by_cases hok : candOk env cons (path.take c) = true
  · rw [if_pos hok]
    cases hk : k (path.drop c) (ps ++ [(name, path.take c)]) with
    | none => exact h
    | some x =>
      obtain ⟨i, ps'⟩ := x
      simp only
      by_cases hb : better i best = true
      · rw [if_pos hb]; rfl
      · rw [if_neg hb]; exact h
  · rw [if_neg hok]; exact h

theorem stepCand_isSome_of_ok {env cons name path ps k c} {best : Res}
    (hok : candOk env cons (path.take c) = true)
    (hk : (k (path.drop c) (ps ++ [(name, path.take c)])).isSome = true) :
    (stepCand env cons name path ps k c best).isSome = true := by
  unfold stepCand
  rw [if_pos hok]
  cases hk' : k (path.drop c) (ps ++ [(name, path.take c)]) with
  | none => rw [hk'] at hk; cases hk
  | some x =>
    obtain ⟨i, ps'⟩ := x
    simp only
    by_cases hb : better i best = true
    · rw [if_pos hb]; rfl
    · rw [if_neg hb]
      cases best with
      | none => simp [better] at hb
      | some _ => rfl

/-- the winner of a capture loop comes from one of its candidates (or is the initial best) -/
theorem tryCands_some (env : Env) (cons : Option Bytes) (name path : Bytes) (ps : Params)
    (k : Bytes → Params → Res) : ∀ (cs : List Nat) (best : Res) (r : Info × Params),
    tryCands env cons name path ps k cs best = some r →
    best = some r ∨ ∃ c ∈ cs, candOk env cons (path.take c) = true ∧
      k (path.drop c) (ps ++ [(name, path.take c)]) = some r
  | [], best, r, h => Or.inl h
  | c :: cs, best, r, h => by
    rw [tryCands_cons] at h
    rcases tryCands_some env cons name path ps k cs _ r h with h' | ⟨c', hc', h'⟩
    · rcases stepCand_some h' with h'' | h''
      · exact Or.inl h''
      · exact Or.inr ⟨c, by simp, h''⟩
    · exact Or.inr ⟨c', by simp [hc'], h'⟩

/-- if some candidate is acceptable and its continuation succeeds, the loop returns something -/
theorem tryCands_isSome (env : Env) (cons : Option Bytes) (name path : Bytes) (ps : Params)
    (k : Bytes → Params → Res) : ∀ (cs : List Nat) (best : Res),
    (best.isSome = true ∨ ∃ c ∈ cs, candOk env cons (path.take c) = true ∧
      (k (path.drop c) (ps ++ [(name, path.take c)])).isSome = true) →
    (tryCands env cons name path ps k cs best).isSome = true
  | [], best, h => by
    rcases h with h | ⟨c, hc, _⟩
    · exact h
    · simp at hc
  | c :: cs, best, h => by
    rw [tryCands_cons]
    apply tryCands_isSome env cons name path ps k cs
    rcases h with h | ⟨c', hc', hok, hk⟩
    · exact Or.inl (stepCand_isSome_of_best h)
    · simp only [List.mem_cons] at hc'
      rcases hc' with rfl | hc'
      · exact Or.inl (stepCand_isSome_of_ok hok hk)
      · exact Or.inr ⟨c', hc', hok, hk⟩
