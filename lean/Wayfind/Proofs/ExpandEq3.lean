import Wayfind.Proofs.ExpandEq2

/-! Stage 1, part 3: single steps of the scan at depth 0, and fuel-independence of the grammar's parser. -/

section steps
variable (full : Bytes) (fuel start : Nat) (next : Option Byte) (top : Bool)

theorem scan_lit (b : Byte) (t : Bytes) (cur : Nat) (st : ExpSt) (h92 : b ≠ 92) (h40 : b ≠ 40) (h41 : b ≠ 41) :
    expandScan full fuel start next top (b :: t) cur st =
      expandScan full fuel start next top t (cur + 1) { st with acc := st.acc ++ [b] } := by
  cases t with
  | nil => rw [expandScan.eq_3]; simp [h92, h40, h41]
  | cons c t' => rw [expandScan.eq_2]; simp [h92, h40, h41]

theorem scan_esc (c : Byte) (t : Bytes) (cur : Nat) (st : ExpSt) :
    expandScan full fuel start next top (92 :: c :: t) cur st =
      expandScan full fuel start next top t (cur + 2) { st with acc := st.acc ++ [92, c] } := by
  rw [expandScan.eq_2]; simp

theorem scan_lone (cur : Nat) (st : ExpSt) (hn : next = none) :
    expandScan full fuel start next top [92] cur st =
      expandScan full fuel start next top [] (cur + 1) { st with acc := st.acc ++ [92] } := by
  rw [expandScan.eq_3]; subst hn; simp

theorem scan_open (t : Bytes) (cur : Nat) (result : List Bytes) (group : Nat) (acc : Bytes) :
    expandScan full fuel start next top (40 :: t) cur ⟨result, group, 0, acc⟩ =
      expandScan full fuel start next top t (cur + 1) ⟨result.map (· ++ acc), cur + 1, 1, []⟩ := by
  cases t with
  | nil => rw [expandScan.eq_3]; simp
  | cons c t' => rw [expandScan.eq_2]; simp

theorem scan_stray_close (t : Bytes) (cur : Nat) (result : List Bytes) (group : Nat) (acc : Bytes) :
    ∃ e, expandScan full fuel start next top (41 :: t) cur ⟨result, group, 0, acc⟩ = .error e := by
  cases t with
  | nil => rw [expandScan.eq_3]; exact ⟨.unbalancedParenthesis full cur, by simp⟩
  | cons c t' => rw [expandScan.eq_2]; exact ⟨.unbalancedParenthesis full cur, by simp⟩

theorem scan_close (t : Bytes) (cur : Nat) (result : List Bytes) (group : Nat) (acc : Bytes) :
    expandScan full fuel start next top (41 :: t) cur ⟨result, group, 1, acc⟩ =
      if cur = group then .error (.emptyParentheses full (cur - 1)) else
      match expandRange full fuel acc group (some 41) false with
      | .error e => .error e
      | .ok inner => expandScan full fuel start next top t (cur + 1) ⟨productStep result inner, cur + 1, 0, []⟩ := by
  cases t with
  | nil => rw [expandScan.eq_3]; simp; rfl
  | cons c t' => rw [expandScan.eq_2]; simp; rfl

theorem scan_end (cur : Nat) (result : List Bytes) (group : Nat) (acc : Bytes) :
    expandScan full fuel start next top [] cur ⟨result, group, 0, acc⟩ =
      .ok (if top then (result.map (· ++ acc)).map (fun t => if t.isEmpty then [47] else t) else result.map (· ++ acc)) := by
  rw [expandScan.eq_1]; simp

end steps

theorem parseSeq_fuel : ∀ (f1 f2 : Nat) (s : Bytes), s.length < f1 → s.length < f2 → parseSeq f1 s = parseSeq f2 s
  | 0, _, _, h, _ => by omega
  | _, 0, _, _, h => by omega
  | f1 + 1, f2 + 1, s, h1, h2 => by
    match s, h1, h2 with
    | [], _, _ => simp [parseSeq]
    | [b], h1, h2 =>
      have ih := parseSeq_fuel f1 f2 [] (by simp at h1 ⊢; omega) (by simp at h2 ⊢; omega)
      by_cases h92 : b = 92
      · subst h92
        rw [parseSeq, parseSeq, ih]
        all_goals simp
      · by_cases h40 : b = 40
        · subst h40; simp [parseSeq, groupBody]
        · by_cases h41 : b = 41
          · subst h41; simp [parseSeq]
          · rw [parseSeq, parseSeq, ih]
            all_goals simp_all
    | b :: c :: rest, h1, h2 =>
      simp only [List.length_cons] at h1 h2
      by_cases h92 : b = 92
      · subst h92
        simp only [parseSeq]
        rw [parseSeq_fuel f1 f2 rest (by omega) (by omega)]
      · by_cases h40 : b = 40
        · subst h40
          simp only [parseSeq]
          cases hg : groupBody 1 (c :: rest) with
          | none => rfl
          | some gr =>
            obtain ⟨g, r⟩ := gr
            have hl := groupBody_length 1 (c :: rest) g r hg
            simp only [List.length_cons] at hl
            simp only []
            rw [parseSeq_fuel f1 f2 g (by omega) (by omega), parseSeq_fuel f1 f2 r (by omega) (by omega)]
        · by_cases h41 : b = 41
          · subst h41; simp [parseSeq]
          · rw [parseSeq, parseSeq, parseSeq_fuel f1 f2 (c :: rest) (by simp only [List.length_cons]; omega) (by simp only [List.length_cons]; omega)]
            all_goals simp_all
