import Wayfind.Proofs.DrawText2

/-! The printed text determines the tree of printed labels: two trees (with labels that can be read back) that print the
same lines have the same nodes — label as printed, mark — in the same parent/child arrangement and order. -/

def HeadLT (l : List (Nat × List Char × Bool)) (d : Nat) : Prop := ∀ e, l.head? = some e → e.1 < d

theorem KTs.flat_app (d : Nat) : ∀ (a b : KTs), KTs.flat d (a.app b) = KTs.flat d a ++ KTs.flat d b
  | .nil, b => by simp [KTs.app, KTs.flat]
  | .cons t r, b => by simp [KTs.app, KTs.flat, KTs.flat_app d r b]

theorem kts_head (d : Nat) (ts : KTs) (r : List (Nat × List Char × Bool)) (hr : HeadLT r d) :
    HeadLE (KTs.flat d ts ++ r) d := by
  cases ts with
  | nil => intro e he; simp only [KTs.flat, List.nil_append] at he; exact Nat.le_of_lt (hr e he)
  | cons t ts' =>
    cases t with
    | mk k m kids =>
      intro e he
      simp only [KTs.flat, KT.flat, List.cons_append, List.append_assoc, List.head?_cons, Option.some.injEq] at he
      subst he; exact Nat.le_refl _

mutual
theorem KT.flat_inj : ∀ (t1 t2 : KT) (d : Nat) (r1 r2 : List (Nat × List Char × Bool)), HeadLE r1 d → HeadLE r2 d →
    KT.flat d t1 ++ r1 = KT.flat d t2 ++ r2 → t1 = t2 ∧ r1 = r2
  | .mk k1 m1 kids1, t2, d, r1, r2, h1, h2, he => by
    cases t2 with
    | mk k2 m2 kids2 =>
      simp only [KT.flat, List.cons_append, List.cons.injEq, Prod.mk.injEq] at he
      obtain ⟨⟨_, hk, hm⟩, htl⟩ := he
      have hl1 : HeadLT r1 (d + 1) := fun e h => Nat.lt_succ_of_le (h1 e h)
      have hl2 : HeadLT r2 (d + 1) := fun e h => Nat.lt_succ_of_le (h2 e h)
      obtain ⟨hkids, hr⟩ := KTs.flat_inj kids1 kids2 (d + 1) r1 r2 hl1 hl2 htl
      subst hk; subst hm; subst hkids
      exact ⟨rfl, hr⟩
theorem KTs.flat_inj : ∀ (ts1 ts2 : KTs) (d : Nat) (r1 r2 : List (Nat × List Char × Bool)), HeadLT r1 d → HeadLT r2 d →
    KTs.flat d ts1 ++ r1 = KTs.flat d ts2 ++ r2 → ts1 = ts2 ∧ r1 = r2
  | .nil, ts2, d, r1, r2, h1, h2, he => by
    cases ts2 with
    | nil => simpa [KTs.flat] using he
    | cons t ts' =>
      cases t with
      | mk k m kids =>
        simp only [KTs.flat, KT.flat, List.nil_append, List.cons_append, List.append_assoc] at he
        have := h1 (d, k, m) (by rw [he]; rfl)
        exact absurd this (Nat.lt_irrefl d)
  | .cons t1 ts1', ts2, d, r1, r2, h1, h2, he => by
    cases ts2 with
    | nil =>
      cases t1 with
      | mk k m kids =>
        simp only [KTs.flat, KT.flat, List.nil_append, List.cons_append, List.append_assoc] at he
        have := h2 (d, k, m) (by rw [← he]; rfl)
        exact absurd this (Nat.lt_irrefl d)
    | cons t2 ts2' =>
      simp only [KTs.flat, List.append_assoc] at he
      obtain ⟨ht, hrest⟩ := KT.flat_inj t1 t2 d _ _ (kts_head d ts1' r1 h1) (kts_head d ts2' r2 h2) he
      obtain ⟨hts, hr⟩ := KTs.flat_inj ts1' ts2' d r1 r2 h1 h2 hrest
      subst ht; subst hts
      exact ⟨rfl, hr⟩
end

mutual
theorem Node.dents_flat : ∀ (n : Node) (d : Nat) (key : List Char), key ≠ [] → Node.drawable n = true →
    Node.dents d key n = KT.flat d (.mk key n.data.isSome (Node.kidTrees n))
  | .mk x s dc dy wc w ec e _ _ _, d, key, hk, hdr => by
    simp only [Node.drawable, Bool.and_eq_true] at hdr
    obtain ⟨⟨⟨⟨⟨⟨h0, h1⟩, h2⟩, h3⟩, h4⟩, h5⟩, h6⟩ := hdr
    have hne : key.isEmpty = false := by cases key <;> simp_all
    simp only [Node.dents, hne, Bool.false_eq_true, if_false, KT.flat, Node.kidTrees, Node.data, KTs.flat_app,
      Kids.dents_flat s (d + 1) 0 h0, Kids.dents_flat dc (d + 1) 1 h1, Kids.dents_flat dy (d + 1) 2 h2,
      Kids.dents_flat wc (d + 1) 3 h3, Kids.dents_flat w (d + 1) 4 h4, Kids.dents_flat ec (d + 1) 5 h5,
      Kids.dents_flat e (d + 1) 6 h6, List.cons_append, List.nil_append, List.append_assoc]
theorem Kids.dents_flat : ∀ (ks : Kids) (d slot : Nat), Kids.drawable slot ks = true →
    Kids.dents d slot ks = KTs.flat d (Kids.ktrees slot ks)
  | .nil, _, _, _ => rfl
  | .cons l n r, d, slot, hdr => by
    simp only [Kids.drawable, Bool.and_eq_true] at hdr
    simp only [Kids.dents, Kids.ktrees, KTs.flat, Node.dents_flat n d _ (keyOK_ne_nil hdr.1.1) hdr.1.2, Kids.dents_flat r d slot hdr.2]
end

theorem map_some_inj {α} : ∀ (a b : List α), a.map some = b.map some → a = b
  | [], [], _ => rfl
  | [], _ :: _, h => by simp at h
  | _ :: _, [], h => by simp at h
  | x :: a, y :: b, h => by
    simp only [List.map_cons, List.cons.injEq, Option.some.injEq] at h
    rw [h.1, map_some_inj a b h.2]

theorem root_dents_flat (root : Node) (hdr : Node.drawable root = true) :
    Node.dents 0 [] root = KTs.flat 0 (Node.kidTrees root) := by
  cases root with
  | mk x s dc dy wc w ec e _ _ _ =>
    simp only [Node.drawable, Bool.and_eq_true] at hdr
    obtain ⟨⟨⟨⟨⟨⟨h0, h1⟩, h2⟩, h3⟩, h4⟩, h5⟩, h6⟩ := hdr
    simp only [Node.dents, List.isEmpty_nil, if_true, Node.kidTrees, KTs.flat_app,
      Kids.dents_flat s 0 0 h0, Kids.dents_flat dc 0 1 h1, Kids.dents_flat dy 0 2 h2,
      Kids.dents_flat wc 0 3 h3, Kids.dents_flat w 0 4 h4, Kids.dents_flat ec 0 5 h5,
      Kids.dents_flat e 0 6 h6, List.nil_append, List.append_assoc]

/-- **The printed text determines the tree of printed labels.** Two trees whose labels can be read back and which print the
same lines have the same nodes — label as printed, mark — with the same children in the same order. -/
theorem lines_determine_tree (n1 n2 : Node) (h1 : Node.drawable n1 = true) (h2 : Node.drawable n2 = true)
    (h : Node.lines "" "" true true n1 = Node.lines "" "" true true n2) : Node.kidTrees n1 = Node.kidTrees n2 := by
  have e1 := root_lines_parse n1 h1
  have e2 := root_lines_parse n2 h2
  rw [h] at e1
  have hd : Node.dents 0 [] n1 = Node.dents 0 [] n2 := by
    have := e1.symm.trans e2
    exact map_some_inj _ _ this
  rw [root_dents_flat n1 h1, root_dents_flat n2 h2] at hd
  have hl : HeadLT ([] : List (Nat × List Char × Bool)) 0 := by intro e he; cases he
  have := KTs.flat_inj (Node.kidTrees n1) (Node.kidTrees n2) 0 [] [] hl hl (by simpa using hd)
  exact this.1
