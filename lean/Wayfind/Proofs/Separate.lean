import Wayfind.Proofs.Reparse
import Wayfind.Proofs.LiveWalk2
import Wayfind.Proofs.Oci6
import Wayfind.Proofs.WalkMapInfo

/-! C04, stated the way the property states it: inserting a template with optional groups is observably the same as
inserting, one by one and with the same data, the group-free templates that are its expansions — every search answers
identically, except that a match of one of these reports the original template text and the expansion as `expanded`. -/

/-- insert the templates one after the other, all with data `d`; `none` when one of them is refused -/
def insertEach (d : Nat) : Router → List Bytes → Option Router
  | r, [] => some r
  | r, t :: ts => match r.insert t d with
    | .ok r' => insertEach d r' ts
    | .error _ => none

/-- what a match of a separately inserted expansion looks like when the expansion belongs to template `t` -/
def relabelInfo (t : Bytes) (texts : List Bytes) (i : Info) : Info :=
  if texts.contains i.template && i.expanded.isNone then { i with template := t, expanded := some i.template } else i

def relabel (t : Bytes) (texts : List Bytes) (m : Match) : Match :=
  if texts.contains m.template && m.expanded.isNone then { m with template := t, expanded := some m.template } else m

theorem relabelInfo_id (t : Bytes) (texts : List Bytes) (i : Info) (h : texts.contains i.template = false) :
    relabelInfo t texts i = i := by
  unfold relabelInfo
  rw [h]
  rfl

theorem relabel_keeps (t : Bytes) (texts : List Bytes) : KeepsRank (relabelInfo t texts) := by
  intro i
  unfold relabelInfo
  split <;> exact ⟨rfl, rfl⟩

theorem toMatch_relabel (t : Bytes) (texts : List Bytes) (x : Info × Params) :
    toMatch (relabelInfo t texts x.1, x.2) = relabel t texts (toMatch x) := by
  unfold relabelInfo relabel toMatch
  simp only
  split <;> rfl

theorem firstUnknown_sub (known : Bytes → Bool) (ts : List (Bytes × List Part)) (h : firstUnknown known ts = none)
    (e : Bytes × List Part) (he : e ∈ ts) : firstUnknown known [e] = none := by
  unfold firstUnknown at h ⊢
  rw [List.find?_eq_none] at h ⊢
  intro c hc
  apply h c
  simp only [List.mem_flatMap] at hc ⊢
  obtain ⟨x, hx, hcx⟩ := hc
  simp only [List.mem_singleton] at hx
  subst hx
  exact ⟨x, he, hcx⟩

theorem flatMap_map_single {α β γ} (F : α → β) (S : β → List γ) (R : α → γ) (h : ∀ a, S (F a) = [R a]) :
    ∀ (l : List α), (l.map F).flatMap S = l.map R
  | [] => rfl
  | a :: as => by simp [h a, flatMap_map_single F S R h as]

theorem specRoutes_append (L1 L2 : List LiveT) : specRoutes (L1 ++ L2) = specRoutes L1 ++ specRoutes L2 := by
  simp [specRoutes]

/-- inserting the expansions one by one succeeds and yields the live list `L ++ [one template per expansion]` -/
theorem insertEach_live (d : Nat) : ∀ (es : List (Bytes × List Part)) (r : Router) (L : List LiveT), Live r L →
    (∀ e ∈ es, parseTemplates e.1 = .ok [e]) →
    (∀ e ∈ es, firstUnknown (fun c => r.registry.any (·.1 == c)) [e] = none) →
    (∀ lt ∈ L, ∀ x ∈ lt.exps, ∀ e ∈ es, x.2 ≠ e.2) → (es.map (·.2)).Nodup →
    ∃ rb, insertEach d r (es.map (·.1)) = some rb ∧ Live rb (L ++ es.map (fun e => ⟨e.1, d, [e]⟩)) ∧ rb.registry = r.registry
  | [], r, L, h, _, _, _, _ => ⟨r, rfl, by simpa using h, rfl⟩
  | e :: es, r, L, h, hp, hk, hn, hd => by
    simp only [List.map_cons, List.nodup_cons] at hd
    obtain ⟨r', hi, hl, hreg⟩ := live_insert_ok h e.1 d [e] (hp e (by simp)) (hk e (by simp)) (by
      intro lt hlt x hx e' he'
      simp only [List.mem_singleton] at he'
      subst he'
      exact hn lt hlt x hx e' (by simp))
    obtain ⟨rb, h1, h2, h3⟩ := insertEach_live d es r' (L ++ [⟨e.1, d, [e]⟩]) hl (fun y hy => hp y (by simp [hy]))
      (fun y hy => by rw [hreg]; exact hk y (by simp [hy]))
      (by
        intro lt hlt x hx y hy
        rcases List.mem_append.1 hlt with hlt | hlt
        · exact hn lt hlt x hx y (by simp [hy])
        · simp only [List.mem_singleton] at hlt
          subst hlt
          simp only [List.mem_singleton] at hx
          subst hx
          intro heq
          exact hd.1 (List.mem_map.2 ⟨y, hy, heq.symm⟩))
      hd.2
    refine ⟨rb, by simp only [List.map_cons, insertEach, hi]; exact h1, ?_, by rw [h3, hreg]⟩
    simpa [List.append_assoc] using h2

/-- **C04**: a successful `insert(t, d)` of a template whose expansions have pairwise different parts is observably the
insertion, one by one, of its expansions as group-free templates with the same data: those inserts all succeed, and
every search on the two routers gives the same answer up to the reporting convention (original template text,
`expanded` = the group-free text) -/
theorem insert_eq_separate (env : Env) {r ra : Router} {L : List LiveT} (h : Live r L) (t : Bytes) (d : Nat)
    (ts : List (Bytes × List Part)) (hp : parseTemplates t = .ok ts) (hlen : ts.length > 1) (hd : DistinctExps ts)
    (hi : r.insert t d = .ok ra) :
    ∃ rb, insertEach d r (ts.map (·.1)) = some rb ∧
      ∀ path, ra.search env path = (rb.search env path).map (relabel t (ts.map (·.1))) := by
  obtain ⟨ts', hp', hu, hc, rfl⟩ := (Router.insert_ok_iff r ra t d).1 hi
  rw [hp] at hp'; injection hp' with hp'; subst hp'
  have hreg := h.rinv.reg
  have hfresh := conflictsOf_nil hc
  have hnokey : ∀ lt ∈ L, ∀ x ∈ lt.exps, ∀ e ∈ ts, x.2 ≠ e.2 := by
    intro lt hlt x hx e he heq
    obtain ⟨i, hf, _⟩ := hreg.complete lt hlt x hx
    rw [heq, hfresh e he] at hf; cases hf
  obtain ⟨rb, hb1, hb2, _⟩ := insertEach_live d ts r L h (fun e he => reparse_parseTemplates t ts hp e he)
    (fun e he => firstUnknown_sub _ ts hu e he) hnokey hd
  refine ⟨rb, hb1, fun path => ?_⟩
  have ha : Live (r.insertOk t d ts) (L ++ [⟨t, d, ts⟩]) := by
    have := h.step (.insert t d)
    simpa [Router.step, liveAfter, hi, hp] using this
  rw [search_is_walk_over_live env ha path, search_is_walk_over_live env hb2 path]
  -- the two route lists differ by the relabelling of the stored values
  have hroutes : specRoutes (L ++ [⟨t, d, ts⟩]) =
      (specRoutes (L ++ ts.map (fun e => ⟨e.1, d, [e]⟩))).map (Route.mapI (relabelInfo t (ts.map (·.1)))) := by
    rw [specRoutes_append, specRoutes_append, List.map_append]
    congr 1
    · -- the routes of `L` are untouched: no live template is spelled like an expansion of `t`
      symm
      refine (List.map_congr_left ?_).trans (List.map_id _)
      intro rt hrt
      simp only [specRoutes, List.mem_flatMap, specRoutesOf, List.mem_map] at hrt
      obtain ⟨lt, hlt, x, hx, rfl⟩ := hrt
      have : (ts.map (·.1)).contains lt.template = false := by
        apply Bool.eq_false_iff.2
        intro hcon
        simp only [List.contains_iff_mem, List.mem_map] at hcon
        obtain ⟨e, he, het⟩ := hcon
        have hpe := reparse_parseTemplates t ts hp e he
        have hpl := hreg.parsed lt hlt
        rw [← het, hpe] at hpl
        injection hpl with hpl
        exact hnokey lt hlt e (by rw [← hpl]; simp) e he rfl
      unfold Route.mapI
      rw [relabelInfo_id t _ _ (by simpa [specInfo] using this)]
      rfl
    · -- the routes of `t` are the relabelled routes of its expansions
      have hsingle : specRoutes (ts.map (fun e => (⟨e.1, d, [e]⟩ : LiveT))) =
          ts.map (fun e => (⟨e.2, specInfo ⟨e.1, d, [e]⟩ e⟩ : Route)) :=
        flatMap_map_single _ specRoutesOf _ (fun e => by simp [specRoutesOf]) ts
      rw [hsingle, List.map_map]
      simp only [specRoutes, List.flatMap_cons, List.flatMap_nil, List.append_nil, specRoutesOf]
      apply List.map_congr_left
      intro e he
      have hmem : (ts.map (·.1)).contains e.1 = true := by
        simp only [List.contains_iff_mem, List.mem_map]; exact ⟨e, he, rfl⟩
      have hpk : pick e.2 [e] = some e := by
        unfold pick
        split
        · simp
        · simp [pickLast]
      simp only [Function.comp, Route.mapI, relabelInfo, specInfo, pick_distinct hd he, Option.getD_some, hlen, ite_true, hpk,
        List.length_singleton, Nat.lt_irrefl, ite_false, hmem, Option.isNone_none, Bool.and_self]
  rw [hroutes, refWalk_mapI _ (relabel_keeps t _)]
  cases refWalk env path.length (specRoutes (L ++ ts.map (fun e => ⟨e.1, d, [e]⟩))) path [] with
  | none => rfl
  | some x => simp only [Res.mapI, Option.map_some]; rw [toMatch_relabel]
