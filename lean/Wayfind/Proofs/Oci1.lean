import Wayfind.Proofs.UniqueFit
import Wayfind.Proofs.ParserEq

/-! The OCI example's templates and their expansions (C17). Generated literal byte lists; the parse results are
checked by `decide` against the grammar specification and carried over to the parser model by the parser theorem. -/

/-- `/v2(/)` -/
def ociRoot : Bytes := [47, 118, 50, 40, 47, 41]
/-- its expansions, in the parser's order: with the trailing slash, then without -/
def ociRootExps : List (Bytes × List Part) := [([47, 118, 50, 47], [.stat [47, 118, 50, 47]]), ([47, 118, 50], [.stat [47, 118, 50]])]
theorem ociRoot_parse : parseTemplates ociRoot = .ok ociRootExps :=
  (parseTemplates_eq_specParse _ _).2 (by decide)

/-- `/v2/{*name:name}/blobs/{digest}(/)` -/
def ociBlob : Bytes := [47, 118, 50, 47, 123, 42, 110, 97, 109, 101, 58, 110, 97, 109, 101, 125, 47, 98, 108, 111, 98, 115, 47, 123, 100, 105, 103, 101, 115, 116, 125, 40, 47, 41]
/-- its expansions, in the parser's order: with the trailing slash, then without -/
def ociBlobExps : List (Bytes × List Part) := [([47, 118, 50, 47, 123, 42, 110, 97, 109, 101, 58, 110, 97, 109, 101, 125, 47, 98, 108, 111, 98, 115, 47, 123, 100, 105, 103, 101, 115, 116, 125, 47], [.stat [47, 118, 50, 47], .par .wildC {name := [110, 97, 109, 101], cons := [110, 97, 109, 101]}, .stat [47, 98, 108, 111, 98, 115, 47], .par .dyn {name := [100, 105, 103, 101, 115, 116]}, .stat [47]]), ([47, 118, 50, 47, 123, 42, 110, 97, 109, 101, 58, 110, 97, 109, 101, 125, 47, 98, 108, 111, 98, 115, 47, 123, 100, 105, 103, 101, 115, 116, 125], [.stat [47, 118, 50, 47], .par .wildC {name := [110, 97, 109, 101], cons := [110, 97, 109, 101]}, .stat [47, 98, 108, 111, 98, 115, 47], .par .dyn {name := [100, 105, 103, 101, 115, 116]}])]
theorem ociBlob_parse : parseTemplates ociBlob = .ok ociBlobExps :=
  (parseTemplates_eq_specParse _ _).2 (by decide)

/-- `/v2/{*name:name}/manifests/{reference}(/)` -/
def ociManifest : Bytes := [47, 118, 50, 47, 123, 42, 110, 97, 109, 101, 58, 110, 97, 109, 101, 125, 47, 109, 97, 110, 105, 102, 101, 115, 116, 115, 47, 123, 114, 101, 102, 101, 114, 101, 110, 99, 101, 125, 40, 47, 41]
/-- its expansions, in the parser's order: with the trailing slash, then without -/
def ociManifestExps : List (Bytes × List Part) := [([47, 118, 50, 47, 123, 42, 110, 97, 109, 101, 58, 110, 97, 109, 101, 125, 47, 109, 97, 110, 105, 102, 101, 115, 116, 115, 47, 123, 114, 101, 102, 101, 114, 101, 110, 99, 101, 125, 47], [.stat [47, 118, 50, 47], .par .wildC {name := [110, 97, 109, 101], cons := [110, 97, 109, 101]}, .stat [47, 109, 97, 110, 105, 102, 101, 115, 116, 115, 47], .par .dyn {name := [114, 101, 102, 101, 114, 101, 110, 99, 101]}, .stat [47]]), ([47, 118, 50, 47, 123, 42, 110, 97, 109, 101, 58, 110, 97, 109, 101, 125, 47, 109, 97, 110, 105, 102, 101, 115, 116, 115, 47, 123, 114, 101, 102, 101, 114, 101, 110, 99, 101, 125], [.stat [47, 118, 50, 47], .par .wildC {name := [110, 97, 109, 101], cons := [110, 97, 109, 101]}, .stat [47, 109, 97, 110, 105, 102, 101, 115, 116, 115, 47], .par .dyn {name := [114, 101, 102, 101, 114, 101, 110, 99, 101]}])]
theorem ociManifest_parse : parseTemplates ociManifest = .ok ociManifestExps :=
  (parseTemplates_eq_specParse _ _).2 (by decide)

/-- `/v2/{*name:name}/tags/list(/)` -/
def ociTags : Bytes := [47, 118, 50, 47, 123, 42, 110, 97, 109, 101, 58, 110, 97, 109, 101, 125, 47, 116, 97, 103, 115, 47, 108, 105, 115, 116, 40, 47, 41]
/-- its expansions, in the parser's order: with the trailing slash, then without -/
def ociTagsExps : List (Bytes × List Part) := [([47, 118, 50, 47, 123, 42, 110, 97, 109, 101, 58, 110, 97, 109, 101, 125, 47, 116, 97, 103, 115, 47, 108, 105, 115, 116, 47], [.stat [47, 118, 50, 47], .par .wildC {name := [110, 97, 109, 101], cons := [110, 97, 109, 101]}, .stat [47, 116, 97, 103, 115, 47, 108, 105, 115, 116, 47]]), ([47, 118, 50, 47, 123, 42, 110, 97, 109, 101, 58, 110, 97, 109, 101, 125, 47, 116, 97, 103, 115, 47, 108, 105, 115, 116], [.stat [47, 118, 50, 47], .par .wildC {name := [110, 97, 109, 101], cons := [110, 97, 109, 101]}, .stat [47, 116, 97, 103, 115, 47, 108, 105, 115, 116]])]
theorem ociTags_parse : parseTemplates ociTags = .ok ociTagsExps :=
  (parseTemplates_eq_specParse _ _).2 (by decide)

/-- `/v2/{*name:name}/blobs/uploads(/)` -/
def ociUploads : Bytes := [47, 118, 50, 47, 123, 42, 110, 97, 109, 101, 58, 110, 97, 109, 101, 125, 47, 98, 108, 111, 98, 115, 47, 117, 112, 108, 111, 97, 100, 115, 40, 47, 41]
/-- its expansions, in the parser's order: with the trailing slash, then without -/
def ociUploadsExps : List (Bytes × List Part) := [([47, 118, 50, 47, 123, 42, 110, 97, 109, 101, 58, 110, 97, 109, 101, 125, 47, 98, 108, 111, 98, 115, 47, 117, 112, 108, 111, 97, 100, 115, 47], [.stat [47, 118, 50, 47], .par .wildC {name := [110, 97, 109, 101], cons := [110, 97, 109, 101]}, .stat [47, 98, 108, 111, 98, 115, 47, 117, 112, 108, 111, 97, 100, 115, 47]]), ([47, 118, 50, 47, 123, 42, 110, 97, 109, 101, 58, 110, 97, 109, 101, 125, 47, 98, 108, 111, 98, 115, 47, 117, 112, 108, 111, 97, 100, 115], [.stat [47, 118, 50, 47], .par .wildC {name := [110, 97, 109, 101], cons := [110, 97, 109, 101]}, .stat [47, 98, 108, 111, 98, 115, 47, 117, 112, 108, 111, 97, 100, 115]])]
theorem ociUploads_parse : parseTemplates ociUploads = .ok ociUploadsExps :=
  (parseTemplates_eq_specParse _ _).2 (by decide)

/-- `/v2/{*name:name}/blobs/uploads/{reference}(/)` -/
def ociUploadsRef : Bytes := [47, 118, 50, 47, 123, 42, 110, 97, 109, 101, 58, 110, 97, 109, 101, 125, 47, 98, 108, 111, 98, 115, 47, 117, 112, 108, 111, 97, 100, 115, 47, 123, 114, 101, 102, 101, 114, 101, 110, 99, 101, 125, 40, 47, 41]
/-- its expansions, in the parser's order: with the trailing slash, then without -/
def ociUploadsRefExps : List (Bytes × List Part) := [([47, 118, 50, 47, 123, 42, 110, 97, 109, 101, 58, 110, 97, 109, 101, 125, 47, 98, 108, 111, 98, 115, 47, 117, 112, 108, 111, 97, 100, 115, 47, 123, 114, 101, 102, 101, 114, 101, 110, 99, 101, 125, 47], [.stat [47, 118, 50, 47], .par .wildC {name := [110, 97, 109, 101], cons := [110, 97, 109, 101]}, .stat [47, 98, 108, 111, 98, 115, 47, 117, 112, 108, 111, 97, 100, 115, 47], .par .dyn {name := [114, 101, 102, 101, 114, 101, 110, 99, 101]}, .stat [47]]), ([47, 118, 50, 47, 123, 42, 110, 97, 109, 101, 58, 110, 97, 109, 101, 125, 47, 98, 108, 111, 98, 115, 47, 117, 112, 108, 111, 97, 100, 115, 47, 123, 114, 101, 102, 101, 114, 101, 110, 99, 101, 125], [.stat [47, 118, 50, 47], .par .wildC {name := [110, 97, 109, 101], cons := [110, 97, 109, 101]}, .stat [47, 98, 108, 111, 98, 115, 47, 117, 112, 108, 111, 97, 100, 115, 47], .par .dyn {name := [114, 101, 102, 101, 114, 101, 110, 99, 101]}])]
theorem ociUploadsRef_parse : parseTemplates ociUploadsRef = .ok ociUploadsRefExps :=
  (parseTemplates_eq_specParse _ _).2 (by decide)
