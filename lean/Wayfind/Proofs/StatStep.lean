import Wayfind.Proofs.ParStep

theorem pre_eq_map (q : Bytes) (R : List Route) : R.map (Route.push (.stat q)) = pre q R := rfl

theorem stripByte_push_stat (b c : Byte) (q : Bytes) (R : List Route) :
    (R.map (Route.push (.stat (c :: q)))).filterMap (stripByte b) =
      if c = b then (if q = [] then R else pre q R) else [] := by
  rw [pre_eq_map]
  by_cases h : c = b
  · subst h
    by_cases hq : q = []
    · subst hq; simp [stripByte_pre_single]
    · simp [hq, stripByte_pre_cons c q hq]
  · simp [h, stripByte_pre_ne b c q h]

theorem stripByte_routes_noHead (b : Byte) : ∀ (r : Kids), Kids.noHead (some b) r →
    (Kids.routes statPart r).filterMap (stripByte b) = []
  | .nil, _ => by simp [Kids.routes]
  | .cons l n r, h => by
    simp only [Kids.noHead] at h
    simp only [Kids.routes, List.filterMap_append, stripByte_routes_noHead b r h.2, List.append_nil, statPart]
    cases hl : l.pre with
    | nil => simp [List.filterMap_map, stripByte, Route.push, Function.comp]
    | cons c q =>
      have : c ≠ b := by intro e; apply h.1; simp [hl, e]
      rw [stripByte_push_stat]; simp [this]

theorem searchStatic_noHead (env : Env) (b : Byte) (tl : Bytes) (ps : Params) : ∀ (r : Kids),
    Kids.noHead (some b) r → Kids.All (fun l _ => l.pre ≠ []) r → Kids.searchStatic env r (b :: tl) ps = none
  | .nil, _, _ => rfl
  | .cons l n r, h, hne => by
    simp only [Kids.noHead] at h
    simp only [Kids.All] at hne
    simp only [Kids.searchStatic, searchStatic_noHead env b tl ps r h.2 hne.2, orElse'_none_right]
    cases hl : l.pre with
    | nil => exact absurd hl hne.1
    | cons c q =>
      have : c ≠ b := by intro e; apply h.1; simp [hl, e]
      simp [List.isPrefixOf, this]

def Kids.distinctHeads : Kids → Prop
  | .nil => True
  | .cons l _ r => Kids.noHead l.pre.head? r ∧ Kids.distinctHeads r

/-- KS: the static slot. One comparison of a compressed label = the byte-wise walk along the edge. -/
theorem searchStatic_eq_walk (env : Env) (b : Byte) (tl : Bytes) (ps : Params) (f : Nat) (hf : tl.length ≤ f) :
    ∀ (s : Kids),
    Kids.All (fun _ n => ∀ path' q, path'.length ≤ f →
      Node.search env n path' q = refWalk env f (Node.routes n) path' q) s →
    Kids.All (fun l _ => l.pre ≠ []) s →
    Kids.distinctHeads s →
    Kids.searchStatic env s (b :: tl) ps =
      refWalk env f ((Kids.routes statPart s).filterMap (stripByte b)) tl ps
  | .nil, _, _, _ => by simp [Kids.searchStatic, Kids.routes, refWalk_nil]
  | .cons l n r, hIH, hne, hd => by
    simp only [Kids.All] at hIH hne
    simp only [Kids.distinctHeads] at hd
    have ih := searchStatic_eq_walk env b tl ps f hf r hIH.2 hne.2 hd.2
    cases hl : l.pre with
    | nil => exact absurd hl hne.1
    | cons c q =>
      simp only [Kids.searchStatic, Kids.routes, List.filterMap_append, statPart, hl, stripByte_push_stat]
      by_cases hcb : c = b
      · subst hcb
        have hno : Kids.noHead (some c) r := by simpa [hl] using hd.1
        rw [stripByte_routes_noHead c r hno, searchStatic_noHead env c tl ps r hno hne.2, orElse'_none_right]
        simp only [ite_true, List.append_nil, List.isPrefixOf, beq_self_eq_true, Bool.true_and, List.length_cons,
          List.drop_succ_cons]
        by_cases hq : q = []
        · subst hq
          simp only [List.isPrefixOf, ite_true, List.length_nil, List.drop_zero]
          exact hIH.1 tl ps hf
        · simp only [hq, ite_false]
          rw [refWalk_edge env q hq (Node.routes n) tl ps f hf]
          by_cases hp : q.isPrefixOf tl
          · simp only [hp, ite_true]
            exact hIH.1 _ ps (by simp; omega)
          · simp [hp]
      · have : ¬ (c == b) = true := by simpa using hcb
        simp only [hcb, ite_false, List.nil_append, List.isPrefixOf, this, Bool.false_and, orElse'_none_left]
        exact ih
