import Wayfind.Proofs.Split

/-- the first part of `P` is not literal text starting with byte `b` -/
def notStatHead (b : Option Byte) : List Part → Prop
  | .stat t :: _ => t.head? ≠ b
  | _ => True

theorem insertPar_nil (l : Label) (rest : List Part) (i : Info) :
    Kids.insertPar .nil l rest i = .cons l (chain rest i) .nil := by simp [Kids.insertPar]
theorem insertEnd_nil (l : Label) (i : Info) : Kids.insertEnd .nil l i = .cons l (Node.leaf i) .nil := by
  simp [Kids.insertEnd]

/-- inserting into a freshly split parent: only the new route appears -/
theorem find_insert_splitParent (la : Label) (n : Node) (P : List Part) (i : Info)
    (hla : la.pre ≠ []) (hP : altOK P = true) (hh : notStatHead la.pre.head? P) :
    ∀ Q, altOK Q = true →
      Node.find (Node.insert (splitParent la n) P i) Q = if Q = P then some i else Node.find (splitParent la n) Q := by
  intro Q hQ
  cases P with
  | nil =>
    cases Q with
    | nil => simp [splitParent, Node.insert, Node.find]
    | cons q Q => cases q <;> simp [splitParent, Node.insert, Node.find]
  | cons p P =>
    cases p with
    | stat b =>
      have hb := altOK_stat_ne hP
      simp only [notStatHead] at hh
      have hins : Node.insert (splitParent la n) (.stat b :: P) i =
          .mk none (.cons la n (.cons {pre := b} (chain P i) .nil)) .nil .nil .nil .nil .nil .nil false false true := by
        simp only [splitParent, Node.insert, Kids.insertStatic]
        have : ¬ la.pre.head? = b.head? := fun h => hh h.symm
        simp [this]
      rw [hins]
      cases Q with
      | nil => simp [splitParent, Node.find]
      | cons q Q =>
        cases q with
        | par k l => simp only [splitParent, Node.find]; split <;> simp
        | stat t =>
          simp only [splitParent, Node.find]
          have hfc := find_chain (.stat b :: P) (.stat t :: Q) i hP
          simp only [chain, Node.find] at hfc
          simp only [Kids.findStatic, findStatic_nil] at hfc ⊢
          by_cases h1 : la.pre.head? = t.head?
          · have h2 : ¬ b.head? = t.head? := fun h => hh (h.trans h1.symm)
            have h3 : ¬ (Part.stat t :: Q = Part.stat b :: P) := by
              intro h; injection h with h4 _; injection h4 with h5; subst h5; exact h2 rfl
            simp [h1, h2, h3]
          · simp only [h1, ite_false]
            exact hfc
    | par k l =>
      cases Q with
      | nil => simp only [splitParent, Node.insert]; split <;> simp [Node.find]
      | cons q Q =>
        cases q with
        | stat t => simp only [splitParent, Node.insert]; split <;> simp [Node.find]
        | par k' l' =>
          have hfc := find_chain (.par k l :: P) (.par k' l' :: Q) i hP
          have hnone : Node.find (splitParent la n) (.par k' l' :: Q) = none :=
            find_splitParent_nonstat la n _ (by intro t r h; cases h)
          rw [hnone, ← hfc]
          simp only [splitParent, Node.insert, chain, insertPar_nil, insertEnd_nil]
          cases k <;> cases hP' : P.isEmpty <;> simp only [slotOf] <;> simp only [Node.find] <;>
            first
            | rfl
            | (have : P = [] := by simpa using hP'
               subst this; first | rfl | (simp only [chain]; try rfl))
