import Wayfind.Proofs.Registry4
import Wayfind.Proofs.Order

/-! `sort` then `dedup` yields a strictly increasing list -/

def leB (a b : Bytes) : Bool := lexLt a b || a == b

theorem leB_total (a b : Bytes) : leB a b = true ∨ leB b a = true := by
  by_cases h : a = b
  · left; simp [leB, h]
  · rcases lexLt_total a b h with h1 | h1
    · left; simp [leB, h1]
    · right; simp [leB, h1]

theorem leB_trans (a b c : Bytes) (h1 : leB a b = true) (h2 : leB b c = true) : leB a c = true := by
  simp only [leB, Bool.or_eq_true, beq_iff_eq] at h1 h2 ⊢
  rcases h1 with h1 | rfl
  · rcases h2 with h2 | rfl
    · exact Or.inl (lexLt_trans a b c h1 h2)
    · exact Or.inl h1
  · exact h2

def SortedLe (l : List Bytes) : Prop := l.Pairwise (fun a b => leB a b = true)
def SortedLt (l : List Bytes) : Prop := l.Pairwise (fun a b => lexLt a b = true)

theorem sorted_insertBytes (x : Bytes) : ∀ (l : List Bytes), SortedLe l → SortedLe (insertBytes x l)
  | [], _ => by simp [insertBytes, SortedLe]
  | y :: ys, h => by
    simp only [SortedLe, List.pairwise_cons] at h
    simp only [insertBytes]
    split
    · rename_i hyx
      have hyx' : leB y x = true := by simpa [leB] using hyx
      have ih := sorted_insertBytes x ys h.2
      simp only [SortedLe, List.pairwise_cons]
      refine ⟨?_, ih⟩
      intro z hz
      rcases (mem_insertBytes x z ys).1 hz with rfl | hz
      · exact hyx'
      · exact h.1 z hz
    · rename_i hyx
      have hxy : leB x y = true := by
        rcases leB_total x y with h' | h'
        · exact h'
        · exact absurd (by simpa [leB] using h') hyx
      simp only [SortedLe, List.pairwise_cons]
      refine ⟨?_, h.1, h.2⟩
      intro z hz
      rcases List.mem_cons.1 hz with rfl | hz
      · exact hxy
      · exact leB_trans x y z hxy (h.1 z hz)

theorem sorted_sortBytes : ∀ (l : List Bytes), SortedLe (sortBytes l)
  | [] => by simp [sortBytes, SortedLe]
  | x :: xs => by
    have ih := sorted_sortBytes xs
    simp only [sortBytes, List.foldr_cons] at ih ⊢
    exact sorted_insertBytes x _ ih

theorem strict_dedupAdj : ∀ (l : List Bytes), SortedLe l → SortedLt (dedupAdj l)
  | [], _ => by simp [dedupAdj, SortedLt]
  | [x], _ => by simp [dedupAdj, SortedLt]
  | x :: y :: r, h => by
    simp only [SortedLe, List.pairwise_cons] at h
    have hrest : SortedLe (y :: r) := by simp only [SortedLe, List.pairwise_cons]; exact h.2
    have ih := strict_dedupAdj (y :: r) hrest
    simp only [dedupAdj]
    split
    · exact ih
    · rename_i hne
      have hne' : x ≠ y := by simpa using hne
      simp only [SortedLt, List.pairwise_cons]
      refine ⟨?_, ih⟩
      intro z hz
      have hz' : z ∈ y :: r := (mem_dedupAdj z (y :: r)).1 hz
      have hxy : lexLt x y = true := by
        have := h.1 y (by simp)
        simp only [leB, Bool.or_eq_true, beq_iff_eq] at this
        rcases this with h' | h'
        · exact h'
        · exact absurd h' hne'
      rcases List.mem_cons.1 hz' with rfl | hzr
      · exact hxy
      · have hyz := h.2.1 z hzr
        simp only [leB, Bool.or_eq_true, beq_iff_eq] at hyz
        rcases hyz with h' | rfl
        · exact lexLt_trans x y z hxy h'
        · exact hxy

/-- the conflict list of `insert` is strictly increasing: every template once, in sorted order -/
theorem conflict_list_sorted (cs : List Bytes) : SortedLt (dedupAdj (sortBytes cs)) :=
  strict_dedupAdj _ (sorted_sortBytes cs)
