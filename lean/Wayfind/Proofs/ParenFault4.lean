import Wayfind.Proofs.ParenFault3
import Wayfind.Proofs.ParseFault4

/-- **every template error names a fault that is present** (all thirteen variants) -/
theorem parseTemplates_fault (input : Bytes) (e : TErr) (h : parseTemplates input = .error e) :
    faultPresent input e = true := by
  rcases parseTemplates_fault_present input e h with hp | hf
  · -- a parenthesis variant: it was raised while expanding
    unfold parseTemplates at h
    by_cases hne : input = []
    · subst hne
      simp at h
      obtain ⟨p, hp | hp⟩ := hp <;> rw [hp] at h <;> cases h
    · have hemp : input.isEmpty = false := by cases input with | nil => exact absurd rfl hne | cons _ _ => rfl
      simp only [hemp, Bool.false_eq_true, ite_false] at h
      cases he : expandRange input (input.length + 1) input 0 none true with
      | error e' =>
        rw [he] at h; injection h with h; subst h
        exact expand_error_fault input _ he
      | ok raws =>
        rw [he] at h
        simp only at h
        obtain ⟨raw, _, hpr⟩ := mapExcept_error h
        cases hpt : parseTemplate raw with
        | ok ps => rw [hpt] at hpr; cases hpr
        | error e' =>
          rw [hpt] at hpr
          injection hpr with hpr; subst hpr
          have := parseTemplate_error_local raw _ hpt
          obtain ⟨p, hp | hp⟩ := hp <;> rw [hp] at this <;> simp [localFault] at this
  · exact hf
