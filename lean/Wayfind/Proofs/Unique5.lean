import Wayfind.Proofs.Unique4
import Wayfind.Proofs.Registry11
import Wayfind.Proofs.SameLive

/-! Uniqueness of the canonical tree, part 5: `Display` sees only the skeleton; hence the printed tree of a reachable
router is a function of the set of keys it stores — and so of its set of live templates. -/

theorem len_skel : ∀ (ks : Kids), (Kids.skel ks).len = ks.len
  | .nil => rfl
  | .cons _ _ r => by simp [Kids.skel, Kids.len, len_skel r]
theorem len_skelS : ∀ (ks : Kids), (Kids.skelS ks).len = ks.len
  | .nil => rfl
  | .cons _ _ r => by simp [Kids.skelS, Kids.len, len_skelS r]

mutual
theorem Node.lines_skel : ∀ (n : Node) (key padding : String) (isRoot isLast : Bool),
    Node.lines key padding isRoot isLast (Node.skel n) = Node.lines key padding isRoot isLast n
  | .mk x s dc d wc w ec e _ _ _, key, padding, isRoot, isLast => by
    simp only [Node.skel, Node.lines, len_skel, len_skelS, Option.isSome_map,
      Kids.linesS_skel s, Kids.lines_skel dc, Kids.lines_skel d, Kids.lines_skel wc, Kids.lines_skel w,
      Kids.lines_skel ec, Kids.lines_skel e]
theorem Kids.lines_skel : ∀ (ks : Kids) (slot : Nat) (padding : String) (isRoot : Bool) (remaining : Nat),
    Kids.lines slot padding isRoot remaining (Kids.skel ks) = Kids.lines slot padding isRoot remaining ks
  | .nil, _, _, _, _ => rfl
  | .cons l n r, slot, padding, isRoot, remaining => by
    simp only [Kids.skel, Kids.lines, Node.lines_skel n, Kids.lines_skel r]
theorem Kids.linesS_skel : ∀ (ks : Kids) (padding : String) (isRoot : Bool) (remaining : Nat),
    Kids.lines 0 padding isRoot remaining (Kids.skelS ks) = Kids.lines 0 padding isRoot remaining ks
  | .nil, _, _, _ => rfl
  | .cons l n r, padding, isRoot, remaining => by
    simp only [Kids.skelS, Kids.lines, Node.lines_skel n, Kids.linesS_skel r, keyOf]
end

theorem display_skel (n : Node) : Node.display (Node.skel n) = Node.display n := by
  unfold Node.display; rw [Node.lines_skel]

/-- **Canonical trees with the same keys print identically.** -/
theorem display_eq_of_keyEq (n1 n2 : Node) (c1 : Canon n1) (c2 : Canon n2) (h : KeyEq n1 n2) :
    Node.display n1 = Node.display n2 := by
  rw [← display_skel n1, ← display_skel n2, Node.skel_unique n1 n2 c1 c2 h]

/-! ### the keys of a reachable router are the part lists of the expansions of its live templates -/

theorem live_keys_sub {r1 r2 : Router} {L1 L2 : List LiveT} (h1 : Live r1 L1) (h2 : Live r2 L2)
    (hsub : ∀ lt ∈ L1, ∃ lt' ∈ L2, lt'.template = lt.template) (P : List Part) (hwf : wfParts P = true) :
    (Node.find r1.root P).isSome = true → (Node.find r2.root P).isSome = true := by
  intro hf
  have hreg1 := h1.rinv.reg
  have hreg2 := h2.rinv.reg
  cases hf1 : Node.find r1.root P with
  | none => rw [hf1] at hf; cases hf
  | some j =>
    obtain ⟨lt, hlt, e, he, hk, _⟩ := hreg1.sound P j hwf hf1
    obtain ⟨lt', hlt', ht'⟩ := hsub lt hlt
    have hexps : lt'.exps = lt.exps := by
      have a := hreg1.parsed lt hlt
      have b := hreg2.parsed lt' hlt'
      rw [ht', a] at b; injection b with b; exact b.symm
    obtain ⟨j', hf', _⟩ := hreg2.complete lt' hlt' e (by rw [hexps]; exact he)
    rw [hk] at hf'
    simp [hf']

/-- **C05, printing half.** Two routers reached through the API that hold the same set of templates print identical
trees, whatever their histories (the data values do not show in the drawing). -/
theorem same_live_same_display {r1 r2 : Router} {L1 L2 : List LiveT} (h1 : Live r1 L1) (h2 : Live r2 L2)
    (h12 : ∀ lt ∈ L1, ∃ lt' ∈ L2, lt'.template = lt.template)
    (h21 : ∀ lt ∈ L2, ∃ lt' ∈ L1, lt'.template = lt.template) :
    Node.display r1.root = Node.display r2.root := by
  apply display_eq_of_keyEq _ _ (reachable_canon r1 h1.reachable) (reachable_canon r2 h2.reachable)
  intro K hK
  apply bool_eq_of_iff
  exact ⟨live_keys_sub h1 h2 h12 K hK, live_keys_sub h2 h1 h21 K hK⟩

/-- insert followed by delete restores every lookup of the tree -/
theorem insert_delete_roundtrip_find {r r' : Router} {L : List LiveT} (h : Live r L) {t : Bytes} {d : Nat}
    (hi : r.insert t d = .ok r') (ts : List (Bytes × List Part)) (hp : parseTemplates t = .ok ts) :
    Reachable (r'.delete t).2 ∧ ∀ Q, wfParts Q = true → Node.find (r'.delete t).2.root Q = Node.find r.root Q := by
  have hlive' : Live r' (L ++ [⟨t, d, ts⟩]) := by
    have := h.step (.insert t d)
    simpa [Router.step, liveAfter, hi, hp] using this
  obtain ⟨_, hlive''⟩ := delete_live_api hlive' ⟨t, d, ts⟩ (by simp)
  refine ⟨hlive''.reachable, ?_⟩
  have hreg := h.rinv.reg
  have hreg' := hlive'.rinv.reg
  obtain ⟨ts', hp', _, hc, hr'⟩ := (Router.insert_ok_iff r r' t d).1 hi
  rw [hp] at hp'; injection hp' with hp'; subst hp'
  obtain ⟨hSi, hfi⟩ := insertOk_find (d := d) hreg.shp hp hc
  have hdeq := delete_live_eq hreg' ⟨t, d, ts⟩ (by simp)
  simp only at hdeq
  obtain ⟨hSd, hfd⟩ := deleteOk_find (r := r') (t := t) (ts := ts) hreg'.shp hp
  intro Q hQ
  rw [hdeq, hfd Q hQ]
  by_cases hmem : Q ∈ ts.map (fun e => e.2)
  · rw [if_pos hmem]
    obtain ⟨e, he, rfl⟩ := List.mem_map.1 hmem
    exact (conflictsOf_nil hc e he).symm
  · rw [if_neg hmem, hr', hfi Q hQ]
    have : lookupIns (ts.map (fun e => (e.2, insInfo t d r.next ts e))) Q = none := by
      apply lookupIns_none_of_not_mem
      intro hm
      apply hmem
      obtain ⟨x, hx, hxe⟩ := List.mem_map.1 hm
      obtain ⟨e, he, rfl⟩ := List.mem_map.1 hx
      exact List.mem_map.2 ⟨e, he, hxe⟩
    rw [this]

/-- **C10, printing half.** After a successful `insert(t, d)`, `delete(t)` restores the printed tree. -/
theorem insert_delete_roundtrip_display {r r' : Router} {L : List LiveT} (h : Live r L) {t : Bytes} {d : Nat}
    (hi : r.insert t d = .ok r') (ts : List (Bytes × List Part)) (hp : parseTemplates t = .ok ts) :
    Node.display (r'.delete t).2.root = Node.display r.root := by
  obtain ⟨hreach, hfind⟩ := insert_delete_roundtrip_find h hi ts hp
  apply display_eq_of_keyEq _ _ (reachable_canon _ hreach) (reachable_canon r h.reachable)
  intro K hK
  rw [hfind K hK]

#print axioms same_live_same_display
#print axioms insert_delete_roundtrip_display
