import Wayfind.Proofs.Oci5

/-! C17, non-vacuity: the routers the theorem talks about exist — the GET table of the example can be built through the API. -/

/-- a parsed template whose constraints are registered and none of whose expansions is a live route is accepted -/
theorem live_insert_ok {r : Router} {L : List LiveT} (h : Live r L) (t : Bytes) (d : Nat) (ts : List (Bytes × List Part))
    (hp : parseTemplates t = .ok ts) (hknown : firstUnknown (fun c => r.registry.any (·.1 == c)) ts = none)
    (hnodup : ∀ lt ∈ L, ∀ e ∈ lt.exps, ∀ e' ∈ ts, e.2 ≠ e'.2) :
    ∃ r', r.insert t d = .ok r' ∧ Live r' (L ++ [⟨t, d, ts⟩]) ∧ r'.registry = r.registry := by
  have hreg := h.rinv.reg
  have hc : conflictsOf r.root ts = [] := by
    unfold conflictsOf
    rw [List.filterMap_eq_nil_iff]
    intro e he
    cases hf : Node.find r.root e.2 with
    | none => rfl
    | some i =>
      exfalso
      obtain ⟨lt, hlt, e0, he0, hk, _⟩ := hreg.sound e.2 i (parse_wf hp e he) hf
      exact hnodup lt hlt e0 he0 e he hk
  have hi : r.insert t d = .ok (r.insertOk t d ts) := by
    unfold Router.insert
    simp only [hp, hknown, hc]
  refine ⟨_, hi, ?_, ?_⟩
  · have := h.step (.insert t d)
    simpa [Router.step, liveAfter, hi, hp] using this
  · unfold Router.insertOk
    split <;> rfl

def ociRegistry : List (Bytes × Bytes) := [([110, 97, 109, 101], [78])]

/-- the four GET templates of the example can be inserted, in the example's order, into a router that knows the `name`
constraint; the result is a reachable router whose live templates are exactly those four, with the data given -/
theorem oci_get_router_exists (d0 d1 d2 d3 : Nat) :
    ∃ r L, Live r L ∧ L = [⟨OK.root.template, d0, OK.root.exps⟩, ⟨OK.blob.template, d1, OK.blob.exps⟩,
      ⟨OK.manifest.template, d2, OK.manifest.exps⟩, ⟨OK.tags.template, d3, OK.tags.exps⟩] := by
  have h0 : Live ({ registry := ociRegistry } : Router) [] := ⟨ociRegistry, [], rfl⟩
  obtain ⟨r1, _, h1, g1⟩ := live_insert_ok h0 OK.root.template d0 OK.root.exps OK.root.parse (by decide) (by intro lt hlt; cases hlt)
  obtain ⟨r2, _, h2, g2⟩ := live_insert_ok h1 OK.blob.template d1 OK.blob.exps OK.blob.parse (by rw [g1]; decide) (by
    simp only [List.nil_append, List.mem_singleton, forall_eq]; decide)
  obtain ⟨r3, _, h3, g3⟩ := live_insert_ok h2 OK.manifest.template d2 OK.manifest.exps OK.manifest.parse (by rw [g2, g1]; decide) (by
    simp only [List.nil_append, List.cons_append, List.mem_cons, List.mem_singleton, List.not_mem_nil, or_false, forall_eq_or_imp, forall_eq]
    decide)
  obtain ⟨r4, _, h4, _⟩ := live_insert_ok h3 OK.tags.template d3 OK.tags.exps OK.tags.parse (by rw [g3, g2, g1]; decide) (by
    simp only [List.nil_append, List.cons_append, List.mem_cons, List.mem_singleton, List.not_mem_nil, or_false, forall_eq_or_imp, forall_eq]
    decide)
  exact ⟨r4, _, h4, rfl⟩

/-- on that router, every GET endpoint URL resolves to its template's data, for every acceptable name and digest -/
theorem oci_get_blob_pull (env : Env) (d0 d1 d2 d3 : Nat) :
    ∃ r L, Live r L ∧ ∀ (slash : Bool) (name digest : Bytes), OArgs env .blob name digest →
      r.search env (opath .blob slash name digest) =
        some ⟨OK.blob.template, some (OK.blob.exp slash).1, d1, [(lN.name, name), (lD.name, digest)]⟩ := by
  obtain ⟨r, L, h, hL⟩ := oci_get_router_exists d0 d1 d2 d3
  refine ⟨r, L, h, ?_⟩
  intro slash name digest ha
  subst hL
  exact oci_resolves env h (by
      intro lt hlt
      simp only [List.mem_cons, List.mem_singleton, List.not_mem_nil, or_false] at hlt
      rcases hlt with rfl | rfl | rfl | rfl
      · exact ⟨.root, rfl⟩
      · exact ⟨.blob, rfl⟩
      · exact ⟨.manifest, rfl⟩
      · exact ⟨.tags, rfl⟩)
    (by
      intro lt hlt lt' hlt' _ h2
      simp only [List.mem_cons, List.mem_singleton, List.not_mem_nil, or_false] at hlt'
      rcases hlt' with rfl | rfl | rfl | rfl <;> (simp only at h2; have := OK.template_inj h2; cases this))
    ⟨OK.blob.template, d1, OK.blob.exps⟩ (by simp) .blob rfl slash name digest ha
