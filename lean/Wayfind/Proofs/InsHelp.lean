import Wayfind.Proofs.InsCases

theorem chain_data : ∀ (P : List Part) (i : Info), P ≠ [] → (chain P i).data = none
  | [], _, h => absurd rfl h
  | .stat p :: rest, i, _ => by simp [chain, Node.data]
  | .par k l :: rest, i, _ => by simp only [chain]; split <;> simp [Node.data]

theorem chain_onlyStatic : ∀ (P : List Part) (i : Info), startsStatOrEnd P → (chain P i).onlyStatic
  | [], _, _ => by simp [chain, Node.leaf, Node.onlyStatic]
  | .stat p :: rest, i, _ => by simp [chain, Node.onlyStatic]
  | .par k l :: rest, i, h => by simp [startsStatOrEnd] at h

theorem leaf_isLeaf (i : Info) : isLeaf (Node.leaf i) i := ⟨false, false, true, rfl⟩

theorem chain_end_isLeaf (i : Info) : isLeaf (chain [] i) i := ⟨false, false, true, rfl⟩

theorem kroutes_one_ne (mk : Label → Part) (l : Label) (n : Node) (h : Node.routes n ≠ []) :
    Kids.routes mk (.cons l n .nil) ≠ [] := by
  simp only [Kids.routes, List.append_nil]
  cases hr : Node.routes n with
  | nil => exact absurd hr h
  | cons a t => simp

theorem chain_Shp : ∀ (P : List Part) (i : Info), wfParts P = true → Node.Shp (chain P i)
  | [], i, _ => by
    simp [chain, Node.leaf, Node.Shp, Kids.All, Kids.distinctHeads, Kids.leaves, Kids.labels, NodupL, Kids.Shpk]
  | .stat p :: rest, i, h => by
    have hp : p ≠ [] := altOK_stat_ne (wfParts_altOK _ h)
    have ih := chain_Shp rest i (wfParts_tail h)
    simp [chain, Node.Shp, Kids.All, Kids.distinctHeads, Kids.noHead, Kids.leaves, Kids.labels, NodupL, Kids.Shpk,
      hp, ih, chain_routes_ne]
  | .par k l :: rest, i, h => by
    have ih := chain_Shp rest i (wfParts_tail h)
    have hso := chain_onlyStatic rest i (wfParts_after_par h)
    have hrn := chain_routes_ne rest i
    simp only [chain]
    cases k <;> cases hr : rest.isEmpty <;>
      simp [slotOf, Node.Shp, Kids.All, Kids.distinctHeads, Kids.leaves, Kids.labels, NodupL, Kids.Shpk, ih, hso, hrn] <;>
      first
      | (have hne : rest ≠ [] := by intro e; simp [e] at hr
         exact chain_data rest i hne)
      | (have he : rest = [] := by simpa using hr
         subst he; exact ⟨i, chain_end_isLeaf i⟩)

theorem splitParent_Shp (la : Label) (n : Node) (hla : la.pre ≠ []) (hn : Node.Shp n) (hr : Node.routes n ≠ []) :
    Node.Shp (splitParent la n) := by
  simp [splitParent, Node.Shp, Kids.All, Kids.distinctHeads, Kids.noHead, Kids.leaves, Kids.labels, NodupL, Kids.Shpk,
    hla, hn, hr]

theorem psize_below_lt (p : Bytes) (c : Nat) (rest : List Part) (hc : 0 < c) :
    psize (below p c rest) < psize (.stat p :: rest) := by
  unfold below
  split
  · simp only [psize]; omega
  · simp only [psize, List.length_drop]; omega

theorem wfParts_below (p : Bytes) (c : Nat) (rest : List Part) (h : wfParts (.stat p :: rest) = true) :
    wfParts (below p c rest) = true := by
  unfold below
  split
  · exact wfParts_tail h
  · rename_i hc
    have hd : (p.drop c).isEmpty = false := by
      cases hdd : p.drop c with
      | nil =>
        have := congrArg List.length hdd
        simp only [List.length_drop, List.length_nil] at this; omega
      | cons _ _ => rfl
    cases rest with
    | nil => simp [wfParts, hd]
    | cons x rest' =>
      cases x with
      | stat _ => simp [wfParts] at h
      | par k l =>
        simp only [wfParts, Bool.and_eq_true] at h ⊢
        exact ⟨by simp [hd], h.2⟩

theorem nodupL_append_one (L : List Label) (l : Label) (h : NodupL L) (hl : l ∉ L) : NodupL (L ++ [l]) := by
  unfold NodupL at *
  rw [List.pairwise_append]
  refine ⟨h, by simp, ?_⟩
  intro a ha b hb
  simp only [List.mem_singleton] at hb
  subst hb
  intro e; subst e; exact hl ha

theorem kroutes_ne_of_app (mk : Label → Part) : ∀ (A : Kids) (l : Label) (n : Node) (B : Kids), Node.routes n ≠ [] →
    Kids.routes mk (Kids.app A (.cons l n B)) ≠ []
  | .nil, l, n, B, h => by
    simp only [Kids.app, Kids.routes]
    cases hr : Node.routes n with
    | nil => exact absurd hr h
    | cons a t => simp
  | .cons l' n' r, l, n, B, h => by
    have := kroutes_ne_of_app mk r l n B h
    simp only [Kids.app, Kids.routes]
    intro e
    exact this (List.append_eq_nil_iff.1 e).2
