import Wayfind.Proofs.ParseFault2

/-! touching and duplicated parameters: the scan's bookkeeping points at real brace-delimited parameters -/

theorem braceParam_some {t : Bytes} {s l : Nat} {c : Bytes} (h : braceParam t s l = some c) :
    2 ≤ l ∧ s + l ≤ t.length ∧ t[s]? = some 123 ∧ t[s + l - 1]? = some 125 := by
  unfold braceParam at h
  split at h
  · rename_i rest hd
    split at h
    · rename_i hc
      obtain ⟨h2, hci⟩ := hc
      rw [closeIdx_eq_braceEnd] at hci
      have hlt := braceEnd_lt rest 1 0 (l - 2) hci
      have hat := braceEnd_at rest 1 0 (l - 2) hci
      simp only [Nat.sub_zero] at hat
      have hlen : s + 1 + rest.length = t.length := by
        have := congrArg List.length hd
        simp only [List.length_drop, List.length_cons] at this
        omega
      have h0 : t[s]? = some 123 := by
        have := drop_getElem? t s 0
        rw [hd] at this; simpa using this.symm
      have hrest : rest = t.drop (s + 1) := by
        have : t.drop (s + 1) = (t.drop s).drop 1 := by rw [List.drop_drop]
        rw [this, hd]; rfl
      refine ⟨h2, by omega, h0, ?_⟩
      have e : s + l - 1 = (s + 1) + (l - 2) := by omega
      rw [e, ← drop_getElem? t (s + 1) (l - 2), ← hrest]; exact hat
    · cases h
  · cases h

theorem drop_two_of_getElem? (hay : Bytes) (i : Nat) (a b : Byte) (h1 : hay[i]? = some a) (h2 : hay[i + 1]? = some b) :
    ∃ r, hay.drop i = a :: b :: r := by
  have hl1 : i < hay.length := by
    apply Nat.lt_of_not_le; intro hge; rw [List.getElem?_eq_none hge] at h1; cases h1
  have hl2 : i + 1 < hay.length := by
    apply Nat.lt_of_not_le; intro hge; rw [List.getElem?_eq_none hge] at h2; cases h2
  refine ⟨hay.drop (i + 2), ?_⟩
  rw [List.drop_eq_getElem_cons hl1, List.drop_eq_getElem_cons hl2]
  rw [List.getElem?_eq_getElem hl1] at h1
  rw [List.getElem?_eq_getElem hl2] at h2
  injection h1 with h1; injection h2 with h2
  rw [h1, h2]

theorem hasSub_pair (hay : Bytes) (i : Nat) (a b : Byte) (h1 : hay[i]? = some a) (h2 : hay[i + 1]? = some b) :
    hasSub [a, b] hay = true := by
  obtain ⟨r, hr⟩ := drop_two_of_getElem? hay i a b h1 h2
  have hl1 : i < hay.length := by
    apply Nat.lt_of_not_le; intro hge; rw [List.getElem?_eq_none hge] at h1; cases h1
  unfold hasSub
  apply List.any_eq_true.2
  exact ⟨i, List.mem_range.2 (by omega), by rw [hr]; simp [List.isPrefixOf]⟩

/-- what a successful `parse_parameter_part` tells about the text -/
theorem parseParam_ok_local (raw : Bytes) (cursor : Nat) (after : Bytes) (part : Part) (next : Nat)
    (hrest : raw.drop cursor = 123 :: after) (h : parseParam raw cursor after = .ok (part, next)) :
    ∃ n, next = cursor + n + 2 ∧ braceParam raw cursor (n + 2) = some (after.take n) ∧
      partName part = some (nameOf (after.take n)) := by
  rw [parseParam_eq] at h
  cases hb : braceEnd after 1 0 with
  | none => rw [hb] at h; cases h
  | some n =>
    rw [hb] at h
    refine ⟨n, ?_, braceParam_of_end raw cursor after n hrest hb, ?_⟩
    all_goals
      simp only at h
      repeat' split at h
      all_goals first
        | (cases h; done)
        | (injection h with h; injection h with h1 h2; subst h1 h2; first | omega | rfl)

/-- recorded parameters are brace-delimited ranges of the text whose name is the recorded one -/
def SeenOK (raw : Bytes) (seen : List (Bytes × Nat × Nat)) : Prop :=
  ∀ x ∈ seen, ∃ c, braceParam raw x.2.1 x.2.2 = some c ∧ nameOf c = x.1

theorem parseLoop_error_local (raw : Bytes) : ∀ (fuel : Nat) (rest : Bytes) (cursor : Nat) (seen : List (Bytes × Nat × Nat))
    (parts : List Part) (e : TErr), PosInv raw rest cursor seen → SeenOK raw seen →
    parseLoop raw fuel rest cursor seen parts = .error e → localFault e = true := by
  intro fuel
  induction fuel with
  | zero => intro rest cursor seen parts e _ _ h; simp [parseLoop] at h
  | succ fuel ih =>
    intro rest cursor seen parts e hinv hseen h
    cases rest with
    | nil => simp [parseLoop] at h
    | cons b after =>
      have hlen : cursor + 1 + after.length = raw.length := by
        have := congrArg List.length hinv.rest_eq
        simp only [List.length_cons, List.length_drop] at this
        have := hinv.le
        omega
      have hcur : raw[cursor]? = some b := by
        have := drop_getElem? raw cursor 0
        rw [← hinv.rest_eq] at this; simpa using this.symm
      simp only [parseLoop] at h
      by_cases h123 : b = 123
      · subst h123
        simp only [ite_true] at h
        have hrest : raw.drop cursor = 123 :: after := hinv.rest_eq.symm
        cases hpp : parseParam raw cursor after with
        | error e' =>
          rw [hpp] at h
          injection h with h; subst h
          exact parseParam_error_local raw cursor after _ hrest hpp
        | ok pn =>
          obtain ⟨part, next⟩ := pn
          rw [hpp] at h
          obtain ⟨hn1, hn2⟩ := parseParam_ok_next raw cursor after part next hlen hpp
          obtain ⟨n, hnext, hbp, hname⟩ := parseParam_ok_local raw cursor after part next hrest hpp
          have hbps := braceParam_some hbp
          have hcont : ∀ (seen' : List (Bytes × Nat × Nat)), (∀ x ∈ seen', x.2.1 + x.2.2 ≤ next) →
              PosInv raw ((123 :: after).drop (next - cursor)) next seen' := by
            intro seen' hs
            refine ⟨?_, hn2, hs⟩
            have : (123 :: after) = raw.drop cursor := hinv.rest_eq
            rw [this, List.drop_drop]
            congr 1; omega
          have hdup : ∀ e, parseLoop.parseLoopDup raw fuel (123 :: after) cursor seen parts part next = .error e →
              localFault e = true := by
            intro e hd
            simp only [parseLoop.parseLoopDup, hname] at hd
            cases hf : seen.find? (fun x => x.1 == nameOf (after.take n)) with
            | some x =>
              rw [hf] at hd
              obtain ⟨nm, st, ln⟩ := x
              simp only at hd
              injection hd with hd; subst hd
              have hmem := List.mem_of_find?_eq_some hf
              have hnm : nm = nameOf (after.take n) := by simpa using List.find?_some hf
              obtain ⟨c1, hc1, hn1'⟩ := hseen _ hmem
              have hend := hinv.ends _ hmem
              simp only at hc1 hn1' hend
              have hl2 : next - cursor = n + 2 := by omega
              simp only [localFault, hc1, hl2, hbp, hn1', hnm, beq_self_eq_true, Bool.and_self, Bool.and_true, decide_eq_true_eq]
              exact hend
            | none =>
              rw [hf] at hd
              simp only at hd
              apply ih _ _ _ _ e (hcont _ ?_) ?_ hd
              · intro x hx
                rcases List.mem_append.1 hx with hx | hx
                · have := hinv.ends x hx; omega
                · simp only [List.mem_singleton] at hx; subst hx; simp only; omega
              · intro x hx
                rcases List.mem_append.1 hx with hx | hx
                · exact hseen x hx
                · simp only [List.mem_singleton] at hx; subst hx
                  have hl2 : next - cursor = n + 2 := by omega
                  exact ⟨_, by simp only [hl2]; exact hbp, rfl⟩
          simp only at h
          cases hgl : seen.getLast? with
          | none => rw [hgl] at h; exact hdup e h
          | some x =>
            obtain ⟨nm, st, ln⟩ := x
            rw [hgl] at h
            simp only at h
            split at h
            · rename_i htouch
              injection h with h; subst h
              have hmem := List.mem_of_getLast? hgl
              obtain ⟨c1, hc1, _⟩ := hseen _ hmem
              simp only at hc1
              obtain ⟨a1, a2, a3, a4⟩ := braceParam_some hc1
              obtain ⟨b1, b2, b3, b4⟩ := hbps
              -- the two parameters: [st, st+ln) and [cursor, next) with cursor = st + ln
              simp only [localFault]
              apply List.any_eq_true.2
              refine ⟨ln, List.mem_range.2 (by omega), ?_⟩
              have e1 : st + ln = cursor := by omega
              have e2 : next - st - ln = n + 2 := by omega
              simp only [hc1, e1, e2, hbp, Option.isSome_some, Bool.and_self]
            · exact hdup e h
      · simp only [h123, ite_false] at h
        by_cases h125 : b = 125
        · simp only [h125, ite_true] at h
          injection h with h; subst h
          subst h125
          simp [localFault, hcur]
        · simp only [h125, ite_false] at h
          rw [parseStatic_eq_litRun (b :: after) cursor []] at h
          simp only at h
          have hle := litRun_le (b :: after)
          have hs := litRun_suffix (b :: after)
          have hr : (b :: after) = raw.drop cursor := hinv.rest_eq
          apply ih _ _ _ _ e ?_ hseen h
          refine ⟨?_, ?_, ?_⟩
          · calc (litRun (b :: after)).2
                = (b :: after).drop ((b :: after).length - (litRun (b :: after)).2.length) := hs
              _ = (raw.drop cursor).drop ((b :: after).length - (litRun (b :: after)).2.length) :=
                  congrArg (fun l => List.drop ((b :: after).length - (litRun (b :: after)).2.length) l) hr
              _ = raw.drop (cursor + ((b :: after).length - (litRun (b :: after)).2.length)) := by
                  rw [List.drop_drop]
          · simp only [List.length_cons] at hle ⊢; omega
          · intro x hx; have := hinv.ends x hx; omega

/-- **errors of `parse_template` name a fault that is present in the expansion they carry** -/
theorem parseTemplate_error_local (raw : Bytes) (e : TErr) (h : parseTemplate raw = .error e) : localFault e = true := by
  unfold parseTemplate at h
  split at h
  · rename_i hc
    injection h with h; subst h
    simp only [Bool.and_eq_true] at hc
    simpa [localFault] using hc.2
  · exact parseLoop_error_local raw _ raw 0 [] [] e ⟨by simp, by omega, by intro x hx; cases hx⟩ (by intro x hx; cases hx) h
