import Wayfind.Proofs.ExpandEq4

/-! Stage 1, part 5: the scan at depth 0 and the theorem for `expandRange` -/

/-- the statement for `expandRange` at a given fuel -/
def RangeEq (full : Bytes) (fuel : Nat) : Prop :=
  ∀ (range : Bytes) (start : Nat) (next : Option Byte) (top : Bool), range.length < fuel →
    (next = none ∨ endsLone range = false) →
    (∀ items, parseSeq (range.length + 1) range = some items →
      expandRange full fuel range start next top = .ok (finB top (Items.exps items))) ∧
    (parseSeq (range.length + 1) range = none → ∃ e, expandRange full fuel range start next top = .error e)

theorem scan_top (full : Bytes) (fuel : Nat) (hR : RangeEq full fuel) (start : Nat) (next : Option Byte) (top : Bool) :
    ∀ (n : Nat) (rest : Bytes) (cursor : Nat) (result : List Bytes) (group : Nat) (acc : Bytes),
      rest.length ≤ n → rest.length ≤ fuel → (next = none ∨ endsLone rest = false) →
      (∀ items, parseSeq (rest.length + 1) rest = some items →
        expandScan full fuel start next top rest cursor ⟨result, group, 0, acc⟩ =
          .ok (finB top (prodB (result.map (· ++ acc)) (Items.exps items)))) ∧
      (parseSeq (rest.length + 1) rest = none →
        ∃ e, expandScan full fuel start next top rest cursor ⟨result, group, 0, acc⟩ = .error e) := by
  intro n
  induction n with
  | zero =>
    intro rest cursor result group acc hn _ _
    have : rest = [] := List.eq_nil_of_length_eq_zero (by omega)
    subst this
    constructor
    · intro items h
      simp only [parseSeq, Option.some.injEq] at h
      subst h
      rw [scan_end, exps_nil, prodB_unit]; rfl
    · intro h; simp [parseSeq] at h
  | succ n ih =>
    intro rest cursor result group acc hn hf hlone
    match rest, hn, hf, hlone with
    | [], _, _, _ =>
      constructor
      · intro items h
        simp only [parseSeq, Option.some.injEq] at h
        subst h
        rw [scan_end, exps_nil, prodB_unit]; rfl
      · intro h; simp [parseSeq] at h
    | b :: t, hn, hf, hlone =>
      simp only [List.length_cons] at hn hf
      -- a step that appends literal bytes `x` to the accumulator and continues with `t'`
      have litstep : ∀ (x : Bytes) (t' : Bytes) (mk : Items → Items) (cur' : Nat),
          t'.length ≤ n → t'.length ≤ fuel → (next = none ∨ endsLone t' = false) →
          (∀ is, Items.exps (mk is) = (Items.exps is).map (x ++ ·)) →
          parseSeq ((b :: t).length + 1) (b :: t) = (parseSeq (t'.length + 1) t').map mk →
          expandScan full fuel start next top (b :: t) cursor ⟨result, group, 0, acc⟩ =
            expandScan full fuel start next top t' cur' ⟨result, group, 0, acc ++ x⟩ →
          (∀ items, parseSeq ((b :: t).length + 1) (b :: t) = some items →
            expandScan full fuel start next top (b :: t) cursor ⟨result, group, 0, acc⟩ =
              .ok (finB top (prodB (result.map (· ++ acc)) (Items.exps items)))) ∧
          (parseSeq ((b :: t).length + 1) (b :: t) = none →
            ∃ e, expandScan full fuel start next top (b :: t) cursor ⟨result, group, 0, acc⟩ = .error e) := by
        intro x t' mk cur' h1 h2 h3 hexp hspec hmodel
        obtain ⟨iha, ihb⟩ := ih t' cur' result group (acc ++ x) h1 h2 h3
        rw [hspec, hmodel]
        constructor
        · intro items h
          simp only [Option.map_eq_some_iff] at h
          obtain ⟨is, his, rfl⟩ := h
          rw [iha is his, hexp, prodB_single, map_acc]
        · intro h
          simp only [Option.map_eq_none_iff] at h
          exact ihb h
      by_cases h92 : b = 92
      · subst h92
        cases t with
        | nil =>
          -- a lone trailing backslash: only at top level (next = none), where it is a literal
          have hnx : next = none := by
            rcases hlone with h | h
            · exact h
            · simp [endsLone] at h
          exact litstep [92] [] (.cons (.lit 92)) (cursor + 1) (by simp) (by simp) (Or.inl hnx) (exps_lit 92)
            (by simp [parseSeq_lone, parseSeq]) (scan_lone full fuel start next top cursor _ hnx)
        | cons c t' =>
          simp only [List.length_cons] at hn hf
          have hl' : next = none ∨ endsLone t' = false := by
            rcases hlone with h | h
            · exact Or.inl h
            · exact Or.inr (by simpa [endsLone] using h)
          exact litstep [92, c] t' (.cons (.esc c)) (cursor + 2) (by omega) (by omega) hl' (exps_esc c)
            (by simpa using parseSeq_esc c t') (scan_esc full fuel start next top c t' cursor _)
      · have hl' : next = none ∨ endsLone t = false := by
          rcases hlone with h | h
          · exact Or.inl h
          · right
            rw [endsLone] at h
            · exact h
            all_goals simp_all
        by_cases h40 : b = 40
        · subst h40
          rw [scan_open]
          have hspec := parseSeq_open t
          simp only [List.length_cons]
          rw [hspec]
          obtain ⟨sga, sgb⟩ := scan_group full fuel start next top t.length t (cursor + 1) (result.map (· ++ acc)) (cursor + 1) 1 [] (Nat.le_refl _) (Nat.le_refl _)
          cases hg : groupBody 1 t with
          | none =>
            simp only []
            exact ⟨fun items h => (by cases h), fun _ => sga hg⟩
          | some gr =>
            obtain ⟨g, r⟩ := gr
            have hlen := groupBody_length 1 t g r hg
            obtain ⟨hlg, hlr⟩ := groupBody_endsLone t.length 1 t g r (Nat.le_refl _) hg
            rw [sgb g r hg, scan_close]
            simp only [List.nil_append]
            by_cases hge : g = []
            · subst hge
              simp only [List.length_nil, Nat.add_zero, ite_true, List.isEmpty_nil]
              exact ⟨fun items h => (by cases h), fun _ => ⟨_, rfl⟩⟩
            · have hgl : 0 < g.length := List.length_pos_iff.mpr hge
              have hcur : ¬ (cursor + 1 + g.length = cursor + 1) := by omega
              have hemp : g.isEmpty = false := by cases g with | nil => exact absurd rfl hge | cons _ _ => rfl
              simp only [hcur, ite_false, hemp, Bool.false_eq_true]
              obtain ⟨ra, rb⟩ := hR g (cursor + 1) (some 41) false (by omega) (Or.inr hlg)
              have hl'' : next = none ∨ endsLone r = false := by
                rcases hl' with h | h
                · exact Or.inl h
                · exact Or.inr (by rw [← hlr]; exact h)
              cases hpg : parseSeq (g.length + 1) g with
              | none =>
                obtain ⟨e, he⟩ := rb hpg
                rw [he]
                exact ⟨fun items h => (by cases h), fun _ => ⟨e, rfl⟩⟩
              | some inner =>
                rw [ra inner hpg]
                simp only [finB, Bool.false_eq_true, ite_false]
                obtain ⟨iha, ihb⟩ := ih r (cursor + 1 + g.length + 1) (productStep (result.map (· ++ acc)) (Items.exps inner))
                  (cursor + 1 + g.length + 1) [] (by omega) (by omega) hl''
                cases hpr : parseSeq (r.length + 1) r with
                | none =>
                  exact ⟨fun items h => (by cases h), fun _ => ihb hpr⟩
                | some tail =>
                  simp only []
                  constructor
                  · intro items h
                    injection h with h
                    subst h
                    rw [iha tail hpr, exps_grp, productStep_eq]
                    simp only [List.append_nil, List.map_id']
                    rw [prodB_assoc]
                    rfl
                  · intro h; cases h
        · by_cases h41 : b = 41
          · subst h41
            simp only [List.length_cons]
            rw [parseSeq_close]
            exact ⟨fun items h => (by cases h), fun _ => scan_stray_close full fuel start next top t cursor result group acc⟩
          · exact litstep [b] t (.cons (.lit b)) (cursor + 1) (by omega) (by omega) hl' (exps_lit b)
              (by simpa using parseSeq_lit b t h92 h40 h41) (scan_lit full fuel start next top b t cursor _ h92 h40 h41)

theorem rangeEq_all (full : Bytes) : ∀ (fuel : Nat), RangeEq full fuel
  | 0 => by intro range _ _ _ h; omega
  | fuel + 1 => by
    intro range start next top hlen hlone
    rw [expandRange.eq_2]
    have := scan_top full fuel (rangeEq_all full fuel) start next top range.length range start [[]] start []
      (Nat.le_refl _) (by omega) hlone
    simp only [List.map_cons, List.nil_append, List.map_nil] at this
    constructor
    · intro items h
      rw [this.1 items h]
      simp [prodB]
    · exact this.2
