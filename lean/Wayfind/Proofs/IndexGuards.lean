import Wayfind.Proofs.Registry10

/-! The partial operations of `src/node/insert.rs`, `src/node/find.rs` and `src/node/display.rs` whose safety is *not* local
(not established by a length test or a `position` in the adjacent lines):

* `insert_static`: `.find(|child| child.state.prefix[0] == prefix[0])` indexes the label of every child it visits and the
  prefix being inserted;
* `find_static`: `!child.state.prefix.is_empty() && child.state.prefix[0] == prefix[0]` indexes the prefix looked up;
* `Display`: `count -= 1` once per child.

`insertIdx` / `findIdx` / `linesIdx` collect, along the recursion path of the model (which follows the code's), the
condition under which each of these evaluations is in range. They hold on every well-shaped tree for every well-formed
part list — hence for every `insert`, `find` (conflict and delete validation) and `Display` on a reachable router. -/

/-- a part list whose literal parts are non-empty and alternate with parameters stays one when its first literal is replaced
by a non-empty remainder -/
theorem wfParts_stat_replace (p q : Bytes) (rest : List Part) (h : wfParts (.stat p :: rest) = true) (hq : q ≠ []) :
    wfParts (.stat q :: rest) = true := by
  cases rest with
  | nil => simp [wfParts, hq]
  | cons x xs =>
    cases x with
    | stat y => simp [wfParts] at h
    | par k l =>
      simp only [wfParts, Bool.and_eq_true] at h ⊢
      exact ⟨by simp [hq], h.2⟩

theorem wfParts_stat_head (p : Bytes) (rest : List Part) (h : wfParts (.stat p :: rest) = true) : p ≠ [] ∧ wfParts rest = true := by
  cases rest with
  | nil => simp [wfParts] at h; exact ⟨h, rfl⟩
  | cons x xs =>
    cases x with
    | stat y => simp [wfParts] at h
    | par k l =>
      simp only [wfParts, Bool.and_eq_true] at h
      exact ⟨by simpa using h.1, h.2⟩

theorem wfParts_par_tail (k : PKind) (l : Label) (rest : List Part) (h : wfParts (.par k l :: rest) = true) : wfParts rest = true := by
  cases rest with
  | nil => rfl
  | cons x xs =>
    cases x with
    | stat y => simpa [wfParts] using h
    | par k' l' => simp [wfParts] at h

mutual
/-- every `prefix[0]` / `child.state.prefix[0]` evaluated by `Node::insert` along its path is in range -/
def Node.insertIdx : Node → List Part → Prop
  | _, [] => True
  | .mk _ s _ _ _ _ _ _ _ _ _, .stat p :: rest => p ≠ [] ∧ Kids.insertStaticIdx s p rest
  | .mk _ _ dc d wc w _ _ _ _ _, .par k l :: rest =>
    match slotOf k rest.isEmpty with
    | .dc => Kids.insertParIdx dc l rest
    | .d => Kids.insertParIdx d l rest
    | .wc => Kids.insertParIdx wc l rest
    | .w => Kids.insertParIdx w l rest
    | .ec => True
    | .e => True
/-- the closure of `.find(..)` runs on every child up to the first hit: each label must be non-empty -/
def Kids.insertStaticIdx : Kids → Bytes → List Part → Prop
  | .nil, _, _ => True
  | .cons l n r, p, rest =>
    l.pre ≠ [] ∧
    (if l.pre.head? = p.head? then
      let c := commonLen p l.pre
      if l.pre.length ≤ c then
        (if p.length ≤ c then Node.insertIdx n rest else Node.insertIdx n (.stat (p.drop c) :: rest))
      else True     -- split: the new nodes are fresh, `static_children[1]` indexes a vector of two
    else Kids.insertStaticIdx r p rest)
def Kids.insertParIdx : Kids → Label → List Part → Prop
  | .nil, _, _ => True
  | .cons l' n r, l, rest => if l' = l then Node.insertIdx n rest else Kids.insertParIdx r l rest
end

mutual
theorem Node.insertIdx_of_shp : ∀ (n : Node) (P : List Part), Node.Shp n → wfParts P = true → Node.insertIdx n P
  | _, [], _, _ => by simp [Node.insertIdx]
  | .mk x s dc d wc w ec e ds ws dirty, .stat p :: rest, hS, hP => by
    simp only [Node.Shp] at hS
    obtain ⟨hne, _, _, _, _, _, _, _, _, _, _, _, _, _, _, _, ks, _, _, _, _⟩ := hS
    simp only [Node.insertIdx]
    exact ⟨(wfParts_stat_head p rest hP).1, Kids.insertStaticIdx_of_shp s p rest hne ks hP⟩
  | .mk x s dc d wc w ec e ds ws dirty, .par k l :: rest, hS, hP => by
    simp only [Node.Shp] at hS
    obtain ⟨_, _, _, _, _, _, _, _, _, _, _, _, _, _, _, _, _, kdc, kd, kwc, kw⟩ := hS
    have hr := wfParts_par_tail k l rest hP
    simp only [Node.insertIdx]
    split
    · exact Kids.insertParIdx_of_shp dc l rest kdc hr
    · exact Kids.insertParIdx_of_shp d l rest kd hr
    · exact Kids.insertParIdx_of_shp wc l rest kwc hr
    · exact Kids.insertParIdx_of_shp w l rest kw hr
    · trivial
    · trivial
theorem Kids.insertStaticIdx_of_shp : ∀ (ks : Kids) (p : Bytes) (rest : List Part), Kids.All (fun l _ => l.pre ≠ []) ks → Kids.Shpk ks →
    wfParts (.stat p :: rest) = true → Kids.insertStaticIdx ks p rest
  | .nil, _, _, _, _, _ => by simp [Kids.insertStaticIdx]
  | .cons l n r, p, rest, hne, hk, hP => by
    simp only [Kids.All] at hne
    simp only [Kids.Shpk] at hk
    simp only [Kids.insertStaticIdx]
    refine ⟨hne.1, ?_⟩
    split
    · skip
      split
      · split
        · exact Node.insertIdx_of_shp n rest hk.1 (wfParts_stat_head p rest hP).2
        · rename_i hlen
          apply Node.insertIdx_of_shp n _ hk.1
          apply wfParts_stat_replace p _ rest hP
          intro h
          have := congrArg List.length h
          simp only [List.length_drop, List.length_nil] at this
          omega
      · trivial
    · exact Kids.insertStaticIdx_of_shp r p rest hne.2 hk.2.2 hP
theorem Kids.insertParIdx_of_shp : ∀ (ks : Kids) (l : Label) (rest : List Part), Kids.Shpk ks → wfParts rest = true →
    Kids.insertParIdx ks l rest
  | .nil, _, _, _, _ => by simp [Kids.insertParIdx]
  | .cons l' n r, l, rest, hk, hP => by
    simp only [Kids.Shpk] at hk
    simp only [Kids.insertParIdx]
    split
    · exact Node.insertIdx_of_shp n rest hk.1 hP
    · exact Kids.insertParIdx_of_shp r l rest hk.2.2 hP
end

mutual
/-- every `prefix[0]` evaluated by `Node::find` along its path is in range (the child's own `[0]` is guarded by
`!child.state.prefix.is_empty()` in the code) -/
def Node.findIdx : Node → List Part → Prop
  | _, [] => True
  | .mk _ s _ _ _ _ _ _ _ _ _, .stat p :: rest => Kids.findStaticIdx s p rest
  | .mk _ _ dc d wc w ec e _ _ _, .par k l :: rest =>
    match slotOf k rest.isEmpty with
    | .dc => Kids.findParIdx dc l rest | .d => Kids.findParIdx d l rest
    | .wc => Kids.findParIdx wc l rest | .w => Kids.findParIdx w l rest
    | .ec => Kids.findParIdx ec l rest | .e => Kids.findParIdx e l rest
def Kids.findStaticIdx : Kids → Bytes → List Part → Prop
  | .nil, _, _ => True
  | .cons l n r, p, rest =>
    (l.pre ≠ [] → p ≠ []) ∧
    (if l.pre.head? = p.head? then
      let c := commonLen p l.pre
      if l.pre.length ≤ c then
        (if p.length ≤ c then Node.findIdx n rest else Node.findIdx n (.stat (p.drop c) :: rest))
      else Kids.findStaticIdx r p rest
    else Kids.findStaticIdx r p rest)
def Kids.findParIdx : Kids → Label → List Part → Prop
  | .nil, _, _ => True
  | .cons l' n r, l, rest => if l' = l then Node.findIdx n rest else Kids.findParIdx r l rest
end

mutual
/-- `find` needs nothing of the tree: a well-formed part list is enough -/
theorem Node.findIdx_of_wf : ∀ (n : Node) (P : List Part), wfParts P = true → Node.findIdx n P
  | _, [], _ => by simp [Node.findIdx]
  | .mk x s dc d wc w ec e ds ws dirty, .stat p :: rest, hP => by
    simp only [Node.findIdx]
    exact Kids.findStaticIdx_of_wf s p rest hP
  | .mk x s dc d wc w ec e ds ws dirty, .par k l :: rest, hP => by
    have hr := wfParts_par_tail k l rest hP
    simp only [Node.findIdx]
    split <;> exact Kids.findParIdx_of_wf _ l rest hr
theorem Kids.findStaticIdx_of_wf : ∀ (ks : Kids) (p : Bytes) (rest : List Part), wfParts (.stat p :: rest) = true →
    Kids.findStaticIdx ks p rest
  | .nil, _, _, _ => by simp [Kids.findStaticIdx]
  | .cons l n r, p, rest, hP => by
    simp only [Kids.findStaticIdx]
    refine ⟨fun _ => (wfParts_stat_head p rest hP).1, ?_⟩
    split
    · skip
      split
      · split
        · exact Node.findIdx_of_wf n rest (wfParts_stat_head p rest hP).2
        · rename_i hlen
          apply Node.findIdx_of_wf n _
          apply wfParts_stat_replace p _ rest hP
          intro h
          have := congrArg List.length h
          simp only [List.length_drop, List.length_nil] at this
          omega
      · exact Kids.findStaticIdx_of_wf r p rest hP
    · exact Kids.findStaticIdx_of_wf r p rest hP
theorem Kids.findParIdx_of_wf : ∀ (ks : Kids) (l : Label) (rest : List Part), wfParts rest = true → Kids.findParIdx ks l rest
  | .nil, _, _, _ => by simp [Kids.findParIdx]
  | .cons l' n r, l, rest, hP => by
    simp only [Kids.findParIdx]
    split
    · exact Node.findIdx_of_wf n rest hP
    · exact Kids.findParIdx_of_wf r l rest hP
end

mutual
/-- `count -= 1` of `Display` never underflows: when a child is printed, `remaining ≥ 1` -/
def Node.linesIdx : Node → Prop
  | .mk _ s dc d wc w ec e _ _ _ =>
    let total := s.len + dc.len + d.len + wc.len + w.len + ec.len + e.len
    Kids.linesIdx total s ∧ Kids.linesIdx (total - s.len) dc ∧ Kids.linesIdx (total - s.len - dc.len) d ∧
    Kids.linesIdx (total - s.len - dc.len - d.len) wc ∧ Kids.linesIdx (total - s.len - dc.len - d.len - wc.len) w ∧
    Kids.linesIdx (total - s.len - dc.len - d.len - wc.len - w.len) ec ∧
    Kids.linesIdx (total - s.len - dc.len - d.len - wc.len - w.len - ec.len) e
def Kids.linesIdx (remaining : Nat) : Kids → Prop
  | .nil => True
  | .cons _ n r => 1 ≤ remaining ∧ Node.linesIdx n ∧ Kids.linesIdx (remaining - 1) r
end

mutual
theorem Node.linesIdx_all : ∀ (n : Node), Node.linesIdx n
  | .mk x s dc d wc w ec e ds ws dirty => by
    simp only [Node.linesIdx]
    refine ⟨Kids.linesIdx_all _ s (by omega), Kids.linesIdx_all _ dc (by omega), Kids.linesIdx_all _ d (by omega),
      Kids.linesIdx_all _ wc (by omega), Kids.linesIdx_all _ w (by omega), Kids.linesIdx_all _ ec (by omega),
      Kids.linesIdx_all _ e (by omega)⟩
theorem Kids.linesIdx_all : ∀ (remaining : Nat) (ks : Kids), ks.len ≤ remaining → Kids.linesIdx remaining ks
  | _, .nil, _ => by simp [Kids.linesIdx]
  | remaining, .cons l n r, h => by
    simp only [Kids.len] at h
    simp only [Kids.linesIdx]
    exact ⟨by omega, Node.linesIdx_all n, Kids.linesIdx_all (remaining - 1) r (by omega)⟩
end

/-- on a router reached through the API, inserting the expansions of any parsed template evaluates no `[0]` out of range
— at the first expansion; the later ones meet the tree the earlier ones left, which is well-shaped again -/
theorem live_insertIdx {r : Router} {L : List LiveT} (h : Live r L) (t : Bytes) (ts : List (Bytes × List Part))
    (hp : parseTemplates t = .ok ts) : ∀ e ∈ ts, Node.insertIdx r.root e.2 ∧ Node.findIdx r.root e.2 :=
  fun e he => ⟨Node.insertIdx_of_shp r.root e.2 h.rinv.reg.shp (parse_wf hp e he), Node.findIdx_of_wf r.root e.2 (parse_wf hp e he)⟩
