import Wayfind.Proofs.Assemble

theorem parStep_restrict (env : Env) (k : PKind) (rs R : List Route) (path ps walk)
    (h1 : rs.filterMap (hp k false) = R.filterMap (hp k false))
    (h2 : ∀ l, rs.filterMap (stripPar k false l) = R.filterMap (stripPar k false l)) :
    parStep env k rs path ps walk = parStep env k R path ps walk := by
  unfold parStep
  rw [labelsOf_eq, labelsOf_eq, h1]
  apply firstSome_congr
  intro l _
  rw [h2 l]

theorem find_isEmpty_kids (mk : Label → Part) (ks : Kids) : (Kids.routes mk ks).find? (·.parts.isEmpty) = none := by
  rw [List.find?_eq_none]
  intro r hr
  obtain ⟨l, r0, rfl⟩ := mem_kids_routes mk ks r hr
  simp [Route.push]

theorem endInfo_restrict (k : PKind) (l : Label) (A B C : List Route)
    (hA : ∀ r ∈ A, r.parts ≠ [.par k l]) (hC : ∀ r ∈ C, r.parts ≠ [.par k l]) :
    endInfo k l (A ++ B ++ C) = endInfo k l B := by
  unfold endInfo
  have hA' : A.find? (fun r => r.parts == [.par k l]) = none := by
    rw [List.find?_eq_none]; intro r hr; simpa using hA r hr
  have hC' : C.find? (fun r => r.parts == [.par k l]) = none := by
    rw [List.find?_eq_none]; intro r hr; simpa using hC r hr
  simp [List.find?_append, hA', hC']

-- helpers

theorem stripPar_true_iff (k : PKind) (hk : wildK k = true) (l : Label) (r : Route) :
    stripPar k true l r = if r.parts = [.par k l] then some ⟨[], r.info⟩ else none := by
  rw [stripPar_eq]
  cases hp : r.parts with
  | nil => simp [headPar, hp]
  | cons p rest =>
    cases p with
    | stat q => simp [headPar, hp]
    | par k' l' =>
      simp only [headPar, hp, hk, Bool.true_and]
      by_cases h1 : k' = k ∧ rest.isEmpty = true
      · obtain ⟨rfl, h2⟩ := h1
        have : rest = [] := by simpa using h2
        subst this
        by_cases h3 : l' = l
        · subst h3; simp
        · have : ¬ ([Part.par k' l'] = [Part.par k' l]) := by
            intro h; injection h with h4 _; injection h4 with _ h5; exact h3 h5
          simp [h3, this]
      · have : ¬ (Part.par k' l' :: rest = [Part.par k l]) := by
          intro h; injection h with h4 h5; injection h4 with h6 _; subst h5 h6; exact h1 ⟨rfl, rfl⟩
        have h1' : ¬ (k' = k ∧ rest = []) := by
          intro h; exact h1 ⟨h.1, by simp [h.2]⟩
        simp only [this, ite_false]
        by_cases hk' : k' = k
        · have : ¬ rest = [] := fun h => h1' ⟨hk', h⟩
          simp [hk', this]
        · simp [hk']

theorem endInfo_eq_filter (k : PKind) (hk : wildK k = true) (l : Label) (rs : List Route) :
    endInfo k l rs = ((rs.filterMap (stripPar k true l)).head?).map (·.info) := by
  induction rs with
  | nil => rfl
  | cons r rs ih =>
    simp only [endInfo, List.find?_cons, List.filterMap_cons, stripPar_true_iff k hk] at ih ⊢
    by_cases h : r.parts = [.par k l]
    · simp [h]
    · have : (r.parts == [Part.par k l]) = false := by simpa using h
      simp only [this, h, ite_false]
      exact ih

theorem Kids.All_imp {P Q : Label → Node → Prop} (h : ∀ l n, P l n → Q l n) : ∀ (ks : Kids), Kids.All P ks → Kids.All Q ks
  | .nil, _ => trivial
  | .cons l n r, hp => ⟨h l n hp.1, Kids.All_imp h r hp.2⟩

theorem Kids.All_and {P Q : Label → Node → Prop} : ∀ (ks : Kids), Kids.All P ks → Kids.All Q ks →
    Kids.All (fun l n => P l n ∧ Q l n) ks
  | .nil, _, _ => trivial
  | .cons _ _ r, hp, hq => ⟨⟨hp.1, hq.1⟩, Kids.All_and r hp.2 hq.2⟩

theorem Kids.All_true {P : Label → Node → Prop} (h : ∀ l n, P l n) : ∀ (ks : Kids), Kids.All P ks
  | .nil => trivial
  | .cons l n r => ⟨h l n, Kids.All_true h r⟩

-- T-compress: on a well-shaped tree (inline strategy) the tree search is the documented walk over its routes.
mutual
theorem Node.search_eq_walk (env : Env) : ∀ (n : Node) (path : Bytes) (ps : Params) (f : Nat),
    Node.TS n → path.length ≤ f → Node.search env n path ps = refWalk env f (Node.routes n) path ps
  | .mk x s dc d wc w ec e ds ws dirty, path, ps, f, hTS, hf => by
    simp only [Node.TS] at hTS
    obtain ⟨hds, hws, hs, hdc, hd, hwc, hw, hsne, hsd, hwcn, hwn, hecl, hel, sdc, sd, swc, sw, sec, se⟩ := hTS
    subst hds hws
    cases path with
    | nil =>
      simp only [Node.search, List.isEmpty_nil, ite_true, refWalk, routes_eq]
      cases x with
      | some i => simp [dataRoute]
      | none =>
        simp only [dataRoute, List.nil_append, List.find?_append, find_isEmpty_kids, Option.map_none]
        rfl
    | cons b tl =>
      cases f with
      | zero => simp at hf
      | succ f =>
        simp only [List.length_cons, Nat.add_le_add_iff_right] at hf
        have IHs := Kids.search_eq_walk_all env s hs
        have IHdc := Kids.search_eq_walk_all env dc hdc
        have IHd := Kids.search_eq_walk_all env d hd
        have IHwc := Kids.search_eq_walk_all env wc hwc
        have IHw := Kids.search_eq_walk_all env w hw
        simp only [Node.search, List.isEmpty_cons, Bool.false_eq_true, ite_false, refWalk]
        -- induction hypotheses in the shape the slot lemmas expect
        have mkS : ∀ ks, Kids.All (fun _ n => ∀ path' q f, path'.length ≤ f →
              Node.search env n path' q = refWalk env f (Node.routes n) path' q) ks →
            Kids.All (fun _ n => ∀ path' q, path'.length ≤ f →
              Node.search env n path' q = refWalk env f (Node.routes n) path' q) ks :=
          fun ks h => Kids.All_imp (fun _ _ hn path' q hp => hn path' q f hp) ks h
        have mkP : ∀ ks, Kids.All (fun _ n => ∀ path' q f, path'.length ≤ f →
              Node.search env n path' q = refWalk env f (Node.routes n) path' q) ks →
            Kids.All (fun _ n => ∀ c, 1 ≤ c → c ≤ (b :: tl).length → ∀ q,
              Node.search env n ((b :: tl).drop c) q = refWalk env f (Node.routes n) ((b :: tl).drop c) q) ks :=
          fun ks h => Kids.All_imp (fun _ _ hn c hc1 hc2 q => hn _ q f (by
            simp only [List.length_drop, List.length_cons] at *; omega)) ks h
        have rne : ∀ ks, Kids.TSk ks → Kids.All (fun _ n => Node.routes n ≠ []) ks := by
          intro ks
          induction ks using Kids.rec (motive_1 := fun _ => True) with
          | mk => trivial
          | nil => intro _; trivial
          | cons l n r _ ih => intro h; exact ⟨h.2.1, ih h.2.2⟩
        have hdat : ∀ (mid : Bool) ks, Kids.TSk ks → (mid = true → Kids.All (fun _ n => n.data = none) ks) →
            Kids.All (fun _ n => Node.routes n ≠ [] ∧ (mid = true → n.data = none)) ks := by
          intro mid ks hts hm
          cases mid with
          | false => exact Kids.All_imp (fun _ _ h => ⟨h, fun h' => by cases h'⟩) ks (rne ks hts)
          | true => exact Kids.All_and ks (rne ks hts) (Kids.All_imp (fun _ _ h _ => h) ks (hm rfl))
        -- the seven steps, one by one
        have h1 : Kids.searchStatic env s (b :: tl) ps =
            refWalk env f ((Node.mk x s dc d wc w ec e false false dirty).routes.filterMap (stripByte b)) tl ps := by
          rw [restrict_static]
          exact searchStatic_eq_walk env b tl ps f hf s (mkS s IHs) hsne hsd
        have h2 : Kids.searchPar env true (candsInline false (b :: tl)) dc (b :: tl) ps =
            parStep env .dynC (Node.mk x s dc d wc w ec e false false dirty).routes (b :: tl) ps (refWalk env f) := by
          rw [parStep_restrict env .dynC _ (Kids.routes (.par .dynC) dc) _ _ _
            (restrict_dynC _ x s dc d wc w ec e _ _ _ (hp_none_of _ _))
            (fun l => restrict_dynC _ x s dc d wc w ec e _ _ _ (sp_none_of _ _ l))]
          exact searchPar_eq_parStep env .dynC (b :: tl) ps f dc (mkP dc IHdc) (hdat false dc hdc (fun h => by cases h)) sdc
        have h3 : Kids.searchPar env false (candsInline false (b :: tl)) d (b :: tl) ps =
            parStep env .dyn (Node.mk x s dc d wc w ec e false false dirty).routes (b :: tl) ps (refWalk env f) := by
          rw [parStep_restrict env .dyn _ (Kids.routes (.par .dyn) d) _ _ _
            (restrict_dyn _ x s dc d wc w ec e _ _ _ (hp_none_of _ _))
            (fun l => restrict_dyn _ x s dc d wc w ec e _ _ _ (sp_none_of _ _ l))]
          exact searchPar_eq_parStep env .dyn (b :: tl) ps f d (mkP d IHd) (hdat false d hd (fun h => by cases h)) sd
        have h4 : Kids.searchPar env true (candsInline true (b :: tl)) wc (b :: tl) ps =
            parStep env .wildC (Node.mk x s dc d wc w ec e false false dirty).routes (b :: tl) ps (refWalk env f) := by
          rw [parStep_restrict env .wildC _ (Kids.routes (.par .wildC) wc) _ _ _
            (restrict_wildC _ x s dc d wc w ec e _ _ _ hecl (hp_none_of _ _))
            (fun l => restrict_wildC _ x s dc d wc w ec e _ _ _ hecl (sp_none_of _ _ l))]
          exact searchPar_eq_parStep env .wildC (b :: tl) ps f wc (mkP wc IHwc) (hdat true wc hwc (fun _ => hwcn)) swc
        have h5 : Kids.searchPar env false (candsInline true (b :: tl)) w (b :: tl) ps =
            parStep env .wild (Node.mk x s dc d wc w ec e false false dirty).routes (b :: tl) ps (refWalk env f) := by
          rw [parStep_restrict env .wild _ (Kids.routes (.par .wild) w) _ _ _
            (restrict_wild _ x s dc d wc w ec e _ _ _ hel (hp_none_of _ _))
            (fun l => restrict_wild _ x s dc d wc w ec e _ _ _ hel (sp_none_of _ _ l))]
          exact searchPar_eq_parStep env .wild (b :: tl) ps f w (mkP w IHw) (hdat true w hw (fun _ => hwn)) sw
        have hlabC : labelsOf .wildC true (Node.mk x s dc d wc w ec e false false dirty).routes = ec.labels := by
          rw [labelsOf_eq, restrict_endC _ x s dc d wc w ec e _ _ _ hwcn (hp_none_of _ _),
            hp_end_routes .wildC rfl ec hecl, sortLabels_sorted _ sec]
        have hlabE : labelsOf .wild true (Node.mk x s dc d wc w ec e false false dirty).routes = e.labels := by
          rw [labelsOf_eq, restrict_end _ x s dc d wc w ec e _ _ _ hwn (hp_none_of _ _),
            hp_end_routes .wild rfl e hel, sortLabels_sorted _ se]
        have hinfC : ∀ l, endInfo .wildC l (Node.mk x s dc d wc w ec e false false dirty).routes =
            endInfo .wildC l (Kids.routes (.par .wildC) ec) := by
          intro l
          rw [endInfo_eq_filter _ rfl, endInfo_eq_filter _ rfl,
            restrict_endC _ x s dc d wc w ec e _ _ _ hwcn (sp_none_of _ _ l)]
        have hinfE : ∀ l, endInfo .wild l (Node.mk x s dc d wc w ec e false false dirty).routes =
            endInfo .wild l (Kids.routes (.par .wild) e) := by
          intro l
          rw [endInfo_eq_filter _ rfl, endInfo_eq_filter _ rfl,
            restrict_end _ x s dc d wc w ec e _ _ _ hwn (sp_none_of _ _ l)]
        have h6 : Kids.searchEndC env ec (b :: tl) ps =
            firstSome (fun l => if (env.valid (b :: tl) && env.chk l.cons (b :: tl)) = true
                then Option.map (fun x => (x, ps ++ [(l.name, b :: tl)]))
                  (endInfo .wildC l (Node.mk x s dc d wc w ec e false false dirty).routes) else none)
              (labelsOf .wildC true (Node.mk x s dc d wc w ec e false false dirty).routes) := by
          rw [hlabC, searchEndC_eq env (b :: tl) ps ec hecl sec]
          apply firstSome_congr
          intro l _
          simp only [endF, hinfC]
        have h7 : Kids.searchEnd env e (b :: tl) ps =
            (match labelsOf .wild true (Node.mk x s dc d wc w ec e false false dirty).routes with
             | l :: _ => if env.valid (b :: tl) = true then Option.map (fun x => (x, ps ++ [(l.name, b :: tl)]))
                  (endInfo .wild l (Node.mk x s dc d wc w ec e false false dirty).routes) else none
             | [] => none) := by
          rw [hlabE, searchEnd_eq env (b :: tl) ps e hel]
          cases e.labels with
          | nil => rfl
          | cons l _ => simp only [hinfE]
        rw [h1, h2, h3, h4, h5, h6, h7]
        rfl
theorem Kids.search_eq_walk_all (env : Env) : ∀ (ks : Kids), Kids.TSk ks →
    Kids.All (fun _ n => ∀ path' q f, path'.length ≤ f →
      Node.search env n path' q = refWalk env f (Node.routes n) path' q) ks
  | .nil, _ => by simp [Kids.All]
  | .cons l n r, h => by
    simp only [Kids.TSk] at h
    simp only [Kids.All]
    exact ⟨fun path' q f hf => Node.search_eq_walk env n path' q f h.1 hf, Kids.search_eq_walk_all env r h.2.2⟩
end

#print axioms Node.search_eq_walk
