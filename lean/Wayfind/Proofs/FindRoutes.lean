import Wayfind.Spec.Norm

-- every literal part of a route of a well-shaped tree is non-empty
mutual
theorem routes_statsNE : ∀ (n : Node), Node.Shp n → ∀ r ∈ Node.routes n, statsNE r.parts
  | .mk x s dc d wc w ec e _ _ _, hS, r, hr => by
    simp only [Node.Shp] at hS
    obtain ⟨hs1, _, _, _, hecl, hel, _, _, _, _, _, _, _, _, _, _, ks, kdc, kd, kwc, kw⟩ := hS
    rw [routes_eq] at hr
    simp only [List.mem_append] at hr
    rcases hr with ((((((h | h) | h) | h) | h) | h) | h) | h
    · cases x <;> simp [dataRoute] at h; subst h; trivial
    · exact kroutes_statsNE statPart (fun l => l.pre ≠ []) (fun l hl => by simp [statPart, statsNE, hl]) s hs1 ks r h
    · exact kroutes_statsNE (.par .dynC) (fun _ => True) (fun l _ => by simp [statsNE]) dc (Kids.All_true (fun _ _ => trivial) dc) kdc r h
    · exact kroutes_statsNE (.par .dyn) (fun _ => True) (fun l _ => by simp [statsNE]) d (Kids.All_true (fun _ _ => trivial) d) kd r h
    · exact kroutes_statsNE (.par .wildC) (fun _ => True) (fun l _ => by simp [statsNE]) wc (Kids.All_true (fun _ _ => trivial) wc) kwc r h
    · exact kroutes_statsNE (.par .wild) (fun _ => True) (fun l _ => by simp [statsNE]) w (Kids.All_true (fun _ _ => trivial) w) kw r h
    · obtain ⟨l, hp⟩ := mem_kids_routes_leaves _ ec hecl r h; rw [hp]; simp [statsNE]
    · obtain ⟨l, hp⟩ := mem_kids_routes_leaves _ e hel r h; rw [hp]; simp [statsNE]
theorem kroutes_statsNE (mk : Label → Part) (Q : Label → Prop)
    (hmk : ∀ l, Q l → ∀ ps, statsNE ps → statsNE (mk l :: ps)) :
    ∀ (ks : Kids), Kids.All (fun l _ => Q l) ks → Kids.Shpk ks → ∀ r ∈ Kids.routes mk ks, statsNE r.parts
  | .nil, _, _, r, hr => by simp [Kids.routes] at hr
  | .cons l n ks, hq, hS, r, hr => by
    simp only [Kids.routes, List.mem_append, List.mem_map] at hr
    rcases hr with ⟨r0, hr0, rfl⟩ | h
    · exact hmk l hq.1 _ (routes_statsNE n hS.1 r0 hr0)
    · exact kroutes_statsNE mk Q hmk ks hq.2 hS.2.2 r h
end

/-- the routes below one parameter vector whose normal form is `par k l :: rest` -/
theorem mem_par_routes_iff (k : PKind) (l : Label) (rest : List Part) (i : Info) (l' : Label) (R : List Route) :
    (∃ r ∈ R.map (Route.push (.par k l')), norm r.parts = .par k l :: rest ∧ r.info = i) ↔
      (l' = l ∧ ∃ r0 ∈ R, norm r0.parts = rest ∧ r0.info = i) := by
  constructor
  · rintro ⟨r, hr, hn, hi⟩
    simp only [List.mem_map] at hr
    obtain ⟨r0, hr0, rfl⟩ := hr
    simp only [Route.push, norm_par, List.cons.injEq, Part.par.injEq, true_and] at hn hi
    exact ⟨hn.1, r0, hr0, hn.2, hi⟩
  · rintro ⟨rfl, r0, hr0, hn, hi⟩
    exact ⟨Route.push (.par k l') r0, List.mem_map_of_mem hr0, by simp [Route.push, norm_par, hn], hi⟩


theorem norm_stat_starts (a : Bytes) (ps : List Part) : ∃ b t, norm (.stat a :: ps) = .stat b :: t := by
  simp only [norm]; split
  · exact ⟨_, _, rfl⟩
  · exact ⟨_, _, rfl⟩

theorem Shpk_of_leaves : ∀ (ks : Kids), Kids.leaves ks → Kids.Shpk ks
  | .nil, _ => trivial
  | .cons l n r, h => by
    obtain ⟨⟨i, ds, ws, dirty, rfl⟩, hr⟩ := h
    refine ⟨?_, ?_, Shpk_of_leaves r hr⟩
    · simp [Node.Shp, Kids.All, Kids.distinctHeads, Kids.leaves, Kids.labels, NodupL, Kids.Shpk]
    · simp [Node.routes, Kids.routes]

/-- which child vector can hold a route whose normal form starts with the parameter `par k l` -/
theorem routes_par_restrict (x : Option Info) (s dc d wc w ec e : Kids) (ds ws dirty : Bool)
    (hS : Node.Shp (.mk x s dc d wc w ec e ds ws dirty)) (k : PKind) (l : Label) (rest : List Part) (i : Info) :
    (∃ r ∈ Node.routes (.mk x s dc d wc w ec e ds ws dirty), norm r.parts = .par k l :: rest ∧ r.info = i) ↔
    (∃ r ∈ Kids.routes (.par k) (Node.get (.mk x s dc d wc w ec e ds ws dirty) (slotOf k rest.isEmpty)),
        norm r.parts = .par k l :: rest ∧ r.info = i) := by
  simp only [Node.Shp] at hS
  obtain ⟨_, _, hwcd, hwd, hecl, hel, _, _, _, _, _, _, _, _, _, _, _, _, _, _, _⟩ := hS
  -- facts refuting the wrong components
  have notData : ∀ r ∈ dataRoute x, norm r.parts ≠ .par k l :: rest := by
    intro r hr; cases x <;> simp [dataRoute] at hr; subst hr; simp [norm]
  have notStat : ∀ r ∈ Kids.routes statPart s, norm r.parts ≠ .par k l :: rest := by
    intro r hr hn
    obtain ⟨l', r0, rfl⟩ := mem_kids_routes _ s r hr
    obtain ⟨b, t, hb⟩ := norm_stat_starts l'.pre r0.parts
    simp only [Route.push, statPart] at hn
    rw [hb] at hn; cases hn
  have kindOf : ∀ (k' : PKind) (ks : Kids), ∀ r ∈ Kids.routes (.par k') ks, norm r.parts = .par k l :: rest → k' = k := by
    intro k' ks r hr hn
    obtain ⟨l', r0, rfl⟩ := mem_kids_routes _ ks r hr
    simp only [Route.push, norm_par, List.cons.injEq, Part.par.injEq] at hn
    exact hn.1.1
  have midNE : ∀ (k' : PKind) (ks : Kids), Kids.All (fun _ n => n.data = none) ks →
      ∀ r ∈ Kids.routes (.par k') ks, norm r.parts = .par k l :: rest → rest ≠ [] := by
    intro k' ks hks r hr hn
    obtain ⟨l', r0, rfl, hne⟩ := mem_kids_routes_mid _ ks hks r hr
    simp only [Route.push, norm_par, List.cons.injEq] at hn
    intro e; rw [e] at hn
    exact hne ((norm_eq_nil _).1 hn.2)
  have endE : ∀ (k' : PKind) (ks : Kids), Kids.leaves ks →
      ∀ r ∈ Kids.routes (.par k') ks, norm r.parts = .par k l :: rest → rest = [] := by
    intro k' ks hks r hr hn
    obtain ⟨l', hp⟩ := mem_kids_routes_leaves _ ks hks r hr
    rw [hp] at hn
    simp only [norm, List.cons.injEq] at hn
    exact hn.2.symm
  rw [routes_eq]
  simp only [List.mem_append]
  constructor
  · rintro ⟨r, hr, hn, hi⟩
    rcases hr with ((((((h | h) | h) | h) | h) | h) | h) | h
    · exact absurd hn (notData r h)
    · exact absurd hn (notStat r h)
    · have := kindOf _ _ r h hn; subst this
      exact ⟨r, by simpa [slotOf, Node.get] using h, hn, hi⟩
    · have := kindOf _ _ r h hn; subst this
      exact ⟨r, by simpa [slotOf, Node.get] using h, hn, hi⟩
    · have := kindOf _ _ r h hn; subst this
      have hne := midNE _ _ hwcd r h hn
      have : rest.isEmpty = false := by cases rest <;> simp_all
      exact ⟨r, by simpa [slotOf, Node.get, this] using h, hn, hi⟩
    · have := kindOf _ _ r h hn; subst this
      have hne := midNE _ _ hwd r h hn
      have : rest.isEmpty = false := by cases rest <;> simp_all
      exact ⟨r, by simpa [slotOf, Node.get, this] using h, hn, hi⟩
    · have := kindOf _ _ r h hn; subst this
      have he := endE _ _ hecl r h hn; subst he
      exact ⟨r, by simpa [slotOf, Node.get] using h, hn, hi⟩
    · have := kindOf _ _ r h hn; subst this
      have he := endE _ _ hel r h hn; subst he
      exact ⟨r, by simpa [slotOf, Node.get] using h, hn, hi⟩
  · rintro ⟨r, hr, hn, hi⟩
    refine ⟨r, ?_, hn, hi⟩
    cases k <;> cases hre : rest.isEmpty <;> simp only [slotOf, hre, Node.get] at hr <;> simp [hr]

mutual
theorem Node.find_iff : ∀ (n : Node) (P : List Part) (i : Info), Node.Shp n → wfParts P = true →
    (Node.find n P = some i ↔ ∃ r ∈ Node.routes n, norm r.parts = P ∧ r.info = i)
  | .mk x s dc d wc w ec e ds ws dirty, P, i, hS, hwf => by
    have hS0 := hS
    simp only [Node.Shp] at hS
    obtain ⟨hs1, hs2, _, _, hecl, hel, ndc, nd, nwc, nw, nec, ne, _, _, _, _, ks, kdc, kd, kwc, kw⟩ := hS
    cases P with
    | nil =>
      simp only [Node.find]
      constructor
      · intro h; subst h
        exact ⟨⟨[], i⟩, by rw [routes_eq]; simp [dataRoute], by simp [norm], rfl⟩
      · rintro ⟨r, hr, hn, hi⟩
        have hp : r.parts = [] := (norm_eq_nil _).1 hn
        rw [routes_eq] at hr
        simp only [List.mem_append] at hr
        rcases hr with ((((((h | h) | h) | h) | h) | h) | h) | h
        · cases x with
          | none => simp [dataRoute] at h
          | some j => simp [dataRoute] at h; subst h; simp at hi; rw [hi]
        all_goals exact absurd hp (kids_routes_parts_ne _ _ r h)
    | cons part rest =>
      cases part with
      | stat p =>
        simp only [Node.find]
        rw [Kids.findStatic_iff s p rest i hs1 hs2 ks hwf, routes_eq]
        simp only [List.mem_append]
        constructor
        · rintro ⟨r, hr, hn, hi⟩
          exact ⟨r, Or.inl (Or.inl (Or.inl (Or.inl (Or.inl (Or.inl (Or.inr hr)))))), hn, hi⟩
        · rintro ⟨r, hr, hn, hi⟩
          rcases hr with ((((((h | h) | h) | h) | h) | h) | h) | h
          · exfalso; cases x <;> simp [dataRoute] at h; subst h; simp [norm] at hn
          · exact ⟨r, h, hn, hi⟩
          all_goals (exfalso; obtain ⟨l', r0, rfl⟩ := mem_kids_routes _ _ r h; simp [Route.push, norm_par] at hn)
      | par k l =>
        have hwr := wfParts_tail hwf
        rw [routes_par_restrict x s dc d wc w ec e ds ws dirty hS0 k l rest i]
        simp only [Node.find]
        cases hsl : slotOf k rest.isEmpty <;> simp only [Node.get]
        · have hk : k = .dynC := by cases k <;> cases hre : rest.isEmpty <;> simp [slotOf, hre] at hsl <;> rfl
          subst hk; exact Kids.findPar_iff .dynC dc l rest i ndc kdc hwr
        · have hk : k = .dyn := by cases k <;> cases hre : rest.isEmpty <;> simp [slotOf, hre] at hsl <;> rfl
          subst hk; exact Kids.findPar_iff .dyn d l rest i nd kd hwr
        · have hk : k = .wildC := by cases k <;> cases hre : rest.isEmpty <;> simp [slotOf, hre] at hsl <;> rfl
          subst hk; exact Kids.findPar_iff .wildC wc l rest i nwc kwc hwr
        · have hk : k = .wild := by cases k <;> cases hre : rest.isEmpty <;> simp [slotOf, hre] at hsl <;> rfl
          subst hk; exact Kids.findPar_iff .wild w l rest i nw kw hwr
        · have hk : k = .wildC := by cases k <;> cases hre : rest.isEmpty <;> simp [slotOf, hre] at hsl <;> rfl
          subst hk; exact Kids.findPar_iff .wildC ec l rest i nec (Shpk_of_leaves ec hecl) hwr
        · have hk : k = .wild := by cases k <;> cases hre : rest.isEmpty <;> simp [slotOf, hre] at hsl <;> rfl
          subst hk; exact Kids.findPar_iff .wild e l rest i ne (Shpk_of_leaves e hel) hwr
theorem Kids.findPar_iff (k : PKind) : ∀ (ks : Kids) (l : Label) (rest : List Part) (i : Info),
    NodupL ks.labels → Kids.Shpk ks → wfParts rest = true →
    (Kids.findPar ks l rest = some i ↔ ∃ r ∈ Kids.routes (.par k) ks, norm r.parts = .par k l :: rest ∧ r.info = i)
  | .nil, l, rest, i, _, _, _ => by simp [Kids.findPar, Kids.routes]
  | .cons l' n r, l, rest, i, hn, hS, hwf => by
    simp only [Kids.labels, NodupL, List.pairwise_cons] at hn
    have ih := Kids.findPar_iff k r l rest i hn.2 hS.2.2 hwf
    simp only [Kids.findPar, Kids.routes, List.mem_append]
    by_cases h : l' = l
    · subst h
      simp only [ite_true]
      rw [Node.find_iff n rest i hS.1 hwf]
      constructor
      · rintro ⟨r0, hr0, hn0, hi0⟩
        exact ⟨Route.push (.par k l') r0, Or.inl (List.mem_map_of_mem hr0), by simp [Route.push, norm_par, hn0], hi0⟩
      · rintro ⟨r1, hr1 | hr1, hn1, hi1⟩
        · obtain ⟨_, r0, hr0, hn0, hi0⟩ := (mem_par_routes_iff k l' rest i l' (Node.routes n)).1 ⟨r1, hr1, hn1, hi1⟩
          exact ⟨r0, hr0, hn0, hi0⟩
        · -- a later sibling cannot carry the same label
          exfalso
          obtain ⟨l2, r0, rfl⟩ := mem_kids_routes _ r r1 hr1
          have hl2 : l2 ∈ r.labels := by
            have := mem_hp_routes k (wildK k && r0.parts.isEmpty) r l2
            apply this
            simp only [List.mem_filterMap]
            exact ⟨_, hr1, by simp [hp, headPar_push_par]⟩
          simp only [Route.push, norm_par, List.cons.injEq, Part.par.injEq, true_and] at hn1
          exact hn.1 l2 hl2 hn1.1.symm
    · simp only [h, ite_false]
      rw [ih]
      constructor
      · rintro ⟨r1, hr1, hn1, hi1⟩; exact ⟨r1, Or.inr hr1, hn1, hi1⟩
      · rintro ⟨r1, hr1 | hr1, hn1, hi1⟩
        · obtain ⟨hl, _⟩ := (mem_par_routes_iff k l rest i l' (Node.routes n)).1 ⟨r1, hr1, hn1, hi1⟩
          exact absurd hl h
        · exact ⟨r1, hr1, hn1, hi1⟩
theorem Kids.findStatic_iff : ∀ (s : Kids) (p : Bytes) (rest : List Part) (i : Info),
    Kids.All (fun l _ => l.pre ≠ []) s → Kids.distinctHeads s → Kids.Shpk s → wfParts (.stat p :: rest) = true →
    (Kids.findStatic s p rest = some i ↔ ∃ r ∈ Kids.routes statPart s, norm r.parts = .stat p :: rest ∧ r.info = i)
  | .nil, p, rest, i, _, _, _, _ => by simp [Kids.findStatic, Kids.routes]
  | .cons l n r, p, rest, i, hne, hd, hS, hwf => by
    have ih := Kids.findStatic_iff r p rest i hne.2 hd.2 hS.2.2 hwf
    have hp := altOK_stat_ne (wfParts_altOK _ hwf)
    rw [findStatic_cons_spec l n r p rest hne.1 hd.1]
    simp only [Kids.routes, List.mem_append]
    -- routes below this child: exactly those reached by descending
    have hchild : (∃ r1 ∈ (Node.routes n).map (Route.push (statPart l)), norm r1.parts = .stat p :: rest ∧ r1.info = i) ↔
        (l.pre.isPrefixOf p = true ∧ Node.find n (below p l.pre.length rest) = some i) := by
      rw [Node.find_iff n _ i hS.1 (wfParts_below p _ rest hwf)]
      constructor
      · rintro ⟨r1, hr1, hn1, hi1⟩
        simp only [List.mem_map] at hr1
        obtain ⟨r0, hr0, rfl⟩ := hr1
        simp only [Route.push, statPart] at hn1 hi1
        obtain ⟨hpre, hb⟩ := (norm_stat_iff l.pre r0.parts p rest hne.1 (routes_statsNE n hS.1 r0 hr0) hwf).1 hn1
        exact ⟨hpre, r0, hr0, hb, hi1⟩
      · rintro ⟨hpre, r0, hr0, hb, hi0⟩
        refine ⟨Route.push (statPart l) r0, List.mem_map_of_mem hr0, ?_, hi0⟩
        simp only [Route.push, statPart]
        exact (norm_stat_iff l.pre r0.parts p rest hne.1 (routes_statsNE n hS.1 r0 hr0) hwf).2 ⟨hpre, hb⟩
    -- routes below the siblings start with another byte
    have hsib : l.pre.head? = p.head? → ¬ ∃ r1 ∈ Kids.routes statPart r, norm r1.parts = .stat p :: rest ∧ r1.info = i := by
      rintro hh ⟨r1, hr1, hn1, _⟩
      have hno : Kids.noHead p.head? r := hh ▸ hd.1
      -- find the sibling the route comes from
      have aux : ∀ (ks : Kids), Kids.All (fun l _ => l.pre ≠ []) ks → Kids.noHead p.head? ks → r1 ∉ Kids.routes statPart ks := by
        intro ks
        induction ks using Kids.rec (motive_1 := fun _ => True) with
        | mk => trivial
        | nil => intro _ _ h; simp [Kids.routes] at h
        | cons l2 n2 r2 _ ih2 =>
          intro hne2 hno2 hmem
          simp only [Kids.routes, List.mem_append, List.mem_map] at hmem
          rcases hmem with ⟨r0, _, rfl⟩ | hmem
          · have := norm_stat_head l2.pre r0.parts p rest hne2.1 (by simpa [Route.push, statPart] using hn1)
            exact hno2.1 this.symm
          · exact ih2 hne2.2 hno2.2 hmem
      exact aux r hne.2 hno hr1
    by_cases hpre : l.pre.isPrefixOf p = true
    · simp only [hpre, ite_true]
      have hh : l.pre.head? = p.head? := by
        obtain ⟨t, ht⟩ := List.isPrefixOf_iff_prefix.1 hpre
        rw [← ht, head_append_ne hne.1]
      constructor
      · intro h
        obtain ⟨r1, hr1, hn1, hi1⟩ := hchild.2 ⟨hpre, h⟩
        exact ⟨r1, Or.inl hr1, hn1, hi1⟩
      · rintro ⟨r1, hr1 | hr1, hn1, hi1⟩
        · exact (hchild.1 ⟨r1, hr1, hn1, hi1⟩).2
        · exact absurd ⟨r1, hr1, hn1, hi1⟩ (hsib hh)
    · simp only [hpre, Bool.false_eq_true, ite_false]
      by_cases hh : l.pre.head? = p.head?
      · simp only [hh, ite_true]
        constructor
        · intro h; cases h
        · rintro ⟨r1, hr1 | hr1, hn1, hi1⟩
          · exact absurd (hchild.1 ⟨r1, hr1, hn1, hi1⟩).1 hpre
          · exact absurd ⟨r1, hr1, hn1, hi1⟩ (hsib hh)
      · simp only [hh, ite_false]
        rw [ih]
        constructor
        · rintro ⟨r1, hr1, hn1, hi1⟩; exact ⟨r1, Or.inr hr1, hn1, hi1⟩
        · rintro ⟨r1, hr1 | hr1, hn1, hi1⟩
          · exact absurd (hchild.1 ⟨r1, hr1, hn1, hi1⟩).1 hpre
          · exact ⟨r1, hr1, hn1, hi1⟩
end

#print axioms Node.find_iff
