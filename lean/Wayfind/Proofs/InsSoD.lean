import Wayfind.Proofs.OptOk

theorem Kids.SoDk_app : ∀ (a b : Kids), Kids.SoDk (Kids.app a b) ↔ Kids.SoDk a ∧ Kids.SoDk b
  | .nil, b => by simp [Kids.app, Kids.SoDk]
  | .cons l n r, b => by simp [Kids.app, Kids.SoDk, Kids.SoDk_app r b, and_assoc]

theorem SoD_kids : ∀ {x s dc d wc w ec e ds ws dirty}, Node.SoD (.mk x s dc d wc w ec e ds ws dirty) →
    Kids.SoDk s ∧ Kids.SoDk dc ∧ Kids.SoDk d ∧ Kids.SoDk wc ∧ Kids.SoDk w := by
  intro x s dc d wc w ec e ds ws dirty hD
  simp only [Node.SoD] at hD
  rcases hD with ⟨hsrt, hfs⟩ | h
  · simp only [Node.Srt] at hsrt
    simp only [Node.FS] at hfs
    exact ⟨SoDk_of_ok s hsrt.2.2.2.2.2.2.1 hfs.2.2.1, SoDk_of_ok dc hsrt.2.2.2.2.2.2.2.1 hfs.2.2.2.1,
      SoDk_of_ok d hsrt.2.2.2.2.2.2.2.2.1 hfs.2.2.2.2.1, SoDk_of_ok wc hsrt.2.2.2.2.2.2.2.2.2.1 hfs.2.2.2.2.2.1,
      SoDk_of_ok w hsrt.2.2.2.2.2.2.2.2.2.2 hfs.2.2.2.2.2.2⟩
  · exact h.2

theorem SoD_dirty {x s dc d wc w ec e ds ws} (h : Kids.SoDk s ∧ Kids.SoDk dc ∧ Kids.SoDk d ∧ Kids.SoDk wc ∧ Kids.SoDk w) :
    Node.SoD (.mk x s dc d wc w ec e ds ws true) := by
  simp only [Node.SoD]; exact Or.inr ⟨trivial, h⟩

theorem chain_SoD : ∀ (P : List Part) (i : Info), Node.SoD (chain P i)
  | [], i => by simp [chain, Node.leaf, Node.SoD, Kids.SoDk]
  | .stat p :: rest, i => by
    have := chain_SoD rest i
    simp only [chain]
    exact SoD_dirty ⟨⟨this, trivial⟩, trivial, trivial, trivial, trivial⟩
  | .par k l :: rest, i => by
    have ih := chain_SoD rest i
    simp only [chain]
    split <;> exact SoD_dirty (by simp [Kids.SoDk, ih])

theorem splitParent_SoD (la : Label) (n : Node) (h : Node.SoD n) : Node.SoD (splitParent la n) := by
  simp only [splitParent]
  exact SoD_dirty ⟨⟨h, trivial⟩, trivial, trivial, trivial, trivial⟩

def SoDIH (m : Nat) : Prop :=
  ∀ P, psize P < m → ∀ (n : Node) (i : Info), Node.SoD n → wfParts P = true → Node.SoD (Node.insert n P i)

theorem sod_par_vec (m : Nat) (ih : SoDIH m) (ks : Kids) (l : Label) (rest : List Part) (i : Info)
    (hsz : psize rest < m) (hwf : wfParts rest = true) (h : Kids.SoDk ks) : Kids.SoDk (Kids.insertPar ks l rest i) := by
  rcases insertPar_cases ks l rest i with ⟨A, n, B, hks, _, hres⟩ | ⟨_, hres⟩
  · subst hks
    rw [hres]
    rw [Kids.SoDk_app] at h ⊢
    exact ⟨h.1, ih rest hsz n i h.2.1 hwf, h.2.2⟩
  · rw [hres, Kids.SoDk_app]
    exact ⟨h, chain_SoD rest i, trivial⟩

theorem sod_stat_vec (m : Nat) (ih : SoDIH m) (ks : Kids) (p : Bytes) (rest : List Part) (i : Info)
    (hsz : psize (.stat p :: rest) ≤ m) (hwf : wfParts (.stat p :: rest) = true)
    (h : Kids.SoDk ks) : Kids.SoDk (Kids.insertStatic ks p rest i) := by
  have halt := wfParts_altOK _ hwf
  have hp := altOK_stat_ne halt
  rcases insertStatic_cases ks p rest i halt with ⟨A, l, n, B, t, hks, _, hhd, hres⟩ | ⟨A, l, n, B, c, hks, hc0, _, _, _, _, hres⟩ | ⟨_, hres⟩
  · subst hks
    rw [hres]
    have hlne : l.pre ≠ [] := by
      intro e; rw [e] at hhd
      cases p with
      | nil => exact hp rfl
      | cons _ _ => simp at hhd
    have hlpos : 0 < l.pre.length := List.length_pos_iff.mpr hlne
    rw [Kids.SoDk_app] at h ⊢
    exact ⟨h.1, ih _ (by have := psize_below_lt p l.pre.length rest hlpos; omega) n i h.2.1 (wfParts_below p _ rest hwf), h.2.2⟩
  · subst hks
    rw [hres]
    rw [Kids.SoDk_app] at h ⊢
    exact ⟨h.1, ih _ (by have := psize_below_lt p c rest hc0; omega) _ i (splitParent_SoD _ n h.2.1) (wfParts_below p _ rest hwf), h.2.2⟩
  · rw [hres, Kids.SoDk_app]
    exact ⟨h, chain_SoD rest i, trivial⟩

theorem sodIH_all : ∀ m, SoDIH m := by
  intro m
  induction m with
  | zero => intro P h; omega
  | succ m ih =>
    intro P hP n i hD hwf
    cases n with
    | mk x s dc d wc w ec e ds ws dirty =>
    obtain ⟨qs, qdc, qd, qwc, qw⟩ := SoD_kids hD
    cases P with
    | nil => simp only [Node.insert]; exact SoD_dirty ⟨qs, qdc, qd, qwc, qw⟩
    | cons part rest =>
      cases part with
      | stat p =>
        simp only [Node.insert]
        exact SoD_dirty ⟨sod_stat_vec m ih s p rest i (by omega) hwf qs, qdc, qd, qwc, qw⟩
      | par k l =>
        have hwr := wfParts_tail hwf
        have hsz : psize rest < m := by simp only [psize] at hP; omega
        simp only [Node.insert]
        split
        · exact SoD_dirty ⟨qs, sod_par_vec m ih dc l rest i hsz hwr qdc, qd, qwc, qw⟩
        · exact SoD_dirty ⟨qs, qdc, sod_par_vec m ih d l rest i hsz hwr qd, qwc, qw⟩
        · exact SoD_dirty ⟨qs, qdc, qd, sod_par_vec m ih wc l rest i hsz hwr qwc, qw⟩
        · exact SoD_dirty ⟨qs, qdc, qd, qwc, sod_par_vec m ih w l rest i hsz hwr qw⟩
        · exact SoD_dirty ⟨qs, qdc, qd, qwc, qw⟩
        · exact SoD_dirty ⟨qs, qdc, qd, qwc, qw⟩

theorem Node.insert_SoD (n : Node) (P : List Part) (i : Info) (hD : Node.SoD n) (hwf : wfParts P = true) :
    Node.SoD (Node.insert n P i) := sodIH_all (psize P + 1) P (Nat.lt_succ_self _) n i hD hwf

mutual
theorem TSany_of_Shp_Srt : ∀ (n : Node), Node.Shp n → Node.Srt n → Node.TSany n
  | .mk x s dc d wc w ec e ds ws dirty, hS, hR => by
    simp only [Node.Shp] at hS
    simp only [Node.Srt] at hR
    obtain ⟨hs1, hs2, hwcd, hwd, hecl, hel, _, _, _, _, _, _, _, _, _, _, ks, kdc, kd, kwc, kw⟩ := hS
    obtain ⟨sdc, sd, swc, sw, sec, se, rs, rdc, rd, rwc, rw'⟩ := hR
    simp only [Node.TSany]
    exact ⟨TSanyk_of s ks rs, TSanyk_of dc kdc rdc, TSanyk_of d kd rd, TSanyk_of wc kwc rwc, TSanyk_of w kw rw',
      hs1, hs2, hwcd, hwd, hecl, hel, sdc, sd, swc, sw, sec, se⟩
theorem TSanyk_of : ∀ (ks : Kids), Kids.Shpk ks → Kids.Srtk ks → Kids.TSanyk ks
  | .nil, _, _ => trivial
  | .cons l n r, hS, hR => ⟨TSany_of_Shp_Srt n hS.1 hR.1, hS.2.1, TSanyk_of r hS.2.2 hR.2⟩
end

/-- **One `Router::insert` step re-establishes what T-walk needs**: inserting any number of well-formed
    part lists into a tree of good shape (sorted where not dirty) and then running the dirty-gated
    optimize yields a tree on which the search is the documented walk over its routes. -/
theorem insert_then_optimize_walk (env : Env) (n : Node) (Ps : List (List Part × Info))
    (hS : Node.Shp n) (hD : Node.SoD n) (hwf : ∀ x ∈ Ps, wfParts x.1 = true)
    (path : Bytes) (ps : Params) :
    let n' := Node.optimize (Ps.foldl (fun t x => Node.insert t x.1 x.2) n)
    Node.Shp n' ∧ Node.Srt n' ∧ Node.FS n' ∧
    Node.search env n' path ps = refWalk env path.length (Node.routes n') path ps := by
  have key : ∀ (Ps : List (List Part × Info)) (n : Node), Node.Shp n → Node.SoD n → (∀ x ∈ Ps, wfParts x.1 = true) →
      Node.Shp (Ps.foldl (fun t x => Node.insert t x.1 x.2) n) ∧ Node.SoD (Ps.foldl (fun t x => Node.insert t x.1 x.2) n) := by
    intro Ps
    induction Ps with
    | nil => intro n hS hD _; exact ⟨hS, hD⟩
    | cons x Ps ih =>
      intro n hS hD hwf
      simp only [List.foldl_cons]
      exact ih _ (Node.insert_Shp n x.1 x.2 hS (hwf x (by simp))).1 (Node.insert_SoD n x.1 x.2 hD (hwf x (by simp)))
        (fun y hy => hwf y (by simp [hy]))
  obtain ⟨hS', hD'⟩ := key Ps n hS hD hwf
  have hS'' := Node.optimize_Shp _ hS'
  have hOK := Node.optimize_OKs _ hS' hD'
  exact ⟨hS'', hOK.1, hOK.2,
    Node.search_eq_refWalk env _ (TSany_of_Shp_Srt _ hS'' hOK.1) hOK.2 path ps path.length (Nat.le_refl _)⟩

#print axioms insert_then_optimize_walk
