import Wayfind.Spec.Fits

/-! what `Fits` says, in the words of property C01 -/

/-- substitute the values, in order, for the parameters and concatenate -/
def instantiate : List Part → Params → Option Bytes
  | [], [] => some []
  | [], _ :: _ => none
  | .stat p :: rest, vs => (instantiate rest vs).map (p ++ ·)
  | .par _ _ :: _, [] => none
  | .par _ _ :: rest, (_, v) :: vs => (instantiate rest vs).map (v ++ ·)

def paramNames : List Part → List Bytes
  | [] => []
  | .stat _ :: rest => paramNames rest
  | .par _ l :: rest => l.name :: paramNames rest

/-- per parameter: a dynamic value has no '/', a constrained value is accepted by its constraint -/
def valuesOk (env : Env) : List Part → Params → Prop
  | .stat _ :: rest, vs => valuesOk env rest vs
  | .par k l :: rest, (_, v) :: vs =>
    (wildK k = false → (47 : Byte) ∉ v) ∧ (consK k = true → env.chk l.cons v = true) ∧ valuesOk env rest vs
  | _, _ => True

theorem fits_reconstructs (env : Env) {parts : List Part} {path : Bytes} {vs : Params} (h : Fits env parts path vs) :
    instantiate parts vs = some path ∧ paramNames parts = vs.map Prod.fst ∧
    (∀ v ∈ vs.map Prod.snd, v ≠ [] ∧ env.valid v = true) ∧ valuesOk env parts vs := by
  induction h with
  | nil => simp [instantiate, paramNames, valuesOk]
  | stat p path vs rest hne _ ih =>
    obtain ⟨h1, h2, h3, h4⟩ := ih
    refine ⟨by simp [instantiate, h1], by simpa [paramNames] using h2, h3, ?_⟩
    cases vs <;> simpa [valuesOk] using h4
  | par k l v path vs rest hv hs hval hc _ ih =>
    obtain ⟨h1, h2, h3, h4⟩ := ih
    refine ⟨by simp [instantiate, h1], by simp [paramNames, h2], ?_, ?_⟩
    · intro x hx
      simp only [List.map_cons, List.mem_cons] at hx
      rcases hx with rfl | hx
      · exact ⟨hv, hval⟩
      · exact h3 x hx
    · exact ⟨hs, hc, h4⟩
