import Wayfind.Proofs.Regex1
import Wayfind.Generated.Facts

/-! The repository-name grammar of the OCI distribution specification, written out as a grammar (no regular expression):

    name      ::= component ('/' component)*
    component ::= word (separator word)*
    word      ::= [a-z0-9]+
    separator ::= '.' | '_' | '__' | '-'+

and the proof that the pattern literal of `examples/oci/src/constraints/name.rs` — as extracted from the source on this
run and parsed by `parseRe` — denotes exactly this grammar. -/

namespace OciName

def alnum (b : UInt8) : Bool := (97 ≤ b && b ≤ 122) || (48 ≤ b && b ≤ 57)

def IsWord (w : Bytes) : Prop := w ≠ [] ∧ ∀ b ∈ w, alnum b = true

def IsSep (s : Bytes) : Prop := s = [46] ∨ s = [95] ∨ s = [95, 95] ∨ (s ≠ [] ∧ ∀ b ∈ s, b = 45)

/-- a word followed by (separator, word) pairs -/
def IsComponent (c : Bytes) : Prop :=
  ∃ (w : Bytes) (rest : List (Bytes × Bytes)), IsWord w ∧ (∀ p ∈ rest, IsSep p.1 ∧ IsWord p.2) ∧
    c = w ++ (rest.map (fun p => p.1 ++ p.2)).flatten

/-- components joined by '/' -/
def IsName (n : Bytes) : Prop :=
  ∃ (c : Bytes) (cs : List Bytes), IsComponent c ∧ (∀ x ∈ cs, IsComponent x) ∧ n = c ++ (cs.map (fun x => 47 :: x)).flatten

open OciNameRe
open Re

theorem inCls_alnum (c : UInt8) : inCls [(97, 122), (48, 57)] c = alnum c := by
  simp [inCls, alnum]

theorem inCls_single (d c : UInt8) : inCls [(d, d)] c = true ↔ c = d := by
  simp only [inCls, List.any_cons, List.any_nil, Bool.or_false, Bool.and_eq_true, decide_eq_true_eq]
  constructor
  · rintro ⟨h1, h2⟩; exact UInt8.le_antisymm h2 h1
  · rintro rfl; exact ⟨UInt8.le_refl _, UInt8.le_refl _⟩

theorem lang_single (d : UInt8) (s : Bytes) : Lang (.cls [(d, d)]) s ↔ s = [d] := by
  rw [lang_cls]
  constructor
  · rintro ⟨c, rfl, h⟩; rw [(inCls_single d c).1 h]
  · rintro rfl; exact ⟨d, rfl, (inCls_single d d).2 rfl⟩

/-- `c*` for a class: all bytes in the class -/
theorem lang_star_cls (rs : List (UInt8 × UInt8)) (s : Bytes) : Lang (.star (.cls rs)) s ↔ ∀ b ∈ s, inCls rs b = true := by
  rw [lang_star]
  constructor
  · rintro ⟨ps, rfl, hps⟩ b hb
    obtain ⟨p, hp, hbp⟩ := List.mem_flatten.1 hb
    obtain ⟨c, rfl, hc⟩ := lang_cls.1 (hps p hp)
    simp at hbp; subst hbp; exact hc
  · intro h
    refine ⟨s.map (fun b => [b]), ?_, ?_⟩
    · induction s with
      | nil => rfl
      | cons b s ih => simp [← ih (fun c hc => h c (by simp [hc]))]
    · intro p hp
      obtain ⟨b, hb, rfl⟩ := List.mem_map.1 hp
      exact lang_cls.2 ⟨b, rfl, h b hb⟩

theorem lang_word (w : Bytes) : Lang wordRe w ↔ IsWord w := by
  unfold wordRe alnumCls IsWord
  rw [lang_seq]
  constructor
  · rintro ⟨x, y, rfl, hx, hy⟩
    obtain ⟨c, rfl, hc⟩ := lang_cls.1 hx
    refine ⟨by simp, ?_⟩
    intro b hb
    rw [inCls_alnum] at hc
    rcases List.mem_append.1 hb with h | h
    · simp at h; subst h; exact hc
    · have := (lang_star_cls _ y).1 hy b h
      rwa [inCls_alnum] at this
  · rintro ⟨hne, hall⟩
    cases w with
    | nil => exact absurd rfl hne
    | cons c w' =>
      refine ⟨[c], w', rfl, lang_cls.2 ⟨c, rfl, by rw [inCls_alnum]; exact hall c (by simp)⟩, ?_⟩
      rw [lang_star_cls]
      intro b hb
      rw [inCls_alnum]; exact hall b (by simp [hb])

theorem lang_sep (s : Bytes) : Lang sepRe s ↔ IsSep s := by
  unfold sepRe IsSep
  simp only [lang_alt, lang_single, lang_seq]
  constructor
  · rintro (h | h | ⟨x, y, rfl, rfl, rfl⟩ | ⟨x, y, rfl, rfl, hy⟩)
    · exact .inl h
    · exact .inr (.inl h)
    · exact .inr (.inr (.inl rfl))
    · refine .inr (.inr (.inr ⟨by simp, ?_⟩))
      intro b hb
      rcases List.mem_append.1 hb with h | h
      · simpa using h
      · exact (inCls_single 45 b).1 ((lang_star_cls _ y).1 hy b h)
  · rintro (h | h | h | ⟨hne, hall⟩)
    · exact .inl h
    · exact .inr (.inl h)
    · exact .inr (.inr (.inl ⟨[95], [95], h, rfl, rfl⟩))
    · cases s with
      | nil => exact absurd rfl hne
      | cons c s' =>
        have hc : c = 45 := hall c (by simp)
        subst hc
        refine .inr (.inr (.inr ⟨[45], s', rfl, rfl, ?_⟩))
        rw [lang_star_cls]
        intro b hb
        exact (inCls_single 45 b).2 (hall b (by simp [hb]))

/-- `(separator word)*` : a list of (separator, word) pairs -/
theorem lang_tail (t : Bytes) :
    Lang tailRe t ↔ ∃ rest : List (Bytes × Bytes), (∀ p ∈ rest, IsSep p.1 ∧ IsWord p.2) ∧ t = (rest.map (fun p => p.1 ++ p.2)).flatten := by
  unfold tailRe
  rw [lang_star]
  constructor
  · rintro ⟨ps, rfl, hps⟩
    induction ps with
    | nil => exact ⟨[], by simp, rfl⟩
    | cons p ps ih =>
      obtain ⟨rest, hrest, e⟩ := ih (fun q hq => hps q (by simp [hq]))
      obtain ⟨x, y, rfl, hx, hy⟩ := lang_seq.1 (hps p (by simp))
      refine ⟨(x, y) :: rest, ?_, by simp [e]⟩
      intro q hq
      rcases List.mem_cons.1 hq with rfl | hq
      · exact ⟨(lang_sep x).1 hx, (lang_word y).1 hy⟩
      · exact hrest q hq
  · rintro ⟨rest, hrest, rfl⟩
    refine ⟨rest.map (fun p => p.1 ++ p.2), rfl, ?_⟩
    intro q hq
    obtain ⟨p, hp, rfl⟩ := List.mem_map.1 hq
    exact lang_seq.2 ⟨p.1, p.2, rfl, (lang_sep p.1).2 (hrest p hp).1, (lang_word p.2).2 (hrest p hp).2⟩

theorem lang_component (c : Bytes) : Lang (.seq wordRe tailRe) c ↔ IsComponent c := by
  rw [lang_seq]
  unfold IsComponent
  constructor
  · rintro ⟨w, t, rfl, hw, ht⟩
    obtain ⟨rest, hrest, rfl⟩ := (lang_tail t).1 ht
    exact ⟨w, rest, (lang_word w).1 hw, hrest, rfl⟩
  · rintro ⟨w, rest, hw, hrest, rfl⟩
    exact ⟨w, _, rfl, (lang_word w).2 hw, (lang_tail _).2 ⟨rest, hrest, rfl⟩⟩

/-- `'/' component` as the pattern brackets it: `('/' word) tail` -/
theorem lang_slash_component (s : Bytes) :
    Lang (.seq (.seq (.cls [(47, 47)]) wordRe) tailRe) s ↔ ∃ c, s = 47 :: c ∧ IsComponent c := by
  constructor
  · intro h
    obtain ⟨x, t, rfl, hx, ht⟩ := lang_seq.1 h
    obtain ⟨sl, w, rfl, hsl, hw⟩ := lang_seq.1 hx
    rw [lang_single] at hsl; subst hsl
    exact ⟨w ++ t, by simp, (lang_component _).1 (lang_seq.2 ⟨w, t, rfl, hw, ht⟩)⟩
  · rintro ⟨c, rfl, hc⟩
    obtain ⟨w, t, rfl, hw, ht⟩ := lang_seq.1 ((lang_component c).2 hc)
    exact lang_seq.2 ⟨47 :: w, t, by simp, lang_seq.2 ⟨[47], w, rfl, (lang_single 47 _).2 rfl, hw⟩, ht⟩

theorem slash_list (ps : List Bytes) (hps : ∀ p ∈ ps, Lang (.seq (.seq (.cls [(47, 47)]) wordRe) tailRe) p) :
    ∃ cs : List Bytes, (∀ x ∈ cs, IsComponent x) ∧ ps.flatten = (cs.map (fun x => 47 :: x)).flatten := by
  induction ps with
  | nil => exact ⟨[], by simp, rfl⟩
  | cons p ps ih =>
    obtain ⟨cs, hcs, e⟩ := ih (fun q hq => hps q (by simp [hq]))
    obtain ⟨c', rfl, hc'⟩ := (lang_slash_component p).1 (hps p (by simp))
    refine ⟨c' :: cs, ?_, by simp [e]⟩
    intro x hx
    rcases List.mem_cons.1 hx with rfl | hx
    · exact hc'
    · exact hcs x hx

/-- the denotation of the pattern's syntax tree is the grammar -/
theorem lang_name (n : Bytes) : Lang nameRe n ↔ IsName n := by
  unfold nameRe IsName
  rw [lang_seq]
  constructor
  · rintro ⟨c, r, rfl, hc, hr⟩
    obtain ⟨ps, rfl, hps⟩ := lang_star.1 hr
    have := slash_list ps hps
    obtain ⟨cs, hcs, e⟩ := this
    exact ⟨c, cs, (lang_component c).1 hc, hcs, by rw [e]⟩
  · rintro ⟨c, cs, hc, hcs, rfl⟩
    refine ⟨c, _, rfl, (lang_component c).2 hc, lang_star.2 ⟨cs.map (fun x => 47 :: x), rfl, ?_⟩⟩
    intro q hq
    obtain ⟨x, hx, rfl⟩ := List.mem_map.1 hq
    exact (lang_slash_component _).2 ⟨x, rfl, hcs x hx⟩

/-- generated obligation: the pattern literal in the source parses to that syntax tree -/
theorem pattern_parses : parseRe Generated.ociNamePattern = some nameRe := by decide

/-- **The name constraint's pattern accepts exactly the repository-name grammar**: for the pattern as it stands in
`examples/oci/src/constraints/name.rs`, the derivative matcher answers `true` on precisely the names of the grammar. -/
theorem pattern_is_grammar :
    ∃ r, parseRe Generated.ociNamePattern = some r ∧ ∀ n : Bytes, r.matches n = true ↔ IsName n :=
  ⟨nameRe, pattern_parses, fun n => by rw [matches_iff, lang_name]⟩

end OciName

namespace OciName

/-- non-vacuity of the grammar: `a/b` is a name (two one-letter components) -/
example : IsName [97, 47, 98] :=
  ⟨[97], [[98]], ⟨[97], [], ⟨by simp, by simp [alnum]⟩, by simp, by simp⟩,
    by
      intro x hx
      simp at hx
      subst hx
      exact ⟨[98], [], ⟨by simp, by simp [alnum]⟩, by simp, by simp⟩,
    by simp⟩

/-- the empty string is not a name: a name begins with a component, a component with a non-empty word -/
example : ¬ IsName [] := by
  rintro ⟨c, cs, ⟨w, rest, hw, _, hc⟩, _, hn⟩
  have : c = [] := by
    have := congrArg List.length hn
    simp at this
    exact List.eq_nil_of_length_eq_zero (by omega)
  subst this
  have : w = [] := by
    have := congrArg List.length hc
    simp at this
    exact List.eq_nil_of_length_eq_zero (by omega)
  exact hw.1 this

end OciName
