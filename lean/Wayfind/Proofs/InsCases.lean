import Wayfind.Proofs.KidsApp

theorem insertPar_cases : ∀ (ks : Kids) (l : Label) (rest : List Part) (i : Info),
    (∃ A n B, ks = Kids.app A (.cons l n B) ∧ l ∉ A.labels ∧
        Kids.insertPar ks l rest i = Kids.app A (.cons l (Node.insert n rest i) B))
    ∨ (l ∉ ks.labels ∧ Kids.insertPar ks l rest i = Kids.app ks (Kids.one l (chain rest i)))
  | .nil, l, rest, i => Or.inr ⟨by simp [Kids.labels], by simp [Kids.insertPar, Kids.app, Kids.one]⟩
  | .cons l' n r, l, rest, i => by
    by_cases h : l' = l
    · subst h
      exact Or.inl ⟨.nil, n, r, rfl, by simp [Kids.labels], by simp [Kids.insertPar, Kids.app]⟩
    · rcases insertPar_cases r l rest i with ⟨A, n', B, hr, hA, hres⟩ | ⟨hn, hres⟩
      · refine Or.inl ⟨.cons l' n A, n', B, by simp [Kids.app, hr], ?_, by simp [Kids.insertPar, h, hres, Kids.app]⟩
        simp only [Kids.labels, List.mem_cons, not_or]
        exact ⟨fun e => h e.symm, hA⟩
      · refine Or.inr ⟨?_, by simp [Kids.insertPar, h, hres, Kids.app]⟩
        simp only [Kids.labels, List.mem_cons, not_or]
        exact ⟨fun e => h e.symm, hn⟩

theorem insertEnd_cases : ∀ (ks : Kids) (l : Label) (i : Info),
    (l ∈ ks.labels ∧ Kids.insertEnd ks l i = ks)
    ∨ (l ∉ ks.labels ∧ Kids.insertEnd ks l i = Kids.app ks (Kids.one l (Node.leaf i)))
  | .nil, l, i => Or.inr ⟨by simp [Kids.labels], by simp [Kids.insertEnd, Kids.app, Kids.one]⟩
  | .cons l' n r, l, i => by
    by_cases h : l' = l
    · subst h
      exact Or.inl ⟨by simp [Kids.labels], by simp [Kids.insertEnd]⟩
    · rcases insertEnd_cases r l i with ⟨hm, hres⟩ | ⟨hn, hres⟩
      · exact Or.inl ⟨by simp [Kids.labels, hm], by simp [Kids.insertEnd, h, hres]⟩
      · refine Or.inr ⟨?_, by simp [Kids.insertEnd, h, hres, Kids.app]⟩
        simp only [Kids.labels, List.mem_cons, not_or]
        exact ⟨fun e => h e.symm, hn⟩

theorem insertStatic_descend_eq (l : Label) (n : Node) (r : Kids) (p : Bytes) (rest : List Part) (i : Info)
    (hh : l.pre.head? = p.head?) (hc : l.pre.length ≤ commonLen p l.pre) :
    Kids.insertStatic (.cons l n r) p rest i = .cons l (Node.insert n (below p l.pre.length rest) i) r := by
  obtain ⟨t, ht⟩ := (commonLen_ge_iff p l.pre).1 hc
  have hcl : commonLen p l.pre = l.pre.length := by rw [ht, commonLen_append_left]
  simp only [Kids.insertStatic, hh, ite_true, hcl, Nat.le_refl, below]
  by_cases hpl : p.length ≤ l.pre.length <;> simp only [hpl, ite_true, ite_false]

/-- what `insert_static` does to a vector of static children -/
theorem insertStatic_cases : ∀ (ks : Kids) (p : Bytes) (rest : List Part) (i : Info),
    altOK (.stat p :: rest) = true →
    (∃ A l n B t, ks = Kids.app A (.cons l n B) ∧ p = l.pre ++ t ∧ l.pre.head? = p.head? ∧
        Kids.insertStatic ks p rest i = Kids.app A (.cons l (Node.insert n (below p l.pre.length rest) i) B))
    ∨ (∃ A l n B c, ks = Kids.app A (.cons l n B) ∧ 0 < c ∧ c < l.pre.length ∧ c ≤ p.length ∧ l.pre.head? = p.head? ∧
        notStatHead (l.pre.drop c).head? (below p c rest) ∧
        Kids.insertStatic ks p rest i =
          Kids.app A (.cons {pre := l.pre.take c} (Node.insert (splitParent {pre := l.pre.drop c} n) (below p c rest) i) B))
    ∨ (p.head? ∉ ks.heads ∧ Kids.insertStatic ks p rest i = Kids.app ks (Kids.one {pre := p} (chain rest i)))
  | .nil, p, rest, i, _ => Or.inr (Or.inr ⟨by simp [Kids.heads], by simp [Kids.insertStatic, Kids.app, Kids.one]⟩)
  | .cons l n r, p, rest, i, hP => by
    have hp := altOK_stat_ne hP
    by_cases hh : l.pre.head? = p.head?
    · by_cases hc : l.pre.length ≤ commonLen p l.pre
      · obtain ⟨t, ht⟩ := (commonLen_ge_iff p l.pre).1 hc
        exact Or.inl ⟨.nil, l, n, r, t, rfl, ht, hh, by rw [insertStatic_descend_eq l n r p rest i hh hc]; rfl⟩
      · have hc' : commonLen p l.pre < l.pre.length := by omega
        have hc0 : 0 < commonLen p l.pre := commonLen_pos p l.pre hp hh
        have hnsh : notStatHead (l.pre.drop (commonLen p l.pre)).head? (below p (commonLen p l.pre) rest) := by
          unfold below
          split
          · cases rest with
            | nil => trivial
            | cons x _ => cases x with
              | stat _ => exact absurd hP (by simp [altOK])
              | par _ _ => trivial
          · simp only [notStatHead]
            exact commonLen_next_ne p l.pre (by omega) hc'
        exact Or.inr (Or.inl ⟨.nil, l, n, r, commonLen p l.pre, rfl, hc0, hc', commonLen_le_left p l.pre, hh, hnsh,
          by rw [insertStatic_split_eq l n r p rest i hh hc hP]; rfl⟩)
    · have hstep : Kids.insertStatic (.cons l n r) p rest i = .cons l n (Kids.insertStatic r p rest i) := by
        simp [Kids.insertStatic, hh]
      rcases insertStatic_cases r p rest i hP with ⟨A, l', n', B, t, hr, hpt, hh', hres⟩ | ⟨A, l', n', B, c, hr, h1, h2, h3, hh', hns, hres⟩ | ⟨hn, hres⟩
      · exact Or.inl ⟨.cons l n A, l', n', B, t, by simp [Kids.app, hr], hpt, hh', by rw [hstep, hres]; rfl⟩
      · exact Or.inr (Or.inl ⟨.cons l n A, l', n', B, c, by simp [Kids.app, hr], h1, h2, h3, hh', hns, by rw [hstep, hres]; rfl⟩)
      · refine Or.inr (Or.inr ⟨?_, by rw [hstep, hres]; rfl⟩)
        simp only [Kids.heads, List.mem_cons, not_or]
        exact ⟨fun e => hh e.symm, hn⟩
