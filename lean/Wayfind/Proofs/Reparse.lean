import Wayfind.Spec.Expand
import Wayfind.Spec.Grammar
import Wayfind.Proofs.ParserEq

/-! An expansion of a template, read as a template of its own, is group-free: its only expansion is itself.
(C04: "equivalent to inserting every group-free template obtained by keeping or dropping each group".) -/

/-- no unescaped parenthesis; a backslash escapes the next byte, a final backslash is a literal -/
def plainB : Bytes → Bool
  | [] => true
  | [b] => b != 40 && b != 41
  | b :: c :: rest => if b = 92 then plainB rest else (b != 40 && b != 41) && plainB (c :: rest)

/-- … and the text does not end in a dangling (unescaped) backslash, so that something can be appended -/
def plainC : Bytes → Bool
  | [] => true
  | [b] => b != 40 && b != 41 && b != 92
  | b :: c :: rest => if b = 92 then plainC rest else (b != 40 && b != 41) && plainC (c :: rest)

/-- does the text end in a dangling backslash? -/
def dang : Bytes → Bool
  | [] => false
  | [b] => b == 92
  | b :: c :: rest => if b = 92 then dang rest else dang (c :: rest)

theorem plainC_plainB : ∀ (a : Bytes), plainC a = true → plainB a = true
  | [], _ => rfl
  | [b], h => by simp only [plainC, Bool.and_eq_true] at h; simp only [plainB, Bool.and_eq_true]; exact h.1
  | b :: c :: rest, h => by
    simp only [plainC] at h
    simp only [plainB]
    split
    · rename_i hb; rw [if_pos hb] at h; exact plainC_plainB rest h
    · rename_i hb; rw [if_neg hb] at h
      simp only [Bool.and_eq_true] at h ⊢
      exact ⟨h.1, plainC_plainB (c :: rest) h.2⟩

theorem plainB_append : ∀ (a b : Bytes), plainC a = true → plainB b = true → plainB (a ++ b) = true
  | [], b, _, hb => hb
  | [x], b, ha, hb => by
    simp only [plainC, Bool.and_eq_true, bne_iff_ne, ne_eq] at ha
    cases b with
    | nil => simp [plainB, ha.1.1, ha.1.2]
    | cons y ys =>
      simp only [List.singleton_append, plainB, ha.2, ite_false, Bool.and_eq_true, bne_iff_ne, ne_eq]
      exact ⟨⟨ha.1.1, ha.1.2⟩, hb⟩
  | x :: y :: rest, b, ha, hb => by
    simp only [plainC] at ha
    simp only [List.cons_append, plainB]
    split
    · rename_i hx; rw [if_pos hx] at ha; exact plainB_append rest b ha hb
    · rename_i hx; rw [if_neg hx] at ha
      simp only [Bool.and_eq_true] at ha ⊢
      exact ⟨ha.1, plainB_append (y :: rest) b ha.2 hb⟩

theorem plainC_append : ∀ (a b : Bytes), plainC a = true → plainC b = true → plainC (a ++ b) = true
  | [], b, _, hb => hb
  | [x], b, ha, hb => by
    simp only [plainC, Bool.and_eq_true, bne_iff_ne, ne_eq] at ha
    cases b with
    | nil => simp [plainC, ha.1.1, ha.1.2, ha.2]
    | cons y ys =>
      simp only [List.singleton_append, plainC, ha.2, ite_false, Bool.and_eq_true, bne_iff_ne, ne_eq]
      exact ⟨⟨ha.1.1, ha.1.2⟩, hb⟩
  | x :: y :: rest, b, ha, hb => by
    simp only [plainC] at ha
    simp only [List.cons_append, plainC]
    split
    · rename_i hx; rw [if_pos hx] at ha; exact plainC_append rest b ha hb
    · rename_i hx; rw [if_neg hx] at ha
      simp only [Bool.and_eq_true] at ha ⊢
      exact ⟨ha.1, plainC_append (y :: rest) b ha.2 hb⟩

/-- a plain text that does not dangle can be extended -/
theorem plainC_of_plainB : ∀ (a : Bytes), plainB a = true → dang a = false → plainC a = true
  | [], _, _ => rfl
  | [b], h, hd => by
    simp only [plainB, Bool.and_eq_true] at h
    simp only [dang, beq_eq_false_iff_ne, ne_eq] at hd
    simp only [plainC, Bool.and_eq_true, bne_iff_ne, ne_eq]
    exact ⟨⟨by simpa using h.1, by simpa using h.2⟩, hd⟩
  | b :: c :: rest, h, hd => by
    simp only [plainB] at h
    simp only [dang] at hd
    simp only [plainC]
    split
    · rename_i hb; rw [if_pos hb] at h hd; exact plainC_of_plainB rest h hd
    · rename_i hb; rw [if_neg hb] at h hd
      simp only [Bool.and_eq_true] at h ⊢
      exact ⟨h.1, plainC_of_plainB (c :: rest) h.2 hd⟩

theorem dang_cons_ne (b : Byte) (rest : Bytes) (hb : b ≠ 92) (hr : rest ≠ []) : dang (b :: rest) = dang rest := by
  cases rest with
  | nil => exact absurd rfl hr
  | cons c r => simp [dang, hb]

theorem dang_esc (b : Byte) (rest : Bytes) : dang (92 :: b :: rest) = dang rest := by simp [dang]

/-- the body of a group never ends in a dangling backslash (it would have escaped the closing parenthesis), and what
follows the group dangles iff the whole text does -/
theorem groupBody_dang : ∀ (n : Nat) (d : Nat) (s g r : Bytes), s.length ≤ n → groupBody d s = some (g, r) →
    dang g = false ∧ dang s = dang r
  | 0, d, s, g, r, hn, h => by
    have : s = [] := List.eq_nil_of_length_eq_zero (by omega)
    subst this; simp [groupBody] at h
  | n + 1, d, [], g, r, _, h => by simp [groupBody] at h
  | n + 1, d, [b], g, r, _, h => by
    by_cases h92 : b = 92
    · subst h92; simp [groupBody] at h
    · by_cases h40 : b = 40
      · subst h40; simp [groupBody] at h
      · by_cases h41 : b = 41
        · subst h41
          simp only [groupBody] at h
          split at h
          · injection h with h; injection h with h1 h2; subst h1 h2; simp [dang]
          · simp [groupBody] at h
        · rw [groupBody] at h
          · simp [groupBody] at h
          all_goals simp_all
  | n + 1, d, b :: c :: rest, g, r, hn, h => by
    simp only [List.length_cons] at hn
    by_cases h92 : b = 92
    · subst h92
      simp only [groupBody, Option.map_eq_some_iff] at h
      obtain ⟨⟨g', r'⟩, hg, he⟩ := h
      injection he with h1 h2; subst h1 h2
      have ih := groupBody_dang n d rest g' r' (by omega) hg
      exact ⟨by rw [dang_esc]; exact ih.1, by rw [dang_esc]; exact ih.2⟩
    · by_cases h40 : b = 40
      · subst h40
        simp only [groupBody, Option.map_eq_some_iff] at h
        obtain ⟨⟨g', r'⟩, hg, he⟩ := h
        injection he with h1 h2; subst h1 h2
        have ih := groupBody_dang n (d + 1) (c :: rest) g' r' (by simp; omega) hg
        have hg'ne : g' ≠ [] ∨ g' = [] := by by_cases h : g' = [] <;> simp [h]
        refine ⟨?_, ?_⟩
        · cases g' with
          | nil => simp [dang]
          | cons x xs => rw [dang_cons_ne 40 (x :: xs) (by decide) (by simp)]; exact ih.1
        · rw [dang_cons_ne 40 (c :: rest) (by decide) (by simp)]; exact ih.2
      · by_cases h41 : b = 41
        · subst h41
          simp only [groupBody] at h
          split at h
          · injection h with h; injection h with h1 h2; subst h1 h2
            exact ⟨rfl, dang_cons_ne 41 (c :: rest) (by decide) (by simp)⟩
          · simp only [Option.map_eq_some_iff] at h
            obtain ⟨⟨g', r'⟩, hg, he⟩ := h
            injection he with h1 h2; subst h1 h2
            have ih := groupBody_dang n (d - 1) (c :: rest) g' r' (by simp; omega) hg
            refine ⟨?_, ?_⟩
            · cases g' with
              | nil => simp [dang]
              | cons x xs => rw [dang_cons_ne 41 (x :: xs) (by decide) (by simp)]; exact ih.1
            · rw [dang_cons_ne 41 (c :: rest) (by decide) (by simp)]; exact ih.2
        · rw [groupBody] at h
          · simp only [Option.map_eq_some_iff] at h
            obtain ⟨⟨g', r'⟩, hg, he⟩ := h
            injection he with h1 h2; subst h1 h2
            have ih := groupBody_dang n d (c :: rest) g' r' (by simp; omega) hg
            refine ⟨?_, ?_⟩
            · cases g' with
              | nil => simp [dang, h92]
              | cons x xs => rw [dang_cons_ne b (x :: xs) h92 (by simp)]; exact ih.1
            · rw [dang_cons_ne b (c :: rest) h92 (by simp)]; exact ih.2
          all_goals simp_all

theorem plainB_cons_ne (b : Byte) (rest : Bytes) (h1 : b ≠ 92) (h2 : b ≠ 40) (h3 : b ≠ 41) : plainB (b :: rest) = plainB rest := by
  cases rest with
  | nil => simp [plainB, h2, h3]
  | cons c r => simp [plainB, h1, h2, h3]

theorem plainC_cons_ne (b : Byte) (rest : Bytes) (h1 : b ≠ 92) (h2 : b ≠ 40) (h3 : b ≠ 41) : plainC (b :: rest) = plainC rest := by
  cases rest with
  | nil => simp [plainC, h1, h2, h3]
  | cons c r => simp [plainC, h1, h2, h3]

theorem plainB_esc (b : Byte) (rest : Bytes) : plainB (92 :: b :: rest) = plainB rest := by simp [plainB]
theorem plainC_esc (b : Byte) (rest : Bytes) : plainC (92 :: b :: rest) = plainC rest := by simp [plainC]

/-- **every expansion of a parsed item sequence is plain**; it can be extended unless the text ends in a dangling backslash -/
theorem parseSeq_plain : ∀ (fuel : Nat) (s : Bytes) (is : Items), parseSeq fuel s = some is →
    ∀ e ∈ Items.exps is, plainB e = true ∧ (dang s = false → plainC e = true)
  | 0, _, _, h => by simp [parseSeq] at h
  | fuel + 1, [], is, h => by
    simp only [parseSeq] at h
    injection h with h; subst h
    intro e he
    simp only [Items.exps, List.mem_singleton] at he
    subst he; exact ⟨rfl, fun _ => rfl⟩
  | fuel + 1, [b], is, h => by
    by_cases h40 : b = 40
    · subst h40; simp [parseSeq, groupBody] at h
    · by_cases h41 : b = 41
      · subst h41; simp [parseSeq] at h
      · rw [parseSeq] at h
        · cases fuel with
          | zero => simp [parseSeq] at h
          | succ f =>
          simp only [parseSeq, Option.map_some] at h
          injection h with h; subst h
          intro e he
          simp only [Items.exps, Item.alts, List.flatMap_cons, List.flatMap_nil, List.map_cons, List.map_nil, List.append_nil,
            List.mem_singleton] at he
          subst he
          refine ⟨by simp [plainB, h40, h41], fun hd => ?_⟩
          simp only [dang, beq_eq_false_iff_ne, ne_eq] at hd
          simp [plainC, h40, h41, hd]
        all_goals simp_all
  | fuel + 1, b :: c :: rest, is, h => by
    by_cases h92 : b = 92
    · subst h92
      simp only [parseSeq, Option.map_eq_some_iff] at h
      obtain ⟨tail, ht, rfl⟩ := h
      have ih := parseSeq_plain fuel rest tail ht
      intro e he
      simp only [Items.exps, Item.alts, List.flatMap_cons, List.flatMap_nil, List.append_nil, List.mem_map] at he
      obtain ⟨e', he', rfl⟩ := he
      obtain ⟨a, b'⟩ := ih e' he'
      refine ⟨by simpa [plainB] using a, fun hd => ?_⟩
      rw [dang_esc] at hd
      simpa [plainC] using b' hd
    · by_cases h40 : b = 40
      · subst h40
        simp only [parseSeq] at h
        cases hg : groupBody 1 (c :: rest) with
        | none => simp [hg] at h
        | some gr =>
          obtain ⟨g, rest'⟩ := gr
          simp only [hg] at h
          split at h
          · cases h
          · cases hin : parseSeq fuel g with
            | none => simp [hin] at h
            | some inner =>
              cases htl : parseSeq fuel rest' with
              | none => simp [hin, htl] at h
              | some tail =>
                simp only [hin, htl] at h
                injection h with h; subst h
                have hd := groupBody_dang _ 1 (c :: rest) g rest' (Nat.le_refl _) hg
                have ihI := parseSeq_plain fuel g inner hin
                have ihT := parseSeq_plain fuel rest' tail htl
                intro e he
                simp only [Items.exps, Item.alts, List.mem_flatMap, List.mem_append, List.mem_singleton, List.mem_map] at he
                obtain ⟨a, ha, e', he', rfl⟩ := he
                have hac : plainC a = true := by
                  rcases ha with ha | ha
                  · exact (ihI a ha).2 hd.1
                  · subst ha; rfl
                refine ⟨plainB_append a e' hac (ihT e' he').1, fun hds => ?_⟩
                rw [dang_cons_ne 40 (c :: rest) (by decide) (by simp), hd.2] at hds
                exact plainC_append a e' hac ((ihT e' he').2 hds)
      · by_cases h41 : b = 41
        · subst h41; simp [parseSeq] at h
        · rw [parseSeq] at h
          · simp only [Option.map_eq_some_iff] at h
            obtain ⟨tail, ht, rfl⟩ := h
            have ih := parseSeq_plain fuel (c :: rest) tail ht
            intro e he
            simp only [Items.exps, Item.alts, List.flatMap_cons, List.flatMap_nil, List.append_nil, List.mem_map] at he
            obtain ⟨e', he', rfl⟩ := he
            obtain ⟨a, b'⟩ := ih e' he'
            refine ⟨by rw [List.singleton_append, plainB_cons_ne b e' h92 h40 h41]; exact a, fun hd => ?_⟩
            rw [dang_cons_ne b (c :: rest) h92 (by simp)] at hd
            rw [List.singleton_append, plainC_cons_ne b e' h92 h40 h41]
            exact b' hd
          all_goals simp_all

/-- a plain text parses to a group-free item sequence whose only expansion is the text itself -/
theorem parseSeq_of_plain : ∀ (fuel : Nat) (e : Bytes), plainB e = true → e.length < fuel →
    ∃ is, parseSeq fuel e = some is ∧ Items.exps is = [e]
  | 0, _, _, hf => by omega
  | fuel + 1, [], _, _ => ⟨.nil, rfl, rfl⟩
  | fuel + 1, [b], hp, hf => by
    simp only [plainB, Bool.and_eq_true, bne_iff_ne, ne_eq] at hp
    obtain ⟨f, rfl⟩ : ∃ f, fuel = f + 1 := ⟨fuel - 1, by simp at hf; omega⟩
    refine ⟨.cons (.lit b) .nil, ?_, by simp [Items.exps, Item.alts]⟩
    rw [parseSeq]
    · simp [parseSeq]
    all_goals simp_all
  | fuel + 1, b :: c :: rest, hp, hf => by
    simp only [List.length_cons] at hf
    by_cases h92 : b = 92
    · subst h92
      rw [plainB_esc] at hp
      obtain ⟨is, h1, h2⟩ := parseSeq_of_plain fuel rest hp (by omega)
      refine ⟨.cons (.esc c) is, by simp [parseSeq, h1], ?_⟩
      simp [Items.exps, Item.alts, h2]
    · have hbb : b ≠ 40 ∧ b ≠ 41 := by
        simp only [plainB, h92, ite_false, Bool.and_eq_true, bne_iff_ne, ne_eq] at hp
        exact hp.1
      rw [plainB_cons_ne b (c :: rest) h92 hbb.1 hbb.2] at hp
      obtain ⟨is, h1, h2⟩ := parseSeq_of_plain fuel (c :: rest) hp (by simp; omega)
      refine ⟨.cons (.lit b) is, ?_, by simp [Items.exps, Item.alts, h2]⟩
      rw [parseSeq]
      · simp [h1]
      all_goals simp_all

/-- **an expansion of a template is a group-free template: its only expansion is itself** -/
theorem reparse_expansion (input : Bytes) (es : List Bytes) (h : topExpansions input = some es) (e : Bytes) (he : e ∈ es) :
    topExpansions e = some [e] := by
  unfold topExpansions at h
  split at h
  · cases h
  · simp only [Option.map_eq_some_iff] at h
    obtain ⟨is, hi, rfl⟩ := h
    simp only [List.mem_map] at he
    obtain ⟨e0, he0, rfl⟩ := he
    have hplain : plainB (if e0.isEmpty = true then [47] else e0) = true ∧ (if e0.isEmpty = true then [47] else e0) ≠ [] := by
      by_cases hem : e0.isEmpty = true
      · simp [hem, plainB]
      · simp only [hem, Bool.false_eq_true, ite_false]
        refine ⟨(parseSeq_plain _ input is hi e0 he0).1, ?_⟩
        intro h0; subst h0; simp at hem
    generalize (if e0.isEmpty = true then [47] else e0) = e at hplain
    obtain ⟨hp, hne⟩ := hplain
    obtain ⟨is', h1, h2⟩ := parseSeq_of_plain (e.length + 1) e hp (by omega)
    unfold topExpansions parseItems
    have hemp : e.isEmpty = false := by cases e with | nil => exact absurd rfl hne | cons _ _ => rfl
    simp only [hemp, Bool.false_eq_true, ite_false, h1, Option.map_some, h2, List.map_cons, List.map_nil]

/-- … and it parses to the same parts: `specParse e = [(e, parts)]` for every `(e, parts)` the template parses to -/
theorem reparse_spec (input : Bytes) (ts : List (Bytes × List Part)) (h : specParse input = some ts) (e : Bytes × List Part)
    (he : e ∈ ts) : specParse e.1 = some [e] := by
  unfold specParse at h
  cases hte : topExpansions input with
  | none => simp [hte] at h
  | some es =>
    simp only [hte] at h
    -- `e.1 ∈ es` and `decode e.1 = some e.2`
    have key : ∀ (es : List Bytes) (ts : List (Bytes × List Part)),
        es.mapM (fun e => (decode e).map (fun ps => (e, ps))) = some ts → ∀ x ∈ ts, x.1 ∈ es ∧ decode x.1 = some x.2 := by
      intro es
      induction es with
      | nil => intro ts h x hx; simp at h; subst h; cases hx
      | cons a as ih =>
        intro ts h x hx
        rw [List.mapM_cons] at h
        cases hd : decode a with
        | none => simp [hd] at h
        | some ps =>
          cases hm : as.mapM (fun e => (decode e).map (fun ps => (e, ps))) with
          | none => simp [hd, hm] at h
          | some rest =>
            simp [hd, hm] at h
            subst h
            rcases List.mem_cons.1 hx with rfl | hx'
            · exact ⟨by simp, hd⟩
            · obtain ⟨a1, a2⟩ := ih rest hm x hx'
              exact ⟨by simp [a1], a2⟩
    obtain ⟨hmem, hdec⟩ := key es ts h e he
    unfold specParse
    rw [reparse_expansion input es hte e.1 hmem]
    simp [hdec]

/-- the same on the parser model: every expansion text of an accepted template is itself an accepted template with
exactly that one expansion -/
theorem reparse_parseTemplates (input : Bytes) (ts : List (Bytes × List Part)) (h : parseTemplates input = .ok ts)
    (e : Bytes × List Part) (he : e ∈ ts) : parseTemplates e.1 = .ok [e] :=
  (parseTemplates_eq_specParse e.1 [e]).2 (reparse_spec input ts ((parseTemplates_eq_specParse input ts).1 h) e he)
