import Wayfind.Proofs.ParseFault3
import Wayfind.Proofs.ParseErrors

/-! lifting the per-expansion fault theorem to `parse_templates` (the API-level parser) -/

/-- as `parseTemplates_error_cases`, with the fault itself in the third case -/
theorem parseTemplates_error_fault (input : Bytes) (e : TErr) (h : parseTemplates input = .error e) :
    (e = .empty ∧ input = []) ∨ e.isParen input ∨
    ∃ es raw, topExpansions input = some es ∧ raw ∈ es ∧ e.tpl = some raw ∧ e.inside raw ∧ localFault e = true := by
  unfold parseTemplates at h
  by_cases hne : input = []
  · subst hne
    simp at h
    exact Or.inl ⟨h.symm, rfl⟩
  · have hemp : input.isEmpty = false := by cases input with | nil => exact absurd rfl hne | cons _ _ => rfl
    simp only [hemp, Bool.false_eq_true, ite_false] at h
    cases he : expandRange input (input.length + 1) input 0 none true with
    | error e' =>
      rw [he] at h; injection h with h; subst h
      exact Or.inr (Or.inl (rangeErr_all input _ _ _ _ _ _ he))
    | ok raws =>
      rw [he] at h
      simp only at h
      obtain ⟨raw, hraw, hpr⟩ := mapExcept_error h
      have htop := ((expand_top input hne).1 raws).1 he
      cases hp : parseTemplate raw with
      | ok ps => rw [hp] at hpr; cases hpr
      | error e' =>
        rw [hp] at hpr
        injection hpr with hpr; subst hpr
        obtain ⟨h1, h2⟩ := parseTemplate_error_inside raw _ hp
        exact Or.inr (Or.inr ⟨raws, raw, htop, hraw, h1, h2, parseTemplate_error_local raw _ hp⟩)

/-- **the fault an error names is present** — for every variant that `parse_template` produces and for `Empty`: the
error carries one of the grammar's expansions of the input, and the bytes it indicates in that expansion are the
construct it complains about (`localFault`). The two parenthesis variants (produced while expanding) carry the input. -/
theorem parseTemplates_fault_present (input : Bytes) (e : TErr) (h : parseTemplates input = .error e) :
    e.isParen input ∨ faultPresent input e = true := by
  rcases parseTemplates_error_fault input e h with ⟨he, hi⟩ | hp | ⟨es, raw, htop, hmem, htpl, _, hl⟩
  · subst he hi; exact Or.inr rfl
  · exact Or.inl hp
  · refine Or.inr ?_
    have hin : (match topExpansions input with | some es => es.contains raw | none => false) = true := by
      rw [htop]; simpa using hmem
    cases e with
    | empty => cases htpl
    | emptyParentheses t p => simp [localFault] at hl
    | unbalancedParenthesis t p => simp [localFault] at hl
    | _ =>
      simp only [TErr.tpl, Option.some.injEq] at htpl
      subst htpl
      simp only [faultPresent, hl, Bool.and_true]
      exact hin
