import Wayfind.Proofs.DecodeEq2

/-! Stage 2, part 3: the parameter text. -/

theorem invalid_same : invalidChars = invalidNameChars := rfl

theorem parseParam_ok_iff (raw : Bytes) (cursor : Nat) (after : Bytes) (part : Part) (next : Nat) :
    parseParam raw cursor after = .ok (part, next) ↔
      ∃ n, braceEnd after 1 0 = some n ∧ paramOf (after.take n) = some part ∧ next = cursor + n + 2 := by
  unfold parseParam paramOf paramCore splitColon
  rw [invalid_same]
  cases hb : braceEnd after 1 0 with
  | none => simp
  | some n =>
    simp only [Option.some.injEq, exists_eq_left']
    cases hi : (after.take n).idxOf? 58 with
    | none =>
      simp only []
      repeat' split
      all_goals simp_all <;> omega
    | some p =>
      simp only []
      repeat' split
      all_goals simp_all <;> omega

theorem brace_invalid : invalidNameChars.contains (123 : Byte) = true := by decide

theorem paramCore_none_name (name : Bytes) (cons : Option Bytes) (h : (123 : Byte) ∈ name) : paramCore name cons = none := by
  unfold paramCore
  by_cases h1 : name.isEmpty = true
  · simp [h1]
  · simp only [h1, Bool.false_eq_true, ite_false]
    -- the brace survives dropping a leading '*'
    have hmem : (123 : Byte) ∈ (if (name.head? == some 42) = true then name.drop 1 else name) := by
      by_cases hw : (name.head? == some 42) = true
      · simp only [hw, ite_true]
        cases name with
        | nil => cases h
        | cons c cs =>
          simp only [List.head?_cons, beq_iff_eq, Option.some.injEq] at hw
          subst hw
          rcases List.mem_cons.1 h with h' | h'
          · cases h'
          · simpa using h'
      · simp only [hw, ite_false]; exact h
    have hany : (if (name.head? == some 42) = true then name.drop 1 else name).any (invalidNameChars.contains ·) = true :=
      List.any_eq_true.2 ⟨123, hmem, brace_invalid⟩
    have hne : (if (name.head? == some 42) = true then name.drop 1 else name).isEmpty = false := by
      cases hh : (if (name.head? == some 42) = true then name.drop 1 else name) with
      | nil => rw [hh] at hmem; cases hmem
      | cons _ _ => rfl
    simp only [hne, Bool.and_false, Bool.false_eq_true, ite_false, hany, ite_true]

theorem paramCore_none_cons (name c : Bytes) (h : (123 : Byte) ∈ c) : paramCore name (some c) = none := by
  unfold paramCore
  have hany : c.any (invalidNameChars.contains ·) = true := List.any_eq_true.2 ⟨123, h, brace_invalid⟩
  have hne : c.isEmpty = false := by cases c with | nil => cases h | cons _ _ => rfl
  simp only [hne, Bool.false_eq_true, ite_false, hany, ite_true]
  repeat' split
  all_goals rfl

theorem idxOf?_split (a : Byte) : ∀ (l : Bytes) (p : Nat), l.idxOf? a = some p → l = l.take p ++ a :: l.drop (p + 1)
  | [], p, h => by simp at h
  | x :: xs, p, h => by
    rw [List.idxOf?_cons] at h
    split at h
    · rename_i hx
      injection h with h; subst h
      simp at hx; simp [hx]
    · cases hq : xs.idxOf? a with
      | none => rw [hq] at h; simp at h
      | some q =>
        rw [hq] at h; simp at h; subst h
        have := idxOf?_split a xs q hq
        simp only [List.take_succ_cons, List.drop_succ_cons, List.cons_append]
        rw [← this]

theorem splitColon_mem (content : Bytes) (x : Byte) (hx : x ∈ content) (h58 : x ≠ 58) :
    x ∈ (splitColon content).1 ∨ ∃ c, (splitColon content).2 = some c ∧ x ∈ c := by
  unfold splitColon
  cases hi : content.idxOf? 58 with
  | none => exact Or.inl hx
  | some p =>
    simp only []
    rw [idxOf?_split 58 content p hi] at hx
    rcases List.mem_append.1 hx with h' | h'
    · exact Or.inl h'
    · rcases List.mem_cons.1 h' with h'' | h''
      · exact absurd h'' h58
      · exact Or.inr ⟨_, rfl, h''⟩

/-- the grammar's parameter text never contains `{` -/
theorem paramOf_none_of_brace (content : Bytes) (h : (123 : Byte) ∈ content) : paramOf content = none := by
  unfold paramOf
  split
  · rfl
  · rcases splitColon_mem content 123 h (by decide) with h' | ⟨c, hc, h'⟩
    · exact paramCore_none_name _ _ h'
    · rw [hc]; exact paramCore_none_cons _ c h'
