import Wayfind.Proofs.Oci2

/-! The six templates of the OCI example as one family, and the segment pattern of every path one of their
expansions fits (C17). -/

inductive OK | root | blob | manifest | tags | uploads | uploadsRef
deriving DecidableEq, Repr

def OK.template : OK → Bytes
  | .root => ociRoot | .blob => ociBlob | .manifest => ociManifest | .tags => ociTags
  | .uploads => ociUploads | .uploadsRef => ociUploadsRef

def OK.exps : OK → List (Bytes × List Part)
  | .root => ociRootExps | .blob => ociBlobExps | .manifest => ociManifestExps | .tags => ociTagsExps
  | .uploads => ociUploadsExps | .uploadsRef => ociUploadsRefExps

theorem OK.parse (k : OK) : parseTemplates k.template = .ok k.exps := by
  cases k
  · exact ociRoot_parse
  · exact ociBlob_parse
  · exact ociManifest_parse
  · exact ociTags_parse
  · exact ociUploads_parse
  · exact ociUploadsRef_parse

/-- does the template end in a dynamic parameter (`{digest}` / `{reference}`)? -/
def OK.hasLast : OK → Bool
  | .blob | .manifest | .uploadsRef => true
  | _ => false

/-- the segments, last first, of a URL of kind `k` (with or without the trailing slash) whose name has the segments `X`
(last first) and whose last parameter is `v2` -/
def opat (k : OK) (slash : Bool) (X : List Bytes) (v2 : Bytes) : List Bytes :=
  let core : List Bytes := match k with
    | .root => [sV2, []]
    | .blob => v2 :: sBlobs :: (X ++ [sV2, []])
    | .manifest => v2 :: sManifests :: (X ++ [sV2, []])
    | .tags => sList :: sTags :: (X ++ [sV2, []])
    | .uploads => sUploads :: sBlobs :: (X ++ [sV2, []])
    | .uploadsRef => v2 :: sUploads :: sBlobs :: (X ++ [sV2, []])
  if slash then [] :: core else core

/-- the expansion of `k` with / without the trailing slash, as the parser produces it -/
def OK.exp (k : OK) (slash : Bool) : Bytes × List Part :=
  if slash then k.exps.headD ([], []) else (k.exps.drop 1).headD ([], [])

theorem OK.exp_mem (k : OK) (slash : Bool) : k.exp slash ∈ k.exps := by
  cases k <;> cases slash <;> simp [OK.exp, OK.exps, ociRootExps, ociBlobExps, ociManifestExps, ociTagsExps, ociUploadsExps, ociUploadsRefExps]

theorem OK.exps_eq (k : OK) : k.exps = [k.exp true, k.exp false] := by
  cases k <;> rfl

/-- the parameters reported for a URL of kind `k` -/
def ovs (k : OK) (v1 v2 : Bytes) : Params :=
  match k with
  | .root => []
  | .blob => [(lN.name, v1), (lD.name, v2)]
  | .manifest | .uploadsRef => [(lN.name, v1), (lR.name, v2)]
  | .tags | .uploads => [(lN.name, v1)]

/-- the URL of kind `k` for repository name `v1` and last parameter `v2` -/
def opath (k : OK) (slash : Bool) (v1 v2 : Bytes) : Bytes :=
  let core : Bytes := match k with
    | .root => [47, 118, 50]
    | .blob => [47, 118, 50, 47] ++ (v1 ++ ([47, 98, 108, 111, 98, 115, 47] ++ v2))
    | .manifest => [47, 118, 50, 47] ++ (v1 ++ ([47, 109, 97, 110, 105, 102, 101, 115, 116, 115, 47] ++ v2))
    | .tags => [47, 118, 50, 47] ++ (v1 ++ [47, 116, 97, 103, 115, 47, 108, 105, 115, 116])
    | .uploads => [47, 118, 50, 47] ++ (v1 ++ [47, 98, 108, 111, 98, 115, 47, 117, 112, 108, 111, 97, 100, 115])
    | .uploadsRef => [47, 118, 50, 47] ++ (v1 ++ ([47, 98, 108, 111, 98, 115, 47, 117, 112, 108, 111, 97, 100, 115, 47] ++ v2))
  if slash then core ++ [47] else core

/-- what `Fits` says about a path that an expansion of an OCI template fits: its segments follow the pattern -/
theorem fits_opat (env : Env) (k : OK) (slash : Bool) (path : Bytes) (vs : Params) (h : Fits env (k.exp slash).2 path vs) :
    ∃ v1 v2, rsplit path = opat k slash (rsplit v1) v2 ∧ vs = ovs k v1 v2 ∧
      (k.hasLast = true → v2 ≠ [] ∧ (47 : Byte) ∉ v2) ∧ (k ≠ .root → v1 ≠ [] ∧ env.chk lN.cons v1 = true) ∧
      path = opath k slash v1 v2 := by
  cases k <;> cases slash
  -- root
  · obtain ⟨rfl, rfl⟩ := fits_stat1 (A := [47, 118, 50]) h
    exact ⟨[], [], rs_root, rfl, by simp [OK.hasLast], by simp, rfl⟩
  · obtain ⟨rfl, rfl⟩ := fits_stat1 (A := [47, 118, 50, 47]) h
    exact ⟨[], [], rs_root_s, rfl, by simp [OK.hasLast], by simp, rfl⟩
  -- blob
  · obtain ⟨v1, v2, rfl, rfl, h1, h2, h3, h4⟩ := fits_w_s_d (A := [47, 118, 50, 47]) (B := [47, 98, 108, 111, 98, 115, 47]) (l := lN) (d := lD) h
    exact ⟨v1, v2, rs_two sBlobs (by decide) v1 v2 h3, rfl, fun _ => ⟨h2, h3⟩, fun _ => ⟨h1, h4⟩, rfl⟩
  · obtain ⟨v1, v2, rfl, rfl, h1, h2, h3, h4⟩ := fits_w_s_d_s (A := [47, 118, 50, 47]) (B := [47, 98, 108, 111, 98, 115, 47]) (C := [47]) (l := lN) (d := lD) h
    exact ⟨v1, v2, rs_two_s sBlobs (by decide) v1 v2 h3, rfl, fun _ => ⟨h2, h3⟩, fun _ => ⟨h1, h4⟩, by simp [opath]⟩
  -- manifest
  · obtain ⟨v1, v2, rfl, rfl, h1, h2, h3, h4⟩ := fits_w_s_d (A := [47, 118, 50, 47]) (B := [47, 109, 97, 110, 105, 102, 101, 115, 116, 115, 47]) (l := lN) (d := lR) h
    exact ⟨v1, v2, rs_two sManifests (by decide) v1 v2 h3, rfl, fun _ => ⟨h2, h3⟩, fun _ => ⟨h1, h4⟩, rfl⟩
  · obtain ⟨v1, v2, rfl, rfl, h1, h2, h3, h4⟩ := fits_w_s_d_s (A := [47, 118, 50, 47]) (B := [47, 109, 97, 110, 105, 102, 101, 115, 116, 115, 47]) (C := [47]) (l := lN) (d := lR) h
    exact ⟨v1, v2, rs_two_s sManifests (by decide) v1 v2 h3, rfl, fun _ => ⟨h2, h3⟩, fun _ => ⟨h1, h4⟩, by simp [opath]⟩
  -- tags
  · obtain ⟨v1, rfl, rfl, h1, h4⟩ := fits_w_s (A := [47, 118, 50, 47]) (B := [47, 116, 97, 103, 115, 47, 108, 105, 115, 116]) (l := lN) h
    exact ⟨v1, [], rs_lit2 sTags sList (by decide) (by decide) v1, rfl, by simp [OK.hasLast], fun _ => ⟨h1, h4⟩, rfl⟩
  · obtain ⟨v1, rfl, rfl, h1, h4⟩ := fits_w_s (A := [47, 118, 50, 47]) (B := [47, 116, 97, 103, 115, 47, 108, 105, 115, 116, 47]) (l := lN) h
    exact ⟨v1, [], rs_lit2_s sTags sList (by decide) (by decide) v1, rfl, by simp [OK.hasLast], fun _ => ⟨h1, h4⟩, by simp [opath]⟩
  -- uploads
  · obtain ⟨v1, rfl, rfl, h1, h4⟩ := fits_w_s (A := [47, 118, 50, 47]) (B := [47, 98, 108, 111, 98, 115, 47, 117, 112, 108, 111, 97, 100, 115]) (l := lN) h
    exact ⟨v1, [], rs_lit2 sBlobs sUploads (by decide) (by decide) v1, rfl, by simp [OK.hasLast], fun _ => ⟨h1, h4⟩, rfl⟩
  · obtain ⟨v1, rfl, rfl, h1, h4⟩ := fits_w_s (A := [47, 118, 50, 47]) (B := [47, 98, 108, 111, 98, 115, 47, 117, 112, 108, 111, 97, 100, 115, 47]) (l := lN) h
    exact ⟨v1, [], rs_lit2_s sBlobs sUploads (by decide) (by decide) v1, rfl, by simp [OK.hasLast], fun _ => ⟨h1, h4⟩, by simp [opath]⟩
  -- uploadsRef
  · obtain ⟨v1, v2, rfl, rfl, h1, h2, h3, h4⟩ := fits_w_s_d (A := [47, 118, 50, 47]) (B := [47, 98, 108, 111, 98, 115, 47, 117, 112, 108, 111, 97, 100, 115, 47]) (l := lN) (d := lR) h
    exact ⟨v1, v2, rs_three sBlobs sUploads (by decide) (by decide) v1 v2 h3, rfl, fun _ => ⟨h2, h3⟩, fun _ => ⟨h1, h4⟩, rfl⟩
  · obtain ⟨v1, v2, rfl, rfl, h1, h2, h3, h4⟩ := fits_w_s_d_s (A := [47, 118, 50, 47]) (B := [47, 98, 108, 111, 98, 115, 47, 117, 112, 108, 111, 97, 100, 115, 47]) (C := [47]) (l := lN) (d := lR) h
    exact ⟨v1, v2, rs_three_s sBlobs sUploads (by decide) (by decide) v1 v2 h3, rfl, fun _ => ⟨h2, h3⟩, fun _ => ⟨h1, h4⟩, by simp [opath]⟩
