import Wayfind.Proofs.Corollaries
import Wayfind.Spec.Greedy

/-! C12: with a single route the documented walk returns the leftmost-longest assignment -/

theorem better_self (i : Info) (ps : Params) : better i (some (i, ps)) = true := by
  simp [better]

/-- a capture loop whose continuation always returns the same route keeps the last success -/
theorem tryCands_single (env : Env) (cons : Option Bytes) (name path : Bytes) (ps : Params) (info : Info)
    (k : Bytes → Params → Res) (g : Bytes → Option Params) :
    ∀ (cs : List Nat) (acc : Option Params),
    (∀ c ∈ cs, ∀ q, k (path.drop c) q = (g (path.drop c)).map (fun vs => (info, q ++ vs))) →
    tryCands env cons name path ps k cs (acc.map (fun vs => (info, ps ++ vs))) =
      (lastOk env cons name path g cs acc).map (fun vs => (info, ps ++ vs))
  | [], acc, _ => rfl
  | c :: cs, acc, h => by
    rw [tryCands_cons]
    simp only [lastOk]
    have hstep : stepCand env cons name path ps k c (acc.map (fun vs => (info, ps ++ vs))) =
        (if candOk env cons (path.take c) then
          (match g (path.drop c) with
           | some vs => some ((name, path.take c) :: vs)
           | none => acc)
         else acc).map (fun vs => (info, ps ++ vs)) := by
      unfold stepCand
      by_cases hok : candOk env cons (path.take c) = true
      · simp only [hok, ite_true]
        rw [h c (by simp)]
        cases hg : g (path.drop c) with
        | none => simp
        | some vs =>
          simp only [Option.map_some]
          cases acc with
          | none => simp [better]
          | some a => simp [better]
      · simp [hok]
    rw [hstep]
    exact tryCands_single env cons name path ps info k g cs _ (fun c' hc' => h c' (by simp [hc']))

theorem labelsOf_single_par (k k' : PKind) (last : Bool) (l : Label) (rest : List Part) (info : Info) :
    labelsOf k' last [⟨.par k l :: rest, info⟩] = if k = k' ∧ (wildK k' && rest.isEmpty) = last then [l] else [] := by
  simp only [labelsOf, List.filterMap_cons, List.filterMap_nil, headPar]
  by_cases h : k = k' ∧ (wildK k' && rest.isEmpty) = last
  · simp [h, sortLabels, insertLabel]
  · simp [h, sortLabels]

theorem labelsOf_single_nonpar (k' : PKind) (last : Bool) (parts : List Part) (info : Info)
    (h : ∀ k l rest, parts ≠ .par k l :: rest) : labelsOf k' last [⟨parts, info⟩] = [] := by
  simp only [labelsOf, List.filterMap_cons, List.filterMap_nil, headPar]
  cases parts with
  | nil => simp [sortLabels]
  | cons x xs => cases x with
    | stat _ => simp [sortLabels]
    | par k l => exact absurd rfl (h k l xs)

theorem parStep_single_none (env : Env) (k' : PKind) (r : Route) (path ps walk)
    (h : labelsOf k' false [r] = []) : parStep env k' [r] path ps walk = none := by
  simp [parStep, h, firstSome]

theorem lastOk_append (env : Env) (cons : Option Bytes) (name path : Bytes) (g : Bytes → Option Params) :
    ∀ (cs ds : List Nat) (acc : Option Params),
    lastOk env cons name path g (cs ++ ds) acc = lastOk env cons name path g ds (lastOk env cons name path g cs acc)
  | [], _, _ => rfl
  | c :: cs, ds, acc => by simp only [List.cons_append, lastOk]; exact lastOk_append env cons name path g cs ds _

theorem lastOk_none_of (env : Env) (cons : Option Bytes) (name path : Bytes) (g : Bytes → Option Params) :
    ∀ (cs : List Nat), (∀ c ∈ cs, g (path.drop c) = none) → lastOk env cons name path g cs none = none
  | [], _ => rfl
  | c :: cs, h => by
    simp only [lastOk, h c (by simp)]
    have : (if candOk env cons (path.take c) = true then (none : Option Params) else none) = none := by split <;> rfl
    rw [this]
    exact lastOk_none_of env cons name path g cs (fun c' hc' => h c' (by simp [hc']))

/-- a catch-all takes the whole rest of the path -/
theorem lastOk_end (env : Env) (cons : Option Bytes) (name path : Bytes) (hp : path ≠ []) :
    lastOk env cons name path (greedy env []) (candsInline true path) none =
      if candOk env cons path then some [(name, path)] else none := by
  obtain ⟨n, hn⟩ : ∃ n, path.length = n + 1 := ⟨path.length - 1, by
    have : 0 < path.length := List.length_pos_iff.mpr hp; omega⟩
  simp only [candsInline, ite_true, hn, List.range_succ, List.map_append, List.map_cons, List.map_nil]
  rw [lastOk_append]
  have hfirst : lastOk env cons name path (greedy env []) ((List.range n).map (· + 1)) none = none := by
    apply lastOk_none_of
    intro c hc
    simp only [List.mem_map, List.mem_range] at hc
    obtain ⟨a, ha, rfl⟩ := hc
    have : (path.drop (a + 1)) ≠ [] := by
      intro e; have := congrArg List.length e
      simp only [List.length_drop, List.length_nil] at this; omega
    cases hd : path.drop (a + 1) with
    | nil => exact absurd hd this
    | cons _ _ => simp [greedy]
  rw [hfirst]
  have ht : path.take (n + 1) = path := by rw [← hn]; exact List.take_length
  have hd : path.drop (n + 1) = [] := by rw [← hn]; exact List.drop_length
  simp only [lastOk, ht, hd, greedy, List.isEmpty_nil, ite_true]

theorem stripPar_single (k : PKind) (l : Label) (rest : List Part) (info : Info) (last : Bool)
    (h : (wildK k && rest.isEmpty) = last) :
    [(⟨.par k l :: rest, info⟩ : Route)].filterMap (stripPar k last l) = [⟨rest, info⟩] := by
  have := stripPar_of_parts (r := (⟨.par k l :: rest, info⟩ : Route)) (k := k) (l := l) (rest := rest) rfl
  rw [h] at this
  simp [List.filterMap_cons, this]

theorem parStep_single_mid (env : Env) (k : PKind) (l : Label) (rest : List Part) (info : Info) (path : Bytes) (ps : Params)
    (f : Nat) (hmid : (wildK k && rest.isEmpty) = false)
    (hIH : ∀ c ∈ candsInline (wildK k) path, ∀ q,
      refWalk env f [⟨rest, info⟩] (path.drop c) q = (greedy env rest (path.drop c)).map (fun vs => (info, q ++ vs))) :
    parStep env k [⟨.par k l :: rest, info⟩] path ps (refWalk env f) =
      (greedy env (.par k l :: rest) path).map (fun vs => (info, ps ++ vs)) := by
  unfold parStep
  rw [labelsOf_single_par k k false l rest info]
  simp only [hmid, and_self, ite_true, firstSome, orElse'_none_right, stripPar_single k l rest info false hmid]
  have := tryCands_single env (if consK k then some l.cons else none) l.name path ps info
    (refWalk env f [⟨rest, info⟩]) (greedy env rest) (candsInline (wildK k) path) none hIH
  simp only [Option.map_none] at this
  rw [this]
  rfl

/-- **C12 (list level).** With a single route the documented walk returns the leftmost-longest assignment. -/
theorem refWalk_single (env : Env) : ∀ (fuel : Nat) (parts : List Part) (info : Info) (path : Bytes) (ps : Params),
    statsNE parts → path.length ≤ fuel →
    refWalk env fuel [⟨parts, info⟩] path ps = (greedy env parts path).map (fun vs => (info, ps ++ vs)) := by
  intro fuel
  induction fuel with
  | zero =>
    intro parts info path ps hs hf
    have : path = [] := List.eq_nil_of_length_eq_zero (by omega)
    subst this
    cases parts with
    | nil => simp [refWalk, greedy]
    | cons x xs => cases x with
      | stat p =>
        have hp : p ≠ [] := hs.1
        cases p with
        | nil => exact absurd rfl hp
        | cons c p => simp [refWalk, greedy, List.isPrefixOf]
      | par k l => simp [refWalk, greedy, candsInline, segLen, lastOk]
  | succ f ih =>
    intro parts info path ps hs hf
    cases path with
    | nil =>
      cases parts with
      | nil => simp [refWalk, greedy]
      | cons x xs => cases x with
        | stat p =>
          have hp : p ≠ [] := hs.1
          cases p with
          | nil => exact absurd rfl hp
          | cons c p => simp [refWalk, greedy, List.isPrefixOf]
        | par k l => simp [refWalk, greedy, candsInline, segLen, lastOk]
    | cons b tl =>
      simp only [List.length_cons, Nat.add_le_add_iff_right] at hf
      cases parts with
      | nil =>
        have hl : ∀ k' last, labelsOf k' last [(⟨[], info⟩ : Route)] = [] :=
          fun k' last => labelsOf_single_nonpar k' last [] info (by intro k l rest h; cases h)
        simp only [refWalk, parStep, hl, firstSome, orElse'_none_right]
        have : [(⟨[], info⟩ : Route)].filterMap (stripByte b) = [] := rfl
        rw [this, refWalk_nil]
        simp [greedy]
      | cons x rest =>
        cases x with
        | stat p =>
          have hp : p ≠ [] := hs.1
          cases p with
          | nil => exact absurd rfl hp
          | cons c p =>
            have hl : ∀ k' last, labelsOf k' last [(⟨.stat (c :: p) :: rest, info⟩ : Route)] = [] :=
              fun k' last => labelsOf_single_nonpar k' last _ info (by intro k l rest' h; cases h)
            simp only [refWalk, parStep, hl, firstSome, orElse'_none_right]
            by_cases hcb : c = b
            · subst hcb
              have hstrip : [(⟨.stat (c :: p) :: rest, info⟩ : Route)].filterMap (stripByte c) =
                  [⟨if p.isEmpty then rest else .stat p :: rest, info⟩] := by
                simp [stripByte]
              rw [hstrip]
              cases p with
              | nil =>
                simp only [List.isEmpty_nil, ite_true]
                rw [ih rest info tl ps hs.2 hf]
                simp [greedy, List.isPrefixOf]
              | cons d p' =>
                simp only [List.isEmpty_cons, Bool.false_eq_true, ite_false]
                rw [ih (.stat (d :: p') :: rest) info tl ps ⟨by simp, hs.2⟩ hf]
                simp [greedy, List.isPrefixOf]
            · have hstrip : [(⟨.stat (c :: p) :: rest, info⟩ : Route)].filterMap (stripByte b) = [] := by
                simp [stripByte, hcb]
              rw [hstrip, refWalk_nil]
              have : ¬ (c == b) = true := by simpa using hcb
              simp [greedy, List.isPrefixOf, this]
        | par k l =>
          have hstrip : [(⟨.par k l :: rest, info⟩ : Route)].filterMap (stripByte b) = [] := rfl
          have hlab := fun k' last => labelsOf_single_par k k' last l rest info
          by_cases hmid : (wildK k && rest.isEmpty) = false
          · -- mid-route parameter
            have hIH : ∀ c ∈ candsInline (wildK k) (b :: tl), ∀ q,
                refWalk env f [⟨rest, info⟩] ((b :: tl).drop c) q =
                  (greedy env rest ((b :: tl).drop c)).map (fun vs => (info, q ++ vs)) := by
              intro c hc q
              have hb := candsInline_bounds _ _ c hc
              exact ih rest info _ q hs (by simp only [List.length_drop, List.length_cons] at *; omega)
            have hkey := parStep_single_mid env k l rest info (b :: tl) ps f hmid hIH
            have hnoend : ∀ k', labelsOf k' true [(⟨.par k l :: rest, info⟩ : Route)] = [] := by
              intro k'
              rw [hlab]
              by_cases hk : k = k'
              · subst hk; simp [hmid]
              · simp [hk]
            have hother : ∀ k', k ≠ k' → parStep env k' [(⟨.par k l :: rest, info⟩ : Route)] (b :: tl) ps (refWalk env f) = none := by
              intro k' hk
              apply parStep_single_none
              rw [hlab]; simp [hk]
            simp only [refWalk, hstrip, refWalk_nil, orElse'_none_left, hnoend, firstSome]
            cases k with
            | dynC => simp only [hkey, hother .dyn (by decide), hother .wildC (by decide), hother .wild (by decide), orElse'_none_right]
            | dyn => simp only [hkey, hother .dynC (by decide), hother .wildC (by decide), hother .wild (by decide), orElse'_none_left, orElse'_none_right]
            | wildC => simp only [hkey, hother .dynC (by decide), hother .dyn (by decide), hother .wild (by decide), orElse'_none_left, orElse'_none_right]
            | wild => simp only [hkey, hother .dynC (by decide), hother .dyn (by decide), hother .wildC (by decide), orElse'_none_left, orElse'_none_right]
          · -- catch-all
            have hw : wildK k = true ∧ rest = [] := by
              simp only [Bool.and_eq_false_iff, not_or, Bool.not_eq_false] at hmid
              exact ⟨hmid.1, by simpa using hmid.2⟩
            obtain ⟨hwk, rfl⟩ := hw
            have hnomid : ∀ k', labelsOf k' false [(⟨[.par k l], info⟩ : Route)] = [] := by
              intro k'
              rw [hlab]
              by_cases hk : k = k'
              · subst hk; simp [hwk]
              · simp [hk]
            have hend : lastOk env (if consK k then some l.cons else none) l.name (b :: tl) (greedy env [])
                (candsInline true (b :: tl)) none =
                if candOk env (if consK k then some l.cons else none) (b :: tl) then some [(l.name, b :: tl)] else none :=
              lastOk_end env _ l.name (b :: tl) (by simp)
            have hg : greedy env [.par k l] (b :: tl) =
                if candOk env (if consK k then some l.cons else none) (b :: tl) then some [(l.name, b :: tl)] else none := by
              show lastOk env (if consK k then some l.cons else none) l.name (b :: tl) (greedy env [])
                (candsInline (wildK k) (b :: tl)) none = _
              rw [hwk]; exact hend
            rw [hg]
            simp only [refWalk, hstrip, refWalk_nil, orElse'_none_left, parStep, hnomid, firstSome]
            cases k with
            | dynC => cases hwk
            | dyn => cases hwk
            | wildC =>
              simp only [hlab, wildK, List.isEmpty_nil, Bool.and_self, and_self, ite_true, firstSome, orElse'_none_right,
                consK, candOk]
              have he : endInfo .wildC l [(⟨[.par .wildC l], info⟩ : Route)] = some info := endInfo_cons_eq .wildC l info []
              have hne : labelsOf .wild true [(⟨[.par .wildC l], info⟩ : Route)] = [] := by
                rw [labelsOf_single_par]; simp
              simp only [he, hne]
              by_cases hc : (env.valid (b :: tl) && env.chk l.cons (b :: tl)) = true <;> simp [hc, orElse']
            | wild =>
              have hnc : labelsOf .wildC true [(⟨[.par .wild l], info⟩ : Route)] = [] := by
                rw [labelsOf_single_par]; simp
              have hl1 : labelsOf .wild true [(⟨[.par .wild l], info⟩ : Route)] = [l] := by
                rw [labelsOf_single_par]; simp [wildK]
              have he : endInfo .wild l [(⟨[.par .wild l], info⟩ : Route)] = some info := endInfo_cons_eq .wild l info []
              simp only [hnc, hl1, firstSome, orElse'_none_left, he, consK, candOk]
              by_cases hc : env.valid (b :: tl) = true <;> simp [hc]

#print axioms refWalk_single
