import Wayfind.Proofs.Registry5

/-! reference counts of shared values: what `delete` hands back -/

theorem find?_filter_ne (c c' : Nat) (h : c' ≠ c) : ∀ (rc : List (Nat × Nat)),
    (rc.filter (fun x => x.1 != c)).find? (fun x => x.1 == c') = rc.find? (fun x => x.1 == c')
  | [] => rfl
  | x :: xs => by
    simp only [List.filter_cons]
    by_cases hx : x.1 = c
    · have h1 : (x.1 != c) = false := by simp [hx]
      have h2 : (x.1 == c') = false := by simp [hx]; exact fun h' => h h'.symm
      simp only [h1, List.find?_cons, h2]
      exact find?_filter_ne c c' h xs
    · have h1 : (x.1 != c) = true := by simp [hx]
      simp only [h1, ite_true, List.find?_cons]
      split
      · rfl
      · exact find?_filter_ne c c' h xs

theorem rcGet_rcSet_same (rc : List (Nat × Nat)) (c n : Nat) : rcGet (rcSet rc c n) c = n := by
  simp [rcGet, rcSet]

theorem rcGet_rcSet_other (rc : List (Nat × Nat)) (c c' n : Nat) (h : c' ≠ c) : rcGet (rcSet rc c n) c' = rcGet rc c' := by
  have hc : (c == c') = false := by simp; exact fun h' => h h'.symm
  simp only [rcGet, rcSet, List.find?_cons, hc]
  rw [find?_filter_ne c c' h]

/-- the number of different part lists among `ts` that are not in `seen` -/
def newKeys : List (List Part) → List (Bytes × List Part) → Nat
  | _, [] => 0
  | seen, e :: rest => if e.2 ∈ seen then newKeys seen rest else newKeys (e.2 :: seen) rest + 1

/-- the number of different routes of a template (`< |ts|` when two expansions have the same parts) -/
def nkeys (ts : List (Bytes × List Part)) : Nat := newKeys [] ts

theorem newKeys_le : ∀ (ts : List (Bytes × List Part)) (seen : List (List Part)), newKeys seen ts ≤ ts.length
  | [], _ => Nat.le_refl _
  | e :: rest, seen => by
    simp only [newKeys, List.length_cons]
    split
    · have := newKeys_le rest seen; omega
    · have := newKeys_le rest (e.2 :: seen); omega

theorem newKeys_pos : ∀ (ts : List (Bytes × List Part)) (seen : List (List Part)) (e : Bytes × List Part), e ∈ ts → e.2 ∉ seen →
    newKeys seen ts > 0
  | [], _, _, h, _ => by cases h
  | x :: rest, seen, e, he, hs => by
    simp only [newKeys]
    split
    · rename_i hx
      rcases List.mem_cons.1 he with rfl | he'
      · exact absurd hx hs
      · exact newKeys_pos rest seen e he' hs
    · omega

theorem nkeys_pos {ts : List (Bytes × List Part)} (h : ts ≠ []) : nkeys ts > 0 := by
  cases ts with
  | nil => exact absurd rfl h
  | cons e rest => exact newKeys_pos _ [] e (by simp) (by simp)

theorem newKeys_distinct : ∀ (ts : List (Bytes × List Part)) (seen : List (List Part)), (ts.map (·.2)).Nodup →
    (∀ e ∈ ts, e.2 ∉ seen) → newKeys seen ts = ts.length
  | [], _, _, _ => rfl
  | e :: rest, seen, hnd, hs => by
    simp only [List.map_cons, List.nodup_cons] at hnd
    simp only [newKeys, hs e (by simp), ite_false, List.length_cons]
    rw [newKeys_distinct rest (e.2 :: seen) hnd.2]
    intro y hy hm
    rcases List.mem_cons.1 hm with h | h
    · exact hnd.1 (h ▸ List.mem_map.2 ⟨y, hy, rfl⟩)
    · exact hs y (by simp [hy]) h

theorem nkeys_distinct {ts : List (Bytes × List Part)} (hd : DistinctExps ts) : nkeys ts = ts.length :=
  newKeys_distinct ts [] hd (by intro e _ h; cases h)

/-- inserting expansions: one reference is dropped for every expansion whose key is there already -/
theorem insertShared_drops (t : Bytes) (d cell : Nat) : ∀ (ts : List (Bytes × List Part)) (root : Node) (drops : Nat) (seen : List (List Part)),
    Node.Shp root → (∀ e ∈ ts, wfParts e.2 = true) → (∀ e ∈ ts, ((Node.find root e.2).isSome = true ↔ e.2 ∈ seen)) →
    (insertShared t d cell ts root drops).2 + newKeys seen ts = drops + ts.length
  | [], _, _, _, _, _, _ => rfl
  | e :: rest, root, drops, seen, hS, hwf, hseen => by
    simp only [insertShared, List.length_cons]
    have hwe := hwf e (by simp)
    have hS' := (Node.insert_Shp root e.2 (sharedInfo t d cell e) hS hwe).1
    have hfi : ∀ y ∈ rest, Node.find (Node.insert root e.2 (sharedInfo t d cell e)) y.2 =
        if y.2 = e.2 then some (keepOld e.2 (Node.find root e.2) (sharedInfo t d cell e)) else Node.find root y.2 :=
      fun y hy => Node.find_insert' root e.2 y.2 _ (Node.SOK_of_Shp root hS) (wfParts_altOK _ hwe)
        (wfParts_altOK _ (hwf y (by simp [hy])))
    by_cases hdup : (Node.find root e.2).isSome = true
    · have hes : e.2 ∈ seen := (hseen e (by simp)).1 hdup
      simp only [hdup, ite_true, newKeys, hes]
      have := insertShared_drops t d cell rest _ (drops + 1) seen hS' (fun y hy => hwf y (by simp [hy])) (by
        intro y hy
        rw [hfi y hy]
        by_cases hye : y.2 = e.2
        · simp only [hye, ite_true, Option.isSome_some, true_iff]; exact hes
        · simp only [hye, ite_false]; exact hseen y (by simp [hy]))
      omega
    · have hes : e.2 ∉ seen := fun h => hdup ((hseen e (by simp)).2 h)
      simp only [hdup, Bool.false_eq_true, ite_false, newKeys, hes]
      have := insertShared_drops t d cell rest _ drops (e.2 :: seen) hS' (fun y hy => hwf y (by simp [hy])) (by
        intro y hy
        rw [hfi y hy]
        by_cases hye : y.2 = e.2
        · simp [hye]
        · simp only [hye, ite_false, List.mem_cons, false_or]; exact hseen y (by simp [hy]))
      omega

/-- inserting fresh expansions keeps one reference per different route -/
theorem insertShared_count (t : Bytes) (d cell : Nat) (ts : List (Bytes × List Part)) (root : Node)
    (hS : Node.Shp root) (hwf : ∀ e ∈ ts, wfParts e.2 = true) (hfresh : ∀ e ∈ ts, Node.find root e.2 = none) :
    ts.length - (insertShared t d cell ts root 0).2 = nkeys ts := by
  have := insertShared_drops t d cell ts root 0 [] hS hwf (by
    intro e he; rw [hfresh e he]; simp)
  unfold nkeys
  omega

/-- deleting all expansions of a template whose values share cell `k`, whose count is the number of its routes still
present: the last route hands the data back; expansions whose route is gone already are skipped -/
theorem deleteAll_shared (k d : Nat) : ∀ (ts : List (Bytes × List Part)) (root : Node) (rc : List (Nat × Nat)) (out : Option Nat)
    (gone : List (List Part)),
    Node.Shp root → (∀ e ∈ ts, wfParts e.2 = true) →
    (∀ e ∈ ts, e.2 ∈ gone → Node.find root e.2 = none) →
    (∀ e ∈ ts, e.2 ∉ gone → ∃ i, Node.find root e.2 = some i ∧ i.cell = some k ∧ i.data = d) →
    rcGet rc k = newKeys gone ts →
    (newKeys gone ts > 0 → (deleteAll ts root rc out).2.2 = some d) ∧
    (newKeys gone ts = 0 → (deleteAll ts root rc out).2.2 = out) ∧
    rcGet (deleteAll ts root rc out).2.1 k = 0 ∧
    ∀ k', k' ≠ k → rcGet (deleteAll ts root rc out).2.1 k' = rcGet rc k'
  | [], _, _, _, _, _, _, _, _, hrc => by
    simp only [deleteAll, newKeys] at hrc ⊢
    exact ⟨fun h => absurd h (by omega), fun _ => trivial, hrc, fun _ _ => trivial⟩
  | e :: rest, root, rc, out, gone, hS, hwf, hgone, hpres, hrc => by
    obtain ⟨raw, parts⟩ := e
    have hwe : wfParts parts = true := hwf (raw, parts) (by simp)
    have hdel := Node.find_delete root false parts
    have hS' : Node.Shp (Node.delete false root parts).1 := Node.delete_Shp root false parts hS hwe
    have hfd : ∀ y ∈ rest, Node.find (Node.delete false root parts).1 y.2 = if y.2 = parts then none else Node.find root y.2 :=
      fun y hy => (hdel y.2 hS hwe (hwf y (by simp [hy]))).1
    have hres : (Node.delete false root parts).2 = Node.find root parts := (hdel parts hS hwe hwe).2
    simp only [deleteAll]
    by_cases hg : parts ∈ gone
    · have hnone : Node.find root parts = none := hgone (raw, parts) (by simp) hg
      rw [hnone] at hres
      cases hd' : Node.delete false root parts with
      | mk root' res =>
        rw [hd'] at hres hS' hfd
        simp only at hres hS' hfd
        subst hres
        simp only [newKeys, hg, ite_true] at hrc ⊢
        exact deleteAll_shared k d rest root' rc out gone hS' (fun y hy => hwf y (by simp [hy]))
          (by
            intro y hy hyg
            rw [hfd y hy]
            split
            · rfl
            · exact hgone y (by simp [hy]) hyg)
          (by
            intro y hy hyg
            rw [hfd y hy]
            have : y.2 ≠ parts := fun h => hyg (h ▸ hg)
            rw [if_neg this]
            exact hpres y (by simp [hy]) hyg)
          hrc
    · obtain ⟨i, hfi, hci, hdi⟩ := hpres (raw, parts) (by simp) hg
      rw [hfi] at hres
      cases hd' : Node.delete false root parts with
      | mk root' res =>
        rw [hd'] at hres hS' hfd
        simp only at hres hS' hfd
        subst hres
        simp only [hci, newKeys, hg, ite_false] at hrc ⊢
        have hn : rcGet rc k - 1 = newKeys (parts :: gone) rest := by omega
        have ih := deleteAll_shared k d rest root' (rcSet rc k (rcGet rc k - 1))
          (if rcGet rc k - 1 = 0 then some i.data else out) (parts :: gone) hS' (fun y hy => hwf y (by simp [hy]))
          (by
            intro y hy hyg
            rw [hfd y hy]
            split
            · rfl
            · rename_i hne
              rcases List.mem_cons.1 hyg with h | h
              · exact absurd h hne
              · exact hgone y (by simp [hy]) h)
          (by
            intro y hy hyg
            simp only [List.mem_cons, not_or] at hyg
            rw [hfd y hy, if_neg hyg.1]
            exact hpres y (by simp [hy]) hyg.2)
          (by rw [rcGet_rcSet_same]; exact hn)
        refine ⟨fun _ => ?_, fun h => absurd h (by omega), ih.2.2.1, ?_⟩
        · by_cases hz : newKeys (parts :: gone) rest = 0
          · rw [ih.2.1 hz]
            have : rcGet rc k - 1 = 0 := by omega
            simp only [this, ite_true, hdi]
          · exact ih.1 (by omega)
        · intro k' hk'
          rw [ih.2.2.2 k' hk', rcGet_rcSet_other _ _ _ _ hk']

/-- a template without groups: its single stored value is inline -/
theorem deleteAll_inline (e : Bytes × List Part) (root : Node) (rc : List (Nat × Nat)) (out : Option Nat) (i : Info)
    (hS : Node.Shp root) (hwf : wfParts e.2 = true) (hf : Node.find root e.2 = some i) (hc : i.cell = none) :
    (deleteAll [e] root rc out).2.2 = some i.data ∧ (deleteAll [e] root rc out).2.1 = rc := by
  obtain ⟨raw, parts⟩ := e
  have hres : (Node.delete false root parts).2 = some i := by rw [(Node.find_delete root false parts parts hS hwf hwf).2]; exact hf
  simp only [deleteAll]
  cases hd' : Node.delete false root parts with
  | mk root' res =>
    rw [hd'] at hres
    simp only at hres
    subst hres
    simp only [hc, deleteAll, and_self]
