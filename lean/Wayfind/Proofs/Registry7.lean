import Wayfind.Proofs.Registry5

/-! reference counts of shared values: what `delete` hands back -/

theorem find?_filter_ne (c c' : Nat) (h : c' ≠ c) : ∀ (rc : List (Nat × Nat)),
    (rc.filter (fun x => x.1 != c)).find? (fun x => x.1 == c') = rc.find? (fun x => x.1 == c')
  | [] => rfl
  | x :: xs => by
    simp only [List.filter_cons]
    by_cases hx : x.1 = c
    · have h1 : (x.1 != c) = false := by simp [hx]
      have h2 : (x.1 == c') = false := by simp [hx]; exact fun h' => h h'.symm
      simp only [h1, List.find?_cons, h2]
      exact find?_filter_ne c c' h xs
    · have h1 : (x.1 != c) = true := by simp [hx]
      simp only [h1, ite_true, List.find?_cons]
      split
      · rfl
      · exact find?_filter_ne c c' h xs

theorem rcGet_rcSet_same (rc : List (Nat × Nat)) (c n : Nat) : rcGet (rcSet rc c n) c = n := by
  simp [rcGet, rcSet]

theorem rcGet_rcSet_other (rc : List (Nat × Nat)) (c c' n : Nat) (h : c' ≠ c) : rcGet (rcSet rc c n) c' = rcGet rc c' := by
  have hc : (c == c') = false := by simp; exact fun h' => h h'.symm
  simp only [rcGet, rcSet, List.find?_cons, hc]
  rw [find?_filter_ne c c' h]

/-- the number of different part lists among `ts` that are not in `seen` -/
def newKeys : List (List Part) → List (Bytes × List Part) → Nat
  | _, [] => 0
  | seen, e :: rest => if e.2 ∈ seen then newKeys seen rest else newKeys (e.2 :: seen) rest + 1

/-- the number of different routes of a template (`< |ts|` when two expansions have the same parts) -/
def nkeys (ts : List (Bytes × List Part)) : Nat := newKeys [] ts

theorem newKeys_le : ∀ (ts : List (Bytes × List Part)) (seen : List (List Part)), newKeys seen ts ≤ ts.length
  | [], _ => Nat.le_refl _
  | e :: rest, seen => by
    simp only [newKeys, List.length_cons]
    split
    · have := newKeys_le rest seen; omega
    · have := newKeys_le rest (e.2 :: seen); omega

theorem newKeys_pos : ∀ (ts : List (Bytes × List Part)) (seen : List (List Part)) (e : Bytes × List Part), e ∈ ts → e.2 ∉ seen →
    newKeys seen ts > 0
  | [], _, _, h, _ => by cases h
  | x :: rest, seen, e, he, hs => by
    simp only [newKeys]
    split
    · rename_i hx
      rcases List.mem_cons.1 he with rfl | he'
      · exact absurd hx hs
      · exact newKeys_pos rest seen e he' hs
    · omega

theorem nkeys_pos {ts : List (Bytes × List Part)} (h : ts ≠ []) : nkeys ts > 0 := by
  cases ts with
  | nil => exact absurd rfl h
  | cons e rest => exact newKeys_pos _ [] e (by simp) (by simp)

theorem newKeys_distinct : ∀ (ts : List (Bytes × List Part)) (seen : List (List Part)), (ts.map (·.2)).Nodup →
    (∀ e ∈ ts, e.2 ∉ seen) → newKeys seen ts = ts.length
  | [], _, _, _ => rfl
  | e :: rest, seen, hnd, hs => by
    simp only [List.map_cons, List.nodup_cons] at hnd
    simp only [newKeys, hs e (by simp), ite_false, List.length_cons]
    rw [newKeys_distinct rest (e.2 :: seen) hnd.2]
    intro y hy hm
    rcases List.mem_cons.1 hm with h | h
    · exact hnd.1 (h ▸ List.mem_map.2 ⟨y, hy, rfl⟩)
    · exact hs y (by simp [hy]) h

theorem nkeys_distinct {ts : List (Bytes × List Part)} (hd : DistinctExps ts) : nkeys ts = ts.length :=
  newKeys_distinct ts [] hd (by intro e _ h; cases h)

/-- inserting expansions: one reference is dropped for every expansion whose key is there already -/
theorem insertShared_drops (t : Bytes) (d cell : Nat) : ∀ (ts : List (Bytes × List Part)) (root : Node) (drops : Nat) (seen : List (List Part)),
    Node.Shp root → (∀ e ∈ ts, wfParts e.2 = true) → (∀ e ∈ ts, ((Node.find root e.2).isSome = true ↔ e.2 ∈ seen)) →
    (insertShared t d cell ts root drops).2 + newKeys seen ts = drops + ts.length
  | [], _, _, _, _, _, _ => rfl
  | e :: rest, root, drops, seen, hS, hwf, hseen => by
    simp only [insertShared, List.length_cons]
    have hwe := hwf e (by simp)
    have hS' := (Node.insert_Shp root e.2 (sharedInfo t d cell e) hS hwe).1
    have hfi : ∀ y ∈ rest, Node.find (Node.insert root e.2 (sharedInfo t d cell e)) y.2 =
        if y.2 = e.2 then some (keepOld e.2 (Node.find root e.2) (sharedInfo t d cell e)) else Node.find root y.2 :=
      fun y hy => Node.find_insert' root e.2 y.2 _ (Node.SOK_of_Shp root hS) (wfParts_altOK _ hwe)
        (wfParts_altOK _ (hwf y (by simp [hy])))
    by_cases hdup : (Node.find root e.2).isSome = true
    · have hes : e.2 ∈ seen := (hseen e (by simp)).1 hdup
      simp only [hdup, ite_true, newKeys, hes]
      have := insertShared_drops t d cell rest _ (drops + 1) seen hS' (fun y hy => hwf y (by simp [hy])) (by
        intro y hy
        rw [hfi y hy]
        by_cases hye : y.2 = e.2
        · simp only [hye, ite_true, Option.isSome_some, true_iff]; exact hes
        · simp only [hye, ite_false]; exact hseen y (by simp [hy]))
      omega
    · have hes : e.2 ∉ seen := fun h => hdup ((hseen e (by simp)).2 h)
      simp only [hdup, Bool.false_eq_true, ite_false, newKeys, hes]
      have := insertShared_drops t d cell rest _ drops (e.2 :: seen) hS' (fun y hy => hwf y (by simp [hy])) (by
        intro y hy
        rw [hfi y hy]
        by_cases hye : y.2 = e.2
        · simp [hye]
        · simp only [hye, ite_false, List.mem_cons, false_or]; exact hseen y (by simp [hy]))
      omega

/-- inserting fresh expansions keeps one reference per different route -/
theorem insertShared_count (t : Bytes) (d cell : Nat) (ts : List (Bytes × List Part)) (root : Node)
    (hS : Node.Shp root) (hwf : ∀ e ∈ ts, wfParts e.2 = true) (hfresh : ∀ e ∈ ts, Node.find root e.2 = none) :
    ts.length - (insertShared t d cell ts root 0).2 = nkeys ts := by
  have := insertShared_drops t d cell ts root 0 [] hS hwf (by
    intro e he; rw [hfresh e he]; simp)
  unfold nkeys
  omega

/-- deleting all expansions of a template whose values share cell `k`, whose count is the number of its routes still
present: the last route hands the data back; expansions whose route is gone already are skipped -/
theorem deleteAll_shared (k d : Nat) : ∀ (ts : List (Bytes × List Part)) (root : Node) (rc : List (Nat × Nat)) (out : Option Nat)
    (gone : List (List Part)),
    Node.Shp root → (∀ e ∈ ts, wfParts e.2 = true) →
    (∀ e ∈ ts, e.2 ∈ gone → Node.find root e.2 = none) →
    (∀ e ∈ ts, e.2 ∉ gone → ∃ i, Node.find root e.2 = some i ∧ i.cell = some k ∧ i.data = d) →
    rcGet rc k = newKeys gone ts →
    (newKeys gone ts > 0 → (deleteAll ts root rc out).2.2 = some d) ∧
    (newKeys gone ts = 0 → (deleteAll ts root rc out).2.2 = out) ∧
    rcGet (deleteAll ts root rc out).2.1 k = 0 ∧
    ∀ k', k' ≠ k → rcGet (deleteAll ts root rc out).2.1 k' = rcGet rc k'
  | [], _, _, _, _, _, _, _, _, hrc => by
    simp only [deleteAll, newKeys] at hrc ⊢
    exact ⟨fun h => absurd h (by omega), fun _ => trivial, hrc, fun _ _ => trivial⟩
  | e :: rest, root, rc, out, gone, hS, hwf, hgone, hpres, hrc => by
    obtain ⟨raw, parts⟩ := e
    have hwe : wfParts parts = true := hwf (raw, parts) (by simp)
    have hdel := Node.find_delete root false parts
    have hS' : Node.Shp (Node.delete false root parts).1 := Node.delete_Shp root false parts hS hwe
    have hfd : ∀ y ∈ rest, Node.find (Node.delete false root parts).1 y.2 = if y.2 = parts then none else Node.find root y.2 :=
      fun y hy => (hdel y.2 hS hwe (hwf y (by simp [hy]))).1
    have hres : (Node.delete false root parts).2 = Node.find root parts := (hdel parts hS hwe hwe).2
    simp only [deleteAll]
    by_cases hg : parts ∈ gone
    · have hnone : Node.find root parts = none := hgone (raw, parts) (by simp) hg
      rw [hnone] at hres
      cases hd' : Node.delete false root parts with
      | mk root' res =>
        rw [hd'] at hres hS' hfd
        simp only at hres hS' hfd
        subst hres
        simp only [newKeys, hg, ite_true] at hrc ⊢
        exact deleteAll_shared k d rest root' rc out gone hS' (fun y hy => hwf y (by simp [hy]))
          (by
            intro y hy hyg
            rw [hfd y hy]
            split
            · rfl
            · exact hgone y (by simp [hy]) hyg)
          (by
            intro y hy hyg
            rw [hfd y hy]
            have : y.2 ≠ parts := fun h => hyg (h ▸ hg)
            rw [if_neg this]
            exact hpres y (by simp [hy]) hyg)
          hrc
    · obtain ⟨i, hfi, hci, hdi⟩ := hpres (raw, parts) (by simp) hg
      rw [hfi] at hres
      cases hd' : Node.delete false root parts with
      | mk root' res =>
        rw [hd'] at hres hS' hfd
        simp only at hres hS' hfd
        subst hres
        simp only [hci, newKeys, hg, ite_false] at hrc ⊢
        have hn : rcGet rc k - 1 = newKeys (parts :: gone) rest := by omega
        have ih := deleteAll_shared k d rest root' (rcSet rc k (rcGet rc k - 1))
          (if rcGet rc k - 1 = 0 then some i.data else out) (parts :: gone) hS' (fun y hy => hwf y (by simp [hy]))
          (by
            intro y hy hyg
            rw [hfd y hy]
            split
            · rfl
            · rename_i hne
              rcases List.mem_cons.1 hyg with h | h
              · exact absurd h hne
              · exact hgone y (by simp [hy]) h)
          (by
            intro y hy hyg
            simp only [List.mem_cons, not_or] at hyg
            rw [hfd y hy, if_neg hyg.1]
            exact hpres y (by simp [hy]) hyg.2)
          (by rw [rcGet_rcSet_same]; exact hn)
        refine ⟨fun _ => ?_, fun h => absurd h (by omega), ih.2.2.1, ?_⟩
        · by_cases hz : newKeys (parts :: gone) rest = 0
          · rw [ih.2.1 hz]
            have : rcGet rc k - 1 = 0 := by omega
            simp only [this, ite_true, hdi]
          · exact ih.1 (by omega)
        · intro k' hk'
          rw [ih.2.2.2 k' hk', rcGet_rcSet_other _ _ _ _ hk']

/-- a template without groups: its single stored value is inline -/
theorem deleteAll_inline (e : Bytes × List Part) (root : Node) (rc : List (Nat × Nat)) (out : Option Nat) (i : Info)
    (hS : Node.Shp root) (hwf : wfParts e.2 = true) (hf : Node.find root e.2 = some i) (hc : i.cell = none) :
    (deleteAll [e] root rc out).2.2 = some i.data ∧ (deleteAll [e] root rc out).2.1 = rc := by
  obtain ⟨raw, parts⟩ := e
  have hres : (Node.delete false root parts).2 = some i := by rw [(Node.find_delete root false parts parts hS hwf hwf).2]; exact hf
  simp only [deleteAll]
  cases hd' : Node.delete false root parts with
  | mk root' res =>
    rw [hd'] at hres
    simp only at hres
    subst hres
    simp only [hc, deleteAll, and_self]

/-! ### cells that may be shared by *some* of the routes of a template (clones: one cell per route) -/

/-- the cell of the value stored under a key -/
def cellAt (root : Node) (P : List Part) : Option Nat := (Node.find root P).bind (·.cell)

/-- the number of different part lists among `ts`, not in `seen`, whose stored value holds cell `k` -/
def cellKeys (root : Node) (k : Nat) : List (List Part) → List (Bytes × List Part) → Nat
  | _, [] => 0
  | seen, e :: rest =>
    if e.2 ∈ seen then cellKeys root k seen rest
    else cellKeys root k (e.2 :: seen) rest + (if cellAt root e.2 = some k then 1 else 0)

theorem cellKeys_le (root : Node) (k : Nat) : ∀ (ts : List (Bytes × List Part)) (seen : List (List Part)),
    cellKeys root k seen ts ≤ newKeys seen ts
  | [], _ => Nat.le_refl _
  | e :: rest, seen => by
    simp only [cellKeys, newKeys]
    split
    · exact cellKeys_le root k rest seen
    · have := cellKeys_le root k rest (e.2 :: seen)
      split <;> omega

theorem cellKeys_congr (root root' : Node) (k : Nat) : ∀ (ts : List (Bytes × List Part)) (seen : List (List Part)),
    (∀ e ∈ ts, e.2 ∉ seen → cellAt root e.2 = cellAt root' e.2) → cellKeys root k seen ts = cellKeys root' k seen ts
  | [], _, _ => rfl
  | e :: rest, seen, h => by
    simp only [cellKeys]
    split
    · exact cellKeys_congr root root' k rest seen (fun y hy => h y (by simp [hy]))
    · rename_i hs
      rw [h e (by simp) hs, cellKeys_congr root root' k rest (e.2 :: seen) (fun y hy hys => h y (by simp [hy]) (by
        intro hc; exact hys (by simp [hc])))]

theorem cellKeys_all (root : Node) (k : Nat) : ∀ (ts : List (Bytes × List Part)) (seen : List (List Part)),
    (∀ e ∈ ts, e.2 ∉ seen → cellAt root e.2 = some k) → cellKeys root k seen ts = newKeys seen ts
  | [], _, _ => rfl
  | e :: rest, seen, h => by
    simp only [cellKeys, newKeys]
    split
    · exact cellKeys_all root k rest seen (fun y hy => h y (by simp [hy]))
    · rename_i hs
      rw [h e (by simp) hs, cellKeys_all root k rest (e.2 :: seen) (fun y hy hys => h y (by simp [hy]) (by
        intro hc; exact hys (by simp [hc])))]
      simp

theorem cellKeys_zero (root : Node) (k : Nat) : ∀ (ts : List (Bytes × List Part)) (seen : List (List Part)),
    (∀ e ∈ ts, e.2 ∉ seen → cellAt root e.2 ≠ some k) → cellKeys root k seen ts = 0
  | [], _, _ => rfl
  | e :: rest, seen, h => by
    simp only [cellKeys]
    split
    · exact cellKeys_zero root k rest seen (fun y hy => h y (by simp [hy]))
    · rename_i hs
      rw [if_neg (h e (by simp) hs), cellKeys_zero root k rest (e.2 :: seen) (fun y hy hys => h y (by simp [hy]) (by
        intro hc; exact hys (by simp [hc])))]

theorem cellKeys_pos (root : Node) (k : Nat) : ∀ (ts : List (Bytes × List Part)) (seen : List (List Part)) (e : Bytes × List Part),
    e ∈ ts → e.2 ∉ seen → cellAt root e.2 = some k → cellKeys root k seen ts > 0
  | [], _, _, h, _, _ => by cases h
  | x :: rest, seen, e, he, hs, hc => by
    simp only [cellKeys]
    split
    · rename_i hx
      rcases List.mem_cons.1 he with rfl | he'
      · exact absurd hx hs
      · exact cellKeys_pos root k rest seen e he' hs hc
    · rename_i hx
      rcases List.mem_cons.1 he with rfl | he'
      · rw [if_pos hc]; omega
      · by_cases hex : e.2 = x.2
        · rw [← hex, if_pos hc]; omega
        · have := cellKeys_pos root k rest (x.2 :: seen) e he' (by
            intro hm; rcases List.mem_cons.1 hm with h | h
            · exact hex h
            · exact hs h) hc
          omega

/-- if only one key can hold cell `k`, at most one does -/
theorem cellKeys_le_one (root : Node) (k : Nat) (P0 : List Part) : ∀ (ts : List (Bytes × List Part)) (seen : List (List Part)),
    (∀ e ∈ ts, e.2 ∉ seen → cellAt root e.2 = some k → e.2 = P0) → cellKeys root k seen ts ≤ 1
  | [], _, _ => by simp [cellKeys]
  | e :: rest, seen, h => by
    simp only [cellKeys]
    split
    · exact cellKeys_le_one root k P0 rest seen (fun y hy => h y (by simp [hy]))
    · rename_i hs
      by_cases hc : cellAt root e.2 = some k
      · have he0 := h e (by simp) hs hc
        rw [if_pos hc, cellKeys_zero root k rest (e.2 :: seen) (by
          intro y hy hys hcy
          have := h y (by simp [hy]) (by intro hm; exact hys (by simp [hm])) hcy
          exact hys (by simp [this, he0]))]
        omega
      · rw [if_neg hc]
        have := cellKeys_le_one root k P0 rest (e.2 :: seen) (fun y hy hys => h y (by simp [hy]) (by
          intro hm; exact hys (by simp [hm])))
        omega

theorem cellAt_of_find {root : Node} {P : List Part} {i : Info} (h : Node.find root P = some i) : cellAt root P = i.cell := by
  simp [cellAt, h]

/-- deleting all expansions of a template whose stored values hold cells with exact counts (`rcGet rc k` = number of
the template's routes still present whose value holds `k`): the last route hands the data back -/
theorem deleteAll_cells (d : Nat) : ∀ (ts : List (Bytes × List Part)) (root : Node) (rc : List (Nat × Nat)) (out : Option Nat)
    (gone : List (List Part)),
    Node.Shp root → (∀ e ∈ ts, wfParts e.2 = true) →
    (∀ e ∈ ts, e.2 ∈ gone → Node.find root e.2 = none) →
    (∀ e ∈ ts, e.2 ∉ gone → ∃ i k, Node.find root e.2 = some i ∧ i.cell = some k ∧ i.data = d ∧
      rcGet rc k = cellKeys root k gone ts) →
    (newKeys gone ts > 0 → (deleteAll ts root rc out).2.2 = some d) ∧
    (newKeys gone ts = 0 → (deleteAll ts root rc out).2.2 = out) ∧
    ∀ k', (∀ e ∈ ts, e.2 ∉ gone → cellAt root e.2 ≠ some k') → rcGet (deleteAll ts root rc out).2.1 k' = rcGet rc k'
  | [], _, _, _, _, _, _, _, _ => by
    simp only [deleteAll, newKeys]
    exact ⟨fun h => absurd h (by omega), fun _ => trivial, fun _ _ => trivial⟩
  | e :: rest, root, rc, out, gone, hS, hwf, hgone, hpres => by
    obtain ⟨raw, parts⟩ := e
    have hwe : wfParts parts = true := hwf (raw, parts) (by simp)
    have hdel := Node.find_delete root false parts
    have hS' : Node.Shp (Node.delete false root parts).1 := Node.delete_Shp root false parts hS hwe
    have hfd : ∀ y ∈ rest, Node.find (Node.delete false root parts).1 y.2 = if y.2 = parts then none else Node.find root y.2 :=
      fun y hy => (hdel y.2 hS hwe (hwf y (by simp [hy]))).1
    have hres : (Node.delete false root parts).2 = Node.find root parts := (hdel parts hS hwe hwe).2
    simp only [deleteAll]
    by_cases hg : parts ∈ gone
    · have hnone : Node.find root parts = none := hgone (raw, parts) (by simp) hg
      rw [hnone] at hres
      cases hd' : Node.delete false root parts with
      | mk root' res =>
        rw [hd'] at hres hS' hfd
        simp only at hres hS' hfd
        subst hres
        have hca : ∀ y ∈ rest, y.2 ∉ gone → cellAt root y.2 = cellAt root' y.2 := by
          intro y hy hyg
          have : y.2 ≠ parts := fun h => hyg (h ▸ hg)
          simp only [cellAt, hfd y hy, if_neg this]
        simp only [newKeys, hg, ite_true]
        have ih := deleteAll_cells d rest root' rc out gone hS' (fun y hy => hwf y (by simp [hy]))
          (by
            intro y hy hyg
            rw [hfd y hy]
            split
            · rfl
            · exact hgone y (by simp [hy]) hyg)
          (by
            intro y hy hyg
            obtain ⟨i, k, hf, hc, hdi, hrc⟩ := hpres y (by simp [hy]) hyg
            have : y.2 ≠ parts := fun h => hyg (h ▸ hg)
            refine ⟨i, k, by rw [hfd y hy, if_neg this]; exact hf, hc, hdi, ?_⟩
            rw [hrc]
            simp only [cellKeys, hg, ite_true]
            exact cellKeys_congr root root' k rest gone hca)
        refine ⟨ih.1, ih.2.1, ?_⟩
        intro k' hk'
        apply ih.2.2 k'
        intro y hy hyg
        rw [← hca y hy hyg]
        exact hk' y (by simp [hy]) hyg
    · obtain ⟨i, k, hfi, hci, hdi, hrck⟩ := hpres (raw, parts) (by simp) hg
      rw [hfi] at hres
      cases hd' : Node.delete false root parts with
      | mk root' res =>
        rw [hd'] at hres hS' hfd
        simp only at hres hS' hfd
        subst hres
        have hcp : cellAt root parts = some k := by rw [cellAt_of_find hfi, hci]
        have hca : ∀ y ∈ rest, y.2 ∉ parts :: gone → cellAt root y.2 = cellAt root' y.2 := by
          intro y hy hyg
          have : y.2 ≠ parts := fun h => hyg (by simp [h])
          simp only [cellAt, hfd y hy, if_neg this]
        simp only [hci, newKeys, hg, ite_false]
        simp only [cellKeys, hg, ite_false, hcp, ite_true] at hrck
        have hn : rcGet rc k - 1 = cellKeys root k (parts :: gone) rest := by omega
        have ih := deleteAll_cells d rest root' (rcSet rc k (rcGet rc k - 1))
          (if rcGet rc k - 1 = 0 then some i.data else out) (parts :: gone) hS' (fun y hy => hwf y (by simp [hy]))
          (by
            intro y hy hyg
            rw [hfd y hy]
            split
            · rfl
            · rename_i hne
              rcases List.mem_cons.1 hyg with h | h
              · exact absurd h hne
              · exact hgone y (by simp [hy]) h)
          (by
            intro y hy hyg
            have hyg' : y.2 ∉ gone := fun h => hyg (by simp [h])
            have hne : y.2 ≠ parts := fun h => hyg (by simp [h])
            obtain ⟨i', k', hf', hc', hdi', hrc'⟩ := hpres y (by simp [hy]) hyg'
            refine ⟨i', k', by rw [hfd y hy, if_neg hne]; exact hf', hc', hdi', ?_⟩
            simp only [cellKeys, hg, ite_false, hcp] at hrc'
            rw [← cellKeys_congr root root' k' rest (parts :: gone) hca]
            by_cases hkk : k' = k
            · subst hkk
              rw [rcGet_rcSet_same]; exact hn
            · rw [rcGet_rcSet_other _ _ _ _ hkk, hrc']
              have : (some k = some k') = False := by simp; exact fun h => hkk h.symm
              simp [this])
        refine ⟨fun _ => ?_, fun h => absurd h (by omega), ?_⟩
        · by_cases hz : newKeys (parts :: gone) rest = 0
          · rw [ih.2.1 hz]
            have hle := cellKeys_le root k rest (parts :: gone)
            have : rcGet rc k - 1 = 0 := by omega
            simp only [this, ite_true, hdi]
          · exact ih.1 (by omega)
        · intro k' hk'
          have hkk : k' ≠ k := by
            intro h; subst h
            exact hk' (raw, parts) (by simp) hg hcp
          rw [ih.2.2 k' (by
            intro y hy hyg
            rw [← hca y hy hyg]
            exact hk' y (by simp [hy]) (fun h => hyg (by simp [h]))), rcGet_rcSet_other _ _ _ _ hkk]
