import Wayfind.Proofs.Registry5

/-! reference counts of shared values: what `delete` hands back -/

theorem find?_filter_ne (c c' : Nat) (h : c' ≠ c) : ∀ (rc : List (Nat × Nat)),
    (rc.filter (fun x => x.1 != c)).find? (fun x => x.1 == c') = rc.find? (fun x => x.1 == c')
  | [] => rfl
  | x :: xs => by
    simp only [List.filter_cons]
    by_cases hx : x.1 = c
    · have h1 : (x.1 != c) = false := by simp [hx]
      have h2 : (x.1 == c') = false := by simp [hx]; exact fun h' => h h'.symm
      simp only [h1, List.find?_cons, h2]
      exact find?_filter_ne c c' h xs
    · have h1 : (x.1 != c) = true := by simp [hx]
      simp only [h1, ite_true, List.find?_cons]
      split
      · rfl
      · exact find?_filter_ne c c' h xs

theorem rcGet_rcSet_same (rc : List (Nat × Nat)) (c n : Nat) : rcGet (rcSet rc c n) c = n := by
  simp [rcGet, rcSet]

theorem rcGet_rcSet_other (rc : List (Nat × Nat)) (c c' n : Nat) (h : c' ≠ c) : rcGet (rcSet rc c n) c' = rcGet rc c' := by
  have hc : (c == c') = false := by simp; exact fun h' => h h'.symm
  simp only [rcGet, rcSet, List.find?_cons, hc]
  rw [find?_filter_ne c c' h]

/-- inserting fresh, pairwise different expansions drops no reference -/
theorem insertShared_no_drops (t : Bytes) (d cell : Nat) : ∀ (ts : List (Bytes × List Part)) (root : Node) (drops : Nat),
    Node.Shp root → (∀ e ∈ ts, wfParts e.2 = true) → (ts.map (·.2)).Nodup → (∀ e ∈ ts, Node.find root e.2 = none) →
    (insertShared t d cell ts root drops).2 = drops
  | [], _, _, _, _, _, _ => rfl
  | e :: rest, root, drops, hS, hwf, hnd, hfresh => by
    simp only [insertShared]
    have he := hfresh e (by simp)
    simp only [he, Option.isSome_none, Bool.false_eq_true, ite_false]
    simp only [List.map_cons, List.nodup_cons] at hnd
    have hwe := hwf e (by simp)
    apply insertShared_no_drops t d cell rest _ drops (Node.insert_Shp root e.2 _ hS hwe).1
      (fun y hy => hwf y (by simp [hy])) hnd.2
    intro y hy
    rw [Node.find_insert root e.2 y.2 _ (Node.SOK_of_Shp root hS) (wfParts_altOK _ hwe) (wfParts_altOK _ (hwf y (by simp [hy]))) he]
    have : y.2 ≠ e.2 := by intro h; exact hnd.1 (h ▸ List.mem_map.2 ⟨y, hy, rfl⟩)
    rw [if_neg this]; exact hfresh y (by simp [hy])

/-- deleting all expansions of a template whose values share cell `k` with count `|ts|`: the last one hands the data back -/
theorem deleteAll_shared (k d : Nat) : ∀ (ts : List (Bytes × List Part)) (root : Node) (rc : List (Nat × Nat)) (out : Option Nat),
    Node.Shp root → (∀ e ∈ ts, wfParts e.2 = true) → (ts.map (·.2)).Nodup →
    (∀ e ∈ ts, ∃ i, Node.find root e.2 = some i ∧ i.cell = some k ∧ i.data = d) → rcGet rc k = ts.length → ts ≠ [] →
    (deleteAll ts root rc out).2.2 = some d ∧ rcGet (deleteAll ts root rc out).2.1 k = 0 ∧
    ∀ k', k' ≠ k → rcGet (deleteAll ts root rc out).2.1 k' = rcGet rc k'
  | [], _, _, _, _, _, _, _, _, hne => absurd rfl hne
  | e :: rest, root, rc, out, hS, hwf, hnd, hpres, hrc, _ => by
    obtain ⟨raw, parts⟩ := e
    obtain ⟨i, hfi, hci, hdi⟩ := hpres (raw, parts) (by simp)
    have hwe : wfParts parts = true := hwf (raw, parts) (by simp)
    have hdel := Node.find_delete root false parts
    simp only [deleteAll]
    have hres : (Node.delete false root parts).2 = some i := by rw [(hdel parts hS hwe hwe).2]; exact hfi
    cases hd' : Node.delete false root parts with
    | mk root' res =>
      rw [hd'] at hres
      simp only at hres
      subst hres
      simp only [hci]
      simp only [List.map_cons, List.nodup_cons] at hnd
      have hS' : Node.Shp root' := by have := Node.delete_Shp root false parts hS hwe; rw [hd'] at this; exact this
      have hrcn : rcGet rc k - 1 = rest.length := by rw [hrc]; simp
      cases rest with
      | nil =>
        simp only [List.length_nil] at hrcn
        simp only [deleteAll, hrcn, ite_true]
        exact ⟨by rw [hdi], rcGet_rcSet_same _ _ _, fun k' hk' => rcGet_rcSet_other _ _ _ _ hk'⟩
      | cons e2 rest2 =>
        have hpres' : ∀ y ∈ e2 :: rest2, ∃ j, Node.find root' y.2 = some j ∧ j.cell = some k ∧ j.data = d := by
          intro y hy
          obtain ⟨j, hj, hcj, hdj⟩ := hpres y (by simp [hy])
          refine ⟨j, ?_, hcj, hdj⟩
          have hwy := hwf y (by simp [hy])
          have := (hdel y.2 hS hwe hwy).1
          rw [hd'] at this
          simp only at this
          rw [this]
          have hne : y.2 ≠ parts := by intro h; exact hnd.1 (h ▸ List.mem_map.2 ⟨y, hy, rfl⟩)
          rw [if_neg hne]; exact hj
        have ih := deleteAll_shared k d (e2 :: rest2) root' (rcSet rc k (rcGet rc k - 1))
          (if rcGet rc k - 1 = 0 then some i.data else out) hS' (fun y hy => hwf y (by simp [hy])) hnd.2 hpres'
          (by rw [rcGet_rcSet_same]; exact hrcn) (by simp)
        refine ⟨ih.1, ih.2.1, ?_⟩
        intro k' hk'
        rw [ih.2.2 k' hk', rcGet_rcSet_other _ _ _ _ hk']

/-- a template without groups: its single stored value is inline -/
theorem deleteAll_inline (e : Bytes × List Part) (root : Node) (rc : List (Nat × Nat)) (out : Option Nat) (i : Info)
    (hS : Node.Shp root) (hwf : wfParts e.2 = true) (hf : Node.find root e.2 = some i) (hc : i.cell = none) :
    (deleteAll [e] root rc out).2.2 = some i.data ∧ (deleteAll [e] root rc out).2.1 = rc := by
  obtain ⟨raw, parts⟩ := e
  have hres : (Node.delete false root parts).2 = some i := by rw [(Node.find_delete root false parts parts hS hwf hwf).2]; exact hf
  simp only [deleteAll]
  cases hd' : Node.delete false root parts with
  | mk root' res =>
    rw [hd'] at hres
    simp only at hres
    subst hres
    simp only [hc, deleteAll, and_self]
