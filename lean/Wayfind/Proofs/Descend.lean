import Wayfind.Proofs.Shape

/-- the part list that continues below a static child whose label is a prefix of `p` -/
def below (p : Bytes) (n : Nat) (rest : List Part) : List Part :=
  if p.length ≤ n then rest else .stat (p.drop n) :: rest

theorem below_inj {p q : Bytes} {lp : Bytes} {t u : Bytes} {rest qrest : List Part}
    (hp : p = lp ++ t) (hq : q = lp ++ u)
    (h1 : altOK (.stat p :: rest) = true) (h2 : altOK (.stat q :: qrest) = true) :
    (below q lp.length qrest = below p lp.length rest) ↔ (q = p ∧ qrest = rest) := by
  subst hp hq
  simp only [below, List.length_append, List.drop_left']
  by_cases ht : t = [] <;> by_cases hu : u = []
  · subst ht hu; simp
  · subst ht
    have : ¬ (lp.length + u.length ≤ lp.length) := by
      have : 0 < u.length := List.length_pos_iff.mpr hu
      omega
    simp only [List.length_nil, Nat.add_zero, Nat.le_refl, ite_true, this, ite_false, List.append_nil]
    constructor
    · intro h; subst h; exact absurd h1 (by simp [altOK])
    · intro h; exact absurd h.1 (by simpa using hu)
  · subst hu
    have : ¬ (lp.length + t.length ≤ lp.length) := by
      have : 0 < t.length := List.length_pos_iff.mpr ht
      omega
    simp only [List.length_nil, Nat.add_zero, Nat.le_refl, ite_true, this, ite_false, List.append_nil]
    constructor
    · intro h; subst h; exact absurd h2 (by simp [altOK])
    · intro h; exact absurd h.1.symm (by simpa using ht)
  · have h3 : ¬ (lp.length + t.length ≤ lp.length) := by
      have : 0 < t.length := List.length_pos_iff.mpr ht
      omega
    have h4 : ¬ (lp.length + u.length ≤ lp.length) := by
      have : 0 < u.length := List.length_pos_iff.mpr hu
      omega
    simp [h3, h4]

theorem altOK_below {p : Bytes} {n : Nat} {rest : List Part} (h : altOK (.stat p :: rest) = true) :
    altOK (below p n rest) = true := by
  unfold below; split
  · exact altOK_tail h
  · exact altOK_drop h (by omega)

/-- Lemma D: descending through a static child whose label is a prefix of the inserted literal. -/
theorem findStatic_descend (l : Label) (m m' : Node) (r : Kids) (p : Bytes) (rest : List Part) (i : Info)
    (hl : l.pre ≠ []) (t : Bytes) (hp : p = l.pre ++ t)
    (hP : altOK (.stat p :: rest) = true)
    (H : ∀ Q', altOK Q' = true → Node.find m' Q' = if Q' = below p l.pre.length rest then some i else Node.find m Q')
    (q : Bytes) (qrest : List Part) (hQ : altOK (.stat q :: qrest) = true) :
    Kids.findStatic (.cons l m' r) q qrest =
      if q = p ∧ qrest = rest then some i else Kids.findStatic (.cons l m r) q qrest := by
  simp only [Kids.findStatic]
  by_cases hh : l.pre.head? = q.head?
  · simp only [hh, ite_true]
    by_cases hc : l.pre.length ≤ commonLen q l.pre
    · simp only [hc, ite_true]
      obtain ⟨u, hu⟩ := (commonLen_ge_iff q l.pre).1 hc
      have hcl : commonLen q l.pre = l.pre.length := by rw [hu, commonLen_append_left]
      have key := below_inj (lp := l.pre) hp hu hP hQ
      have hb : (if q.length ≤ commonLen q l.pre then Node.find m' qrest else Node.find m' (.stat (q.drop (commonLen q l.pre)) :: qrest))
              = Node.find m' (below q l.pre.length qrest) := by
        rw [hcl]; unfold below; split <;> rfl
      have hb' : (if q.length ≤ commonLen q l.pre then Node.find m qrest else Node.find m (.stat (q.drop (commonLen q l.pre)) :: qrest))
              = Node.find m (below q l.pre.length qrest) := by
        rw [hcl]; unfold below; split <;> rfl
      rw [hb, hb', H _ (altOK_below hQ)]
      by_cases hk : below q l.pre.length qrest = below p l.pre.length rest
      · simp [hk, key.1 hk]
      · have : ¬ (q = p ∧ qrest = rest) := fun h => hk (key.2 h)
        simp [hk, this]
    · simp only [hc, ite_false]
      have : ¬ (q = p ∧ qrest = rest) := by
        intro h; apply hc; rw [h.1, hp, commonLen_append_left]; exact Nat.le_refl _
      simp [this]
  · simp only [hh, ite_false]
    have : ¬ (q = p ∧ qrest = rest) := by
      intro h; apply hh; rw [h.1, hp]
      cases hl' : l.pre with
      | nil => exact absurd hl' hl
      | cons a b => simp
    simp [this]
