import Wayfind.Proofs.Registry5

/-! C06 and C08 on live templates -/

/-- **C06, insert.** A successful insert changes the result only for paths the new template fits. -/
theorem insert_local (env : Env) {r r' : Router} {L : List LiveT} (h : Live r L) {t : Bytes} {d : Nat}
    (hi : r.insert t d = .ok r') (ts : List (Bytes × List Part)) (hp : parseTemplates t = .ok ts)
    (path : Bytes) (hnofit : ¬ ∃ e ∈ ts, ∃ vs, Fits env e.2 path vs) :
    r'.search env path = r.search env path := by
  have hreg := h.reg
  obtain ⟨ts', hp', _, hc, rfl⟩ := (Router.insert_ok_iff r r' t d).1 hi
  rw [hp] at hp'; injection hp' with hp'; subst hp'
  obtain ⟨hS', hfind⟩ := insertOk_find (d := d) hreg.shp hp hc
  have hreach' : Reachable (r.insertOk t d ts) := by
    obtain ⟨b, calls, rfl⟩ := h.reachable
    exact ⟨b, calls ++ [.insert t d], by simp [List.foldl_append, Router.step, hi]⟩
  have hg := reachable_good3 r h.reachable
  have hg' := reachable_good3 _ hreach'
  unfold Router.search
  congr 1
  symm
  apply search_irrelevant env r.root (r.insertOk t d ts).root hg hg' path
  · -- old routes are still there
    rintro P i ⟨rt, hr, hn, hinfo⟩
    obtain ⟨hwf, hf⟩ := route_find hreg.shp rt hr
    rw [hn, hinfo] at hf
    rw [hn] at hwf
    have : Node.find (r.insertOk t d ts).root P = some i := by
      rw [hfind P hwf]
      have : lookupIns (ts.map (fun e => (e.2, insInfo t d r.next ts e))) P = none := by
        apply lookupIns_none_of_not_mem
        intro hmem
        obtain ⟨x, hx, hxe⟩ := List.mem_map.1 hmem
        obtain ⟨e, he, rfl⟩ := List.mem_map.1 hx
        have := conflictsOf_nil hc e he
        simp only at hxe
        rw [hxe, hf] at this; cases this
      rw [this]; exact hf
    exact (Node.find_iff _ P i hS' hwf).1 this
  · -- every additional route is an expansion of the new template, which does not fit
    rintro P i ⟨rt, hr, hn, hinfo⟩
    obtain ⟨hwf, hf⟩ := route_find hS' rt hr
    rw [hn, hinfo] at hf
    rw [hn] at hwf
    rw [hfind P hwf] at hf
    cases hl : lookupIns (ts.map (fun e => (e.2, insInfo t d r.next ts e))) P with
    | none =>
      rw [hl] at hf
      exact Or.inl ((Node.find_iff r.root P i hreg.shp hwf).1 hf)
    | some j =>
      obtain ⟨e, hpk, _⟩ := lookupIns_some_key hl
      obtain ⟨he, hk⟩ := pick_mem hpk
      refine Or.inr ?_
      rintro ⟨vs, hfit⟩
      exact hnofit ⟨e, he, vs, by rw [hk]; exact hfit⟩

/-- after a successful insert every path the new template fits is matched (C06, second half; C08, "becomes routable") -/
theorem insert_routes (env : Env) {r r' : Router} {L : List LiveT} (h : Live r L) {t : Bytes} {d : Nat}
    (hi : r.insert t d = .ok r') (ts : List (Bytes × List Part)) (hp : parseTemplates t = .ok ts)
    (path : Bytes) (hfit : ∃ e ∈ ts, ∃ vs, Fits env e.2 path vs) :
    (r'.search env path).isSome = true := by
  obtain ⟨b, calls, he⟩ := h
  have hlive' : Live r' (L ++ [⟨t, d, ts⟩]) := by
    refine ⟨b, calls ++ [.insert t d], ?_⟩
    · have key : ∀ (cs : List Call) (r0 : Router) (L0 : List LiveT) (c : Call),
          runLive r0 L0 (cs ++ [c]) = ((runLive r0 L0 cs).1.step c, liveAfter (runLive r0 L0 cs).1 (runLive r0 L0 cs).2 c) := by
        intro cs
        induction cs with
        | nil => intro r0 L0 c; rfl
        | cons x xs ih => intro r0 L0 c; simp only [List.cons_append, runLive]; exact ih _ _ c
      rw [key, ← he]
      simp only [Router.step, liveAfter, hi, hp]
  obtain ⟨e, hem, vs, hf⟩ := hfit
  exact search_complete env hlive' path ⟨⟨t, d, ts⟩, by simp, e, hem, vs, hf⟩

/-- **C08.** `insert` refuses exactly the structural duplicates, naming every colliding live template. -/
theorem insert_conflict_iff_live {r : Router} {L : List LiveT} (h : Live r L) (t : Bytes) (d : Nat)
    (ts : List (Bytes × List Part)) (hp : parseTemplates t = .ok ts)
    (hknown : firstUnknown (fun c => r.registry.any (·.1 == c)) ts = none) :
    ((∃ cs, r.insert t d = .error (.conflict t cs)) ↔ ∃ lt ∈ L, ∃ e ∈ lt.exps, ∃ e' ∈ ts, e.2 = e'.2) ∧
    (∀ cs, r.insert t d = .error (.conflict t cs) →
      ∀ y, y ∈ cs ↔ ∃ lt ∈ L, lt.template = y ∧ ∃ e ∈ lt.exps, ∃ e' ∈ ts, e.2 = e'.2) := by
  have hreg := h.reg
  have hwf := parse_wf hp
  have hceq := hreg.conflictsOf_eq ts hwf
  have hmem : ∀ y, y ∈ conflictsOf r.root ts ↔ ∃ lt ∈ L, lt.template = y ∧ ∃ e ∈ lt.exps, ∃ e' ∈ ts, e.2 = e'.2 := by
    intro y
    rw [hceq]
    simp only [List.mem_filterMap, Option.map_eq_some_iff]
    constructor
    · rintro ⟨e', he', lt, ho, rfl⟩
      obtain ⟨hlt, e, he, hk⟩ := ownerOf_some ho
      exact ⟨lt, hlt, rfl, e, he, e', he', hk⟩
    · rintro ⟨lt, hlt, rfl, e, he, e', he', hk⟩
      cases ho : ownerOf L e'.2 with
      | none => exact absurd hk (ownerOf_none ho lt hlt e he)
      | some lt' =>
        refine ⟨e', he', lt', ho, ?_⟩
        -- both own the same key: the stored value names one template
        obtain ⟨hlt', e2, he2, hk2⟩ := ownerOf_some ho
        obtain ⟨i, hf, hok⟩ := hreg.complete lt hlt e he
        obtain ⟨i', hf', hok'⟩ := hreg.complete lt' hlt' e2 he2
        rw [hk] at hf; rw [hk2] at hf'
        rw [hf] at hf'; injection hf' with hf'; subst hf'
        rw [← hok'.1, hok.1]
  constructor
  · constructor
    · rintro ⟨cs, hc⟩
      obtain ⟨ts', hp', _, hne, _, _⟩ := (Router.insert_conflict_iff r t d t cs).1 hc
      rw [hp] at hp'; injection hp' with hp'; subst hp'
      cases hcl : conflictsOf r.root ts with
      | nil => exact absurd hcl hne
      | cons y ys =>
        obtain ⟨lt, hlt, _, e, he, e', he', hk⟩ := (hmem y).1 (by rw [hcl]; simp)
        exact ⟨lt, hlt, e, he, e', he', hk⟩
    · rintro ⟨lt, hlt, e, he, e', he', hk⟩
      have : lt.template ∈ conflictsOf r.root ts := (hmem _).2 ⟨lt, hlt, rfl, e, he, e', he', hk⟩
      refine ⟨dedupAdj (sortBytes (conflictsOf r.root ts)), (Router.insert_conflict_iff r t d t _).2 ⟨ts, hp, hknown, ?_, rfl, rfl⟩⟩
      intro hnil; rw [hnil] at this; cases this
  · intro cs hc y
    obtain ⟨ts', hp', _, _, _, hcs⟩ := (Router.insert_conflict_iff r t d t cs).1 hc
    rw [hp] at hp'; injection hp' with hp'; subst hp'
    rw [hcs, mem_conflict_list, hmem]
