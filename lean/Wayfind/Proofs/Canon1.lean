import Wayfind.Proofs.Reach

/-! Canonical form, part 1: **maximal compression**. No literal child is a data-less node whose only child is one
literal node (`is_compressible` of `delete.rs` is false for every literal child, hereditarily). Holds after every
`Node.insert` and every `Node.delete`, with or without `optimize`. -/

mutual
def Node.Cmp : Node → Prop
  | .mk _ s dc d wc w _ _ _ _ _ =>
    Kids.All (fun _ n => n.compress? = none) s ∧ Kids.Cmpk s ∧ Kids.Cmpk dc ∧ Kids.Cmpk d ∧ Kids.Cmpk wc ∧ Kids.Cmpk w
def Kids.Cmpk : Kids → Prop
  | .nil => True
  | .cons _ n r => Node.Cmp n ∧ Kids.Cmpk r
end

theorem Kids.Cmpk_app : ∀ (a b : Kids), Kids.Cmpk (Kids.app a b) ↔ Kids.Cmpk a ∧ Kids.Cmpk b
  | .nil, b => by simp [Kids.app, Kids.Cmpk]
  | .cons l n r, b => by simp [Kids.app, Kids.Cmpk, Kids.Cmpk_app r b, and_assoc]

theorem Cmpk_cons_iff (l : Label) (n : Node) (r : Kids) : Kids.Cmpk (.cons l n r) ↔ Node.Cmp n ∧ Kids.Cmpk r := by
  simp [Kids.Cmpk]

/-- after literal text comes a parameter or the end -/
def startsParOrEnd : List Part → Prop
  | [] => True
  | .par _ _ :: _ => True
  | .stat _ :: _ => False

theorem altOK_after_stat {p : Bytes} {P : List Part} (h : altOK (.stat p :: P) = true) : startsParOrEnd P := by
  cases P with
  | nil => trivial
  | cons q P => cases q with
    | par _ _ => trivial
    | stat _ => simp [altOK] at h

theorem compress_leaf (i : Info) : (Node.leaf i).compress? = none := by simp [Node.leaf, Node.compress?]

theorem chain_compress_none : ∀ (P : List Part) (i : Info), startsParOrEnd P → (chain P i).compress? = none
  | [], i, _ => by simp [chain, compress_leaf]
  | .par k l :: rest, i, _ => by
    simp only [chain]
    split <;> simp [Node.compress?, Kids.isNil]
  | .stat _ :: _, _, h => by simp [startsParOrEnd] at h

theorem chain_Cmp : ∀ (P : List Part) (i : Info), altOK P = true → Node.Cmp (chain P i)
  | [], i, _ => by simp [chain, Node.leaf, Node.Cmp, Kids.All, Kids.Cmpk]
  | .stat p :: rest, i, h => by
    have ih := chain_Cmp rest i (altOK_tail h)
    have hc := chain_compress_none rest i (altOK_after_stat h)
    simp only [chain, Node.Cmp, Kids.All, Kids.Cmpk]
    exact ⟨⟨hc, trivial⟩, ⟨ih, trivial⟩, trivial, trivial, trivial, trivial⟩
  | .par k l :: rest, i, h => by
    have ih := chain_Cmp rest i (altOK_tail h)
    simp only [chain]
    split <;> simp [Node.Cmp, Kids.All, Kids.Cmpk, ih]

theorem splitParent_Cmp (la : Label) (n : Node) (hc : n.compress? = none) (h : Node.Cmp n) :
    Node.Cmp (splitParent la n) := by
  simp only [splitParent, Node.Cmp, Kids.All, Kids.Cmpk]
  exact ⟨⟨hc, trivial⟩, ⟨h, trivial⟩, trivial, trivial, trivial, trivial⟩

/-! ### `compress?` of a node after an insert -/

def Kids.len2 : Kids → Bool
  | .cons _ _ (.cons _ _ _) => true
  | _ => false

theorem single_none_of_len2 : ∀ (s : Kids), s.len2 = true → s.single = none
  | .nil, h => by simp [Kids.len2] at h
  | .cons _ _ .nil, h => by simp [Kids.len2] at h
  | .cons _ _ (.cons _ _ _), _ => rfl

theorem len2_of_not_single : ∀ (s : Kids), s.single = none → s.isNil = false → s.len2 = true
  | .nil, _, h => by simp [Kids.isNil] at h
  | .cons _ _ .nil, h, _ => by simp [Kids.single] at h
  | .cons _ _ (.cons _ _ _), _, _ => rfl

theorem len2_insertStatic : ∀ (s : Kids) (p : Bytes) (rest : List Part) (i : Info), s.len2 = true →
    (Kids.insertStatic s p rest i).len2 = true
  | .nil, _, _, _, h => by simp [Kids.len2] at h
  | .cons _ _ .nil, _, _, _, h => by simp [Kids.len2] at h
  | .cons l n (.cons l2 n2 r), p, rest, i, _ => by
    simp only [Kids.insertStatic]
    split
    · split
      · split <;> rfl
      · split
        · split
          · rfl
          · split <;> rfl
          · rfl
        · rfl
    · split
      · split
        · split <;> rfl
        · split
          · split
            · rfl
            · split <;> rfl
            · rfl
          · rfl
      · cases r <;> simp [Kids.insertStatic, Kids.len2]

theorem isNil_insertStatic (s : Kids) (p : Bytes) (rest : List Part) (i : Info) :
    (Kids.insertStatic s p rest i).isNil = false := by
  cases s with
  | nil => simp [Kids.insertStatic, Kids.isNil]
  | cons l n r =>
    simp only [Kids.insertStatic]
    split
    · split
      · split <;> rfl
      · split
        · split
          · rfl
          · split <;> rfl
          · rfl
        · rfl
    · rfl

theorem isNil_insertPar (s : Kids) (l : Label) (rest : List Part) (i : Info) : (Kids.insertPar s l rest i).isNil = false := by
  cases s with
  | nil => simp [Kids.insertPar, Kids.isNil]
  | cons l' n r => simp only [Kids.insertPar]; split <;> rfl

theorem isNil_insertEnd (s : Kids) (l : Label) (i : Info) : (Kids.insertEnd s l i).isNil = false := by
  cases s with
  | nil => simp [Kids.insertEnd, Kids.isNil]
  | cons l' n r => simp only [Kids.insertEnd]; split <;> rfl

/-- a non-empty node that is not compressible stays so after any insert -/
theorem compress_insert_none : ∀ (n : Node) (P : List Part) (i : Info), n.compress? = none → n.isEmptyN = false →
    (Node.insert n P i).compress? = none
  | .mk x s dc d wc w ec e ds ws dirty, [], i, _, _ => by simp [Node.insert, Node.compress?]
  | .mk x s dc d wc w ec e ds ws dirty, .stat p :: rest, i, hc, hne => by
    simp only [Node.insert, Node.compress?]
    split
    · rename_i hall
      apply single_none_of_len2
      apply len2_insertStatic
      apply len2_of_not_single
      · simpa [Node.compress?, hall] using hc
      · simp only [Bool.and_eq_true] at hall
        simp only [Node.isEmptyN, hall.1.1.1.1.1.1, hall.1.1.1.1.1.2, hall.1.1.1.1.2, hall.1.1.1.2, hall.1.1.2, hall.1.2, hall.2,
          Bool.and_true, Bool.true_and] at hne
        exact hne
    · rfl
  | .mk x s dc d wc w ec e ds ws dirty, .par k l :: rest, i, _, _ => by
    simp only [Node.insert]
    split <;> simp [Node.compress?, isNil_insertPar, isNil_insertEnd]

/-- inserting a key that does not continue with the single literal child's first byte -/
theorem compress_insert_splitParent (la : Label) (n : Node) (K : List Part) (i : Info)
    (hK : notStatHead la.pre.head? K) : (Node.insert (splitParent la n) K i).compress? = none := by
  cases K with
  | nil => simp [splitParent, Node.insert, Node.compress?]
  | cons q K =>
    cases q with
    | par k l =>
      simp only [splitParent, Node.insert]
      split <;> simp [Node.compress?, isNil_insertPar, isNil_insertEnd]
    | stat t =>
      simp only [notStatHead] at hK
      simp only [splitParent, Node.insert, Node.compress?]
      have : la.pre.head? = t.head? ↔ False := ⟨fun e => hK e.symm, False.elim⟩
      simp [Kids.insertStatic, this, Kids.single, Kids.isNil]

/-! ### insert keeps the tree maximally compressed -/

def CmpIH (m : Nat) : Prop :=
  ∀ P, psize P < m → ∀ (n : Node) (i : Info), Node.Shp n → Node.Cmp n → wfParts P = true → Node.Cmp (Node.insert n P i)

theorem cmp_par_vec (m : Nat) (ih : CmpIH m) (ks : Kids) (l : Label) (rest : List Part) (i : Info)
    (hsz : psize rest < m) (hwf : wfParts rest = true) (h0 : Kids.Shpk ks) (h : Kids.Cmpk ks) :
    Kids.Cmpk (Kids.insertPar ks l rest i) := by
  rcases insertPar_cases ks l rest i with ⟨A, n, B, hks, _, hres⟩ | ⟨_, hres⟩
  · subst hks
    rw [hres]
    rw [Kids.Shpk_app, Shpk_cons_iff] at h0
    rw [Kids.Cmpk_app, Cmpk_cons_iff] at h ⊢
    exact ⟨h.1, ih rest hsz n i h0.2.1 h.2.1 hwf, h.2.2⟩
  · rw [hres, Kids.Cmpk_app]
    exact ⟨h, by simp only [Kids.one, Kids.Cmpk]; exact ⟨chain_Cmp rest i (wfParts_altOK _ hwf), trivial⟩⟩

theorem cmp_stat_vec (m : Nat) (ih : CmpIH m) (ks : Kids) (p : Bytes) (rest : List Part) (i : Info)
    (hsz : psize (.stat p :: rest) ≤ m) (hwf : wfParts (.stat p :: rest) = true)
    (h1 : Kids.All (fun l _ => l.pre ≠ []) ks) (h0 : Kids.Shpk ks)
    (hc : Kids.All (fun _ n => n.compress? = none) ks) (h : Kids.Cmpk ks) :
    Kids.All (fun _ n => n.compress? = none) (Kids.insertStatic ks p rest i) ∧ Kids.Cmpk (Kids.insertStatic ks p rest i) := by
  have halt := wfParts_altOK _ hwf
  rcases insertStatic_cases ks p rest i halt with ⟨A, l, n, B, t, hks, _, _, hres⟩ | ⟨A, l, n, B, c, hks, hc0, hc1, _, _, hnh, hres⟩ | ⟨_, hres⟩
  · subst hks
    rw [hres]
    rw [Kids.All_app, All_cons_iff] at h1 hc
    rw [Kids.Shpk_app, Shpk_cons_iff] at h0
    rw [Kids.Cmpk_app, Cmpk_cons_iff] at h
    have hlpos : 0 < l.pre.length := List.length_pos_iff.mpr h1.2.1
    have hC := ih (below p l.pre.length rest) (by have := psize_below_lt p l.pre.length rest hlpos; omega)
      n i h0.2.1 h.2.1 (wfParts_below p _ rest hwf)
    refine ⟨?_, ?_⟩
    · rw [Kids.All_app, All_cons_iff]
      exact ⟨hc.1, compress_insert_none n _ i hc.2.1 (isEmptyN_false_of_routes h0.2.2.1), hc.2.2⟩
    · rw [Kids.Cmpk_app, Cmpk_cons_iff]; exact ⟨h.1, hC, h.2.2⟩
  · subst hks
    rw [hres]
    rw [Kids.All_app, All_cons_iff] at h1 hc
    rw [Kids.Shpk_app, Shpk_cons_iff] at h0
    rw [Kids.Cmpk_app, Cmpk_cons_iff] at h
    have hdrop : l.pre.drop c ≠ [] := by
      intro e; have := congrArg List.length e
      simp only [List.length_drop, List.length_nil] at this; omega
    have hC := ih (below p c rest) (by have := psize_below_lt p c rest hc0; omega)
      (splitParent {pre := l.pre.drop c} n) i (splitParent_Shp _ n hdrop h0.2.1 h0.2.2.1)
      (splitParent_Cmp _ n hc.2.1 h.2.1) (wfParts_below p _ rest hwf)
    refine ⟨?_, ?_⟩
    · rw [Kids.All_app, All_cons_iff]
      exact ⟨hc.1, compress_insert_splitParent _ n _ i hnh, hc.2.2⟩
    · rw [Kids.Cmpk_app, Cmpk_cons_iff]; exact ⟨h.1, hC, h.2.2⟩
  · rw [hres]
    have hwr := wfParts_tail hwf
    refine ⟨?_, ?_⟩
    · rw [Kids.All_app]
      exact ⟨hc, by simp only [Kids.one, Kids.All]; exact ⟨chain_compress_none rest i (altOK_after_stat halt), trivial⟩⟩
    · rw [Kids.Cmpk_app]
      exact ⟨h, by simp only [Kids.one, Kids.Cmpk]; exact ⟨chain_Cmp rest i (wfParts_altOK _ hwr), trivial⟩⟩

theorem cmpIH_all : ∀ m, CmpIH m := by
  intro m
  induction m with
  | zero => intro P h; omega
  | succ m ih =>
    intro P hP n i hS hC hwf
    cases n with
    | mk x s dc d wc w ec e ds ws dirty =>
    simp only [Node.Shp] at hS
    obtain ⟨hs1, _, _, _, _, _, _, _, _, _, _, _, _, _, _, _, ks, kdc, kd, kwc, kw⟩ := hS
    simp only [Node.Cmp] at hC
    obtain ⟨c0, cs, cdc, cd, cwc, cw⟩ := hC
    cases P with
    | nil => simp only [Node.insert, Node.Cmp]; exact ⟨c0, cs, cdc, cd, cwc, cw⟩
    | cons part rest =>
      cases part with
      | stat p =>
        obtain ⟨a1, a2⟩ := cmp_stat_vec m ih s p rest i (by omega) hwf hs1 ks c0 cs
        simp only [Node.insert, Node.Cmp]
        exact ⟨a1, a2, cdc, cd, cwc, cw⟩
      | par k l =>
        have hwr := wfParts_tail hwf
        have hsz : psize rest < m := by simp only [psize] at hP; omega
        simp only [Node.insert]
        split <;> simp only [Node.Cmp]
        · exact ⟨c0, cs, cmp_par_vec m ih dc l rest i hsz hwr kdc cdc, cd, cwc, cw⟩
        · exact ⟨c0, cs, cdc, cmp_par_vec m ih d l rest i hsz hwr kd cd, cwc, cw⟩
        · exact ⟨c0, cs, cdc, cd, cmp_par_vec m ih wc l rest i hsz hwr kwc cwc, cw⟩
        · exact ⟨c0, cs, cdc, cd, cwc, cmp_par_vec m ih w l rest i hsz hwr kw cw⟩
        · exact ⟨c0, cs, cdc, cd, cwc, cw⟩
        · exact ⟨c0, cs, cdc, cd, cwc, cw⟩

theorem Node.insert_Cmp (n : Node) (P : List Part) (i : Info) (hS : Node.Shp n) (hC : Node.Cmp n)
    (hwf : wfParts P = true) : Node.Cmp (Node.insert n P i) :=
  cmpIH_all (psize P + 1) P (Nat.lt_succ_self _) n i hS hC hwf
