import Wayfind.Proofs.Registry10

/-! insert followed by delete is the identity (C10) -/

theorem insert_delete_roundtrip (env : Env) {r r' : Router} {L : List LiveT} (h : Live r L) {t : Bytes} {d : Nat}
    (hi : r.insert t d = .ok r') (ts : List (Bytes × List Part)) (hp : parseTemplates t = .ok ts) :
    (r'.delete t).1 = .ok d ∧ ∀ path, (r'.delete t).2.search env path = r.search env path := by
  have hlive' : Live r' (L ++ [⟨t, d, ts⟩]) := by
    have := h.step (.insert t d)
    simpa [Router.step, liveAfter, hi, hp] using this
  obtain ⟨h1, hlive''⟩ := delete_live_api hlive' ⟨t, d, ts⟩ (by simp)
  refine ⟨h1, ?_⟩
  intro path
  have hreg := h.rinv.reg
  have hreg' := hlive'.rinv.reg
  obtain ⟨ts', hp', _, hc, hr'⟩ := (Router.insert_ok_iff r r' t d).1 hi
  rw [hp] at hp'; injection hp' with hp'; subst hp'
  obtain ⟨hSi, hfi⟩ := insertOk_find (d := d) hreg.shp hp hc
  have hdeq := delete_live_eq hreg' ⟨t, d, ts⟩ (by simp)
  simp only at hdeq
  obtain ⟨hSd, hfd⟩ := deleteOk_find (r := r') (t := t) (ts := ts) hreg'.shp hp
  have hfind : ∀ Q, wfParts Q = true → Node.find (r'.delete t).2.root Q = Node.find r.root Q := by
    intro Q hQ
    rw [hdeq, hfd Q hQ]
    by_cases hmem : Q ∈ ts.map (fun e => e.2)
    · rw [if_pos hmem]
      obtain ⟨e, he, rfl⟩ := List.mem_map.1 hmem
      exact (conflictsOf_nil hc e he).symm
    · rw [if_neg hmem, hr', hfi Q hQ]
      have : lookupIns (ts.map (fun e => (e.2, insInfo t d r.next ts e))) Q = none := by
        apply lookupIns_none_of_not_mem
        intro hm
        apply hmem
        obtain ⟨x, hx, hxe⟩ := List.mem_map.1 hm
        obtain ⟨e, he, rfl⟩ := List.mem_map.1 hx
        exact List.mem_map.2 ⟨e, he, hxe⟩
      rw [this]
  have hg := reachable_good3 r h.reachable
  have hg'' := reachable_good3 _ hlive''.reachable
  unfold Router.search
  congr 1
  apply search_same_routes env _ _ hg'' hg
  intro P i
  constructor
  · rintro ⟨rt, hr, hn, hinfo⟩
    obtain ⟨hwf, hf⟩ := route_find hg''.1 rt hr
    rw [hn, hinfo] at hf; rw [hn] at hwf
    rw [hfind P hwf] at hf
    exact (Node.find_iff r.root P i hg.1 hwf).1 hf
  · rintro ⟨rt, hr, hn, hinfo⟩
    obtain ⟨hwf, hf⟩ := route_find hg.1 rt hr
    rw [hn, hinfo] at hf; rw [hn] at hwf
    rw [← hfind P hwf] at hf
    exact (Node.find_iff _ P i hg''.1 hwf).1 hf
