import Wayfind.Proofs.InsSoD

/-! how `delete` transforms a child vector -/

theorem deletePar_cases : ∀ (ks : Kids) (l : Label) (rest : List Part),
    (∃ A n B, ks = Kids.app A (.cons l n B) ∧ l ∉ A.labels ∧
        Kids.deletePar ks l rest =
          (if (Node.delete false n rest).1.isEmptyN then Kids.app A B else Kids.app A (.cons l (Node.delete false n rest).1 B),
           (Node.delete false n rest).2, (Node.delete false n rest).1.isEmptyN))
    ∨ (l ∉ ks.labels ∧ Kids.deletePar ks l rest = (ks, none, false))
  | .nil, l, rest => Or.inr ⟨by simp [Kids.labels], by simp [Kids.deletePar]⟩
  | .cons l' n r, l, rest => by
    by_cases h : l' = l
    · subst h
      refine Or.inl ⟨.nil, n, r, rfl, by simp [Kids.labels], ?_⟩
      simp only [Kids.deletePar, ite_true, Kids.app]
      cases (Node.delete false n rest).1.isEmptyN <;> simp
    · rcases deletePar_cases r l rest with ⟨A, n', B, hr, hA, hres⟩ | ⟨hn, hres⟩
      · refine Or.inl ⟨.cons l' n A, n', B, by simp [Kids.app, hr], ?_, ?_⟩
        · simp only [Kids.labels, List.mem_cons, not_or]; exact ⟨fun e => h e.symm, hA⟩
        · simp only [Kids.deletePar, h, ite_false, hres, Kids.app]
          cases (Node.delete false n' rest).1.isEmptyN <;> simp
      · refine Or.inr ⟨?_, by simp [Kids.deletePar, h, hres]⟩
        simp only [Kids.labels, List.mem_cons, not_or]; exact ⟨fun e => h e.symm, hn⟩

theorem deleteEnd_cases : ∀ (ks : Kids) (l : Label),
    (∃ A n B, ks = Kids.app A (.cons l n B) ∧ l ∉ A.labels ∧ Kids.deleteEnd ks l = (Kids.app A B, n.data, n.data.isSome))
    ∨ (l ∉ ks.labels ∧ Kids.deleteEnd ks l = (ks, none, false))
  | .nil, l => Or.inr ⟨by simp [Kids.labels], by simp [Kids.deleteEnd]⟩
  | .cons l' n r, l => by
    by_cases h : l' = l
    · subst h
      exact Or.inl ⟨.nil, n, r, rfl, by simp [Kids.labels], by simp [Kids.deleteEnd, Kids.app]⟩
    · rcases deleteEnd_cases r l with ⟨A, n', B, hr, hA, hres⟩ | ⟨hn, hres⟩
      · refine Or.inl ⟨.cons l' n A, n', B, by simp [Kids.app, hr], ?_, by simp [Kids.deleteEnd, h, hres, Kids.app]⟩
        simp only [Kids.labels, List.mem_cons, not_or]; exact ⟨fun e => h e.symm, hA⟩
      · refine Or.inr ⟨?_, by simp [Kids.deleteEnd, h, hres]⟩
        simp only [Kids.labels, List.mem_cons, not_or]; exact ⟨fun e => h e.symm, hn⟩

/-- the vector that replaces `A ++ [(l, n)] ++ B` after the recursive delete produced `n'` -/
def afterAt (A : Kids) (l : Label) (n' : Node) (B : Kids) : Kids × Bool :=
  ((Kids.app A (afterStatic l n' B).1), (afterStatic l n' B).2)

theorem deleteStatic_cases : ∀ (ks : Kids) (p : Bytes) (rest : List Part),
    (∃ A l n B, ks = Kids.app A (.cons l n B) ∧ l.pre.isPrefixOf p = true ∧
        Kids.deleteStatic ks p rest =
          ((afterAt A l (Node.delete true n (below p l.pre.length rest)).1 B).1,
           (Node.delete true n (below p l.pre.length rest)).2,
           (afterAt A l (Node.delete true n (below p l.pre.length rest)).1 B).2))
    ∨ (Kids.deleteStatic ks p rest = (ks, none, false))
  | .nil, p, rest => Or.inr (by simp [Kids.deleteStatic])
  | .cons l n r, p, rest => by
    by_cases h : l.pre.isPrefixOf p = true
    · refine Or.inl ⟨.nil, l, n, r, rfl, h, ?_⟩
      have hb : (if (p.drop l.pre.length).isEmpty then Node.delete true n rest
                 else Node.delete true n (.stat (p.drop l.pre.length) :: rest)) =
                Node.delete true n (below p l.pre.length rest) := by
        unfold below
        have hle : l.pre.length ≤ p.length := by
          obtain ⟨t, ht⟩ := List.isPrefixOf_iff_prefix.1 h
          rw [← ht]; simp
        by_cases hq : p.length ≤ l.pre.length
        · have : (p.drop l.pre.length).isEmpty = true := by
            simp only [List.isEmpty_iff, List.drop_eq_nil_iff]; exact hq
          simp [hq, this]
        · have : (p.drop l.pre.length).isEmpty = false := by
            cases hd : p.drop l.pre.length with
            | nil => have := congrArg List.length hd; simp only [List.length_drop, List.length_nil] at this; omega
            | cons _ _ => rfl
          simp [hq, this]
      simp only [Kids.deleteStatic, h, ite_true, hb, afterAt, Kids.app]
    · have hstep : Kids.deleteStatic (.cons l n r) p rest =
          ((Kids.cons l n (Kids.deleteStatic r p rest).1), (Kids.deleteStatic r p rest).2.1, (Kids.deleteStatic r p rest).2.2) := by
        simp [Kids.deleteStatic, h]
      rcases deleteStatic_cases r p rest with ⟨A, l', n', B, hr, hpre, hres⟩ | hres
      · refine Or.inl ⟨.cons l n A, l', n', B, by simp [Kids.app, hr], hpre, ?_⟩
        rw [hstep, hres]; simp [afterAt, Kids.app]
      · exact Or.inr (by rw [hstep, hres])
