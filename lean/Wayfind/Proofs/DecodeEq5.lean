import Wayfind.Proofs.DecodeEq4

/-! Stage 2 of the parser theorem: `parse_template` accepts a (non-empty) group-free text exactly when the grammar
does, and produces the grammar's parts. -/

theorem scanInv_init : ScanInv 0 [] false [] :=
  ⟨by intro n; simp, by simp, by intro x hx; cases hx⟩

theorem parseTemplate_eq_decode (raw : Bytes) (hne : raw ≠ []) (ps : List Part) :
    parseTemplate raw = .ok ps ↔ decode raw = some ps := by
  unfold parseTemplate decode
  have hemp : raw.isEmpty = false := by cases raw with | nil => exact absurd rfl hne | cons _ _ => rfl
  by_cases h47 : raw.head? = some 47
  · simp only [hemp, h47, Bool.not_false, bne_self_eq_false, Bool.and_false, Bool.false_eq_true, ite_false]
    rw [parseLoop_eq_decodeLoop raw (raw.length + 1) raw 0 [] [] false [] (by omega) scanInv_init ps]
    simp
  · have : (raw.head? != some 47) = true := by simpa using h47
    simp only [hemp, this, Bool.not_false, Bool.and_self, ite_true]
    constructor
    · intro h; cases h
    · intro h; cases h

/-- rejection: the model reports an error exactly when the grammar rejects -/
theorem parseTemplate_error_iff (raw : Bytes) (hne : raw ≠ []) :
    (∃ e, parseTemplate raw = .error e) ↔ decode raw = none := by
  constructor
  · rintro ⟨e, he⟩
    cases hd : decode raw with
    | none => rfl
    | some ps => rw [(parseTemplate_eq_decode raw hne ps).2 hd] at he; cases he
  · intro hd
    cases hp : parseTemplate raw with
    | error e => exact ⟨e, rfl⟩
    | ok ps => rw [(parseTemplate_eq_decode raw hne ps).1 hp] at hd; cases hd
