import Wayfind.Proofs.Canon3
import Wayfind.Proofs.Reachable

/-! Canonical form, part 4: every router state reachable through the API has a canonical tree. -/

/-- well-shaped, parameter siblings sorted, literal siblings sorted, maximally compressed -/
def Canon (n : Node) : Prop := Node.Shp n ∧ Node.Srt n ∧ Node.SrtS n ∧ Node.Cmp n

theorem srtS_empty : Node.SrtS Node.empty := by
  simp [Node.empty, Node.SrtS, SH, Kids.heads, Kids.SrtSk]
theorem cmp_empty : Node.Cmp Node.empty := by
  simp [Node.empty, Node.Cmp, Kids.All, Kids.Cmpk]

theorem can_step (n : Node) (op : ROp) (h : Good3 n) (h2 : Node.SrtS n) (h3 : Node.Cmp n) (hwf : op.wf) :
    Node.SrtS (applyROp n op) ∧ Node.Cmp (applyROp n op) := by
  obtain ⟨hS, _, _⟩ := h
  cases op with
  | insert exps =>
    have key : ∀ (Ps : List (List Part × Info)) (n : Node), Node.Shp n → Node.SoDS n → Node.Cmp n →
        (∀ x ∈ Ps, wfParts x.1 = true) →
        Node.Shp (Ps.foldl (fun t x => Node.insert t x.1 x.2) n) ∧ Node.SoDS (Ps.foldl (fun t x => Node.insert t x.1 x.2) n) ∧
        Node.Cmp (Ps.foldl (fun t x => Node.insert t x.1 x.2) n) := by
      intro Ps
      induction Ps with
      | nil => intro n a b c _; exact ⟨a, b, c⟩
      | cons x Ps ih =>
        intro n a b c hw
        simp only [List.foldl_cons]
        have hx := hw x (by simp)
        exact ih _ (Node.insert_Shp n x.1 x.2 a hx).1 (Node.insert_SoDS n x.1 x.2 b hx) (Node.insert_Cmp n x.1 x.2 a c hx)
          (fun y hy => hw y (by simp [hy]))
    obtain ⟨a, b, c⟩ := key exps n hS (SoDS_of_SrtS n h2) h3 hwf
    exact ⟨Node.optimize_SrtS _ a b, Node.optimize_Cmp _ c⟩
  | delete exps o =>
    have key : ∀ (exps : List (List Part)) (n : Node), Node.Shp n → Node.SrtS n → Node.Cmp n →
        (∀ x ∈ exps, wfParts x = true) →
        Node.Shp (exps.foldl (fun t x => (Node.delete false t x).1) n) ∧
        Node.SrtS (exps.foldl (fun t x => (Node.delete false t x).1) n) ∧
        Node.Cmp (exps.foldl (fun t x => (Node.delete false t x).1) n) := by
      intro exps
      induction exps with
      | nil => intro n a b c _; exact ⟨a, b, c⟩
      | cons x xs ih =>
        intro n a b c hw
        simp only [List.foldl_cons]
        have hx := hw x (by simp)
        exact ih _ (Node.delete_Shp n false x a hx) (Node.delete_SrtS n false x a b hx) (Node.delete_Cmp n false x a c hx)
          (fun y hy => hw y (by simp [hy]))
    obtain ⟨a, b, c⟩ := key exps n hS h2 h3 hwf
    simp only [applyROp]
    cases o with
    | false => exact ⟨b, c⟩
    | true =>
      simp only [ite_true]
      exact ⟨Node.optimize_SrtS _ a (SoDS_of_SrtS _ b), Node.optimize_Cmp _ c⟩

theorem step_can (r : Router) (c : Call) (h : Good3 r.root) (h2 : Node.SrtS r.root) (h3 : Node.Cmp r.root) :
    Node.SrtS (r.step c).root ∧ Node.Cmp (r.step c).root := by
  cases c with
  | constraint name ty =>
    simp only [Router.step, Router.constraint]
    split <;> rename_i heq
    · split at heq
      · cases heq
      · injection heq with heq; subst heq; exact ⟨h2, h3⟩
    · exact ⟨h2, h3⟩
  | insert t d =>
    simp only [Router.step]
    cases hi : r.insert t d with
    | error e => exact ⟨h2, h3⟩
    | ok r' =>
      simp only []
      obtain ⟨ts, hp, _, _, rfl⟩ := (Router.insert_ok_iff r r' t d).1 hi
      obtain ⟨op, hwf, hroot⟩ := insertOk_root r t d ts hp
      rw [hroot]; exact can_step _ op h h2 h3 hwf
  | delete t =>
    simp only [Router.step, Router.delete]
    split
    · exact ⟨h2, h3⟩
    · rename_i ts hp
      split
      · exact ⟨h2, h3⟩
      · split
        · exact ⟨h2, h3⟩
        · obtain ⟨op, hwf, hroot⟩ := deleteOk_root r t ts hp
          rw [hroot]; exact can_step _ op h h2 h3 hwf
  | clone => exact ⟨(recell_SrtS r.root 0).2 h2, (recell_Cmp r.root 0).2 h3⟩

/-- **Every reachable router has a canonical tree**: well-shaped, all sibling vectors sorted, maximally compressed -/
theorem reachable_canon (r : Router) (h : Reachable r) : Canon r.root := by
  obtain ⟨b, calls, rfl⟩ := h
  have key : ∀ (calls : List Call) (r : Router), Good3 r.root → Node.SrtS r.root → Node.Cmp r.root →
      Good3 (calls.foldl Router.step r).root ∧ Node.SrtS (calls.foldl Router.step r).root ∧
      Node.Cmp (calls.foldl Router.step r).root := by
    intro calls
    induction calls with
    | nil => intro r a b c; exact ⟨a, b, c⟩
    | cons c cs ih =>
      intro r a b c'
      have := step_can r c a b c'
      exact ih _ (step_good3 r c a) this.1 this.2
  obtain ⟨g, s, c⟩ := key calls { registry := b } good3_empty srtS_empty cmp_empty
  exact ⟨g.1, g.2.1, s, c⟩

#print axioms reachable_canon
