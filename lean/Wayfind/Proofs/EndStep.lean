import Wayfind.Proofs.StatStep

/-- a catch-all child: a marked leaf -/
def isLeaf (n : Node) (i : Info) : Prop :=
  ∃ ds ws dirty, n = Node.mk (some i) .nil .nil .nil .nil .nil .nil .nil ds ws dirty

theorem routes_leaf {n : Node} {i : Info} (h : isLeaf n i) : Node.routes n = [⟨[], i⟩] ∧ n.data = some i := by
  obtain ⟨ds, ws, d, rfl⟩ := h
  simp [Node.routes, Kids.routes, Node.data]

def Kids.leaves : Kids → Prop
  | .nil => True
  | .cons _ n r => (∃ i, isLeaf n i) ∧ Kids.leaves r

def endF (env : Env) (k : PKind) (rs : List Route) (path : Bytes) (ps : Params) : Label → Res :=
  fun l => if env.valid path && env.chk l.cons path
           then (endInfo k l rs).map (·, ps ++ [(l.name, path)]) else none

theorem wildK_of (k : PKind) (h : k = .wildC ∨ k = .wild) : wildK k = true := by
  rcases h with rfl | rfl <;> rfl

theorem hp_end_routes (k : PKind) (hk : wildK k = true) : ∀ (ks : Kids), Kids.leaves ks →
    (Kids.routes (.par k) ks).filterMap (hp k true) = ks.labels
  | .nil, _ => by simp [Kids.routes, Kids.labels]
  | .cons l n r, h => by
    simp only [Kids.leaves] at h
    obtain ⟨⟨i, hi⟩, hr⟩ := h
    simp only [Kids.routes, (routes_leaf hi).1, List.map_cons, List.map_nil, List.filterMap_append,
      List.filterMap_cons, List.filterMap_nil, hp, headPar_push_par, hk, Kids.labels]
    simp only [List.isEmpty_nil, Bool.and_self, and_self, ite_true, Option.map_some, List.singleton_append]
    exact congrArg _ (hp_end_routes k hk r hr)

theorem sortLabels_sorted : ∀ (L : List Label), SortedL L → sortLabels L = L
  | [], _ => rfl
  | l :: L, h => by
    simp only [SortedL, List.pairwise_cons] at h
    have := sortLabels_replicate_append l 0 L h.1
    simp only [Nat.zero_add, List.replicate_one, List.singleton_append] at this
    rw [this, sortLabels_sorted L h.2]

theorem endInfo_cons_ne (k : PKind) (l l' : Label) (i : Info) (R : List Route) (h : l ≠ l') :
    endInfo k l' (⟨[.par k l], i⟩ :: R) = endInfo k l' R := by
  have : ¬ (l = l') := h
  simp [endInfo, List.find?_cons, this]

theorem endInfo_cons_eq (k : PKind) (l : Label) (i : Info) (R : List Route) :
    endInfo k l (⟨[.par k l], i⟩ :: R) = some i := by
  simp [endInfo, List.find?_cons]

/-- KE (constrained catch-alls) -/
theorem searchEndC_eq (env : Env) (path : Bytes) (ps : Params) : ∀ (ks : Kids), Kids.leaves ks → SortedL ks.labels →
    Kids.searchEndC env ks path ps =
      firstSome (endF env .wildC (Kids.routes (.par .wildC) ks) path ps) ks.labels
  | .nil, _, _ => by simp [Kids.searchEndC, Kids.labels, firstSome]
  | .cons l n r, h, hs => by
    simp only [Kids.leaves] at h
    obtain ⟨⟨i, hi⟩, hr⟩ := h
    simp only [Kids.labels, SortedL, List.pairwise_cons] at hs
    have ih := searchEndC_eq env path ps r hr hs.2
    simp only [Kids.searchEndC, Kids.labels, firstSome, Kids.routes, (routes_leaf hi).1, (routes_leaf hi).2,
      List.map_cons, List.map_nil, List.singleton_append, Route.push]
    have hrest : firstSome (endF env .wildC (⟨[.par .wildC l], i⟩ :: Kids.routes (.par .wildC) r) path ps) r.labels =
        firstSome (endF env .wildC (Kids.routes (.par .wildC) r) path ps) r.labels := by
      apply firstSome_congr
      intro l' hl'
      simp only [endF, endInfo_cons_ne .wildC l l' i _ (lt_ne (hs.1 l' hl'))]
    rw [hrest, ← ih]
    simp only [endF, endInfo_cons_eq]
    by_cases hc : (env.valid path && env.chk l.cons path) = true
    · simp [hc, orElse']
    · simp [hc, orElse']

/-- KE (unconstrained catch-alls: only the first, i.e. alphabetically smallest, is consulted) -/
theorem searchEnd_eq (env : Env) (path : Bytes) (ps : Params) : ∀ (ks : Kids), Kids.leaves ks →
    Kids.searchEnd env ks path ps =
      (match ks.labels with
       | l :: _ => if env.valid path then (endInfo .wild l (Kids.routes (.par .wild) ks)).map (·, ps ++ [(l.name, path)]) else none
       | [] => none)
  | .nil, _ => by simp [Kids.searchEnd, Kids.labels]
  | .cons l n r, h => by
    simp only [Kids.leaves] at h
    obtain ⟨⟨i, hi⟩, _⟩ := h
    simp only [Kids.searchEnd, Kids.labels, Kids.routes, (routes_leaf hi).1, (routes_leaf hi).2,
      List.map_cons, List.map_nil, List.singleton_append, Route.push, endInfo_cons_eq]
