import Wayfind.Model.Router
import Wayfind.Spec.Fits

/-! search and display do not look at the `cell` of a stored value: they commute with any relabelling of the stored
values that keeps `depth` and `length`. Used for `Clone` (C16), where every shared value gets a fresh cell. -/

mutual
def Node.mapInfo (f : Info → Info) : Node → Node
  | .mk x s dc d wc w ec e ds ws dirty =>
    .mk (x.map f) (Kids.mapInfo f s) (Kids.mapInfo f dc) (Kids.mapInfo f d) (Kids.mapInfo f wc) (Kids.mapInfo f w)
      (Kids.mapInfo f ec) (Kids.mapInfo f e) ds ws dirty
def Kids.mapInfo (f : Info → Info) : Kids → Kids
  | .nil => .nil
  | .cons l n r => .cons l (Node.mapInfo f n) (Kids.mapInfo f r)
end

def Res.mapI (f : Info → Info) (r : Res) : Res := r.map (fun x => (f x.1, x.2))

/-- `f` keeps what the best-match rule looks at -/
def KeepsRank (f : Info → Info) : Prop := ∀ i, (f i).depth = i.depth ∧ (f i).length = i.length

theorem better_mapI (f : Info → Info) (hf : KeepsRank f) (r : Info) (best : Res) :
    better (f r) (Res.mapI f best) = better r best := by
  cases best with
  | none => rfl
  | some b => simp [Res.mapI, better, (hf r).1, (hf r).2, (hf b.1).1, (hf b.1).2]

theorem orElse'_mapI (f : Info → Info) (a b : Res) : orElse' (Res.mapI f a) (Res.mapI f b) = Res.mapI f (orElse' a b) := by
  cases a <;> simp [orElse', Res.mapI]

theorem stepCand_mapI (f : Info → Info) (hf : KeepsRank f) (env : Env) (cons : Option Bytes) (name path : Bytes) (ps : Params)
    (k k' : Bytes → Params → Res) (hk : ∀ p q, k' p q = Res.mapI f (k p q)) (c : Nat) (best : Res) :
    stepCand env cons name path ps k' c (Res.mapI f best) = Res.mapI f (stepCand env cons name path ps k c best) := by
  unfold stepCand
  by_cases hok : candOk env cons (path.take c) = true
  · rw [if_pos hok, if_pos hok, hk]
    cases hkk : k (path.drop c) (ps ++ [(name, path.take c)]) with
    | none => rfl
    | some x =>
      obtain ⟨r, ps'⟩ := x
      have hb := better_mapI f hf r best
      show (if better (f r) (Res.mapI f best) = true then some (f r, ps') else Res.mapI f best) = _
      rw [hb]
      by_cases hbb : better r best = true
      · simp [hbb, Res.mapI]
      · simp [hbb]
  · rw [if_neg hok, if_neg hok]

theorem tryCands_mapI (f : Info → Info) (hf : KeepsRank f) (env : Env) (cons : Option Bytes) (name path : Bytes) (ps : Params)
    (k k' : Bytes → Params → Res) (hk : ∀ p q, k' p q = Res.mapI f (k p q)) :
    ∀ (cs : List Nat) (best : Res),
    tryCands env cons name path ps k' cs (Res.mapI f best) = Res.mapI f (tryCands env cons name path ps k cs best)
  | [], best => rfl
  | c :: cs, best => by
    rw [tryCands_cons, tryCands_cons, stepCand_mapI f hf env cons name path ps k k' hk]
    exact tryCands_mapI f hf env cons name path ps k k' hk cs _

theorem data_mapInfo (f : Info → Info) (n : Node) : (Node.mapInfo f n).data = n.data.map f := by
  cases n; simp [Node.mapInfo, Node.data]

mutual
theorem Node.search_mapInfo (f : Info → Info) (hf : KeepsRank f) (env : Env) : ∀ (n : Node) (path : Bytes) (ps : Params),
    Node.search env (Node.mapInfo f n) path ps = Res.mapI f (Node.search env n path ps)
  | .mk x s dc d wc w ec e ds ws dirty, path, ps => by
    simp only [Node.mapInfo, Node.search]
    split
    · cases x <;> simp [Res.mapI]
    · rw [Kids.searchStatic_mapInfo f hf env s, Kids.searchPar_mapInfo f hf env true _ dc,
        Kids.searchPar_mapInfo f hf env false _ d, Kids.searchPar_mapInfo f hf env true _ wc,
        Kids.searchPar_mapInfo f hf env false _ w, Kids.searchEndC_mapInfo f env ec, Kids.searchEnd_mapInfo f env e]
      simp only [orElse'_mapI]
theorem Kids.searchStatic_mapInfo (f : Info → Info) (hf : KeepsRank f) (env : Env) : ∀ (ks : Kids) (path : Bytes) (ps : Params),
    Kids.searchStatic env (Kids.mapInfo f ks) path ps = Res.mapI f (Kids.searchStatic env ks path ps)
  | .nil, _, _ => rfl
  | .cons l n r, path, ps => by
    simp only [Kids.mapInfo, Kids.searchStatic]
    rw [Kids.searchStatic_mapInfo f hf env r, ← orElse'_mapI]
    congr 1
    split
    · exact Node.search_mapInfo f hf env n _ _
    · rfl
theorem Kids.searchPar_mapInfo (f : Info → Info) (hf : KeepsRank f) (env : Env) (c : Bool) (cands : List Nat) :
    ∀ (ks : Kids) (path : Bytes) (ps : Params),
    Kids.searchPar env c cands (Kids.mapInfo f ks) path ps = Res.mapI f (Kids.searchPar env c cands ks path ps)
  | .nil, _, _ => rfl
  | .cons l n r, path, ps => by
    simp only [Kids.mapInfo, Kids.searchPar]
    rw [Kids.searchPar_mapInfo f hf env c cands r, ← orElse'_mapI]
    congr 1
    exact tryCands_mapI f hf env _ l.name path ps (Node.search env n) (Node.search env (Node.mapInfo f n))
      (fun p q => Node.search_mapInfo f hf env n p q) cands none
theorem Kids.searchEndC_mapInfo (f : Info → Info) (env : Env) : ∀ (ks : Kids) (path : Bytes) (ps : Params),
    Kids.searchEndC env (Kids.mapInfo f ks) path ps = Res.mapI f (Kids.searchEndC env ks path ps)
  | .nil, _, _ => rfl
  | .cons l n r, path, ps => by
    simp only [Kids.mapInfo, Kids.searchEndC]
    split
    · rw [data_mapInfo]; cases n.data <;> simp [Res.mapI]
    · exact Kids.searchEndC_mapInfo f env r path ps
theorem Kids.searchEnd_mapInfo (f : Info → Info) (env : Env) : ∀ (ks : Kids) (path : Bytes) (ps : Params),
    Kids.searchEnd env (Kids.mapInfo f ks) path ps = Res.mapI f (Kids.searchEnd env ks path ps)
  | .nil, _, _ => rfl
  | .cons l n r, path, ps => by
    simp only [Kids.mapInfo, Kids.searchEnd]
    split
    · rw [data_mapInfo]; cases n.data <;> simp [Res.mapI]
    · rfl
end

/-- forget the cell -/
def eraseCell (i : Info) : Info := { i with cell := none }

theorem eraseCell_keeps : KeepsRank eraseCell := fun _ => ⟨rfl, rfl⟩

mutual
theorem Node.recell_erase : ∀ (n : Node) (nx : Nat), Node.mapInfo eraseCell (Node.recell n nx).1 = Node.mapInfo eraseCell n
  | .mk x s dc d wc w ec e ds ws dirty, nx => by
    simp only [Node.recell, Node.mapInfo]
    congr 1
    · cases x with
      | none => rfl
      | some i => cases hc : i.cell <;> simp [hc, eraseCell]
    · exact Kids.recell_erase s _
    · exact Kids.recell_erase dc _
    · exact Kids.recell_erase d _
    · exact Kids.recell_erase wc _
    · exact Kids.recell_erase w _
    · exact Kids.recell_erase ec _
    · exact Kids.recell_erase e _
theorem Kids.recell_erase : ∀ (ks : Kids) (nx : Nat), Kids.mapInfo eraseCell (Kids.recell ks nx).1 = Kids.mapInfo eraseCell ks
  | .nil, _ => rfl
  | .cons l n r, nx => by
    simp only [Kids.recell, Kids.mapInfo]
    rw [Node.recell_erase n nx, Kids.recell_erase r _]
end

theorem toMatch_erase (r : Res) : (Res.mapI eraseCell r).map toMatch = r.map toMatch := by
  cases r <;> simp [Res.mapI, toMatch, eraseCell]

/-- **Clone answers every search like the original** -/
theorem Router.clone_search (env : Env) (r : Router) (path : Bytes) : r.clone.search env path = r.search env path := by
  have h1 : (Node.search env r.clone.root path []).map toMatch = (Node.search env r.root path []).map toMatch := by
    rw [← toMatch_erase (Node.search env r.clone.root path []), ← toMatch_erase (Node.search env r.root path []),
      ← Node.search_mapInfo eraseCell eraseCell_keeps, ← Node.search_mapInfo eraseCell eraseCell_keeps]
    simp only [Router.clone]
    rw [Node.recell_erase]
  exact h1

theorem Kids.len_mapInfo (f : Info → Info) : ∀ (ks : Kids), (Kids.mapInfo f ks).len = ks.len
  | .nil => rfl
  | .cons _ _ r => by simp [Kids.mapInfo, Kids.len, Kids.len_mapInfo f r]

mutual
theorem Node.lines_mapInfo (f : Info → Info) : ∀ (n : Node) (key padding : String) (isRoot isLast : Bool),
    Node.lines key padding isRoot isLast (Node.mapInfo f n) = Node.lines key padding isRoot isLast n
  | .mk x s dc d wc w ec e ds ws dirty, key, padding, isRoot, isLast => by
    simp only [Node.mapInfo, Node.lines, Kids.len_mapInfo, Option.isSome_map]
    rw [Kids.lines_mapInfo f s, Kids.lines_mapInfo f dc, Kids.lines_mapInfo f d, Kids.lines_mapInfo f wc,
      Kids.lines_mapInfo f w, Kids.lines_mapInfo f ec, Kids.lines_mapInfo f e]
theorem Kids.lines_mapInfo (f : Info → Info) : ∀ (ks : Kids) (slot : Nat) (padding : String) (isRoot : Bool) (remaining : Nat),
    Kids.lines slot padding isRoot remaining (Kids.mapInfo f ks) = Kids.lines slot padding isRoot remaining ks
  | .nil, _, _, _, _ => rfl
  | .cons l n r, slot, padding, isRoot, remaining => by
    simp only [Kids.mapInfo, Kids.lines]
    rw [Node.lines_mapInfo f n, Kids.lines_mapInfo f r]
end

theorem Node.display_mapInfo (f : Info → Info) (n : Node) : Node.display (Node.mapInfo f n) = Node.display n := by
  simp only [Node.display, Node.lines_mapInfo]

/-- **Clone prints like the original** -/
theorem Router.clone_display (r : Router) : r.clone.display = r.display := by
  simp only [Router.display, Router.clone]
  rw [← Node.display_mapInfo eraseCell (Node.recell r.root 0).1, ← Node.display_mapInfo eraseCell r.root, Node.recell_erase]

mutual
theorem Node.find_mapInfo (f : Info → Info) : ∀ (n : Node) (P : List Part), Node.find (Node.mapInfo f n) P = (Node.find n P).map f
  | .mk x s dc d wc w ec e ds ws dirty, [] => by simp [Node.mapInfo, Node.find]
  | .mk x s dc d wc w ec e ds ws dirty, .stat p :: rest => by
    simp only [Node.mapInfo, Node.find]; exact Kids.findStatic_mapInfo f s p rest
  | .mk x s dc d wc w ec e ds ws dirty, .par k l :: rest => by
    simp only [Node.mapInfo, Node.find]
    split <;> exact Kids.findPar_mapInfo f _ l rest
theorem Kids.findStatic_mapInfo (f : Info → Info) : ∀ (ks : Kids) (p : Bytes) (rest : List Part),
    Kids.findStatic (Kids.mapInfo f ks) p rest = (Kids.findStatic ks p rest).map f
  | .nil, _, _ => rfl
  | .cons l n r, p, rest => by
    simp only [Kids.mapInfo, Kids.findStatic]
    split
    · split
      · split
        · exact Node.find_mapInfo f n rest
        · exact Node.find_mapInfo f n _
      · exact Kids.findStatic_mapInfo f r p rest
    · exact Kids.findStatic_mapInfo f r p rest
theorem Kids.findPar_mapInfo (f : Info → Info) : ∀ (ks : Kids) (l : Label) (rest : List Part),
    Kids.findPar (Kids.mapInfo f ks) l rest = (Kids.findPar ks l rest).map f
  | .nil, _, _ => rfl
  | .cons l' n r, l, rest => by
    simp only [Kids.mapInfo, Kids.findPar]
    split
    · exact Node.find_mapInfo f n rest
    · exact Kids.findPar_mapInfo f r l rest
end

/-- **Lookups of a clone**: the same keys hold the same template, expansion, data, depth and length -/
theorem Router.clone_find (r : Router) (P : List Part) :
    (Node.find r.clone.root P).map eraseCell = (Node.find r.root P).map eraseCell := by
  rw [← Node.find_mapInfo, ← Node.find_mapInfo]
  simp only [Router.clone]
  rw [Node.recell_erase]
