import Wayfind.Proofs.DrawText1

/-! The marked paths read off the printed lines are the routes of the tree, rendered: `markedTextsC` over the nodes in
printing order gives, for every route `Node.routes` lists (in the same order), the concatenation of the labels from the top
down to the marked node. -/

def stackText (stack : List (Nat × List Char)) : List Char := (stack.reverse.map (·.2)).flatten

def HeadLE (l : List (Nat × List Char × Bool)) (d : Nat) : Prop := ∀ e, l.head? = some e → e.1 ≤ d

theorem headLE_nil (d : Nat) : HeadLE [] d := by intro e h; cases h

theorem headLE_mono {l : List (Nat × List Char × Bool)} {d d' : Nat} (h : HeadLE l d) (hd : d ≤ d') : HeadLE l d' :=
  fun e he => Nat.le_trans (h e he) hd

theorem stackText_cons (d : Nat) (k : List Char) (stack : List (Nat × List Char)) :
    stackText ((d, k) :: stack) = stackText stack ++ k := by
  simp [stackText]

theorem partsText_cons (p : Part) (ps : List Part) : partsText (p :: ps) = (partKey p).toList ++ partsText ps := by
  simp [partsText]

/-- entries that cannot be ancestors of what follows do not matter -/
theorem go_drop_junk (rest : List (Nat × List Char × Bool)) (junk stack : List (Nat × List Char)) (d : Nat)
    (hj : ∀ j ∈ junk, d ≤ j.1) (hr : HeadLE rest d) :
    markedTextsGo rest (junk ++ stack) = markedTextsGo rest stack := by
  cases rest with
  | nil => rfl
  | cons e rest' =>
    obtain ⟨d0, k, m⟩ := e
    have hd0 : d0 ≤ d := hr (d0, k, m) rfl
    have : junk.filter (fun e => decide (e.1 < d0)) = [] := by
      rw [List.filter_eq_nil_iff]
      intro j hjm
      have := hj j hjm
      simp only [decide_eq_true_eq]; omega
    simp only [markedTextsGo, List.filter_append, this, List.nil_append]

theorem node_dents_head (n : Node) (d : Nat) (key : List Char) (hk : key ≠ [])
    (rest : List (Nat × List Char × Bool)) (d' : Nat) (hd : d ≤ d') : HeadLE (Node.dents d key n ++ rest) d' := by
  cases n with
  | mk x s dc dy wc w ec e _ _ _ =>
    have : key.isEmpty = false := by cases key <;> simp_all
    intro en he
    simp only [Node.dents, this, Bool.false_eq_true, if_false, List.append_assoc, List.cons_append, List.nil_append,
      List.head?_cons, Option.some.injEq] at he
    subst he
    exact hd

theorem kids_dents_head (ks : Kids) (d slot : Nat) (hdr : Kids.drawable slot ks = true)
    (rest : List (Nat × List Char × Bool)) (d' : Nat) (hd : d ≤ d') (hr : HeadLE rest d') :
    HeadLE (Kids.dents d slot ks ++ rest) d' := by
  cases ks with
  | nil => simpa [Kids.dents] using hr
  | cons l n r =>
    simp only [Kids.drawable, Bool.and_eq_true] at hdr
    simp only [Kids.dents, List.append_assoc]
    exact node_dents_head n d _ (keyOK_ne_nil hdr.1.1) _ d' hd

mutual
theorem Node.go_dents : ∀ (n : Node) (d : Nat) (key : List Char) (stack : List (Nat × List Char))
    (rest : List (Nat × List Char × Bool)), key ≠ [] → Node.drawable n = true → (∀ e ∈ stack, e.1 < d) → HeadLE rest d →
    markedTextsGo (Node.dents d key n ++ rest) stack =
      (Node.routes n).map (fun rt => stackText stack ++ key ++ partsText rt.parts) ++ markedTextsGo rest stack
  | .mk x s dc dy wc w ec e _ _ _, d, key, stack, rest, hk, hdr, hst, hrest => by
    simp only [Node.drawable, Bool.and_eq_true] at hdr
    obtain ⟨⟨⟨⟨⟨⟨h0, h1⟩, h2⟩, h3⟩, h4⟩, h5⟩, h6⟩ := hdr
    have hne : key.isEmpty = false := by cases key <;> simp_all
    have hfil : stack.filter (fun e => decide (e.1 < d)) = stack := by
      rw [List.filter_eq_self]; intro a ha; simpa using hst a ha
    have hst2 : ∀ e ∈ (d, key) :: stack, e.1 < d + 1 := by
      intro e he
      rcases List.mem_cons.1 he with rfl | he
      · exact Nat.lt_succ_self _
      · exact Nat.lt_succ_of_lt (hst e he)
    have hrest1 : HeadLE rest (d + 1) := headLE_mono hrest (Nat.le_succ d)
    -- heads of the remaining blocks
    have r6 : HeadLE (Kids.dents (d + 1) 6 e ++ rest) (d + 1) := kids_dents_head e _ 6 h6 rest _ (Nat.le_refl _) hrest1
    have r5 : HeadLE (Kids.dents (d + 1) 5 ec ++ (Kids.dents (d + 1) 6 e ++ rest)) (d + 1) := kids_dents_head ec _ 5 h5 _ _ (Nat.le_refl _) r6
    have r4 : HeadLE (Kids.dents (d + 1) 4 w ++ (Kids.dents (d + 1) 5 ec ++ (Kids.dents (d + 1) 6 e ++ rest))) (d + 1) :=
      kids_dents_head w _ 4 h4 _ _ (Nat.le_refl _) r5
    have r3 := kids_dents_head wc (d + 1) 3 h3 _ (d + 1) (Nat.le_refl _) r4
    have r2 := kids_dents_head dy (d + 1) 2 h2 _ (d + 1) (Nat.le_refl _) r3
    have r1 := kids_dents_head dc (d + 1) 1 h1 _ (d + 1) (Nat.le_refl _) r2
    have e0 := Kids.go_dents s (d + 1) 0 (fun l => .stat l.pre) ((d, key) :: stack) _ (fun l => rfl) h0 hst2 r1
    have e1 := Kids.go_dents dc (d + 1) 1 (.par .dynC) ((d, key) :: stack) _ (fun l => rfl) h1 hst2 r2
    have e2 := Kids.go_dents dy (d + 1) 2 (.par .dyn) ((d, key) :: stack) _ (fun l => rfl) h2 hst2 r3
    have e3 := Kids.go_dents wc (d + 1) 3 (.par .wildC) ((d, key) :: stack) _ (fun l => rfl) h3 hst2 r4
    have e4 := Kids.go_dents w (d + 1) 4 (.par .wild) ((d, key) :: stack) _ (fun l => rfl) h4 hst2 r5
    have e5 := Kids.go_dents ec (d + 1) 5 (.par .wildC) ((d, key) :: stack) _ (fun l => rfl) h5 hst2 r6
    have e6 := Kids.go_dents e (d + 1) 6 (.par .wild) ((d, key) :: stack) rest (fun l => rfl) h6 hst2 hrest1
    have ejunk : markedTextsGo rest ((d, key) :: stack) = markedTextsGo rest stack :=
      go_drop_junk rest [(d, key)] stack d (by intro j hj; simp at hj; subst hj; exact Nat.le_refl _) hrest
    simp only [Node.dents, hne, Bool.false_eq_true, if_false, List.append_assoc, List.cons_append, List.nil_append,
      markedTextsGo, hfil, e0, e1, e2, e3, e4, e5, e6, ejunk, stackText_cons, Node.routes, List.map_append]
    cases x <;> simp [partsText, stackText, List.map_reverse]
theorem Kids.go_dents : ∀ (ks : Kids) (d slot : Nat) (mk : Label → Part) (stack : List (Nat × List Char))
    (rest : List (Nat × List Char × Bool)), (∀ l, (partKey (mk l)).toList = (keyOf slot l).toList) →
    Kids.drawable slot ks = true → (∀ e ∈ stack, e.1 < d) → HeadLE rest d →
    markedTextsGo (Kids.dents d slot ks ++ rest) stack =
      (Kids.routes mk ks).map (fun rt => stackText stack ++ partsText rt.parts) ++ markedTextsGo rest stack
  | .nil, _, _, _, _, _, _, _, _, _ => by simp [Kids.dents, Kids.routes]
  | .cons l n r, d, slot, mk, stack, rest, hmk, hdr, hst, hrest => by
    simp only [Kids.drawable, Bool.and_eq_true] at hdr
    obtain ⟨⟨hk, hn⟩, hr⟩ := hdr
    have hr' : HeadLE (Kids.dents d slot r ++ rest) d := kids_dents_head r d slot hr rest d (Nat.le_refl _) hrest
    have en := Node.go_dents n d (keyOf slot l).toList stack (Kids.dents d slot r ++ rest) (keyOK_ne_nil hk) hn hst hr'
    have er := Kids.go_dents r d slot mk stack rest hmk hr hst hrest
    simp only [Kids.dents, List.append_assoc, en, er, Kids.routes, List.map_append, List.map_map]
    congr 1
    apply List.map_congr_left
    intro rt _
    simp [Route.push, partsText_cons, hmk l, List.append_assoc]
end

theorem kids_routes_nonempty (mk : Label → Part) : ∀ (ks : Kids), ∀ rt ∈ Kids.routes mk ks, rt.parts.isEmpty = false
  | .nil, rt, h => by simp [Kids.routes] at h
  | .cons l n r, rt, h => by
    simp only [Kids.routes, List.mem_append, List.mem_map] at h
    rcases h with ⟨rt', _, rfl⟩ | h
    · simp [Route.push]
    · exact kids_routes_nonempty mk r rt h

theorem filter_kids_routes (mk : Label → Part) (ks : Kids) :
    (Kids.routes mk ks).filter (fun rt => !rt.parts.isEmpty) = Kids.routes mk ks := by
  rw [List.filter_eq_self]
  intro rt h
  simp [kids_routes_nonempty mk ks rt h]

/-- **The marked paths of the printed tree are its routes.** Reading the nodes in printing order and concatenating, for
every marked node, the labels of its ancestors and its own gives — in order — the rendered part list of every route.
(A route with no parts at all — data on the unlabelled root, which no parsed template produces — has no line.) -/
theorem marked_texts_of_dents (root : Node) (hdr : Node.drawable root = true) :
    markedTextsC (Node.dents 0 [] root) =
      ((Node.routes root).filter (fun rt => !rt.parts.isEmpty)).map (fun rt => partsText rt.parts) := by
  cases root with
  | mk x s dc dy wc w ec e _ _ _ =>
    simp only [Node.drawable, Bool.and_eq_true] at hdr
    obtain ⟨⟨⟨⟨⟨⟨h0, h1⟩, h2⟩, h3⟩, h4⟩, h5⟩, h6⟩ := hdr
    have hn : ∀ e ∈ ([] : List (Nat × List Char)), e.1 < 0 := by intro e he; cases he
    have r7 : HeadLE [] 0 := headLE_nil 0
    have r6 := kids_dents_head e 0 6 h6 [] 0 (Nat.le_refl _) r7
    have r5 := kids_dents_head ec 0 5 h5 _ 0 (Nat.le_refl _) r6
    have r4 := kids_dents_head w 0 4 h4 _ 0 (Nat.le_refl _) r5
    have r3 := kids_dents_head wc 0 3 h3 _ 0 (Nat.le_refl _) r4
    have r2 := kids_dents_head dy 0 2 h2 _ 0 (Nat.le_refl _) r3
    have r1 := kids_dents_head dc 0 1 h1 _ 0 (Nat.le_refl _) r2
    have e0 := Kids.go_dents s 0 0 (fun l => .stat l.pre) [] _ (fun l => rfl) h0 hn r1
    have e1 := Kids.go_dents dc 0 1 (.par .dynC) [] _ (fun l => rfl) h1 hn r2
    have e2 := Kids.go_dents dy 0 2 (.par .dyn) [] _ (fun l => rfl) h2 hn r3
    have e3 := Kids.go_dents wc 0 3 (.par .wildC) [] _ (fun l => rfl) h3 hn r4
    have e4 := Kids.go_dents w 0 4 (.par .wild) [] _ (fun l => rfl) h4 hn r5
    have e5 := Kids.go_dents ec 0 5 (.par .wildC) [] _ (fun l => rfl) h5 hn r6
    have e6 := Kids.go_dents e 0 6 (.par .wild) [] [] (fun l => rfl) h6 hn r7
    simp only [List.append_nil] at e0 e1 e2 e3 e4 e5 e6
    unfold markedTextsC
    cases x with
    | none =>
      simp only [Node.dents, List.isEmpty_nil, if_true, List.nil_append, List.append_assoc, Node.routes, List.filter_append,
        List.filter_nil, filter_kids_routes, List.map_append, List.map_nil]
      rw [e0, e1, e2, e3, e4, e5, e6]
      simp [markedTextsGo, stackText]
    | some i =>
      have hf : ([(⟨[], i⟩ : Route)]).filter (fun (rt : Route) => !rt.parts.isEmpty) = [] := by simp
      simp only [Node.dents, List.isEmpty_nil, if_true, List.nil_append, List.append_assoc, Node.routes, List.filter_append,
        hf, filter_kids_routes, List.map_append, List.map_nil]
      rw [e0, e1, e2, e3, e4, e5, e6]
      simp [markedTextsGo, stackText]
