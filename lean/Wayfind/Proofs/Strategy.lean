import Wayfind.Proofs.Complete

/-! T-strategy: under a sound flag the whole-segment strategy returns what the byte-wise strategy returns -/

theorem stepCand_none {env cons name path ps k c} {best : Res}
    (h : ∀ q, k (path.drop c) q = none) : stepCand env cons name path ps k c best = best := by
  unfold stepCand
  split
  · rw [h]
  · rfl

/-- candidates whose continuation always fails can be skipped -/
theorem tryCands_filter (env : Env) (cons : Option Bytes) (name path : Bytes) (ps : Params)
    (k : Bytes → Params → Res) (P : Nat → Bool) : ∀ (cs : List Nat) (best : Res),
    (∀ c ∈ cs, P c = false → ∀ q, k (path.drop c) q = none) →
    tryCands env cons name path ps k cs best = tryCands env cons name path ps k (cs.filter P) best
  | [], _, _ => rfl
  | c :: cs, best, h => by
    rw [tryCands_cons]
    by_cases hP : P c = true
    · simp only [List.filter_cons, hP, ite_true, tryCands_cons]
      exact tryCands_filter env cons name path ps k P cs _ (fun c' hc' => h c' (by simp [hc']))
    · have hP' : P c = false := by simpa using hP
      simp only [List.filter_cons, hP', Bool.false_eq_true, ite_false]
      rw [stepCand_none (h c (by simp) hP')]
      exact tryCands_filter env cons name path ps k P cs _ (fun c' hc' => h c' (by simp [hc']))

def Kids.allSlash : Kids → Prop
  | .nil => True
  | .cons l _ r => l.pre.head? = some 47 ∧ Kids.allSlash r

def Node.onlyStatic : Node → Prop
  | .mk _ _ dc d wc w ec e _ _ _ => dc = .nil ∧ d = .nil ∧ wc = .nil ∧ w = .nil ∧ ec = .nil ∧ e = .nil

theorem searchStatic_none_nonslash (env : Env) (b : Byte) (tl : Bytes) (q : Params) (hb : b ≠ 47) :
    ∀ (s : Kids), Kids.allSlash s → Kids.searchStatic env s (b :: tl) q = none
  | .nil, _ => rfl
  | .cons l n r, h => by
    simp only [Kids.allSlash] at h
    simp only [Kids.searchStatic, searchStatic_none_nonslash env b tl q hb r h.2, orElse'_none_right]
    cases hl : l.pre with
    | nil => simp [hl] at h
    | cons c p =>
      have : c = 47 := by simpa [hl] using h.1
      subst this
      have : ¬ ((47 : Byte) == b) = true := by simpa using fun e => hb e.symm
      simp [List.isPrefixOf, this]

/-- a parameter child that has only `/`-children cannot continue on a rest that starts with another byte -/
theorem search_none_nonslash (env : Env) (b : Byte) (tl : Bytes) (q : Params) (hb : b ≠ 47) :
    ∀ (n : Node), n.onlyStatic → Kids.allSlash n.statics → Node.search env n (b :: tl) q = none
  | .mk x s dc d wc w ec e ds ws _, ho, hs => by
    simp only [Node.onlyStatic] at ho
    obtain ⟨rfl, rfl, rfl, rfl, rfl, rfl⟩ := ho
    simp only [Node.statics] at hs
    simp [Node.search, searchStatic_none_nonslash env b tl q hb s hs, Kids.searchPar, Kids.searchEndC,
      Kids.searchEnd, orElse']

theorem candsSegment_wild (path : Bytes) :
    candsSegment true path =
      (candsInline true path).filter (fun c => c == path.length || (path.drop c).head? == some 47) := by
  simp [candsSegment]

theorem range_map_filter_eq (n : Nat) :
    ((List.range n).map (· + 1)).filter (fun c => c == n) = if n = 0 then [] else [n] := by
  induction n with
  | zero => rfl
  | succ n ih =>
    rw [List.range_succ, List.map_append, List.filter_append]
    have h1 : ((List.range n).map (· + 1)).filter (fun c => c == n + 1) = [] := by
      rw [List.filter_eq_nil_iff]
      intro c hc
      simp only [List.mem_map, List.mem_range] at hc
      obtain ⟨a, ha, rfl⟩ := hc
      simp; omega
    simp [h1]

theorem candsSegment_dyn (path : Bytes) :
    candsSegment false path = (candsInline false path).filter (fun c => c == segLen path) := by
  simp only [candsSegment, candsInline, Bool.false_eq_true, ite_false]
  rw [range_map_filter_eq]

/-- the byte right after a proper prefix of the first segment is not a slash -/
theorem head_drop_lt_segLen : ∀ (path : Bytes) (c : Nat), c < segLen path → ∃ b tl, path.drop c = b :: tl ∧ b ≠ 47
  | [], c, h => by simp [segLen] at h
  | a :: path, c, h => by
    simp only [segLen, List.takeWhile_cons] at h
    split at h
    · rename_i ha
      cases c with
      | zero => exact ⟨a, path, rfl, by simpa using ha⟩
      | succ c =>
        simp only [List.length_cons, Nat.add_lt_add_iff_right] at h
        simpa using head_drop_lt_segLen path c h
    · simp at h

mutual
def Node.clear : Node → Node
  | .mk x s dc d wc w ec e _ _ dirty =>
    .mk x (Kids.clear s) (Kids.clear dc) (Kids.clear d) (Kids.clear wc) (Kids.clear w) (Kids.clear ec) (Kids.clear e)
      false false dirty
def Kids.clear : Kids → Kids
  | .nil => .nil
  | .cons l n r => .cons l (Node.clear n) (Kids.clear r)
end

def childOK (n : Node) : Prop := n.onlyStatic ∧ Kids.allSlash n.statics

-- a flag may be set only if every child of the kind is a leaf or continues with '/'
mutual
def Node.FS : Node → Prop
  | .mk _ s dc d wc w _ _ ds ws _ =>
    (ds = true → Kids.All (fun _ c => childOK c) dc ∧ Kids.All (fun _ c => childOK c) d) ∧
    (ws = true → Kids.All (fun _ c => childOK c) wc ∧ Kids.All (fun _ c => childOK c) w) ∧
    Kids.FSk s ∧ Kids.FSk dc ∧ Kids.FSk d ∧ Kids.FSk wc ∧ Kids.FSk w
def Kids.FSk : Kids → Prop
  | .nil => True
  | .cons _ n r => Node.FS n ∧ Kids.FSk r
end

theorem data_clear : ∀ (n : Node), (Node.clear n).data = n.data
  | .mk _ _ _ _ _ _ _ _ _ _ _ => by simp [Node.clear, Node.data]

theorem searchEndC_clear (env : Env) (path : Bytes) (ps : Params) : ∀ (ks : Kids),
    Kids.searchEndC env (Kids.clear ks) path ps = Kids.searchEndC env ks path ps
  | .nil => by simp [Kids.clear]
  | .cons l n r => by simp only [Kids.clear, Kids.searchEndC, data_clear, searchEndC_clear env path ps r]

theorem searchEnd_clear (env : Env) (path : Bytes) (ps : Params) : ∀ (ks : Kids),
    Kids.searchEnd env (Kids.clear ks) path ps = Kids.searchEnd env ks path ps
  | .nil => by simp [Kids.clear]
  | .cons l n r => by simp only [Kids.clear, Kids.searchEnd, data_clear]

/-- skipping, for every child of a vector, candidates whose continuation fails -/
theorem searchPar_filter (env : Env) (cons : Bool) (P : Nat → Bool) (cs : List Nat) (path : Bytes) (ps : Params) :
    ∀ (ks : Kids),
    Kids.All (fun _ c => ∀ cnd ∈ cs, P cnd = false → ∀ q, Node.search env c (path.drop cnd) q = none) ks →
    Kids.searchPar env cons cs ks path ps = Kids.searchPar env cons (cs.filter P) ks path ps
  | .nil, _ => rfl
  | .cons l n r, h => by
    simp only [Kids.All] at h
    simp only [Kids.searchPar]
    rw [tryCands_filter env _ _ _ _ _ P cs none h.1, searchPar_filter env cons P cs path ps r h.2]

theorem childOK_dyn_skip (env : Env) (path : Bytes) (c : Node) (hc : childOK c) :
    ∀ cnd ∈ candsInline false path, (cnd == segLen path) = false → ∀ q, Node.search env c (path.drop cnd) q = none := by
  intro cnd hmem hP q
  have hle := candsInline_dyn_le path cnd hmem
  have hne : cnd ≠ segLen path := by simpa using hP
  obtain ⟨b, tl, hdrop, hb⟩ := head_drop_lt_segLen path cnd (by omega)
  rw [hdrop]
  exact search_none_nonslash env b tl q hb c hc.1 hc.2

theorem childOK_wild_skip (env : Env) (path : Bytes) (c : Node) (hc : childOK c) :
    ∀ cnd ∈ candsInline true path, (cnd == path.length || (path.drop cnd).head? == some 47) = false →
      ∀ q, Node.search env c (path.drop cnd) q = none := by
  intro cnd hmem hP q
  have hb := candsInline_bounds true path cnd hmem
  simp only [Bool.or_eq_false_iff, beq_eq_false_iff_ne, ne_eq] at hP
  have hlt : cnd < path.length := by omega
  cases hdrop : path.drop cnd with
  | nil =>
    have := congrArg List.length hdrop
    simp only [List.length_drop, List.length_nil] at this; omega
  | cons b tl =>
    have hb47 : b ≠ 47 := by
      intro e; apply hP.2; simp [hdrop, e]
    exact search_none_nonslash env b tl q hb47 c hc.1 hc.2

theorem searchPar_dyn_flag (env : Env) (cons ds : Bool) (ks : Kids) (path : Bytes) (ps : Params)
    (hIH : ∀ cs, Kids.searchPar env cons cs ks path ps = Kids.searchPar env cons cs (Kids.clear ks) path ps)
    (hok : ds = true → Kids.All (fun _ c => childOK c) ks) :
    Kids.searchPar env cons (if ds = true then candsSegment false path else candsInline false path) ks path ps =
      Kids.searchPar env cons (candsInline false path) (Kids.clear ks) path ps := by
  rw [← hIH]
  cases ds with
  | false => rfl
  | true =>
    simp only [ite_true, candsSegment_dyn]
    exact (searchPar_filter env cons _ _ path ps ks
      (Kids.All_imp (fun _ c hc => childOK_dyn_skip env path c hc) ks (hok rfl))).symm

theorem searchPar_wild_flag (env : Env) (cons ws : Bool) (ks : Kids) (path : Bytes) (ps : Params)
    (hIH : ∀ cs, Kids.searchPar env cons cs ks path ps = Kids.searchPar env cons cs (Kids.clear ks) path ps)
    (hok : ws = true → Kids.All (fun _ c => childOK c) ks) :
    Kids.searchPar env cons (if ws = true then candsSegment true path else candsInline true path) ks path ps =
      Kids.searchPar env cons (candsInline true path) (Kids.clear ks) path ps := by
  rw [← hIH]
  cases ws with
  | false => rfl
  | true =>
    simp only [ite_true, candsSegment_wild]
    exact (searchPar_filter env cons _ _ path ps ks
      (Kids.All_imp (fun _ c hc => childOK_wild_skip env path c hc) ks (hok rfl))).symm

-- T-strategy: with sound flags, the search does not depend on the flags.
mutual
theorem Node.search_clear (env : Env) : ∀ (n : Node) (path : Bytes) (ps : Params), Node.FS n →
    Node.search env n path ps = Node.search env (Node.clear n) path ps
  | .mk x s dc d wc w ec e ds ws dirty, path, ps, hFS => by
    simp only [Node.FS] at hFS
    obtain ⟨hds, hws, hs, hdc, hd, hwc, hw⟩ := hFS
    simp only [Node.search, Node.clear]
    split
    · rfl
    · simp only [Bool.false_eq_true, ite_false]
      rw [Kids.searchStatic_clear env s path ps hs,
        searchPar_dyn_flag env true ds dc path ps (fun cs => Kids.searchPar_clear env true cs dc path ps hdc) (fun h => (hds h).1),
        searchPar_dyn_flag env false ds d path ps (fun cs => Kids.searchPar_clear env false cs d path ps hd) (fun h => (hds h).2),
        searchPar_wild_flag env true ws wc path ps (fun cs => Kids.searchPar_clear env true cs wc path ps hwc) (fun h => (hws h).1),
        searchPar_wild_flag env false ws w path ps (fun cs => Kids.searchPar_clear env false cs w path ps hw) (fun h => (hws h).2),
        searchEndC_clear, searchEnd_clear]
theorem Kids.searchStatic_clear (env : Env) : ∀ (s : Kids) (path : Bytes) (ps : Params), Kids.FSk s →
    Kids.searchStatic env s path ps = Kids.searchStatic env (Kids.clear s) path ps
  | .nil, _, _, _ => rfl
  | .cons l n r, path, ps, h => by
    simp only [Kids.FSk] at h
    simp only [Kids.searchStatic, Kids.clear]
    rw [Kids.searchStatic_clear env r path ps h.2]
    split
    · rw [Node.search_clear env n _ ps h.1]
    · rfl
theorem Kids.searchPar_clear (env : Env) : ∀ (cons : Bool) (cs : List Nat) (ks : Kids) (path : Bytes) (ps : Params),
    Kids.FSk ks → Kids.searchPar env cons cs ks path ps = Kids.searchPar env cons cs (Kids.clear ks) path ps
  | _, _, .nil, _, _, _ => rfl
  | cons, cs, .cons l n r, path, ps, h => by
    simp only [Kids.FSk] at h
    simp only [Kids.searchPar, Kids.clear]
    rw [Kids.searchPar_clear env cons cs r path ps h.2]
    congr 1
    apply tryCands_congr
    intro c _ q
    exact Node.search_clear env n _ q h.1
end

#print axioms Node.search_clear
