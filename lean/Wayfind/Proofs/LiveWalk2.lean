import Wayfind.Proofs.LiveWalk

/-! C06, delete half, on live templates: deleting a template changes the result only for paths one of its expansions fits. -/

theorem specRoutes_mem_iff_tree {r : Router} {L : List LiveT} (h : Live r L) (P : List Part) (i : Info) :
    Mem ((Node.routes r.root).map (Route.mapI eraseCell)) P i ↔ Mem (specRoutes L) P i := by
  have hreg := h.rinv.reg
  have hS := hreg.shp
  have hwf : ∀ lt ∈ L, ∀ e ∈ lt.exps, wfParts e.2 = true := fun lt hlt e he => parse_wf (hreg.parsed lt hlt) e he
  rw [mem_specRoutes hwf]
  constructor
  · intro hm
    obtain ⟨j, ⟨rt, hr, hn, hj⟩, rfl⟩ := mem_mapI.1 hm
    obtain ⟨hw, hf⟩ := route_find hS rt hr
    rw [hn, hj] at hf; rw [hn] at hw
    obtain ⟨lt, hlt, e, he, hk, hok⟩ := hreg.sound P j hw hf
    exact ⟨lt, hlt, e, he, hk, erase_eq_specInfo hok⟩
  · rintro ⟨lt, hlt, e, he, rfl, rfl⟩
    obtain ⟨j, hf, hok⟩ := hreg.complete lt hlt e he
    have := (Node.find_iff r.root e.2 j hS (hwf lt hlt e he)).1 hf
    exact mem_mapI.2 ⟨j, this, (erase_eq_specInfo hok).symm⟩

theorem specRoutes_sne {r : Router} {L : List LiveT} (h : Live r L) : SNE (specRoutes L) := by
  have hreg := h.rinv.reg
  intro rt hr
  simp only [specRoutes, List.mem_flatMap, specRoutesOf, List.mem_map] at hr
  obtain ⟨lt, hlt, e, he, rfl⟩ := hr
  exact statsNE_of_wf _ (parse_wf (hreg.parsed lt hlt) e he)

theorem specRoutes_fun {r : Router} {L : List LiveT} (h : Live r L) : Fun (specRoutes L) := by
  have hS := h.rinv.reg.shp
  intro P a b ha hb
  have ha' := (specRoutes_mem_iff_tree h P a).2 ha
  have hb' := (specRoutes_mem_iff_tree h P b).2 hb
  obtain ⟨ja, hma, rfl⟩ := mem_mapI.1 ha'
  obtain ⟨jb, hmb, rfl⟩ := mem_mapI.1 hb'
  rw [routes_Fun r.root hS P ja jb hma hmb]

/-- **C06, delete half.** Deleting a live template leaves the result of every path that none of its expansions fits exactly
as it was. -/
theorem delete_changes_only_fitting_paths (env : Env) {r : Router} {L : List LiveT} (h : Live r L) (lt : LiveT) (hlt : lt ∈ L)
    (path : Bytes) (hnofit : ∀ e ∈ lt.exps, ¬ ∃ vs, Fits env e.2 path vs) :
    (r.delete lt.template).2.search env path = r.search env path := by
  obtain ⟨_, h'⟩ := delete_live_api h lt hlt
  rw [search_is_walk_over_live env h' path, search_is_walk_over_live env h path]
  congr 1
  have hreg := h.rinv.reg
  have hwf : ∀ lt ∈ L, ∀ e ∈ lt.exps, wfParts e.2 = true := fun lt hlt e he => parse_wf (hreg.parsed lt hlt) e he
  have hwf' : ∀ x ∈ L.filter (fun x => x.template != lt.template), ∀ e ∈ x.exps, wfParts e.2 = true :=
    fun x hx e he => hwf x (List.mem_filter.1 hx).1 e he
  apply refWalk_ext env path.length _ _ path [] (Nat.le_refl _) (specRoutes_sne h') (specRoutes_sne h) (specRoutes_fun h') (specRoutes_fun h)
  constructor
  · intro P i hm
    obtain ⟨x, hx, e, he, hP, hi⟩ := (mem_specRoutes hwf').1 hm
    exact (mem_specRoutes hwf).2 ⟨x, (List.mem_filter.1 hx).1, e, he, hP, hi⟩
  · intro P i hm
    obtain ⟨x, hx, e, he, hP, hi⟩ := (mem_specRoutes hwf).1 hm
    by_cases hxt : x.template = lt.template
    · -- a route of the deleted template: it does not fit
      right
      have hexps : x.exps = lt.exps := by
        have a := hreg.parsed x hx
        have b := hreg.parsed lt hlt
        rw [hxt, b] at a; injection a with a; exact a.symm
      rw [hexps] at he
      rw [← hP]
      exact hnofit e he
    · left
      exact (mem_specRoutes hwf').2 ⟨x, List.mem_filter.2 ⟨hx, by simpa using hxt⟩, e, he, hP, hi⟩

#print axioms delete_changes_only_fitting_paths
