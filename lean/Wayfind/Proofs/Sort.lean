import Wayfind.Proofs.Edge

theorem lexLt_irrefl : ∀ a : Bytes, lexLt a a = false
  | [] => rfl
  | x :: a => by simp [lexLt, lexLt_irrefl a]

theorem Label.lt_irrefl (a : Label) : Label.lt a a = false := by
  simp [Label.lt, lexLt_irrefl]

theorem mem_insertLabel {x l : Label} {L : List Label} : x ∈ insertLabel l L → x = l ∨ x ∈ L := by
  induction L with
  | nil => simp [insertLabel]
  | cons h t ih =>
    simp only [insertLabel]
    split
    · intro hx; exact Or.inr hx
    · split
      · intro hx; simp at hx; rcases hx with rfl | rfl | hx <;> simp [*]
      · intro hx; simp at hx; rcases hx with rfl | hx
        · simp
        · rcases ih hx with rfl | hx' <;> simp [*]

theorem mem_sortLabels {x : Label} {X : List Label} : x ∈ sortLabels X → x ∈ X := by
  induction X with
  | nil => simp [sortLabels]
  | cons h t ih =>
    intro hx
    simp only [sortLabels, List.foldr] at hx
    rcases mem_insertLabel hx with rfl | hx'
    · simp
    · exact List.mem_cons_of_mem _ (ih hx')

/-- inserting a label that is below everything already there puts it in front -/
theorem insertLabel_lt_all (l : Label) (L : List Label) (h : ∀ x ∈ L, Label.lt l x = true) :
    insertLabel l L = l :: L := by
  cases L with
  | nil => rfl
  | cons x t =>
    have hx := h x (by simp)
    have : l ≠ x := by intro e; subst e; rw [Label.lt_irrefl] at hx; cases hx
    simp [insertLabel, this, hx]

theorem insertLabel_head (l : Label) (L : List Label) : insertLabel l (l :: L) = l :: L := by
  simp [insertLabel]

/-- sorting `m ≥ 1` copies of `l` followed by labels all above `l` -/
theorem sortLabels_replicate_append (l : Label) (m : Nat) (X : List Label)
    (h : ∀ x ∈ X, Label.lt l x = true) :
    sortLabels (List.replicate (m+1) l ++ X) = l :: sortLabels X := by
  induction m with
  | zero =>
    simp only [Nat.zero_add, List.replicate_one, List.singleton_append, sortLabels, List.foldr]
    exact insertLabel_lt_all l _ (fun x hx => h x (mem_sortLabels hx))
  | succ m ih =>
    have : List.replicate (m + 1 + 1) l ++ X = l :: (List.replicate (m+1) l ++ X) := by
      simp [List.replicate_succ]
    rw [this]
    simp only [sortLabels, List.foldr] at ih ⊢
    rw [ih, insertLabel_head]

def Kids.labels : Kids → List Label
  | .nil => []
  | .cons l _ r => l :: Kids.labels r

/-- strictly increasing in the sibling order -/
def SortedL (L : List Label) : Prop := L.Pairwise (fun a b => Label.lt a b = true)
