import Wayfind.Proofs.SearchC2
import Wayfind.Proofs.Registry10
import Wayfind.Proofs.CloneCells

/-! On every router reached through the API every constraint name stored in the tree is registered, so the checked
search never panics there (`check_constraint`'s `constraints.get(name).unwrap()` included). -/

/-- induction along histories -/
theorem Live.induction (P : Router → List LiveT → Prop) (h0 : ∀ b, P { registry := b } [])
    (hstep : ∀ r L c, Live r L → P r L → P (r.step c) (liveAfter r L c)) : ∀ r L, Live r L → P r L := by
  intro r L h
  obtain ⟨b, calls, he⟩ := h
  have key : ∀ (calls : List Call) (r0 : Router) (L0 : List LiveT), Live r0 L0 → P r0 L0 →
      P (runLive r0 L0 calls).1 (runLive r0 L0 calls).2 := by
    intro calls
    induction calls with
    | nil => intro r0 L0 _ hp; exact hp
    | cons c cs ih => intro r0 L0 hl hp; simp only [runLive]; exact ih _ _ (hl.step c) (hstep r0 L0 c hl hp)
  have := key calls { registry := b } [] ⟨b, [], rfl⟩ (h0 b)
  rw [← he] at this
  exact this

/-- the constraint names of the live templates are registered -/
def ConsReg (r : Router) (L : List LiveT) : Prop :=
  ∀ lt ∈ L, ∀ e ∈ lt.exps, ∀ p ∈ e.2, ∀ c, p.consName = some c → r.registry.any (·.1 == c) = true

theorem step_registry_grows (r : Router) (c : Call) (name : Bytes) (h : r.registry.any (·.1 == name) = true) :
    (r.step c).registry.any (·.1 == name) = true := by
  cases c with
  | constraint n ty =>
    simp only [Router.step, Router.constraint]
    split <;> rename_i heq
    · split at heq
      · cases heq
      · injection heq with heq; subst heq
        simp only [List.any_append, Bool.or_eq_true]; exact Or.inl h
    · exact h
  | insert t d =>
    simp only [Router.step]
    cases hi : r.insert t d with
    | error e => exact h
    | ok r' =>
      obtain ⟨ts, _, _, _, rfl⟩ := (Router.insert_ok_iff r r' t d).1 hi
      simp only [Router.insertOk]
      split <;> exact h
  | delete t =>
    simp only [Router.step, Router.delete]
    split
    · exact h
    · split
      · exact h
      · split
        · exact h
        · simp only [Router.deleteOk]; split <;> exact h
  | clone => exact h

theorem Live.consReg {r : Router} {L : List LiveT} (h : Live r L) : ConsReg r L := by
  refine Live.induction ConsReg (fun b lt hlt => by cases hlt) ?_ r L h
  intro r L c _ hp
  have grow : ∀ lt ∈ L, ∀ e ∈ lt.exps, ∀ p ∈ e.2, ∀ c', p.consName = some c' → (r.step c).registry.any (·.1 == c') = true :=
    fun lt hlt e he p hpm c' hc => step_registry_grows r c c' (hp lt hlt e he p hpm c' hc)
  cases c with
  | constraint n ty => exact grow
  | clone => exact grow
  | delete t =>
    intro lt hlt
    have hsub : lt ∈ L := by
      simp only [liveAfter] at hlt
      split at hlt
      · split at hlt
        · exact (List.mem_filter.1 hlt).1
        · exact hlt
      · exact hlt
    exact grow lt hsub
  | insert t d =>
    intro lt hlt
    simp only [liveAfter] at hlt
    cases hi : r.insert t d with
    | error e => rw [hi] at hlt; exact grow lt hlt
    | ok r' =>
      obtain ⟨ts, hp', hu, _, _⟩ := (Router.insert_ok_iff r r' t d).1 hi
      rw [hi, hp'] at hlt
      simp only at hlt
      rcases List.mem_append.1 hlt with hl | hl
      · exact grow lt hl
      · simp only [List.mem_singleton] at hl; subst hl
        intro e he p hpm c' hc
        unfold firstUnknown at hu
        have := List.find?_eq_none.1 hu c' (by
          simp only [List.mem_flatMap, List.mem_filterMap, List.mem_reverse]
          exact ⟨e, he, p, hpm, hc⟩)
        have hk : r.registry.any (·.1 == c') = true := by simpa using this
        exact step_registry_grows r (.insert t d) c' hk

/-- parameters survive normalisation (which only glues adjacent literals) -/
theorem par_mem_norm : ∀ (P : List Part) (k : PKind) (l : Label), Part.par k l ∈ P → Part.par k l ∈ norm P
  | [], _, _, h => by cases h
  | .stat a :: rest, k, l, h => by
    have hr : Part.par k l ∈ rest := by
      rcases List.mem_cons.1 h with h | h
      · cases h
      · exact h
    have ih := par_mem_norm rest k l hr
    simp only [norm]
    split
    · rename_i b r' heq
      rw [heq] at ih
      rcases List.mem_cons.1 ih with h' | h'
      · cases h'
      · exact List.mem_cons_of_mem _ h'
    · exact List.mem_cons_of_mem _ ih
  | .par k' l' :: rest, k, l, h => by
    simp only [norm]
    rcases List.mem_cons.1 h with h | h
    · rw [h]; exact List.mem_cons_self
    · exact List.mem_cons_of_mem _ (par_mem_norm rest k l h)

theorem consName_par {p : Part} {c : Bytes} (h : p.consName = some c) : ∃ k l, p = .par k l := by
  cases p with
  | stat a => simp [Part.consName] at h
  | par k l => exact ⟨k, l, rfl⟩

theorem leaves_All : ∀ (ks : Kids), Kids.leaves ks → Kids.All (fun _ n => Node.Shp n ∧ Node.routes n ≠ []) ks
  | .nil, _ => trivial
  | .cons l n r, hl => by
    simp only [Kids.leaves] at hl
    obtain ⟨⟨i, ds', ws', dirty', rfl⟩, hr⟩ := hl
    refine ⟨⟨?_, ?_⟩, leaves_All r hr⟩
    · simp [Node.Shp, Kids.All, Kids.distinctHeads, Kids.leaves, Kids.labels, NodupL, Kids.Shpk]
    · simp [Node.routes, Kids.routes]

mutual
theorem Node.consOK_of_routes (known : Bytes → Bool) : ∀ (n : Node), Node.Shp n →
    (∀ r ∈ Node.routes n, ∀ p ∈ r.parts, ∀ c, p.consName = some c → known c = true) → Node.consOK known n
  | .mk x s dc d wc w ec e ds ws dirty, hS, h => by
    have hS0 := hS
    simp only [Node.Shp] at hS
    obtain ⟨_, _, _, _, hecl, hel, _, _, _, _, _, _, _, _, _, _, ks, kdc, kd, kwc, kw⟩ := hS
    rw [Node.routes_mk] at h
    simp only [Node.consOK]
    refine ⟨?_, ?_, ?_, ?_, ?_, ?_, ?_⟩
    · exact Kids.consOK_of_routes known false _ (fun _ hc => by cases hc) s ((Shpk_iff_All s).1 ks)
        (fun r hr => h r (by simp only [List.mem_append]; exact Or.inl (Or.inl (Or.inl (Or.inl (Or.inl (Or.inl (Or.inr hr))))))))
    · exact Kids.consOK_of_routes known true _ (fun _ _ => rfl) dc ((Shpk_iff_All dc).1 kdc)
        (fun r hr => h r (by simp only [List.mem_append]; exact Or.inl (Or.inl (Or.inl (Or.inl (Or.inl (Or.inr hr)))))))
    · exact Kids.consOK_of_routes known false _ (fun _ hc => by cases hc) d ((Shpk_iff_All d).1 kd)
        (fun r hr => h r (by simp only [List.mem_append]; exact Or.inl (Or.inl (Or.inl (Or.inl (Or.inr hr))))))
    · exact Kids.consOK_of_routes known true _ (fun _ _ => rfl) wc ((Shpk_iff_All wc).1 kwc)
        (fun r hr => h r (by simp only [List.mem_append]; exact Or.inl (Or.inl (Or.inl (Or.inr hr)))))
    · exact Kids.consOK_of_routes known false _ (fun _ hc => by cases hc) w ((Shpk_iff_All w).1 kw)
        (fun r hr => h r (by simp only [List.mem_append]; exact Or.inl (Or.inl (Or.inr hr))))
    · exact Kids.consOK_of_routes known true _ (fun _ _ => rfl) ec (leaves_All ec hecl)
        (fun r hr => h r (by simp only [List.mem_append]; exact Or.inl (Or.inr hr)))
    · exact Kids.consOK_of_routes known false _ (fun _ hc => by cases hc) e (leaves_All e hel)
        (fun r hr => h r (by simp only [List.mem_append]; exact Or.inr hr))
theorem Kids.consOK_of_routes (known : Bytes → Bool) (constrained : Bool) (mk : Label → Part)
    (hmk : ∀ l, constrained = true → (mk l).consName = some l.cons) : ∀ (ks : Kids),
    Kids.All (fun _ n => Node.Shp n ∧ Node.routes n ≠ []) ks →
    (∀ r ∈ Kids.routes mk ks, ∀ p ∈ r.parts, ∀ c, p.consName = some c → known c = true) → Kids.consOK known constrained ks
  | .nil, _, _ => trivial
  | .cons l n r, hA, h => by
    simp only [Kids.All] at hA
    obtain ⟨⟨hSn, hne⟩, hAr⟩ := hA
    simp only [Kids.routes] at h
    refine ⟨?_, ?_, ?_⟩
    · intro hc
      obtain ⟨r0, hr0⟩ := List.exists_mem_of_ne_nil _ hne
      exact h (Route.push (mk l) r0) (List.mem_append.2 (Or.inl (List.mem_map.2 ⟨r0, hr0, rfl⟩))) (mk l)
        (by simp [Route.push]) l.cons (hmk l hc)
    · apply Node.consOK_of_routes known n hSn
      intro r0 hr0 p hp c hc
      exact h (Route.push (mk l) r0) (List.mem_append.2 (Or.inl (List.mem_map.2 ⟨r0, hr0, rfl⟩))) p
        (by simp [Route.push, hp]) c hc
    · exact Kids.consOK_of_routes known constrained mk hmk r hAr (fun r0 hr0 => h r0 (List.mem_append.2 (Or.inr hr0)))
end

/-- **on every router reached through the API, every constraint name in the tree is registered** -/
theorem live_consOK {r : Router} {L : List LiveT} (h : Live r L) :
    Node.consOK (fun c => r.registry.any (·.1 == c)) r.root := by
  have hreg := h.rinv.reg
  have hcr := h.consReg
  apply Node.consOK_of_routes _ r.root hreg.shp
  intro rt hrt p hp c hc
  obtain ⟨hwf, hf⟩ := route_find hreg.shp rt hrt
  obtain ⟨lt, hlt, e, he, hk, _⟩ := hreg.sound _ _ hwf hf
  obtain ⟨k, l, rfl⟩ := consName_par hc
  have hmem : Part.par k l ∈ e.2 := by rw [hk]; exact par_mem_norm rt.parts k l hp
  exact hcr lt hlt e he _ hmem c hc

/-- **`Router::search` never panics** on a router reached through any history of API calls (clones included): in the
checked transcription of `src/node/search.rs` no index, slice, `usize` subtraction or registry `unwrap` fails, and
the result is that of the list-based model -/
theorem live_searchC {r : Router} {L : List LiveT} (h : Live r L) (env : Env) (path : Bytes) (ps : Params) :
    Node.searchC ⟨env, fun c => r.registry.any (·.1 == c)⟩ r.root path ps = .ok (Node.search env r.root path ps) :=
  Node.searchC_eq ⟨env, fun c => r.registry.any (·.1 == c)⟩ r.root (live_consOK h) path ps
