import Wayfind.Proofs.FitsFacts
import Wayfind.Spec.Norm

/-! `Fits` does not see how literal text is split into parts -/

theorem Fits_stat_iff (env : Env) (p : Bytes) (rest : List Part) (path : Bytes) (vs : Params) :
    Fits env (.stat p :: rest) path vs ↔ p ≠ [] ∧ ∃ path', path = p ++ path' ∧ Fits env rest path' vs := by
  constructor
  · intro h
    cases h with
    | stat _ path' _ _ hne hf => exact ⟨hne, path', rfl, hf⟩
  · rintro ⟨hne, path', rfl, hf⟩
    exact Fits.stat p path' vs rest hne hf

theorem Fits_par_iff (env : Env) (k : PKind) (l : Label) (rest : List Part) (path : Bytes) (vs : Params) :
    Fits env (.par k l :: rest) path vs ↔
      ∃ v path' vs', path = v ++ path' ∧ vs = (l.name, v) :: vs' ∧ v ≠ [] ∧ (wildK k = false → (47 : Byte) ∉ v) ∧
        env.valid v = true ∧ (consK k = true → env.chk l.cons v = true) ∧ Fits env rest path' vs' := by
  constructor
  · intro h
    cases h with
    | par _ _ v path' vs' _ h1 h2 h3 h4 h5 => exact ⟨v, path', vs', rfl, rfl, h1, h2, h3, h4, h5⟩
  · rintro ⟨v, path', vs', rfl, rfl, h1, h2, h3, h4, h5⟩
    exact Fits.par k l v path' vs' rest h1 h2 h3 h4 h5

theorem Fits_norm (env : Env) : ∀ (P : List Part), statsNE P → ∀ (path : Bytes) (vs : Params),
    (Fits env P path vs ↔ Fits env (norm P) path vs)
  | [], _, _, _ => by simp [norm]
  | .par k l :: rest, hs, path, vs => by
    simp only [statsNE] at hs
    simp only [norm, Fits_par_iff]
    constructor
    · rintro ⟨v, p', vs', h1, h2, h3, h4, h5, h6, h7⟩
      exact ⟨v, p', vs', h1, h2, h3, h4, h5, h6, (Fits_norm env rest hs p' vs').1 h7⟩
    · rintro ⟨v, p', vs', h1, h2, h3, h4, h5, h6, h7⟩
      exact ⟨v, p', vs', h1, h2, h3, h4, h5, h6, (Fits_norm env rest hs p' vs').2 h7⟩
  | .stat a :: rest, hs, path, vs => by
    simp only [statsNE] at hs
    obtain ⟨ha, hs'⟩ := hs
    have ih := Fits_norm env rest hs'
    have hsn := norm_statsNE rest hs'
    simp only [norm]
    split
    · rename_i b r heq
      rw [heq] at ih hsn
      simp only [statsNE] at hsn
      rw [Fits_stat_iff, Fits_stat_iff]
      constructor
      · rintro ⟨_, p', rfl, hf⟩
        obtain ⟨_, p'', rfl, hf'⟩ := (Fits_stat_iff env b r p' vs).1 ((ih p' vs).1 hf)
        exact ⟨by simp [ha], p'', by simp, hf'⟩
      · rintro ⟨_, p'', rfl, hf'⟩
        refine ⟨ha, b ++ p'', by simp, (ih _ vs).2 ?_⟩
        exact (Fits_stat_iff env b r _ vs).2 ⟨hsn.1, p'', rfl, hf'⟩
    · rw [Fits_stat_iff, Fits_stat_iff]
      constructor
      · rintro ⟨h1, p', rfl, hf⟩; exact ⟨h1, p', rfl, (ih p' vs).1 hf⟩
      · rintro ⟨h1, p', rfl, hf⟩; exact ⟨h1, p', rfl, (ih p' vs).2 hf⟩
