import Wayfind.Proofs.Restrict

mutual
def Node.TS : Node → Prop
  | .mk _ s dc d wc w ec e ds ws _ =>
    ds = false ∧ ws = false ∧
    Kids.TSk s ∧ Kids.TSk dc ∧ Kids.TSk d ∧ Kids.TSk wc ∧ Kids.TSk w ∧
    Kids.All (fun l _ => l.pre ≠ []) s ∧ Kids.distinctHeads s ∧
    Kids.All (fun _ n => n.data = none) wc ∧ Kids.All (fun _ n => n.data = none) w ∧
    Kids.leaves ec ∧ Kids.leaves e ∧
    SortedL dc.labels ∧ SortedL d.labels ∧ SortedL wc.labels ∧ SortedL w.labels ∧
    SortedL ec.labels ∧ SortedL e.labels
def Kids.TSk : Kids → Prop
  | .nil => True
  | .cons _ n r => Node.TS n ∧ Node.routes n ≠ [] ∧ Kids.TSk r
end

section restrict
variable {α : Type} (f : Route → Option α) (x : Option Info) (s dc d wc w ec e : Kids) (ds ws dirty : Bool)

theorem restrict_static (b : Byte) :
    (Node.routes (.mk x s dc d wc w ec e ds ws dirty)).filterMap (stripByte b) =
      (Kids.routes statPart s).filterMap (stripByte b) := by
  simp only [routes_eq, List.filterMap_append,
    filterMap_eq_nil_of _ _ (dataRoute_stripByte x b),
    filterMap_eq_nil_of _ _ (stripByte_none_par b _ dc), filterMap_eq_nil_of _ _ (stripByte_none_par b _ d),
    filterMap_eq_nil_of _ _ (stripByte_none_par b _ wc), filterMap_eq_nil_of _ _ (stripByte_none_par b _ w),
    filterMap_eq_nil_of _ _ (stripByte_none_par b _ ec), filterMap_eq_nil_of _ _ (stripByte_none_par b _ e),
    List.nil_append, List.append_nil]

theorem statPart_stat : ∀ l, ∃ p, statPart l = .stat p := fun l => ⟨l.pre, rfl⟩

theorem restrict_dynC (hf : ∀ r, headPar .dynC false r = none → f r = none) :
    (Node.routes (.mk x s dc d wc w ec e ds ws dirty)).filterMap f = (Kids.routes (.par .dynC) dc).filterMap f := by
  simp only [routes_eq, List.filterMap_append,
    filterMap_eq_nil_of f _ (fun r hr => hf r (dataRoute_headPar x _ _ r hr)),
    filterMap_eq_nil_of f _ (fun r hr => hf r (headPar_none_stat _ _ statPart statPart_stat s r hr)),
    filterMap_eq_nil_of f _ (fun r hr => hf r (headPar_none_kind .dynC .dyn _ (by decide) d r hr)),
    filterMap_eq_nil_of f _ (fun r hr => hf r (headPar_none_kind .dynC .wildC _ (by decide) wc r hr)),
    filterMap_eq_nil_of f _ (fun r hr => hf r (headPar_none_kind .dynC .wild _ (by decide) w r hr)),
    filterMap_eq_nil_of f _ (fun r hr => hf r (headPar_none_kind .dynC .wildC _ (by decide) ec r hr)),
    filterMap_eq_nil_of f _ (fun r hr => hf r (headPar_none_kind .dynC .wild _ (by decide) e r hr)),
    List.nil_append, List.append_nil]

theorem restrict_dyn (hf : ∀ r, headPar .dyn false r = none → f r = none) :
    (Node.routes (.mk x s dc d wc w ec e ds ws dirty)).filterMap f = (Kids.routes (.par .dyn) d).filterMap f := by
  simp only [routes_eq, List.filterMap_append,
    filterMap_eq_nil_of f _ (fun r hr => hf r (dataRoute_headPar x _ _ r hr)),
    filterMap_eq_nil_of f _ (fun r hr => hf r (headPar_none_stat _ _ statPart statPart_stat s r hr)),
    filterMap_eq_nil_of f _ (fun r hr => hf r (headPar_none_kind .dyn .dynC _ (by decide) dc r hr)),
    filterMap_eq_nil_of f _ (fun r hr => hf r (headPar_none_kind .dyn .wildC _ (by decide) wc r hr)),
    filterMap_eq_nil_of f _ (fun r hr => hf r (headPar_none_kind .dyn .wild _ (by decide) w r hr)),
    filterMap_eq_nil_of f _ (fun r hr => hf r (headPar_none_kind .dyn .wildC _ (by decide) ec r hr)),
    filterMap_eq_nil_of f _ (fun r hr => hf r (headPar_none_kind .dyn .wild _ (by decide) e r hr)),
    List.nil_append, List.append_nil]

theorem restrict_wildC (hec : Kids.leaves ec) (hf : ∀ r, headPar .wildC false r = none → f r = none) :
    (Node.routes (.mk x s dc d wc w ec e ds ws dirty)).filterMap f = (Kids.routes (.par .wildC) wc).filterMap f := by
  simp only [routes_eq, List.filterMap_append,
    filterMap_eq_nil_of f _ (fun r hr => hf r (dataRoute_headPar x _ _ r hr)),
    filterMap_eq_nil_of f _ (fun r hr => hf r (headPar_none_stat _ _ statPart statPart_stat s r hr)),
    filterMap_eq_nil_of f _ (fun r hr => hf r (headPar_none_kind .wildC .dynC _ (by decide) dc r hr)),
    filterMap_eq_nil_of f _ (fun r hr => hf r (headPar_none_kind .wildC .dyn _ (by decide) d r hr)),
    filterMap_eq_nil_of f _ (fun r hr => hf r (headPar_none_kind .wildC .wild _ (by decide) w r hr)),
    filterMap_eq_nil_of f _ (fun r hr => hf r (headPar_none_leaves .wildC rfl ec hec r hr)),
    filterMap_eq_nil_of f _ (fun r hr => hf r (headPar_none_kind .wildC .wild _ (by decide) e r hr)),
    List.nil_append, List.append_nil]

theorem restrict_wild (he : Kids.leaves e) (hf : ∀ r, headPar .wild false r = none → f r = none) :
    (Node.routes (.mk x s dc d wc w ec e ds ws dirty)).filterMap f = (Kids.routes (.par .wild) w).filterMap f := by
  simp only [routes_eq, List.filterMap_append,
    filterMap_eq_nil_of f _ (fun r hr => hf r (dataRoute_headPar x _ _ r hr)),
    filterMap_eq_nil_of f _ (fun r hr => hf r (headPar_none_stat _ _ statPart statPart_stat s r hr)),
    filterMap_eq_nil_of f _ (fun r hr => hf r (headPar_none_kind .wild .dynC _ (by decide) dc r hr)),
    filterMap_eq_nil_of f _ (fun r hr => hf r (headPar_none_kind .wild .dyn _ (by decide) d r hr)),
    filterMap_eq_nil_of f _ (fun r hr => hf r (headPar_none_kind .wild .wildC _ (by decide) wc r hr)),
    filterMap_eq_nil_of f _ (fun r hr => hf r (headPar_none_kind .wild .wildC _ (by decide) ec r hr)),
    filterMap_eq_nil_of f _ (fun r hr => hf r (headPar_none_leaves .wild rfl e he r hr)),
    List.nil_append, List.append_nil]

theorem restrict_endC (hwc : Kids.All (fun _ n => n.data = none) wc) (hf : ∀ r, headPar .wildC true r = none → f r = none) :
    (Node.routes (.mk x s dc d wc w ec e ds ws dirty)).filterMap f = (Kids.routes (.par .wildC) ec).filterMap f := by
  simp only [routes_eq, List.filterMap_append,
    filterMap_eq_nil_of f _ (fun r hr => hf r (dataRoute_headPar x _ _ r hr)),
    filterMap_eq_nil_of f _ (fun r hr => hf r (headPar_none_stat _ _ statPart statPart_stat s r hr)),
    filterMap_eq_nil_of f _ (fun r hr => hf r (headPar_none_kind .wildC .dynC _ (by decide) dc r hr)),
    filterMap_eq_nil_of f _ (fun r hr => hf r (headPar_none_kind .wildC .dyn _ (by decide) d r hr)),
    filterMap_eq_nil_of f _ (fun r hr => hf r (headPar_none_mid .wildC rfl wc hwc r hr)),
    filterMap_eq_nil_of f _ (fun r hr => hf r (headPar_none_kind .wildC .wild _ (by decide) w r hr)),
    filterMap_eq_nil_of f _ (fun r hr => hf r (headPar_none_kind .wildC .wild _ (by decide) e r hr)),
    List.nil_append, List.append_nil]

theorem restrict_end (hw : Kids.All (fun _ n => n.data = none) w) (hf : ∀ r, headPar .wild true r = none → f r = none) :
    (Node.routes (.mk x s dc d wc w ec e ds ws dirty)).filterMap f = (Kids.routes (.par .wild) e).filterMap f := by
  simp only [routes_eq, List.filterMap_append,
    filterMap_eq_nil_of f _ (fun r hr => hf r (dataRoute_headPar x _ _ r hr)),
    filterMap_eq_nil_of f _ (fun r hr => hf r (headPar_none_stat _ _ statPart statPart_stat s r hr)),
    filterMap_eq_nil_of f _ (fun r hr => hf r (headPar_none_kind .wild .dynC _ (by decide) dc r hr)),
    filterMap_eq_nil_of f _ (fun r hr => hf r (headPar_none_kind .wild .dyn _ (by decide) d r hr)),
    filterMap_eq_nil_of f _ (fun r hr => hf r (headPar_none_kind .wild .wildC _ (by decide) wc r hr)),
    filterMap_eq_nil_of f _ (fun r hr => hf r (headPar_none_mid .wild rfl w hw r hr)),
    filterMap_eq_nil_of f _ (fun r hr => hf r (headPar_none_kind .wild .wildC _ (by decide) ec r hr)),
    List.nil_append, List.append_nil]
end restrict
