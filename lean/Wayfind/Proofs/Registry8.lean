import Wayfind.Proofs.Registry7
import Wayfind.Proofs.Registry6

/-! the reference-count invariant along histories, and the full outcome of `delete` -/

/-- reference counts: the value of a template without groups is inline; every stored value of a template with groups
holds a cell whose strong count is exactly the number of that template's routes holding it (all of them after an
insert, one per route in a clone); routes of different templates never share a cell -/
structure RcInv (r : Router) (L : List LiveT) : Prop where
  single : ∀ lt ∈ L, lt.exps.length ≤ 1 → ∀ e ∈ lt.exps, ∀ i, Node.find r.root e.2 = some i → i.cell = none
  multi : ∀ lt ∈ L, lt.exps.length > 1 → ∀ e ∈ lt.exps, ∀ i, Node.find r.root e.2 = some i →
    ∃ k, i.cell = some k ∧ k < r.next ∧ rcGet r.rc k = cellKeys r.root k [] lt.exps
  sep : ∀ lt1 ∈ L, ∀ lt2 ∈ L, ∀ e1 ∈ lt1.exps, ∀ e2 ∈ lt2.exps, ∀ i1 i2 k,
    Node.find r.root e1.2 = some i1 → Node.find r.root e2.2 = some i2 → i1.cell = some k → i2.cell = some k →
    lt1.template = lt2.template

theorem insInfo_cell_single (t : Bytes) (d cell : Nat) (x e : Bytes × List Part) : (insInfo t d cell [x] e).cell = none := rfl

theorem insInfo_cell_multi (t : Bytes) (d cell : Nat) (ts : List (Bytes × List Part)) (e : Bytes × List Part) (h : ts.length > 1) :
    (insInfo t d cell ts e).cell = some cell := by
  unfold insInfo
  split
  · simp at h
  · rfl

theorem insertOk_next_rc (r : Router) (t : Bytes) (d : Nat) (ts : List (Bytes × List Part)) (hS : Node.Shp r.root)
    (hwf : ∀ e ∈ ts, wfParts e.2 = true) (hfresh : ∀ e ∈ ts, Node.find r.root e.2 = none) :
    (ts.length ≤ 1 → (r.insertOk t d ts).next ≥ r.next ∧ (r.insertOk t d ts).rc = r.rc ∨ ts = []) ∧
    (ts.length > 1 → (r.insertOk t d ts).next = r.next + 1 ∧ (r.insertOk t d ts).rc = rcSet r.rc r.next (nkeys ts)) := by
  constructor
  · intro hlen
    cases ts with
    | nil => exact Or.inr rfl
    | cons a rest => cases rest with
      | nil => exact Or.inl ⟨Nat.le_refl _, rfl⟩
      | cons b rest' => simp at hlen
  · intro hlen
    unfold Router.insertOk
    split
    · simp at hlen
    · simp only [insertShared_count t d r.next ts r.root hS hwf hfresh, and_self]

/-- the empty list of expansions never occurs for a live template that was inserted, but the invariant does not need it -/
theorem RcInv.empty (b : List (Bytes × Bytes)) : RcInv { registry := b } [] where
  single := by intro lt h; cases h
  multi := by intro lt h; cases h
  sep := by intro lt h; cases h

theorem RcInv.insert {r r' : Router} {L : List LiveT} {t : Bytes} {d : Nat} (hreg : Reg r.root L) (h : RcInv r L)
    (hi : r.insert t d = .ok r') (ts : List (Bytes × List Part)) (hp : parseTemplates t = .ok ts) :
    RcInv r' (L ++ [⟨t, d, ts⟩]) := by
  obtain ⟨ts', hp', _, hc, rfl⟩ := (Router.insert_ok_iff r r' t d).1 hi
  rw [hp] at hp'; injection hp' with hp'; subst hp'
  have hwf := parse_wf hp
  have hfresh := conflictsOf_nil hc
  obtain ⟨hS', hfind⟩ := insertOk_find (d := d) hreg.shp hp hc
  obtain ⟨hsmall, hbig⟩ := insertOk_next_rc r t d ts hreg.shp hwf hfresh
  -- lookups of old keys are unchanged, lookups of new keys give the new values
  have hold : ∀ lt ∈ L, ∀ e ∈ lt.exps, Node.find (r.insertOk t d ts).root e.2 = Node.find r.root e.2 := by
    intro lt hlt e he
    obtain ⟨i, hf, _⟩ := hreg.complete lt hlt e he
    rw [hfind e.2 (parse_wf (hreg.parsed lt hlt) e he)]
    have : lookupIns (ts.map (fun e => (e.2, insInfo t d r.next ts e))) e.2 = none := by
      apply lookupIns_none_of_not_mem
      intro hmem
      obtain ⟨x, hx, hxe⟩ := List.mem_map.1 hmem
      obtain ⟨e', he', rfl⟩ := List.mem_map.1 hx
      have := hfresh e' he'
      simp only at hxe
      rw [hxe, hf] at this; cases this
    rw [this]
  have hnew : ∀ e ∈ ts, ∃ e', Node.find (r.insertOk t d ts).root e.2 = some (insInfo t d r.next ts e') := by
    intro e he
    obtain ⟨e', _, hlk⟩ := lookupIns_new_key (t := t) (d := d) (cell := r.next) e he
    exact ⟨e', by rw [hfind e.2 (hwf e he), hlk]⟩
  have hnext : r.next ≤ (r.insertOk t d ts).next := by
    by_cases hl : ts.length > 1
    · rw [(hbig hl).1]; omega
    · rcases hsmall (by omega) with h1 | h1
      · exact h1.1
      · subst h1; simp [Router.insertOk, insertShared]
  have hrcold : ∀ k, k < r.next → rcGet (r.insertOk t d ts).rc k = rcGet r.rc k := by
    intro k hk
    by_cases hl : ts.length > 1
    · rw [(hbig hl).2, rcGet_rcSet_other _ _ _ _ (by omega)]
    · rcases hsmall (by omega) with h1 | h1
      · rw [h1.2]
      · subst h1; simp [Router.insertOk, insertShared, rcGet_rcSet_other _ _ _ _ (Nat.ne_of_lt hk)]
  refine ⟨?_, ?_, ?_⟩
  · intro lt hlt hlen e he i hf
    rcases List.mem_append.1 hlt with hlt | hlt
    · rw [hold lt hlt e he] at hf; exact h.single lt hlt hlen e he i hf
    · simp only [List.mem_singleton] at hlt; subst hlt
      simp only at hlen he
      obtain ⟨e', hne'⟩ := hnew e he
      rw [hne'] at hf; injection hf with hf; subst hf
      cases ts with
      | nil => cases he
      | cons a rest => cases rest with
        | nil => rfl
        | cons b rest' => simp at hlen
  · intro lt hlt hlen e he i hf
    rcases List.mem_append.1 hlt with hlt | hlt
    · rw [hold lt hlt e he] at hf
      obtain ⟨k, hc, hk, hrc⟩ := h.multi lt hlt hlen e he i hf
      refine ⟨k, hc, by omega, ?_⟩
      rw [hrcold k hk, hrc]
      apply cellKeys_congr
      intro y hy _
      simp only [cellAt, hold lt hlt y hy]
    · simp only [List.mem_singleton] at hlt; subst hlt
      simp only at hlen he
      obtain ⟨e', hne'⟩ := hnew e he
      rw [hne'] at hf; injection hf with hf; subst hf
      refine ⟨r.next, insInfo_cell_multi t d r.next ts e' hlen, by rw [(hbig hlen).1]; omega, ?_⟩
      rw [(hbig hlen).2, rcGet_rcSet_same]
      simp only
      rw [cellKeys_all _ r.next ts [] (by
        intro y hy _
        obtain ⟨y', hy'⟩ := hnew y hy
        rw [cellAt_of_find hy']
        exact insInfo_cell_multi t d r.next ts y' hlen)]
      rfl
  · intro lt1 hlt1 lt2 hlt2 e1 he1 e2 he2 i1 i2 k hf1 hf2 hc1 hc2
    -- cells of old templates are below `r.next`, the new template's cell is `r.next`
    have oldcell : ∀ lt ∈ L, ∀ e ∈ lt.exps, ∀ i k, Node.find (r.insertOk t d ts).root e.2 = some i → i.cell = some k → k < r.next := by
      intro lt hlt e he i k hf hc
      rw [hold lt hlt e he] at hf
      by_cases hl : lt.exps.length > 1
      · obtain ⟨k', hc', hk', _⟩ := h.multi lt hlt hl e he i hf
        rw [hc] at hc'; injection hc' with hc'; subst hc'; exact hk'
      · have := h.single lt hlt (by omega) e he i hf
        rw [hc] at this; cases this
    have newcell : ∀ e ∈ ts, ∀ i k, Node.find (r.insertOk t d ts).root e.2 = some i → i.cell = some k → k = r.next := by
      intro e he i k hf hc
      obtain ⟨e', hne'⟩ := hnew e he
      rw [hne'] at hf; injection hf with hf; subst hf
      unfold insInfo at hc
      split at hc
      · cases hc
      · simp only [sharedInfo] at hc; injection hc with hc; exact hc.symm
    rcases List.mem_append.1 hlt1 with h1 | h1 <;> rcases List.mem_append.1 hlt2 with h2 | h2
    · rw [hold lt1 h1 e1 he1] at hf1; rw [hold lt2 h2 e2 he2] at hf2
      exact h.sep lt1 h1 lt2 h2 e1 he1 e2 he2 i1 i2 k hf1 hf2 hc1 hc2
    · simp only [List.mem_singleton] at h2; subst h2
      have a := oldcell lt1 h1 e1 he1 i1 k hf1 hc1
      have b := newcell e2 he2 i2 k hf2 hc2
      omega
    · simp only [List.mem_singleton] at h1; subst h1
      have a := oldcell lt2 h2 e2 he2 i2 k hf2 hc2
      have b := newcell e1 he1 i1 k hf1 hc1
      omega
    · simp only [List.mem_singleton] at h1 h2; subst h1 h2; rfl
