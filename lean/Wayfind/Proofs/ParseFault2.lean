import Wayfind.Proofs.ParseFault1

/-! errors of `parse_parameter_part` name a fault that is present at the reported range -/

/-- `parse_parameter_part`, restated through the spec's views of the brace content -/
theorem parseParam_eq (raw : Bytes) (cursor : Nat) (after : Bytes) :
    parseParam raw cursor after =
      match braceEnd after 1 0 with
      | none => .error (.unbalancedBrace raw cursor)
      | some n =>
        if (after.take n).isEmpty then .error (.emptyBraces raw cursor)
        else if (rawNameOf (after.take n)).isEmpty then .error (.emptyParameter raw cursor (n + 2))
        else if ((rawNameOf (after.take n)).head? == some 42) && (nameOf (after.take n)).isEmpty then
          .error (.emptyWildcard raw cursor (n + 2))
        else if (nameOf (after.take n)).any (invalidChars.contains ·) then
          .error (.invalidParameter raw (nameOf (after.take n)) cursor (n + 2))
        else
          match consOf (after.take n) with
          | some c =>
            if c.isEmpty then .error (.emptyConstraint raw cursor (n + 2))
            else if c.any (invalidChars.contains ·) then .error (.invalidConstraint raw c cursor (n + 2))
            else .ok (.par (if (rawNameOf (after.take n)).head? == some 42 then .wildC else .dynC)
                      { name := nameOf (after.take n), cons := c }, cursor + 1 + n + 1)
          | none =>
            .ok (.par (if (rawNameOf (after.take n)).head? == some 42 then .wild else .dyn)
                  { name := nameOf (after.take n) }, cursor + 1 + n + 1) := by
  unfold parseParam
  cases hb : braceEnd after 1 0 with
  | none => rfl
  | some n =>
    have hl : cursor + 1 + n - cursor + 1 = n + 2 := by omega
    simp only [hl]
    cases hi : (after.take n).idxOf? 58 with
    | none => simp only [rawNameOf, nameOf, consOf, hi]
    | some p => simp only [rawNameOf, nameOf, consOf, hi]

theorem parseParam_error_local (raw : Bytes) (cursor : Nat) (after : Bytes) (e : TErr)
    (hrest : raw.drop cursor = 123 :: after) (h : parseParam raw cursor after = .error e) : localFault e = true := by
  have h0 : raw[cursor]? = some 123 := by
    have := drop_getElem? raw cursor 0
    rw [hrest] at this; simpa using this.symm
  have hafter : after = raw.drop (cursor + 1) := by
    have : raw.drop (cursor + 1) = (raw.drop cursor).drop 1 := by rw [List.drop_drop]
    rw [this, hrest]; rfl
  rw [parseParam_eq] at h
  cases hb : braceEnd after 1 0 with
  | none =>
    rw [hb] at h
    injection h with h; subst h
    simp only [localFault, h0]
    unfold openUnbalanced
    rw [← hafter]
    exact openUnbalanced_go_of_none after 1 0 (Nat.le_refl _) hb
  | some n =>
    rw [hb] at h
    have hbp := braceParam_of_end raw cursor after n hrest hb
    have hat := braceEnd_at after 1 0 n hb
    simp only [Nat.sub_zero] at hat
    simp only at h
    by_cases hce : (after.take n).isEmpty = true
    · rw [if_pos hce] at h
      injection h with h; subst h
      have hn0 : n = 0 := braceEnd_zero_content hb hce
      subst hn0
      have h1 : raw[cursor + 1]? = some 125 := by
        rw [← drop_getElem? raw (cursor + 1) 0, ← hafter]; exact hat
      simp [localFault, h0, h1]
    · rw [if_neg hce] at h
      by_cases hne : (rawNameOf (after.take n)).isEmpty = true
      · rw [if_pos hne] at h
        injection h with h; subst h
        simp [localFault, hbp, hne]
      · rw [if_neg hne] at h
        by_cases hw : (((rawNameOf (after.take n)).head? == some 42) && (nameOf (after.take n)).isEmpty) = true
        · rw [if_pos hw] at h
          injection h with h; subst h
          simp only [localFault, hbp]
          -- the raw name starts with '*' and nothing follows it
          simp only [Bool.and_eq_true] at hw
          obtain ⟨hw1, hw2⟩ := hw
          have hnm : nameOf (after.take n) = (rawNameOf (after.take n)).drop 1 := by
            unfold nameOf rawNameOf at *
            simp only [hw1, ite_true]
          rw [hnm] at hw2
          cases hr : rawNameOf (after.take n) with
          | nil => rw [hr] at hne; simp at hne
          | cons a t =>
            rw [hr] at hw1 hw2
            simp only [List.head?_cons, beq_iff_eq, Option.some.injEq] at hw1
            simp only [List.drop_succ_cons, List.drop_zero, List.isEmpty_iff] at hw2
            subst hw1 hw2
            rfl
        · rw [if_neg hw] at h
          by_cases hinv : (nameOf (after.take n)).any (invalidChars.contains ·) = true
          · rw [if_pos hinv] at h
            injection h with h; subst h
            simp only [localFault, hbp, beq_self_eq_true, Bool.true_and]
            exact hinv
          · rw [if_neg hinv] at h
            cases hc : consOf (after.take n) with
            | none => rw [hc] at h; cases h
            | some c =>
              rw [hc] at h
              simp only at h
              by_cases hcem : c.isEmpty = true
              · rw [if_pos hcem] at h
                injection h with h; subst h
                have : c = [] := by simpa using hcem
                subst this
                simp [localFault, hbp, hc]
              · rw [if_neg hcem] at h
                by_cases hci : c.any (invalidChars.contains ·) = true
                · rw [if_pos hci] at h
                  injection h with h; subst h
                  simp only [localFault, hbp, hc, beq_self_eq_true, Bool.true_and]
                  exact hci
                · rw [if_neg hci] at h; cases h
