import Wayfind.Proofs.FindOpt
import Wayfind.Model.Parser

/-! the parser's part lists are well-formed: literals non-empty, literals and parameters alternate -/

def lastIsStat : List Part → Bool
  | [] => false
  | [.stat _] => true
  | [.par _ _] => false
  | _ :: x :: xs => lastIsStat (x :: xs)

def lastIsPar : List Part → Bool
  | [] => false
  | [.stat _] => false
  | [.par _ _] => true
  | _ :: x :: xs => lastIsPar (x :: xs)

theorem wf_snoc_stat : ∀ (ps : List Part) (p : Bytes), wfParts ps = true → p ≠ [] → lastIsStat ps = false →
    wfParts (ps ++ [.stat p]) = true
  | [], p, _, hp, _ => by simp [wfParts, hp]
  | [.stat q], p, _, _, hl => by simp [lastIsStat] at hl
  | [.par k l], p, _, hp, _ => by simp [wfParts, hp]
  | .stat q :: .par k l :: rest, p, h, hp, hl => by
    simp only [wfParts, Bool.and_eq_true] at h
    have ih := wf_snoc_stat (.par k l :: rest) p h.2 hp (by simpa [lastIsStat] using hl)
    simp only [List.cons_append] at ih ⊢
    simp only [wfParts, Bool.and_eq_true]
    exact ⟨h.1, ih⟩
  | .par k l :: .stat q :: rest, p, h, hp, hl => by
    simp only [wfParts] at h
    have ih := wf_snoc_stat (.stat q :: rest) p h hp (by simpa [lastIsStat] using hl)
    simp only [List.cons_append] at ih ⊢
    simp only [wfParts]
    exact ih
  | .stat _ :: .stat _ :: _, _, h, _, _ => by simp [wfParts] at h
  | .par _ _ :: .par _ _ :: _, _, h, _, _ => by simp [wfParts] at h

theorem wf_snoc_par : ∀ (ps : List Part) (k : PKind) (l : Label), wfParts ps = true → lastIsPar ps = false →
    wfParts (ps ++ [.par k l]) = true
  | [], _, _, _, _ => by simp [wfParts]
  | [.stat q], k, l, h, _ => by simpa [wfParts] using h
  | [.par _ _], _, _, _, hl => by simp [lastIsPar] at hl
  | .stat q :: .par k' l' :: rest, k, l, h, hl => by
    simp only [wfParts, Bool.and_eq_true] at h
    have ih := wf_snoc_par (.par k' l' :: rest) k l h.2 (by simpa [lastIsPar] using hl)
    simp only [List.cons_append] at ih ⊢
    simp only [wfParts, Bool.and_eq_true]
    exact ⟨h.1, ih⟩
  | .par k' l' :: .stat q :: rest, k, l, h, hl => by
    simp only [wfParts] at h
    have ih := wf_snoc_par (.stat q :: rest) k l h (by simpa [lastIsPar] using hl)
    simp only [List.cons_append] at ih ⊢
    simp only [wfParts]
    exact ih
  | .stat _ :: .stat _ :: _, _, _, h, _ => by simp [wfParts] at h
  | .par _ _ :: .par _ _ :: _, _, _, h, _ => by simp [wfParts] at h

theorem lastIsStat_snoc_stat : ∀ (ps : List Part) (p : Bytes), lastIsStat (ps ++ [.stat p]) = true
  | [], _ => rfl
  | [y], _ => by cases y <;> rfl
  | _ :: x :: xs, p => by simpa [lastIsStat] using lastIsStat_snoc_stat (x :: xs) p
theorem lastIsPar_snoc_stat : ∀ (ps : List Part) (p : Bytes), lastIsPar (ps ++ [.stat p]) = false
  | [], _ => rfl
  | [y], _ => by cases y <;> rfl
  | _ :: x :: xs, p => by simpa [lastIsPar] using lastIsPar_snoc_stat (x :: xs) p
theorem lastIsPar_snoc_par : ∀ (ps : List Part) (k : PKind) (l : Label), lastIsPar (ps ++ [.par k l]) = true
  | [], _, _ => rfl
  | [y], _, _ => by cases y <;> rfl
  | _ :: x :: xs, k, l => by simpa [lastIsPar] using lastIsPar_snoc_par (x :: xs) k l
theorem lastIsStat_snoc_par : ∀ (ps : List Part) (k : PKind) (l : Label), lastIsStat (ps ++ [.par k l]) = false
  | [], _, _ => rfl
  | [y], _, _ => by cases y <;> rfl
  | _ :: x :: xs, k, l => by simpa [lastIsStat] using lastIsStat_snoc_par (x :: xs) k l

def stopsAtBrace (rest : Bytes) : Prop := rest = [] ∨ ∃ b t, rest = b :: t ∧ (b = 123 ∨ b = 125)

theorem parseStatic_stops (rest : Bytes) (cur : Nat) (acc : Bytes) : stopsAtBrace (parseStatic rest cur acc).2.2 := by
  fun_induction parseStatic rest cur acc with
  | case1 cur acc => exact Or.inl rfl
  | case2 cur acc c rest' ih => exact ih
  | case3 cur acc => exact Or.inl rfl
  | case4 b rest cur acc hb hbr => exact Or.inr ⟨b, rest, rfl, hbr⟩
  | case5 b rest cur acc hb hbr ih => exact ih

theorem parseStatic_acc (rest : Bytes) (cur : Nat) (acc : Bytes) : acc.length ≤ (parseStatic rest cur acc).1.length := by
  fun_induction parseStatic rest cur acc with
  | case1 cur acc => simp
  | case2 cur acc c rest' ih => simp only [List.length_append, List.length_cons, List.length_nil] at ih; omega
  | case3 cur acc => simp
  | case4 b rest cur acc hb hbr => simp
  | case5 b rest cur acc hb hbr ih => simp only [List.length_append, List.length_cons, List.length_nil] at ih; omega

theorem parseStatic_ne (b : Byte) (t : Bytes) (cur : Nat) (h1 : b ≠ 123) (h2 : b ≠ 125) :
    (parseStatic (b :: t) cur []).1 ≠ [] := by
  intro h
  have hlen : ∀ (x : Bytes), 1 ≤ x.length → x ≠ [] := by intro x hx e; simp [e] at hx
  revert h
  apply hlen
  unfold parseStatic
  by_cases hb : b = 92
  · simp only [hb, ite_true]
    cases t with
    | nil => simp
    | cons c t' => have := parseStatic_acc t' (cur + 2) ([] ++ [c]); simpa using this
  · have : ¬ (b = 123 ∨ b = 125) := by simp [h1, h2]
    simp only [hb, ite_false, this]
    have := parseStatic_acc t (cur + 1) ([] ++ [b]); simpa using this

theorem parseParam_ok {raw : Bytes} {cursor : Nat} {after : Bytes} {part : Part} {next : Nat}
    (h : parseParam raw cursor after = .ok (part, next)) : (∃ k l, part = .par k l) ∧ cursor < next := by
  unfold parseParam at h
  split at h
  · cases h
  · simp only at h
    repeat' (split at h)
    all_goals first
      | (cases h; exact ⟨⟨_, _, rfl⟩, by omega⟩)
      | cases h

/-- loop invariant of `parse_template`'s scan -/
def LoopInv (rest : Bytes) (cursor : Nat) (seen : List (Bytes × Nat × Nat)) (parts : List Part) : Prop :=
  wfParts parts = true ∧
  (lastIsStat parts = true → stopsAtBrace rest) ∧
  (lastIsPar parts = true → ∃ x, seen.getLast? = some x ∧ x.2.1 + x.2.2 = cursor)

theorem parseLoop_wf (raw : Bytes) : ∀ (fuel : Nat) (rest : Bytes) (cursor : Nat) (seen : List (Bytes × Nat × Nat))
    (parts ps : List Part), LoopInv rest cursor seen parts →
    parseLoop raw fuel rest cursor seen parts = .ok ps → wfParts ps = true := by
  intro fuel
  induction fuel with
  | zero => intro rest cursor seen parts ps hI h; simp only [parseLoop] at h; cases h; exact hI.1
  | succ fuel ih =>
    intro rest cursor seen parts ps hI h
    obtain ⟨hwf, hst, hpar⟩ := hI
    cases rest with
    | nil => simp only [parseLoop] at h; cases h; exact hwf
    | cons b after =>
      simp only [parseLoop] at h
      by_cases hb : b = 123
      · subst hb
        simp only [ite_true] at h
        cases hpp : parseParam raw cursor after with
        | error e => rw [hpp] at h; cases h
        | ok res =>
          obtain ⟨part, next⟩ := res
          rw [hpp] at h
          simp only at h
          obtain ⟨⟨k, l, rfl⟩, hnext⟩ := parseParam_ok hpp
          -- the touching test guarantees that the previous part is not a parameter
          have hnotpar : lastIsPar parts = false ∧
              parseLoop.parseLoopDup raw fuel (123 :: after) cursor seen parts (.par k l) next = .ok ps := by
            cases hlp : lastIsPar parts with
            | true =>
              exfalso
              obtain ⟨x, hx, hxe⟩ := hpar hlp
              obtain ⟨nm, st, ln⟩ := x
              rw [hx] at h
              simp only at h hxe
              rw [if_pos hxe.symm] at h
              cases h
            | false =>
              refine ⟨rfl, ?_⟩
              cases hgl : seen.getLast? with
              | none => rw [hgl] at h; exact h
              | some x =>
                obtain ⟨nm, st, ln⟩ := x
                rw [hgl] at h
                simp only at h
                split at h
                · cases h
                · exact h
          obtain ⟨hlp, hdup⟩ := hnotpar
          simp only [parseLoop.parseLoopDup, partName] at hdup
          split at hdup
          · cases hdup
          · apply ih _ _ _ _ ps _ hdup
            refine ⟨wf_snoc_par parts k l hwf hlp, ?_, ?_⟩
            · rw [lastIsStat_snoc_par]; intro h'; cases h'
            · intro _
              exact ⟨(l.name, cursor, next - cursor), by simp, by simp only; omega⟩
      · simp only [hb, ite_false] at h
        by_cases hb2 : b = 125
        · simp only [hb2, ite_true] at h; cases h
        · simp only [hb2, ite_false] at h
          have hls : lastIsStat parts = false := by
            cases hl : lastIsStat parts with
            | false => rfl
            | true =>
              exfalso
              rcases hst hl with h0 | ⟨b', t', h0, hbb⟩
              · cases h0
              · injection h0 with h1 _; subst h1; rcases hbb with h1 | h1 <;> contradiction
          apply ih _ _ _ _ ps _ h
          refine ⟨wf_snoc_stat parts _ hwf (parseStatic_ne b after cursor hb hb2) hls, ?_, ?_⟩
          · intro _; exact parseStatic_stops (b :: after) cursor []
          · rw [lastIsPar_snoc_stat]; intro h'; cases h'

theorem parseTemplate_wf {raw : Bytes} {ps : List Part} (h : parseTemplate raw = .ok ps) : wfParts ps = true := by
  unfold parseTemplate at h
  split at h
  · cases h
  · refine parseLoop_wf raw _ raw 0 [] [] ps ⟨rfl, ?_, ?_⟩ h
    · intro h'; cases h'
    · intro h'; cases h'

theorem mapExcept_ok {α β ε} {f : α → Except ε β} : ∀ {as : List α} {bs : List β}, mapExcept f as = .ok bs →
    ∀ b ∈ bs, ∃ a ∈ as, f a = .ok b
  | [], bs, h, b, hb => by simp only [mapExcept] at h; cases h; cases hb
  | a :: as, bs, h, b, hb => by
    simp only [mapExcept] at h
    split at h
    · cases h
    · rename_i b0 hfa
      split at h
      · cases h
      · rename_i bs0 hrest
        cases h
        simp only [List.mem_cons] at hb
        rcases hb with rfl | hb
        · exact ⟨a, by simp, hfa⟩
        · obtain ⟨a', ha', hf'⟩ := mapExcept_ok hrest b hb
          exact ⟨a', by simp [ha'], hf'⟩

/-- **The parser's part lists are well-formed**: exactly the precondition of the tree theorems. -/
theorem parse_wf {input : Bytes} {ts : List (Bytes × List Part)} (h : parseTemplates input = .ok ts) :
    ∀ t ∈ ts, wfParts t.2 = true := by
  unfold parseTemplates at h
  split at h
  · cases h
  · split at h
    · cases h
    · rename_i raws _
      intro t ht
      obtain ⟨raw, _, hf⟩ := mapExcept_ok h t ht
      split at hf
      · cases hf
      · rename_i ps hps
        cases hf
        exact parseTemplate_wf hps

#print axioms parse_wf
