import Wayfind.Proofs.ParseBounds
import Wayfind.Proofs.ParserEq

/-! where the errors of `ParsedTemplate::new` come from: the expansion reports only parenthesis faults about the input
itself; every other fault is reported by `parse_template` about one of the expansions, with ranges inside it -/

def TErr.isParen (full : Bytes) (e : TErr) : Prop :=
  ∃ p, e = .unbalancedParenthesis full p ∨ e = .emptyParentheses full p

def RangeErr (full : Bytes) (fuel : Nat) : Prop :=
  ∀ (range : Bytes) (start : Nat) (next : Option Byte) (top : Bool) (e : TErr),
    expandRange full fuel range start next top = .error e → e.isParen full

theorem scan_err (full : Bytes) (fuel : Nat) (hR : RangeErr full fuel) (start : Nat) (next : Option Byte) (top : Bool) :
    ∀ (n : Nat) (rest : Bytes) (cursor : Nat) (st : ExpSt) (e : TErr), rest.length ≤ n →
      expandScan full fuel start next top rest cursor st = .error e → e.isParen full := by
  intro n
  induction n with
  | zero =>
    intro rest cursor st e hn h
    have : rest = [] := List.eq_nil_of_length_eq_zero (by omega)
    subst this
    rw [expandScan.eq_1] at h
    split at h
    · injection h with h; subst h; exact ⟨_, Or.inl rfl⟩
    · cases h
  | succ n ih =>
    intro rest cursor st e hn h
    match rest, hn, h with
    | [], _, h =>
      rw [expandScan.eq_1] at h
      split at h
      · injection h with h; subst h; exact ⟨_, Or.inl rfl⟩
      · cases h
    | [b], hn, h =>
      rw [expandScan.eq_3] at h
      generalize hE : expandRange full fuel st.acc st.group (some 41) false = E at h
      cases E with
      | error e' =>
        have he' := hR _ _ _ _ e' hE
        try simp only [] at h
        repeat' split at h
        all_goals first
          | (cases h; done)
          | (injection h with h; subst h; first | exact ⟨_, Or.inl rfl⟩ | exact ⟨_, Or.inr rfl⟩ | exact he')
          | (exact ih [] _ _ e (by simp) h)
      | ok inner =>
        try simp only [] at h
        repeat' split at h
        all_goals first
          | (cases h; done)
          | (injection h with h; subst h; first | exact ⟨_, Or.inl rfl⟩ | exact ⟨_, Or.inr rfl⟩)
          | (exact ih [] _ _ e (by simp) h)
    | b :: b2 :: rest', hn, h =>
      rw [expandScan.eq_2] at h
      simp only [List.length_cons] at hn
      generalize hE : expandRange full fuel st.acc st.group (some 41) false = E at h
      cases E with
      | error e' =>
        have he' := hR _ _ _ _ e' hE
        try simp only [] at h
        repeat' split at h
        all_goals first
          | (cases h; done)
          | (injection h with h; subst h; first | exact ⟨_, Or.inl rfl⟩ | exact ⟨_, Or.inr rfl⟩ | exact he')
          | (exact ih _ _ _ e (by first | omega | (simp only [List.length_cons]; omega)) h)
      | ok inner =>
        try simp only [] at h
        repeat' split at h
        all_goals first
          | (cases h; done)
          | (injection h with h; subst h; first | exact ⟨_, Or.inl rfl⟩ | exact ⟨_, Or.inr rfl⟩)
          | (exact ih _ _ _ e (by first | omega | (simp only [List.length_cons]; omega)) h)

theorem rangeErr_all (full : Bytes) : ∀ (fuel : Nat), RangeErr full fuel
  | 0 => by intro range _ _ _ e h; rw [expandRange.eq_1] at h; cases h
  | fuel + 1 => by
    intro range start next top e h
    rw [expandRange.eq_2] at h
    exact scan_err full fuel (rangeErr_all full fuel) start next top range.length range start _ e (Nat.le_refl _) h

theorem mapExcept_error {α β ε} {f : α → Except ε β} : ∀ {as : List α} {e : ε}, mapExcept f as = .error e →
    ∃ a ∈ as, f a = .error e
  | [], e, h => by simp [mapExcept] at h
  | a :: as, e, h => by
    simp only [mapExcept] at h
    cases hf : f a with
    | error e' =>
      rw [hf] at h; injection h with h; subst h
      exact ⟨a, by simp, hf⟩
    | ok b =>
      rw [hf] at h
      simp only at h
      cases hm : mapExcept f as with
      | error e' =>
        rw [hm] at h; injection h with h; subst h
        obtain ⟨x, hx, hfx⟩ := mapExcept_error hm
        exact ⟨x, by simp [hx], hfx⟩
      | ok bs => rw [hm] at h; cases h

/-- **every template error is about the input or one of its expansions, with its ranges inside that text** -/
theorem parseTemplates_error_cases (input : Bytes) (e : TErr) (h : parseTemplates input = .error e) :
    (e = .empty ∧ input = []) ∨ e.isParen input ∨
    ∃ es raw, topExpansions input = some es ∧ raw ∈ es ∧ e.tpl = some raw ∧ e.inside raw := by
  unfold parseTemplates at h
  by_cases hne : input = []
  · subst hne
    simp at h
    exact Or.inl ⟨h.symm, rfl⟩
  · have hemp : input.isEmpty = false := by cases input with | nil => exact absurd rfl hne | cons _ _ => rfl
    simp only [hemp, Bool.false_eq_true, ite_false] at h
    cases he : expandRange input (input.length + 1) input 0 none true with
    | error e' =>
      rw [he] at h; injection h with h; subst h
      exact Or.inr (Or.inl (rangeErr_all input _ _ _ _ _ _ he))
    | ok raws =>
      rw [he] at h
      simp only at h
      obtain ⟨raw, hraw, hpr⟩ := mapExcept_error h
      have htop := ((expand_top input hne).1 raws).1 he
      cases hp : parseTemplate raw with
      | ok ps => rw [hp] at hpr; cases hpr
      | error e' =>
        rw [hp] at hpr
        injection hpr with hpr; subst hpr
        obtain ⟨h1, h2⟩ := parseTemplate_error_inside raw _ hp
        exact Or.inr (Or.inr ⟨raws, raw, htop, hraw, h1, h2⟩)
