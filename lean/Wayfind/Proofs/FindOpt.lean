import Wayfind.Proofs.Greedy

/-! `find` does not see `optimize` (sorting, flags, dirty marks) -/

theorem findStatic_swap (a b : Label) (na nb : Node) (r : Kids) (q : Bytes) (qrest : List Part)
    (h : a.pre.head? ≠ b.pre.head?) :
    Kids.findStatic (.cons a na (.cons b nb r)) q qrest = Kids.findStatic (.cons b nb (.cons a na r)) q qrest := by
  simp only [Kids.findStatic]
  by_cases ha : a.pre.head? = q.head?
  · have hb : ¬ b.pre.head? = q.head? := fun e => h (ha.trans e.symm)
    simp [ha, hb]
  · by_cases hb : b.pre.head? = q.head?
    · simp [ha, hb]
    · simp [ha, hb]

theorem findStatic_insertSorted (l : Label) (n : Node) : ∀ (ks : Kids) (q : Bytes) (qrest : List Part),
    Kids.noHead l.pre.head? ks →
    Kids.findStatic (Kids.insertSorted l n ks) q qrest = Kids.findStatic (.cons l n ks) q qrest
  | .nil, _, _, _ => rfl
  | .cons l' n' r, q, qrest, h => by
    simp only [Kids.insertSorted]
    split
    · rfl
    · rw [findStatic_swap l l' n n' r q qrest (fun e => h.1 e.symm)]
      simp only [Kids.findStatic]
      rw [findStatic_insertSorted l n r q qrest h.2]
      simp only [Kids.findStatic]

theorem noHead_sort (b : Option Byte) (ks : Kids) (h : Kids.noHead b ks) : Kids.noHead b (Kids.sort ks) := by
  rw [noHead_iff] at h ⊢
  intro hm; exact h ((heads_sort_perm ks).mem_iff.1 hm)

theorem findStatic_sort : ∀ (ks : Kids) (q : Bytes) (qrest : List Part), Kids.distinctHeads ks →
    Kids.findStatic (Kids.sort ks) q qrest = Kids.findStatic ks q qrest
  | .nil, _, _, _ => rfl
  | .cons l n r, q, qrest, h => by
    simp only [Kids.sort]
    rw [findStatic_insertSorted l n _ q qrest (noHead_sort _ r h.1)]
    simp only [Kids.findStatic, findStatic_sort r q qrest h.2]

theorem findPar_insertSorted (l : Label) (n : Node) : ∀ (ks : Kids) (l' : Label) (qrest : List Part),
    l ∉ ks.labels →
    Kids.findPar (Kids.insertSorted l n ks) l' qrest = Kids.findPar (.cons l n ks) l' qrest
  | .nil, _, _, _ => rfl
  | .cons l0 n0 r, l', qrest, h => by
    simp only [Kids.labels, List.mem_cons, not_or] at h
    simp only [Kids.insertSorted]
    split
    · rfl
    · simp only [Kids.findPar, findPar_insertSorted l n r l' qrest h.2]
      by_cases h1 : l0 = l'
      · have : ¬ l = l' := fun e => h.1 (e.trans h1.symm)
        simp [h1, this]
      · simp [h1]

theorem findPar_sort : ∀ (ks : Kids) (l' : Label) (qrest : List Part), NodupL ks.labels →
    Kids.findPar (Kids.sort ks) l' qrest = Kids.findPar ks l' qrest
  | .nil, _, _, _ => rfl
  | .cons l n r, l', qrest, h => by
    simp only [Kids.labels, NodupL, List.pairwise_cons] at h
    simp only [Kids.sort]
    rw [findPar_insertSorted l n _ l' qrest (fun hm => h.1 l ((labels_sort_perm r).mem_iff.1 hm) rfl)]
    simp only [Kids.findPar, findPar_sort r l' qrest h.2]

theorem find_optimize_leaf {n : Node} {i : Info} (h : isLeaf n i) (Q : List Part) :
    Node.find (Node.optimize n) Q = Node.find n Q := by
  obtain ⟨ds, ws, dirty, rfl⟩ := h
  simp only [Node.optimize]
  split
  · rfl
  · simp only [Kids.optimizeAll, Kids.sort]
    exact find_flags ..

theorem findPar_optimizeAll_leaf : ∀ (ks : Kids) (l' : Label) (qrest : List Part), Kids.leaves ks →
    Kids.findPar (Kids.optimizeAll ks) l' qrest = Kids.findPar ks l' qrest
  | .nil, _, _, _ => rfl
  | .cons l n r, l', qrest, h => by
    obtain ⟨⟨i, hi⟩, hr⟩ := h
    simp only [Kids.optimizeAll, Kids.findPar, find_optimize_leaf hi, findPar_optimizeAll_leaf r l' qrest hr]

mutual
theorem Node.find_optimize : ∀ (n : Node) (Q : List Part), Node.Shp n → Node.find (Node.optimize n) Q = Node.find n Q
  | .mk x s dc d wc w ec e ds ws dirty, Q, hS => by
    simp only [Node.optimize]
    split
    · rfl
    · simp only [Node.Shp] at hS
      obtain ⟨_, hs2, _, _, hecl, hel, ndc, nd, nwc, nw, nec, ne, _, _, _, _, ks, kdc, kd, kwc, kw⟩ := hS
      have dh : Kids.distinctHeads (Kids.optimizeAll s) := by
        rw [distinctHeads_iff, heads_optimizeAll, ← distinctHeads_iff]; exact hs2
      have nl : ∀ v : Kids, NodupL v.labels → NodupL (Kids.optimizeAll v).labels := fun v hv => by rw [labels_optimizeAll]; exact hv
      cases Q with
      | nil => rfl
      | cons q Q =>
        cases q with
        | stat p =>
          simp only [Node.find]
          rw [findStatic_sort _ p Q dh, Kids.findStatic_optimizeAll s p Q ks]
        | par k l =>
          simp only [Node.find]
          split
          · rw [findPar_sort _ l Q (nl dc ndc), Kids.findPar_optimizeAll dc l Q kdc]
          · rw [findPar_sort _ l Q (nl d nd), Kids.findPar_optimizeAll d l Q kd]
          · rw [findPar_sort _ l Q (nl wc nwc), Kids.findPar_optimizeAll wc l Q kwc]
          · rw [findPar_sort _ l Q (nl w nw), Kids.findPar_optimizeAll w l Q kw]
          · rw [findPar_sort _ l Q (nl ec nec)]; exact findPar_optimizeAll_leaf ec l Q hecl
          · rw [findPar_sort _ l Q (nl e ne)]; exact findPar_optimizeAll_leaf e l Q hel
theorem Kids.findStatic_optimizeAll : ∀ (ks : Kids) (q : Bytes) (qrest : List Part), Kids.Shpk ks →
    Kids.findStatic (Kids.optimizeAll ks) q qrest = Kids.findStatic ks q qrest
  | .nil, _, _, _ => rfl
  | .cons l n r, q, qrest, h => by
    simp only [Kids.optimizeAll, Kids.findStatic, Node.find_optimize n _ h.1, Kids.findStatic_optimizeAll r q qrest h.2.2]
theorem Kids.findPar_optimizeAll : ∀ (ks : Kids) (l' : Label) (qrest : List Part), Kids.Shpk ks →
    Kids.findPar (Kids.optimizeAll ks) l' qrest = Kids.findPar ks l' qrest
  | .nil, _, _, _ => rfl
  | .cons l n r, l', qrest, h => by
    simp only [Kids.optimizeAll, Kids.findPar, Node.find_optimize n _ h.1, Kids.findPar_optimizeAll r l' qrest h.2.2]
end

#print axioms Node.find_optimize
