import Wayfind.Spec.RefWalk

theorem orElse'_none_right (a : Res) : orElse' a none = a := by cases a <;> rfl
theorem orElse'_none_left (a : Res) : orElse' none a = a := rfl

theorem tryCands_congr (env : Env) (cons : Option Bytes) (name path : Bytes) (ps : Params)
    (k k' : Bytes → Params → Res) (cs : List Nat)
    (h : ∀ c ∈ cs, ∀ q, k (path.drop c) q = k' (path.drop c) q) (best : Res) :
    tryCands env cons name path ps k cs best = tryCands env cons name path ps k' cs best := by
  induction cs generalizing best with
  | nil => rfl
  | cons c cs ih =>
    simp only [tryCands]
    rw [h c (by simp)]
    exact ih (fun c' hc' => h c' (by simp [hc'])) _

theorem segLen_le (path : Bytes) : segLen path ≤ path.length :=
  (List.takeWhile_sublist _).length_le

theorem candsInline_bounds (w : Bool) (path : Bytes) : ∀ c ∈ candsInline w path, 1 ≤ c ∧ c ≤ path.length := by
  intro c hc
  simp only [candsInline, List.mem_map, List.mem_range] at hc
  obtain ⟨a, ha, rfl⟩ := hc
  have := segLen_le path
  constructor
  · omega
  · split at ha <;> omega

theorem firstSome_congr {α} (f g : α → Res) (l : List α) (h : ∀ a ∈ l, f a = g a) : firstSome f l = firstSome g l := by
  induction l with
  | nil => rfl
  | cons a as ih => simp only [firstSome]; rw [h a (by simp), ih (fun x hx => h x (by simp [hx]))]

theorem firstSome_none {α} (f : α → Res) (l : List α) (h : ∀ a ∈ l, f a = none) : firstSome f l = none := by
  induction l with
  | nil => rfl
  | cons a as ih => simp [firstSome, h a (by simp), ih (fun x hx => h x (by simp [hx])), orElse']

theorem parStep_congr (env : Env) (k : PKind) (rs : List Route) (path : Bytes) (ps : Params)
    (w w' : List Route → Bytes → Params → Res)
    (h : ∀ rs' c, 1 ≤ c → c ≤ path.length → ∀ q, w rs' (path.drop c) q = w' rs' (path.drop c) q) :
    parStep env k rs path ps w = parStep env k rs path ps w' := by
  unfold parStep
  apply firstSome_congr
  intro l _
  apply tryCands_congr
  intro c hc q
  have := candsInline_bounds _ _ c hc
  exact h _ c this.1 this.2 q

theorem refWalk_fuel (env : Env) : ∀ (f1 f2 : Nat) (rs : List Route) (path : Bytes) (ps : Params),
    path.length ≤ f1 → path.length ≤ f2 → refWalk env f1 rs path ps = refWalk env f2 rs path ps := by
  intro f1
  induction f1 with
  | zero =>
    intro f2 rs path ps h1 _
    cases path with
    | nil => cases f2 <;> simp [refWalk]
    | cons => simp at h1
  | succ f1 ih =>
    intro f2 rs path ps h1 h2
    cases path with
    | nil => cases f2 <;> simp [refWalk]
    | cons b tl =>
      cases f2 with
      | zero => simp at h2
      | succ f2 =>
        simp only [List.length_cons, Nat.add_le_add_iff_right] at h1 h2
        have hw : ∀ rs' c, 1 ≤ c → c ≤ (b :: tl).length → ∀ q,
            refWalk env f1 rs' ((b :: tl).drop c) q = refWalk env f2 rs' ((b :: tl).drop c) q := by
          intro rs' c hc1 hc2 q
          apply ih <;> simp only [List.length_drop, List.length_cons] at * <;> omega
        simp only [refWalk]
        rw [ih f2 _ tl ps h1 h2, parStep_congr env .dynC rs _ ps _ _ hw, parStep_congr env .dyn rs _ ps _ _ hw,
          parStep_congr env .wildC rs _ ps _ _ hw, parStep_congr env .wild rs _ ps _ _ hw]

theorem labelsOf_nil (k : PKind) (last : Bool) : labelsOf k last [] = [] := rfl

theorem refWalk_nil (env : Env) : ∀ fuel path ps, refWalk env fuel [] path ps = none := by
  intro fuel
  induction fuel with
  | zero => intro path ps; cases path <;> simp [refWalk]
  | succ f ih =>
    intro path ps
    cases path with
    | nil => simp [refWalk]
    | cons b tl => simp [refWalk, ih, parStep, labelsOf_nil, firstSome, orElse']
