import Wayfind.Model.Insert

/-! helper facts about `commonLen` and well-formed part lists -/

theorem commonLen_le_left : ∀ a b : Bytes, commonLen a b ≤ a.length
  | [], _ => by simp [commonLen]
  | _ :: _, [] => by simp [commonLen]
  | x :: a, y :: b => by
    simp only [commonLen]; split
    · have := commonLen_le_left a b; simp; omega
    · simp

theorem commonLen_le_right : ∀ a b : Bytes, commonLen a b ≤ b.length
  | [], _ => by simp [commonLen]
  | _ :: _, [] => by simp [commonLen]
  | x :: a, y :: b => by
    simp only [commonLen]; split
    · have := commonLen_le_right a b; simp; omega
    · simp

theorem commonLen_self : ∀ a : Bytes, commonLen a a = a.length
  | [] => rfl
  | x :: a => by simp [commonLen, commonLen_self a]

/-- `b` is a prefix of `a` iff the common length reaches `|b|` -/
theorem commonLen_ge_iff : ∀ a b : Bytes, b.length ≤ commonLen a b ↔ ∃ t, a = b ++ t
  | a, [] => by simp
  | [], y :: b => by simp [commonLen]
  | x :: a, y :: b => by
    simp only [commonLen]
    split
    · rename_i h; subst h
      have := commonLen_ge_iff a b
      simp only [List.length_cons, Nat.add_le_add_iff_right, List.cons_append, List.cons.injEq, true_and]
      exact this
    · rename_i h
      simp only [List.length_cons, Nat.le_zero_eq, Nat.add_eq_zero_iff, Nat.succ_ne_self, and_false, List.cons_append,
        List.cons.injEq, false_iff, not_exists, not_and]
      intro t hxy; exact absurd hxy h

theorem commonLen_append_left (b t : Bytes) : commonLen (b ++ t) b = b.length := by
  have h1 := (commonLen_ge_iff (b ++ t) b).2 ⟨t, rfl⟩
  have h2 := commonLen_le_right (b ++ t) b
  omega

theorem commonLen_pos (a b : Bytes) (ha : a ≠ []) (h : b.head? = a.head?) : 0 < commonLen a b := by
  cases a with
  | nil => exact absurd rfl ha
  | cons x a =>
    cases b with
    | nil => simp at h
    | cons y b => simp at h; simp [commonLen, h]

/-- the bytes just after the common prefix differ -/
theorem commonLen_next_ne : ∀ a b : Bytes, commonLen a b < a.length → commonLen a b < b.length →
    (a.drop (commonLen a b)).head? ≠ (b.drop (commonLen a b)).head?
  | [], _, h, _ => by simp at h
  | _ :: _, [], _, h => by simp at h
  | x :: a, y :: b, h1, h2 => by
    simp only [commonLen] at *
    split
    · rename_i h; simp only [h, ite_true, List.length_cons, Nat.add_lt_add_iff_right] at h1 h2
      simpa using commonLen_next_ne a b h1 h2
    · rename_i h; simpa using h

theorem commonLen_take : ∀ a b : Bytes, a.take (commonLen a b) = b.take (commonLen a b)
  | [], _ => by simp [commonLen]
  | _ :: _, [] => by simp [commonLen]
  | x :: a, y :: b => by
    simp only [commonLen]; split
    · rename_i h; subst h; simp [commonLen_take a b]
    · simp

/-- well-formed part list: literal parts non-empty and never adjacent -/
def altOK : List Part → Bool
  | [] => true
  | .stat p :: rest => !p.isEmpty && (match rest with | .stat _ :: _ => false | _ => true) && altOK rest
  | .par _ _ :: rest => altOK rest

theorem altOK_tail {p : Part} {ps : List Part} (h : altOK (p :: ps) = true) : altOK ps = true := by
  cases p <;> simp [altOK] at h <;> simp [h]

theorem altOK_stat_ne {p : Bytes} {ps : List Part} (h : altOK (.stat p :: ps) = true) : p ≠ [] := by
  simp [altOK] at h; intro hp; simp [hp] at h

theorem altOK_stat_next {p q : Bytes} {ps : List Part} (h : altOK (.stat p :: .stat q :: ps) = true) : False := by
  simp [altOK] at h

theorem altOK_drop {p : Bytes} {c : Nat} {ps : List Part} (h : altOK (.stat p :: ps) = true) (hc : c < p.length) :
    altOK (.stat (p.drop c) :: ps) = true := by
  simp only [altOK, Bool.and_eq_true, Bool.not_eq_true'] at h ⊢
  refine ⟨⟨?_, h.1.2⟩, h.2⟩
  simp [List.isEmpty_iff]; omega
