import Wayfind.Proofs.WalkBasics

def pre (q : Bytes) (R : List Route) : List Route := R.map (Route.push (.stat q))

theorem find_pre_none (q : Bytes) (R : List Route) : (pre q R).find? (·.parts.isEmpty) = none := by
  simp [pre, List.find?_eq_none, Route.push]

theorem headPar_pre (k : PKind) (last : Bool) (q : Bytes) (R : List Route) :
    (pre q R).filterMap (fun r => (headPar k last r).map (·.1)) = [] := by
  simp [pre, List.filterMap_map, Route.push, headPar]

theorem labelsOf_pre (k : PKind) (last : Bool) (q : Bytes) (R : List Route) : labelsOf k last (pre q R) = [] := by
  simp [labelsOf, headPar_pre, sortLabels]

theorem parStep_pre (env : Env) (k : PKind) (q : Bytes) (R : List Route) (path ps w) :
    parStep env k (pre q R) path ps w = none := by
  simp [parStep, labelsOf_pre, firstSome]

theorem stripByte_pre_ne (b c : Byte) (q : Bytes) (h : c ≠ b) (R : List Route) :
    (pre (c :: q) R).filterMap (stripByte b) = [] := by
  simp [pre, List.filterMap_map, stripByte, Route.push, h]

theorem stripByte_pre_cons (b : Byte) (q : Bytes) (hq : q ≠ []) (R : List Route) :
    (pre (b :: q) R).filterMap (stripByte b) = pre q R := by
  simp only [pre, List.filterMap_map]
  induction R with
  | nil => rfl
  | cons r R ih =>
    cases q with
    | nil => exact absurd rfl hq
    | cons => simp [stripByte, Function.comp, Route.push] at ih ⊢; exact ih

theorem stripByte_pre_single (b : Byte) (R : List Route) : (pre [b] R).filterMap (stripByte b) = R := by
  simp only [pre, List.filterMap_map]
  induction R with
  | nil => rfl
  | cons r R ih => simp [stripByte, Function.comp, Route.push] at ih ⊢; exact ih

/-- Edge lemma: inside a compressed edge the walk can only continue or fail. -/
theorem refWalk_edge (env : Env) : ∀ (q : Bytes), q ≠ [] → ∀ (R : List Route) (path : Bytes) (ps : Params) (fuel : Nat),
    path.length ≤ fuel →
    refWalk env fuel (pre q R) path ps =
      if q.isPrefixOf path then refWalk env fuel R (path.drop q.length) ps else none := by
  intro q
  induction q with
  | nil => intro h; exact absurd rfl h
  | cons c q ih =>
    intro _ R path ps fuel hf
    cases path with
    | nil => cases fuel <;> simp [refWalk, find_pre_none, List.isPrefixOf]
    | cons b tl =>
      cases fuel with
      | zero => simp at hf
      | succ fuel =>
        simp only [List.length_cons, Nat.add_le_add_iff_right] at hf
        simp only [refWalk, parStep_pre, labelsOf_pre, firstSome, orElse'_none_right, List.isPrefixOf]
        by_cases hcb : c = b
        · subst hcb
          by_cases hq : q = []
          · subst hq
            simp only [stripByte_pre_single, List.isPrefixOf, List.length_cons, List.length_nil, List.drop_succ_cons,
              List.drop_zero]
            rw [refWalk_fuel env (fuel+1) fuel R tl ps (by omega) hf]
            simp
          · rw [stripByte_pre_cons c q hq, ih hq R tl ps fuel hf]
            by_cases hp : q.isPrefixOf tl
            · simp only [hp, ite_true, beq_self_eq_true, Bool.and_self, List.length_cons, List.drop_succ_cons]
              rw [refWalk_fuel env (fuel+1) fuel R _ ps (by simp; omega) (by simp; omega)]
            · simp [hp]
        · rw [stripByte_pre_ne b c q hcb, refWalk_nil]
          simp [hcb]
