import Wayfind.Proofs.Registry8

/-! the full outcome of `delete` on a live template -/

theorem deleteOk_rc_next (r : Router) (t : Bytes) (ts : List (Bytes × List Part)) :
    (r.deleteOk t ts).2.rc = (deleteAll ts r.root r.rc none).2.1 ∧ (r.deleteOk t ts).2.next = r.next ∧
    (r.deleteOk t ts).2.registry = r.registry := by
  unfold Router.deleteOk
  generalize deleteAll ts r.root r.rc none = res
  obtain ⟨a, b, c⟩ := res
  cases c <;> exact ⟨rfl, rfl, rfl⟩

/-- for a live template, `delete` passes validation -/
theorem delete_live_eq {r : Router} {L : List LiveT} (hreg : Reg r.root L) (lt : LiveT) (hlt : lt ∈ L) :
    r.delete lt.template = r.deleteOk lt.template lt.exps := by
  have hp := hreg.parsed lt hlt
  have hfound : ∀ e ∈ lt.exps, ∃ i, Node.find r.root e.2 = some i ∧ infoOK lt e i := hreg.complete lt hlt
  have hm : mismatchOf r.root lt.template lt.exps = none := by
    unfold mismatchOf
    apply List.findSome?_eq_none_iff.2
    intro e he
    obtain ⟨i, hf, hok⟩ := hfound e he
    rw [hf]; simp [hok.1]
  have hany : lt.exps.any (fun e => (Node.find r.root e.2).isNone) = false := by
    apply Bool.eq_false_iff.2
    intro h
    obtain ⟨e, he, hn⟩ := List.any_eq_true.1 h
    obtain ⟨i, hf, _⟩ := hfound e he
    rw [hf] at hn; cases hn
  unfold Router.delete
  simp only [hp, hm, hany, Bool.false_eq_true, ite_false]

/-- **delete of a live template** returns the data given at insertion and removes exactly that template -/
theorem delete_live {r : Router} {L : List LiveT} (hreg : Reg r.root L) (hrc : RcInv r L) (lt : LiveT) (hlt : lt ∈ L)
    (hne : lt.exps ≠ []) :
    (r.delete lt.template).1 = .ok lt.data ∧
    Reg (r.delete lt.template).2.root (L.filter (fun x => x.template != lt.template)) ∧
    RcInv (r.delete lt.template).2 (L.filter (fun x => x.template != lt.template)) := by
  have hp := hreg.parsed lt hlt
  have hwf := parse_wf hp
  -- validation passes
  have hfound : ∀ e ∈ lt.exps, ∃ i, Node.find r.root e.2 = some i ∧ infoOK lt e i := hreg.complete lt hlt
  have hm : mismatchOf r.root lt.template lt.exps = none := by
    unfold mismatchOf
    apply List.findSome?_eq_none_iff.2
    intro e he
    obtain ⟨i, hf, hok⟩ := hfound e he
    rw [hf]; simp [hok.1]
  have hany : lt.exps.any (fun e => (Node.find r.root e.2).isNone) = false := by
    apply Bool.eq_false_iff.2
    intro h
    obtain ⟨e, he, hn⟩ := List.any_eq_true.1 h
    obtain ⟨i, hf, _⟩ := hfound e he
    rw [hf] at hn; cases hn
  have hdel : r.delete lt.template = r.deleteOk lt.template lt.exps := by
    unfold Router.delete
    simp only [hp, hm, hany, Bool.false_eq_true, ite_false]
  rw [hdel]
  obtain ⟨hrcEq, hnextEq, _⟩ := deleteOk_rc_next r lt.template lt.exps
  obtain ⟨hS', hfind⟩ := deleteOk_find hreg.shp hp
  -- the outcome
  have hout : (deleteAll lt.exps r.root r.rc none).2.2 = some lt.data ∧
      (∀ k', (∀ e ∈ lt.exps, ∀ i, Node.find r.root e.2 = some i → i.cell ≠ some k') →
        rcGet (deleteAll lt.exps r.root r.rc none).2.1 k' = rcGet r.rc k') := by
    by_cases hl : lt.exps.length > 1
    · obtain ⟨h1, _, h3⟩ := deleteAll_cells lt.data lt.exps r.root r.rc none [] hreg.shp hwf
        (by intro e _ h; cases h)
        (by
          intro e he _
          obtain ⟨i, hf, hok⟩ := hfound e he
          obtain ⟨k, hc, _, hrck⟩ := hrc.multi lt hlt hl e he i hf
          exact ⟨i, k, hf, hc, hok.2.1, hrck⟩)
      refine ⟨h1 (nkeys_pos hne), ?_⟩
      intro k' hk'
      apply h3
      intro e he _ hca
      obtain ⟨i, hf, _⟩ := hfound e he
      rw [cellAt_of_find hf] at hca
      exact hk' e he i hf hca
    · have hlen : lt.exps.length ≤ 1 := by omega
      cases hexps : lt.exps with
      | nil => exact absurd hexps hne
      | cons e rest =>
        cases rest with
        | cons b rest' => rw [hexps] at hlen; simp at hlen
        | nil =>
          obtain ⟨i, hf, hok⟩ := hfound e (by rw [hexps]; simp)
          have hc := hrc.single lt hlt hlen e (by rw [hexps]; simp) i hf
          obtain ⟨h1, h2⟩ := deleteAll_inline e r.root r.rc none i hreg.shp (hwf e (by rw [hexps]; simp)) hf hc
          refine ⟨by rw [h1, hok.2.1], ?_⟩
          intro k' _
          rw [h2]
  refine ⟨?_, Reg.delete hreg hp hm, ?_⟩
  · rw [Router.deleteOk_fst, hout.1]
  · -- reference counts of the remaining templates
    have hold : ∀ x ∈ L, x.template ≠ lt.template → ∀ e ∈ x.exps,
        Node.find (r.deleteOk lt.template lt.exps).2.root e.2 = Node.find r.root e.2 := by
      intro x hx hxt e he
      rw [hfind e.2 (parse_wf (hreg.parsed x hx) e he)]
      have : e.2 ∉ lt.exps.map (fun e => e.2) := by
        intro hmem
        obtain ⟨e', he', hk⟩ := List.mem_map.1 hmem
        obtain ⟨i, hf, hok⟩ := hreg.complete x hx e he
        have := mismatchOf_none hm e' he' i (by rw [hk]; exact hf)
        rw [hok.1] at this
        exact hxt this
      rw [if_neg this]
    refine ⟨?_, ?_, ?_⟩
    · intro x hx hlen e he i hf
      obtain ⟨hx1, hx2⟩ := List.mem_filter.1 hx
      have hxt : x.template ≠ lt.template := by simpa using hx2
      rw [hold x hx1 hxt e he] at hf
      exact hrc.single x hx1 hlen e he i hf
    · intro x hx hlen e he i hf
      obtain ⟨hx1, hx2⟩ := List.mem_filter.1 hx
      have hxt : x.template ≠ lt.template := by simpa using hx2
      rw [hold x hx1 hxt e he] at hf
      obtain ⟨k, hc, hk, hrck⟩ := hrc.multi x hx1 hlen e he i hf
      refine ⟨k, hc, by rw [hnextEq]; exact hk, ?_⟩
      rw [hrcEq, hout.2 k, hrck]
      · apply cellKeys_congr
        intro y hy _
        simp only [cellAt, hold x hx1 hxt y hy]
      · -- a cell of another template is not a cell of the deleted one
        intro e' he' i' hf' hci'
        have := hrc.sep lt hlt x hx1 e' he' e he i' i k hf' hf hci' hc
        exact hxt this.symm
    · intro x1 hx1 x2 hx2 e1 he1 e2 he2 i1 i2 k hf1 hf2 hc1 hc2
      obtain ⟨hx1a, hx1b⟩ := List.mem_filter.1 hx1
      obtain ⟨hx2a, hx2b⟩ := List.mem_filter.1 hx2
      rw [hold x1 hx1a (by simpa using hx1b) e1 he1] at hf1
      rw [hold x2 hx2a (by simpa using hx2b) e2 he2] at hf2
      exact hrc.sep x1 hx1a x2 hx2a e1 he1 e2 he2 i1 i2 k hf1 hf2 hc1 hc2

