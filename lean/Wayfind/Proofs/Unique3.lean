import Wayfind.Proofs.Unique2

/-! Uniqueness of the canonical tree, part 3: **two canonical trees that store the same keys have the same shape**. -/

/-- same stored keys -/
def KeyEq (n1 n2 : Node) : Prop := ∀ K, wfParts K = true → (Node.find n1 K).isSome = (Node.find n2 K).isSome

mutual
/-- forget values, flags, dirty marks, and the unused fields of literal labels: exactly what `Display` can see -/
def Node.skel : Node → Node
  | .mk x s dc d wc w ec e _ _ _ =>
    .mk (x.map fun _ => dummyInfo) (Kids.skelS s) (Kids.skel dc) (Kids.skel d) (Kids.skel wc) (Kids.skel w)
      (Kids.skel ec) (Kids.skel e) false false false
def Kids.skel : Kids → Kids
  | .nil => .nil
  | .cons l n r => .cons l (Node.skel n) (Kids.skel r)
def Kids.skelS : Kids → Kids
  | .nil => .nil
  | .cons l n r => .cons {pre := l.pre} (Node.skel n) (Kids.skelS r)
end

/-- what `Canon` says about a literal child vector -/
structure StatVec (s : Kids) : Prop where
  ne : Kids.All (fun l _ => l.pre ≠ []) s
  dh : Kids.distinctHeads s
  sh : SH s
  kids : Kids.All (fun _ n => Canon n ∧ Node.routes n ≠ [] ∧ n.compress? = none) s

/-- what `Canon` says about a parameter child vector (`mid`: a mid-route wildcard vector, whose nodes carry no data) -/
structure ParVec (mid : Bool) (v : Kids) : Prop where
  srt : SortedL v.labels
  kids : Kids.All (fun _ n => Canon n ∧ Node.routes n ≠ [] ∧ n.onlyStatic ∧ (mid = true → n.data = none)) v

theorem StatVec.tail {l n r} (h : StatVec (.cons l n r)) : StatVec r :=
  ⟨h.ne.2, h.dh.2, by have := h.sh; unfold SH at this ⊢; simp only [Kids.heads, List.pairwise_cons] at this; exact this.2, h.kids.2⟩

theorem ParVec.tail {mid l n r} (h : ParVec mid (.cons l n r)) : ParVec mid r :=
  ⟨by have := h.srt; unfold SortedL at this ⊢; simp only [Kids.labels, List.pairwise_cons] at this; exact this.2, h.kids.2⟩

theorem All_and4 {P Q R S : Label → Node → Prop} : ∀ (ks : Kids), Kids.All P ks → Kids.All Q ks → Kids.All R ks → Kids.All S ks →
    Kids.All (fun l n => P l n ∧ Q l n ∧ R l n ∧ S l n) ks
  | .nil, _, _, _, _ => trivial
  | .cons _ _ r, a, b, c, d => ⟨⟨a.1, b.1, c.1, d.1⟩, All_and4 r a.2 b.2 c.2 d.2⟩

theorem All_true {P : Label → Node → Prop} (h : ∀ l n, P l n) : ∀ (ks : Kids), Kids.All P ks
  | .nil => trivial
  | .cons l n r => ⟨h l n, All_true h r⟩

theorem canon_kids {x s dc d wc w ec e ds ws dirty} (h : Canon (.mk x s dc d wc w ec e ds ws dirty)) :
    StatVec s ∧ ParVec false dc ∧ ParVec false d ∧ ParVec true wc ∧ ParVec true w ∧
    Kids.leaves ec ∧ SortedL ec.labels ∧ Kids.leaves e ∧ SortedL e.labels := by
  obtain ⟨hS, hR, hT, hC⟩ := h
  simp only [Node.Shp] at hS
  obtain ⟨hs1, hs2, hwcd, hwd, hecl, hel, _, _, _, _, _, _, odc, od, owc, ow, ks, kdc, kd, kwc, kw⟩ := hS
  simp only [Node.Srt] at hR
  obtain ⟨sdc, sd, swc, sw, sec, se, rs, rdc, rd, rwc, rw'⟩ := hR
  simp only [Node.SrtS] at hT
  obtain ⟨t0, ts, tdc, td, twc, tw⟩ := hT
  simp only [Node.Cmp] at hC
  obtain ⟨c0, cs, cdc, cd, cwc, cw⟩ := hC
  have mk : ∀ v : Kids, Kids.Shpk v → Kids.Srtk v → Kids.SrtSk v → Kids.Cmpk v →
      Kids.All (fun _ n => Canon n ∧ Node.routes n ≠ []) v := by
    intro v a b c d
    rw [Shpk_iff_All] at a; rw [Srtk_iff_All] at b; rw [SrtSk_iff_All] at c; rw [Cmpk_iff_All] at d
    exact Kids.All_imp (fun _ n h => ⟨⟨h.1.1, h.2.1, h.2.2.1, h.2.2.2⟩, h.1.2⟩) v (All_and4 v a b c d)
  have nomid : ∀ v : Kids, Kids.All (fun _ (n : Node) => (false = true → n.data = none)) v :=
    fun v => All_true (fun _ _ h => by cases h) v
  refine ⟨⟨hs1, hs2, t0, ?_⟩, ⟨sdc, ?_⟩, ⟨sd, ?_⟩, ⟨swc, ?_⟩, ⟨sw, ?_⟩, hecl, sec, hel, se⟩
  · exact Kids.All_imp (fun _ n h => ⟨h.1.1, h.1.2, h.2⟩) s (Kids.All_and s (mk s ks rs ts cs) c0)
  · exact Kids.All_imp (fun _ n h => ⟨h.1.1, h.1.2, h.2.1, h.2.2⟩) dc (Kids.All_and dc (mk dc kdc rdc tdc cdc) (Kids.All_and dc odc (nomid dc)))
  · exact Kids.All_imp (fun _ n h => ⟨h.1.1, h.1.2, h.2.1, h.2.2⟩) d (Kids.All_and d (mk d kd rd td cd) (Kids.All_and d od (nomid d)))
  · exact Kids.All_imp (fun _ n h => ⟨h.1.1, h.1.2, h.2.1, fun _ => h.2.2⟩) wc (Kids.All_and wc (mk wc kwc rwc twc cwc) (Kids.All_and wc owc hwcd))
  · exact Kids.All_imp (fun _ n h => ⟨h.1.1, h.1.2, h.2.1, fun _ => h.2.2⟩) w (Kids.All_and w (mk w kw rw' tw cw) (Kids.All_and w ow hwd))

theorem find_onlyStatic_par : ∀ (n : Node) (k : PKind) (l : Label) (K : List Part), n.onlyStatic →
    Node.find n (.par k l :: K) = none
  | .mk _ _ dc d wc w ec e _ _ _, k, l, K, h => by
    obtain ⟨rfl, rfl, rfl, rfl, rfl, rfl⟩ := h
    simp only [Node.find]; split <;> simp [findPar_nil]

theorem head_mem_of_findStatic {s : Kids} {q : Bytes} {qrest : List Part}
    (h : (Kids.findStatic s q qrest).isSome = true) : q.head? ∈ s.heads := by
  apply Classical.byContradiction
  intro hn
  rw [findStatic_noHead s q qrest ((noHead_iff _ s).2 hn)] at h
  cases h

theorem label_mem_of_findPar {v : Kids} {l : Label} {K : List Part}
    (h : (Kids.findPar v l K).isSome = true) : l ∈ v.labels := by
  apply Classical.byContradiction
  intro hn
  rw [findPar_notin v l K hn] at h
  cases h

theorem find_data : ∀ (n : Node), Node.find n [] = n.data
  | .mk _ _ _ _ _ _ _ _ _ _ _ => rfl

theorem findPar_leaves : ∀ (v : Kids) (l : Label), Kids.leaves v → l ∈ v.labels → (Kids.findPar v l []).isSome = true
  | .nil, l, _, hm => by simp [Kids.labels] at hm
  | .cons l' n r, l, hv, hm => by
    simp only [Kids.findPar]
    split
    · obtain ⟨⟨i, ds, ws, dirty, rfl⟩, _⟩ := hv
      simp [Node.find]
    · rename_i hne
      simp only [Kids.labels, List.mem_cons] at hm
      rcases hm with rfl | hm
      · exact absurd rfl hne
      · exact findPar_leaves r l hv.2 hm

theorem skel_leaf {n : Node} {i : Info} (h : isLeaf n i) :
    Node.skel n = .mk (some dummyInfo) .nil .nil .nil .nil .nil .nil .nil false false false := by
  obtain ⟨ds, ws, dirty, rfl⟩ := h
  simp [Node.skel, Kids.skel, Kids.skelS]

theorem skel_leaves : ∀ (v1 v2 : Kids), Kids.leaves v1 → Kids.leaves v2 → v1.labels = v2.labels → Kids.skel v1 = Kids.skel v2
  | .nil, .nil, _, _, _ => rfl
  | .nil, .cons _ _ _, _, _, h => by simp [Kids.labels] at h
  | .cons _ _ _, .nil, _, _, h => by simp [Kids.labels] at h
  | .cons l1 n1 r1, .cons l2 n2 r2, h1, h2, h => by
    simp only [Kids.labels, List.cons.injEq] at h
    obtain ⟨⟨i1, hi1⟩, hr1⟩ := h1
    obtain ⟨⟨i2, hi2⟩, hr2⟩ := h2
    simp only [Kids.skel, skel_leaf hi1, skel_leaf hi2, h.1, skel_leaves r1 r2 hr1 hr2 h.2]

/-- catch-all vectors: marked leaves, so the labels decide everything -/
theorem skel_unique_end (v1 v2 : Kids) (h1 : Kids.leaves v1) (h2 : Kids.leaves v2) (s1 : SortedL v1.labels)
    (s2 : SortedL v2.labels) (H : ∀ l, (Kids.findPar v1 l []).isSome = (Kids.findPar v2 l []).isSome) :
    Kids.skel v1 = Kids.skel v2 := by
  apply skel_leaves v1 v2 h1 h2
  apply sorted_ext _ _ s1 s2
  intro x
  constructor
  · intro hx; exact label_mem_of_findPar (by rw [← H]; exact findPar_leaves v1 x h1 hx)
  · intro hx; exact label_mem_of_findPar (by rw [H]; exact findPar_leaves v2 x h2 hx)
