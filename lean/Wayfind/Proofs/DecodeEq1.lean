import Wayfind.Model.Parser
import Wayfind.Spec.Grammar

/-! Stage 2 of the parser theorem, part 1: the literal run and the brace group of the model equal the grammar's. -/

/-- `parse_static_part` is the grammar's literal run, with an accumulator and a cursor -/
theorem parseStatic_eq_litRun : ∀ (rest : Bytes) (cur : Nat) (acc : Bytes),
    parseStatic rest cur acc = (acc ++ (litRun rest).1, cur + (rest.length - (litRun rest).2.length), (litRun rest).2)
  | [], cur, acc => by simp [parseStatic, litRun]
  | [b], cur, acc => by
    unfold parseStatic litRun
    by_cases h92 : b = 92
    · subst h92; simp [litRun]
    · simp only [h92, ite_false]
      by_cases hb : b = 123 ∨ b = 125
      · simp [hb]
      · simp only [hb, ite_false]
        rw [parseStatic_eq_litRun [] (cur + 1) (acc ++ [b])]
        simp [litRun]
  | b :: c :: rest, cur, acc => by
    unfold parseStatic
    by_cases h92 : b = 92
    · subst h92
      simp only [ite_true]
      rw [parseStatic_eq_litRun rest (cur + 2) (acc ++ [c])]
      simp only [litRun, List.append_assoc, List.singleton_append, List.length_cons]
      refine Prod.ext rfl (Prod.ext ?_ rfl)
      simp only
      have : (litRun rest).2.length ≤ rest.length := litRun_length_le rest
      omega
    · simp only [h92, ite_false]
      by_cases hb : b = 123 ∨ b = 125
      · simp only [hb, ite_true]
        have : litRun (b :: c :: rest) = ([], b :: c :: rest) := by
          rcases hb with rfl | rfl <;> simp [litRun]
        simp [this]
      · simp only [hb, ite_false]
        rw [parseStatic_eq_litRun (c :: rest) (cur + 1) (acc ++ [b])]
        have hl : litRun (b :: c :: rest) = (b :: (litRun (c :: rest)).1, (litRun (c :: rest)).2) := by
          have h1 : ¬ b = 123 := fun h => hb (Or.inl h)
          have h2 : ¬ b = 125 := fun h => hb (Or.inr h)
          rw [litRun.eq_def]
          split
          · rename_i heq; cases heq
          · rename_i heq; injection heq with e1 e2; exact absurd e1 h92
          · rename_i heq; injection heq with e1 e2; subst e1 e2; simp [hb]
        rw [hl]
        refine Prod.ext (by simp) (Prod.ext ?_ rfl)
        simp only [List.length_cons]
        have : (litRun (c :: rest)).2.length ≤ (c :: rest).length := litRun_length_le (c :: rest)
        simp only [List.length_cons] at this
        omega
where
  litRun_length_le : ∀ (l : Bytes), (litRun l).2.length ≤ l.length := fun l => by
    induction l using litRun.induct with
    | case1 => simp [litRun]
    | case2 b rest ih => simp only [litRun, List.length_cons]; omega
    | case3 b rest _ h => simp [litRun, h]
    | case4 b rest _ h ih => simp only [litRun, h, ite_false, List.length_cons]; omega
