import Wayfind.Model.Router

/-! inversion lemmas for the `Router` façade -/

theorem Router.deleteOk_fst (r : Router) (t : Bytes) (ts : List (Bytes × List Part)) :
    (r.deleteOk t ts).1 = (match (deleteAll ts r.root r.rc none).2.2 with
      | none => .error (.notFound t) | some d => .ok d) := by
  unfold Router.deleteOk
  generalize deleteAll ts r.root r.rc none = res
  obtain ⟨a, b, c⟩ := res
  cases c <;> rfl

theorem Router.insert_ok_iff (r r' : Router) (t : Bytes) (d : Nat) :
    r.insert t d = .ok r' ↔ ∃ ts, parseTemplates t = .ok ts ∧
      firstUnknown (fun c => r.registry.any (·.1 == c)) ts = none ∧ conflictsOf r.root ts = [] ∧ r' = r.insertOk t d ts := by
  unfold Router.insert
  constructor
  · intro h
    repeat' split at h
    all_goals first | (cases h; done) | skip
    rename_i ts hp _ hu _ hc
    injection h with h
    exact ⟨ts, hp, hu, hc, h.symm⟩
  · rintro ⟨ts, hp, hu, hc, rfl⟩
    simp [hp, hu, hc]

theorem Router.insert_conflict_iff (r : Router) (t : Bytes) (d : Nat) (t' : Bytes) (cs : List Bytes) :
    r.insert t d = .error (.conflict t' cs) ↔ ∃ ts, parseTemplates t = .ok ts ∧
      firstUnknown (fun c => r.registry.any (·.1 == c)) ts = none ∧ conflictsOf r.root ts ≠ [] ∧
      t' = t ∧ cs = dedupAdj (sortBytes (conflictsOf r.root ts)) := by
  unfold Router.insert
  constructor
  · intro h
    repeat' split at h
    all_goals first | (cases h; done) | skip
    rename_i ts hp _ hu _ c cs' hc
    injection h with h; injection h with h1 h2
    exact ⟨ts, hp, hu, by simp [hc], h1.symm, by rw [hc]; exact h2.symm⟩
  · rintro ⟨ts, hp, hu, hc, rfl, rfl⟩
    simp only [hp, hu]
    cases hcs : conflictsOf r.root ts with
    | nil => exact absurd hcs hc
    | cons c cs' => rfl
