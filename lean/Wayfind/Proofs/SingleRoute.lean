import Wayfind.Proofs.Reachable
import Wayfind.Proofs.Greedy
import Wayfind.Proofs.FindOpt

/-! a router holding one group-free template: its tree holds exactly that route (C12 at the API) -/

theorem norm_of_wf : ∀ (P : List Part), wfParts P = true → norm P = P
  | [], _ => rfl
  | [.stat p], _ => by simp [norm]
  | [.par _ _], _ => by simp [norm]
  | .stat p :: .par k l :: rest, h => by
    simp only [wfParts, Bool.and_eq_true] at h
    have ih := norm_of_wf _ h.2
    simp only [norm] at ih ⊢
    rw [ih]
  | .par _ _ :: .stat q :: rest, h => by
    simp only [wfParts] at h
    have ih := norm_of_wf _ h
    simp only [norm]
    simp only [norm] at ih
    rw [ih]
  | .stat _ :: .stat _ :: _, h => by simp [wfParts] at h
  | .par _ _ :: .par _ _ :: _, h => by simp [wfParts] at h

theorem statsNE_of_wf (P : List Part) : wfParts P = true → statsNE P := by
  induction P with
  | nil => intro _; trivial
  | cons p P ih =>
    intro h
    have ht := wfParts_tail h
    cases p with
    | par k l => exact ih ht
    | stat a =>
      refine ⟨?_, ih ht⟩
      cases P with
      | nil => simpa [wfParts] using h
      | cons q Q =>
        cases q with
        | stat _ => simp [wfParts] at h
        | par k l => simp only [wfParts, Bool.and_eq_true] at h; simpa using h.1

theorem find_empty_none (P : List Part) : Node.find Node.empty P = none := by
  cases P with
  | nil => rfl
  | cons p P => cases p with
    | stat q => simp [Node.empty, Node.find, Kids.findStatic]
    | par k l => simp only [Node.empty, Node.find]; split <;> simp [Kids.findPar]

theorem SOK_empty : Node.SOK Node.empty := by
  simp [Node.empty, Node.SOK, Kids.SOKs, Kids.SOKp, Kids.allData]

theorem Shp_empty : Node.Shp Node.empty := good3_empty.1

/-- the tree after inserting one well-formed route into the empty root (and optimizing) holds exactly that route -/
theorem single_route_mem (P : List Part) (i : Info) (hP : wfParts P = true) (Q : List Part) (j : Info) :
    Mem (Node.routes (Node.optimize (Node.insert Node.empty P i))) Q j ↔ (Q = P ∧ j = i) := by
  have hS1 := (Node.insert_Shp Node.empty P i Shp_empty hP).1
  have hS2 := Node.optimize_Shp _ hS1
  have hfind : ∀ Q, wfParts Q = true →
      Node.find (Node.optimize (Node.insert Node.empty P i)) Q = if Q = P then some i else none := by
    intro Q hQ
    rw [Node.find_optimize _ Q hS1,
      Node.find_insert Node.empty P Q i SOK_empty (wfParts_altOK P hP) (wfParts_altOK Q hQ) (find_empty_none P), find_empty_none]
  constructor
  · rintro ⟨r, hr, hn, hi⟩
    have hQ : wfParts Q = true := by rw [← hn]; exact routes_norm_wf _ hS2 r hr
    have := (Node.find_iff _ Q j hS2 hQ).2 ⟨r, hr, hn, hi⟩
    rw [hfind Q hQ] at this
    by_cases hq : Q = P
    · rw [if_pos hq] at this; exact ⟨hq, (Option.some.inj this).symm⟩
    · rw [if_neg hq] at this; cases this
  · rintro ⟨rfl, rfl⟩
    have := hfind Q hP
    rw [if_pos rfl] at this
    exact (Node.find_iff _ Q j hS2 hP).1 this

/-- **C12 at the API.** A router that holds exactly one group-free template answers every path with the
leftmost-longest assignment `greedy`, whatever the constraint environment. -/
theorem single_template_search (env : Env) (builtins : List (Bytes × Bytes)) (t : Bytes) (d : Nat) (raw : Bytes) (parts : List Part)
    (r : Router) (hp : parseTemplates t = .ok [(raw, parts)])
    (hi : ({ registry := builtins } : Router).insert t d = .ok r) (path : Bytes) :
    r.search env path = (greedy env parts path).map (fun vs => ⟨t, none, d, vs⟩) := by
  have hreach : Reachable r := ⟨builtins, [.insert t d], by simp [Router.step, hi]⟩
  obtain ⟨ts, hp', _, _, rfl⟩ := (Router.insert_ok_iff _ r t d).1 hi
  rw [hp] at hp'
  injection hp' with hp'
  subst hp'
  have hwf : wfParts parts = true := parse_wf hp (raw, parts) (by simp)
  rw [Router.search_eq_walk env _ hreach path]
  have hroot : (Router.insertOk { registry := builtins } t d [(raw, parts)]).root =
      Node.optimize (Node.insert Node.empty parts (inlineInfo t d raw)) := rfl
  rw [hroot]
  have hS1 := (Node.insert_Shp Node.empty parts (inlineInfo t d raw) Shp_empty hwf).1
  have hS2 := Node.optimize_Shp _ hS1
  have hsne1 : SNE [(⟨parts, inlineInfo t d raw⟩ : Route)] := by
    intro r hr; simp only [List.mem_singleton] at hr; subst hr; exact statsNE_of_wf _ hwf
  have hfun1 : Fun [(⟨parts, inlineInfo t d raw⟩ : Route)] := by
    rintro P a b ⟨r1, h1, _, rfl⟩ ⟨r2, h2, _, rfl⟩
    simp only [List.mem_singleton] at h1 h2; subst h1 h2; rfl
  have hmem1 : ∀ Q j, Mem [(⟨parts, inlineInfo t d raw⟩ : Route)] Q j ↔ (Q = parts ∧ j = inlineInfo t d raw) := by
    intro Q j
    constructor
    · rintro ⟨r, hr, hn, hi⟩
      simp only [List.mem_singleton] at hr; subst hr
      exact ⟨by rw [← hn]; exact norm_of_wf _ hwf, hi.symm⟩
    · rintro ⟨h1, h2⟩
      exact ⟨⟨parts, inlineInfo t d raw⟩, List.mem_singleton.2 rfl, by rw [h1]; exact norm_of_wf _ hwf, h2.symm⟩
  rw [refWalk_ext env path.length _ [(⟨parts, inlineInfo t d raw⟩ : Route)] path [] (Nat.le_refl _)
    (routes_SNE _ hS2) hsne1 (routes_Fun _ hS2) hfun1
    ⟨fun P i h => (hmem1 P i).2 ((single_route_mem parts _ hwf P i).1 h),
     fun P i h => Or.inl ((single_route_mem parts _ hwf P i).2 ((hmem1 P i).1 h))⟩]
  rw [refWalk_single env path.length parts _ path [] (statsNE_of_wf _ hwf) (Nat.le_refl _)]
  cases greedy env parts path <;> simp [inlineInfo, toMatch]
