import Wayfind.Proofs.Unique1

/-! Uniqueness of the canonical tree, part 2: lookups at a given child, and the label of a literal child is determined
by the keys stored below it (this is where maximal compression is used). -/

theorem noHead_app (b : Option Byte) (A B : Kids) : Kids.noHead b (Kids.app A B) ↔ Kids.noHead b A ∧ Kids.noHead b B := by
  simp only [noHead_iff, Kids.heads_app, List.mem_append, not_or]

theorem distinctHeads_app_cons {A : Kids} {l : Label} {n : Node} {B : Kids}
    (h : Kids.distinctHeads (Kids.app A (.cons l n B))) :
    Kids.noHead l.pre.head? A ∧ Kids.noHead l.pre.head? B ∧ Kids.distinctHeads A ∧ Kids.distinctHeads B := by
  rw [distinctHeads_iff, Kids.heads_app, List.pairwise_append] at h
  simp only [Kids.heads, List.pairwise_cons, List.mem_cons] at h
  obtain ⟨hA, ⟨hlB, hB⟩, hAB⟩ := h
  refine ⟨?_, ?_, (distinctHeads_iff A).2 hA, (distinctHeads_iff B).2 hB⟩
  · rw [noHead_iff]; intro hm; exact hAB _ hm _ (Or.inl rfl) rfl
  · rw [noHead_iff]; intro hm; exact hlB _ hm rfl

/-- a lookup whose literal starts with the label of a child goes to that child, wherever it stands in the vector -/
theorem findStatic_at : ∀ (A : Kids) (l : Label) (n : Node) (B : Kids) (p : Bytes) (rest : List Part),
    Kids.All (fun l _ => l.pre ≠ []) (Kids.app A (.cons l n B)) → Kids.distinctHeads (Kids.app A (.cons l n B)) →
    l.pre.isPrefixOf p = true →
    Kids.findStatic (Kids.app A (.cons l n B)) p rest = Node.find n (below p l.pre.length rest)
  | .nil, l, n, B, p, rest, hne, hd, hp => by
    simp only [Kids.app] at hne hd ⊢
    rw [findStatic_cons_spec l n B p rest hne.1 hd.1, if_pos hp]
  | .cons l0 n0 A, l, n, B, p, rest, hne, hd, hp => by
    simp only [Kids.app] at hne hd ⊢
    have hd' := hd
    simp only [Kids.distinctHeads] at hd'
    rw [findStatic_cons_spec l0 n0 _ p rest hne.1 hd'.1]
    have hl : l.pre ≠ [] := by
      have := hne.2; rw [Kids.All_app, All_cons_iff] at this; exact this.2.1
    have hph : p.head? = l.pre.head? := by
      obtain ⟨t, ht⟩ := List.isPrefixOf_iff_prefix.1 hp
      rw [← ht, head_append_ne hl]
    have hne0 : l0.pre.head? ≠ p.head? := by
      rw [hph]
      have := hd'.1; rw [noHead_app] at this
      simp only [Kids.noHead] at this
      exact fun e => this.2.1 e.symm
    have hnp : ¬ l0.pre.isPrefixOf p = true := by
      rw [List.isPrefixOf_iff_prefix]; rintro ⟨u, hu⟩
      apply hne0; rw [← hu, head_append_ne hne.1]
    rw [if_neg hnp, if_neg hne0]
    exact findStatic_at A l n B p rest hne.2 hd'.2 hp

theorem findPar_at : ∀ (A : Kids) (l : Label) (n : Node) (B : Kids) (rest : List Part), l ∉ A.labels →
    Kids.findPar (Kids.app A (.cons l n B)) l rest = Node.find n rest
  | .nil, l, n, B, rest, _ => by simp [Kids.app, Kids.findPar]
  | .cons l0 n0 A, l, n, B, rest, h => by
    simp only [Kids.labels, List.mem_cons, not_or] at h
    have : ¬ l0 = l := fun e => h.1 e.symm
    simp only [Kids.app, Kids.findPar, this, ite_false]
    exact findPar_at A l n B rest h.2

/-- the first child of a parameter vector is reached by its label -/
theorem findPar_head (l : Label) (n : Node) (r : Kids) (rest : List Part) :
    Kids.findPar (.cons l n r) l rest = Node.find n rest := by simp [Kids.findPar]

/-! ### the keys found through a literal child -/

/-- "key `stat q :: qrest` of the parent is stored below the child `(l, n)`" -/
def Through (l : Label) (n : Node) (q : Bytes) (qrest : List Part) : Prop :=
  l.pre.isPrefixOf q = true ∧ (Node.find n (below q l.pre.length qrest)).isSome = true

theorem through_of_key (l : Label) (n : Node) (K : List Part) (hK : wfParts K = true) (hf : (Node.find n K).isSome = true) :
    ∃ q qrest, prepend l.pre K = .stat q :: qrest ∧ Through l n q qrest := by
  obtain ⟨p, rest, he, hp, hb⟩ := prepend_spec l.pre K hK
  exact ⟨p, rest, he, hp, by rw [hb]; exact hf⟩

theorem wf_stat_par {q : Bytes} {k : PKind} {l : Label} {K : List Part} (hq : q ≠ []) (hK : wfParts K = true)
    (hst : startsStatOrEnd K) : wfParts (.stat q :: .par k l :: K) = true := by
  have : wfParts (.par k l :: K) = true := by
    cases K with
    | nil => rfl
    | cons x K => cases x with
      | stat _ => simpa [wfParts] using hK
      | par _ _ => simp [startsStatOrEnd] at hst
  simp only [wfParts, Bool.and_eq_true]
  exact ⟨by simp [hq], this⟩

theorem below_self (q : Bytes) (rest : List Part) : below q q.length rest = rest := by simp [below]

theorem slotOf_wild_mid {k : PKind} {K : List Part} (hK : K ≠ []) :
    slotOf .wildC K.isEmpty = .wc ∧ slotOf .wild K.isEmpty = .w := by
  cases K with
  | nil => exact absurd rfl hK
  | cons _ _ => simp [slotOf]

/-- **Maximal compression pins the label down.** If every key found through the literal child `(l2, n2)` of one tree is
found through the literal child `(l1, n1)` of another, then `l1` is a prefix of `l2`: otherwise every key below `n2` would
continue with the same literal byte, so `n2` would be a data-less node with a single literal child. -/
theorem label_prefix (l1 l2 : Label) (n1 n2 : Node) (hl2 : l2.pre ≠ [])
    (hS2 : Node.Shp n2) (hR2 : Node.routes n2 ≠ []) (hC2 : n2.compress? = none)
    (H : ∀ q qrest, wfParts (.stat q :: qrest) = true → Through l2 n2 q qrest → Through l1 n1 q qrest) :
    l1.pre <+: l2.pre := by
  -- some key is stored below n2; it is found through (l1, n1), so l1 and l2 are prefixes of one literal
  obtain ⟨K2, hK2, hf2, _, _⟩ := Node.inhabited n2 hS2 hR2
  obtain ⟨q0, qrest0, he0, ht0⟩ := through_of_key l2 n2 K2 hK2 hf2
  have hwf0 : wfParts (.stat q0 :: qrest0) = true := by rw [← he0]; exact wfParts_prepend _ hl2 _ hK2
  have h10 := H q0 qrest0 hwf0 ht0
  have p1 : l1.pre <+: q0 := List.isPrefixOf_iff_prefix.1 h10.1
  have p2 : l2.pre <+: q0 := List.isPrefixOf_iff_prefix.1 ht0.1
  by_cases hlen : l1.pre.length ≤ l2.pre.length
  · exact List.prefix_of_prefix_length_le p1 p2 hlen
  · exfalso
    have hlt : l2.pre.length < l1.pre.length := by omega
    -- a key `stat l2.pre :: rest` of the parent cannot be found through l1
    have noShort : ∀ qrest, wfParts (.stat l2.pre :: qrest) = true → (Node.find n2 qrest).isSome = true → False := by
      intro qrest hwf hf
      have := H l2.pre qrest hwf ⟨by simp [List.isPrefixOf_iff_prefix], by rw [below_self]; exact hf⟩
      have hp := List.isPrefixOf_iff_prefix.1 this.1
      have := hp.length_le
      omega
    have p21 : l2.pre <+: l1.pre := List.prefix_of_prefix_length_le p2 p1 (by omega)
    obtain ⟨yv, hyv⟩ := p21
    cases yv with
    | nil => rw [List.append_nil] at hyv; rw [hyv] at hlt; omega
    | cons y v =>
    cases n2 with
    | mk x s dc d wc w ec e ds ws dirty =>
    have hS2' := hS2
    simp only [Node.Shp] at hS2'
    obtain ⟨hs1, hs2, hwcd, hwd, hecl, hel, _, _, _, _, _, _, odc, od, owc, ow, ks, kdc, kd, kwc, kw⟩ := hS2'
    -- no data
    have hx : x = none := by
      cases x with
      | none => rfl
      | some i => exact absurd (noShort [] (by simp [wfParts, hl2]) (by simp [Node.find])) id
    -- no parameter children
    have parNil : ∀ (v : Kids) (k : PKind) (mid : Bool), Kids.Shpk v → Kids.All (fun _ n => n.onlyStatic) v →
        (mid = true → Kids.All (fun _ n => n.data = none) v) →
        (∀ l K, (mid = true → K ≠ []) → Node.find (.mk x s dc d wc w ec e ds ws dirty) (.par k l :: K) = Kids.findPar v l K) →
        v = .nil := by
      intro v k mid hv ho hm hfind
      cases v with
      | nil => rfl
      | cons l n' r =>
        exfalso
        obtain ⟨K', hK', hf', hst', hne'⟩ := Node.inhabited n' hv.1 hv.2.1
        have hmid : mid = true → K' ≠ [] := fun h => hne' (hm h).1
        apply noShort (.par k l :: K') (wf_stat_par hl2 hK' (hst' ho.1))
        rw [hfind l K' hmid, findPar_head]; exact hf'
    have hdc : dc = .nil := parNil dc .dynC false kdc odc (by intro h; cases h) (by
      intro l K _; simp [Node.find, slotOf])
    have hd : d = .nil := parNil d .dyn false kd od (by intro h; cases h) (by
      intro l K _; simp [Node.find, slotOf])
    have hwc : wc = .nil := parNil wc .wildC true kwc owc (fun _ => hwcd) (by
      intro l K hK; simp only [Node.find, (slotOf_wild_mid (k := .wildC) (hK rfl)).1])
    have hw : w = .nil := parNil w .wild true kw ow (fun _ => hwd) (by
      intro l K hK; simp only [Node.find, (slotOf_wild_mid (k := .wild) (hK rfl)).2])
    have endNil : ∀ (v : Kids) (k : PKind), Kids.leaves v →
        (∀ l, Node.find (.mk x s dc d wc w ec e ds ws dirty) [.par k l] = Kids.findPar v l []) → v = .nil := by
      intro v k hv hfind
      cases v with
      | nil => rfl
      | cons l n' r =>
        exfalso
        obtain ⟨⟨i, hi⟩, _⟩ := hv
        apply noShort [.par k l] (by simp [wfParts, hl2])
        rw [hfind l, findPar_head]
        obtain ⟨ds', ws', dirty', rfl⟩ := hi
        simp [Node.find]
    have hec : ec = .nil := endNil ec .wildC hecl (by intro l; simp [Node.find, slotOf])
    have he : e = .nil := endNil e .wild hel (by intro l; simp [Node.find, slotOf])
    -- every literal child of n2 starts with y
    have statY : ∀ (A : Kids) (lz : Label) (nz : Node) (B : Kids), s = Kids.app A (.cons lz nz B) → lz.pre.head? = some y := by
      intro A lz nz B hs
      have hne := hs1; rw [hs, Kids.All_app, All_cons_iff] at hne
      have hk := ks; rw [hs, Kids.Shpk_app, Shpk_cons_iff] at hk
      obtain ⟨Kz, hKz, hfz, _, _⟩ := Node.inhabited nz hk.2.1 hk.2.2.1
      obtain ⟨qz, qrestz, hez, htz⟩ := through_of_key lz nz Kz hKz hfz
      have hwfz : wfParts (.stat qz :: qrestz) = true := by rw [← hez]; exact wfParts_prepend _ hne.2.1 _ hKz
      -- the parent's key: l2.pre ++ qz
      have hfn2 : (Node.find (Node.mk x s dc d wc w ec e ds ws dirty) (.stat qz :: qrestz)).isSome = true := by
        simp only [Node.find]
        rw [hs, findStatic_at A lz nz B qz qrestz (hs ▸ hs1) (hs ▸ hs2) htz.1]
        exact htz.2
      obtain ⟨Q, Qrest, heQ, hTQ⟩ := through_of_key l2 _ (.stat qz :: qrestz) hwfz hfn2
      have hwfQ : wfParts (.stat Q :: Qrest) = true := by rw [← heQ]; exact wfParts_prepend _ hl2 _ hwfz
      have h1Q := H Q Qrest hwfQ hTQ
      simp only [prepend, List.cons.injEq, Part.stat.injEq] at heQ
      have hp1 := List.isPrefixOf_iff_prefix.1 h1Q.1
      rw [← heQ.1, ← hyv] at hp1
      have hp2 : (y :: v) <+: qz := by
        obtain ⟨t, ht⟩ := hp1
        rw [List.append_assoc] at ht
        exact ⟨t, List.append_cancel_left ht⟩
      obtain ⟨tz, htz'⟩ := List.isPrefixOf_iff_prefix.1 htz.1
      obtain ⟨t2, ht2⟩ := hp2
      have : (lz.pre ++ tz).head? = some y := by rw [htz', ← ht2]; simp
      rw [head_append_ne hne.2.1] at this
      exact this
    -- so there is at most one literal child, and then n2 would be empty or compressible
    cases s with
    | nil =>
      have : (Node.mk x .nil dc d wc w ec e ds ws dirty).isEmptyN = true := by
        simp [Node.isEmptyN, hx, hdc, hd, hwc, hw, hec, he, Kids.isNil]
      exact absurd this (by rw [isEmptyN_false_of_routes hR2]; simp)
    | cons la na r =>
      cases r with
      | nil => simp [Node.compress?, hx, hdc, hd, hwc, hw, hec, he, Kids.isNil, Kids.single] at hC2
      | cons lb nb r' =>
        have ha := statY .nil la na (.cons lb nb r') rfl
        have hb := statY (.cons la na .nil) lb nb r' rfl
        simp only [Kids.distinctHeads, Kids.noHead] at hs2
        exact hs2.1.1 (by rw [ha, hb])
