import Wayfind.Proofs.FindInsert
import Wayfind.Spec.RefWalk

/-! `find` after `insert` without the freshness hypothesis: inserting under a key that is already present overwrites
its value — except for a catch-all, which keeps the value it has (`insert_end_wildcard*` return early). -/

/-- does the part list end in a catch-all (a wildcard with nothing after it)? -/
def catchAllEnd : List Part → Bool
  | [] => false
  | [.par k _] => wildK k
  | _ :: rest => catchAllEnd rest

/-- the value found under `P` after inserting `i` there -/
def keepOld (P : List Part) (old : Option Info) (i : Info) : Info := if catchAllEnd P then old.getD i else i

theorem catchAllEnd_stat (p : Bytes) (rest : List Part) : catchAllEnd (.stat p :: rest) = catchAllEnd rest := by
  cases rest <;> simp [catchAllEnd]

theorem catchAllEnd_par_cons (k : PKind) (l : Label) (x : Part) (rest : List Part) :
    catchAllEnd (.par k l :: x :: rest) = catchAllEnd (x :: rest) := by simp [catchAllEnd]

theorem catchAllEnd_below (p : Bytes) (c : Nat) (rest : List Part) :
    catchAllEnd (below p c rest) = catchAllEnd (.stat p :: rest) := by
  unfold below
  split
  · rw [catchAllEnd_stat]
  · rw [catchAllEnd_stat, catchAllEnd_stat]

theorem keepOld_none (P : List Part) (i : Info) : keepOld P none i = i := by
  unfold keepOld; split <;> rfl

theorem findStatic_descend' (l : Label) (m m' : Node) (r : Kids) (p : Bytes) (rest : List Part) (v : Option Info)
    (hl : l.pre ≠ []) (t : Bytes) (hp : p = l.pre ++ t)
    (hP : altOK (.stat p :: rest) = true)
    (H : ∀ Q', altOK Q' = true → Node.find m' Q' = if Q' = below p l.pre.length rest then v else Node.find m Q')
    (q : Bytes) (qrest : List Part) (hQ : altOK (.stat q :: qrest) = true) :
    Kids.findStatic (.cons l m' r) q qrest =
      if q = p ∧ qrest = rest then v else Kids.findStatic (.cons l m r) q qrest := by
  simp only [Kids.findStatic]
  by_cases hh : l.pre.head? = q.head?
  · simp only [hh, ite_true]
    by_cases hc : l.pre.length ≤ commonLen q l.pre
    · simp only [hc, ite_true]
      obtain ⟨u, hu⟩ := (commonLen_ge_iff q l.pre).1 hc
      have hcl : commonLen q l.pre = l.pre.length := by rw [hu, commonLen_append_left]
      have key := below_inj (lp := l.pre) hp hu hP hQ
      have hb : (if q.length ≤ commonLen q l.pre then Node.find m' qrest else Node.find m' (.stat (q.drop (commonLen q l.pre)) :: qrest))
              = Node.find m' (below q l.pre.length qrest) := by
        rw [hcl]; unfold below; split <;> rfl
      have hb' : (if q.length ≤ commonLen q l.pre then Node.find m qrest else Node.find m (.stat (q.drop (commonLen q l.pre)) :: qrest))
              = Node.find m (below q l.pre.length qrest) := by
        rw [hcl]; unfold below; split <;> rfl
      rw [hb, hb', H _ (altOK_below hQ)]
      by_cases hk : below q l.pre.length qrest = below p l.pre.length rest
      · simp [hk, key.1 hk]
      · have : ¬ (q = p ∧ qrest = rest) := fun h => hk (key.2 h)
        simp [hk, this]
    · simp only [hc, ite_false]
      have : ¬ (q = p ∧ qrest = rest) := by
        intro h; apply hc; rw [h.1, hp, commonLen_append_left]; exact Nat.le_refl _
      simp [this]
  · simp only [hh, ite_false]
    have : ¬ (q = p ∧ qrest = rest) := by
      intro h; apply hh; rw [h.1, hp]
      cases hl' : l.pre with
      | nil => exact absurd hl' hl
      | cons a b => simp
    simp [this]

theorem Kids.findPar_insertEnd' : ∀ (ks : Kids) (l l' : Label) (i : Info), Kids.allData ks →
    Kids.findPar (Kids.insertEnd ks l i) l' [] = if l' = l then some ((Kids.findPar ks l []).getD i) else Kids.findPar ks l' []
  | .nil, l, l', i, _ => by
    simp only [Kids.insertEnd, Kids.findPar, findPar_nil]
    by_cases h : l = l'
    · subst h; simp [Node.leaf, Node.find]
    · have : ¬ l' = l := fun h' => h h'.symm
      simp [h, this]
  | .cons l0 n r, l, l', i, hA => by
    simp only [Kids.allData] at hA
    by_cases h0 : l0 = l
    · subst h0
      simp only [Kids.insertEnd, ite_true, Kids.findPar]
      by_cases h1 : l0 = l'
      · subst h1
        simp only [ite_true]
        cases n with
        | mk x _ _ _ _ _ _ _ _ _ _ =>
          cases x with
          | none => simp [Node.data] at hA
          | some v => simp [Node.find]
      · have : ¬ l' = l0 := fun h => h1 h.symm
        simp [h1, this]
    · have ih := Kids.findPar_insertEnd' r l l' i hA.2
      simp only [Kids.insertEnd, h0, ite_false, Kids.findPar]
      by_cases h1 : l0 = l'
      · have : ¬ l' = l := by rintro rfl; exact h0 h1
        simp [h1, this]
      · simp only [h1, ite_false]; exact ih

mutual
theorem Node.find_insert' : ∀ (n : Node) (P Q : List Part) (i : Info), Node.SOK n → altOK P = true → altOK Q = true →
    Node.find (Node.insert n P i) Q = if Q = P then some (keepOld P (Node.find n P) i) else Node.find n Q
  | .mk x s dc d wc w ec e ds ws dirty, [], Q, i, _, _, _ => by
    cases Q with
    | nil => simp [Node.insert, Node.find, keepOld, catchAllEnd]
    | cons q Q => cases q <;> simp [Node.insert, Node.find]
  | .mk x s dc d wc w ec e ds ws dirty, .stat p :: rest, Q, i, hS, hP, hQ => by
    simp only [Node.SOK] at hS
    cases Q with
    | nil => simp [Node.insert, Node.find]
    | cons q Q =>
      cases q with
      | par k l => simp [Node.insert, Node.find]
      | stat q =>
        simp only [Node.insert, Node.find]
        rw [Kids.findStatic_insertStatic' s p rest q Q i hS.1 hP hQ]
        simp
  | .mk x s dc d wc w ec e ds ws dirty, .par k l :: rest, Q, i, hS, hP, hQ => by
    simp only [Node.SOK] at hS
    have hP' := altOK_tail hP
    cases Q with
    | nil => simp only [Node.insert]; split <;> simp [Node.find]
    | cons q Q =>
      cases q with
      | stat q => simp only [Node.insert]; split <;> simp [Node.find]
      | par k' l' =>
        have hQ' := altOK_tail hQ
        have hinj : (Part.par k' l' :: Q = Part.par k l :: rest) ↔ (k' = k ∧ l' = l ∧ Q = rest) := by
          constructor
          · intro h; injection h with h1 h2; injection h1 with h3 h4; exact ⟨h3, h4, h2⟩
          · rintro ⟨rfl, rfl, rfl⟩; rfl
        -- the value under the key: in the parameter vectors it is the value below the child
        have hkeepPar : slotOf k rest.isEmpty ≠ .ec → slotOf k rest.isEmpty ≠ .e →
            catchAllEnd (.par k l :: rest) = catchAllEnd rest := by
          intro h1 h2
          cases rest with
          | nil => cases k <;> simp [slotOf] at h1 h2 <;> simp [catchAllEnd, wildK]
          | cons x rest' => exact catchAllEnd_par_cons k l x rest'
        simp only [Node.insert]
        split <;> rename_i hs <;> simp only [Node.find] <;> split <;> rename_i hs' <;>
          first
          -- same slot, ordinary parameter vector
          | (rw [Kids.findPar_insertPar' _ l rest l' Q i (by first | exact hS.2.1 | exact hS.2.2.1 | exact hS.2.2.2.1 | exact hS.2.2.2.2.1) hP' hQ']
             by_cases hc : l' = l ∧ Q = rest
             · obtain ⟨rfl, rfl⟩ := hc
               have := slotOf_inj (hs'.trans hs.symm); subst this
               simp only [and_self, ite_true, Node.find, hs, keepOld, hkeepPar (by rw [hs]; simp) (by rw [hs]; simp)]
             · have : ¬ (k' = k ∧ l' = l ∧ Q = rest) := fun h => hc ⟨h.2.1, h.2.2⟩
               simp [hc, hinj, this])
          -- same slot, catch-all vector
          | (have hrest : rest = [] := by cases k <;> cases hr : rest.isEmpty <;> simp [slotOf, hr] at hs <;> simpa using hr
             have hQe : Q = [] := by cases k' <;> cases hr : Q.isEmpty <;> simp [slotOf, hr] at hs' <;> simpa using hr
             subst hrest hQe
             rw [Kids.findPar_insertEnd' _ l l' i (by first | exact hS.2.2.2.2.2.1 | exact hS.2.2.2.2.2.2)]
             by_cases hc : l' = l
             · subst hc
               have := slotOf_inj (hs'.trans hs.symm); subst this
               have hw : wildK k' = true := by cases k' <;> simp [slotOf] at hs <;> rfl
               simp only [and_self, ite_true, Node.find, hs, keepOld, catchAllEnd, hw]
             · have : ¬ (k' = k ∧ l' = l ∧ ([] : List Part) = []) := fun h => hc h.2.1
               simp [hc, hinj, this])
          -- different slots: untouched vector, and the query differs from the inserted route
          | (have : ¬ (k' = k ∧ l' = l ∧ Q = rest) := by
               rintro ⟨rfl, rfl, rfl⟩; rw [hs] at hs'; cases hs'
             simp [hinj, this])
theorem Kids.findStatic_insertStatic' : ∀ (ks : Kids) (p : Bytes) (rest : List Part) (q : Bytes) (qrest : List Part) (i : Info),
    Kids.SOKs ks → altOK (.stat p :: rest) = true → altOK (.stat q :: qrest) = true →
    Kids.findStatic (Kids.insertStatic ks p rest i) q qrest =
      if q = p ∧ qrest = rest then some (keepOld (.stat p :: rest) (Kids.findStatic ks p rest) i) else Kids.findStatic ks q qrest
  | .nil, p, rest, q, qrest, i, _, hP, hQ => by
    have hfc := find_chain (.stat p :: rest) (.stat q :: qrest) i hP
    simp only [chain, Node.find] at hfc
    simp only [Kids.insertStatic, findStatic_nil, keepOld_none]
    rw [hfc]; simp
  | .cons l n r, p, rest, q, qrest, i, hS, hP, hQ => by
    simp only [Kids.SOKs] at hS
    obtain ⟨hl, hno, hSn, hSr⟩ := hS
    have hp := altOK_stat_ne hP
    by_cases hh : l.pre.head? = p.head?
    · by_cases hc : l.pre.length ≤ commonLen p l.pre
      · -- descend
        obtain ⟨t, ht⟩ := (commonLen_ge_iff p l.pre).1 hc
        have hcl : commonLen p l.pre = l.pre.length := by rw [ht, commonLen_append_left]
        have hins : Kids.insertStatic (.cons l n r) p rest i = .cons l (Node.insert n (below p l.pre.length rest) i) r := by
          simp only [Kids.insertStatic, hh, ite_true, hcl, Nat.le_refl, below]
          by_cases hpl : p.length ≤ l.pre.length <;> simp only [hpl, ite_true, ite_false]
        have hold : Kids.findStatic (.cons l n r) p rest = Node.find n (below p l.pre.length rest) := by
          rw [findStatic_cons_spec l n r p rest hl hno]
          have : l.pre.isPrefixOf p = true := by rw [List.isPrefixOf_iff_prefix]; exact ⟨t, ht.symm⟩
          simp [this]
        rw [hins, hold]
        have hk : keepOld (.stat p :: rest) (Node.find n (below p l.pre.length rest)) i =
            keepOld (below p l.pre.length rest) (Node.find n (below p l.pre.length rest)) i := by
          simp only [keepOld, catchAllEnd_below]
        rw [hk]
        exact findStatic_descend' l n _ r p rest _ hl t ht hP
          (fun Q' hQ' => Node.find_insert' n (below p l.pre.length rest) Q' i hSn (altOK_below hP) hQ') q qrest hQ
      · -- split: the key was not there
        have hc' : commonLen p l.pre < l.pre.length := by omega
        have hc0 : 0 < commonLen p l.pre := commonLen_pos p l.pre hp hh
        have hold : Kids.findStatic (.cons l n r) p rest = none := by
          simp only [Kids.findStatic, hh, ite_true, hc, ite_false]
          exact findStatic_noHead r p rest (by rw [← hh]; exact hno)
        rw [hold, keepOld_none]
        rw [insertStatic_split_eq l n r p rest i hh hc hP]
        have hdrop : l.pre.drop (commonLen p l.pre) ≠ [] := by
          intro h; have h' := congrArg List.length h
          simp only [List.length_drop, List.length_nil] at h'; omega
        have htake : l.pre.take (commonLen p l.pre) ≠ [] := by
          intro h; have h' := congrArg List.length h
          simp only [List.length_take, List.length_nil] at h'; omega
        have hpeq : p = l.pre.take (commonLen p l.pre) ++ p.drop (commonLen p l.pre) := by
          rw [← commonLen_take p l.pre, List.take_append_drop]
        have hlen : (l.pre.take (commonLen p l.pre)).length = commonLen p l.pre := by
          simp only [List.length_take]; omega
        have hnsh : notStatHead (l.pre.drop (commonLen p l.pre)).head? (below p (commonLen p l.pre) rest) := by
          unfold below
          split
          · cases rest with
            | nil => trivial
            | cons x _ => cases x with
              | stat _ => exact absurd hP (by simp [altOK])
              | par _ _ => trivial
          · simp only [notStatHead]
            exact commonLen_next_ne p l.pre (by omega) hc'
        have H := find_insert_splitParent {pre := l.pre.drop (commonLen p l.pre)} n
          (below p (commonLen p l.pre) rest) i hdrop (altOK_below hP) hnsh
        have := findStatic_descend {pre := l.pre.take (commonLen p l.pre)}
          (splitParent {pre := l.pre.drop (commonLen p l.pre)} n) _ r p rest i htake _ hpeq hP
          (by intro Q' hQ'; rw [hlen]; exact H Q' hQ') q qrest hQ
        rw [this, findStatic_split l n r _ q qrest hc0 hc' hno hQ]
    · -- other first byte: recurse into the siblings
      have ih := Kids.findStatic_insertStatic' r p rest q qrest i hSr hP hQ
      have hold : Kids.findStatic (.cons l n r) p rest = Kids.findStatic r p rest := by
        simp [Kids.findStatic, hh]
      rw [hold]
      simp only [Kids.insertStatic, hh, ite_false, Kids.findStatic]
      by_cases h1 : l.pre.head? = q.head?
      · have hqp : ¬ (q = p ∧ qrest = rest) := by rintro ⟨rfl, _⟩; exact hh h1
        simp only [h1, ite_true, hqp, ite_false]
        split
        · rfl
        · rw [ih]; simp [hqp]
      · simp only [h1, ite_false]; exact ih
theorem Kids.findPar_insertPar' : ∀ (ks : Kids) (l : Label) (rest : List Part) (l' : Label) (qrest : List Part) (i : Info),
    Kids.SOKp ks → altOK rest = true → altOK qrest = true →
    Kids.findPar (Kids.insertPar ks l rest i) l' qrest =
      if l' = l ∧ qrest = rest then some (keepOld rest (Kids.findPar ks l rest) i) else Kids.findPar ks l' qrest
  | .nil, l, rest, l', qrest, i, _, hP, _ => by
    simp only [Kids.insertPar, Kids.findPar, findPar_nil, keepOld_none]
    by_cases h : l = l'
    · subst h; simp [find_chain rest qrest i hP]
    · have : ¬ l' = l := fun h' => h h'.symm
      simp [h, this]
  | .cons l0 n r, l, rest, l', qrest, i, hS, hP, hQ => by
    simp only [Kids.SOKp] at hS
    simp only [Kids.insertPar]
    by_cases h0 : l0 = l
    · subst h0
      simp only [ite_true, Kids.findPar]
      by_cases h1 : l0 = l'
      · subst h1
        simp only [ite_true, true_and]
        exact Node.find_insert' n rest qrest i hS.1 hP hQ
      · have : ¬ l' = l0 := fun h => h1 h.symm
        simp [h1, this]
    · have ih := Kids.findPar_insertPar' r l rest l' qrest i hS.2 hP hQ
      simp only [h0, ite_false, Kids.findPar]
      by_cases h1 : l0 = l'
      · have : ¬ (l' = l ∧ qrest = rest) := by rintro ⟨rfl, _⟩; exact h0 h1
        simp [h1, this]
      · simp only [h1, ite_false]; exact ih
end
