import Wayfind.Proofs.LiveWalk
import Wayfind.Proofs.Segs

/-! When exactly one route fits a path, in exactly one way, the search returns it. Plus inversion lemmas for the route
shapes of the OCI example. -/

theorem walk_unique_fit (env : Env) (rs : List Route) (path : Bytes) (rt : Route) (vs : Params)
    (hmem : rt ∈ rs) (hfit : Fits env rt.parts path vs)
    (huniq : ∀ rt' ∈ rs, ∀ vs', Fits env rt'.parts path vs' → rt'.info = rt.info ∧ vs' = vs) :
    refWalk env path.length rs path [] = some (rt.info, vs) := by
  have hc := refWalk_complete env path.length rs path [] (Nat.le_refl _) ⟨rt, hmem, vs, hfit⟩
  cases hw : refWalk env path.length rs path [] with
  | none => rw [hw] at hc; cases hc
  | some x =>
    obtain ⟨i, ps'⟩ := x
    obtain ⟨r', hr', hi, vs', hf', hps⟩ := refWalk_sound env _ _ _ _ _ _ hw
    obtain ⟨h1, h2⟩ := huniq r' hr' vs' hf'
    simp only [List.nil_append] at hps
    rw [← hi, h1, hps, h2]

/-- on live templates: if an expansion `e` of a live template fits the path with values `vs`, and every expansion of every
live template that fits has the same parts and values, then `search` reports that template, that expansion and `vs` -/
theorem search_unique_fit (env : Env) {r : Router} {L : List LiveT} (h : Live r L) (path : Bytes)
    (lt : LiveT) (hlt : lt ∈ L) (e : Bytes × List Part) (he : e ∈ lt.exps) (vs : Params) (hfit : Fits env e.2 path vs)
    (huniq : ∀ lt' ∈ L, ∀ e' ∈ lt'.exps, ∀ vs', Fits env e'.2 path vs' → e'.2 = e.2 ∧ vs' = vs) :
    r.search env path = some (toMatch (specInfo lt e, vs)) := by
  rw [search_is_walk_over_live env h path]
  have hreg := h.rinv.reg
  have hwf : ∀ lt ∈ L, ∀ e ∈ lt.exps, wfParts e.2 = true := fun lt hlt e he => parse_wf (hreg.parsed lt hlt) e he
  have hmem : (⟨e.2, specInfo lt e⟩ : Route) ∈ specRoutes L := by
    simp only [specRoutes, List.mem_flatMap, specRoutesOf, List.mem_map]
    exact ⟨lt, hlt, e, he, rfl⟩
  have := walk_unique_fit env (specRoutes L) path ⟨e.2, specInfo lt e⟩ vs hmem hfit (by
    intro rt' hrt' vs' hf'
    simp only [specRoutes, List.mem_flatMap, specRoutesOf, List.mem_map] at hrt'
    obtain ⟨lt', hlt', e', he', rfl⟩ := hrt'
    obtain ⟨hp, hv⟩ := huniq lt' hlt' e' he' vs' hf'
    refine ⟨?_, hv⟩
    -- same key, hence the same stored value: both are what the tree holds under that key
    obtain ⟨j, hf, hok⟩ := hreg.complete lt hlt e he
    obtain ⟨j', hf2, hok'⟩ := hreg.complete lt' hlt' e' he'
    rw [hp, hf] at hf2
    injection hf2 with hjj
    subst hjj
    rw [← erase_eq_specInfo hok, ← erase_eq_specInfo hok'])
  rw [this]; rfl

/-! ### inversion of `Fits` for the shapes that occur in the OCI route table -/

theorem fits_stat1 {env : Env} {A path : Bytes} {vs : Params} (h : Fits env [.stat A] path vs) : path = A ∧ vs = [] := by
  cases h with
  | stat p path' vs' rest hne hrest =>
    cases hrest
    simp

theorem fits_w_s {env : Env} {A B path : Bytes} {l : Label} {vs : Params}
    (h : Fits env [.stat A, .par .wildC l, .stat B] path vs) :
    ∃ v1, path = A ++ (v1 ++ B) ∧ vs = [(l.name, v1)] ∧ v1 ≠ [] ∧ env.chk l.cons v1 = true := by
  cases h with
  | stat _ _ _ _ _ h =>
    cases h with
    | par _ _ v _ _ _ hv _ _ hc h =>
      cases h with
      | stat _ _ _ _ _ h =>
        cases h
        exact ⟨v, by simp, rfl, hv, hc rfl⟩

theorem fits_w_s_d {env : Env} {A B path : Bytes} {l d : Label} {vs : Params}
    (h : Fits env [.stat A, .par .wildC l, .stat B, .par .dyn d] path vs) :
    ∃ v1 v2, path = A ++ (v1 ++ (B ++ v2)) ∧ vs = [(l.name, v1), (d.name, v2)] ∧ v1 ≠ [] ∧ v2 ≠ [] ∧ (47 : Byte) ∉ v2 ∧
      env.chk l.cons v1 = true := by
  cases h with
  | stat _ _ _ _ _ h =>
    cases h with
    | par _ _ v _ _ _ hv _ _ hc h =>
      cases h with
      | stat _ _ _ _ _ h =>
        cases h with
        | par _ _ v2 _ _ _ hv2 hs2 _ _ h =>
          cases h
          exact ⟨v, v2, by simp, rfl, hv, hv2, hs2 rfl, hc rfl⟩

theorem fits_w_s_d_s {env : Env} {A B C path : Bytes} {l d : Label} {vs : Params}
    (h : Fits env [.stat A, .par .wildC l, .stat B, .par .dyn d, .stat C] path vs) :
    ∃ v1 v2, path = A ++ (v1 ++ (B ++ (v2 ++ C))) ∧ vs = [(l.name, v1), (d.name, v2)] ∧ v1 ≠ [] ∧ v2 ≠ [] ∧ (47 : Byte) ∉ v2 ∧
      env.chk l.cons v1 = true := by
  cases h with
  | stat _ _ _ _ _ h =>
    cases h with
    | par _ _ v _ _ _ hv _ _ hc h =>
      cases h with
      | stat _ _ _ _ _ h =>
        cases h with
        | par _ _ v2 _ _ _ hv2 hs2 _ _ h =>
          cases h with
          | stat _ _ _ _ _ h =>
            cases h
            exact ⟨v, v2, by simp, rfl, hv, hv2, hs2 rfl, hc rfl⟩
