import Wayfind.Model.CheckedSearch
import Wayfind.Spec.Fits
import Wayfind.Proofs.Strategy
import Wayfind.Proofs.WalkBasics

/-! The capture loops of the checked, position-based search (`Model/CheckedSearch.lean`) never reach a failing check and
compute `tryCands` over the candidate lists of the list-based model. -/

theorem segLen_cons (b : Byte) (r : Bytes) : segLen (b :: r) = if b != 47 then segLen r + 1 else 0 := by
  simp only [segLen, List.takeWhile_cons]
  split <;> simp

/-- `position('/').unwrap_or(len)` is the length of the first segment -/
theorem posSlash_getD : ∀ (path : Bytes) (dflt : Nat), dflt = path.length → (posSlash path).getD dflt = segLen path
  | [], dflt, h => by simp [posSlash, segLen, h]
  | b :: r, dflt, h => by
    rw [segLen_cons]
    simp only [posSlash]
    by_cases hb : b = 47
    · simp [hb]
    · have hb' : (b == 47) = false := by simpa using hb
      have hb'' : (b != 47) = true := by simp [hb]
      simp only [hb', hb'', ite_true, Bool.false_eq_true, ite_false]
      have ih := posSlash_getD r (dflt - 1) (by simp [h])
      cases hp : posSlash r with
      | none => rw [hp] at ih; simp only [Option.map_none, Option.getD_none] at ih ⊢; simp at h; omega
      | some p => rw [hp] at ih; simp only [Option.map_some, Option.getD_some] at ih ⊢; omega

/-- at the end of the first segment there is a '/' (or the path ends) -/
theorem get_segLen : ∀ (path : Bytes), segLen path < path.length → path[segLen path]? = some 47
  | [], h => by simp at h
  | b :: r, h => by
    rw [segLen_cons] at h ⊢
    by_cases hb : b = 47
    · simp [hb]
    · have hb'' : (b != 47) = true := by simp [hb]
      simp only [hb'', ite_true] at h ⊢
      simp only [List.length_cons] at h
      rw [List.getElem?_cons_succ]
      exact get_segLen r (by omega)

theorem get_lt_segLen (path : Bytes) (c : Nat) (h : c < segLen path) : ∃ b, path[c]? = some b ∧ b ≠ 47 := by
  obtain ⟨b, tl, hd, hb⟩ := head_drop_lt_segLen path c h
  refine ⟨b, ?_, hb⟩
  have : (path.drop c)[0]? = some b := by rw [hd]; rfl
  rw [List.getElem?_drop] at this
  simpa using this

/-- the body of a capture loop is `stepCand` -/
theorem candStepC_eq (ce : CEnv) (cons : Option Bytes) (name path : Bytes) (ps : Params) (k' : Bytes → Params → PRes)
    (k : Bytes → Params → Res) (hk : ∀ p q, k' p q = .ok (k p q)) (hc : ∀ c, cons = some c → ce.known c = true)
    (consumed : Nat) (hle : consumed ≤ path.length) (best : Res) :
    candStepC ce cons name path ps k' consumed best = .ok (stepCand ce.env cons name path ps k consumed best) := by
  unfold candStepC stepCand candOk toC fromC
  simp only [hle, ite_true]
  cases cons with
  | none =>
    simp only [checkC, Bool.and_true]
    by_cases hv : ce.env.valid (path.take consumed) = true
    · simp only [hv, Bool.not_true, Bool.false_eq_true, ite_false, ite_true, hk]
      cases k (path.drop consumed) (ps ++ [(name, path.take consumed)]) with
      | none => rfl
      | some x => rfl
    · have hv' : ce.env.valid (path.take consumed) = false := by simpa using hv
      simp [hv']
  | some c =>
    simp only [checkC, hc c rfl, ite_true]
    by_cases hv : ce.env.valid (path.take consumed) = true
    · by_cases hch : ce.env.chk c (path.take consumed) = true
      · simp only [hv, hch, Bool.and_self, Bool.not_true, Bool.false_eq_true, ite_false, ite_true, hk]
        cases k (path.drop consumed) (ps ++ [(name, path.take consumed)]) with
        | none => rfl
        | some x => rfl
      · have hch' : ce.env.chk c (path.take consumed) = false := by simpa using hch
        simp [hv, hch']
    · have hv' : ce.env.valid (path.take consumed) = false := by simpa using hv
      simp [hv']

theorem range'_succ_left (s n : Nat) : List.range' s (n + 1) = s :: List.range' (s + 1) n := by
  simp [List.range'_succ]

/-- `search_dynamic(_constrained)_inline`: the loop tries the lengths `consumed+1 … segLen path` -/
theorem dynInlineLoopC_eq (ce : CEnv) (cons : Option Bytes) (name path : Bytes) (ps : Params) (k' : Bytes → Params → PRes)
    (k : Bytes → Params → Res) (hk : ∀ p q, k' p q = .ok (k p q)) (hc : ∀ c, cons = some c → ce.known c = true) :
    ∀ (fuel consumed : Nat) (best : Res), consumed ≤ segLen path → segLen path - consumed + 1 ≤ fuel →
    dynInlineLoopC ce cons name path ps k' fuel consumed best =
      .ok (tryCands ce.env cons name path ps k (List.range' (consumed + 1) (segLen path - consumed)) best)
  | 0, _, _, _, hf => by omega
  | fuel + 1, consumed, best, hle, hf => by
    have hsl := segLen_le path
    unfold dynInlineLoopC
    by_cases hlt : consumed < path.length
    · rw [if_pos hlt]
      by_cases hseg : consumed < segLen path
      · obtain ⟨b, hb, hb47⟩ := get_lt_segLen path consumed hseg
        have hb' : (b == 47) = false := by simpa using hb47
        simp only [getC, hb, hb', Bool.false_eq_true, ite_false]
        rw [candStepC_eq ce cons name path ps k' k hk hc (consumed + 1) (by omega) best]
        simp only []
        rw [dynInlineLoopC_eq ce cons name path ps k' k hk hc fuel (consumed + 1) _ (by omega) (by omega)]
        have : segLen path - consumed = (segLen path - (consumed + 1)) + 1 := by omega
        rw [this, range'_succ_left, tryCands_cons]
      · have he : consumed = segLen path := by omega
        have hb := get_segLen path (by omega)
        rw [← he] at hb
        simp only [getC, hb, beq_self_eq_true, ite_true]
        have : segLen path - consumed = 0 := by omega
        rw [this]; rfl
    · rw [if_neg hlt]
      have : segLen path - consumed = 0 := by omega
      rw [this]; rfl

/-- `search_wildcard(_constrained)_inline`: the loop tries the lengths `consumed+1 … path.len()` -/
theorem wildInlineLoopC_eq (ce : CEnv) (cons : Option Bytes) (name path : Bytes) (ps : Params) (k' : Bytes → Params → PRes)
    (k : Bytes → Params → Res) (hk : ∀ p q, k' p q = .ok (k p q)) (hc : ∀ c, cons = some c → ce.known c = true) :
    ∀ (fuel consumed : Nat) (best : Res), consumed ≤ path.length → path.length - consumed + 1 ≤ fuel →
    wildInlineLoopC ce cons name path ps k' fuel consumed best =
      .ok (tryCands ce.env cons name path ps k (List.range' (consumed + 1) (path.length - consumed)) best)
  | 0, _, _, _, hf => by omega
  | fuel + 1, consumed, best, hle, hf => by
    unfold wildInlineLoopC
    by_cases hlt : consumed < path.length
    · rw [if_pos hlt]
      rw [candStepC_eq ce cons name path ps k' k hk hc (consumed + 1) (by omega) best]
      simp only []
      rw [wildInlineLoopC_eq ce cons name path ps k' k hk hc fuel (consumed + 1) _ (by omega) (by omega)]
      have : path.length - consumed = (path.length - (consumed + 1)) + 1 := by omega
      rw [this, range'_succ_left, tryCands_cons]
    · rw [if_neg hlt]
      have : path.length - consumed = 0 := by omega
      rw [this]; rfl

/-- the first element of a filtered range -/
theorem filter_range'_first (P : Nat → Bool) : ∀ (q a n : Nat), q < n → (∀ j, j < q → P (a + j) = false) → P (a + q) = true →
    (List.range' a n).filter P = (a + q) :: (List.range' (a + q + 1) (n - q - 1)).filter P
  | 0, a, n, hq, _, hp => by
    obtain ⟨m, rfl⟩ : ∃ m, n = m + 1 := ⟨n - 1, by omega⟩
    rw [range'_succ_left, List.filter_cons]
    simp only [Nat.add_zero] at hp ⊢
    rw [if_pos hp]
    simp
  | q + 1, a, n, hq, hf, hp => by
    obtain ⟨m, rfl⟩ : ∃ m, n = m + 1 := ⟨n - 1, by omega⟩
    rw [range'_succ_left, List.filter_cons]
    have h0 : P a = false := by simpa using hf 0 (by omega)
    rw [h0]
    simp only [Bool.false_eq_true, ite_false]
    have ih := filter_range'_first P q (a + 1) m (by omega) (fun j hj => by
      have := hf (j + 1) (by omega)
      rwa [show a + (j + 1) = a + 1 + j by omega] at this) (by rwa [show a + (q + 1) = a + 1 + q by omega] at hp)
    rw [ih]
    have e1 : a + 1 + q = a + (q + 1) := by omega
    have e2 : m - q - 1 = m + 1 - (q + 1) - 1 := by omega
    rw [e1, e2]

/-- the segment-boundary test of `candsSegment true` -/
def segP (path : Bytes) (c : Nat) : Bool := c == path.length || (path.drop c).head? == some 47

theorem candsInline_eq (w : Bool) (path : Bytes) :
    candsInline w path = List.range' 1 (if w then path.length else segLen path) := by
  unfold candsInline
  rw [List.range'_eq_map_range]
  apply List.map_congr_left
  intro a _
  omega

theorem candsSegment_wild' (path : Bytes) : candsSegment true path = (List.range' 1 path.length).filter (segP path) := by
  rw [candsSegment_wild, candsInline_eq]
  rfl

/-- `search_wildcard(_constrained)_segment`: the loop jumps from one segment boundary to the next -/
theorem wildSegLoopC_eq (ce : CEnv) (cons : Option Bytes) (name path : Bytes) (ps : Params) (k' : Bytes → Params → PRes)
    (k : Bytes → Params → Res) (hk : ∀ p q, k' p q = .ok (k p q)) (hc : ∀ c, cons = some c → ce.known c = true) :
    ∀ (fuel consumed : Nat) (best : Res), consumed ≤ path.length → path.length - consumed + 1 ≤ fuel →
    wildSegLoopC ce cons name path ps k' fuel consumed best =
      .ok (tryCands ce.env cons name path ps k ((List.range' (consumed + 1) (path.length - consumed)).filter (segP path)) best)
  | 0, _, _, _, hf => by omega
  | fuel + 1, consumed, best, hle, hf => by
    unfold wildSegLoopC
    by_cases hlt : consumed < path.length
    · rw [if_pos hlt]
      have h1 : consumed + 1 ≤ path.length := by omega
      simp only [fromC, subU, h1, ite_true]
      have htl : (path.drop (consumed + 1)).length = path.length - (consumed + 1) := by simp
      rw [posSlash_getD (path.drop (consumed + 1)) _ htl.symm]
      have hq := segLen_le (path.drop (consumed + 1))
      rw [htl] at hq
      generalize hqq : segLen (path.drop (consumed + 1)) = q at hq
      rw [candStepC_eq ce cons name path ps k' k hk hc (consumed + 1 + q) (by omega) best]
      simp only []
      rw [wildSegLoopC_eq ce cons name path ps k' k hk hc fuel (consumed + 1 + q) _ (by omega) (by omega)]
      have hfirst := filter_range'_first (segP path) q (consumed + 1) (path.length - consumed) (by omega)
        (by
          intro j hj
          obtain ⟨b, tl, hd, hb⟩ := head_drop_lt_segLen (path.drop (consumed + 1)) j (by omega)
          rw [List.drop_drop] at hd
          unfold segP
          have hne : (consumed + 1 + j == path.length) = false := by simp; omega
          rw [hne, hd]
          simpa using hb)
        (by
          unfold segP
          by_cases he : consumed + 1 + q = path.length
          · simp [he]
          · have hlt2 : q < (path.drop (consumed + 1)).length := by rw [htl]; omega
            have := get_segLen (path.drop (consumed + 1)) (by rw [hqq]; exact hlt2)
            rw [hqq, List.getElem?_drop] at this
            have hh : (path.drop (consumed + 1 + q)).head? = some 47 := by
              rw [List.head?_drop]; exact this
            simp [hh])
      rw [hfirst, tryCands_cons]
      have e : path.length - consumed - q - 1 = path.length - (consumed + 1 + q) := by omega
      rw [e]
    · rw [if_neg hlt]
      have : path.length - consumed = 0 := by omega
      rw [this]; rfl

/-- `search_dynamic(_constrained)_segment`, one child: the whole first segment or nothing -/
theorem dynSegChildC_eq (ce : CEnv) (cons : Option Bytes) (name path : Bytes) (ps : Params) (k' : Bytes → Params → PRes)
    (k : Bytes → Params → Res) (hk : ∀ p q, k' p q = .ok (k p q)) (hc : ∀ c, cons = some c → ce.known c = true) :
    dynSegChildC ce cons name path ps k' = .ok (tryCands ce.env cons name path ps k (candsSegment false path) none) := by
  have hsl := segLen_le path
  unfold dynSegChildC candsSegment
  simp only [posSlash_getD path path.length rfl, toC, fromC, hsl, ite_true, Bool.false_eq_true, ite_false]
  by_cases h0 : segLen path = 0
  · simp [h0, tryCands]
  · have hne : (path.take (segLen path)).isEmpty = false := by
      cases hp : path.take (segLen path) with
      | nil =>
        have := congrArg List.length hp
        simp only [List.length_take, List.length_nil] at this
        omega
      | cons a b => rfl
    simp only [hne, Bool.false_eq_true, ite_false, h0, tryCands_cons, tryCands, stepCand, candOk]
    cases cons with
    | none =>
      simp only [checkC, Bool.and_true]
      by_cases hv : ce.env.valid (path.take (segLen path)) = true
      · simp only [hv, Bool.not_true, Bool.false_eq_true, ite_false, ite_true, hk]
        cases k (path.drop (segLen path)) (ps ++ [(name, path.take (segLen path))]) with
        | none => rfl
        | some x => simp [better]
      · have hv' : ce.env.valid (path.take (segLen path)) = false := by simpa using hv
        simp [hv']
    | some c =>
      simp only [checkC, hc c rfl, ite_true]
      by_cases hv : ce.env.valid (path.take (segLen path)) = true
      · by_cases hch : ce.env.chk c (path.take (segLen path)) = true
        · simp only [hv, hch, Bool.and_self, Bool.not_true, Bool.false_eq_true, ite_false, ite_true, hk]
          cases k (path.drop (segLen path)) (ps ++ [(name, path.take (segLen path))]) with
          | none => rfl
          | some x => simp [better]
        · have hch' : ce.env.chk c (path.take (segLen path)) = false := by simpa using hch
          simp [hv, hch']
      · have hv' : ce.env.valid (path.take (segLen path)) = false := by simpa using hv
        simp [hv']

/-- the candidate list the model uses for a shape -/
def candsOf (shape : Nat) (path : Bytes) : List Nat :=
  match shape with
  | 0 => candsSegment false path
  | 1 => candsInline false path
  | 2 => candsSegment true path
  | _ => candsInline true path

/-- **every capture loop of the code is `tryCands` over the model's candidate list, and none of its checks fires** -/
theorem childC_eq (ce : CEnv) (shape : Nat) (cons : Option Bytes) (name path : Bytes) (ps : Params) (k' : Bytes → Params → PRes)
    (k : Bytes → Params → Res) (hk : ∀ p q, k' p q = .ok (k p q)) (hc : ∀ c, cons = some c → ce.known c = true) :
    childC ce shape cons name path ps k' = .ok (tryCands ce.env cons name path ps k (candsOf shape path) none) := by
  have hsl := segLen_le path
  match shape with
  | 0 => exact dynSegChildC_eq ce cons name path ps k' k hk hc
  | 1 =>
    show dynInlineLoopC ce cons name path ps k' (path.length + 1) 0 none = _
    rw [dynInlineLoopC_eq ce cons name path ps k' k hk hc _ 0 none (by omega) (by omega)]
    simp only [candsOf, candsInline_eq]
    rfl
  | 2 =>
    show wildSegLoopC ce cons name path ps k' (path.length + 1) 0 none = _
    rw [wildSegLoopC_eq ce cons name path ps k' k hk hc _ 0 none (by omega) (by omega)]
    simp only [candsOf, candsSegment_wild']
    rfl
  | n + 3 =>
    show wildInlineLoopC ce cons name path ps k' (path.length + 1) 0 none = _
    rw [wildInlineLoopC_eq ce cons name path ps k' k hk hc _ 0 none (by omega) (by omega)]
    simp only [candsOf, candsInline_eq]
    rfl

/-- `path.len() >= prefix.len() && prefix.iter().zip(path).all(|(a, b)| a == b)` is `starts_with` -/
theorem zip_all_prefix : ∀ (pre path : Bytes),
    (decide (pre.length ≤ path.length) && (pre.zip path).all (fun ab => ab.1 == ab.2)) = pre.isPrefixOf path
  | [], path => by simp
  | a :: pre, [] => by simp
  | a :: pre, b :: path => by
    have ih := zip_all_prefix pre path
    simp only [List.length_cons, List.zip_cons_cons, List.all_cons, List.isPrefixOf_cons_cons, Nat.add_le_add_iff_right]
    rw [← ih]
    cases (a == b) <;> cases decide (pre.length ≤ path.length) <;> simp
