import Wayfind.Proofs.Ext5

theorem FitsN_end (env : Env) (k : PKind) (l : Label) (path : Bytes) (hp : path ≠ []) (hw : wildK k = true)
    (hv : env.valid path = true) (hc : consK k = true → env.chk l.cons path = true) : FitsN env [.par k l] path := by
  have := Fits.par k l path [] [] [] hp (by intro h; rw [hw] at h; cases h) hv hc Fits.nil
  simp only [List.append_nil] at this
  exact ⟨_, this⟩

theorem end_labels_sub (env : Env) (k : PKind) (rs1 rs2 : List Route) (path : Bytes) (hR : Rel env rs1 rs2 path) :
    ∀ x ∈ labelsOf k true rs1, x ∈ labelsOf k true rs2 := by
  intro x hx
  obtain ⟨X, i, hm, hcl⟩ := (mem_labelsOf_iff k true rs1 x).1 hx
  exact (mem_labelsOf_iff k true rs2 x).2 ⟨X, i, hR.1 _ i hm, hcl⟩

theorem end_label_mem {k : PKind} (hw : wildK k = true) {rs : List Route} {l : Label} (h : l ∈ labelsOf k true rs) :
    ∃ i, Mem rs [.par k l] i := by
  obtain ⟨X, i, hm, hcl⟩ := (mem_labelsOf_iff k true rs l).1 h
  have : X = [] := by rw [hw] at hcl; simpa using hcl
  subst this
  exact ⟨i, hm⟩

theorem end_label_of_mem {k : PKind} (hw : wildK k = true) {rs : List Route} {l : Label} {i : Info}
    (h : Mem rs [.par k l] i) : l ∈ labelsOf k true rs :=
  (mem_labelsOf_iff k true rs l).2 ⟨[], i, h, by simp [hw]⟩

theorem endInfo_ext (env : Env) (k : PKind) (hw : wildK k = true) (l : Label) (rs1 rs2 : List Route) (path : Bytes)
    (f1 : Fun rs1) (f2 : Fun rs2) (hR : Rel env rs1 rs2 path) (hfit : FitsN env [.par k l] path) :
    endInfo k l rs1 = endInfo k l rs2 := by
  apply option_ext
  intro i
  rw [endInfo_iff_Mem k l rs1 f1, endInfo_iff_Mem k l rs2 f2]
  constructor
  · exact hR.1 _ i
  · intro h
    rcases hR.2 _ i h with h' | h'
    · exact h'
    · exact absurd hfit h'

/-- the constrained catch-all step -/
theorem endC_ext (env : Env) (rs1 rs2 : List Route) (path : Bytes) (ps : Params) (hp : path ≠ [])
    (f1 : Fun rs1) (f2 : Fun rs2) (hR : Rel env rs1 rs2 path) :
    firstSome (fun l => if env.valid path && env.chk l.cons path
        then (endInfo .wildC l rs1).map (·, ps ++ [(l.name, path)]) else none) (labelsOf .wildC true rs1) =
    firstSome (fun l => if env.valid path && env.chk l.cons path
        then (endInfo .wildC l rs2).map (·, ps ++ [(l.name, path)]) else none) (labelsOf .wildC true rs2) := by
  have hextra : ∀ l ∈ labelsOf .wildC true rs2, l ∉ labelsOf .wildC true rs1 →
      (if env.valid path && env.chk l.cons path then (endInfo .wildC l rs2).map (·, ps ++ [(l.name, path)]) else none) = none := by
    intro l hl hnot
    by_cases hc : (env.valid path && env.chk l.cons path) = true
    · exfalso
      obtain ⟨i, hm⟩ := end_label_mem rfl hl
      simp only [Bool.and_eq_true] at hc
      rcases hR.2 _ i hm with h' | h'
      · exact hnot (end_label_of_mem rfl h')
      · exact h' (FitsN_end env .wildC l path hp rfl hc.1 (fun _ => hc.2))
    · simp [hc]
  rw [firstSome_sorted_sub _ (labelsOf .wildC true rs1) (labelsOf .wildC true rs2) (sortedL_sortLabels _) (sortedL_sortLabels _)
    (end_labels_sub env .wildC rs1 rs2 path hR) hextra]
  apply firstSome_congr
  intro l _
  by_cases hc : (env.valid path && env.chk l.cons path) = true
  · simp only [hc, ite_true]
    simp only [Bool.and_eq_true] at hc
    rw [endInfo_ext env .wildC rfl l rs1 rs2 path f1 f2 hR (FitsN_end env .wildC l path hp rfl hc.1 (fun _ => hc.2))]
  · simp [hc]

/-- the unconstrained catch-all step -/
theorem end_ext (env : Env) (rs1 rs2 : List Route) (path : Bytes) (ps : Params) (hp : path ≠ [])
    (f1 : Fun rs1) (f2 : Fun rs2) (hR : Rel env rs1 rs2 path) :
    (match labelsOf .wild true rs1 with
     | l :: _ => if env.valid path then (endInfo .wild l rs1).map (·, ps ++ [(l.name, path)]) else none
     | [] => none) =
    (match labelsOf .wild true rs2 with
     | l :: _ => if env.valid path then (endInfo .wild l rs2).map (·, ps ++ [(l.name, path)]) else none
     | [] => none) := by
  by_cases hv : env.valid path = true
  · have hL : labelsOf .wild true rs1 = labelsOf .wild true rs2 := by
      apply sorted_ext _ _ (sortedL_sortLabels _) (sortedL_sortLabels _)
      intro x
      constructor
      · exact end_labels_sub env .wild rs1 rs2 path hR x
      · intro hx
        obtain ⟨i, hm⟩ := end_label_mem rfl hx
        rcases hR.2 _ i hm with h' | h'
        · exact end_label_of_mem rfl h'
        · exact absurd (FitsN_end env .wild x path hp rfl hv (by intro h; cases h)) h'
    rw [hL]
    cases labelsOf .wild true rs2 with
    | nil => rfl
    | cons l _ =>
      simp only [hv, ite_true]
      rw [endInfo_ext env .wild rfl l rs1 rs2 path f1 f2 hR (FitsN_end env .wild l path hp rfl hv (by intro h; cases h))]
  · cases labelsOf .wild true rs1 <;> cases labelsOf .wild true rs2 <;> simp [hv]

/-- **The reference walk depends only on the set of normalised routes, and routes that do not fit the path
    are irrelevant.** If every route of `rs1` is (up to merging literal parts) a route of `rs2` and every
    route of `rs2` is either a route of `rs1` or does not fit `path`, both lists give the same result. -/
theorem refWalk_ext (env : Env) : ∀ (fuel : Nat) (rs1 rs2 : List Route) (path : Bytes) (ps : Params),
    path.length ≤ fuel → SNE rs1 → SNE rs2 → Fun rs1 → Fun rs2 → Rel env rs1 rs2 path →
    refWalk env fuel rs1 path ps = refWalk env fuel rs2 path ps := by
  intro fuel
  induction fuel with
  | zero =>
    intro rs1 rs2 path ps hf _ _ f1 f2 hR
    have : path = [] := List.eq_nil_of_length_eq_zero (by omega)
    subst this
    simp only [refWalk]
    have : (rs1.find? (·.parts.isEmpty)).map (·.info) = (rs2.find? (·.parts.isEmpty)).map (·.info) := by
      apply option_ext; intro i
      rw [findEmpty_iff rs1 f1, findEmpty_iff rs2 f2]
      exact ⟨hR.1 _ i, fun h => (hR.2 _ i h).resolve_right (fun hn => hn ⟨[], Fits.nil⟩)⟩
    cases h1 : rs1.find? (·.parts.isEmpty) <;> cases h2 : rs2.find? (·.parts.isEmpty) <;> simp_all
  | succ f ih =>
    intro rs1 rs2 path ps hf h1 h2 f1 f2 hR
    cases path with
    | nil =>
      simp only [refWalk]
      have : (rs1.find? (·.parts.isEmpty)).map (·.info) = (rs2.find? (·.parts.isEmpty)).map (·.info) := by
        apply option_ext; intro i
        rw [findEmpty_iff rs1 f1, findEmpty_iff rs2 f2]
        exact ⟨hR.1 _ i, fun h => (hR.2 _ i h).resolve_right (fun hn => hn ⟨[], Fits.nil⟩)⟩
      cases h1' : rs1.find? (·.parts.isEmpty) <;> cases h2' : rs2.find? (·.parts.isEmpty) <;> simp_all
    | cons b tl =>
      simp only [List.length_cons, Nat.add_le_add_iff_right] at hf
      have hIH : ExtIH env (refWalk env f) (b :: tl) := by
        intro rsA rsB path' q hlt hA hB fA fB hRel
        exact ih rsA rsB path' q (by simp only [List.length_cons] at hlt; omega) hA hB fA fB hRel
      have hnil : ∀ p q, refWalk env f [] p q = none := fun p q => refWalk_nil env f p q
      simp only [refWalk]
      rw [ih _ _ tl ps hf (SNE_stripByte b rs1 h1) (SNE_stripByte b rs2 h2) (Fun_stripByte b rs1 h1 f1)
            (Fun_stripByte b rs2 h2 f2) (Rel_stripByte env b tl rs1 rs2 h1 h2 hR),
        parStep_ext env .dynC rs1 rs2 _ ps _ hnil hIH h1 h2 f1 f2 hR,
        parStep_ext env .dyn rs1 rs2 _ ps _ hnil hIH h1 h2 f1 f2 hR,
        parStep_ext env .wildC rs1 rs2 _ ps _ hnil hIH h1 h2 f1 f2 hR,
        parStep_ext env .wild rs1 rs2 _ ps _ hnil hIH h1 h2 f1 f2 hR,
        endC_ext env rs1 rs2 (b :: tl) ps (by simp) f1 f2 hR]
      have hE := end_ext env rs1 rs2 (b :: tl) ps (by simp) f1 f2 hR
      congr 6

#print axioms refWalk_ext
