import Wayfind.Proofs.DrawText3
import Wayfind.Proofs.Inv

/-! From the printed *lines* to the printed *text*: `Display` joins the lines with a newline and trims white space off the
end (`Node.display`: `intercalate "\n"` then `trimAsciiEnd`; the crate: `writeln!` per line, then `trim_end`). At the level
of character lists: a text joined from lines that contain no newline splits back into exactly those lines
(`splitNL_joinNL`), the trim is the identity on a text whose last character is not white space (`trimEndC_id`), a line
that reads back as *marked* ends in `]` (`marked_line_last`), and on a tree in which every child subtree holds a route —
the shape invariant of every reachable router — the last printed node is marked (`Node.dents_last_marked`). Hence the
trim at the end of `Display` removes nothing on a reachable router and the text determines the list of lines. -/

def joinNL : List (List Char) → List Char
  | [] => []
  | [l] => l
  | l :: r => l ++ '\n' :: joinNL r

/-- split at every newline; the empty text is one empty line -/
def splitNL : List Char → List (List Char)
  | [] => [[]]
  | c :: cs =>
    if c = '\n' then [] :: splitNL cs
    else match splitNL cs with
      | [] => [[c]]
      | l :: r => (c :: l) :: r

theorem splitNL_ne_nil : ∀ cs, splitNL cs ≠ []
  | [] => by simp [splitNL]
  | c :: cs => by
    simp only [splitNL]
    split
    · simp
    · split <;> simp

theorem splitNL_line (l : List Char) (h : '\n' ∉ l) (rest : List Char) :
    splitNL (l ++ '\n' :: rest) = l :: splitNL rest := by
  induction l with
  | nil => simp [splitNL]
  | cons c l ih =>
    have hc : c ≠ '\n' := fun e => h (by simp [e])
    have hl : '\n' ∉ l := fun e => h (by simp [e])
    simp [splitNL, hc, ih hl]

theorem splitNL_single (l : List Char) (h : '\n' ∉ l) : splitNL l = [l] := by
  induction l with
  | nil => simp [splitNL]
  | cons c l ih =>
    have hc : c ≠ '\n' := fun e => h (by simp [e])
    have hl : '\n' ∉ l := fun e => h (by simp [e])
    simp [splitNL, hc, ih hl]

/-- **the text determines its lines** -/
theorem splitNL_joinNL : ∀ (ls : List (List Char)), ls ≠ [] → (∀ l ∈ ls, '\n' ∉ l) → splitNL (joinNL ls) = ls
  | [], h, _ => absurd rfl h
  | [l], _, hn => by simpa [joinNL] using splitNL_single l (hn l (by simp))
  | l :: m :: r, _, hn => by
    have := splitNL_joinNL (m :: r) (by simp) (fun x hx => hn x (by simp [hx]))
    simp only [joinNL]
    rw [splitNL_line l (hn l (by simp)), this]

def isWsC (c : Char) : Bool := c == ' ' || c == '\t' || c == '\n' || c == '\r' || c == '\x0b' || c == '\x0c'

/-- `trim_end` over ASCII white space -/
def trimEndC (cs : List Char) : List Char := (cs.reverse.dropWhile isWsC).reverse

theorem trimEndC_id (cs : List Char) (c : Char) (h : cs.getLast? = some c) (hc : isWsC c = false) : trimEndC cs = cs := by
  unfold trimEndC
  have : cs.reverse.head? = some c := by simpa [List.head?_reverse] using h
  cases hr : cs.reverse with
  | nil => simp [hr] at this
  | cons a t =>
    rw [hr] at this
    simp only [List.head?_cons, Option.some.injEq] at this
    subst this
    rw [List.dropWhile_cons_of_neg (by simp [hc]), ← hr, List.reverse_reverse]

theorem getLast?_joinNL_last (ls : List (List Char)) (l : List Char) (c : Char) (h : l.getLast? = some c) :
    (joinNL (ls ++ [l])).getLast? = some c := by
  induction ls with
  | nil => simpa [joinNL] using h
  | cons a r ih =>
    cases hr : r ++ [l] with
    | nil => simp at hr
    | cons b t =>
      have : joinNL (a :: r ++ [l]) = a ++ '\n' :: joinNL (r ++ [l]) := by
        simp only [List.cons_append, hr, joinNL]
      rw [this, List.getLast?_append]
      have hne : (('\n' :: joinNL (r ++ [l])).getLast?) = some c := by
        rw [List.getLast?_cons]
        simp [ih]
      simp [hne]

/-- a line that the reader takes for marked ends in `]` -/
theorem marked_line_last (cs : List Char) (d : Nat) (k : List Char) (h : parseLineC cs = some (d, k, true)) :
    cs.getLast? = some ']' := by
  unfold parseLineC at h
  simp only at h
  split at h
  · cases h
  · rename_i hcond
    -- the body is a suffix of the line
    have hsuf : ∀ (pre rest : List Char), rest <:+ cs → (lineDepthBody pre rest cs).2 <:+ cs := by
      intro pre rest hs
      unfold lineDepthBody
      split
      · split
        · rename_i g body _
          exact List.IsSuffix.trans (by
            show body <:+ g :: '─' :: ' ' :: body
            exact ⟨[g, '─', ' '], by simp⟩) hs
        · exact List.suffix_refl _
      · exact List.suffix_refl _
    have hb := hsuf (cs.takeWhile isPadChar) (cs.dropWhile isPadChar) (List.dropWhile_suffix _)
    generalize (lineDepthBody (cs.takeWhile isPadChar) (cs.dropWhile isPadChar) cs).2 = body at h hb
    generalize (lineDepthBody (cs.takeWhile isPadChar) (cs.dropWhile isPadChar) cs).1 = dd at h
    unfold readMark at h
    split at h
    · rename_i k' hrev
      have hbody : body = (k'.reverse ++ [' ', '[', '*']) ++ [']'] := by
        have := congrArg List.reverse hrev
        simpa using this
      obtain ⟨p, hp⟩ := hb
      rw [← hp, hbody, ← List.append_assoc]
      simp
    · simp at h

/-! ### the last printed node of a reachable tree is marked -/

def LastMarked (l : List (Nat × List Char × Bool)) : Prop := ∀ e, l.getLast? = some e → e.2.2 = true

theorem LastMarked_nil : LastMarked [] := by intro e h; simp at h

theorem LastMarked_append {a b : List (Nat × List Char × Bool)} (hb : LastMarked b) (ha : b = [] → LastMarked a) :
    LastMarked (a ++ b) := by
  intro e h
  rw [List.getLast?_append] at h
  cases hbl : b.getLast? with
  | some x => rw [hbl] at h; simp at h; subst h; exact hb _ hbl
  | none =>
    have : b = [] := by simpa using hbl
    rw [hbl] at h
    simp at h
    exact ha this _ h

theorem leaves_Shpk : ∀ (ks : Kids), Kids.leaves ks → Kids.Shpk ks
  | .nil, _ => by simp [Kids.Shpk]
  | .cons l n r, h => by
    obtain ⟨⟨i, ds, ws, dirty, rfl⟩, hr⟩ := h
    refine ⟨?_, ?_, leaves_Shpk r hr⟩
    · simp [Node.Shp, Kids.All, Kids.distinctHeads, Kids.leaves, Kids.labels, NodupL, Kids.Shpk]
    · simp [Node.routes, Kids.routes]

theorem Node.dents_ne_nil (d : Nat) (key : List Char) (hk : key ≠ []) (n : Node) : Node.dents d key n ≠ [] := by
  cases n with
  | mk x s dc dy wc w ec e _ _ _ =>
    have : key.isEmpty = false := by cases key <;> simp_all
    simp [Node.dents, this]

theorem Kids.dents_eq_nil (d slot : Nat) (ks : Kids) (hd : Kids.drawable slot ks = true) (h : Kids.dents d slot ks = []) :
    ks = .nil := by
  cases ks with
  | nil => rfl
  | cons l n r =>
    simp only [Kids.drawable, Bool.and_eq_true] at hd
    simp only [Kids.dents, List.append_eq_nil_iff] at h
    exact absurd h.1 (Node.dents_ne_nil d _ (keyOK_ne_nil hd.1.1) n)

mutual
theorem Node.dents_last_marked : ∀ (n : Node) (d : Nat) (key : List Char), key ≠ [] → Node.Shp n → Node.routes n ≠ [] →
    Node.drawable n = true → LastMarked (Node.dents d key n)
  | .mk x s dc dy wc w ec e a b c, d, key, hk, hs, hr, hdr => by
    simp only [Node.drawable, Bool.and_eq_true] at hdr
    obtain ⟨⟨⟨⟨⟨⟨h0, h1⟩, h2⟩, h3⟩, h4⟩, h5⟩, h6⟩ := hdr
    simp only [Node.Shp] at hs
    obtain ⟨_, _, _, _, l5, l6, _, _, _, _, _, _, _, _, _, _, s0, s1, s2, s3, s4⟩ := hs
    have hke : key.isEmpty = false := by cases key <;> simp_all
    have k0 := Kids.dents_last_marked s (d + 1) 0 s0 h0
    have k1 := Kids.dents_last_marked dc (d + 1) 1 s1 h1
    have k2 := Kids.dents_last_marked dy (d + 1) 2 s2 h2
    have k3 := Kids.dents_last_marked wc (d + 1) 3 s3 h3
    have k4 := Kids.dents_last_marked w (d + 1) 4 s4 h4
    have k5 := Kids.dents_last_marked ec (d + 1) 5 (leaves_Shpk ec l5) h5
    have k6 := Kids.dents_last_marked e (d + 1) 6 (leaves_Shpk e l6) h6
    simp only [Node.dents, hke, Bool.false_eq_true, if_false]
    refine LastMarked_append k6 (fun e6 => LastMarked_append k5 (fun e5 => LastMarked_append k4 (fun e4 =>
      LastMarked_append k3 (fun e3 => LastMarked_append k2 (fun e2 => LastMarked_append k1 (fun e1 =>
      LastMarked_append k0 (fun e0 => ?_)))))))
    have := Kids.dents_eq_nil _ _ _ h0 e0; subst this
    have := Kids.dents_eq_nil _ _ _ h1 e1; subst this
    have := Kids.dents_eq_nil _ _ _ h2 e2; subst this
    have := Kids.dents_eq_nil _ _ _ h3 e3; subst this
    have := Kids.dents_eq_nil _ _ _ h4 e4; subst this
    have := Kids.dents_eq_nil _ _ _ h5 e5; subst this
    have := Kids.dents_eq_nil _ _ _ h6 e6; subst this
    intro en hen
    cases x with
    | none => simp [Node.routes, Kids.routes] at hr
    | some _ => simp at hen; subst hen; rfl
theorem Kids.dents_last_marked : ∀ (ks : Kids) (d slot : Nat), Kids.Shpk ks → Kids.drawable slot ks = true →
    LastMarked (Kids.dents d slot ks)
  | .nil, _, _, _, _ => by simpa [Kids.dents] using LastMarked_nil
  | .cons l n r, d, slot, hs, hdr => by
    simp only [Kids.drawable, Bool.and_eq_true] at hdr
    obtain ⟨hn, hsn, hsr⟩ := hs
    simp only [Kids.dents]
    exact LastMarked_append (Kids.dents_last_marked r d slot hsr hdr.2)
      (fun _ => Node.dents_last_marked n d _ (keyOK_ne_nil hdr.1.1) hn hsn hdr.1.2)
end

/-- the root: its own (empty) label prints nothing -/
theorem root_dents_last_marked (root : Node) (hs : Node.Shp root) (hdr : Node.drawable root = true) :
    LastMarked (Node.dents 0 [] root) := by
  cases root with
  | mk x s dc dy wc w ec e a b c =>
    simp only [Node.drawable, Bool.and_eq_true] at hdr
    obtain ⟨⟨⟨⟨⟨⟨h0, h1⟩, h2⟩, h3⟩, h4⟩, h5⟩, h6⟩ := hdr
    simp only [Node.Shp] at hs
    obtain ⟨_, _, _, _, l5, l6, _, _, _, _, _, _, _, _, _, _, s0, s1, s2, s3, s4⟩ := hs
    simp only [Node.dents, List.isEmpty_nil, if_true, List.nil_append]
    exact LastMarked_append (Kids.dents_last_marked e 0 6 (leaves_Shpk e l6) h6) (fun _ =>
      LastMarked_append (Kids.dents_last_marked ec 0 5 (leaves_Shpk ec l5) h5) (fun _ =>
      LastMarked_append (Kids.dents_last_marked w 0 4 s4 h4) (fun _ =>
      LastMarked_append (Kids.dents_last_marked wc 0 3 s3 h3) (fun _ =>
      LastMarked_append (Kids.dents_last_marked dy 0 2 s2 h2) (fun _ =>
      LastMarked_append (Kids.dents_last_marked dc 0 1 s1 h1) (fun _ =>
      Kids.dents_last_marked s 0 0 s0 h0))))))

/-- **the trim at the end of `Display` removes nothing**: on a tree with the shape invariant whose labels can be read back,
the text joined from the printed lines ends in `]` (or is empty), so `trim_end` is the identity on it — no trailing blank
of a last label can be lost — and splitting the text at the newlines gives back exactly the printed lines. -/
theorem display_text_lines (root : Node) (hs : Node.Shp root) (hdr : Node.drawable root = true)
    (hnl : ∀ l ∈ Node.lines "" "" true true root, '\n' ∉ l.toList) :
    let ls := (Node.lines "" "" true true root).map String.toList
    trimEndC (joinNL ls) = joinNL ls ∧ (ls ≠ [] → splitNL (joinNL ls) = ls) := by
  intro ls
  refine ⟨?_, fun hne => splitNL_joinNL ls hne (by
    intro l hl
    obtain ⟨s, hs, rfl⟩ := List.mem_map.1 hl
    exact hnl s hs)⟩
  have hp := root_lines_parse root hdr
  have hm := root_dents_last_marked root hs hdr
  rcases List.eq_nil_or_concat ls with hnil | ⟨init, last, hcat⟩
  · rw [hnil]; simp [joinNL, trimEndC]
  · -- the last line parses to the last dent, which is marked
    have hmap : ls.map parseLineC = (Node.dents 0 [] root).map some := by
      simpa [ls, List.map_map, Function.comp_def] using hp
    rw [hcat] at hmap
    have hlast : ((Node.dents 0 [] root).map some).getLast? = some (parseLineC last) := by
      rw [← hmap]; simp
    rw [List.getLast?_map] at hlast
    cases hd : (Node.dents 0 [] root).getLast? with
    | none => rw [hd] at hlast; simp at hlast
    | some en =>
      rw [hd] at hlast
      simp only [Option.map_some, Option.some.injEq] at hlast
      have hmk := hm en hd
      obtain ⟨dd, kk, mm⟩ := en
      simp only at hmk; subst hmk
      have hl := marked_line_last last dd kk hlast.symm
      rw [hcat]
      exact trimEndC_id _ ']' (by simpa using getLast?_joinNL_last init last ']' hl) (by decide)
