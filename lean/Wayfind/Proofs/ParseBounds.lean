import Wayfind.Proofs.DecodeEq4
import Wayfind.Proofs.ParseWf

/-! positions and lengths reported by `parse_template` lie inside the expansion text they refer to -/

/-- the template text an error carries -/
def TErr.tpl : TErr → Option Bytes
  | .empty => none
  | .missingLeadingSlash t | .emptyBraces t _ | .unbalancedBrace t _ | .emptyParentheses t _ | .unbalancedParenthesis t _
  | .emptyParameter t _ _ | .invalidParameter t _ _ _ | .duplicateParameter t _ _ _ _ _ | .emptyWildcard t _ _
  | .emptyConstraint t _ _ | .invalidConstraint t _ _ _ | .touchingParameters t _ _ => some t

/-- every reported range lies inside `t` (brace and parameter variants; parenthesis variants are produced by the
expansion, not by `parse_template`) -/
def TErr.inside (t : Bytes) : TErr → Prop
  | .emptyBraces _ p => p + 2 ≤ t.length
  | .unbalancedBrace _ p => p < t.length
  | .emptyParameter _ s l | .invalidParameter _ _ s l | .emptyWildcard _ s l | .emptyConstraint _ s l
  | .invalidConstraint _ _ s l | .touchingParameters _ s l => s + l ≤ t.length
  | .duplicateParameter _ _ f fl s sl => f + fl ≤ s ∧ s + sl ≤ t.length
  | _ => True

theorem braceEnd_lt : ∀ (after : Bytes) (c idx n : Nat), braceEnd after c idx = some n → n < idx + after.length
  | [], _, _, _, h => by simp [braceEnd] at h
  | b :: rest, c, idx, n, h => by
    simp only [braceEnd] at h
    simp only [List.length_cons]
    split at h
    · have := braceEnd_lt rest _ _ n h; omega
    · split at h
      · split at h
        · injection h with h; omega
        · have := braceEnd_lt rest _ _ n h; omega
      · have := braceEnd_lt rest _ _ n h; omega

theorem braceEnd_zero_content {after : Bytes} {n : Nat} (h : braceEnd after 1 0 = some n) (he : (after.take n).isEmpty = true) :
    n = 0 := by
  have hlt := braceEnd_lt after 1 0 n h
  cases n with
  | zero => rfl
  | succ k =>
    cases after with
    | nil => simp at hlt
    | cons a t => simp at he

/-- errors of `parse_parameter_part` at `cursor` (with `after` the text after the opening brace) -/
theorem parseParam_error_inside (raw : Bytes) (cursor : Nat) (after : Bytes) (e : TErr)
    (hlen : cursor + 1 + after.length = raw.length) (h : parseParam raw cursor after = .error e) :
    e.tpl = some raw ∧ e.inside raw := by
  unfold parseParam at h
  cases hb : braceEnd after 1 0 with
  | none =>
    rw [hb] at h
    injection h with h; subst h
    exact ⟨rfl, by simp only [TErr.inside] <;> omega⟩
  | some n =>
    rw [hb] at h
    have hlt := braceEnd_lt after 1 0 n hb
    have hlt' : n < after.length := by omega
    simp only at h
    repeat' split at h
    all_goals first
      | (cases h; done)
      | (injection h with h; subst h
         refine ⟨rfl, ?_⟩
         simp only [TErr.inside] <;> omega)

theorem parseParam_ok_next (raw : Bytes) (cursor : Nat) (after : Bytes) (part : Part) (next : Nat)
    (hlen : cursor + 1 + after.length = raw.length) (h : parseParam raw cursor after = .ok (part, next)) :
    cursor + 2 ≤ next ∧ next ≤ raw.length := by
  obtain ⟨n, hb, _, hn⟩ := (parseParam_ok_iff raw cursor after part next).1 h
  have := braceEnd_lt after 1 0 n hb
  omega

theorem litRun_suffix : ∀ (l : Bytes), (litRun l).2 = l.drop (l.length - (litRun l).2.length) := fun l => by
  induction l using litRun.induct with
  | case1 => simp [litRun]
  | case2 b rest p r hpr ih =>
    have hle := litRun_le rest
    simp only [litRun, List.length_cons]
    have : rest.length + 1 + 1 - (litRun rest).2.length = (rest.length - (litRun rest).2.length) + 2 := by omega
    rw [this]
    simp only [List.drop_succ_cons]
    exact ih
  | case3 b rest _ h => simp [litRun, h]
  | case4 b rest _ h p r hpr ih =>
    have hle := litRun_le rest
    simp only [litRun, h, ite_false, List.length_cons]
    have : rest.length + 1 - (litRun rest).2.length = (rest.length - (litRun rest).2.length) + 1 := by omega
    rw [this]
    simp only [List.drop_succ_cons]
    exact ih

/-- loop invariant of the scan: `rest` is the text from `cursor` on, recorded parameters end at or before `cursor` -/
structure PosInv (raw rest : Bytes) (cursor : Nat) (seen : List (Bytes × Nat × Nat)) : Prop where
  rest_eq : rest = raw.drop cursor
  le : cursor ≤ raw.length
  ends : ∀ x ∈ seen, x.2.1 + x.2.2 ≤ cursor

theorem parseLoop_error_inside (raw : Bytes) : ∀ (fuel : Nat) (rest : Bytes) (cursor : Nat) (seen : List (Bytes × Nat × Nat))
    (parts : List Part) (e : TErr), PosInv raw rest cursor seen →
    parseLoop raw fuel rest cursor seen parts = .error e → e.tpl = some raw ∧ e.inside raw := by
  intro fuel
  induction fuel with
  | zero => intro rest cursor seen parts e _ h; simp [parseLoop] at h
  | succ fuel ih =>
    intro rest cursor seen parts e hinv h
    cases rest with
    | nil => simp [parseLoop] at h
    | cons b after =>
      have hlen : cursor + 1 + after.length = raw.length := by
        have := congrArg List.length hinv.rest_eq
        simp only [List.length_cons, List.length_drop] at this
        have := hinv.le
        omega
      have hafter : after = raw.drop (cursor + 1) := by
        have h1 := hinv.rest_eq
        have : raw.drop (cursor + 1) = (raw.drop cursor).drop 1 := by rw [List.drop_drop]
        rw [this, ← h1]; rfl
      simp only [parseLoop] at h
      by_cases h123 : b = 123
      · subst h123
        simp only [ite_true] at h
        cases hpp : parseParam raw cursor after with
        | error e' =>
          rw [hpp] at h
          injection h with h; subst h
          exact parseParam_error_inside raw cursor after _ hlen hpp
        | ok pn =>
          obtain ⟨part, next⟩ := pn
          rw [hpp] at h
          obtain ⟨hn1, hn2⟩ := parseParam_ok_next raw cursor after part next hlen hpp
          have hcont : ∀ (seen' : List (Bytes × Nat × Nat)), (∀ x ∈ seen', x.2.1 + x.2.2 ≤ next) →
              PosInv raw ((123 :: after).drop (next - cursor)) next seen' := by
            intro seen' hs
            refine ⟨?_, hn2, hs⟩
            have : (123 :: after) = raw.drop cursor := hinv.rest_eq
            rw [this, List.drop_drop]
            congr 1; omega
          have hdup : ∀ e, parseLoop.parseLoopDup raw fuel (123 :: after) cursor seen parts part next = .error e →
              e.tpl = some raw ∧ e.inside raw := by
            intro e hd
            simp only [parseLoop.parseLoopDup] at hd
            cases hpn : partName part with
            | none =>
              rw [hpn] at hd
              exact ih _ _ _ _ e (hcont seen (fun x hx => by have := hinv.ends x hx; omega)) hd
            | some name =>
              rw [hpn] at hd
              simp only at hd
              cases hf : seen.find? (fun x => x.1 == name) with
              | some x =>
                rw [hf] at hd
                obtain ⟨nm, st, ln⟩ := x
                simp only at hd
                injection hd with hd; subst hd
                have := hinv.ends _ (List.mem_of_find?_eq_some hf)
                simp only at this
                exact ⟨rfl, by simp only [TErr.inside] <;> omega⟩
              | none =>
                rw [hf] at hd
                simp only at hd
                apply ih _ _ _ _ e (hcont _ ?_) hd
                intro x hx
                rcases List.mem_append.1 hx with hx | hx
                · have := hinv.ends x hx; omega
                · simp only [List.mem_singleton] at hx; subst hx; simp only; omega
          simp only at h
          cases hgl : seen.getLast? with
          | none => rw [hgl] at h; exact hdup e h
          | some x =>
            obtain ⟨nm, st, ln⟩ := x
            rw [hgl] at h
            simp only at h
            split at h
            · injection h with h; subst h
              have := hinv.ends _ (List.mem_of_getLast? hgl)
              simp only at this
              exact ⟨rfl, by simp only [TErr.inside] <;> omega⟩
            · exact hdup e h
      · simp only [h123, ite_false] at h
        by_cases h125 : b = 125
        · simp only [h125, ite_true] at h
          injection h with h; subst h
          exact ⟨rfl, by simp only [TErr.inside] <;> omega⟩
        · simp only [h125, ite_false] at h
          rw [parseStatic_eq_litRun (b :: after) cursor []] at h
          simp only at h
          have hle := litRun_le (b :: after)
          have hs := litRun_suffix (b :: after)
          have hr : (b :: after) = raw.drop cursor := hinv.rest_eq
          apply ih _ _ _ _ e ?_ h
          refine ⟨?_, ?_, ?_⟩
          · calc (litRun (b :: after)).2
                = (b :: after).drop ((b :: after).length - (litRun (b :: after)).2.length) := hs
              _ = (raw.drop cursor).drop ((b :: after).length - (litRun (b :: after)).2.length) :=
                  congrArg (fun l => List.drop ((b :: after).length - (litRun (b :: after)).2.length) l) hr
              _ = raw.drop (cursor + ((b :: after).length - (litRun (b :: after)).2.length)) := by
                  rw [List.drop_drop]
          · simp only [List.length_cons] at hle ⊢; omega
          · intro x hx; have := hinv.ends x hx; omega

/-- **errors of `parse_template` point inside the expansion they name** -/
theorem parseTemplate_error_inside (raw : Bytes) (e : TErr) (h : parseTemplate raw = .error e) :
    e.tpl = some raw ∧ e.inside raw := by
  unfold parseTemplate at h
  split at h
  · injection h with h; subst h; exact ⟨rfl, trivial⟩
  · exact parseLoop_error_inside raw _ raw 0 [] [] e ⟨by simp, by omega, by intro x hx; cases hx⟩ h
