import Wayfind.Proofs.Lemmas

theorem findStatic_nil (p : Bytes) (rest : List Part) : Kids.findStatic .nil p rest = none := by simp [Kids.findStatic]
theorem findPar_nil (l : Label) (rest : List Part) : Kids.findPar .nil l rest = none := by simp [Kids.findPar]

theorem slotOf_inj {k k' : PKind} {b : Bool} (h : slotOf k b = slotOf k' b) : k = k' := by
  cases k <;> cases k' <;> cases b <;> simp [slotOf] at h <;> rfl

/-- looking a part list up in a freshly built chain -/
theorem find_chain : ∀ (ps qs : List Part) (i : Info), altOK ps = true →
    Node.find (chain ps i) qs = if qs = ps then some i else none
  | [], qs, i, _ => by
    cases qs with
    | nil => simp [chain, Node.leaf, Node.find]
    | cons q qs =>
      cases q with
      | stat q => simp [chain, Node.leaf, Node.find, findStatic_nil]
      | par k l => simp only [chain, Node.leaf, Node.find]; split <;> simp [findPar_nil]
  | .stat p :: rest, qs, i, h => by
    have hp := altOK_stat_ne h
    have ih := fun qs => find_chain rest qs i (altOK_tail h)
    cases qs with
    | nil => simp [chain, Node.find]
    | cons q qs =>
      cases q with
      | par k l => simp only [chain, Node.find]; split <;> simp [findPar_nil]
      | stat q =>
        simp only [chain, Node.find, Kids.findStatic, findStatic_nil]
        by_cases hh : p.head? = q.head?
        · simp only [hh, ite_true]
          by_cases hc : p.length ≤ commonLen q p
          · simp only [hc, ite_true]
            obtain ⟨t, ht⟩ := (commonLen_ge_iff q p).1 hc
            subst ht
            rw [commonLen_append_left]
            by_cases hq : (p ++ t).length ≤ p.length
            · have : t = [] := by
                simp only [List.length_append] at hq
                exact List.eq_nil_of_length_eq_zero (by omega)
              subst this
              simp [ih]
            · simp only [hq, ite_false, ih]
              have : t ≠ [] := by intro h'; simp [h'] at hq
              cases rest with
              | nil => simp [this]
              | cons r rest =>
                cases r with
                | stat r => exact absurd h (by simp [altOK])
                | par k l => simp [this]
          · simp only [hc, ite_false]
            have : q ≠ p := by intro h'; subst h'; rw [commonLen_self] at hc; omega
            simp [this]
        · simp only [hh, ite_false]
          have : q ≠ p := by intro h'; subst h'; exact hh rfl
          simp [this]
  | .par k l :: rest, qs, i, h => by
    have ih := fun qs => find_chain rest qs i (altOK_tail h)
    cases qs with
    | nil => simp only [chain]; split <;> simp [Node.find]
    | cons q qs =>
      cases q with
      | stat q => simp only [chain]; split <;> simp [Node.find, findStatic_nil]
      | par k' l' =>
        simp only [chain]
        by_cases hk : slotOf k' qs.isEmpty = slotOf k rest.isEmpty
        · split <;> rename_i hs <;> simp only [Node.find, hk, hs, Kids.findPar, findPar_nil] <;>
          · by_cases hl : l = l'
            · subst hl
              simp only [ite_true, ih]
              by_cases hr : qs = rest
              · subst hr; have := slotOf_inj hk; subst this; simp
              · simp [hr]
            · have : ¬ l' = l := fun h => hl h.symm
              simp [hl, this]
        · have : ¬ (Part.par k' l' :: qs = Part.par k l :: rest) := by
            intro h'; injection h' with h1 h2; injection h1 with h3 h4; subst h3 h4 h2; exact hk rfl
          simp only [this, ite_false]
          split <;> rename_i hs <;> simp only [Node.find] <;> split <;> rename_i hs' <;>
            first | simp [findPar_nil] | (exfalso; exact hk (hs'.trans hs.symm))
