import Wayfind.Proofs.Registry3

/-! outcomes of `insert` and `delete` in terms of the registry -/

theorem filterMap_congr' {α β} {f g : α → Option β} : ∀ (l : List α), (∀ x ∈ l, f x = g x) → l.filterMap f = l.filterMap g
  | [], _ => rfl
  | x :: xs, h => by
    simp only [List.filterMap_cons, h x (by simp)]
    rw [filterMap_congr' xs (fun y hy => h y (by simp [hy]))]

theorem findSome?_congr' {α β} {f g : α → Option β} : ∀ (l : List α), (∀ x ∈ l, f x = g x) → l.findSome? f = l.findSome? g
  | [], _ => rfl
  | x :: xs, h => by
    simp only [List.findSome?_cons, h x (by simp)]
    rw [findSome?_congr' xs (fun y hy => h y (by simp [hy]))]

/-- the live template owning part list `P`, if any -/
def ownerOf (L : List LiveT) (P : List Part) : Option LiveT := L.find? (fun lt => lt.exps.any (fun e => e.2 == P))

theorem ownerOf_some {L : List LiveT} {P : List Part} {lt : LiveT} (h : ownerOf L P = some lt) :
    lt ∈ L ∧ ∃ e ∈ lt.exps, e.2 = P := by
  unfold ownerOf at h
  refine ⟨List.mem_of_find?_eq_some h, ?_⟩
  have := List.find?_some h
  simp only [List.any_eq_true] at this
  obtain ⟨e, he, hk⟩ := this
  exact ⟨e, he, by simpa using hk⟩

theorem ownerOf_none {L : List LiveT} {P : List Part} (h : ownerOf L P = none) :
    ∀ lt ∈ L, ∀ e ∈ lt.exps, e.2 ≠ P := by
  intro lt hlt e he hk
  unfold ownerOf at h
  have := List.find?_eq_none.1 h lt hlt
  simp only [List.any_eq_true, not_exists, not_and] at this
  exact this e he (by simpa using hk)

/-- the tree's lookup and the registry agree on who owns a part list -/
theorem Reg.find_template {root : Node} {L : List LiveT} (h : Reg root L) (P : List Part) (hP : wfParts P = true) :
    (Node.find root P).map (·.template) = (ownerOf L P).map (·.template) := by
  cases hf : Node.find root P with
  | some i =>
    obtain ⟨lt, hlt, e, he, hk, hok⟩ := h.sound P i hP hf
    cases ho : ownerOf L P with
    | none => exact absurd hk (ownerOf_none ho lt hlt e he)
    | some lt' =>
      obtain ⟨hlt', e', he', hk'⟩ := ownerOf_some ho
      obtain ⟨i', hf', hok'⟩ := h.complete lt' hlt' e' he'
      rw [hk', hf] at hf'
      injection hf' with hf'
      subst hf'
      simp only [Option.map_some]
      rw [hok'.1]
  | none =>
    cases ho : ownerOf L P with
    | none => rfl
    | some lt' =>
      obtain ⟨hlt', e', he', hk'⟩ := ownerOf_some ho
      obtain ⟨i', hf', _⟩ := h.complete lt' hlt' e' he'
      rw [hk', hf] at hf'; cases hf'

/-- the conflict scan of `insert`, seen through the registry: the owners of the colliding expansions, in expansion order -/
theorem Reg.conflictsOf_eq {root : Node} {L : List LiveT} (h : Reg root L) (ts : List (Bytes × List Part))
    (hwf : ∀ e ∈ ts, wfParts e.2 = true) :
    conflictsOf root ts = ts.filterMap (fun e => (ownerOf L e.2).map (·.template)) := by
  unfold conflictsOf
  apply filterMap_congr'
  intro e he
  exact h.find_template e.2 (hwf e he)

/-- the mismatch scan of `delete`, seen through the registry -/
theorem Reg.mismatchOf_eq {root : Node} {L : List LiveT} (h : Reg root L) (t : Bytes) (ts : List (Bytes × List Part))
    (hwf : ∀ e ∈ ts, wfParts e.2 = true) :
    mismatchOf root t ts = ts.findSome? (fun e =>
      match (ownerOf L e.2).map (·.template) with
      | some o => if o == t then none else some o
      | none => none) := by
  unfold mismatchOf
  apply findSome?_congr'
  intro e he
  have := h.find_template e.2 (hwf e he)
  cases hf : Node.find root e.2 with
  | none => rw [hf] at this; simp only [Option.map_none] at this; rw [← this]
  | some i => rw [hf] at this; simp only [Option.map_some] at this; rw [← this]

theorem Reg.find_isNone {root : Node} {L : List LiveT} (h : Reg root L) (P : List Part) (hP : wfParts P = true) :
    (Node.find root P).isNone = (ownerOf L P).isNone := by
  have := h.find_template P hP
  cases hf : Node.find root P <;> cases ho : ownerOf L P <;> simp_all

/-! ### `sort` then `dedup` lists every element exactly once, in order -/

theorem mem_insertBytes (x y : Bytes) : ∀ (l : List Bytes), y ∈ insertBytes x l ↔ y = x ∨ y ∈ l
  | [] => by simp [insertBytes]
  | z :: zs => by
    simp only [insertBytes]
    split
    · simp only [List.mem_cons, mem_insertBytes x y zs]
      constructor
      · rintro (h | h | h) <;> simp [h]
      · rintro (h | h | h) <;> simp [h]
    · simp [List.mem_cons]

theorem mem_sortBytes (y : Bytes) : ∀ (l : List Bytes), y ∈ sortBytes l ↔ y ∈ l
  | [] => by simp [sortBytes]
  | x :: xs => by
    have ih := mem_sortBytes y xs
    simp only [sortBytes, List.foldr_cons] at ih ⊢
    rw [mem_insertBytes, ih]; simp

theorem mem_dedupAdj (y : Bytes) : ∀ (l : List Bytes), y ∈ dedupAdj l ↔ y ∈ l
  | [] => by simp [dedupAdj]
  | [x] => by simp [dedupAdj]
  | x :: z :: r => by
    have ih := mem_dedupAdj y (z :: r)
    simp only [dedupAdj]
    split
    · rename_i hxz
      have : x = z := by simpa using hxz
      subst this
      rw [ih]; simp
    · simp only [List.mem_cons] at ih ⊢
      rw [ih]

/-- every colliding live template is named, and only those -/
theorem mem_conflict_list (cs : List Bytes) (y : Bytes) : y ∈ dedupAdj (sortBytes cs) ↔ y ∈ cs := by
  rw [mem_dedupAdj, mem_sortBytes]
