import Wayfind.Proofs.DelCases

theorem Shp_setDirty : ∀ (n : Node), Node.Shp n.setDirty ↔ Node.Shp n
  | .mk _ _ _ _ _ _ _ _ _ _ _ => by simp [Node.setDirty, Node.Shp]

theorem routes_setDirty : ∀ (n : Node), Node.routes n.setDirty = Node.routes n
  | .mk _ _ _ _ _ _ _ _ _ _ _ => by simp [Node.setDirty, Node.routes]

theorem compress_some {n' : Node} {lg : Label} {g : Node} (h : n'.compress? = some (lg, g)) :
    ∃ ds ws dirty, n' = .mk none (.cons lg g .nil) .nil .nil .nil .nil .nil .nil ds ws dirty := by
  cases n' with
  | mk x s dc d wc w ec e ds ws dirty =>
    simp only [Node.compress?] at h
    split at h
    · rename_i hc
      simp only [Bool.and_eq_true, Option.isNone_iff_eq_none, isNil_eq_nil] at hc
      obtain ⟨⟨⟨⟨⟨⟨rfl, rfl⟩, rfl⟩, rfl⟩, rfl⟩, rfl⟩, rfl⟩ := hc
      cases s with
      | nil => simp [Kids.single] at h
      | cons l1 n1 r1 =>
        cases r1 with
        | nil =>
          simp only [Kids.single, Option.some.injEq, Prod.mk.injEq] at h
          obtain ⟨rfl, rfl⟩ := h
          exact ⟨ds, ws, dirty, rfl⟩
        | cons _ _ _ => simp [Kids.single] at h
    · cases h

theorem nodupL_sublist {L L' : List Label} (h : L'.Sublist L) (hn : NodupL L) : NodupL L' :=
  List.Pairwise.sublist h hn

theorem app_labels_sublist (A : Kids) (l : Label) (n : Node) (B : Kids) :
    (Kids.app A B).labels.Sublist (Kids.app A (.cons l n B)).labels := by
  rw [Kids.labels_app, Kids.labels_app]
  exact List.Sublist.append_left (List.sublist_cons_self l _) _

theorem app_heads_sublist (A : Kids) (l : Label) (n : Node) (B : Kids) :
    (Kids.app A B).heads.Sublist (Kids.app A (.cons l n B)).heads := by
  rw [Kids.heads_app, Kids.heads_app]
  exact List.Sublist.append_left (List.sublist_cons_self _ _) _

def DelIH (m : Nat) : Prop :=
  ∀ P, psize P < m → ∀ (n : Node) (mark : Bool), Node.Shp n → wfParts P = true →
    Node.Shp (Node.delete mark n P).1 ∧
    (P ≠ [] → (Node.delete mark n P).1.data = n.data) ∧
    (startsStatOrEnd P → n.onlyStatic → (Node.delete mark n P).1.onlyStatic)

/-- a parameter vector after `deletePar` -/
theorem del_par_vec (m : Nat) (ih : DelIH m) (mid : Bool) (ks : Kids) (l : Label) (rest : List Part)
    (hsz : psize rest < m) (hwf : wfParts rest = true) (hst : startsStatOrEnd rest) (hmid : mid = true → rest ≠ [])
    (h1 : NodupL ks.labels) (h2 : Kids.All (fun _ n => n.onlyStatic) ks) (h3 : Kids.Shpk ks)
    (h4 : mid = true → Kids.All (fun _ n => n.data = none) ks) :
    NodupL (Kids.deletePar ks l rest).1.labels ∧ Kids.All (fun _ n => n.onlyStatic) (Kids.deletePar ks l rest).1 ∧
    Kids.Shpk (Kids.deletePar ks l rest).1 ∧
    (mid = true → Kids.All (fun _ n => n.data = none) (Kids.deletePar ks l rest).1) := by
  rcases deletePar_cases ks l rest with ⟨A, n, B, hks, _, hres⟩ | ⟨_, hres⟩
  · subst hks
    rw [hres]
    rw [Kids.All_app, All_cons_iff] at h2
    rw [Kids.Shpk_app, Shpk_cons_iff] at h3
    obtain ⟨hS, hD, hO⟩ := ih rest hsz n false h3.2.1 hwf
    cases he : (Node.delete false n rest).1.isEmptyN with
    | true =>
      simp only [ite_true]
      refine ⟨nodupL_sublist (app_labels_sublist A l n B) h1, ?_, ?_, ?_⟩
      · rw [Kids.All_app]; exact ⟨h2.1, h2.2.2⟩
      · rw [Kids.Shpk_app]; exact ⟨h3.1, h3.2.2.2⟩
      · intro hm; have h4' := h4 hm; rw [Kids.All_app, All_cons_iff] at h4'; rw [Kids.All_app]; exact ⟨h4'.1, h4'.2.2⟩
    | false =>
      simp only [Bool.false_eq_true, ite_false]
      refine ⟨by simpa [Kids.labels_app, Kids.labels] using h1, ?_, ?_, ?_⟩
      · rw [Kids.All_app, All_cons_iff]; exact ⟨h2.1, hO hst h2.2.1, h2.2.2⟩
      · rw [Kids.Shpk_app, Shpk_cons_iff]; exact ⟨h3.1, hS, routes_ne_of_nonempty _ hS he, h3.2.2.2⟩
      · intro hm
        have h4' := h4 hm
        rw [Kids.All_app, All_cons_iff] at h4' ⊢
        exact ⟨h4'.1, by show (Node.delete false n rest).1.data = none; rw [hD (hmid hm)]; exact h4'.2.1, h4'.2.2⟩
  · rw [hres]; exact ⟨h1, h2, h3, h4⟩

theorem del_end_vec (ks : Kids) (l : Label) (h1 : NodupL ks.labels) (h2 : Kids.leaves ks) :
    NodupL (Kids.deleteEnd ks l).1.labels ∧ Kids.leaves (Kids.deleteEnd ks l).1 := by
  rcases deleteEnd_cases ks l with ⟨A, n, B, hks, _, hres⟩ | ⟨_, hres⟩
  · subst hks
    rw [hres]
    rw [Kids.leaves_app] at h2
    exact ⟨nodupL_sublist (app_labels_sublist A l n B) h1, by rw [Kids.leaves_app]; exact ⟨h2.1, h2.2.2⟩⟩
  · rw [hres]; exact ⟨h1, h2⟩

/-- the static vector after `deleteStatic` (prune / merge / keep) -/
theorem del_stat_vec (m : Nat) (ih : DelIH m) (ks : Kids) (p : Bytes) (rest : List Part)
    (hsz : psize (.stat p :: rest) ≤ m) (hwf : wfParts (.stat p :: rest) = true)
    (h1 : Kids.All (fun l _ => l.pre ≠ []) ks) (h2 : Kids.distinctHeads ks) (h3 : Kids.Shpk ks) :
    Kids.All (fun l _ => l.pre ≠ []) (Kids.deleteStatic ks p rest).1 ∧
    Kids.distinctHeads (Kids.deleteStatic ks p rest).1 ∧ Kids.Shpk (Kids.deleteStatic ks p rest).1 := by
  rw [distinctHeads_iff] at h2 ⊢
  rcases deleteStatic_cases ks p rest with ⟨A, l, n, B, hks, _, hres⟩ | hres
  · subst hks
    rw [hres]
    rw [Kids.All_app, All_cons_iff] at h1
    rw [Kids.Shpk_app, Shpk_cons_iff] at h3
    have hlpos : 0 < l.pre.length := List.length_pos_iff.mpr h1.2.1
    obtain ⟨hS, _, _⟩ := ih (below p l.pre.length rest) (by have := psize_below_lt p l.pre.length rest hlpos; omega)
      n true h3.2.1 (wfParts_below p _ rest hwf)
    simp only [afterAt, afterStatic]
    cases he : (Node.delete true n (below p l.pre.length rest)).1.isEmptyN with
    | true =>
      simp only [ite_true]
      refine ⟨by rw [Kids.All_app]; exact ⟨h1.1, h1.2.2⟩, ?_, by rw [Kids.Shpk_app]; exact ⟨h3.1, h3.2.2.2⟩⟩
      exact List.Pairwise.sublist (app_heads_sublist A l n B) h2
    | false =>
      simp only [Bool.false_eq_true, ite_false]
      cases hc : (Node.delete true n (below p l.pre.length rest)).1.compress? with
      | none =>
        simp only
        refine ⟨by rw [Kids.All_app, All_cons_iff]; exact h1, by simpa [Kids.heads_app, Kids.heads] using h2, ?_⟩
        rw [Kids.Shpk_app, Shpk_cons_iff]; exact ⟨h3.1, hS, routes_ne_of_nonempty _ hS he, h3.2.2.2⟩
      | some lgg =>
        obtain ⟨lg, g⟩ := lgg
        obtain ⟨ds', ws', dirty', hn'⟩ := compress_some hc
        rw [hn'] at hS
        simp only [Node.Shp, Kids.Shpk] at hS
        have hg : Node.Shp g ∧ Node.routes g ≠ [] := ⟨hS.2.2.2.2.2.2.2.2.2.2.2.2.2.2.2.2.1.1, hS.2.2.2.2.2.2.2.2.2.2.2.2.2.2.2.2.1.2.1⟩
        simp only
        refine ⟨?_, ?_, ?_⟩
        · rw [Kids.All_app, All_cons_iff]
          exact ⟨h1.1, by simp [h1.2.1], h1.2.2⟩
        · have : ({ pre := l.pre ++ lg.pre } : Label).pre.head? = l.pre.head? := head_append_ne h1.2.1
          simpa [Kids.heads_app, Kids.heads, this] using h2
        · rw [Kids.Shpk_app, Shpk_cons_iff]
          exact ⟨h3.1, (Shp_setDirty g).2 hg.1, by rw [routes_setDirty]; exact hg.2, h3.2.2.2⟩
  · rw [hres]; rw [← distinctHeads_iff] at h2 ⊢; exact ⟨h1, h2, h3⟩

theorem delIH_all : ∀ m, DelIH m := by
  intro m
  induction m with
  | zero => intro P h; omega
  | succ m ih =>
    intro P hP n mark hS hwf
    cases n with
    | mk x s dc d wc w ec e ds ws dirty =>
    have hS0 := hS
    simp only [Node.Shp] at hS
    obtain ⟨hs1, hs2, hwcd, hwd, hecl, hel, ndc, nd, nwc, nw, nec, ne, odc, od, owc, ow, ks, kdc, kd, kwc, kw⟩ := hS
    cases P with
    | nil =>
      refine ⟨?_, fun h => absurd rfl h, ?_⟩
      · cases x <;> simp only [Node.delete, Node.Shp] <;>
          exact ⟨hs1, hs2, hwcd, hwd, hecl, hel, ndc, nd, nwc, nw, nec, ne, odc, od, owc, ow, ks, kdc, kd, kwc, kw⟩
      · intro _ ho; cases x <;> simpa [Node.delete, Node.onlyStatic] using ho
    | cons part rest =>
      cases part with
      | stat p =>
        obtain ⟨a1, a2, a3⟩ := del_stat_vec m ih s p rest (by omega) hwf hs1 hs2 ks
        refine ⟨?_, fun _ => by simp [Node.delete, Node.data], ?_⟩
        · simp only [Node.delete, Node.Shp]
          exact ⟨a1, a2, hwcd, hwd, hecl, hel, ndc, nd, nwc, nw, nec, ne, odc, od, owc, ow, a3, kdc, kd, kwc, kw⟩
        · intro _ ho; simpa [Node.delete, Node.onlyStatic] using ho
      | par k l =>
        have hwr := wfParts_tail hwf
        have hst := wfParts_after_par hwf
        have hsz : psize rest < m := by simp only [psize] at hP; omega
        refine ⟨?_, ?_, fun h => by simp [startsStatOrEnd] at h⟩
        all_goals simp only [Node.delete]
        all_goals cases hsl : slotOf k rest.isEmpty
        · obtain ⟨b1, b2, b3, _⟩ := del_par_vec m ih false dc l rest hsz hwr hst (by intro h; cases h) ndc odc kdc (by intro h; cases h)
          simp only [Node.Shp]
          exact ⟨hs1, hs2, hwcd, hwd, hecl, hel, b1, nd, nwc, nw, nec, ne, b2, od, owc, ow, ks, b3, kd, kwc, kw⟩
        · obtain ⟨b1, b2, b3, _⟩ := del_par_vec m ih false d l rest hsz hwr hst (by intro h; cases h) nd od kd (by intro h; cases h)
          simp only [Node.Shp]
          exact ⟨hs1, hs2, hwcd, hwd, hecl, hel, ndc, b1, nwc, nw, nec, ne, odc, b2, owc, ow, ks, kdc, b3, kwc, kw⟩
        · have hne : rest ≠ [] := by intro e; subst e; cases k <;> simp [slotOf] at hsl
          obtain ⟨b1, b2, b3, b4⟩ := del_par_vec m ih true wc l rest hsz hwr hst (fun _ => hne) nwc owc kwc (fun _ => hwcd)
          simp only [Node.Shp]
          exact ⟨hs1, hs2, b4 rfl, hwd, hecl, hel, ndc, nd, b1, nw, nec, ne, odc, od, b2, ow, ks, kdc, kd, b3, kw⟩
        · have hne : rest ≠ [] := by intro e; subst e; cases k <;> simp [slotOf] at hsl
          obtain ⟨b1, b2, b3, b4⟩ := del_par_vec m ih true w l rest hsz hwr hst (fun _ => hne) nw ow kw (fun _ => hwd)
          simp only [Node.Shp]
          exact ⟨hs1, hs2, hwcd, b4 rfl, hecl, hel, ndc, nd, nwc, b1, nec, ne, odc, od, owc, b2, ks, kdc, kd, kwc, b3⟩
        · obtain ⟨c1, c2⟩ := del_end_vec ec l nec hecl
          simp only [Node.Shp]
          exact ⟨hs1, hs2, hwcd, hwd, c2, hel, ndc, nd, nwc, nw, c1, ne, odc, od, owc, ow, ks, kdc, kd, kwc, kw⟩
        · obtain ⟨c1, c2⟩ := del_end_vec e l ne hel
          simp only [Node.Shp]
          exact ⟨hs1, hs2, hwcd, hwd, hecl, c2, ndc, nd, nwc, nw, nec, c1, odc, od, owc, ow, ks, kdc, kd, kwc, kw⟩
        all_goals (intro _; simp [Node.data])

/-- **Shape preservation by delete** (prune and merge included), for every node and every well-formed part list. -/
theorem Node.delete_Shp (n : Node) (mark : Bool) (P : List Part) (hS : Node.Shp n) (hwf : wfParts P = true) :
    Node.Shp (Node.delete mark n P).1 :=
  (delIH_all (psize P + 1) P (Nat.lt_succ_self _) n mark hS hwf).1

#print axioms Node.delete_Shp
