import Wayfind.Proofs.FindRoutes

theorem find_flags (x : Option Info) (s dc d wc w ec e : Kids) (a b c a' b' c' : Bool) (Q : List Part) :
    Node.find (.mk x s dc d wc w ec e a b c) Q = Node.find (.mk x s dc d wc w ec e a' b' c') Q := by
  cases Q with
  | nil => rfl
  | cons q Q => cases q <;> rfl

theorem find_setDirty (n : Node) (Q : List Part) : Node.find n.setDirty Q = Node.find n Q := by
  cases n; exact find_flags ..

theorem find_empty : ∀ (n : Node) (Q : List Part), n.isEmptyN = true → Node.find n Q = none
  | .mk x s dc d wc w ec e _ _ _, Q, h => by
    simp only [Node.isEmptyN, Bool.and_eq_true, Option.isNone_iff_eq_none, isNil_eq_nil] at h
    obtain ⟨⟨⟨⟨⟨⟨⟨rfl, rfl⟩, rfl⟩, rfl⟩, rfl⟩, rfl⟩, rfl⟩, rfl⟩ := h
    cases Q with
    | nil => rfl
    | cons q Q =>
      cases q with
      | stat p => simp [Node.find, findStatic_nil]
      | par k l => simp only [Node.find]; split <;> simp [findPar_nil]

theorem findStatic_congr_child (l : Label) (n n' : Node) (r : Kids) (q : Bytes) (qrest : List Part)
    (h : ∀ Q, Node.find n Q = Node.find n' Q) :
    Kids.findStatic (.cons l n r) q qrest = Kids.findStatic (.cons l n' r) q qrest := by
  simp only [Kids.findStatic, h]

theorem findStatic_cons_pre (l l' : Label) (n : Node) (r : Kids) (q : Bytes) (qrest : List Part) (h : l.pre = l'.pre) :
    Kids.findStatic (.cons l n r) q qrest = Kids.findStatic (.cons l' n r) q qrest := by
  simp only [Kids.findStatic, h]

theorem find_splitParent_pre (la la' : Label) (n : Node) (h : la.pre = la'.pre) (Q : List Part) :
    Node.find (splitParent la n) Q = Node.find (splitParent la' n) Q := by
  cases Q with
  | nil => rfl
  | cons x Q =>
    cases x with
    | stat p => simp only [splitParent, Node.find]; exact findStatic_cons_pre la la' n .nil p Q h
    | par k l => rfl

theorem noHead_afterStatic (b : Option Byte) (l : Label) (n' : Node) (r : Kids) (hl : l.pre ≠ [])
    (h1 : l.pre.head? ≠ b) (h2 : Kids.noHead b r) : Kids.noHead b (afterStatic l n' r).1 := by
  unfold afterStatic
  split
  · exact h2
  · split
    · exact ⟨by simpa [head_append_ne hl] using h1, h2⟩
    · exact ⟨h1, h2⟩

theorem noHead_deleteStatic (b : Option Byte) : ∀ (ks : Kids) (p : Bytes) (rest : List Part),
    Kids.All (fun l _ => l.pre ≠ []) ks → Kids.noHead b ks → Kids.noHead b (Kids.deleteStatic ks p rest).1
  | .nil, _, _, _, _ => by simp [Kids.deleteStatic, Kids.noHead]
  | .cons l n r, p, rest, hne, h => by
    simp only [Kids.deleteStatic]
    split
    · exact noHead_afterStatic b l _ r hne.1 h.1 h.2
    · exact ⟨h.1, noHead_deleteStatic b r p rest hne.2 h.2⟩

/-- a compressible node looks up like a split parent -/
theorem find_compress {n' : Node} {lg : Label} {g : Node} (h : n'.compress? = some (lg, g)) (Q : List Part) :
    Node.find n' Q = Node.find (splitParent lg g) Q := by
  obtain ⟨ds, ws, dirty, rfl⟩ := compress_some h
  exact find_flags ..

def FdIH (m : Nat) : Prop :=
  ∀ P, psize P < m → ∀ (n : Node) (mark : Bool) (Q : List Part), Node.Shp n → wfParts P = true → wfParts Q = true →
    Node.find (Node.delete mark n P).1 Q = (if Q = P then none else Node.find n Q) ∧
    (Node.delete mark n P).2 = Node.find n P

/-- lookups in the static vector after `deleteStatic` -/
theorem fd_stat_vec (m : Nat) (ih : FdIH m) : ∀ (ks : Kids) (p : Bytes) (rest : List Part) (q : Bytes) (qrest : List Part),
    psize (.stat p :: rest) ≤ m → wfParts (.stat p :: rest) = true → wfParts (.stat q :: qrest) = true →
    Kids.All (fun l _ => l.pre ≠ []) ks → Kids.distinctHeads ks → Kids.Shpk ks →
    Kids.findStatic (Kids.deleteStatic ks p rest).1 q qrest =
      (if q = p ∧ qrest = rest then none else Kids.findStatic ks q qrest) ∧
    (Kids.deleteStatic ks p rest).2.1 = Kids.findStatic ks p rest
  | .nil, p, rest, q, qrest, _, _, _, _, _, _ => by simp [Kids.deleteStatic, findStatic_nil]
  | .cons l n r, p, rest, q, qrest, hsz, hwf, hwq, hne, hd, hS => by
    have haltP := wfParts_altOK _ hwf
    have haltQ := wfParts_altOK _ hwq
    have hp := altOK_stat_ne haltP
    by_cases hpre : l.pre.isPrefixOf p = true
    · -- the delete happens below this child
      obtain ⟨t, ht⟩ := List.isPrefixOf_iff_prefix.1 hpre
      have hlpos : 0 < l.pre.length := List.length_pos_iff.mpr hne.1
      have hb : (if (p.drop l.pre.length).isEmpty then Node.delete true n rest
                 else Node.delete true n (.stat (p.drop l.pre.length) :: rest)) =
                Node.delete true n (below p l.pre.length rest) := by
        unfold below
        by_cases hq : p.length ≤ l.pre.length
        · have : (p.drop l.pre.length).isEmpty = true := by
            simp only [List.isEmpty_iff, List.drop_eq_nil_iff]; exact hq
          simp [hq, this]
        · have : (p.drop l.pre.length).isEmpty = false := by
            cases hd' : p.drop l.pre.length with
            | nil => have := congrArg List.length hd'; simp only [List.length_drop, List.length_nil] at this; omega
            | cons _ _ => rfl
          simp [hq, this]
      have hdel : Kids.deleteStatic (.cons l n r) p rest =
          ((afterStatic l (Node.delete true n (below p l.pre.length rest)).1 r).1,
           (Node.delete true n (below p l.pre.length rest)).2,
           (afterStatic l (Node.delete true n (below p l.pre.length rest)).1 r).2) := by
        simp only [Kids.deleteStatic, hpre, ite_true, hb]
      have hszc : psize (below p l.pre.length rest) < m := by
        have := psize_below_lt p l.pre.length rest hlpos; omega
      have hwfc := wfParts_below p l.pre.length rest hwf
      have IHn := fun Q hQ => ih (below p l.pre.length rest) hszc n true Q hS.1 hwfc hQ
      rw [hdel]
      refine ⟨?_, ?_⟩
      · -- lookups
        generalize hn' : (Node.delete true n (below p l.pre.length rest)).1 = n' at *
        have IHf : ∀ Q, wfParts Q = true → Node.find n' Q = if Q = below p l.pre.length rest then none else Node.find n Q :=
          fun Q hQ => (IHn Q hQ).1
        -- first reduce to "the child is n'" (prune and merge do not change lookups)
        have hkeep : Kids.findStatic (afterStatic l n' r).1 q qrest = Kids.findStatic (.cons l n' r) q qrest := by
          unfold afterStatic
          by_cases he : n'.isEmptyN = true
          · simp only [he, ite_true]
            rw [findStatic_cons_spec l n' r q qrest hne.1 hd.1]
            by_cases h1 : l.pre.isPrefixOf q = true
            · simp only [h1, ite_true, find_empty n' _ he]
              have hh : l.pre.head? = q.head? := by
                obtain ⟨u, hu⟩ := List.isPrefixOf_iff_prefix.1 h1
                rw [← hu, head_append_ne hne.1]
              exact findStatic_noHead r q qrest (hh ▸ hd.1)
            · simp only [h1, Bool.false_eq_true, ite_false]
              by_cases hh : l.pre.head? = q.head?
              · simp only [hh, ite_true]; exact findStatic_noHead r q qrest (hh ▸ hd.1)
              · simp [hh]
          · simp only [he, Bool.false_eq_true, ite_false]
            cases hc : n'.compress? with
            | none => rfl
            | some lgg =>
              obtain ⟨lg, g⟩ := lgg
              simp only
              have hlg : lg.pre ≠ [] := by
                obtain ⟨ds', ws', dirty', hn''⟩ := compress_some hc
                have hSn' : Node.Shp n' := by
                  rw [← hn']; exact Node.delete_Shp n true _ hS.1 hwfc
                rw [hn''] at hSn'
                simp only [Node.Shp, Kids.All] at hSn'
                exact hSn'.1.1
              have e1 : Kids.findStatic (.cons l n' r) q qrest = Kids.findStatic (.cons l (splitParent lg g) r) q qrest :=
                findStatic_congr_child l n' _ r q qrest (find_compress hc)
              rw [e1]
              have hc1 : l.pre.length < (l.pre ++ lg.pre).length := by
                have : 0 < lg.pre.length := List.length_pos_iff.mpr hlg
                simp only [List.length_append]; omega
              have hsplit := findStatic_split {pre := l.pre ++ lg.pre} g r l.pre.length q qrest hlpos hc1
                (by simpa [head_append_ne hne.1] using hd.1) haltQ
              simp only [List.take_left', List.drop_left'] at hsplit
              rw [findStatic_congr_child _ g.setDirty g r q qrest (find_setDirty g), ← hsplit]
              rw [findStatic_cons_pre l {pre := l.pre} _ r q qrest rfl]
              exact findStatic_congr_child _ _ _ r q qrest (find_splitParent_pre {pre := lg.pre} lg g rfl)
        rw [hkeep, findStatic_cons_spec l n' r q qrest hne.1 hd.1, findStatic_cons_spec l n r q qrest hne.1 hd.1]
        by_cases h1 : l.pre.isPrefixOf q = true
        · simp only [h1, ite_true]
          obtain ⟨u, hu⟩ := List.isPrefixOf_iff_prefix.1 h1
          rw [IHf _ (wfParts_below q _ qrest hwq)]
          have key := below_inj (lp := l.pre) ht.symm hu.symm haltP haltQ
          by_cases hk : below q l.pre.length qrest = below p l.pre.length rest
          · simp [hk, key.1 hk]
          · have : ¬ (q = p ∧ qrest = rest) := fun h => hk (key.2 h)
            simp [hk, this]
        · have : ¬ (q = p ∧ qrest = rest) := by rintro ⟨rfl, _⟩; exact h1 hpre
          simp [h1, this]
      · -- returned data
        rw [(IHn [] rfl).2, findStatic_cons_spec l n r p rest hne.1 hd.1]
        simp [hpre]
    · -- other child: recurse into the siblings
      have ih2 := fd_stat_vec m ih r p rest q qrest hsz hwf hwq hne.2 hd.2 hS.2.2
      have hdel : Kids.deleteStatic (.cons l n r) p rest =
          (.cons l n (Kids.deleteStatic r p rest).1, (Kids.deleteStatic r p rest).2.1, (Kids.deleteStatic r p rest).2.2) := by
        simp [Kids.deleteStatic, hpre]
      rw [hdel]
      have hno' := noHead_deleteStatic l.pre.head? r p rest hne.2 hd.1
      refine ⟨?_, ?_⟩
      · rw [findStatic_cons_spec l n _ q qrest hne.1 hno', findStatic_cons_spec l n r q qrest hne.1 hd.1]
        by_cases h1 : l.pre.isPrefixOf q = true
        · have : ¬ (q = p ∧ qrest = rest) := by rintro ⟨rfl, _⟩; exact hpre h1
          simp [h1, this]
        · simp only [h1, Bool.false_eq_true, ite_false]
          by_cases hh : l.pre.head? = q.head?
          · simp only [hh, ite_true]; split <;> rfl
          · simp only [hh, ite_false]; exact ih2.1
      · rw [ih2.2, findStatic_cons_spec l n r p rest hne.1 hd.1]
        simp only [hpre, Bool.false_eq_true, ite_false]
        by_cases hh : l.pre.head? = p.head?
        · simp only [hh, ite_true]; exact findStatic_noHead r p rest (hh ▸ hd.1)
        · simp [hh]

theorem findPar_notin : ∀ (ks : Kids) (l : Label) (q : List Part), l ∉ ks.labels → Kids.findPar ks l q = none
  | .nil, _, _, _ => rfl
  | .cons l0 n r, l, q, h => by
    simp only [Kids.labels, List.mem_cons, not_or] at h
    have : ¬ l0 = l := fun e => h.1 e.symm
    simp [Kids.findPar, this, findPar_notin r l q h.2]

/-- lookups in a parameter vector after `deletePar` -/
theorem fd_par_vec (m : Nat) (ih : FdIH m) : ∀ (ks : Kids) (l : Label) (rest : List Part) (l' : Label) (qrest : List Part),
    psize rest < m → wfParts rest = true → wfParts qrest = true → NodupL ks.labels → Kids.Shpk ks →
    Kids.findPar (Kids.deletePar ks l rest).1 l' qrest =
      (if l' = l ∧ qrest = rest then none else Kids.findPar ks l' qrest) ∧
    (Kids.deletePar ks l rest).2.1 = Kids.findPar ks l rest
  | .nil, l, rest, l', qrest, _, _, _, _, _ => by simp [Kids.deletePar, findPar_nil]
  | .cons l0 n r, l, rest, l', qrest, hsz, hwf, hwq, hn, hS => by
    simp only [Kids.labels, NodupL, List.pairwise_cons] at hn
    by_cases h0 : l0 = l
    · subst h0
      have IH := fun Q hQ => ih rest hsz n false Q hS.1 hwf hQ
      have hnot : l0 ∉ r.labels := fun hm => hn.1 l0 hm rfl
      simp only [Kids.deletePar, ite_true]
      refine ⟨?_, by simp only [Kids.findPar, ite_true]; split <;> exact (IH [] rfl).2⟩
      by_cases he : (Node.delete false n rest).1.isEmptyN = true
      · simp only [he, ite_true]
        by_cases h1 : l' = l0
        · subst h1
          rw [findPar_notin r l' qrest hnot]
          by_cases hq : qrest = rest
          · simp [hq]
          · simp only [true_and, hq, ite_false, Kids.findPar, ite_true]
            have := (IH qrest hwq).1
            rw [find_empty _ _ he] at this
            simp only [hq, ite_false] at this
            exact this
        · have : ¬ l0 = l' := fun e => h1 e.symm
          simp [h1, Kids.findPar, this]
      · simp only [he, Bool.false_eq_true, ite_false, Kids.findPar]
        by_cases h1 : l0 = l'
        · subst h1
          simp only [ite_true, true_and]
          exact (IH qrest hwq).1
        · have : ¬ l' = l0 := fun e => h1 e.symm
          simp [h1, this]
    · have ih2 := fd_par_vec m ih r l rest l' qrest hsz hwf hwq hn.2 hS.2.2
      simp only [Kids.deletePar, h0, ite_false, Kids.findPar]
      refine ⟨?_, ih2.2⟩
      by_cases h1 : l0 = l'
      · have : ¬ (l' = l ∧ qrest = rest) := by rintro ⟨rfl, _⟩; exact h0 h1
        simp [h1, this]
      · simp only [h1, ite_false]; exact ih2.1

theorem fd_end_vec : ∀ (ks : Kids) (l l' : Label), NodupL ks.labels →
    Kids.findPar (Kids.deleteEnd ks l).1 l' [] = (if l' = l then none else Kids.findPar ks l' []) ∧
    (Kids.deleteEnd ks l).2.1 = Kids.findPar ks l []
  | .nil, l, l', _ => by simp [Kids.deleteEnd, findPar_nil]
  | .cons l0 n r, l, l', hn => by
    simp only [Kids.labels, NodupL, List.pairwise_cons] at hn
    by_cases h0 : l0 = l
    · subst h0
      have hnot : l0 ∉ r.labels := fun hm => hn.1 l0 hm rfl
      simp only [Kids.deleteEnd, ite_true, Kids.findPar]
      refine ⟨?_, by cases n; rfl⟩
      by_cases h1 : l' = l0
      · subst h1; simp [findPar_notin r l' [] hnot]
      · have : ¬ l0 = l' := fun e => h1 e.symm
        simp [h1, this]
    · have ih2 := fd_end_vec r l l' hn.2
      simp only [Kids.deleteEnd, h0, ite_false, Kids.findPar]
      refine ⟨?_, ih2.2⟩
      by_cases h1 : l0 = l'
      · have : ¬ l' = l := by rintro rfl; exact h0 h1
        simp [h1, this]
      · simp only [h1, ite_false]; exact ih2.1

theorem fdIH_all : ∀ m, FdIH m := by
  intro m
  induction m with
  | zero => intro P h; omega
  | succ m ih =>
    intro P hP n mark Q hS hwf hwq
    cases n with
    | mk x s dc d wc w ec e ds ws dirty =>
    simp only [Node.Shp] at hS
    obtain ⟨hs1, hs2, _, _, _, _, ndc, nd, nwc, nw, nec, ne, _, _, _, _, ks, kdc, kd, kwc, kw⟩ := hS
    cases P with
    | nil =>
      cases x with
      | none =>
        refine ⟨?_, rfl⟩
        simp only [Node.delete]
        rw [find_flags none s dc d wc w ec e ds ws (dirty || mark) ds ws dirty Q]
        cases Q with
        | nil => simp [Node.find]
        | cons q Q => simp
      | some j =>
        refine ⟨?_, rfl⟩
        simp only [Node.delete]
        cases Q with
        | nil => simp [Node.find]
        | cons q Q => cases q <;> simp [Node.find]
    | cons part rest =>
      cases part with
      | stat p =>
        have hret := (fd_stat_vec m ih s p rest p rest (by omega) hwf hwf hs1 hs2 ks).2
        cases Q with
        | nil => exact ⟨by simp [Node.delete, Node.find], by simpa [Node.delete, Node.find] using hret⟩
        | cons q Q =>
          cases q with
          | par k l => exact ⟨by simp [Node.delete, Node.find], by simpa [Node.delete, Node.find] using hret⟩
          | stat q =>
            have := fd_stat_vec m ih s p rest q Q (by omega) hwf hwq hs1 hs2 ks
            refine ⟨?_, by simpa [Node.delete, Node.find] using hret⟩
            simp only [Node.delete, Node.find, this.1]
            by_cases hc : q = p ∧ Q = rest
            · obtain ⟨rfl, rfl⟩ := hc; simp
            · have : ¬ (Part.stat q :: Q = Part.stat p :: rest) := by
                intro h; injection h with h1 h2; injection h1 with h1; exact hc ⟨h1, h2⟩
              simp [hc, this]
      | par k l =>
        have hwr := wfParts_tail hwf
        have hsz : psize rest < m := by simp only [psize] at hP; omega
        have hinj : ∀ k' l' Q', (Part.par k' l' :: Q' = Part.par k l :: rest) ↔ (k' = k ∧ l' = l ∧ Q' = rest) := by
          intro k' l' Q'
          constructor
          · intro h; injection h with h1 h2; injection h1 with h3 h4; exact ⟨h3, h4, h2⟩
          · rintro ⟨rfl, rfl, rfl⟩; rfl
        -- what delete does to this node, slot by slot, in projection form
        have hdel : Node.delete mark (.mk x s dc d wc w ec e ds ws dirty) (.par k l :: rest) =
            match slotOf k rest.isEmpty with
            | .dc => (.mk x s (Kids.deletePar dc l rest).1 d wc w ec e ds ws (dirty || mark || (Kids.deletePar dc l rest).2.2), (Kids.deletePar dc l rest).2.1)
            | .d  => (.mk x s dc (Kids.deletePar d l rest).1 wc w ec e ds ws (dirty || mark || (Kids.deletePar d l rest).2.2), (Kids.deletePar d l rest).2.1)
            | .wc => (.mk x s dc d (Kids.deletePar wc l rest).1 w ec e ds ws (dirty || mark || (Kids.deletePar wc l rest).2.2), (Kids.deletePar wc l rest).2.1)
            | .w  => (.mk x s dc d wc (Kids.deletePar w l rest).1 ec e ds ws (dirty || mark || (Kids.deletePar w l rest).2.2), (Kids.deletePar w l rest).2.1)
            | .ec => (.mk x s dc d wc w (Kids.deleteEnd ec l).1 e ds ws (dirty || mark || (Kids.deleteEnd ec l).2.2), (Kids.deleteEnd ec l).2.1)
            | .e  => (.mk x s dc d wc w ec (Kids.deleteEnd e l).1 ds ws (dirty || mark || (Kids.deleteEnd e l).2.2), (Kids.deleteEnd e l).2.1) := by
          simp only [Node.delete]
          cases slotOf k rest.isEmpty <;> rfl
        rw [hdel]
        have hrestE : (slotOf k rest.isEmpty = .ec ∨ slotOf k rest.isEmpty = .e) → rest = [] := by
          intro h; cases k <;> cases hr : rest.isEmpty <;> simp [slotOf, hr] at h <;> simpa using hr
        have hQE : ∀ k' (Q' : List Part), (slotOf k' Q'.isEmpty = .ec ∨ slotOf k' Q'.isEmpty = .e) → Q' = [] := by
          intro k' Q' h; cases k' <;> cases hr : Q'.isEmpty <;> simp [slotOf, hr] at h <;> simpa using hr
        refine ⟨?_, ?_⟩
        · -- lookups
          cases Q with
          | nil => split <;> simp [Node.find]
          | cons q Q' =>
            cases q with
            | stat q => split <;> simp [Node.find]
            | par k' l' =>
              have hwq' := wfParts_tail hwq
              simp only [hinj]
              split <;> rename_i hs <;> simp only [Node.find] <;> split <;> rename_i hs' <;>
                first
                | (rw [(fd_par_vec m ih _ l rest l' Q' hsz hwr hwq' (by assumption) (by assumption)).1]
                   by_cases hc : l' = l ∧ Q' = rest
                   · obtain ⟨rfl, rfl⟩ := hc
                     have := slotOf_inj (hs'.trans hs.symm); subst this; simp
                   · have : ¬ (k' = k ∧ l' = l ∧ Q' = rest) := fun h => hc ⟨h.2.1, h.2.2⟩
                     simp [hc, this])
                | (have hre := hrestE (by simp [hs]); have hqe := hQE k' Q' (by simp [hs'])
                   subst hre hqe
                   rw [(fd_end_vec _ l l' (by assumption)).1]
                   by_cases hc : l' = l
                   · subst hc
                     have := slotOf_inj (hs'.trans hs.symm); subst this; simp
                   · have : ¬ (k' = k ∧ l' = l ∧ ([] : List Part) = []) := fun h => hc h.2.1
                     simp [hc, this])
                | (have : ¬ (k' = k ∧ l' = l ∧ Q' = rest) := by
                     rintro ⟨rfl, rfl, rfl⟩; rw [hs] at hs'; cases hs'
                   simp [this])
        · -- returned data
          split <;> rename_i hs <;> simp only [Node.find, hs] <;>
            first
            | exact (fd_par_vec m ih _ l rest l rest hsz hwr hwr (by assumption) (by assumption)).2
            | (have hre := hrestE (by simp [hs]); subst hre
               exact (fd_end_vec _ l l (by assumption)).2)

/-- **Find after delete** (with prune and merge), and delete returns what `find` finds. -/
theorem Node.find_delete (n : Node) (mark : Bool) (P Q : List Part) (hS : Node.Shp n)
    (hP : wfParts P = true) (hQ : wfParts Q = true) :
    Node.find (Node.delete mark n P).1 Q = (if Q = P then none else Node.find n Q) ∧
    (Node.delete mark n P).2 = Node.find n P :=
  fdIH_all (psize P + 1) P (Nat.lt_succ_self _) n mark Q hS hP hQ

#print axioms Node.find_delete
