import Wayfind.Proofs.Oci1

/-! Reading an OCI endpoint URL is unique (C17): segment patterns of the fitted routes. -/

abbrev sV2 : Bytes := [118, 50]
abbrev sBlobs : Bytes := [98, 108, 111, 98, 115]
abbrev sManifests : Bytes := [109, 97, 110, 105, 102, 101, 115, 116, 115]
abbrev sTags : Bytes := [116, 97, 103, 115]
abbrev sList : Bytes := [108, 105, 115, 116]
abbrev sUploads : Bytes := [117, 112, 108, 111, 97, 100, 115]

def lN : Label := {name := [110, 97, 109, 101], cons := [110, 97, 109, 101]}
def lD : Label := {name := [100, 105, 103, 101, 115, 116]}
def lR : Label := {name := [114, 101, 102, 101, 114, 101, 110, 99, 101]}

theorem rs_v2 (x : Bytes) : rsplit ([47, 118, 50, 47] ++ x) = rsplit x ++ [sV2, []] := by
  have : ([47, 118, 50, 47] ++ x : Bytes) = [] ++ 47 :: (sV2 ++ 47 :: x) := rfl
  rw [this, rsplit_append_slash, rsplit_append_slash, rsplit_slashfree sV2 (by decide)]
  simp [rsplit, splitS]

theorem rs_mid (B : Bytes) (hB : (47 : Byte) ∉ B) (v y : Bytes) :
    rsplit (v ++ (47 :: (B ++ 47 :: y))) = rsplit y ++ [B] ++ rsplit v := by
  rw [rsplit_append_slash, rsplit_append_slash, rsplit_slashfree B hB]

theorem rs_end (B : Bytes) (hB : (47 : Byte) ∉ B) (v : Bytes) : rsplit (v ++ (47 :: B)) = [B] ++ rsplit v := by
  rw [rsplit_append_slash, rsplit_slashfree B hB]

theorem rs_nil : rsplit [] = [[]] := rfl

/-- the segments (last first) of a path that the route `/v2/{*name}/B/{last}` fits -/
theorem rs_two (B : Bytes) (hB : (47 : Byte) ∉ B) (v1 v2 : Bytes) (h2 : (47 : Byte) ∉ v2) :
    rsplit ([47, 118, 50, 47] ++ (v1 ++ (47 :: (B ++ 47 :: v2)))) = v2 :: B :: (rsplit v1 ++ [sV2, []]) := by
  rw [rs_v2, rs_mid B hB, rsplit_slashfree v2 h2]; simp

/-- … with a trailing slash -/
theorem rs_two_s (B : Bytes) (hB : (47 : Byte) ∉ B) (v1 v2 : Bytes) (h2 : (47 : Byte) ∉ v2) :
    rsplit ([47, 118, 50, 47] ++ (v1 ++ (47 :: (B ++ 47 :: (v2 ++ [47]))))) = [] :: v2 :: B :: (rsplit v1 ++ [sV2, []]) := by
  have : (v2 ++ [47] : Bytes) = v2 ++ 47 :: [] := rfl
  rw [rs_v2, rs_mid B hB, this, rsplit_append_slash, rsplit_slashfree v2 h2, rs_nil]; simp

/-- `/v2/{*name}/B1/B2` -/
theorem rs_lit2 (B1 B2 : Bytes) (h1 : (47 : Byte) ∉ B1) (h2 : (47 : Byte) ∉ B2) (v1 : Bytes) :
    rsplit ([47, 118, 50, 47] ++ (v1 ++ (47 :: (B1 ++ 47 :: B2)))) = B2 :: B1 :: (rsplit v1 ++ [sV2, []]) :=
  rs_two B1 h1 v1 B2 h2

theorem rs_lit2_s (B1 B2 : Bytes) (h1 : (47 : Byte) ∉ B1) (h2 : (47 : Byte) ∉ B2) (v1 : Bytes) :
    rsplit ([47, 118, 50, 47] ++ (v1 ++ (47 :: (B1 ++ 47 :: (B2 ++ [47]))))) = [] :: B2 :: B1 :: (rsplit v1 ++ [sV2, []]) :=
  rs_two_s B1 h1 v1 B2 h2

/-- `/v2/{*name}/B1/B2/{last}` -/
theorem rs_three (B1 B2 : Bytes) (h1 : (47 : Byte) ∉ B1) (hb2 : (47 : Byte) ∉ B2) (v1 v2 : Bytes) (h2 : (47 : Byte) ∉ v2) :
    rsplit ([47, 118, 50, 47] ++ (v1 ++ (47 :: (B1 ++ 47 :: (B2 ++ 47 :: v2))))) = v2 :: B2 :: B1 :: (rsplit v1 ++ [sV2, []]) := by
  rw [rs_v2, rs_mid B1 h1, rsplit_append_slash, rsplit_slashfree v2 h2, rsplit_slashfree B2 hb2]; simp

theorem rs_three_s (B1 B2 : Bytes) (h1 : (47 : Byte) ∉ B1) (hb2 : (47 : Byte) ∉ B2) (v1 v2 : Bytes) (h2 : (47 : Byte) ∉ v2) :
    rsplit ([47, 118, 50, 47] ++ (v1 ++ (47 :: (B1 ++ 47 :: (B2 ++ 47 :: (v2 ++ [47])))))) =
      [] :: v2 :: B2 :: B1 :: (rsplit v1 ++ [sV2, []]) := by
  have : (v2 ++ [47] : Bytes) = v2 ++ 47 :: [] := rfl
  rw [rs_v2, rs_mid B1 h1, rsplit_append_slash, this, rsplit_append_slash, rsplit_slashfree v2 h2, rsplit_slashfree B2 hb2, rs_nil]
  simp

theorem rs_root : rsplit [47, 118, 50] = [sV2, []] := by decide
theorem rs_root_s : rsplit [47, 118, 50, 47] = [[], sV2, []] := by decide
