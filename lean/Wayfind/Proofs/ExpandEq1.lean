import Wayfind.Model.Parser
import Wayfind.Spec.Expand

/-! Stage 1 of the parser theorem, part 1: algebra of expansion lists, the escape pairing, fuel of the grammar. -/

/-- every prefix extended by every suffix, prefixes more significant -/
def prodB (D E : List Bytes) : List Bytes := D.flatMap (fun d => E.map (d ++ ·))

theorem prodB_unit (D : List Bytes) : prodB D [[]] = D := by
  induction D with
  | nil => rfl
  | cons d ds ih => simp only [prodB, List.flatMap_cons, List.map_cons, List.append_nil, List.map_nil] at ih ⊢; rw [ih]; rfl

theorem prodB_single (D : List Bytes) (x : Bytes) (E : List Bytes) :
    prodB D (E.map (x ++ ·)) = prodB (D.map (· ++ x)) E := by
  induction D with
  | nil => rfl
  | cons d ds ih =>
    simp only [prodB, List.flatMap_cons, List.map_cons, List.map_map] at ih ⊢
    rw [ih]
    congr 1
    apply List.map_congr_left
    intro e _
    simp [List.append_assoc]

theorem prefix_flatMap (d : Bytes) (B : List Bytes) : ∀ (A : List Bytes),
    (A.map (d ++ ·)).flatMap (fun x => B.map (x ++ ·)) = (A.flatMap (fun a => B.map (a ++ ·))).map (d ++ ·)
  | [] => rfl
  | a :: as => by
    simp only [List.map_cons, List.flatMap_cons, List.map_append, List.map_map]
    rw [prefix_flatMap d B as]
    congr 1
    apply List.map_congr_left
    intro b _
    simp [List.append_assoc]

theorem prodB_assoc (D A B : List Bytes) : prodB (prodB D A) B = prodB D (prodB A B) := by
  induction D with
  | nil => rfl
  | cons d ds ih =>
    simp only [prodB, List.flatMap_cons, List.flatMap_append] at ih ⊢
    rw [ih, prefix_flatMap]

theorem productStep_eq (D I : List Bytes) : productStep D I = prodB D (I ++ [[]]) := by
  simp only [productStep, prodB, List.map_append, List.map_cons, List.append_nil, List.map_nil]

/-- does the escape pairing of the text end on a lone backslash? -/
def endsLone : Bytes → Bool
  | [] => false
  | [92] => true
  | 92 :: _ :: rest => endsLone rest
  | _ :: rest => endsLone rest

theorem groupBody_endsLone : ∀ (n : Nat) (d : Nat) (s g r : Bytes), s.length ≤ n → groupBody d s = some (g, r) →
    endsLone g = false ∧ endsLone s = endsLone r := by
  intro n
  induction n with
  | zero =>
    intro d s g r hn h
    have : s = [] := List.eq_nil_of_length_eq_zero (by omega)
    subst this; simp [groupBody] at h
  | succ n ih =>
    intro d s g r hn h
    match s, hn, h with
    | [], _, h => simp [groupBody] at h
    | [b], _, h =>
      by_cases h92 : b = 92
      · subst h92; simp [groupBody] at h
      · by_cases h40 : b = 40
        · subst h40; simp [groupBody] at h
        · by_cases h41 : b = 41
          · subst h41
            simp only [groupBody] at h
            split at h
            · injection h with h; injection h with h1 h2; subst h1 h2; simp [endsLone]
            · simp [groupBody] at h
          · rw [groupBody] at h
            · simp [groupBody] at h
            all_goals simp_all
    | b :: c :: rest, hn, h =>
      simp only [List.length_cons] at hn
      by_cases h92 : b = 92
      · subst h92
        simp only [groupBody, Option.map_eq_some_iff] at h
        obtain ⟨⟨g', r'⟩, hg, he⟩ := h
        injection he with h1 h2; subst h1 h2
        have := ih d rest g' r' (by omega) hg
        simp only [endsLone]; exact this
      · by_cases h40 : b = 40
        · subst h40
          simp only [groupBody, Option.map_eq_some_iff] at h
          obtain ⟨⟨g', r'⟩, hg, he⟩ := h
          injection he with h1 h2; subst h1 h2
          have := ih (d + 1) (c :: rest) g' r' (by simp only [List.length_cons]; omega) hg
          rw [endsLone, endsLone]
          · exact this
          all_goals simp
        · by_cases h41 : b = 41
          · subst h41
            simp only [groupBody] at h
            split at h
            · injection h with h; injection h with h1 h2; subst h1 h2
              rw [endsLone]
              · simp [endsLone]
              all_goals simp
            · simp only [Option.map_eq_some_iff] at h
              obtain ⟨⟨g', r'⟩, hg, he⟩ := h
              injection he with h1 h2; subst h1 h2
              have := ih (d - 1) (c :: rest) g' r' (by simp only [List.length_cons]; omega) hg
              rw [endsLone, endsLone]
              · exact this
              all_goals simp
          · rw [groupBody] at h
            · simp only [Option.map_eq_some_iff] at h
              obtain ⟨⟨g', r'⟩, hg, he⟩ := h
              injection he with h1 h2; subst h1 h2
              have := ih d (c :: rest) g' r' (by simp only [List.length_cons]; omega) hg
              rw [endsLone, endsLone]
              · exact this
              all_goals simp_all
            all_goals simp_all
