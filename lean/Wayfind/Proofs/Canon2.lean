import Wayfind.Proofs.Canon1
import Wayfind.Model.Display

/-! Canonical form, part 2: `delete` keeps the tree maximally compressed (the merge in `delete_static`). -/

theorem compress_setDirty : ∀ (n : Node), n.setDirty.compress? = n.compress?
  | .mk _ _ _ _ _ _ _ _ _ _ _ => by simp [Node.setDirty, Node.compress?]
theorem Cmp_setDirty : ∀ (n : Node), Node.Cmp n.setDirty ↔ Node.Cmp n
  | .mk _ _ _ _ _ _ _ _ _ _ _ => by simp [Node.setDirty, Node.Cmp]

def DelCmpIH (m : Nat) : Prop :=
  ∀ P, psize P < m → ∀ (n : Node) (mark : Bool), Node.Shp n → Node.Cmp n → wfParts P = true →
    Node.Cmp (Node.delete mark n P).1

theorem Cmpk_sub_app (A : Kids) (l : Label) (n : Node) (B : Kids) (h : Kids.Cmpk (Kids.app A (.cons l n B))) :
    Kids.Cmpk (Kids.app A B) := by
  rw [Kids.Cmpk_app, Cmpk_cons_iff] at h; rw [Kids.Cmpk_app]; exact ⟨h.1, h.2.2⟩

theorem delcmp_par_vec (m : Nat) (ih : DelCmpIH m) (ks : Kids) (l : Label) (rest : List Part)
    (hsz : psize rest < m) (hwf : wfParts rest = true) (h0 : Kids.Shpk ks) (h : Kids.Cmpk ks) :
    Kids.Cmpk (Kids.deletePar ks l rest).1 := by
  rcases deletePar_cases ks l rest with ⟨A, n, B, hks, _, hres⟩ | ⟨_, hres⟩
  · subst hks
    rw [hres]
    have hsub := Cmpk_sub_app A l n B h
    rw [Kids.Shpk_app, Shpk_cons_iff] at h0
    rw [Kids.Cmpk_app, Cmpk_cons_iff] at h
    have g := ih rest hsz n false h0.2.1 h.2.1 hwf
    cases he : (Node.delete false n rest).1.isEmptyN with
    | true => simpa using hsub
    | false =>
      simp only [Bool.false_eq_true, ite_false]
      rw [Kids.Cmpk_app, Cmpk_cons_iff]; exact ⟨h.1, g, h.2.2⟩
  · rw [hres]; exact h

theorem delcmp_end_vec (ks : Kids) (l : Label) (h : Kids.Cmpk ks) : Kids.Cmpk (Kids.deleteEnd ks l).1 := by
  rcases deleteEnd_cases ks l with ⟨A, n, B, hks, _, hres⟩ | ⟨_, hres⟩
  · subst hks; rw [hres]; exact Cmpk_sub_app A l n B h
  · rw [hres]; exact h

theorem delcmp_stat_vec (m : Nat) (ih : DelCmpIH m) (ks : Kids) (p : Bytes) (rest : List Part)
    (hsz : psize (.stat p :: rest) ≤ m) (hwf : wfParts (.stat p :: rest) = true)
    (h0 : Kids.Shpk ks) (hne : Kids.All (fun l _ => l.pre ≠ []) ks)
    (hc : Kids.All (fun _ n => n.compress? = none) ks) (h : Kids.Cmpk ks) :
    Kids.All (fun _ n => n.compress? = none) (Kids.deleteStatic ks p rest).1 ∧ Kids.Cmpk (Kids.deleteStatic ks p rest).1 := by
  rcases deleteStatic_cases ks p rest with ⟨A, l, n, B, hks, _, hres⟩ | hres
  · subst hks
    rw [hres]
    rw [Kids.Shpk_app, Shpk_cons_iff] at h0
    rw [Kids.All_app, All_cons_iff] at hne hc
    rw [Kids.Cmpk_app, Cmpk_cons_iff] at h
    have hlpos : 0 < l.pre.length := List.length_pos_iff.mpr hne.2.1
    have g := ih (below p l.pre.length rest) (by have := psize_below_lt p l.pre.length rest hlpos; omega)
      n true h0.2.1 h.2.1 (wfParts_below p _ rest hwf)
    simp only [afterAt, afterStatic]
    cases he : (Node.delete true n (below p l.pre.length rest)).1.isEmptyN with
    | true =>
      simp only [ite_true]
      exact ⟨by rw [Kids.All_app]; exact ⟨hc.1, hc.2.2⟩, by rw [Kids.Cmpk_app]; exact ⟨h.1, h.2.2⟩⟩
    | false =>
      simp only [Bool.false_eq_true, ite_false]
      cases hcm : (Node.delete true n (below p l.pre.length rest)).1.compress? with
      | none =>
        simp only
        exact ⟨by rw [Kids.All_app, All_cons_iff]; exact ⟨hc.1, hcm, hc.2.2⟩,
               by rw [Kids.Cmpk_app, Cmpk_cons_iff]; exact ⟨h.1, g, h.2.2⟩⟩
      | some lgg =>
        obtain ⟨lg, gg⟩ := lgg
        obtain ⟨ds', ws', dirty', hn'⟩ := compress_some hcm
        rw [hn'] at g
        simp only [Node.Cmp, Kids.All, Kids.Cmpk] at g
        simp only
        refine ⟨?_, ?_⟩
        · rw [Kids.All_app, All_cons_iff]
          exact ⟨hc.1, by rw [compress_setDirty]; exact g.1.1, hc.2.2⟩
        · rw [Kids.Cmpk_app, Cmpk_cons_iff]
          exact ⟨h.1, (Cmp_setDirty gg).2 g.2.1.1, h.2.2⟩
  · rw [hres]; exact ⟨hc, h⟩

theorem delCmpIH_all : ∀ m, DelCmpIH m := by
  intro m
  induction m with
  | zero => intro P h; omega
  | succ m ih =>
    intro P hP n mark hS hC hwf
    cases n with
    | mk x s dc d wc w ec e ds ws dirty =>
    simp only [Node.Shp] at hS
    obtain ⟨hs1, _, _, _, _, _, _, _, _, _, _, _, _, _, _, _, ks, kdc, kd, kwc, kw⟩ := hS
    simp only [Node.Cmp] at hC
    obtain ⟨c0, cs, cdc, cd, cwc, cw⟩ := hC
    cases P with
    | nil => cases x <;> simp only [Node.delete, Node.Cmp] <;> exact ⟨c0, cs, cdc, cd, cwc, cw⟩
    | cons part rest =>
      cases part with
      | stat p =>
        obtain ⟨a1, a2⟩ := delcmp_stat_vec m ih s p rest (by omega) hwf ks hs1 c0 cs
        simp only [Node.delete, Node.Cmp]
        exact ⟨a1, a2, cdc, cd, cwc, cw⟩
      | par k l =>
        have hwr := wfParts_tail hwf
        have hsz : psize rest < m := by simp only [psize] at hP; omega
        simp only [Node.delete]
        cases hsl : slotOf k rest.isEmpty <;> simp only [Node.Cmp]
        · exact ⟨c0, cs, delcmp_par_vec m ih dc l rest hsz hwr kdc cdc, cd, cwc, cw⟩
        · exact ⟨c0, cs, cdc, delcmp_par_vec m ih d l rest hsz hwr kd cd, cwc, cw⟩
        · exact ⟨c0, cs, cdc, cd, delcmp_par_vec m ih wc l rest hsz hwr kwc cwc, cw⟩
        · exact ⟨c0, cs, cdc, cd, cwc, delcmp_par_vec m ih w l rest hsz hwr kw cw⟩
        · exact ⟨c0, cs, cdc, cd, cwc, cw⟩
        · exact ⟨c0, cs, cdc, cd, cwc, cw⟩

theorem Node.delete_Cmp (n : Node) (mark : Bool) (P : List Part) (hS : Node.Shp n) (hC : Node.Cmp n)
    (hwf : wfParts P = true) : Node.Cmp (Node.delete mark n P).1 :=
  delCmpIH_all (psize P + 1) P (Nat.lt_succ_self _) n mark hS hC hwf

/-! ### `optimize` keeps it -/

theorem Cmpk_iff_All : ∀ (ks : Kids), Kids.Cmpk ks ↔ Kids.All (fun _ n => Node.Cmp n) ks
  | .nil => by simp [Kids.Cmpk, Kids.All]
  | .cons l n r => by simp [Kids.Cmpk, Kids.All, Cmpk_iff_All r]


theorem single_insertSorted_nil (l : Label) (n : Node) : Kids.insertSorted l n .nil = .cons l n .nil := rfl

theorem len_insertSorted (l : Label) (n : Node) : ∀ (ks : Kids), (Kids.insertSorted l n ks).len = ks.len + 1
  | .nil => rfl
  | .cons l' n' r => by
    simp only [Kids.insertSorted]
    split
    · simp [Kids.len]
    · simp [Kids.len, len_insertSorted l n r]

theorem len_sort : ∀ (ks : Kids), (Kids.sort ks).len = ks.len
  | .nil => rfl
  | .cons l n r => by simp [Kids.sort, len_insertSorted, len_sort r, Kids.len]

theorem len_optimizeAll : ∀ (ks : Kids), (Kids.optimizeAll ks).len = ks.len
  | .nil => rfl
  | .cons l n r => by simp [Kids.optimizeAll, Kids.len, len_optimizeAll r]

theorem single_none_iff_len : ∀ (ks : Kids), ks.single = none ↔ ks.len ≠ 1
  | .nil => by simp [Kids.single, Kids.len]
  | .cons _ _ .nil => by simp [Kids.single, Kids.len]
  | .cons _ _ (.cons _ _ _) => by simp [Kids.single, Kids.len]

theorem compress_optimize : ∀ (n : Node), n.compress? = none → (Node.optimize n).compress? = none
  | .mk x s dc d wc w ec e ds ws dirty, h => by
    simp only [Node.optimize]
    split
    · exact h
    · simp only [Node.compress?, isNil_os] at h ⊢
      split
      · rename_i hall
        simp only [hall, ite_true] at h
        rw [single_none_iff_len] at h ⊢
        rw [len_sort, len_optimizeAll]; exact h
      · rfl

mutual
theorem Node.optimize_Cmp : ∀ (n : Node), Node.Cmp n → Node.Cmp (Node.optimize n)
  | .mk x s dc d wc w ec e ds ws dirty, h => by
    simp only [Node.optimize]
    split
    · exact h
    · simp only [Node.Cmp] at h ⊢
      obtain ⟨c0, cs, cdc, cd, cwc, cw⟩ := h
      have srt : ∀ v : Kids, Kids.Cmpk (Kids.optimizeAll v) → Kids.Cmpk (Kids.optimizeAll v).sort := fun v hv => by
        rw [Cmpk_iff_All] at hv ⊢; exact sort_All _ hv
      refine ⟨?_, srt s (Kids.optimizeAll_Cmpk s cs), srt dc (Kids.optimizeAll_Cmpk dc cdc), srt d (Kids.optimizeAll_Cmpk d cd),
        srt wc (Kids.optimizeAll_Cmpk wc cwc), srt w (Kids.optimizeAll_Cmpk w cw)⟩
      exact sort_All _ (optimizeAll_All_node (P := fun n => n.compress? = none) compress_optimize s c0)
theorem Kids.optimizeAll_Cmpk : ∀ (ks : Kids), Kids.Cmpk ks → Kids.Cmpk (Kids.optimizeAll ks)
  | .nil, _ => trivial
  | .cons l n r, h => ⟨Node.optimize_Cmp n h.1, Kids.optimizeAll_Cmpk r h.2⟩
end
