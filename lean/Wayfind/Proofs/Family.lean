import Wayfind.Proofs.Registry11
import Wayfind.Proofs.SameLive
import Wayfind.Proofs.Unique5

/-! Clone families. `Call.clone` is a step of every history (`Reachable`, `Live`), so all theorems about reachable
routers cover clones, clones of clones, and whatever is done to them afterwards. Here: what an API call *returns*
depends only on the live templates and the registry — so a router that went through any number of `clone` steps
answers every later call exactly like one that never did (and like one built independently with the same templates). -/

/-- what a caller sees of one call -/
inductive Outcome where
  | constraint (r : Option ConstraintErr)
  | insert (r : Option InsertErr)
  | delete (r : Except DeleteErr Nat)
  | cloned

def Outcome.isCloned : Outcome → Bool | .cloned => true | _ => false

def Router.outcome (r : Router) : Call → Outcome
  | .constraint n ty => .constraint (match r.constraint n ty with | .ok _ => none | .error e => some e)
  | .insert t d => .insert (match r.insert t d with | .ok _ => none | .error e => some e)
  | .delete t => .delete (r.delete t).1
  | .clone => .cloned

/-- same set of live (template, data) pairs -/
def SameTD (L1 L2 : List LiveT) : Prop :=
  (∀ lt ∈ L1, ∃ lt' ∈ L2, lt'.template = lt.template ∧ lt'.data = lt.data) ∧
  (∀ lt ∈ L2, ∃ lt' ∈ L1, lt'.template = lt.template ∧ lt'.data = lt.data)

theorem SameTD.symm {L1 L2 : List LiveT} (h : SameTD L1 L2) : SameTD L2 L1 := ⟨h.2, h.1⟩

/-- lookups name the same template in two routers with the same live templates -/
theorem find_template_sub {r1 r2 : Router} {L1 L2 : List LiveT} (h1 : Reg r1.root L1) (h2 : Reg r2.root L2)
    (h12 : ∀ lt ∈ L1, ∃ lt' ∈ L2, lt'.template = lt.template ∧ lt'.data = lt.data)
    (P : List Part) (hP : wfParts P = true) (i : Info) (hf : Node.find r1.root P = some i) :
    ∃ j, Node.find r2.root P = some j ∧ j.template = i.template ∧ j.data = i.data := by
  obtain ⟨lt, hlt, e, he, hk, hok⟩ := h1.sound P i hP hf
  obtain ⟨lt', hlt', ht, hd⟩ := h12 lt hlt
  have hexps : lt'.exps = lt.exps := by
    have a := h2.parsed lt' hlt'
    have b := h1.parsed lt hlt
    rw [ht, b] at a; injection a with a; exact a.symm
  obtain ⟨j, hfj, hokj⟩ := h2.complete lt' hlt' e (by rw [hexps]; exact he)
  exact ⟨j, by rw [← hk]; exact hfj, by rw [hokj.1, hok.1, ht], by rw [hokj.2.1, hok.2.1, hd]⟩

theorem find_template_same {r1 r2 : Router} {L1 L2 : List LiveT} (h1 : Reg r1.root L1) (h2 : Reg r2.root L2)
    (h : SameTD L1 L2) (P : List Part) (hP : wfParts P = true) :
    (Node.find r1.root P).map (·.template) = (Node.find r2.root P).map (·.template) := by
  cases hf1 : Node.find r1.root P with
  | some i =>
    obtain ⟨j, hfj, ht, _⟩ := find_template_sub h1 h2 h.1 P hP i hf1
    simp [hfj, ht]
  | none =>
    cases hf2 : Node.find r2.root P with
    | none => rfl
    | some j =>
      obtain ⟨i, hfi, _, _⟩ := find_template_sub h2 h1 h.2 P hP j hf2
      rw [hf1] at hfi; cases hfi

theorem conflictsOf_same {r1 r2 : Router} {L1 L2 : List LiveT} (h1 : Reg r1.root L1) (h2 : Reg r2.root L2)
    (h : SameTD L1 L2) : ∀ (ts : List (Bytes × List Part)), (∀ e ∈ ts, wfParts e.2 = true) →
    conflictsOf r1.root ts = conflictsOf r2.root ts
  | [], _ => rfl
  | e :: rest, hwf => by
    unfold conflictsOf
    simp only [List.filterMap_cons]
    have := find_template_same h1 h2 h e.2 (hwf e (by simp))
    have ih := conflictsOf_same h1 h2 h rest (fun y hy => hwf y (by simp [hy]))
    unfold conflictsOf at ih
    rw [this, ih]

theorem mismatchOf_same {r1 r2 : Router} {L1 L2 : List LiveT} (h1 : Reg r1.root L1) (h2 : Reg r2.root L2)
    (h : SameTD L1 L2) (t : Bytes) (ts : List (Bytes × List Part)) (hwf : ∀ e ∈ ts, wfParts e.2 = true) :
    mismatchOf r1.root t ts = mismatchOf r2.root t ts := by
  unfold mismatchOf
  apply findSome?_congr'
  intro e he
  have hs := find_template_same h1 h2 h e.2 (hwf e he)
  cases hf1 : Node.find r1.root e.2 <;> cases hf2 : Node.find r2.root e.2 <;> simp [hf1, hf2] at hs ⊢
  rw [hs]

theorem anyNone_same {r1 r2 : Router} {L1 L2 : List LiveT} (h1 : Reg r1.root L1) (h2 : Reg r2.root L2)
    (h : SameTD L1 L2) : ∀ (ts : List (Bytes × List Part)), (∀ e ∈ ts, wfParts e.2 = true) →
    ts.any (fun e => (Node.find r1.root e.2).isNone) = ts.any (fun e => (Node.find r2.root e.2).isNone)
  | [], _ => rfl
  | e :: rest, hwf => by
    simp only [List.any_cons]
    have hs := find_template_same h1 h2 h e.2 (hwf e (by simp))
    have ih := anyNone_same h1 h2 h rest (fun y hy => hwf y (by simp [hy]))
    have : (Node.find r1.root e.2).isNone = (Node.find r2.root e.2).isNone := by
      cases hf1 : Node.find r1.root e.2 <;> cases hf2 : Node.find r2.root e.2 <;> simp [hf1, hf2] at hs ⊢
    rw [this, ih]

/-- a live template is in the list once -/
theorem live_data_unique {r : Router} {L : List LiveT} (h : Reg r.root L) (a b : LiveT) (ha : a ∈ L) (hb : b ∈ L)
    (ht : a.template = b.template) (hne : a.exps ≠ []) : a.data = b.data := by
  have hexps : a.exps = b.exps := by
    have x := h.parsed a ha
    have y := h.parsed b hb
    rw [ht, y] at x; injection x with x; exact x.symm
  obtain ⟨e, he⟩ := List.exists_mem_of_ne_nil _ hne
  obtain ⟨i, hfi, hoki⟩ := h.complete a ha e he
  obtain ⟨j, hfj, hokj⟩ := h.complete b hb e (by rw [← hexps]; exact he)
  rw [hfi] at hfj; injection hfj with hfj
  rw [← hoki.2.1, ← hokj.2.1, hfj]

/-- **what a call returns depends only on the live templates and the registry** -/
theorem outcome_same {r1 r2 : Router} {L1 L2 : List LiveT} (h1 : Live r1 L1) (h2 : Live r2 L2) (h : SameTD L1 L2)
    (hreg : r1.registry = r2.registry) (c : Call) : r1.outcome c = r2.outcome c := by
  have g1 := h1.rinv.reg
  have g2 := h2.rinv.reg
  cases c with
  | clone => rfl
  | constraint n ty =>
    simp only [Router.outcome, Router.constraint, hreg]
    cases List.find? (fun e => e.1 == n) r2.registry <;> rfl
  | insert t d =>
    simp only [Router.outcome, Router.insert, hreg]
    cases hp : parseTemplates t with
    | error e => rfl
    | ok ts =>
      simp only []
      rw [conflictsOf_same g1 g2 h ts (parse_wf hp)]
      cases firstUnknown (fun c => r2.registry.any (·.1 == c)) ts with
      | some c => rfl
      | none => cases conflictsOf r2.root ts <;> rfl
  | delete t =>
    simp only [Router.outcome]
    by_cases hl : ∃ lt ∈ L1, lt.template = t
    · obtain ⟨lt, hlt, rfl⟩ := hl
      obtain ⟨lt', hlt', ht, hd⟩ := h.1 lt hlt
      rw [(delete_live_api h1 lt hlt).1, ← ht, (delete_live_api h2 lt' hlt').1, hd]
    · have hl2 : ¬ ∃ lt ∈ L2, lt.template = t := by
        rintro ⟨lt', hlt', ht'⟩
        obtain ⟨lt, hlt, ht, _⟩ := h.2 lt' hlt'
        exact hl ⟨lt, hlt, by rw [ht, ht']⟩
      -- neither router holds `t`: both calls stop in validation, on the same branch
      have e1 := (delete_not_live h1 t (fun lt hlt heq => hl ⟨lt, hlt, heq⟩)).1
      have e2 := (delete_not_live h2 t (fun lt hlt heq => hl2 ⟨lt, hlt, heq⟩)).1
      unfold Router.delete at e1 e2 ⊢
      cases hp : parseTemplates t with
      | error e => rfl
      | ok ts =>
        simp only [hp] at e1 e2 ⊢
        have hm := mismatchOf_same g1 g2 h t ts (parse_wf hp)
        have ha := anyNone_same g1 g2 h ts (parse_wf hp)
        rw [← hm, ← ha]
        cases hmm : mismatchOf r1.root t ts with
        | some ins => rfl
        | none =>
          simp only []
          by_cases hany : ts.any (fun e => (Node.find r1.root e.2).isNone) = true
          · simp only [hany, ite_true]
          · have hany' : ts.any (fun e => (Node.find r1.root e.2).isNone) = false := by simpa using hany
            obtain ⟨lt, hlt, hlt'⟩ := validated_is_live g1 hp hmm hany'
            exact absurd ⟨lt, hlt, hlt'⟩ hl

theorem filter_sameTD {L1 L2 : List LiveT} (h : SameTD L1 L2) (t : Bytes) :
    SameTD (L1.filter (fun lt => lt.template != t)) (L2.filter (fun lt => lt.template != t)) := by
  constructor
  · intro lt hlt
    obtain ⟨a, b⟩ := List.mem_filter.1 hlt
    obtain ⟨lt', hlt', ht, hd⟩ := h.1 lt a
    exact ⟨lt', List.mem_filter.2 ⟨hlt', by rw [ht]; exact b⟩, ht, hd⟩
  · intro lt hlt
    obtain ⟨a, b⟩ := List.mem_filter.1 hlt
    obtain ⟨lt', hlt', ht, hd⟩ := h.2 lt a
    exact ⟨lt', List.mem_filter.2 ⟨hlt', by rw [ht]; exact b⟩, ht, hd⟩

/-- … and the same call leaves the same live templates and the same registry behind -/
theorem step_same {r1 r2 : Router} {L1 L2 : List LiveT} (h1 : Live r1 L1) (h2 : Live r2 L2) (h : SameTD L1 L2)
    (hreg : r1.registry = r2.registry) (c : Call) :
    SameTD (liveAfter r1 L1 c) (liveAfter r2 L2 c) ∧ (r1.step c).registry = (r2.step c).registry := by
  have g1 := h1.rinv.reg
  have g2 := h2.rinv.reg
  have hout := outcome_same h1 h2 h hreg c
  cases c with
  | clone => exact ⟨h, hreg⟩
  | constraint n ty =>
    refine ⟨h, ?_⟩
    simp only [Router.step, Router.constraint, hreg]
    cases List.find? (fun e => e.1 == n) r2.registry with
    | some e => exact hreg
    | none => rfl
  | insert t d =>
    simp only [Router.outcome] at hout
    simp only [liveAfter, Router.step]
    cases hi1 : r1.insert t d with
    | error e1 =>
      cases hi2 : r2.insert t d with
      | error e2 => exact ⟨h, hreg⟩
      | ok r2' => rw [hi1, hi2] at hout; cases hout
    | ok r1' =>
      cases hi2 : r2.insert t d with
      | error e2 => rw [hi1, hi2] at hout; cases hout
      | ok r2' =>
        obtain ⟨ts, hp, _, _, rfl⟩ := (Router.insert_ok_iff r1 r1' t d).1 hi1
        obtain ⟨ts', hp', _, _, rfl⟩ := (Router.insert_ok_iff r2 r2' t d).1 hi2
        rw [hp] at hp'; injection hp' with hp'; subst hp'
        simp only [hp]
        refine ⟨⟨?_, ?_⟩, ?_⟩
        · intro lt hlt
          rcases List.mem_append.1 hlt with hlt | hlt
          · obtain ⟨lt', hlt', a, b⟩ := h.1 lt hlt
            exact ⟨lt', List.mem_append.2 (Or.inl hlt'), a, b⟩
          · exact ⟨lt, List.mem_append.2 (Or.inr hlt), rfl, rfl⟩
        · intro lt hlt
          rcases List.mem_append.1 hlt with hlt | hlt
          · obtain ⟨lt', hlt', a, b⟩ := h.2 lt hlt
            exact ⟨lt', List.mem_append.2 (Or.inl hlt'), a, b⟩
          · exact ⟨lt, List.mem_append.2 (Or.inr hlt), rfl, rfl⟩
        · simp only [Router.insertOk]
          split <;> exact hreg
  | delete t =>
    simp only [liveAfter, Router.step]
    cases hp : parseTemplates t with
    | error e => simp only [Router.delete, hp]; exact ⟨h, hreg⟩
    | ok ts =>
      simp only []
      have hm := mismatchOf_same g1 g2 h t ts (parse_wf hp)
      have ha := anyNone_same g1 g2 h ts (parse_wf hp)
      rw [← hm, ← ha]
      have hr : ∀ (r : Router), (r.delete t).2.registry = r.registry := by
        intro r
        unfold Router.delete
        simp only [hp]
        split
        · rfl
        · split
          · rfl
          · exact (deleteOk_rc_next r t ts).2.2
      refine ⟨?_, by rw [hr, hr, hreg]⟩
      split
      · exact filter_sameTD h t
      · exact h

/-- the outcomes of a list of calls -/
def runOut : Router → List Call → List Outcome
  | _, [] => []
  | r, c :: cs => r.outcome c :: runOut (r.step c) cs

def notClone : Call → Bool | .clone => false | _ => true

theorem family_sim : ∀ (calls : List Call) (r1 r2 : Router) (L1 L2 : List LiveT), Live r1 L1 → Live r2 L2 → SameTD L1 L2 →
    r1.registry = r2.registry →
    (runOut r1 calls).filter (fun o => !o.isCloned) = runOut r2 (calls.filter notClone) ∧
    ∃ L1' L2', Live (calls.foldl Router.step r1) L1' ∧ Live ((calls.filter notClone).foldl Router.step r2) L2' ∧ SameTD L1' L2' ∧
      (calls.foldl Router.step r1).registry = ((calls.filter notClone).foldl Router.step r2).registry
  | [], r1, r2, L1, L2, h1, h2, h, hreg => ⟨rfl, L1, L2, h1, h2, h, hreg⟩
  | c :: cs, r1, r2, L1, L2, h1, h2, h, hreg => by
    cases hc : c with
    | clone =>
      have ih := family_sim cs (r1.step .clone) r2 (liveAfter r1 L1 .clone) L2 (h1.step .clone) h2 h hreg
      simp only [runOut, Router.outcome, List.filter_cons, notClone, List.foldl_cons]
      exact ⟨by simpa [Outcome.isCloned] using ih.1, ih.2⟩
    | constraint n ty =>
      have hs := step_same h1 h2 h hreg (.constraint n ty)
      have ho := outcome_same h1 h2 h hreg (.constraint n ty)
      have ih := family_sim cs _ _ _ _ (h1.step (.constraint n ty)) (h2.step (.constraint n ty)) hs.1 hs.2
      simp only [runOut, List.filter_cons, notClone, List.foldl_cons, ite_true]
      refine ⟨?_, ih.2⟩
      have : (!(r1.outcome (.constraint n ty)).isCloned) = true := by simp [Router.outcome, Outcome.isCloned]
      rw [if_pos this, ih.1, ho]
    | insert t d =>
      have hs := step_same h1 h2 h hreg (.insert t d)
      have ho := outcome_same h1 h2 h hreg (.insert t d)
      have ih := family_sim cs _ _ _ _ (h1.step (.insert t d)) (h2.step (.insert t d)) hs.1 hs.2
      simp only [runOut, List.filter_cons, notClone, List.foldl_cons, ite_true]
      refine ⟨?_, ih.2⟩
      have : (!(r1.outcome (.insert t d)).isCloned) = true := by simp [Router.outcome, Outcome.isCloned]
      rw [if_pos this, ih.1, ho]
    | delete t =>
      have hs := step_same h1 h2 h hreg (.delete t)
      have ho := outcome_same h1 h2 h hreg (.delete t)
      have ih := family_sim cs _ _ _ _ (h1.step (.delete t)) (h2.step (.delete t)) hs.1 hs.2
      simp only [runOut, List.filter_cons, notClone, List.foldl_cons, ite_true]
      refine ⟨?_, ih.2⟩
      have : (!(r1.outcome (.delete t)).isCloned) = true := by simp [Router.outcome, Outcome.isCloned]
      rw [if_pos this, ih.1, ho]

theorem SameTD.refl (L : List LiveT) : SameTD L L :=
  ⟨fun lt hlt => ⟨lt, hlt, rfl, rfl⟩, fun lt hlt => ⟨lt, hlt, rfl, rfl⟩⟩

/-- **`Clone` is unobservable.** Take any history of API calls with `clone` steps anywhere in it (each continues on the
copy). Every call returns what it returns in the same history without the `clone` steps, and the final routers answer
every search identically and print the same tree. -/
theorem clone_unobservable (env : Env) (builtins : List (Bytes × Bytes)) (calls : List Call) :
    (runOut { registry := builtins } calls).filter (fun o => !o.isCloned) = runOut { registry := builtins } (calls.filter notClone) ∧
    (∀ path, (calls.foldl Router.step { registry := builtins }).search env path =
      ((calls.filter notClone).foldl Router.step { registry := builtins }).search env path) ∧
    (calls.foldl Router.step { registry := builtins }).display =
      ((calls.filter notClone).foldl Router.step { registry := builtins }).display := by
  have h0 : Live ({ registry := builtins } : Router) [] := ⟨builtins, [], rfl⟩
  obtain ⟨ho, L1, L2, g1, g2, hs, _⟩ := family_sim calls _ _ [] [] h0 h0 (SameTD.refl []) rfl
  refine ⟨ho, fun path => same_live_same_search env g1 g2 hs.1 hs.2 path, ?_⟩
  exact same_live_same_display g1 g2 (fun lt hlt => by obtain ⟨a, b, c, _⟩ := hs.1 lt hlt; exact ⟨a, b, c⟩)
    (fun lt hlt => by obtain ⟨a, b, c, _⟩ := hs.2 lt hlt; exact ⟨a, b, c⟩)
