import Wayfind.Proofs.Registry2

/-! delete step of the registry invariant, and the outcome rules of `Router::delete` / `Router::insert` in terms of
the registry -/

theorem mismatchOf_none {root : Node} {t : Bytes} {ts : List (Bytes × List Part)} (h : mismatchOf root t ts = none) :
    ∀ e ∈ ts, ∀ i, Node.find root e.2 = some i → i.template = t := by
  intro e he i hf
  unfold mismatchOf at h
  have := List.findSome?_eq_none_iff.1 h e he
  rw [hf] at this
  simp only at this
  by_cases hc : (i.template == t) = true
  · simpa using hc
  · rw [if_neg hc] at this; cases this

theorem mismatchOf_some {root : Node} {t ins : Bytes} {ts : List (Bytes × List Part)} (h : mismatchOf root t ts = some ins) :
    ∃ e ∈ ts, ∃ i, Node.find root e.2 = some i ∧ i.template = ins ∧ ins ≠ t := by
  unfold mismatchOf at h
  obtain ⟨e, he, hfe⟩ := List.exists_of_findSome?_eq_some h
  cases hf : Node.find root e.2 with
  | none => rw [hf] at hfe; cases hfe
  | some i =>
    rw [hf] at hfe
    simp only at hfe
    by_cases hc : (i.template == t) = true
    · rw [if_pos hc] at hfe; cases hfe
    · rw [if_neg hc] at hfe
      injection hfe with hfe
      exact ⟨e, he, i, hf, hfe, by rw [← hfe]; simpa using hc⟩

theorem deleteOk_root_cases (r : Router) (t : Bytes) (ts : List (Bytes × List Part)) :
    (r.deleteOk t ts).2.root = (ts.map (fun e => e.2)).foldl (fun n x => (Node.delete false n x).1) r.root ∨
    (r.deleteOk t ts).2.root = Node.optimize ((ts.map (fun e => e.2)).foldl (fun n x => (Node.delete false n x).1) r.root) := by
  unfold Router.deleteOk
  generalize hres : deleteAll ts r.root r.rc none = res
  have h1 : res.1 = (ts.map (fun e => e.2)).foldl (fun n x => (Node.delete false n x).1) r.root := by
    rw [← hres]; exact deleteAll_fst ts _ _ _
  obtain ⟨a, b, c⟩ := res
  cases c with
  | none => exact Or.inl h1
  | some dd => exact Or.inr (by simp only []; simp at h1; rw [h1])

/-- lookups after a delete that passed validation: exactly the template's keys are gone -/
theorem deleteOk_find {r : Router} {t : Bytes} {ts : List (Bytes × List Part)} (hS : Node.Shp r.root)
    (hp : parseTemplates t = .ok ts) :
    Node.Shp (r.deleteOk t ts).2.root ∧
    ∀ Q, wfParts Q = true → Node.find (r.deleteOk t ts).2.root Q =
      if Q ∈ ts.map (fun e => e.2) then none else Node.find r.root Q := by
  have hwf := parse_wf hp
  have hw : ∀ P ∈ ts.map (fun e => e.2), wfParts P = true := by
    intro P hP; obtain ⟨e, he, rfl⟩ := List.mem_map.1 hP; exact hwf e he
  obtain ⟨hS1, hfind1⟩ := find_foldl_delete (ts.map (fun e => e.2)) r.root hS hw
  constructor
  · rcases deleteOk_root_cases r t ts with hr | hr
    · rw [hr]; exact hS1
    · rw [hr]; exact Node.optimize_Shp _ hS1
  · intro Q hQ
    rcases deleteOk_root_cases r t ts with hr | hr
    · rw [hr]; exact hfind1 Q hQ
    · rw [hr, Node.find_optimize _ Q hS1]; exact hfind1 Q hQ

/-- **delete step.** A delete that passed the mismatch scan removes exactly the templates spelled `t` -/
theorem Reg.delete {r : Router} {L : List LiveT} {t : Bytes} {ts : List (Bytes × List Part)} (h : Reg r.root L)
    (hp : parseTemplates t = .ok ts) (hm : mismatchOf r.root t ts = none) :
    Reg (r.deleteOk t ts).2.root (L.filter (fun lt => lt.template != t)) := by
  have hwf := parse_wf hp
  have hw : ∀ P ∈ ts.map (fun e => e.2), wfParts P = true := by
    intro P hP; obtain ⟨e, he, rfl⟩ := List.mem_map.1 hP; exact hwf e he
  obtain ⟨hS1, hfind1⟩ := find_foldl_delete (ts.map (fun e => e.2)) r.root h.shp hw
  have hfind : ∀ Q, wfParts Q = true → Node.find (r.deleteOk t ts).2.root Q =
      if Q ∈ ts.map (fun e => e.2) then none else Node.find r.root Q := by
    intro Q hQ
    rcases deleteOk_root_cases r t ts with hr | hr
    · rw [hr]; exact hfind1 Q hQ
    · rw [hr, Node.find_optimize _ Q hS1]; exact hfind1 Q hQ
  have hshp : Node.Shp (r.deleteOk t ts).2.root := by
    rcases deleteOk_root_cases r t ts with hr | hr
    · rw [hr]; exact hS1
    · rw [hr]; exact Node.optimize_Shp _ hS1
  refine ⟨hshp, ?_, ?_, ?_⟩
  · intro lt hlt
    exact h.parsed lt (List.mem_filter.1 hlt).1
  · intro P i hP hf
    rw [hfind P hP] at hf
    by_cases hmem : P ∈ ts.map (fun e => e.2)
    · rw [if_pos hmem] at hf; cases hf
    · rw [if_neg hmem] at hf
      obtain ⟨lt, hlt, e, he, hk, hok⟩ := h.sound P i hP hf
      refine ⟨lt, List.mem_filter.2 ⟨hlt, ?_⟩, e, he, hk, hok⟩
      -- a live template spelled `t` has exactly the expansions `ts`, so its keys were deleted
      simp only [bne_iff_ne, ne_eq]
      intro heq
      have := h.parsed lt hlt
      rw [heq, hp] at this
      injection this with this
      subst this
      exact hmem (List.mem_map.2 ⟨e, he, hk⟩)
  · intro lt hlt e he
    obtain ⟨hlt1, hlt2⟩ := List.mem_filter.1 hlt
    obtain ⟨i, hf, hok⟩ := h.complete lt hlt1 e he
    refine ⟨i, ?_, hok⟩
    have hwfe : wfParts e.2 = true := parse_wf (h.parsed lt hlt1) e he
    rw [hfind e.2 hwfe]
    have : e.2 ∉ ts.map (fun e => e.2) := by
      intro hmem
      obtain ⟨e', he', hk⟩ := List.mem_map.1 hmem
      have := mismatchOf_none hm e' he' i (by rw [hk]; exact hf)
      rw [hok.1] at this
      simp only [bne_iff_ne, ne_eq] at hlt2
      exact hlt2 this
    rw [if_neg this]; exact hf
