import Wayfind.Proofs.SameLive

/-! C03 on live templates: the search of a reachable router is the documented walk over a route list written down from
the live templates alone — one route per expansion, carrying the template text, the data, and the text/depth/length of
the expansion that owns the key (`pick`). No tree, no flags, no history. -/

/-- the value the specification attaches to expansion `e` of live template `lt` -/
def specInfo (lt : LiveT) (e : Bytes × List Part) : Info :=
  let e' := (pick e.2 lt.exps).getD e
  { template := lt.template, data := lt.data, cell := none,
    expanded := if lt.exps.length > 1 then some e'.1 else none,
    depth := countSlash e'.1, length := e'.1.length }

def specRoutesOf (lt : LiveT) : List Route := lt.exps.map (fun e => ⟨e.2, specInfo lt e⟩)

/-- the route list of a set of live templates -/
def specRoutes (L : List LiveT) : List Route := L.flatMap specRoutesOf

theorem erase_eq_specInfo {lt : LiveT} {e : Bytes × List Part} {i : Info} (h : infoOK lt e i) : eraseCell i = specInfo lt e := by
  obtain ⟨h1, h2, e', hp, h3, h4, h5⟩ := h
  cases i
  simp only [eraseCell, specInfo, hp, Option.getD_some, Info.mk.injEq] at *
  subst h1 h2 h3 h4 h5
  simp

theorem mem_specRoutes {L : List LiveT} {P : List Part} {i : Info} (hwf : ∀ lt ∈ L, ∀ e ∈ lt.exps, wfParts e.2 = true) :
    Mem (specRoutes L) P i ↔ ∃ lt ∈ L, ∃ e ∈ lt.exps, e.2 = P ∧ i = specInfo lt e := by
  constructor
  · rintro ⟨rt, hrt, hn, hi⟩
    simp only [specRoutes, List.mem_flatMap, specRoutesOf, List.mem_map] at hrt
    obtain ⟨lt, hlt, e, he, rfl⟩ := hrt
    simp only at hn hi
    rw [norm_of_wf _ (hwf lt hlt e he)] at hn
    exact ⟨lt, hlt, e, he, hn, hi.symm⟩
  · rintro ⟨lt, hlt, e, he, rfl, rfl⟩
    refine ⟨⟨e.2, specInfo lt e⟩, ?_, norm_of_wf _ (hwf lt hlt e he), rfl⟩
    simp only [specRoutes, List.mem_flatMap, specRoutesOf, List.mem_map]
    exact ⟨lt, hlt, e, he, rfl⟩

/-- **C03 on live templates.** On every router reached through the API, `search` is the documented walk over the
specification's route list of the live templates. -/
theorem search_is_walk_over_live (env : Env) {r : Router} {L : List LiveT} (h : Live r L) (path : Bytes) :
    r.search env path = (refWalk env path.length (specRoutes L) path []).map toMatch := by
  rw [search_as_erased_walk env h.reachable]
  congr 1
  have hreg := h.rinv.reg
  have hS := hreg.shp
  have hwf : ∀ lt ∈ L, ∀ e ∈ lt.exps, wfParts e.2 = true := fun lt hlt e he => parse_wf (hreg.parsed lt hlt) e he
  -- both lists have the same (normalised key, value) pairs
  have hiff : ∀ P i, Mem ((Node.routes r.root).map (Route.mapI eraseCell)) P i ↔ Mem (specRoutes L) P i := by
    intro P i
    rw [mem_specRoutes hwf]
    constructor
    · intro hm
      obtain ⟨j, ⟨rt, hr, hn, hj⟩, rfl⟩ := mem_mapI.1 hm
      obtain ⟨hw, hf⟩ := route_find hS rt hr
      rw [hn, hj] at hf; rw [hn] at hw
      obtain ⟨lt, hlt, e, he, hk, hok⟩ := hreg.sound P j hw hf
      exact ⟨lt, hlt, e, he, hk, erase_eq_specInfo hok⟩
    · rintro ⟨lt, hlt, e, he, rfl, rfl⟩
      obtain ⟨j, hf, hok⟩ := hreg.complete lt hlt e he
      have := (Node.find_iff r.root e.2 j hS (hwf lt hlt e he)).1 hf
      exact mem_mapI.2 ⟨j, this, (erase_eq_specInfo hok).symm⟩
  have sne1 : SNE ((Node.routes r.root).map (Route.mapI eraseCell)) := by
    intro rt hr
    obtain ⟨r0, hr0, rfl⟩ := List.mem_map.1 hr
    exact routes_SNE r.root hS r0 hr0
  have sne2 : SNE (specRoutes L) := by
    intro rt hr
    simp only [specRoutes, List.mem_flatMap, specRoutesOf, List.mem_map] at hr
    obtain ⟨lt, hlt, e, he, rfl⟩ := hr
    exact statsNE_of_wf _ (hwf lt hlt e he)
  have fn1 : Fun ((Node.routes r.root).map (Route.mapI eraseCell)) := by
    intro P a b ha hb
    obtain ⟨ja, hma, rfl⟩ := mem_mapI.1 ha
    obtain ⟨jb, hmb, rfl⟩ := mem_mapI.1 hb
    rw [routes_Fun r.root hS P ja jb hma hmb]
  have fn2 : Fun (specRoutes L) := by
    intro P a b ha hb
    exact fn1 P a b ((hiff P a).2 ha) ((hiff P b).2 hb)
  exact refWalk_ext env path.length _ _ path [] (Nat.le_refl _) sne1 sne2 fn1 fn2
    ⟨fun P i hm => (hiff P i).1 hm, fun P i hm => Or.inl ((hiff P i).2 hm)⟩

#print axioms search_is_walk_over_live
