import Wayfind.Proofs.ExpandEq3

/-! Stage 1, part 4: the grammar's parser, one step at a time, and the expansions of one item -/

theorem parseSeq_lit (b : Byte) (t : Bytes) (h92 : b ≠ 92) (h40 : b ≠ 40) (h41 : b ≠ 41) :
    parseSeq (t.length + 2) (b :: t) = (parseSeq (t.length + 1) t).map (.cons (.lit b)) := by
  cases t with
  | nil =>
    rw [parseSeq]
    · simp [parseSeq]
    all_goals simp_all
  | cons c t' => rw [parseSeq]; all_goals simp_all

theorem parseSeq_lone : parseSeq 2 [92] = some (.cons (.lit 92) .nil) := by
  rw [parseSeq]
  · simp [parseSeq]
  all_goals simp

theorem parseSeq_esc (c : Byte) (t : Bytes) :
    parseSeq (t.length + 3) (92 :: c :: t) = (parseSeq (t.length + 1) t).map (.cons (.esc c)) := by
  simp only [parseSeq]
  rw [parseSeq_fuel (t.length + 2) (t.length + 1) t (by omega) (by omega)]

theorem parseSeq_close (t : Bytes) : parseSeq (t.length + 2) (41 :: t) = none := by
  simp [parseSeq]

theorem parseSeq_open (t : Bytes) :
    parseSeq (t.length + 2) (40 :: t) =
      match groupBody 1 t with
      | none => none
      | some (g, r) =>
        if g.isEmpty then none else
        match parseSeq (g.length + 1) g, parseSeq (r.length + 1) r with
        | some inner, some tail => some (.cons (.grp inner) tail)
        | _, _ => none := by
  simp only [parseSeq]
  cases hg : groupBody 1 t with
  | none => rfl
  | some gr =>
    obtain ⟨g, r⟩ := gr
    have hl := groupBody_length 1 t g r hg
    simp only []
    rw [parseSeq_fuel (t.length + 1) (g.length + 1) g (by omega) (by omega),
      parseSeq_fuel (t.length + 1) (r.length + 1) r (by omega) (by omega)]
    rfl

theorem exps_lit (b : Byte) (is : Items) : Items.exps (.cons (.lit b) is) = (Items.exps is).map ([b] ++ ·) := by
  simp [Items.exps, Item.alts]

theorem exps_esc (b : Byte) (is : Items) : Items.exps (.cons (.esc b) is) = (Items.exps is).map ([92, b] ++ ·) := by
  simp [Items.exps, Item.alts]

theorem exps_grp (g is : Items) : Items.exps (.cons (.grp g) is) = prodB (Items.exps g ++ [[]]) (Items.exps is) := by
  simp [Items.exps, Item.alts, prodB]

theorem exps_nil : Items.exps .nil = [[]] := by simp [Items.exps]

/-- the final "only a completely empty result becomes `/`" of the outermost call -/
def finB (top : Bool) (res : List Bytes) : List Bytes :=
  if top then res.map (fun t => if t.isEmpty then [47] else t) else res

theorem map_acc (result : List Bytes) (acc x : Bytes) :
    (result.map (· ++ acc)).map (· ++ x) = result.map (· ++ (acc ++ x)) := by
  simp [List.map_map, List.append_assoc]
