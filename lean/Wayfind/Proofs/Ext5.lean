import Wayfind.Proofs.Ext4

/-- the induction hypothesis of the extensionality theorem, for paths shorter than `path` -/
def ExtIH (env : Env) (walk : List Route → Bytes → Params → Res) (path : Bytes) : Prop :=
  ∀ rsA rsB path' q, path'.length < path.length → SNE rsA → SNE rsB → Fun rsA → Fun rsB →
    Rel env rsA rsB path' → walk rsA path' q = walk rsB path' q

theorem drop_len_lt (path : Bytes) (c : Nat) (h1 : 1 ≤ c) (h2 : c ≤ path.length) : (path.drop c).length < path.length := by
  simp only [List.length_drop]; omega

/-- one mid-route parameter step gives the same result on related route lists -/
theorem parStep_ext (env : Env) (k : PKind) (rs1 rs2 : List Route) (path : Bytes) (ps : Params)
    (walk : List Route → Bytes → Params → Res) (hnil : ∀ p q, walk [] p q = none)
    (ih : ExtIH env walk path) (h1 : SNE rs1) (h2 : SNE rs2) (f1 : Fun rs1) (f2 : Fun rs2) (hR : Rel env rs1 rs2 path) :
    parStep env k rs1 path ps walk = parStep env k rs2 path ps walk := by
  unfold parStep
  have hsub : ∀ x ∈ labelsOf k false rs1, x ∈ labelsOf k false rs2 := by
    intro x hx
    obtain ⟨X, i, hm, hcl⟩ := (mem_labelsOf_iff k false rs1 x).1 hx
    exact (mem_labelsOf_iff k false rs2 x).2 ⟨X, i, hR.1 _ i hm, hcl⟩
  -- on labels of rs1 the two step functions agree
  have hagree : ∀ l ∈ labelsOf k false rs1,
      tryCands env (if consK k then some l.cons else none) l.name path ps
          (walk (rs1.filterMap (stripPar k false l))) (candsInline (wildK k) path) none =
      tryCands env (if consK k then some l.cons else none) l.name path ps
          (walk (rs2.filterMap (stripPar k false l))) (candsInline (wildK k) path) none := by
    intro l _
    apply tryCands_congr_ok
    intro c hc hok q
    have hb := candsInline_bounds _ _ c hc
    exact ih _ _ _ q (drop_len_lt path c hb.1 hb.2) (SNE_stripPar k false l rs1 h1) (SNE_stripPar k false l rs2 h2)
      (Fun_stripPar k false l rs1 f1) (Fun_stripPar k false l rs2 f2) (Rel_stripPar env k l path c rs1 rs2 hc hok hR)
  -- labels that only rs2 offers lead nowhere
  have hextra : ∀ l ∈ labelsOf k false rs2, l ∉ labelsOf k false rs1 →
      tryCands env (if consK k then some l.cons else none) l.name path ps
          (walk (rs2.filterMap (stripPar k false l))) (candsInline (wildK k) path) none = none := by
    intro l _ hnot
    apply tryCands_none_ok
    intro c hc hok q
    have hb := candsInline_bounds _ _ c hc
    rw [← hnil (path.drop c) q]
    symm
    apply ih [] _ _ q (drop_len_lt path c hb.1 hb.2) (by intro r hr; cases hr) (SNE_stripPar k false l rs2 h2)
      (by intro P i j ⟨r, hr, _⟩; cases hr) (Fun_stripPar k false l rs2 f2)
    constructor
    · intro P i ⟨r, hr, _⟩; cases hr
    · intro X i hm
      right
      obtain ⟨hm2, hcl⟩ := (Mem_stripPar k false l rs2 X i).1 hm
      rcases hR.2 _ i hm2 with hm1 | hnf
      · exact absurd ((mem_labelsOf_iff k false rs1 l).2 ⟨X, i, hm1, hcl⟩) hnot
      · exact fun hf => hnf (FitsN_par env k l X path c hc hok hf)
  rw [firstSome_sorted_sub _ (labelsOf k false rs1) (labelsOf k false rs2) (sortedL_sortLabels _) (sortedL_sortLabels _) hsub hextra]
  exact firstSome_congr _ _ _ hagree

theorem sorted_ext : ∀ (L1 L2 : List Label), SortedL L1 → SortedL L2 → (∀ x, x ∈ L1 ↔ x ∈ L2) → L1 = L2 := by
  intro L1 L2 h1 h2 hiff
  have key := firstSome_sorted_sub (fun _ => (none : Res))
  -- direct proof by induction instead
  clear key
  induction L1 generalizing L2 with
  | nil =>
    cases L2 with
    | nil => rfl
    | cons y _ => exact absurd ((hiff y).2 (by simp)) (by simp)
  | cons x L1 ih =>
    cases L2 with
    | nil => exact absurd ((hiff x).1 (by simp)) (by simp)
    | cons y L2 =>
      simp only [SortedL, List.pairwise_cons] at h1 h2
      have hxy : x = y := by
        have hx : x ∈ y :: L2 := (hiff x).1 (by simp)
        have hy : y ∈ x :: L1 := (hiff y).2 (by simp)
        simp only [List.mem_cons] at hx hy
        rcases hx with rfl | hx
        · rfl
        · rcases hy with rfl | hy
          · rfl
          · have a := h1.1 y hy
            have b := h2.1 x hx
            rw [Label.lt_asymm _ _ a] at b; cases b
      subst hxy
      congr 1
      apply ih L2 h1.2 h2.2
      intro z
      constructor
      · intro hz
        have := (hiff z).1 (by simp [hz])
        simp only [List.mem_cons] at this
        rcases this with rfl | h
        · exact absurd (h1.1 z hz) (by rw [Label.lt_irrefl]; simp)
        · exact h
      · intro hz
        have := (hiff z).2 (by simp [hz])
        simp only [List.mem_cons] at this
        rcases this with rfl | h
        · exact absurd (h2.1 z hz) (by rw [Label.lt_irrefl]; simp)
        · exact h
