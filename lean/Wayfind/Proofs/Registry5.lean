import Wayfind.Proofs.Registry4
import Wayfind.Proofs.FitsNorm
import Wayfind.Proofs.Corollaries

/-! The registry along whole histories, and the properties stated on *live templates*. -/

/-- the live templates after one call -/
def liveAfter (r : Router) (L : List LiveT) : Call → List LiveT
  | .constraint _ _ => L
  | .insert t d =>
    match r.insert t d, parseTemplates t with
    | .ok _, .ok ts => L ++ [⟨t, d, ts⟩]
    | _, _ => L
  | .delete t =>
    match parseTemplates t with
    | .ok ts =>
      if mismatchOf r.root t ts = none ∧ ts.any (fun e => (Node.find r.root e.2).isNone) = false
      then L.filter (fun lt => lt.template != t) else L
    | .error _ => L
  | .clone => L

/-- infoOK does not look at the cell -/
theorem infoOK_of_erase {lt : LiveT} {e : Bytes × List Part} {i j : Info} (h : eraseCell i = eraseCell j) (hi : infoOK lt e i) :
    infoOK lt e j := by
  have ht : i.template = j.template := (by simpa [eraseCell] using congrArg Info.template h)
  have hd : i.data = j.data := (by simpa [eraseCell] using congrArg Info.data h)
  have he : i.expanded = j.expanded := (by simpa [eraseCell] using congrArg Info.expanded h)
  have hde : i.depth = j.depth := (by simpa [eraseCell] using congrArg Info.depth h)
  have hl : i.length = j.length := (by simpa [eraseCell] using congrArg Info.length h)
  obtain ⟨h1, h2, e', h3, h4, h5, h6⟩ := hi
  exact ⟨ht ▸ h1, hd ▸ h2, e', h3, he ▸ h4, hde ▸ h5, hl ▸ h6⟩

/-- the registry invariant survives `Clone` -/
theorem Reg.clone {r : Router} {L : List LiveT} (h : Reg r.root L) : Reg r.clone.root L where
  shp := (recell_Shp r.root 0).2 h.shp
  parsed := h.parsed
  sound := by
    intro P i hwf hf
    have hc := Router.clone_find r P
    rw [hf] at hc
    cases hf0 : Node.find r.root P with
    | none => rw [hf0] at hc; cases hc
    | some j =>
      rw [hf0] at hc
      simp only [Option.map_some, Option.some.injEq] at hc
      obtain ⟨lt, hlt, e, he, hk, hok⟩ := h.sound P j hwf hf0
      exact ⟨lt, hlt, e, he, hk, infoOK_of_erase hc.symm hok⟩
  complete := by
    intro lt hlt e he
    obtain ⟨j, hf0, hok⟩ := h.complete lt hlt e he
    have hc := Router.clone_find r e.2
    rw [hf0] at hc
    cases hf : Node.find r.clone.root e.2 with
    | none => rw [hf] at hc; cases hc
    | some i =>
      rw [hf] at hc
      simp only [Option.map_some, Option.some.injEq] at hc
      exact ⟨i, rfl, infoOK_of_erase hc.symm hok⟩

theorem reg_step {r : Router} {L : List LiveT} (h : Reg r.root L) (c : Call) :
    Reg (r.step c).root (liveAfter r L c) := by
  cases c with
  | constraint name ty =>
    simp only [Router.step, Router.constraint, liveAfter]
    split <;> rename_i heq
    · split at heq
      · cases heq
      · injection heq with heq; subst heq; exact h
    · exact h
  | insert t d =>
    simp only [Router.step, liveAfter]
    cases hi : r.insert t d with
    | error e => exact h
    | ok r' =>
      obtain ⟨ts, hp, _, _, _⟩ := (Router.insert_ok_iff r r' t d).1 hi
      simp only [hp]
      exact Reg.insert h hi ts hp
  | delete t =>
    simp only [Router.step, Router.delete, liveAfter]
    cases hp : parseTemplates t with
    | error e => exact h
    | ok ts =>
      simp only []
      cases hm : mismatchOf r.root t ts with
      | some ins => simp only [hm]; simpa using h
      | none =>
        simp only []
        by_cases hany : ts.any (fun e => (Node.find r.root e.2).isNone) = true
        · simp only [hany, ite_true]
          simpa using h
        · have hany' : ts.any (fun e => (Node.find r.root e.2).isNone) = false := by simpa using hany
          simp only [hany', Bool.false_eq_true, ite_false, and_self, ite_true]
          exact Reg.delete h hp hm
  | clone => exact Reg.clone h

/-- router and live templates along a history -/
def runLive : Router → List LiveT → List Call → Router × List LiveT
  | r, L, [] => (r, L)
  | r, L, c :: cs => runLive (r.step c) (liveAfter r L c) cs

theorem runLive_fst : ∀ (calls : List Call) (r : Router) (L : List LiveT), (runLive r L calls).1 = calls.foldl Router.step r
  | [], _, _ => rfl
  | c :: cs, r, L => by simp only [runLive, List.foldl_cons]; exact runLive_fst cs _ _

theorem runLive_reg : ∀ (calls : List Call) (r : Router) (L : List LiveT), Reg r.root L →
    Reg (runLive r L calls).1.root (runLive r L calls).2
  | [], _, _, h => h
  | c :: cs, r, L, h => by
    simp only [runLive]
    exact runLive_reg cs _ _ (reg_step h c)

/-- a router reached through the API together with its live templates -/
def Live (r : Router) (L : List LiveT) : Prop :=
  ∃ (builtins : List (Bytes × Bytes)) (calls : List Call), (r, L) = runLive { registry := builtins } [] calls

theorem Live.reachable {r : Router} {L : List LiveT} (h : Live r L) : Reachable r := by
  obtain ⟨b, calls, he⟩ := h
  refine ⟨b, calls, ?_⟩
  have := congrArg Prod.fst he
  simp only at this
  rw [this, runLive_fst]

theorem Live.reg {r : Router} {L : List LiveT} (h : Live r L) : Reg r.root L := by
  obtain ⟨b, calls, he⟩ := h
  have := runLive_reg calls { registry := b } [] Reg.empty
  rw [← he] at this
  exact this

/-- stored routes are found by their normalised part lists -/
theorem route_find {root : Node} (hS : Node.Shp root) (rt : Route) (hr : rt ∈ Node.routes root) :
    wfParts (norm rt.parts) = true ∧ Node.find root (norm rt.parts) = some rt.info :=
  ⟨routes_norm_wf root hS rt hr, (Node.find_iff root _ _ hS (routes_norm_wf root hS rt hr)).2 ⟨rt, hr, rfl, rfl⟩⟩

/-- **C01 on live templates.** -/
theorem search_genuine (env : Env) {r : Router} {L : List LiveT} (h : Live r L) (path : Bytes) (m : Match)
    (hm : r.search env path = some m) :
    ∃ lt ∈ L, ∃ e ∈ lt.exps, m.template = lt.template ∧ m.data = lt.data ∧
      m.expanded = (if lt.exps.length > 1 then some e.1 else none) ∧ Fits env e.2 path m.params := by
  have hreg := h.reg
  rw [Router.search_eq_walk env r h.reachable path] at hm
  cases hw : refWalk env path.length (Node.routes r.root) path [] with
  | none => rw [hw] at hm; cases hm
  | some x =>
    obtain ⟨i, ps⟩ := x
    rw [hw] at hm
    simp only [Option.map_some, Option.some.injEq, toMatch] at hm
    obtain ⟨rt, hr, hi, vs, hf, hps⟩ := refWalk_sound env _ _ _ _ _ _ hw
    obtain ⟨hwf, hfind⟩ := route_find hreg.shp rt hr
    obtain ⟨lt, hlt, e, he, hk, hok⟩ := hreg.sound _ _ hwf hfind
    subst hm
    obtain ⟨ht, hdat, e', hpk, hexp, _, _⟩ := hok
    obtain ⟨he', hk'⟩ := pick_mem hpk
    refine ⟨lt, hlt, e', he', ?_, ?_, ?_, ?_⟩
    · rw [← hi, ht]
    · rw [← hi, hdat]
    · rw [← hi, hexp]
    · have : Fits env rt.parts path ps := by simpa [hps] using hf
      rw [hk', hk]
      exact (Fits_norm env rt.parts (routes_statsNE r.root hreg.shp rt hr) path ps).1 this

/-- **C02 on live templates.** -/
theorem search_complete (env : Env) {r : Router} {L : List LiveT} (h : Live r L) (path : Bytes)
    (hfit : ∃ lt ∈ L, ∃ e ∈ lt.exps, ∃ vs, Fits env e.2 path vs) : (r.search env path).isSome = true := by
  have hreg := h.reg
  obtain ⟨lt, hlt, e, he, vs, hf⟩ := hfit
  obtain ⟨i, hfind, _⟩ := hreg.complete lt hlt e he
  have hwf : wfParts e.2 = true := parse_wf (hreg.parsed lt hlt) e he
  obtain ⟨rt, hr, hn, _⟩ := (Node.find_iff r.root e.2 i hreg.shp hwf).1 hfind
  have hfit' : Fits env rt.parts path vs := by
    rw [← hn] at hf
    exact (Fits_norm env rt.parts (routes_statsNE r.root hreg.shp rt hr) path vs).2 hf
  rw [Router.search_eq_walk env r h.reachable path]
  have := refWalk_complete env path.length (Node.routes r.root) path [] (Nat.le_refl _) ⟨rt, hr, vs, hfit'⟩
  cases hw : refWalk env path.length (Node.routes r.root) path [] with
  | none => rw [hw] at this; cases this
  | some x => simp
