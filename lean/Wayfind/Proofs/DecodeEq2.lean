import Wayfind.Proofs.DecodeEq1

/-! Stage 2, part 2: the brace group. The model finds the closing brace by counting nested braces, the grammar takes the
text up to the first `}`; they agree whenever the text contains no `{`, and both reject when it does. -/

theorem braceEnd_ge : ∀ (after : Bytes) (c idx n : Nat), braceEnd after c idx = some n → idx ≤ n
  | [], _, _, _, h => by simp [braceEnd] at h
  | b :: rest, c, idx, n, h => by
    simp only [braceEnd] at h
    split at h
    · have := braceEnd_ge rest _ _ n h; omega
    · split at h
      · split at h
        · injection h with h; omega
        · have := braceEnd_ge rest _ _ n h; omega
      · have := braceEnd_ge rest _ _ n h; omega

/-- no `{` before the closing brace found by the model: it is the first `}` -/
theorem braceEnd_first : ∀ (after : Bytes) (idx n : Nat), braceEnd after 1 idx = some n →
    (∀ x ∈ after.take (n - idx), x ≠ 123) →
    braceContent after = some (after.take (n - idx), after.drop (n - idx + 1))
  | [], _, _, h, _ => by simp [braceEnd] at h
  | b :: rest, idx, n, h, hno => by
    simp only [braceEnd] at h
    by_cases h123 : b = 123
    · simp only [h123, ite_true] at h
      have hge := braceEnd_ge rest _ _ n h
      have : n - idx = (n - idx - 1) + 1 := by omega
      rw [this, List.take_succ_cons] at hno
      exact absurd h123 (hno b (by simp))
    · simp only [h123, ite_false] at h
      by_cases h125 : b = 125
      · simp only [h125, ite_true] at h
        injection h with h
        subst h
        simp [braceContent, h125]
      · simp only [h125, ite_false] at h
        have hge := braceEnd_ge rest _ _ n h
        have e1 : n - idx = (n - (idx + 1)) + 1 := by omega
        have ih := braceEnd_first rest (idx + 1) n h (by
          intro x hx; apply hno x; rw [e1, List.take_succ_cons]; simp [hx])
        simp only [braceContent, h125, ite_false, ih, Option.map_some]
        rw [e1]
        simp [List.take_succ_cons]

/-- the model finds no closing brace: the grammar finds none either, or its text contains `{` -/
theorem braceEnd_none : ∀ (after : Bytes) (idx : Nat), braceEnd after 1 idx = none →
    braceContent after = none ∨ ∃ c r, braceContent after = some (c, r) ∧ (123 : Byte) ∈ c
  | [], _, _ => Or.inl rfl
  | b :: rest, idx, h => by
    simp only [braceEnd] at h
    by_cases h123 : b = 123
    · subst h123
      simp only [braceContent]
      cases braceContent rest with
      | none => exact Or.inl (by simp)
      | some x => exact Or.inr ⟨123 :: x.1, x.2, by simp, by simp⟩
    · simp only [h123, ite_false] at h
      by_cases h125 : b = 125
      · simp [h125] at h
      · simp only [h125, ite_false] at h
        simp only [braceContent, h125, ite_false]
        rcases braceEnd_none rest (idx + 1) h with h' | ⟨c, r, h', hc⟩
        · exact Or.inl (by simp [h'])
        · exact Or.inr ⟨b :: c, r, by simp [h'], by simp [hc]⟩

/-- the text up to the model's closing brace contains `{`: so does the grammar's text (if there is one) -/
theorem braceEnd_nested : ∀ (after : Bytes) (idx n : Nat), braceEnd after 1 idx = some n →
    (123 : Byte) ∈ after.take (n - idx) →
    braceContent after = none ∨ ∃ c r, braceContent after = some (c, r) ∧ (123 : Byte) ∈ c
  | [], _, _, h, _ => by simp [braceEnd] at h
  | b :: rest, idx, n, h, hin => by
    simp only [braceEnd] at h
    by_cases h123 : b = 123
    · subst h123
      simp only [braceContent]
      cases braceContent rest with
      | none => exact Or.inl (by simp)
      | some x => exact Or.inr ⟨123 :: x.1, x.2, by simp, by simp⟩
    · simp only [h123, ite_false] at h
      by_cases h125 : b = 125
      · simp only [h125, ite_true] at h
        injection h with h; subst h
        simp at hin
      · simp only [h125, ite_false] at h
        have hge := braceEnd_ge rest _ _ n h
        have e1 : n - idx = (n - (idx + 1)) + 1 := by omega
        rw [e1, List.take_succ_cons] at hin
        have hin' : (123 : Byte) ∈ rest.take (n - (idx + 1)) := by
          rcases List.mem_cons.1 hin with h' | h'
          · exact absurd h'.symm h123
          · exact h'
        simp only [braceContent, h125, ite_false]
        rcases braceEnd_nested rest (idx + 1) n h hin' with h' | ⟨c, r, h', hc⟩
        · exact Or.inl (by simp [h'])
        · exact Or.inr ⟨b :: c, r, by simp [h'], by simp [hc]⟩
