import Wayfind.Spec.Fits
import Wayfind.Proofs.ParStep

theorem orElse'_some {a b : Res} {x : Info × Params} (h : orElse' a b = some x) : a = some x ∨ (a = none ∧ b = some x) := by
  cases a with
  | none => exact Or.inr ⟨rfl, h⟩
  | some y => exact Or.inl h

theorem firstSome_some {α} {f : α → Res} : ∀ {L : List α} {x : Info × Params}, firstSome f L = some x → ∃ a ∈ L, f a = some x
  | [], _, h => by simp [firstSome] at h
  | a :: L, x, h => by
    simp only [firstSome] at h
    rcases orElse'_some h with h' | ⟨_, h'⟩
    · exact ⟨a, by simp, h'⟩
    · obtain ⟨a', ha', hf⟩ := firstSome_some h'
      exact ⟨a', by simp [ha'], hf⟩

theorem stripByte_some {b : Byte} {r r' : Route} (h : stripByte b r = some r') :
    ∃ p rest, r.parts = .stat (b :: p) :: rest ∧ r'.info = r.info ∧
      r'.parts = (if p.isEmpty then rest else .stat p :: rest) := by
  unfold stripByte at h
  split at h
  · rename_i c p rest hparts
    split at h
    · rename_i hc; subst hc
      injection h with h; subst h
      exact ⟨p, rest, hparts, rfl, rfl⟩
    · cases h
  · cases h

theorem stripPar_some {k : PKind} {last : Bool} {l : Label} {r r' : Route} (h : stripPar k last l r = some r') :
    r.parts = .par k l :: r'.parts ∧ r'.info = r.info ∧ (wildK k && r'.parts.isEmpty) = last := by
  unfold stripPar headPar at h
  split at h
  · rename_i l' r'' heq
    split at heq
    · rename_i k' l'' rest hparts
      split at heq
      · rename_i hc
        injection heq with heq
        injection heq with h1 h2
        subst h1 h2
        split at h
        · rename_i hl; subst hl
          injection h with h; subst h
          obtain ⟨rfl, hlast⟩ := hc
          exact ⟨hparts, rfl, hlast⟩
        · cases h
      · cases heq
    · cases heq
  · cases h

theorem mem_takeWhile_sat (p : Byte → Bool) : ∀ (l : Bytes) (x : Byte), x ∈ l.takeWhile p → p x = true
  | [], _, h => by simp at h
  | a :: l, x, h => by
    simp only [List.takeWhile_cons] at h
    split at h
    · rename_i ha
      simp only [List.mem_cons] at h
      rcases h with rfl | h
      · exact ha
      · exact mem_takeWhile_sat p l x h
    · simp at h

theorem take_no_slash (path : Bytes) (c : Nat) (hc : c ≤ segLen path) : (47 : Byte) ∉ path.take c := by
  intro hmem
  have hpre : path.take c = (path.takeWhile (· != 47)).take c := by
    unfold segLen at hc
    have := List.takeWhile_prefix (fun x : Byte => x != 47) (l := path)
    obtain ⟨t, ht⟩ := this
    conv => lhs; rw [← ht]
    rw [List.take_append_of_le_length hc]
  rw [hpre] at hmem
  have := mem_takeWhile_sat _ _ _ (List.mem_of_mem_take hmem)
  simp at this

theorem candsInline_dyn_le (path : Bytes) : ∀ c ∈ candsInline false path, c ≤ segLen path := by
  intro c hc
  simp only [candsInline, List.mem_map, List.mem_range] at hc
  obtain ⟨a, ha, rfl⟩ := hc
  simp at ha; omega

theorem endInfo_some {k : PKind} {l : Label} {rs : List Route} {i : Info} (h : endInfo k l rs = some i) :
    ∃ r ∈ rs, r.parts = [.par k l] ∧ r.info = i := by
  unfold endInfo at h
  cases hf : rs.find? (fun r => r.parts == [.par k l]) with
  | none => rw [hf] at h; cases h
  | some r =>
    rw [hf] at h
    injection h with h
    exact ⟨r, List.mem_of_find?_eq_some hf, by simpa using List.find?_some hf, h⟩

/-- fitting the remainder of a route after one literal byte lifts to the route -/
theorem fits_unstrip {env : Env} {b : Byte} {r r' : Route} (h : stripByte b r = some r') {tl : Bytes} {vs : Params}
    (hf : Fits env r'.parts tl vs) : Fits env r.parts (b :: tl) vs := by
  obtain ⟨p, rest, hparts, _, hparts'⟩ := stripByte_some h
  rw [hparts]
  cases p with
  | nil =>
    simp only [List.isEmpty_nil, ite_true] at hparts'
    rw [hparts'] at hf
    exact Fits.stat [b] tl vs rest (by simp) hf
  | cons c p =>
    simp only [List.isEmpty_cons, Bool.false_eq_true, ite_false] at hparts'
    rw [hparts'] at hf
    cases hf with
    | stat _ path _ _ hne hrest => exact Fits.stat (b :: c :: p) path vs rest (by simp) hrest

theorem mem_filterMap_stripPar {k last l} {rs : List Route} {r' : Route}
    (h : r' ∈ rs.filterMap (stripPar k last l)) : ∃ r ∈ rs, stripPar k last l r = some r' := by
  simpa [List.mem_filterMap] using h

theorem parStep_sound (env : Env) (k : PKind) (rs : List Route) (path : Bytes) (ps : Params) (b : Byte) (tl : Bytes)
    (hpath : path = b :: tl)
    (walk : List Route → Bytes → Params → Res)
    (hw : ∀ rs' path' ps' i ps'', path'.length < path.length → walk rs' path' ps' = some (i, ps'') →
      ∃ r ∈ rs', r.info = i ∧ ∃ vs, Fits env r.parts path' vs ∧ ps'' = ps' ++ vs)
    {i : Info} {ps' : Params} (h : parStep env k rs path ps walk = some (i, ps')) :
    ∃ r ∈ rs, r.info = i ∧ ∃ vs, Fits env r.parts path vs ∧ ps' = ps ++ vs := by
  unfold parStep at h
  obtain ⟨l, _, hl⟩ := firstSome_some h
  rcases tryCands_some env _ _ _ _ _ _ _ _ hl with hbest | ⟨c, hc, hok, hk⟩
  · cases hbest
  · have hb := candsInline_bounds _ _ c hc
    have hlt : (path.drop c).length < path.length := by simp only [List.length_drop]; omega
    obtain ⟨r', hr', hinfo, vs, hfits, hps⟩ := hw _ _ _ _ _ hlt hk
    obtain ⟨r, hr, hsp⟩ := mem_filterMap_stripPar hr'
    obtain ⟨hparts, hinfo', _⟩ := stripPar_some hsp
    refine ⟨r, hr, hinfo' ▸ hinfo, (l.name, path.take c) :: vs, ?_, ?_⟩
    · rw [hparts]
      have hv : path.take c ≠ [] := by
        intro h0; have := congrArg List.length h0
        simp only [List.length_take, List.length_nil] at this; omega
      have hsplit : path = path.take c ++ path.drop c := (List.take_append_drop c path).symm
      have hval : env.valid (path.take c) = true := by
        simp only [candOk, Bool.and_eq_true] at hok; exact hok.1
      have hcon : consK k = true → env.chk l.cons (path.take c) = true := by
        intro hck
        simp only [candOk, hck, ite_true, Bool.and_eq_true] at hok; exact hok.2
      have hslash : wildK k = false → (47 : Byte) ∉ path.take c := by
        intro hwk
        rw [hwk] at hc
        exact take_no_slash path c (candsInline_dyn_le path c hc)
      have := Fits.par k l (path.take c) (path.drop c) vs r'.parts hv hslash hval hcon hfits
      rw [← hsplit] at this
      exact this
    · rw [hps]; simp

/-- Soundness of the documented walk: a result names a route of the list that fits the path,
    and the returned parameters are exactly the captured values appended in order. -/
theorem refWalk_sound (env : Env) : ∀ (f : Nat) (rs : List Route) (path : Bytes) (ps : Params) (i : Info) (ps' : Params),
    refWalk env f rs path ps = some (i, ps') →
    ∃ r ∈ rs, r.info = i ∧ ∃ vs, Fits env r.parts path vs ∧ ps' = ps ++ vs := by
  intro f
  induction f with
  | zero =>
    intro rs path ps i ps' h
    cases path with
    | nil =>
      simp only [refWalk, Option.map_eq_some_iff] at h
      obtain ⟨r, hr, heq⟩ := h
      injection heq with h1 h2
      refine ⟨r, List.mem_of_find?_eq_some hr, h1, [], ?_, by simp [h2]⟩
      have : r.parts = [] := by simpa using List.find?_some hr
      rw [this]; exact Fits.nil
    | cons b tl => simp [refWalk] at h
  | succ f ih =>
    intro rs path ps i ps' h
    cases path with
    | nil =>
      simp only [refWalk, Option.map_eq_some_iff] at h
      obtain ⟨r, hr, heq⟩ := h
      injection heq with h1 h2
      refine ⟨r, List.mem_of_find?_eq_some hr, h1, [], ?_, by simp [h2]⟩
      have : r.parts = [] := by simpa using List.find?_some hr
      rw [this]; exact Fits.nil
    | cons b tl =>
      have hw : ∀ rs' path' ps0 i0 ps'', path'.length < (b :: tl).length → refWalk env f rs' path' ps0 = some (i0, ps'') →
          ∃ r ∈ rs', r.info = i0 ∧ ∃ vs, Fits env r.parts path' vs ∧ ps'' = ps0 ++ vs :=
        fun rs' path' ps0 i0 ps'' _ h' => ih rs' path' ps0 i0 ps'' h'
      simp only [refWalk] at h
      rcases orElse'_some h with h1 | ⟨_, h⟩
      · -- literal byte
        obtain ⟨r', hr', hinfo, vs, hfits, hps⟩ := ih _ _ _ _ _ h1
        obtain ⟨r, hr, hsb⟩ : ∃ r ∈ rs, stripByte b r = some r' := by simpa [List.mem_filterMap] using hr'
        obtain ⟨_, _, _, hinfo', _⟩ := stripByte_some hsb
        exact ⟨r, hr, hinfo' ▸ hinfo, vs, fits_unstrip hsb hfits, hps⟩
      rcases orElse'_some h with h2 | ⟨_, h⟩
      · exact parStep_sound env .dynC rs _ ps b tl rfl _ hw h2
      rcases orElse'_some h with h3 | ⟨_, h⟩
      · exact parStep_sound env .dyn rs _ ps b tl rfl _ hw h3
      rcases orElse'_some h with h4 | ⟨_, h⟩
      · exact parStep_sound env .wildC rs _ ps b tl rfl _ hw h4
      rcases orElse'_some h with h5 | ⟨_, h⟩
      · exact parStep_sound env .wild rs _ ps b tl rfl _ hw h5
      rcases orElse'_some h with h6 | ⟨_, h7⟩
      · -- constrained catch-all
        obtain ⟨l, _, hl⟩ := firstSome_some h6
        split at hl
        · rename_i hc
          simp only [Option.map_eq_some_iff] at hl
          obtain ⟨i0, hi0, heq⟩ := hl
          injection heq with e1 e2
          obtain ⟨r, hr, hparts, hinfo⟩ := endInfo_some hi0
          simp only [Bool.and_eq_true] at hc
          refine ⟨r, hr, hinfo.trans e1, [(l.name, b :: tl)], ?_, e2.symm⟩
          rw [hparts]
          have := Fits.par .wildC l (b :: tl) [] [] [] (by simp) (by intro h; cases h) hc.1 (fun _ => hc.2) Fits.nil
          simpa using this
        · cases hl
      · -- unconstrained catch-all
        split at h7
        · rename_i l _ _
          split at h7
          · rename_i hv
            simp only [Option.map_eq_some_iff] at h7
            obtain ⟨i0, hi0, heq⟩ := h7
            injection heq with e1 e2
            obtain ⟨r, hr, hparts, hinfo⟩ := endInfo_some hi0
            refine ⟨r, hr, hinfo.trans e1, [(l.name, b :: tl)], ?_, e2.symm⟩
            rw [hparts]
            have := Fits.par .wild l (b :: tl) [] [] [] (by simp) (by intro h; cases h) hv (by intro h; cases h) Fits.nil
            simpa using this
          · cases h7
        · cases h7

#print axioms refWalk_sound
