import Wayfind.Proofs.Ext1

theorem norm_par_inv {k : PKind} {l : Label} {X : List Part} {parts : List Part} (h : norm parts = .par k l :: X) :
    ∃ rest, parts = .par k l :: rest ∧ norm rest = X := by
  cases parts with
  | nil => simp [norm] at h
  | cons x rest =>
    cases x with
    | stat a => obtain ⟨b, t, hb⟩ := norm_stat_starts a rest; rw [hb] at h; cases h
    | par k' l' =>
      simp only [norm_par, List.cons.injEq, Part.par.injEq] at h
      obtain ⟨⟨rfl, rfl⟩, hX⟩ := h
      exact ⟨rest, rfl, hX⟩

theorem isEmpty_norm (P : List Part) : (norm P).isEmpty = P.isEmpty := by
  cases hP : P with
  | nil => simp [norm]
  | cons x xs =>
    have : norm (x :: xs) ≠ [] := fun h => by have := (norm_eq_nil _).1 h; cases this
    cases hn : norm (x :: xs) with
    | nil => exact absurd hn this
    | cons _ _ => rfl

theorem SNE_stripPar (k last l) (rs : List Route) (h : SNE rs) : SNE (rs.filterMap (stripPar k last l)) := by
  intro r' hr'
  simp only [List.mem_filterMap] at hr'
  obtain ⟨r, hr, hs⟩ := hr'
  obtain ⟨hp, _, _⟩ := stripPar_some hs
  have := h r hr
  rw [hp] at this
  exact this

theorem Mem_stripPar (k : PKind) (last : Bool) (l : Label) (rs : List Route) (X : List Part) (i : Info) :
    Mem (rs.filterMap (stripPar k last l)) X i ↔ (Mem rs (.par k l :: X) i ∧ (wildK k && X.isEmpty) = last) := by
  constructor
  · rintro ⟨r', hr', hn, hi⟩
    simp only [List.mem_filterMap] at hr'
    obtain ⟨r, hr, hs⟩ := hr'
    obtain ⟨hp, hinfo, hlast⟩ := stripPar_some hs
    refine ⟨⟨r, hr, by rw [hp, norm_par, hn], by rw [← hinfo, hi]⟩, ?_⟩
    rw [← hn, isEmpty_norm]; exact hlast
  · rintro ⟨⟨r, hr, hn, hi⟩, hlast⟩
    obtain ⟨rest, hp, hX⟩ := norm_par_inv hn
    have hsp := stripPar_of_parts (r := r) hp
    have hcl : (wildK k && rest.isEmpty) = last := by rw [← hlast, ← hX, isEmpty_norm]
    rw [hcl] at hsp
    exact ⟨⟨rest, r.info⟩, by simp only [List.mem_filterMap]; exact ⟨r, hr, hsp⟩, hX, hi⟩

theorem mem_labelsOf_iff (k : PKind) (last : Bool) (rs : List Route) (l : Label) :
    l ∈ labelsOf k last rs ↔ ∃ X i, Mem rs (.par k l :: X) i ∧ (wildK k && X.isEmpty) = last := by
  constructor
  · intro h
    obtain ⟨r, hr, r', hh⟩ := labelsOf_mem_exists h
    have hsp : stripPar k last l r = some r' := by simp [stripPar, hh]
    obtain ⟨hp, hinfo, hlast⟩ := stripPar_some hsp
    exact ⟨norm r'.parts, r.info, ⟨r, hr, by rw [hp, norm_par], rfl⟩, by rw [isEmpty_norm]; exact hlast⟩
  · rintro ⟨X, i, ⟨r, hr, hn, _⟩, hlast⟩
    obtain ⟨rest, hp, hX⟩ := norm_par_inv hn
    have hh := headPar_of_parts (r := r) hp
    have hcl : (wildK k && rest.isEmpty) = last := by rw [← hlast, ← hX, isEmpty_norm]
    rw [hcl] at hh
    exact mem_labelsOf hr hh

/-- `insertLabel` keeps a strictly sorted list strictly sorted -/
theorem sortedL_insertLabel (l : Label) : ∀ (L : List Label), SortedL L → SortedL (insertLabel l L)
  | [], _ => by simp [insertLabel, SortedL]
  | x :: L, h => by
    simp only [SortedL, List.pairwise_cons] at h
    simp only [insertLabel]
    split
    · simp only [SortedL, List.pairwise_cons]; exact h
    · rename_i hne
      split
      · rename_i hlt
        simp only [SortedL, List.pairwise_cons, List.mem_cons]
        refine ⟨?_, h⟩
        rintro y (rfl | hy)
        · exact hlt
        · exact Label.lt_trans _ _ _ hlt (h.1 y hy)
      · rename_i hlt
        have hgt : Label.lt x l = true := by
          rcases Label.lt_total l x hne with h' | h'
          · exact absurd h' hlt
          · exact h'
        have ih := sortedL_insertLabel l L h.2
        simp only [SortedL, List.pairwise_cons]
        refine ⟨?_, ih⟩
        intro y hy
        rcases mem_insertLabel hy with rfl | hy'
        · exact hgt
        · exact h.1 y hy'

theorem sortedL_sortLabels : ∀ (X : List Label), SortedL (sortLabels X)
  | [] => by simp [sortLabels, SortedL]
  | x :: X => by
    simp only [sortLabels, List.foldr]
    exact sortedL_insertLabel x _ (sortedL_sortLabels X)

/-- along a strictly sorted list, skipping entries whose value is `none` -/
theorem firstSome_sorted_sub (g : Label → Res) : ∀ (L1 L2 : List Label), SortedL L1 → SortedL L2 →
    (∀ x ∈ L1, x ∈ L2) → (∀ x ∈ L2, x ∉ L1 → g x = none) → firstSome g L2 = firstSome g L1
  | L1, [], _, _, hsub, _ => by
    cases L1 with
    | nil => rfl
    | cons x _ => exact absurd (hsub x (by simp)) (by simp)
  | L1, y :: L2, h1, h2, hsub, hnone => by
    simp only [SortedL, List.pairwise_cons] at h2
    by_cases hy : y ∈ L1
    · -- y is the smallest element of L2 ⊇ L1, so it heads L1
      cases L1 with
      | nil => simp at hy
      | cons x L1' =>
        simp only [SortedL, List.pairwise_cons] at h1
        have hxy : x = y := by
          simp only [List.mem_cons] at hy
          rcases hy with rfl | hy
          · rfl
          · have h3 : Label.lt x y = true := h1.1 y hy
            have hx2 : x ∈ y :: L2 := hsub x (by simp)
            simp only [List.mem_cons] at hx2
            rcases hx2 with rfl | hx2
            · rfl
            · have h4 : Label.lt y x = true := h2.1 x hx2
              rw [Label.lt_asymm _ _ h3] at h4; cases h4
        subst hxy
        simp only [firstSome]
        congr 1
        apply firstSome_sorted_sub g L1' L2 h1.2 h2.2
        · intro z hz
          have := hsub z (by simp [hz])
          simp only [List.mem_cons] at this
          rcases this with rfl | h
          · exact absurd (h1.1 z hz) (by rw [Label.lt_irrefl]; simp)
          · exact h
        · intro z hz hzn
          apply hnone z (by simp [hz])
          simp only [List.mem_cons, not_or]
          exact ⟨fun e => by subst e; exact absurd (h2.1 z hz) (by rw [Label.lt_irrefl]; simp), hzn⟩
    · have hg := hnone y (by simp) hy
      simp only [firstSome, hg, orElse'_none_left]
      apply firstSome_sorted_sub g L1 L2 h1 h2.2
      · intro z hz
        have := hsub z hz
        simp only [List.mem_cons] at this
        rcases this with rfl | h
        · exact absurd hz hy
        · exact h
      · intro z hz hzn; exact hnone z (by simp [hz]) hzn
