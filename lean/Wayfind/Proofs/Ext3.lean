import Wayfind.Proofs.Ext2

/-- continuations only need to agree on acceptable candidates -/
theorem tryCands_congr_ok (env : Env) (cons : Option Bytes) (name path : Bytes) (ps : Params)
    (k k' : Bytes → Params → Res) : ∀ (cs : List Nat) (best : Res),
    (∀ c ∈ cs, candOk env cons (path.take c) = true → ∀ q, k (path.drop c) q = k' (path.drop c) q) →
    tryCands env cons name path ps k cs best = tryCands env cons name path ps k' cs best
  | [], _, _ => rfl
  | c :: cs, best, h => by
    rw [tryCands_cons, tryCands_cons]
    have hstep : stepCand env cons name path ps k c best = stepCand env cons name path ps k' c best := by
      unfold stepCand
      by_cases hok : candOk env cons (path.take c) = true
      · simp only [hok, ite_true]; rw [h c (by simp) hok]
      · simp [hok]
    rw [hstep]
    exact tryCands_congr_ok env cons name path ps k k' cs _ (fun c' hc' => h c' (by simp [hc']))

theorem norm_single_par {k : PKind} {l : Label} {parts : List Part} (h : norm parts = [.par k l]) : parts = [.par k l] := by
  obtain ⟨rest, hp, hX⟩ := norm_par_inv h
  rw [hp, (norm_eq_nil _).1 hX]

theorem endInfo_iff_Mem (k : PKind) (l : Label) (rs : List Route) (hF : Fun rs) (i : Info) :
    endInfo k l rs = some i ↔ Mem rs [.par k l] i := by
  constructor
  · intro h
    obtain ⟨r, hr, hp, hi⟩ := endInfo_some h
    exact ⟨r, hr, by rw [hp]; rfl, hi⟩
  · rintro ⟨r, hr, hn, hi⟩
    have hp := norm_single_par hn
    have hs := endInfo_isSome hr hp
    cases he : endInfo k l rs with
    | none => rw [he] at hs; cases hs
    | some j =>
      obtain ⟨r2, hr2, hp2, hj⟩ := endInfo_some he
      have : j = i := hF [.par k l] j i ⟨r2, hr2, by rw [hp2]; rfl, hj⟩ ⟨r, hr, hn, hi⟩
      rw [this]

theorem FitsN_pushByte (env : Env) (b : Byte) (X : List Part) (tl : Bytes) (hX : statsNE X) :
    FitsN env (pushByte b X) (b :: tl) ↔ FitsN env X tl := by
  cases X with
  | nil =>
    simp only [pushByte]
    constructor
    · rintro ⟨vs, h⟩
      generalize hp : b :: tl = path at h
      cases h with
      | stat p path' vs rest hne hrest =>
        simp only [List.cons_append, List.nil_append, List.cons.injEq] at hp
        exact ⟨vs, hp.2 ▸ hrest⟩
    · rintro ⟨vs, h⟩
      exact ⟨vs, Fits.stat [b] tl vs [] (by simp) h⟩
  | cons x X' =>
    cases x with
    | par k l =>
      simp only [pushByte]
      constructor
      · rintro ⟨vs, h⟩
        generalize hp : b :: tl = path at h
        cases h with
        | stat p path' vs rest hne hrest =>
          simp only [List.cons_append, List.nil_append, List.cons.injEq] at hp
          exact ⟨vs, hp.2 ▸ hrest⟩
      · rintro ⟨vs, h⟩
        exact ⟨vs, Fits.stat [b] tl vs _ (by simp) h⟩
    | stat q =>
      simp only [pushByte]
      constructor
      · rintro ⟨vs, h⟩
        generalize hp : b :: tl = path at h
        cases h with
        | stat p path' vs rest hne hrest =>
          simp only [List.cons_append, List.cons.injEq] at hp
          exact ⟨vs, hp.2 ▸ Fits.stat q path' vs X' hX.1 hrest⟩
      · rintro ⟨vs, h⟩
        generalize hp : tl = path at h
        cases h with
        | stat p path' vs rest hne hrest =>
          refine ⟨vs, ?_⟩
          have := Fits.stat (b :: q) path' vs X' (by simp) hrest
          simpa [hp] using this

/-- an acceptable capture followed by a fit of the remainder is a fit of the whole -/
theorem FitsN_par (env : Env) (k : PKind) (l : Label) (X : List Part) (path : Bytes) (c : Nat)
    (hc : c ∈ candsInline (wildK k) path)
    (hok : candOk env (if consK k then some l.cons else none) (path.take c) = true)
    (h : FitsN env X (path.drop c)) : FitsN env (.par k l :: X) path := by
  obtain ⟨vs, hf⟩ := h
  have hb := candsInline_bounds _ _ c hc
  have hv : path.take c ≠ [] := by
    intro h0; have := congrArg List.length h0
    simp only [List.length_take, List.length_nil] at this; omega
  have hval : env.valid (path.take c) = true := by simp only [candOk, Bool.and_eq_true] at hok; exact hok.1
  have hcon : consK k = true → env.chk l.cons (path.take c) = true := by
    intro hck; simp only [candOk, hck, ite_true, Bool.and_eq_true] at hok; exact hok.2
  have hslash : wildK k = false → (47 : Byte) ∉ path.take c := by
    intro hwk; rw [hwk] at hc; exact take_no_slash path c (candsInline_dyn_le path c hc)
  have := Fits.par k l (path.take c) (path.drop c) vs X hv hslash hval hcon hf
  rw [List.take_append_drop] at this
  exact ⟨_, this⟩
