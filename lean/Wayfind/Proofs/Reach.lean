import Wayfind.Proofs.DelGood

/-! reachable trees: what `Router::insert` / `Router::delete` do to the root, as sequences of tree operations -/

inductive ROp where
  /-- a successful `Router::insert`: every expansion inserted, then `optimize` -/
  | insert (exps : List (List Part × Info))
  /-- a `Router::delete` that got past validation: every expansion deleted; `optimize` runs when data came back -/
  | delete (exps : List (List Part)) (optimizeAfter : Bool)

def ROp.wf : ROp → Prop
  | .insert exps => ∀ x ∈ exps, wfParts x.1 = true
  | .delete exps _ => ∀ x ∈ exps, wfParts x = true

def applyROp (n : Node) : ROp → Node
  | .insert exps => Node.optimize (exps.foldl (fun t x => Node.insert t x.1 x.2) n)
  | .delete exps o =>
    let n' := exps.foldl (fun t x => (Node.delete false t x).1) n
    if o then Node.optimize n' else n'

def Good3 (n : Node) : Prop := Node.Shp n ∧ Node.Srt n ∧ Node.FS n

theorem SoD_of_Good3 : ∀ (n : Node), Node.Srt n → Node.FS n → Node.SoD n
  | .mk _ _ _ _ _ _ _ _ _ _ _, hs, hf => Or.inl ⟨hs, hf⟩

theorem good3_empty : Good3 Node.empty := by
  simp [Good3, Node.empty, Node.Shp, Node.Srt, Node.FS, Kids.All, Kids.distinctHeads, Kids.leaves, Kids.labels,
    NodupL, SortedL, Kids.Shpk, Kids.Srtk, Kids.FSk]

theorem good3_step (n : Node) (op : ROp) (h : Good3 n) (hwf : op.wf) : Good3 (applyROp n op) := by
  obtain ⟨hS, hR, hF⟩ := h
  cases op with
  | insert exps =>
    have := insert_then_optimize_walk ⟨fun _ _ => true, fun _ => true⟩ n exps hS (SoD_of_Good3 n hR hF) hwf [] []
    exact ⟨this.1, this.2.1, this.2.2.1⟩
  | delete exps o =>
    have key : ∀ (exps : List (List Part)) (n : Node), Good3 n → (∀ x ∈ exps, wfParts x = true) →
        Good3 (exps.foldl (fun t x => (Node.delete false t x).1) n) := by
      intro exps
      induction exps with
      | nil => intro n h _; exact h
      | cons x xs ih =>
        intro n h hw
        simp only [List.foldl_cons]
        apply ih _ _ (fun y hy => hw y (by simp [hy]))
        have := delete_keeps_walk ⟨fun _ _ => true, fun _ => true⟩ n x h.1 h.2.1 h.2.2 (hw x (by simp)) [] []
        exact ⟨this.1, this.2.1, this.2.2.1⟩
    have hg := key exps n ⟨hS, hR, hF⟩ hwf
    simp only [applyROp]
    cases o with
    | false => exact hg
    | true =>
      simp only [ite_true]
      have hok := Node.optimize_OKs _ hg.1 (SoD_of_Good3 _ hg.2.1 hg.2.2)
      exact ⟨Node.optimize_Shp _ hg.1, hok.1, hok.2⟩

theorem good3_reachable : ∀ (ops : List ROp), (∀ op ∈ ops, op.wf) → ∀ (n : Node), Good3 n → Good3 (ops.foldl applyROp n)
  | [], _, n, h => h
  | op :: ops, hw, n, h => by
    simp only [List.foldl_cons]
    exact good3_reachable ops (fun o ho => hw o (by simp [ho])) _ (good3_step n op h (hw op (by simp)))

/-- **Reachable-state T-walk (tree layer).** For every history of router-level inserts and deletes of
    well-formed part lists, starting from the empty root, the search on the resulting tree — with whatever
    flags, dirty marks and radix shape that history left behind — is the documented walk over the tree's
    routes; hence it is sound and complete for `Fits`, for every constraint environment. -/
theorem reachable_search (env : Env) (ops : List ROp) (hw : ∀ op ∈ ops, op.wf) (path : Bytes) :
    let t := ops.foldl applyROp Node.empty
    Node.search env t path [] = refWalk env path.length (Node.routes t) path [] ∧
    (∀ i ps', Node.search env t path [] = some (i, ps') → ∃ r ∈ Node.routes t, r.info = i ∧ Fits env r.parts path ps') ∧
    ((∃ r ∈ Node.routes t, ∃ vs, Fits env r.parts path vs) → (Node.search env t path []).isSome = true) := by
  obtain ⟨hS, hR, hF⟩ := good3_reachable ops hw Node.empty good3_empty
  have hT := TSany_of_Shp_Srt _ hS hR
  have hwalk := Node.search_eq_refWalk env _ hT hF path [] path.length (Nat.le_refl _)
  refine ⟨hwalk, ?_, ?_⟩
  · intro i ps' h
    rw [hwalk] at h
    obtain ⟨r, hr, hi, vs, hf, hps⟩ := refWalk_sound env _ _ _ _ _ _ h
    exact ⟨r, hr, hi, by simpa [hps] using hf⟩
  · intro h
    rw [hwalk]
    exact refWalk_complete env _ _ _ _ (Nat.le_refl _) h

#print axioms reachable_search
