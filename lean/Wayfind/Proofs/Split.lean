import Wayfind.Proofs.Descend

theorem head_append_ne {a t : Bytes} (ha : a ≠ []) : (a ++ t).head? = a.head? := by
  cases a with
  | nil => exact absurd rfl ha
  | cons x a => simp

/-- Lemma F: what `findStatic` does at a child whose first byte is unique among its siblings. -/
theorem findStatic_cons_spec (l : Label) (n : Node) (r : Kids) (q : Bytes) (qrest : List Part)
    (hl : l.pre ≠ []) (hr : Kids.noHead l.pre.head? r) :
    Kids.findStatic (.cons l n r) q qrest =
      if l.pre.isPrefixOf q then Node.find n (below q l.pre.length qrest)
      else if l.pre.head? = q.head? then none else Kids.findStatic r q qrest := by
  simp only [Kids.findStatic]
  by_cases hh : l.pre.head? = q.head?
  · simp only [hh, ite_true]
    by_cases hc : l.pre.length ≤ commonLen q l.pre
    · obtain ⟨u, hu⟩ := (commonLen_ge_iff q l.pre).1 hc
      have hpre : l.pre.isPrefixOf q = true := by rw [List.isPrefixOf_iff_prefix]; exact ⟨u, hu.symm⟩
      have hcl : commonLen q l.pre = l.pre.length := by rw [hu, commonLen_append_left]
      rw [hcl]
      simp only [Nat.le_refl, ite_true, hpre]
      unfold below; split <;> rfl
    · have hpre : ¬ l.pre.isPrefixOf q = true := by
        rw [List.isPrefixOf_iff_prefix]; rintro ⟨u, hu⟩
        exact hc ((commonLen_ge_iff q l.pre).2 ⟨u, hu.symm⟩)
      simp only [hc, ite_false, hpre]
      exact findStatic_noHead r q qrest (hh ▸ hr)
  · have hpre : ¬ l.pre.isPrefixOf q = true := by
      rw [List.isPrefixOf_iff_prefix]; rintro ⟨u, hu⟩
      apply hh; rw [← hu, head_append_ne hl]
    simp [hh, hpre]

/-- the node that replaces a split child before anything is inserted into it -/
def splitParent (la : Label) (n : Node) : Node :=
  .mk none (.cons la n .nil) .nil .nil .nil .nil .nil .nil false false true

theorem find_splitParent_nonstat (la : Label) (n : Node) : ∀ (Q : List Part), (∀ t rest, Q ≠ .stat t :: rest) →
    Node.find (splitParent la n) Q = none
  | [], _ => by simp [splitParent, Node.find]
  | .stat t :: rest, h => absurd rfl (h t rest)
  | .par k l :: rest, _ => by simp only [splitParent, Node.find]; split <;> simp [findPar_nil]

/-- splitting an edge (without inserting anything) does not change `findStatic` -/
theorem findStatic_split (l : Label) (n : Node) (r : Kids) (c : Nat) (q : Bytes) (qrest : List Part)
    (hc0 : 0 < c) (hc : c < l.pre.length) (hr : Kids.noHead l.pre.head? r)
    (hQ : altOK (.stat q :: qrest) = true) :
    Kids.findStatic (.cons {pre := l.pre.take c} (splitParent {pre := l.pre.drop c} n) r) q qrest =
      Kids.findStatic (.cons l n r) q qrest := by
  have hl : l.pre ≠ [] := by intro h; simp [h] at hc
  have htake : l.pre.take c ≠ [] := by
    intro h; have h' := congrArg List.length h
    simp only [List.length_take, List.length_nil] at h'; omega
  have hdrop : l.pre.drop c ≠ [] := by
    intro h; have h' := congrArg List.length h
    simp only [List.length_drop, List.length_nil] at h'; omega
  have hhead : (l.pre.take c).head? = l.pre.head? := by
    conv => rhs; rw [← List.take_append_drop c l.pre]
    rw [head_append_ne htake]
  rw [findStatic_cons_spec _ _ _ _ _ htake (by simpa [hhead] using hr), findStatic_cons_spec l n r q qrest hl hr]
  simp only [hhead]
  by_cases h1 : (l.pre.take c).isPrefixOf q = true
  · simp only [h1, ite_true]
    obtain ⟨t, ht⟩ := List.isPrefixOf_iff_prefix.1 h1
    have hlen : (l.pre.take c).length = c := by simp; omega
    subst ht
    -- q = take ++ t
    have hpre_iff : l.pre.isPrefixOf (l.pre.take c ++ t) = true ↔ (l.pre.drop c).isPrefixOf t = true := by
      rw [List.isPrefixOf_iff_prefix, List.isPrefixOf_iff_prefix]
      have := @List.prefix_append_right_inj _ (l.pre.drop c) t (l.pre.take c)
      rw [List.take_append_drop] at this
      exact this
    by_cases ht0 : t = []
    · subst ht0
      have : ¬ l.pre.isPrefixOf (l.pre.take c ++ []) = true := by
        rw [hpre_iff]; simp [hdrop]
      simp only [this, ite_false]
      have hb : below (List.take c l.pre ++ []) (List.take c l.pre).length qrest = qrest := by simp [below]
      rw [hb]
      have hhq : l.pre.head? = (List.take c l.pre ++ []).head? := by simp [hhead]
      simp only [hhq, ite_true]
      apply find_splitParent_nonstat
      intro t rest h; subst h; simp [altOK] at hQ
    · have htl : 0 < t.length := List.length_pos_iff.mpr ht0
      have hb : below (List.take c l.pre ++ t) (List.take c l.pre).length qrest = .stat t :: qrest := by
        unfold below
        rw [if_neg (by simp only [List.length_append]; omega)]
        simp
      rw [hb]
      simp only [splitParent, Node.find]
      rw [findStatic_cons_spec _ _ _ _ _ hdrop (by simp [Kids.noHead])]
      simp only [findStatic_nil]
      by_cases h2 : (l.pre.drop c).isPrefixOf t = true
      · have h3 := hpre_iff.2 h2
        simp only [h2, h3, ite_true]
        obtain ⟨u, hu⟩ := List.isPrefixOf_iff_prefix.1 h2
        subst hu
        congr 1
        unfold below
        have e1 : (List.take c l.pre ++ (List.drop c l.pre ++ u)) = l.pre ++ u := by
          rw [← List.append_assoc, List.take_append_drop]
        simp only [e1, List.length_append, List.drop_left']
        by_cases hu0 : u = []
        · subst hu0; simp
        · have : 0 < u.length := List.length_pos_iff.mpr hu0
          have h4 : ¬ ((List.drop c l.pre).length + u.length ≤ (List.drop c l.pre).length) := by omega
          have h5 : ¬ (l.pre.length + u.length ≤ l.pre.length) := by omega
          simp [h4, h5, this]
      · have h3 : ¬ l.pre.isPrefixOf (l.pre.take c ++ t) = true := fun h => h2 (hpre_iff.1 h)
        have hhq : l.pre.head? = (List.take c l.pre ++ t).head? := by rw [head_append_ne htake, hhead]
        simp [h2, h3, hhq]
  · have h3 : ¬ l.pre.isPrefixOf q = true := by
      rw [List.isPrefixOf_iff_prefix]; rintro ⟨u, hu⟩
      apply h1; rw [List.isPrefixOf_iff_prefix]
      exact ⟨l.pre.drop c ++ u, by rw [← List.append_assoc, List.take_append_drop]; exact hu⟩
    simp [h1, h3]
