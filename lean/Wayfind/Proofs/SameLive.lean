import Wayfind.Proofs.WalkMapInfo
import Wayfind.Proofs.Registry10

/-! C05, search half, on live templates: the result of every search is a function of the set of live (template, data) pairs -/

theorem erase_eq_of_infoOK {lt lt' : LiveT} {e : Bytes × List Part} {i j : Info}
    (hi : infoOK lt e i) (hj : infoOK lt' e j) (ht : lt.template = lt'.template) (hd : lt.data = lt'.data)
    (he : lt.exps = lt'.exps) : eraseCell i = eraseCell j := by
  obtain ⟨i1, i2, ei, hpi, i3, i4, i5⟩ := hi
  obtain ⟨j1, j2, ej, hpj, j3, j4, j5⟩ := hj
  rw [he, hpj] at hpi
  injection hpi with hpi
  subst hpi
  cases i; cases j
  simp only [eraseCell, Info.mk.injEq] at *
  subst i1 i2 i3 i4 i5 j1 j2 j3 j4 j5
  refine ⟨ht, ?_, hd, ?_⟩
  · rw [he]
  · simp

theorem mem_mapI {g : Info → Info} {rs : List Route} {P : List Part} {i : Info} :
    Mem (rs.map (Route.mapI g)) P i ↔ ∃ j, Mem rs P j ∧ i = g j := by
  constructor
  · rintro ⟨r, hr, hn, hi⟩
    obtain ⟨r0, hr0, rfl⟩ := List.mem_map.1 hr
    exact ⟨r0.info, ⟨r0, hr0, hn, rfl⟩, hi.symm⟩
  · rintro ⟨j, ⟨r0, hr0, hn, hj⟩, rfl⟩
    exact ⟨r0.mapI g, List.mem_map.2 ⟨r0, hr0, rfl⟩, hn, by simp [Route.mapI, hj]⟩

/-- every erased stored route of `r1` is an erased stored route of `r2` when `L2` contains the live pairs of `L1` -/
theorem erased_routes_sub {r1 r2 : Router} {L1 L2 : List LiveT} (h1 : Live r1 L1) (h2 : Live r2 L2)
    (hsub : ∀ lt ∈ L1, ∃ lt' ∈ L2, lt'.template = lt.template ∧ lt'.data = lt.data) (P : List Part) (i : Info) :
    Mem ((Node.routes r1.root).map (Route.mapI eraseCell)) P i → Mem ((Node.routes r2.root).map (Route.mapI eraseCell)) P i := by
  intro hm
  obtain ⟨j, ⟨rt, hr, hn, hj⟩, rfl⟩ := mem_mapI.1 hm
  have hreg1 := h1.rinv.reg
  have hreg2 := h2.rinv.reg
  obtain ⟨hwf, hf⟩ := route_find hreg1.shp rt hr
  rw [hn, hj] at hf; rw [hn] at hwf
  obtain ⟨lt, hlt, e, he, hk, hok⟩ := hreg1.sound P j hwf hf
  obtain ⟨lt', hlt', ht', hd'⟩ := hsub lt hlt
  have hexps : lt'.exps = lt.exps := by
    have a := hreg1.parsed lt hlt
    have b := hreg2.parsed lt' hlt'
    rw [ht', a] at b; injection b with b; exact b.symm
  obtain ⟨j', hf', hok'⟩ := hreg2.complete lt' hlt' e (by rw [hexps]; exact he)
  rw [hk] at hf'
  have := (Node.find_iff r2.root P j' hreg2.shp hwf).1 hf'
  refine mem_mapI.2 ⟨j', this, ?_⟩
  exact erase_eq_of_infoOK hok hok' ht'.symm hd'.symm hexps.symm

theorem search_as_erased_walk (env : Env) {r : Router} (h : Reachable r) (path : Bytes) :
    r.search env path = (refWalk env path.length ((Node.routes r.root).map (Route.mapI eraseCell)) path []).map toMatch := by
  rw [Router.search_eq_walk env r h path, refWalk_mapI eraseCell eraseCell_keeps, toMatch_erase]

/-- **C05, search half.** Two routers reached through the API that hold the same set of (template, data) pairs return
identical results for every path, whatever their histories. -/
theorem same_live_same_search (env : Env) {r1 r2 : Router} {L1 L2 : List LiveT} (h1 : Live r1 L1) (h2 : Live r2 L2)
    (h12 : ∀ lt ∈ L1, ∃ lt' ∈ L2, lt'.template = lt.template ∧ lt'.data = lt.data)
    (h21 : ∀ lt ∈ L2, ∃ lt' ∈ L1, lt'.template = lt.template ∧ lt'.data = lt.data) (path : Bytes) :
    r1.search env path = r2.search env path := by
  rw [search_as_erased_walk env h1.reachable, search_as_erased_walk env h2.reachable]
  congr 1
  have hS1 := h1.rinv.reg.shp
  have hS2 := h2.rinv.reg.shp
  have sne : ∀ (root : Node), Node.Shp root → SNE ((Node.routes root).map (Route.mapI eraseCell)) := by
    intro root hS r hr
    obtain ⟨r0, hr0, rfl⟩ := List.mem_map.1 hr
    exact routes_SNE root hS r0 hr0
  have fn : ∀ (root : Node), Node.Shp root → Fun ((Node.routes root).map (Route.mapI eraseCell)) := by
    intro root hS P a b ha hb
    obtain ⟨ja, hma, rfl⟩ := mem_mapI.1 ha
    obtain ⟨jb, hmb, rfl⟩ := mem_mapI.1 hb
    rw [routes_Fun root hS P ja jb hma hmb]
  exact refWalk_ext env path.length _ _ path [] (Nat.le_refl _) (sne _ hS1) (sne _ hS2) (fn _ hS1) (fn _ hS2)
    ⟨erased_routes_sub h1 h2 h12, fun P i hm => Or.inl (erased_routes_sub h2 h1 h21 P i hm)⟩
