import Wayfind.Proofs.InsHelp

/-- what the induction on the size of the part list provides for every node -/
def InsIH (m : Nat) : Prop :=
  ∀ P, psize P < m → ∀ (n : Node) (i : Info), Node.Shp n → wfParts P = true →
    Node.Shp (Node.insert n P i) ∧ Node.routes (Node.insert n P i) ≠ [] ∧
    (P ≠ [] → (Node.insert n P i).data = n.data) ∧
    (startsStatOrEnd P → n.onlyStatic → (Node.insert n P i).onlyStatic)

theorem Shpk_cons_iff (l : Label) (n : Node) (r : Kids) :
    Kids.Shpk (.cons l n r) ↔ Node.Shp n ∧ Node.routes n ≠ [] ∧ Kids.Shpk r := by simp [Kids.Shpk]

theorem All_cons_iff {P : Label → Node → Prop} (l : Label) (n : Node) (r : Kids) :
    Kids.All P (.cons l n r) ↔ P l n ∧ Kids.All P r := by simp [Kids.All]

/-- a parameter vector after `insertPar` -/
theorem par_vec (mk : Label → Part) (m : Nat) (ih : InsIH m) (mid : Bool) (ks : Kids) (l : Label) (rest : List Part) (i : Info)
    (hsz : psize rest < m) (hwf : wfParts rest = true) (hst : startsStatOrEnd rest) (hmid : mid = true → rest ≠ [])
    (h1 : NodupL ks.labels) (h2 : Kids.All (fun _ n => n.onlyStatic) ks) (h3 : Kids.Shpk ks)
    (h4 : mid = true → Kids.All (fun _ n => n.data = none) ks) :
    NodupL (Kids.insertPar ks l rest i).labels ∧ Kids.All (fun _ n => n.onlyStatic) (Kids.insertPar ks l rest i) ∧
    Kids.Shpk (Kids.insertPar ks l rest i) ∧
    (mid = true → Kids.All (fun _ n => n.data = none) (Kids.insertPar ks l rest i)) ∧
    Kids.routes mk (Kids.insertPar ks l rest i) ≠ [] := by
  rcases insertPar_cases ks l rest i with ⟨A, n, B, hks, _, hres⟩ | ⟨hn, hres⟩
  · subst hks
    rw [hres]
    rw [Kids.All_app, All_cons_iff] at h2
    rw [Kids.Shpk_app, Shpk_cons_iff] at h3
    obtain ⟨hS, hR, hD, hO⟩ := ih rest hsz n i h3.2.1 hwf
    refine ⟨?_, ?_, ?_, ?_, kroutes_ne_of_app mk A l _ B hR⟩
    · simpa [Kids.labels_app, Kids.labels] using h1
    · rw [Kids.All_app, All_cons_iff]; exact ⟨h2.1, hO hst h2.2.1, h2.2.2⟩
    · rw [Kids.Shpk_app, Shpk_cons_iff]; exact ⟨h3.1, hS, hR, h3.2.2.2⟩
    · intro hm
      have h4' := h4 hm
      rw [Kids.All_app, All_cons_iff] at h4' ⊢
      exact ⟨h4'.1, by show (Node.insert n rest i).data = none; rw [hD (hmid hm)]; exact h4'.2.1, h4'.2.2⟩
  · rw [hres]
    refine ⟨?_, ?_, ?_, ?_, ?_⟩
    · rw [Kids.labels_app]; exact nodupL_append_one _ _ h1 hn
    · rw [Kids.All_app]; exact ⟨h2, by simp [Kids.one, Kids.All, chain_onlyStatic rest i hst]⟩
    · rw [Kids.Shpk_app]; exact ⟨h3, by simp [Kids.one, Kids.Shpk, chain_Shp rest i hwf, chain_routes_ne]⟩
    · intro hm; rw [Kids.All_app]; exact ⟨h4 hm, by simp [Kids.one, Kids.All, chain_data rest i (hmid hm)]⟩
    · have := kroutes_ne_of_app mk ks l (chain rest i) .nil (chain_routes_ne rest i)
      simpa [Kids.one] using this

/-- a catch-all vector after `insertEnd` -/
theorem end_vec (mk : Label → Part) (ks : Kids) (l : Label) (i : Info) (h1 : NodupL ks.labels) (h2 : Kids.leaves ks) :
    NodupL (Kids.insertEnd ks l i).labels ∧ Kids.leaves (Kids.insertEnd ks l i) ∧
    Kids.routes mk (Kids.insertEnd ks l i) ≠ [] := by
  rcases insertEnd_cases ks l i with ⟨hm, hres⟩ | ⟨hn, hres⟩
  · rw [hres]
    refine ⟨h1, h2, ?_⟩
    cases ks with
    | nil => simp [Kids.labels] at hm
    | cons l' n r =>
      obtain ⟨⟨j, hj⟩, _⟩ := h2
      simp only [Kids.routes, (routes_leaf hj).1]
      simp
  · rw [hres]
    refine ⟨?_, ?_, ?_⟩
    · rw [Kids.labels_app]; exact nodupL_append_one _ _ h1 hn
    · rw [Kids.leaves_app]; exact ⟨h2, by simp only [Kids.one, Kids.leaves]; exact ⟨⟨i, leaf_isLeaf i⟩, trivial⟩⟩
    · have := kroutes_ne_of_app mk ks l (Node.leaf i) .nil (by simp [routes_leafNode])
      simpa [Kids.one] using this

theorem head_take (q : Bytes) (c : Nat) (hc : 0 < c) : (q.take c).head? = q.head? := by
  cases q with
  | nil => simp
  | cons a t => cases c with
    | zero => omega
    | succ c => simp

/-- the static vector after `insertStatic` -/
theorem stat_vec (m : Nat) (ih : InsIH m) (ks : Kids) (p : Bytes) (rest : List Part) (i : Info)
    (hsz : psize (.stat p :: rest) ≤ m) (hwf : wfParts (.stat p :: rest) = true)
    (h1 : Kids.All (fun l _ => l.pre ≠ []) ks) (h2 : Kids.distinctHeads ks) (h3 : Kids.Shpk ks) :
    Kids.All (fun l _ => l.pre ≠ []) (Kids.insertStatic ks p rest i) ∧
    Kids.distinctHeads (Kids.insertStatic ks p rest i) ∧ Kids.Shpk (Kids.insertStatic ks p rest i) ∧
    Kids.routes statPart (Kids.insertStatic ks p rest i) ≠ [] := by
  have halt := wfParts_altOK _ hwf
  have hp := altOK_stat_ne halt
  rw [distinctHeads_iff] at h2 ⊢
  rcases insertStatic_cases ks p rest i halt with ⟨A, l, n, B, t, hks, hpt, _, hres⟩ | ⟨A, l, n, B, c, hks, hc0, hc1, hc2, _, _, hres⟩ | ⟨hn, hres⟩
  · -- descend
    subst hks
    rw [hres]
    rw [Kids.All_app, All_cons_iff] at h1
    rw [Kids.Shpk_app, Shpk_cons_iff] at h3
    have hlpos : 0 < l.pre.length := List.length_pos_iff.mpr h1.2.1
    obtain ⟨hS, hR, _, _⟩ := ih (below p l.pre.length rest) (by have := psize_below_lt p l.pre.length rest hlpos; omega)
      n i h3.2.1 (wfParts_below p _ rest hwf)
    refine ⟨?_, ?_, ?_, kroutes_ne_of_app statPart A l _ B hR⟩
    · rw [Kids.All_app, All_cons_iff]; exact h1
    · simpa [Kids.heads_app, Kids.heads] using h2
    · rw [Kids.Shpk_app, Shpk_cons_iff]; exact ⟨h3.1, hS, hR, h3.2.2.2⟩
  · -- split
    subst hks
    rw [hres]
    rw [Kids.All_app, All_cons_iff] at h1
    rw [Kids.Shpk_app, Shpk_cons_iff] at h3
    have hdrop : l.pre.drop c ≠ [] := by
      intro e; have := congrArg List.length e
      simp only [List.length_drop, List.length_nil] at this; omega
    have htake : l.pre.take c ≠ [] := by
      intro e; have := congrArg List.length e
      simp only [List.length_take, List.length_nil] at this; omega
    obtain ⟨hS, hR, _, _⟩ := ih (below p c rest) (by have := psize_below_lt p c rest hc0; omega)
      (splitParent {pre := l.pre.drop c} n) i (splitParent_Shp _ n hdrop h3.2.1 h3.2.2.1) (wfParts_below p _ rest hwf)
    refine ⟨?_, ?_, ?_, kroutes_ne_of_app statPart A _ _ B hR⟩
    · rw [Kids.All_app, All_cons_iff]; exact ⟨h1.1, htake, h1.2.2⟩
    · simpa [Kids.heads_app, Kids.heads, head_take l.pre c hc0] using h2
    · rw [Kids.Shpk_app, Shpk_cons_iff]; exact ⟨h3.1, hS, hR, h3.2.2.2⟩
  · -- new child
    rw [hres]
    have hwr := wfParts_tail hwf
    refine ⟨?_, ?_, ?_, ?_⟩
    · rw [Kids.All_app]; exact ⟨h1, by simp [Kids.one, Kids.All, hp]⟩
    · rw [Kids.heads_app, List.pairwise_append]
      refine ⟨h2, by simp [Kids.one, Kids.heads], ?_⟩
      intro a ha b hb
      simp only [Kids.one, Kids.heads, List.mem_singleton] at hb
      subst hb
      intro e; subst e; exact hn ha
    · rw [Kids.Shpk_app]; exact ⟨h3, by simp [Kids.one, Kids.Shpk, chain_Shp rest i hwr, chain_routes_ne]⟩
    · have := kroutes_ne_of_app statPart ks {pre := p} (chain rest i) .nil (chain_routes_ne rest i)
      simpa [Kids.one] using this

theorem routes_ne_of_left {a b : List Route} (h : a ≠ []) : a ++ b ≠ [] := by
  intro e; exact h (List.append_eq_nil_iff.1 e).1
theorem routes_ne_of_right {a b : List Route} (h : b ≠ []) : a ++ b ≠ [] := by
  intro e; exact h (List.append_eq_nil_iff.1 e).2

theorem insIH_all : ∀ m, InsIH m := by
  intro m
  induction m with
  | zero => intro P h; omega
  | succ m ih =>
    intro P hP n i hS hwf
    cases n with
    | mk x s dc d wc w ec e ds ws dirty =>
    simp only [Node.Shp] at hS
    obtain ⟨hs1, hs2, hwcd, hwd, hecl, hel, ndc, nd, nwc, nw, nec, ne, odc, od, owc, ow, ks, kdc, kd, kwc, kw⟩ := hS
    cases P with
    | nil =>
      refine ⟨?_, ?_, fun h => absurd rfl h, ?_⟩
      · simp only [Node.insert, Node.Shp]
        exact ⟨hs1, hs2, hwcd, hwd, hecl, hel, ndc, nd, nwc, nw, nec, ne, odc, od, owc, ow, ks, kdc, kd, kwc, kw⟩
      · simp [Node.insert, Node.routes]
      · intro _ ho; simpa [Node.insert, Node.onlyStatic] using ho
    | cons part rest =>
      cases part with
      | stat p =>
        obtain ⟨a1, a2, a3, a4⟩ := stat_vec m ih s p rest i (by omega) hwf hs1 hs2 ks
        refine ⟨?_, ?_, fun _ => by simp [Node.insert, Node.data], ?_⟩
        · simp only [Node.insert, Node.Shp]
          exact ⟨a1, a2, hwcd, hwd, hecl, hel, ndc, nd, nwc, nw, nec, ne, odc, od, owc, ow, a3, kdc, kd, kwc, kw⟩
        · simp only [Node.insert, routes_eq]
          exact routes_ne_of_left (routes_ne_of_left (routes_ne_of_left (routes_ne_of_left (routes_ne_of_left
            (routes_ne_of_left (routes_ne_of_right a4))))))
        · intro _ ho; simpa [Node.insert, Node.onlyStatic] using ho
      | par k l =>
        have hwr := wfParts_tail hwf
        have hst := wfParts_after_par hwf
        have hsz : psize rest < m := by simp only [psize] at hP; omega
        refine ⟨?_, ?_, ?_, fun h => by simp [startsStatOrEnd] at h⟩
        all_goals simp only [Node.insert]
        all_goals cases hsl : slotOf k rest.isEmpty
        -- shape
        · obtain ⟨b1, b2, b3, _, _⟩ := par_vec (.par .dynC) m ih false dc l rest i hsz hwr hst (by intro h; cases h) ndc odc kdc (by intro h; cases h)
          simp only [Node.Shp]
          exact ⟨hs1, hs2, hwcd, hwd, hecl, hel, b1, nd, nwc, nw, nec, ne, b2, od, owc, ow, ks, b3, kd, kwc, kw⟩
        · obtain ⟨b1, b2, b3, _, _⟩ := par_vec (.par .dyn) m ih false d l rest i hsz hwr hst (by intro h; cases h) nd od kd (by intro h; cases h)
          simp only [Node.Shp]
          exact ⟨hs1, hs2, hwcd, hwd, hecl, hel, ndc, b1, nwc, nw, nec, ne, odc, b2, owc, ow, ks, kdc, b3, kwc, kw⟩
        · have hne : rest ≠ [] := by intro e; subst e; cases k <;> simp [slotOf] at hsl
          obtain ⟨b1, b2, b3, b4, _⟩ := par_vec (.par .wildC) m ih true wc l rest i hsz hwr hst (fun _ => hne) nwc owc kwc (fun _ => hwcd)
          simp only [Node.Shp]
          exact ⟨hs1, hs2, b4 rfl, hwd, hecl, hel, ndc, nd, b1, nw, nec, ne, odc, od, b2, ow, ks, kdc, kd, b3, kw⟩
        · have hne : rest ≠ [] := by intro e; subst e; cases k <;> simp [slotOf] at hsl
          obtain ⟨b1, b2, b3, b4, _⟩ := par_vec (.par .wild) m ih true w l rest i hsz hwr hst (fun _ => hne) nw ow kw (fun _ => hwd)
          simp only [Node.Shp]
          exact ⟨hs1, hs2, hwcd, b4 rfl, hecl, hel, ndc, nd, nwc, b1, nec, ne, odc, od, owc, b2, ks, kdc, kd, kwc, b3⟩
        · obtain ⟨c1, c2, _⟩ := end_vec (.par .wildC) ec l i nec hecl
          simp only [Node.Shp]
          exact ⟨hs1, hs2, hwcd, hwd, c2, hel, ndc, nd, nwc, nw, c1, ne, odc, od, owc, ow, ks, kdc, kd, kwc, kw⟩
        · obtain ⟨c1, c2, _⟩ := end_vec (.par .wild) e l i ne hel
          simp only [Node.Shp]
          exact ⟨hs1, hs2, hwcd, hwd, hecl, c2, ndc, nd, nwc, nw, nec, c1, odc, od, owc, ow, ks, kdc, kd, kwc, kw⟩
        -- routes
        · obtain ⟨_, _, _, _, b5⟩ := par_vec (.par .dynC) m ih false dc l rest i hsz hwr hst (by intro h; cases h) ndc odc kdc (by intro h; cases h)
          simp only [routes_eq]
          exact routes_ne_of_left (routes_ne_of_left (routes_ne_of_left (routes_ne_of_left (routes_ne_of_left (routes_ne_of_right b5)))))
        · obtain ⟨_, _, _, _, b5⟩ := par_vec (.par .dyn) m ih false d l rest i hsz hwr hst (by intro h; cases h) nd od kd (by intro h; cases h)
          simp only [routes_eq]
          exact routes_ne_of_left (routes_ne_of_left (routes_ne_of_left (routes_ne_of_left (routes_ne_of_right b5))))
        · have hne : rest ≠ [] := by intro e; subst e; cases k <;> simp [slotOf] at hsl
          obtain ⟨_, _, _, _, b5⟩ := par_vec (.par .wildC) m ih true wc l rest i hsz hwr hst (fun _ => hne) nwc owc kwc (fun _ => hwcd)
          simp only [routes_eq]
          exact routes_ne_of_left (routes_ne_of_left (routes_ne_of_left (routes_ne_of_right b5)))
        · have hne : rest ≠ [] := by intro e; subst e; cases k <;> simp [slotOf] at hsl
          obtain ⟨_, _, _, _, b5⟩ := par_vec (.par .wild) m ih true w l rest i hsz hwr hst (fun _ => hne) nw ow kw (fun _ => hwd)
          simp only [routes_eq]
          exact routes_ne_of_left (routes_ne_of_left (routes_ne_of_right b5))
        · obtain ⟨_, _, c3⟩ := end_vec (.par .wildC) ec l i nec hecl
          simp only [routes_eq]
          exact routes_ne_of_left (routes_ne_of_right c3)
        · obtain ⟨_, _, c3⟩ := end_vec (.par .wild) e l i ne hel
          simp only [routes_eq]
          exact routes_ne_of_right c3
        -- data
        all_goals (intro _; simp [Node.data])

/-- **Shape preservation by insert**, for every node and every well-formed part list. -/
theorem Node.insert_Shp (n : Node) (P : List Part) (i : Info) (hS : Node.Shp n) (hwf : wfParts P = true) :
    Node.Shp (Node.insert n P i) ∧ Node.routes (Node.insert n P i) ≠ [] :=
  let h := insIH_all (psize P + 1) P (Nat.lt_succ_self _) n i hS hwf
  ⟨h.1, h.2.1⟩

#print axioms Node.insert_Shp
