import Wayfind.Proofs.SortLemmas

mutual
def Node.Srt : Node → Prop
  | .mk _ s dc d wc w ec e _ _ _ =>
    SortedL dc.labels ∧ SortedL d.labels ∧ SortedL wc.labels ∧ SortedL w.labels ∧ SortedL ec.labels ∧ SortedL e.labels ∧
    Kids.Srtk s ∧ Kids.Srtk dc ∧ Kids.Srtk d ∧ Kids.Srtk wc ∧ Kids.Srtk w
def Kids.Srtk : Kids → Prop
  | .nil => True
  | .cons _ n r => Node.Srt n ∧ Kids.Srtk r
end

-- "sorted and flag-sound below here", or "dirty, with every child in the same situation":
-- what the dirty-gated optimize needs to find in order to repair everything
mutual
def Node.SoD : Node → Prop
  | .mk x s dc d wc w ec e ds ws dirty =>
    (Node.Srt (.mk x s dc d wc w ec e ds ws dirty) ∧ Node.FS (.mk x s dc d wc w ec e ds ws dirty)) ∨
    (dirty = true ∧ Kids.SoDk s ∧ Kids.SoDk dc ∧ Kids.SoDk d ∧ Kids.SoDk wc ∧ Kids.SoDk w)
def Kids.SoDk : Kids → Prop
  | .nil => True
  | .cons _ n r => Node.SoD n ∧ Kids.SoDk r
end

theorem Shpk_iff_All : ∀ (ks : Kids), Kids.Shpk ks ↔ Kids.All (fun _ n => Node.Shp n ∧ Node.routes n ≠ []) ks
  | .nil => by simp [Kids.Shpk, Kids.All]
  | .cons l n r => by simp [Kids.Shpk, Kids.All, Shpk_iff_All r, and_assoc]

theorem leaves_iff_All : ∀ (ks : Kids), Kids.leaves ks ↔ Kids.All (fun _ n => ∃ i, isLeaf n i) ks
  | .nil => by simp [Kids.leaves, Kids.All]
  | .cons l n r => by simp [Kids.leaves, Kids.All, leaves_iff_All r]

theorem Srtk_iff_All : ∀ (ks : Kids), Kids.Srtk ks ↔ Kids.All (fun _ n => Node.Srt n) ks
  | .nil => by simp [Kids.Srtk, Kids.All]
  | .cons l n r => by simp [Kids.Srtk, Kids.All, Srtk_iff_All r]

theorem FSk_iff_All : ∀ (ks : Kids), Kids.FSk ks ↔ Kids.All (fun _ n => Node.FS n) ks
  | .nil => by simp [Kids.FSk, Kids.All]
  | .cons l n r => by simp [Kids.FSk, Kids.All, FSk_iff_All r]

theorem data_optimize : ∀ (n : Node), (Node.optimize n).data = n.data
  | .mk x s dc d wc w ec e ds ws dirty => by
    simp only [Node.optimize]; split <;> simp [Node.data]

theorem labels_optimizeAll : ∀ (ks : Kids), (Kids.optimizeAll ks).labels = ks.labels
  | .nil => rfl
  | .cons l n r => by simp [Kids.optimizeAll, Kids.labels, labels_optimizeAll r]

theorem heads_optimizeAll : ∀ (ks : Kids), (Kids.optimizeAll ks).heads = ks.heads
  | .nil => rfl
  | .cons l n r => by simp [Kids.optimizeAll, Kids.heads, heads_optimizeAll r]

theorem isNil_optimizeAll : ∀ (ks : Kids), (Kids.optimizeAll ks).isNil = ks.isNil
  | .nil => rfl
  | .cons _ _ _ => rfl

theorem isNil_os (ks : Kids) : (Kids.optimizeAll ks).sort.isNil = ks.isNil := by
  rw [isNil_sort, isNil_optimizeAll]

theorem isNil_eq_nil {ks : Kids} : ks.isNil = true ↔ ks = .nil := by
  cases ks <;> simp [Kids.isNil]

theorem isEmptyN_optimize : ∀ (n : Node), (Node.optimize n).isEmptyN = n.isEmptyN
  | .mk x s dc d wc w ec e ds ws dirty => by
    simp only [Node.optimize]
    split
    · rfl
    · simp only [Node.isEmptyN, isNil_os]

theorem onlyStatic_optimize : ∀ (n : Node), n.onlyStatic → (Node.optimize n).onlyStatic
  | .mk x s dc d wc w ec e ds ws dirty, h => by
    simp only [Node.onlyStatic] at h
    obtain ⟨rfl, rfl, rfl, rfl, rfl, rfl⟩ := h
    simp only [Node.optimize]
    split
    · simp [Node.onlyStatic]
    · simp [Node.onlyStatic, Kids.optimizeAll, Kids.sort]

theorem isLeaf_optimize {n : Node} {i : Info} (h : isLeaf n i) : isLeaf (Node.optimize n) i := by
  obtain ⟨ds, ws, dirty, rfl⟩ := h
  simp only [Node.optimize]
  split
  · exact ⟨ds, ws, dirty, rfl⟩
  · exact ⟨true, true, false, by simp [Kids.optimizeAll, Kids.sort, Kids.allShortOK]⟩

theorem isEmptyN_false_of_routes {n : Node} (h : Node.routes n ≠ []) : n.isEmptyN = false := by
  cases n with
  | mk x s dc d wc w ec e ds ws dirty =>
    cases he : (Node.mk x s dc d wc w ec e ds ws dirty).isEmptyN with
    | false => rfl
    | true =>
      exfalso; apply h
      simp only [Node.isEmptyN, Bool.and_eq_true, Option.isNone_iff_eq_none, isNil_eq_nil] at he
      obtain ⟨⟨⟨⟨⟨⟨⟨rfl, rfl⟩, rfl⟩, rfl⟩, rfl⟩, rfl⟩, rfl⟩, rfl⟩ := he
      simp [Node.routes, Kids.routes]

theorem kroutes_ne_of_Shpk (mk : Label → Part) : ∀ (ks : Kids), Kids.Shpk ks → ks.isNil = false → Kids.routes mk ks ≠ []
  | .nil, _, h => by simp [Kids.isNil] at h
  | .cons l n r, hs, _ => by
    have := kroutes_ne_of_app mk .nil l n r hs.2.1
    simpa [Kids.app] using this

theorem kroutes_ne_of_leaves (mk : Label → Part) : ∀ (ks : Kids), Kids.leaves ks → ks.isNil = false → Kids.routes mk ks ≠ []
  | .nil, _, h => by simp [Kids.isNil] at h
  | .cons l n r, hs, _ => by
    obtain ⟨⟨i, hi⟩, _⟩ := hs
    have := kroutes_ne_of_app mk .nil l n r (by rw [(routes_leaf hi).1]; simp)
    simpa [Kids.app] using this

theorem routes_ne_of_nonempty : ∀ (n : Node), Node.Shp n → n.isEmptyN = false → Node.routes n ≠ []
  | .mk x s dc d wc w ec e ds ws dirty, hS, he => by
    simp only [Node.Shp] at hS
    obtain ⟨_, _, _, _, hecl, hel, _, _, _, _, _, _, _, _, _, _, ks, kdc, kd, kwc, kw⟩ := hS
    rw [routes_eq]
    cases x with
    | some i => simp [dataRoute]
    | none =>
      simp only [Node.isEmptyN, Option.isNone_none, Bool.true_and, Bool.and_eq_false_iff] at he
      rcases he with (((((h | h) | h) | h) | h) | h) | h
      · exact routes_ne_of_left (routes_ne_of_left (routes_ne_of_left (routes_ne_of_left (routes_ne_of_left (routes_ne_of_left (routes_ne_of_right (kroutes_ne_of_Shpk _ s ks h)))))))
      · exact routes_ne_of_left (routes_ne_of_left (routes_ne_of_left (routes_ne_of_left (routes_ne_of_left (routes_ne_of_right (kroutes_ne_of_Shpk _ dc kdc h))))))
      · exact routes_ne_of_left (routes_ne_of_left (routes_ne_of_left (routes_ne_of_left (routes_ne_of_right (kroutes_ne_of_Shpk _ d kd h)))))
      · exact routes_ne_of_left (routes_ne_of_left (routes_ne_of_left (routes_ne_of_right (kroutes_ne_of_Shpk _ wc kwc h))))
      · exact routes_ne_of_left (routes_ne_of_left (routes_ne_of_right (kroutes_ne_of_Shpk _ w kw h)))
      · exact routes_ne_of_left (routes_ne_of_right (kroutes_ne_of_leaves _ ec hecl h))
      · exact routes_ne_of_right (kroutes_ne_of_leaves _ e hel h)

theorem optimizeAll_All_label {P : Label → Prop} : ∀ (ks : Kids), Kids.All (fun l _ => P l) ks →
    Kids.All (fun l _ => P l) (Kids.optimizeAll ks)
  | .nil, _ => trivial
  | .cons l n r, h => ⟨h.1, optimizeAll_All_label r h.2⟩

theorem optimizeAll_All_node {P : Node → Prop} (hP : ∀ n, P n → P (Node.optimize n)) : ∀ (ks : Kids),
    Kids.All (fun _ n => P n) ks → Kids.All (fun _ n => P n) (Kids.optimizeAll ks)
  | .nil, _ => trivial
  | .cons l n r, h => ⟨hP n h.1, optimizeAll_All_node hP r h.2⟩

theorem pairwise_ne_perm {α} {L L' : List α} (h : L.Perm L') (hn : L.Pairwise (· ≠ ·)) : L'.Pairwise (· ≠ ·) :=
  (h.pairwise_iff (fun {a b} (hab : a ≠ b) => fun e => hab e.symm)).1 hn

-- optimize keeps the hereditary shape
mutual
theorem Node.optimize_Shp : ∀ (n : Node), Node.Shp n → Node.Shp (Node.optimize n)
  | .mk x s dc d wc w ec e ds ws dirty, hS => by
    simp only [Node.optimize]
    split
    · exact hS
    · simp only [Node.Shp] at hS
      obtain ⟨hs1, hs2, hwcd, hwd, hecl, hel, ndc, nd, nwc, nw, nec, ne, odc, od, owc, ow, ks, kdc, kd, kwc, kw⟩ := hS
      have lab : ∀ v : Kids, NodupL v.labels → NodupL (Kids.optimizeAll v).sort.labels := fun v hv =>
        nodupL_perm (labels_sort_perm _).symm (by rw [labels_optimizeAll]; exact hv)
      have dat : ∀ v : Kids, Kids.All (fun _ n => n.data = none) v → Kids.All (fun _ n => n.data = none) (Kids.optimizeAll v).sort :=
        fun v hv => sort_All _ (optimizeAll_All_node (P := fun n => n.data = none) (fun n h => by rw [data_optimize]; exact h) v hv)
      have ost : ∀ v : Kids, Kids.All (fun _ n => n.onlyStatic) v → Kids.All (fun _ n => n.onlyStatic) (Kids.optimizeAll v).sort :=
        fun v hv => sort_All _ (optimizeAll_All_node (P := fun n => n.onlyStatic) onlyStatic_optimize v hv)
      have lea : ∀ v : Kids, Kids.leaves v → Kids.leaves (Kids.optimizeAll v).sort := fun v hv => by
        rw [leaves_iff_All] at hv ⊢
        exact sort_All _ (optimizeAll_All_node (P := fun n => ∃ i, isLeaf n i) (fun n ⟨i, hi⟩ => ⟨i, isLeaf_optimize hi⟩) v hv)
      have shp : ∀ v : Kids, Kids.Shpk (Kids.optimizeAll v) → Kids.Shpk (Kids.optimizeAll v).sort := fun v hv => by
        rw [Shpk_iff_All] at hv ⊢
        exact sort_All _ hv
      simp only [Node.Shp]
      refine ⟨sort_All _ (optimizeAll_All_label s hs1), ?_, dat wc hwcd, dat w hwd, lea ec hecl, lea e hel,
        lab dc ndc, lab d nd, lab wc nwc, lab w nw, lab ec nec, lab e ne, ost dc odc, ost d od, ost wc owc, ost w ow,
        shp s (Kids.optimizeAll_Shpk s ks), shp dc (Kids.optimizeAll_Shpk dc kdc), shp d (Kids.optimizeAll_Shpk d kd),
        shp wc (Kids.optimizeAll_Shpk wc kwc), shp w (Kids.optimizeAll_Shpk w kw)⟩
      rw [distinctHeads_iff] at hs2 ⊢
      exact pairwise_ne_perm (heads_sort_perm _).symm (by rw [heads_optimizeAll]; exact hs2)
theorem Kids.optimizeAll_Shpk : ∀ (ks : Kids), Kids.Shpk ks → Kids.Shpk (Kids.optimizeAll ks)
  | .nil, _ => trivial
  | .cons l n r, h => by
    have hS := Node.optimize_Shp n h.1
    refine ⟨hS, ?_, Kids.optimizeAll_Shpk r h.2.2⟩
    apply routes_ne_of_nonempty _ hS
    rw [isEmptyN_optimize]
    exact isEmptyN_false_of_routes h.2.1
end

theorem allSlashB_iff : ∀ (ks : Kids), ks.allSlashB = true ↔ Kids.allSlash ks
  | .nil => by simp [Kids.allSlashB, Kids.allSlash]
  | .cons l n r => by simp [Kids.allSlashB, Kids.allSlash, allSlashB_iff r]

theorem allShortOK_iff : ∀ (ks : Kids), ks.allShortOK = true ↔ Kids.All (fun _ n => n.shortOK = true) ks
  | .nil => by simp [Kids.allShortOK, Kids.All]
  | .cons l n r => by simp [Kids.allShortOK, Kids.All, allShortOK_iff r]

theorem shortOK_childOK : ∀ (n : Node), n.onlyStatic → n.shortOK = true → childOK n
  | .mk x s dc d wc w ec e ds ws dirty, ho, hs => by
    refine ⟨ho, ?_⟩
    simp only [Node.onlyStatic] at ho
    obtain ⟨rfl, rfl, rfl, rfl, rfl, rfl⟩ := ho
    simp only [Node.statics]
    cases s with
    | nil => trivial
    | cons l n r =>
      simp only [Node.shortOK, Kids.isNil, Bool.false_and, Bool.false_or] at hs
      exact (allSlashB_iff _).1 hs

theorem childOK_of_flags (v : Kids) (ho : Kids.All (fun _ n => n.onlyStatic) v) (hf : v.allShortOK = true) :
    Kids.All (fun _ c => childOK c) v := by
  rw [allShortOK_iff] at hf
  exact Kids.All_imp (fun _ n h => shortOK_childOK n h.1 h.2) v (Kids.All_and v ho hf)

theorem SoDk_of_ok : ∀ (ks : Kids), Kids.Srtk ks → Kids.FSk ks → Kids.SoDk ks
  | .nil, _, _ => trivial
  | .cons l n r, hs, hf => by
    refine ⟨?_, SoDk_of_ok r hs.2 hf.2⟩
    cases n with
    | mk x s dc d wc w ec e ds ws dirty => exact Or.inl ⟨hs.1, hf.1⟩

-- after the dirty-gated optimize, everything below is sorted and every flag is sound
mutual
theorem Node.optimize_OKs : ∀ (n : Node), Node.Shp n → Node.SoD n → Node.Srt (Node.optimize n) ∧ Node.FS (Node.optimize n)
  | .mk x s dc d wc w ec e ds ws dirty, hS, hD => by
    simp only [Node.optimize]
    split
    · rename_i hnd
      simp only [Node.SoD] at hD
      rcases hD with h | h
      · exact h
      · simp [h.1] at hnd
    · simp only [Node.Shp] at hS
      obtain ⟨_, _, _, _, _, _, ndc, nd, nwc, nw, nec, ne, odc, od, owc, ow, ks, kdc, kd, kwc, kw⟩ := hS
      have hkids : Kids.SoDk s ∧ Kids.SoDk dc ∧ Kids.SoDk d ∧ Kids.SoDk wc ∧ Kids.SoDk w := by
        simp only [Node.SoD] at hD
        rcases hD with ⟨hsrt, hfs⟩ | h
        · simp only [Node.Srt] at hsrt
          simp only [Node.FS] at hfs
          exact ⟨SoDk_of_ok s hsrt.2.2.2.2.2.2.1 hfs.2.2.1, SoDk_of_ok dc hsrt.2.2.2.2.2.2.2.1 hfs.2.2.2.1,
            SoDk_of_ok d hsrt.2.2.2.2.2.2.2.2.1 hfs.2.2.2.2.1, SoDk_of_ok wc hsrt.2.2.2.2.2.2.2.2.2.1 hfs.2.2.2.2.2.1,
            SoDk_of_ok w hsrt.2.2.2.2.2.2.2.2.2.2 hfs.2.2.2.2.2.2⟩
        · exact h.2
      obtain ⟨qs, qdc, qd, qwc, qw⟩ := hkids
      have r1 := Kids.optimizeAll_OKs s ks qs
      have r2 := Kids.optimizeAll_OKs dc kdc qdc
      have r3 := Kids.optimizeAll_OKs d kd qd
      have r4 := Kids.optimizeAll_OKs wc kwc qwc
      have r5 := Kids.optimizeAll_OKs w kw qw
      have srt : ∀ v : Kids, Kids.Srtk (Kids.optimizeAll v) → Kids.Srtk (Kids.optimizeAll v).sort := fun v hv => by
        rw [Srtk_iff_All] at hv ⊢; exact sort_All _ hv
      have fsk : ∀ v : Kids, Kids.FSk (Kids.optimizeAll v) → Kids.FSk (Kids.optimizeAll v).sort := fun v hv => by
        rw [FSk_iff_All] at hv ⊢; exact sort_All _ hv
      have sl : ∀ v : Kids, NodupL v.labels → SortedL (Kids.optimizeAll v).sort.labels := fun v hv =>
        sortedL_sort _ (by rw [labels_optimizeAll]; exact hv)
      have ost : ∀ v : Kids, Kids.All (fun _ n => n.onlyStatic) v → Kids.All (fun _ n => n.onlyStatic) (Kids.optimizeAll v).sort :=
        fun v hv => sort_All _ (optimizeAll_All_node (P := fun n => n.onlyStatic) onlyStatic_optimize v hv)
      constructor
      · simp only [Node.Srt]
        exact ⟨sl dc ndc, sl d nd, sl wc nwc, sl w nw, sl ec nec, sl e ne, srt s r1.1, srt dc r2.1, srt d r3.1, srt wc r4.1, srt w r5.1⟩
      · simp only [Node.FS]
        refine ⟨?_, ?_, fsk s r1.2, fsk dc r2.2, fsk d r3.2, fsk wc r4.2, fsk w r5.2⟩
        · intro hf
          simp only [Bool.and_eq_true] at hf
          exact ⟨childOK_of_flags _ (ost dc odc) hf.1, childOK_of_flags _ (ost d od) hf.2⟩
        · intro hf
          simp only [Bool.and_eq_true] at hf
          exact ⟨childOK_of_flags _ (ost wc owc) hf.1, childOK_of_flags _ (ost w ow) hf.2⟩
theorem Kids.optimizeAll_OKs : ∀ (ks : Kids), Kids.Shpk ks → Kids.SoDk ks →
    Kids.Srtk (Kids.optimizeAll ks) ∧ Kids.FSk (Kids.optimizeAll ks)
  | .nil, _, _ => ⟨trivial, trivial⟩
  | .cons l n r, hS, hD => by
    have h1 := Node.optimize_OKs n hS.1 hD.1
    have h2 := Kids.optimizeAll_OKs r hS.2.2 hD.2
    exact ⟨⟨h1.1, h2.1⟩, ⟨h1.2, h2.2⟩⟩
end

#print axioms Node.optimize_OKs
