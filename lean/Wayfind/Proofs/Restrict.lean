import Wayfind.Proofs.EndStep

/-! restriction of the walk's list operations to the one child vector they concern -/

theorem mem_kids_routes (mk : Label → Part) : ∀ (ks : Kids) (r : Route), r ∈ Kids.routes mk ks →
    ∃ l r0, r = Route.push (mk l) r0
  | .nil, r, h => by simp [Kids.routes] at h
  | .cons l n ks, r, h => by
    simp only [Kids.routes, List.mem_append, List.mem_map] at h
    rcases h with ⟨r0, _, rfl⟩ | h
    · exact ⟨l, r0, rfl⟩
    · exact mem_kids_routes mk ks r h

theorem mem_kids_routes_leaves (mk : Label → Part) : ∀ (ks : Kids), Kids.leaves ks → ∀ r ∈ Kids.routes mk ks,
    ∃ l, r.parts = [mk l]
  | .nil, _, r, h => by simp [Kids.routes] at h
  | .cons l n ks, hl, r, h => by
    simp only [Kids.leaves] at hl
    obtain ⟨⟨i, hi⟩, hr⟩ := hl
    simp only [Kids.routes, (routes_leaf hi).1, List.map_cons, List.map_nil, List.singleton_append,
      List.mem_cons] at h
    rcases h with rfl | h
    · exact ⟨l, rfl⟩
    · exact mem_kids_routes_leaves mk ks hr r h

theorem mem_kids_routes_mid (mk : Label → Part) : ∀ (ks : Kids), Kids.All (fun _ n => n.data = none) ks →
    ∀ r ∈ Kids.routes mk ks, ∃ l r0, r = Route.push (mk l) r0 ∧ r0.parts ≠ []
  | .nil, _, r, h => by simp [Kids.routes] at h
  | .cons l n ks, hl, r, h => by
    simp only [Kids.All] at hl
    simp only [Kids.routes, List.mem_append, List.mem_map] at h
    rcases h with ⟨r0, hr0, rfl⟩ | h
    · exact ⟨l, r0, rfl, routes_parts_ne_of_data_none n hl.1 r0 hr0⟩
    · exact mem_kids_routes_mid mk ks hl.2 r h

theorem filterMap_eq_nil_of {α} (f : Route → Option α) (R : List Route) (h : ∀ r ∈ R, f r = none) :
    R.filterMap f = [] := by
  induction R with
  | nil => rfl
  | cons r R ih => simp [List.filterMap_cons, h r (by simp), ih (fun x hx => h x (by simp [hx]))]

theorem headPar_none_stat (k last) (mk : Label → Part) (hmk : ∀ l, ∃ p, mk l = .stat p) (ks : Kids) :
    ∀ r ∈ Kids.routes mk ks, headPar k last r = none := by
  intro r hr
  obtain ⟨l, r0, rfl⟩ := mem_kids_routes mk ks r hr
  obtain ⟨p, hp'⟩ := hmk l
  rw [hp', headPar_push_stat]

theorem headPar_none_kind (k k' : PKind) (last) (hk : k' ≠ k) (ks : Kids) :
    ∀ r ∈ Kids.routes (.par k') ks, headPar k last r = none := by
  intro r hr
  obtain ⟨l, r0, rfl⟩ := mem_kids_routes _ ks r hr
  rw [headPar_push_par]; simp [hk]

theorem headPar_none_leaves (k : PKind) (hk : wildK k = true) (ks : Kids) (hl : Kids.leaves ks) :
    ∀ r ∈ Kids.routes (.par k) ks, headPar k false r = none := by
  intro r hr
  obtain ⟨l, hparts⟩ := mem_kids_routes_leaves _ ks hl r hr
  simp [headPar, hparts, hk]

theorem headPar_none_mid (k : PKind) (hk : wildK k = true) (ks : Kids) (hm : Kids.All (fun _ n => n.data = none) ks) :
    ∀ r ∈ Kids.routes (.par k) ks, headPar k true r = none := by
  intro r hr
  obtain ⟨l, r0, rfl, hne⟩ := mem_kids_routes_mid _ ks hm r hr
  rw [headPar_push_par]
  have : r0.parts.isEmpty = false := by simp [List.isEmpty_iff, hne]
  simp [hk, this]

theorem headPar_none_dyn_last (k k' : PKind) (hk : wildK k = false) (ks : Kids) :
    ∀ r ∈ Kids.routes (.par k') ks, headPar k true r = none := by
  intro r hr
  obtain ⟨l, r0, rfl⟩ := mem_kids_routes _ ks r hr
  rw [headPar_push_par]; simp [hk]

theorem hp_none_of (k last) (r : Route) (h : headPar k last r = none) : hp k last r = none := by simp [hp, h]
theorem sp_none_of (k last l) (r : Route) (h : headPar k last r = none) : stripPar k last l r = none := by
  simp [stripPar_eq, h]

theorem stripByte_none_par (b : Byte) (k : PKind) (ks : Kids) :
    ∀ r ∈ Kids.routes (.par k) ks, stripByte b r = none := by
  intro r hr
  obtain ⟨l, r0, rfl⟩ := mem_kids_routes _ ks r hr
  simp [stripByte, Route.push]

def dataRoute (x : Option Info) : List Route := match x with | some i => [⟨[], i⟩] | none => []

theorem dataRoute_headPar (x : Option Info) (k last) : ∀ r ∈ dataRoute x, headPar k last r = none := by
  intro r hr; cases x <;> simp [dataRoute] at hr; subst hr; simp [headPar]

theorem dataRoute_stripByte (x : Option Info) (b : Byte) : ∀ r ∈ dataRoute x, stripByte b r = none := by
  intro r hr; cases x <;> simp [dataRoute] at hr; subst hr; simp [stripByte]

theorem routes_eq (x : Option Info) (s dc d wc w ec e : Kids) (ds ws dirty : Bool) :
    Node.routes (.mk x s dc d wc w ec e ds ws dirty) =
      dataRoute x ++ Kids.routes statPart s ++ Kids.routes (.par .dynC) dc ++ Kids.routes (.par .dyn) d
        ++ Kids.routes (.par .wildC) wc ++ Kids.routes (.par .wild) w
        ++ Kids.routes (.par .wildC) ec ++ Kids.routes (.par .wild) e := by
  simp only [Node.routes, dataRoute]
  cases x <;> rfl
