import Wayfind.Model.Basic

/-! Splitting a path at '/' — used to show that the reading of an OCI endpoint URL is unique (C17). -/

/-- the segments of a byte string, split at every '/' (like `str::split('/')`: `n` slashes give `n + 1` segments) -/
def splitS : Bytes → List Bytes
  | [] => [[]]
  | b :: r =>
    if b = 47 then [] :: splitS r
    else match splitS r with
      | s :: ss => (b :: s) :: ss
      | [] => [[b]]

theorem splitS_ne_nil : ∀ (p : Bytes), splitS p ≠ []
  | [] => by simp [splitS]
  | b :: r => by
    simp only [splitS]
    split
    · simp
    · split <;> simp

theorem splitS_slash (r : Bytes) : splitS (47 :: r) = [] :: splitS r := by simp [splitS]

theorem splitS_cons {b : Byte} (hb : b ≠ 47) (r : Bytes) :
    splitS (b :: r) = ((splitS r).headD [] |> (b :: ·)) :: (splitS r).tail := by
  simp only [splitS, hb, ite_false]
  cases h : splitS r with
  | nil => exact absurd h (splitS_ne_nil r)
  | cons s ss => simp

theorem splitS_slashfree : ∀ (v : Bytes), (47 : Byte) ∉ v → splitS v = [v]
  | [], _ => rfl
  | b :: r, h => by
    simp only [List.mem_cons, not_or] at h
    rw [splitS_cons (fun e => h.1 e.symm), splitS_slashfree r h.2]
    rfl

/-- splitting is compositional at a slash -/
theorem splitS_append_slash : ∀ (a b : Bytes), splitS (a ++ 47 :: b) = splitS a ++ splitS b
  | [], b => by simp [splitS]
  | c :: a, b => by
    by_cases hc : c = 47
    · subst hc
      simp only [List.cons_append, splitS_slash, splitS_append_slash a b]
    · simp only [List.cons_append]
      rw [splitS_cons hc, splitS_cons hc, splitS_append_slash a b]
      cases h : splitS a with
      | nil => exact absurd h (splitS_ne_nil a)
      | cons s ss => simp

/-- joining the segments with '/' gives the string back -/
def joinS : List Bytes → Bytes
  | [] => []
  | [s] => s
  | s :: t :: rest => s ++ 47 :: joinS (t :: rest)

theorem joinS_splitS : ∀ (p : Bytes), joinS (splitS p) = p
  | [] => rfl
  | b :: r => by
    by_cases hb : b = 47
    · subst hb
      rw [splitS_slash]
      have ih := joinS_splitS r
      cases h : splitS r with
      | nil => exact absurd h (splitS_ne_nil r)
      | cons s ss => rw [h] at ih; simp [joinS, ih]
    · rw [splitS_cons hb]
      have ih := joinS_splitS r
      cases h : splitS r with
      | nil => exact absurd h (splitS_ne_nil r)
      | cons s ss =>
        rw [h] at ih
        cases ss with
        | nil => simp only [joinS] at ih; simp [joinS, ih]
        | cons t rest => simp only [joinS, List.headD_cons, List.tail_cons] at ih ⊢; simp [ih]

theorem splitS_inj {p q : Bytes} (h : splitS p = splitS q) : p = q := by
  rw [← joinS_splitS p, ← joinS_splitS q, h]

/-- the segments in reverse order: the last segment first -/
def rsplit (p : Bytes) : List Bytes := (splitS p).reverse

theorem rsplit_append_slash (a b : Bytes) : rsplit (a ++ 47 :: b) = rsplit b ++ rsplit a := by
  simp [rsplit, splitS_append_slash]

theorem rsplit_slashfree (v : Bytes) (h : (47 : Byte) ∉ v) : rsplit v = [v] := by simp [rsplit, splitS_slashfree v h]

theorem rsplit_inj {p q : Bytes} (h : rsplit p = rsplit q) : p = q := by
  apply splitS_inj
  have := congrArg List.reverse h
  simpa [rsplit] using this

theorem rsplit_ne_nil (p : Bytes) : rsplit p ≠ [] := by
  simp [rsplit, splitS_ne_nil]
