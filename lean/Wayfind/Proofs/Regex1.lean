import Wayfind.Model.Regex

/-! The derivative matcher decides the usual denotation of a regular expression (Brzozowski). -/

namespace Re

/-- denotation: the set of byte strings a regular expression matches in full -/
inductive Lang : Re → Bytes → Prop
  | eps : Lang .eps []
  | cls {rs c} : inCls rs c = true → Lang (.cls rs) [c]
  | seq {a b x y} : Lang a x → Lang b y → Lang (.seq a b) (x ++ y)
  | altL {a b x} : Lang a x → Lang (.alt a b) x
  | altR {a b x} : Lang b x → Lang (.alt a b) x
  | starNil {a} : Lang (.star a) []
  | starCons {a x y} : Lang a x → Lang (.star a) y → Lang (.star a) (x ++ y)

theorem lang_none (s : Bytes) : ¬ Lang .none s := by intro h; cases h

theorem lang_eps {s : Bytes} : Lang .eps s ↔ s = [] := by
  constructor
  · intro h; cases h; rfl
  · rintro rfl; exact .eps

theorem lang_cls {rs : List (UInt8 × UInt8)} {s : Bytes} : Lang (.cls rs) s ↔ ∃ c, s = [c] ∧ inCls rs c = true := by
  constructor
  · intro h; cases h with | cls hc => exact ⟨_, rfl, hc⟩
  · rintro ⟨c, rfl, hc⟩; exact .cls hc

theorem lang_seq {a b : Re} {s : Bytes} : Lang (.seq a b) s ↔ ∃ x y, s = x ++ y ∧ Lang a x ∧ Lang b y := by
  constructor
  · intro h; cases h with | seq ha hb => exact ⟨_, _, rfl, ha, hb⟩
  · rintro ⟨x, y, rfl, ha, hb⟩; exact .seq ha hb

theorem lang_alt {a b : Re} {s : Bytes} : Lang (.alt a b) s ↔ Lang a s ∨ Lang b s := by
  constructor
  · intro h; cases h with
    | altL h => exact .inl h
    | altR h => exact .inr h
  · rintro (h | h)
    · exact .altL h
    · exact .altR h

theorem nullable_iff (r : Re) : r.nullable = true ↔ Lang r [] := by
  induction r with
  | none => simp [nullable, lang_none]
  | eps => simp [nullable, lang_eps]
  | cls rs => simp [nullable, lang_cls]
  | seq a b iha ihb =>
    simp only [nullable, Bool.and_eq_true, iha, ihb, lang_seq]
    constructor
    · rintro ⟨ha, hb⟩; exact ⟨[], [], rfl, ha, hb⟩
    · rintro ⟨x, y, h, ha, hb⟩
      obtain ⟨hx, hy⟩ := List.nil_eq_append_iff.1 h
      subst hx; subst hy; exact ⟨ha, hb⟩
  | alt a b iha ihb => simp [nullable, iha, ihb, lang_alt]
  | star a _ => simp only [nullable, true_iff]; exact .starNil

/-- a non-empty word of `a*` starts with a non-empty word of `a` -/
theorem star_cons_split {a : Re} {t : Bytes} (h : Lang (.star a) t) :
    ∀ c s, t = c :: s → ∃ x y, s = x ++ y ∧ Lang a (c :: x) ∧ Lang (.star a) y := by
  generalize hr : Re.star a = r at h
  induction h with
  | eps => cases hr
  | cls _ => cases hr
  | seq _ _ => cases hr
  | altL _ => cases hr
  | altR _ => cases hr
  | starNil => intro c s h; cases h
  | @starCons a' x y hx hy _ ih2 =>
    cases hr
    intro c s hcs
    cases x with
    | nil => exact ih2 rfl c s (by simpa using hcs)
    | cons d x' =>
      simp only [List.cons_append, List.cons.injEq] at hcs
      obtain ⟨rfl, rfl⟩ := hcs
      exact ⟨x', y, rfl, hx, hy⟩

theorem deriv_iff (r : Re) (c : UInt8) : ∀ s, Lang (r.deriv c) s ↔ Lang r (c :: s) := by
  induction r with
  | none => intro s; simp [deriv, lang_none]
  | eps => intro s; simp [deriv, lang_none, lang_eps]
  | cls rs =>
    intro s
    simp only [deriv]
    split
    · rename_i h
      simp only [lang_eps, lang_cls]
      constructor
      · rintro rfl; exact ⟨c, rfl, h⟩
      · rintro ⟨d, hd, _⟩; simp at hd; exact hd.2
    · rename_i h
      simp only [lang_cls]
      constructor
      · intro h'; exact absurd h' (lang_none _)
      · rintro ⟨d, hd, hin⟩
        simp at hd
        obtain ⟨rfl, _⟩ := hd
        exact absurd hin h
  | seq a b iha ihb =>
    intro s
    have key : Lang (.seq (a.deriv c) b) s ↔ ∃ x y, s = x ++ y ∧ Lang a (c :: x) ∧ Lang b y := by
      simp only [lang_seq, iha]
    simp only [deriv]
    split
    · rename_i hn
      rw [lang_alt, key, ihb, lang_seq]
      constructor
      · rintro (⟨x, y, rfl, ha, hb⟩ | hb)
        · exact ⟨c :: x, y, rfl, ha, hb⟩
        · exact ⟨[], c :: s, rfl, (nullable_iff a).1 hn, hb⟩
      · rintro ⟨x, y, h, ha, hb⟩
        cases x with
        | nil => simp at h; subst h; exact .inr hb
        | cons d x' =>
          simp only [List.cons_append, List.cons.injEq] at h
          obtain ⟨rfl, rfl⟩ := h
          exact .inl ⟨x', y, rfl, ha, hb⟩
    · rename_i hn
      rw [key, lang_seq]
      constructor
      · rintro ⟨x, y, rfl, ha, hb⟩; exact ⟨c :: x, y, rfl, ha, hb⟩
      · rintro ⟨x, y, h, ha, hb⟩
        cases x with
        | nil => exact absurd ((nullable_iff a).2 ha) hn
        | cons d x' =>
          simp only [List.cons_append, List.cons.injEq] at h
          obtain ⟨rfl, rfl⟩ := h
          exact ⟨x', y, rfl, ha, hb⟩
  | alt a b iha ihb => intro s; simp [deriv, lang_alt, iha, ihb]
  | star a iha =>
    intro s
    simp only [deriv, lang_seq, iha]
    constructor
    · rintro ⟨x, y, rfl, ha, hs⟩
      exact .starCons (x := c :: x) ha hs
    · intro h
      exact star_cons_split h c s rfl

theorem derivs_iff (s : Bytes) : ∀ (r : Re) (t : Bytes), Lang (r.derivs s) t ↔ Lang r (s ++ t) := by
  induction s with
  | nil => intro r t; simp [derivs]
  | cons c s ih => intro r t; simp only [derivs, ih, deriv_iff, List.cons_append]

/-- **the matcher decides the denotation** -/
theorem matches_iff (r : Re) (s : Bytes) : r.matches s = true ↔ Lang r s := by
  unfold «matches»
  rw [nullable_iff, derivs_iff]
  simp

/-- words of `a*` are concatenations of words of `a` -/
theorem lang_star {a : Re} {s : Bytes} : Lang (.star a) s ↔ ∃ ps : List Bytes, s = ps.flatten ∧ ∀ p ∈ ps, Lang a p := by
  constructor
  · intro h
    generalize hr : Re.star a = r at h
    induction h with
    | eps => cases hr
    | cls _ => cases hr
    | seq _ _ => cases hr
    | altL _ => cases hr
    | altR _ => cases hr
    | starNil => exact ⟨[], rfl, by simp⟩
    | @starCons a' x y hx _ _ ih2 =>
      cases hr
      obtain ⟨ps, rfl, hps⟩ := ih2 rfl
      exact ⟨x :: ps, by simp, by
        intro p hp
        rcases List.mem_cons.1 hp with rfl | hp
        · exact hx
        · exact hps p hp⟩
  · rintro ⟨ps, rfl, hps⟩
    induction ps with
    | nil => exact .starNil
    | cons p ps ih =>
      simp only [List.flatten_cons]
      exact .starCons (hps p (by simp)) (ih (fun q hq => hps q (by simp [hq])))

end Re
