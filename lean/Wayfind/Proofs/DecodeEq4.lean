import Wayfind.Proofs.DecodeEq3

/-! Stage 2, part 4: the scan of `parse_template` is the grammar's `decodeLoop`. -/

theorem litRun_le : ∀ (l : Bytes), (litRun l).2.length ≤ l.length := fun l => by
  induction l using litRun.induct with
  | case1 => simp [litRun]
  | case2 b rest ih => simp only [litRun, List.length_cons]; omega
  | case3 b rest _ h => simp [litRun, h]
  | case4 b rest _ h ih => simp only [litRun, h, ite_false, List.length_cons]; omega

theorem litRun_progress (b : Byte) (t : Bytes) (h1 : b ≠ 123) (h2 : b ≠ 125) : (litRun (b :: t)).2.length ≤ t.length := by
  rw [litRun.eq_def]
  split
  · rename_i heq; cases heq
  · rename_i c rest heq
    injection heq with e1 e2; subst e1 e2
    have := litRun_le rest
    simp only [List.length_cons]; omega
  · rename_i b' rest _ heq
    injection heq with e1 e2; subst e1 e2
    have hb : ¬ (b = 123 ∨ b = 125) := by rintro (h | h); exact h1 h; exact h2 h
    simp only [hb, ite_false]
    exact litRun_le _

theorem paramOf_is_par {content : Bytes} {part : Part} (h : paramOf content = some part) : ∃ k l, part = .par k l := by
  cases part with
  | par k l => exact ⟨k, l, rfl⟩
  | stat p =>
    exfalso
    unfold paramOf paramCore at h
    dsimp only at h
    repeat' split at h
    all_goals first
      | (cases h; done)
      | (injection h with h; cases h)

/-- what the model's bookkeeping (`seen`, `cursor`) means for the grammar's (`lastParam`, `names`) -/
structure ScanInv (cursor : Nat) (seen : List (Bytes × Nat × Nat)) (lastParam : Bool) (names : List Bytes) : Prop where
  names : ∀ n, names.contains n = true ↔ (seen.find? (fun x => x.1 == n)).isSome = true
  last : lastParam = true ↔ ∃ x, seen.getLast? = some x ∧ x.2.1 + x.2.2 = cursor
  ends : ∀ x ∈ seen, x.2.1 + x.2.2 ≤ cursor

theorem parseLoop_eq_decodeLoop (raw : Bytes) : ∀ (fuel : Nat) (rest : Bytes) (cursor : Nat) (seen : List (Bytes × Nat × Nat))
    (parts : List Part) (lastParam : Bool) (names : List Bytes), rest.length < fuel → ScanInv cursor seen lastParam names →
    ∀ ps, parseLoop raw fuel rest cursor seen parts = .ok ps ↔
      ∃ tail, decodeLoop fuel rest lastParam names = some tail ∧ ps = parts ++ tail := by
  intro fuel
  induction fuel with
  | zero => intro rest _ _ _ _ _ h; omega
  | succ fuel ih =>
    intro rest cursor seen parts lastParam names hlen hinv ps
    cases rest with
    | nil =>
      simp only [parseLoop, decodeLoop]
      constructor
      · intro h; injection h with h; exact ⟨[], rfl, by simp [h]⟩
      · rintro ⟨tail, h, rfl⟩; injection h with h; subst h; simp
    | cons b after =>
      simp only [List.length_cons] at hlen
      simp only [parseLoop, decodeLoop]
      by_cases h123 : b = 123
      · subst h123
        simp only [ite_true]
        cases hpp : parseParam raw cursor after with
        | error e =>
          simp only []
          constructor
          · intro h; cases h
          · rintro ⟨tail, h, _⟩
            exfalso
            -- the grammar accepts a parameter here: then the model does as well
            cases hbc : braceContent after with
            | none => rw [hbc] at h; cases h
            | some cr =>
              obtain ⟨content, rest''⟩ := cr
              rw [hbc] at h
              simp only at h
              cases hpo : paramOf content with
              | none => rw [hpo] at h; cases h
              | some part =>
                have hno : (123 : Byte) ∉ content := fun hm => by rw [paramOf_none_of_brace content hm] at hpo; cases hpo
                cases hbe : braceEnd after 1 0 with
                | none =>
                  rcases braceEnd_none after 0 hbe with h' | ⟨c, r, h', hc⟩
                  · rw [h'] at hbc; cases hbc
                  · rw [h'] at hbc; injection hbc with hbc; injection hbc with e1 e2; subst e1; exact hno hc
                | some n =>
                  by_cases hin : (123 : Byte) ∈ after.take n
                  · rcases braceEnd_nested after 0 n hbe (by simpa using hin) with h' | ⟨c, r, h', hc⟩
                    · rw [h'] at hbc; cases hbc
                    · rw [h'] at hbc; injection hbc with hbc; injection hbc with e1 e2; subst e1; exact hno hc
                  · have hfirst := braceEnd_first after 0 n hbe (by intro x hx hx'; subst hx'; exact hin (by simpa using hx))
                    simp only [Nat.sub_zero] at hfirst
                    rw [hfirst] at hbc; injection hbc with hbc; injection hbc with e1 e2
                    have : parseParam raw cursor after = .ok (part, cursor + n + 2) :=
                      (parseParam_ok_iff raw cursor after part (cursor + n + 2)).2 ⟨n, hbe, by rw [e1]; exact hpo, rfl⟩
                    rw [hpp] at this; cases this
        | ok pn =>
          obtain ⟨part, next⟩ := pn
          obtain ⟨n, hbe, hpo, hnext⟩ := (parseParam_ok_iff raw cursor after part next).1 hpp
          have hno : (123 : Byte) ∉ after.take n := fun hm => by rw [paramOf_none_of_brace _ hm] at hpo; cases hpo
          have hfirst := braceEnd_first after 0 n hbe (by intro x hx hx'; subst hx'; exact hno (by simpa using hx))
          simp only [Nat.sub_zero] at hfirst
          obtain ⟨k, l, rfl⟩ := paramOf_is_par hpo
          simp only [hfirst, hpo]
          -- touching test
          have htouch : (∃ x, seen.getLast? = some x ∧ x.2.1 + x.2.2 = cursor) ↔ lastParam = true := hinv.last.symm
          have hdrop : ((123 : Byte) :: after).drop (next - cursor) = after.drop (n + 1) := by
            have : next - cursor = (n + 1) + 1 := by omega
            rw [this, List.drop_succ_cons]
          have hstep : parseLoop.parseLoopDup raw fuel ((123 : Byte) :: after) cursor seen parts (.par k l) next = .ok ps ↔
              ∃ tail, (if names.contains l.name = true then none
                else (decodeLoop fuel (after.drop (n + 1)) true (l.name :: names)).map (Part.par k l :: ·)) = some tail ∧
                ps = parts ++ tail := by
            simp only [parseLoop.parseLoopDup, partName]
            cases hfd : seen.find? (fun x => x.1 == l.name) with
            | some x =>
              have : names.contains l.name = true := (hinv.names l.name).2 (by rw [hfd]; rfl)
              simp only [this, ite_true]
              constructor
              · intro h; cases h
              · rintro ⟨_, h, _⟩; cases h
            | none =>
              have hnc : ¬ names.contains l.name = true := fun hc => by
                have := (hinv.names l.name).1 hc; rw [hfd] at this; cases this
              simp only [hnc, Bool.false_eq_true, ite_false]
              rw [hdrop]
              have hlen' : (after.drop (n + 1)).length < fuel := by simp only [List.length_drop]; omega
              have hinv' : ScanInv next (seen ++ [(l.name, cursor, next - cursor)]) true (l.name :: names) := by
                refine ⟨?_, ?_, ?_⟩
                · intro m
                  simp only [List.contains_cons, Bool.or_eq_true, List.find?_append]
                  constructor
                  · rintro (h | h)
                    · have hm : m = l.name := by simpa using h
                      subst hm
                      cases seen.find? (fun x => x.1 == l.name) <;> simp
                    · have := (hinv.names m).1 h
                      cases hs : seen.find? (fun x => x.1 == m) with
                      | none => rw [hs] at this; cases this
                      | some y => simp
                  · intro h
                    cases hs : seen.find? (fun x => x.1 == m) with
                    | some y => exact Or.inr ((hinv.names m).2 (by rw [hs]; rfl))
                    | none =>
                      rw [hs] at h
                      simp only [Option.none_or, List.find?_cons, List.find?_nil] at h
                      split at h
                      · rename_i hh
                        simp only [beq_iff_eq] at hh ⊢
                        exact Or.inl hh.symm
                      · cases h
                · simp only [true_iff]
                  exact ⟨(l.name, cursor, next - cursor), by simp, by simp only; omega⟩
                · intro x hx
                  rcases List.mem_append.1 hx with h' | h'
                  · have := hinv.ends x h'; omega
                  · simp only [List.mem_singleton] at h'; subst h'; simp only; omega
              rw [ih (after.drop (n + 1)) next _ (parts ++ [Part.par k l]) true (l.name :: names) hlen' hinv' ps]
              constructor
              · rintro ⟨tail, h, rfl⟩; exact ⟨.par k l :: tail, by simp [h], by simp⟩
              · rintro ⟨tail, h, rfl⟩
                cases hd : decodeLoop fuel (after.drop (n + 1)) true (l.name :: names) with
                | none => rw [hd] at h; cases h
                | some t' => rw [hd] at h; simp only [Option.map_some, Option.some.injEq] at h; subst h; exact ⟨t', rfl, by simp⟩
          cases hgl : seen.getLast? with
          | none =>
            have hlp : lastParam = false := by
              cases hl : lastParam with
              | false => rfl
              | true => obtain ⟨x, hx, _⟩ := hinv.last.1 hl; rw [hgl] at hx; cases hx
            simp only [hlp, Bool.false_or]
            exact hstep
          | some x =>
            obtain ⟨nm, st, ln⟩ := x
            simp only []
            by_cases hc : cursor = st + ln
            · have hlp : lastParam = true := hinv.last.2 ⟨(nm, st, ln), hgl, hc.symm⟩
              simp only [hc, ite_true, hlp, Bool.true_or]
              constructor
              · intro h; cases h
              · rintro ⟨_, h, _⟩; cases h
            · have hlp : lastParam = false := by
                cases hl : lastParam with
                | false => rfl
                | true =>
                  obtain ⟨x, hx, hxe⟩ := hinv.last.1 hl
                  rw [hgl] at hx; injection hx with hx; subst hx
                  exact absurd hxe.symm hc
              simp only [hc, ite_false, hlp, Bool.false_or]
              exact hstep
      · simp only [h123, ite_false]
        by_cases h125 : b = 125
        · simp only [h125, ite_true]
          constructor
          · intro h; cases h
          · rintro ⟨_, h, _⟩; cases h
        · simp only [h125, ite_false]
          rw [parseStatic_eq_litRun (b :: after) cursor []]
          simp only [List.nil_append]
          have hprog := litRun_progress b after h123 h125
          have hlen' : (litRun (b :: after)).2.length < fuel := by omega
          have hinv' : ScanInv (cursor + ((b :: after).length - (litRun (b :: after)).2.length)) seen false names := by
            refine ⟨hinv.names, ?_, ?_⟩
            · simp only [Bool.false_eq_true, false_iff]
              rintro ⟨x, hx, hxe⟩
              have := hinv.ends x (List.mem_of_getLast? hx)
              simp only [List.length_cons] at hxe
              omega
            · intro x hx; have := hinv.ends x hx; omega
          rw [ih _ _ seen (parts ++ [Part.stat (litRun (b :: after)).1]) false names hlen' hinv' ps]
          constructor
          · rintro ⟨tail, h, rfl⟩; exact ⟨.stat (litRun (b :: after)).1 :: tail, by simp [h], by simp⟩
          · rintro ⟨tail, h, rfl⟩
            cases hd : decodeLoop fuel (litRun (b :: after)).2 false names with
            | none => rw [hd] at h; cases h
            | some t' => rw [hd] at h; simp only [Option.map_some, Option.some.injEq] at h; subst h; exact ⟨t', rfl, by simp⟩
