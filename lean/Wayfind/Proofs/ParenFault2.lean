import Wayfind.Proofs.ParenFault1
import Wayfind.Proofs.ExpandEq3

/-! parenthesis faults inside a group: the only error the expansion of a (balanced) group body can raise is
`EmptyParentheses`, and its position is an unescaped `()` pair of the whole template -/

section steps
variable (full : Bytes) (fuel start : Nat) (next : Option Byte) (top : Bool)

theorem scan_lone_some (cur : Nat) (st : ExpSt) (hn : next.isSome = true) :
    expandScan full fuel start next top [92] cur st =
      expandScan full fuel start next top [] (cur + 2) ⟨st.result, st.group, st.depth, st.acc ++ [92]⟩ := by
  rw [expandScan.eq_3]; simp [hn]

theorem scan_open0 (t : Bytes) (cur : Nat) (st : ExpSt) (hd : st.depth = 0) :
    expandScan full fuel start next top (40 :: t) cur st =
      expandScan full fuel start next top t (cur + 1) ⟨st.result.map (· ++ st.acc), cur + 1, 1, []⟩ := by
  cases t with
  | nil => rw [expandScan.eq_3]; simp [hd]
  | cons c t' => rw [expandScan.eq_2]; simp [hd]

theorem scan_openN (t : Bytes) (cur : Nat) (st : ExpSt) (hd : st.depth ≠ 0) :
    expandScan full fuel start next top (40 :: t) cur st =
      expandScan full fuel start next top t (cur + 1) ⟨st.result, st.group, st.depth + 1, st.acc ++ [40]⟩ := by
  cases t with
  | nil => rw [expandScan.eq_3]; simp [hd]
  | cons c t' => rw [expandScan.eq_2]; simp [hd]

theorem scan_stray (t : Bytes) (cur : Nat) (st : ExpSt) (hd : st.depth = 0) :
    expandScan full fuel start next top (41 :: t) cur st = .error (.unbalancedParenthesis full cur) := by
  cases t with
  | nil => rw [expandScan.eq_3]; simp [hd]
  | cons c t' => rw [expandScan.eq_2]; simp [hd]

theorem scan_close1 (t : Bytes) (cur : Nat) (st : ExpSt) (hd : st.depth = 1) :
    expandScan full fuel start next top (41 :: t) cur st =
      if cur = st.group then .error (.emptyParentheses full (cur - 1)) else
      match expandRange full fuel st.acc st.group (some 41) false with
      | .error e => .error e
      | .ok inner => expandScan full fuel start next top t (cur + 1) ⟨productStep st.result inner, cur + 1, 0, []⟩ := by
  cases t with
  | nil => rw [expandScan.eq_3]; simp [hd]; rfl
  | cons c t' => rw [expandScan.eq_2]; simp [hd]; rfl

theorem scan_closeN (t : Bytes) (cur : Nat) (st : ExpSt) (hd0 : st.depth ≠ 0) (hd1 : st.depth ≠ 1) :
    expandScan full fuel start next top (41 :: t) cur st =
      expandScan full fuel start next top t (cur + 1) ⟨st.result, st.group, st.depth - 1, st.acc ++ [41]⟩ := by
  cases t with
  | nil => rw [expandScan.eq_3]; simp [hd0, hd1]
  | cons c t' => rw [expandScan.eq_2]; simp [hd0, hd1]

theorem scan_endN (cur : Nat) (st : ExpSt) (hd : st.depth ≠ 0) :
    expandScan full fuel start next top [] cur st = .error (.unbalancedParenthesis full (start + st.group - 1)) := by
  rw [expandScan.eq_1]; simp [hd]

theorem scan_end0 (cur : Nat) (st : ExpSt) (hd : st.depth = 0) :
    ∃ res, expandScan full fuel start next top [] cur st = .ok res := by
  rw [expandScan.eq_1]; simp [hd]

end steps

/-- an unescaped `()` pair at `p` -/
def EmptyParenAt (full : Bytes) (p : Nat) : Prop :=
  full[p]? = some 40 ∧ full[p + 1]? = some 41 ∧ (escMask full)[p]? = some false ∧ (escMask full)[p + 1]? = some false

/-- what the scan knows while it is inside a group (depth ≥ 1) -/
structure GroupInv (full : Bytes) (st : ExpSt) (cursor : Nat) : Prop where
  pos : 1 ≤ st.group
  opn : full[st.group - 1]? = some 40
  msk : (escMask full)[st.group - 1]? = some false
  esc : EscAt full st.group
  txt : full.drop st.group = st.acc ++ full.drop cursor
  acc : ∀ tail, bal (st.acc ++ tail) 0 = bal tail (st.depth - 1)

theorem GroupInv.push1 {full : Bytes} {st : ExpSt} {cursor : Nat} (g : GroupInv full st cursor) (b : Byte) (tl : Bytes) (d' : Nat)
    (hd : full.drop cursor = b :: tl) (hb : ∀ tail, bal (b :: tail) (st.depth - 1) = bal tail (d' - 1)) :
    GroupInv full ⟨st.result, st.group, d', st.acc ++ [b]⟩ (cursor + 1) where
  pos := g.pos
  opn := g.opn
  msk := g.msk
  esc := g.esc
  txt := by
    show full.drop st.group = (st.acc ++ [b]) ++ full.drop (cursor + 1)
    rw [drop_succ_of_drop hd, g.txt, hd]; simp
  acc := by
    intro tail
    show bal ((st.acc ++ [b]) ++ tail) 0 = bal tail (d' - 1)
    rw [List.append_assoc, g.acc]; exact hb tail

theorem GroupInv.push2 {full : Bytes} {st : ExpSt} {cursor : Nat} (g : GroupInv full st cursor) (b2 : Byte) (tl : Bytes)
    (hd : full.drop cursor = 92 :: b2 :: tl) :
    GroupInv full ⟨st.result, st.group, st.depth, st.acc ++ [92, b2]⟩ (cursor + 2) where
  pos := g.pos
  opn := g.opn
  msk := g.msk
  esc := g.esc
  txt := by
    show full.drop st.group = (st.acc ++ [92, b2]) ++ full.drop (cursor + 2)
    have : full.drop (cursor + 2) = tl := by
      have : full.drop (cursor + 2) = (full.drop cursor).drop 2 := by rw [List.drop_drop]
      rw [this, hd]; rfl
    rw [this, g.txt, hd]; simp
  acc := by
    intro tail
    show bal ((st.acc ++ [92, b2]) ++ tail) 0 = bal tail (st.depth - 1)
    rw [List.append_assoc, g.acc]; exact bal_pair b2 tail _

/-- the group that opens at `cursor` -/
theorem GroupInv.opening {full : Bytes} {cursor : Nat} {tl : Bytes} (result : List Bytes)
    (hd : full.drop cursor = 40 :: tl) (he : EscAt full cursor) :
    GroupInv full ⟨result, cursor + 1, 1, []⟩ (cursor + 1) where
  pos := by show 1 ≤ cursor + 1; omega
  opn := by show full[cursor + 1 - 1]? = some 40; simpa using getElem?_of_drop hd
  msk := by show (escMask full)[cursor + 1 - 1]? = some false; simpa using (escAt_ne he hd (by decide)).2
  esc := (escAt_ne he hd (by decide)).1
  txt := by show full.drop (cursor + 1) = [] ++ full.drop (cursor + 1); simp
  acc := by intro tail; rfl

def NestOK (full : Bytes) (fuel : Nat) : Prop :=
  ∀ (range : Bytes) (start : Nat) (after : Bytes) (e : TErr),
    full.drop start = range ++ 41 :: after → EscAt full start → bal range 0 = some 0 →
    expandRange full fuel range start (some 41) false = .error e → ∃ p, e = .emptyParentheses full p ∧ EmptyParenAt full p

theorem scan_nested (full : Bytes) (fuel : Nat) (hN : NestOK full fuel) (start : Nat) :
    ∀ (n : Nat) (rest : Bytes) (cursor : Nat) (st : ExpSt) (after : Bytes) (e : TErr), rest.length ≤ n →
      full.drop cursor = rest ++ 41 :: after → EscAt full cursor → bal rest st.depth = some 0 →
      (st.depth ≠ 0 → GroupInv full st cursor) →
      expandScan full fuel start (some 41) false rest cursor st = .error e →
      ∃ p, e = .emptyParentheses full p ∧ EmptyParenAt full p := by
  intro n
  induction n with
  | zero =>
    intro rest cursor st after e hn hpos hesc hbal hg h
    have : rest = [] := List.eq_nil_of_length_eq_zero (by omega)
    subst this
    have hd : st.depth = 0 := by simpa [bal] using hbal
    obtain ⟨res, hr⟩ := scan_end0 full fuel start (some 41) false cursor st hd
    rw [hr] at h; cases h
  | succ n ih =>
    intro rest cursor st after e hn hpos hesc hbal hg h
    match rest, hn, hpos, hbal, h with
    | [], _, _, hbal, h =>
      have hd : st.depth = 0 := by simpa [bal] using hbal
      obtain ⟨res, hr⟩ := scan_end0 full fuel start (some 41) false cursor st hd
      rw [hr] at h; cases h
    | b :: t, hn, hpos, hbal, h =>
      simp only [List.length_cons] at hn
      have hpos' : full.drop cursor = b :: (t ++ 41 :: after) := hpos
      by_cases h92 : b = 92
      · subst h92
        cases t with
        | nil =>
          rw [scan_lone_some full fuel start (some 41) false cursor st rfl] at h
          have hd : st.depth = 0 := by simpa [bal_lone] using hbal
          obtain ⟨res, hr⟩ := scan_end0 full fuel start (some 41) false (cursor + 2) ⟨st.result, st.group, st.depth, st.acc ++ [92]⟩ hd
          rw [hr] at h; cases h
        | cons b2 t' =>
          rw [scan_esc] at h
          have hpos2 : full.drop cursor = 92 :: b2 :: (t' ++ 41 :: after) := hpos
          refine ih t' (cursor + 2) _ after e (by simp only [List.length_cons] at hn; omega) ?_ (escAt_pair hesc hpos2) ?_ ?_ h
          · have : full.drop (cursor + 2) = (full.drop cursor).drop 2 := by rw [List.drop_drop]
            rw [this, hpos2]; rfl
          · rw [bal_pair] at hbal; exact hbal
          · intro hd; exact (hg hd).push2 b2 _ hpos2
      · have hstep := escAt_ne hesc hpos' h92
        have hnext : full.drop (cursor + 1) = t ++ 41 :: after := drop_succ_of_drop hpos'
        by_cases h40 : b = 40
        · subst h40
          rw [bal_open] at hbal
          by_cases hd : st.depth = 0
          · rw [scan_open0 full fuel start (some 41) false t cursor st hd] at h
            refine ih t (cursor + 1) _ after e (by omega) hnext hstep.1 (by rw [hd] at hbal; exact hbal) ?_ h
            intro _
            exact GroupInv.opening _ hpos' hesc
          · rw [scan_openN full fuel start (some 41) false t cursor st hd] at h
            refine ih t (cursor + 1) _ after e (by omega) hnext hstep.1 hbal ?_ h
            intro _
            refine (hg hd).push1 40 _ (st.depth + 1) hpos' ?_
            intro tail
            rw [bal_open]
            congr 1; omega
        · by_cases h41 : b = 41
          · subst h41
            rw [bal_close] at hbal
            by_cases hd : st.depth = 0
            · simp [hd] at hbal
            · simp only [hd, ite_false] at hbal
              by_cases hd1 : st.depth = 1
              · rw [scan_close1 full fuel start (some 41) false t cursor st hd1] at h
                have g := hg hd
                by_cases hcg : cursor = st.group
                · simp only [hcg, ite_true] at h
                  injection h with h; subst h
                  refine ⟨st.group - 1, rfl, g.opn, ?_, g.msk, ?_⟩
                  · have : st.group - 1 + 1 = cursor := by have := g.pos; omega
                    rw [this]; exact getElem?_of_drop hpos'
                  · have : st.group - 1 + 1 = cursor := by have := g.pos; omega
                    rw [this]; exact hstep.2
                · simp only [hcg, ite_false] at h
                  have hbacc : bal st.acc 0 = some 0 := by
                    have := g.acc []
                    simpa [hd1, bal] using this
                  cases hE : expandRange full fuel st.acc st.group (some 41) false with
                  | error e' =>
                    rw [hE] at h
                    injection h with h; subst h
                    refine hN st.acc st.group (t ++ 41 :: after) _ ?_ g.esc hbacc hE
                    rw [g.txt, hpos']
                  | ok inner =>
                    rw [hE] at h
                    simp only at h
                    refine ih t (cursor + 1) _ after e (by omega) hnext hstep.1 ?_ ?_ h
                    · rw [hd1] at hbal; exact hbal
                    · intro hc; exact absurd rfl hc
              · rw [scan_closeN full fuel start (some 41) false t cursor st hd hd1] at h
                refine ih t (cursor + 1) _ after e (by omega) hnext hstep.1 hbal ?_ h
                intro _
                refine (hg hd).push1 41 _ (st.depth - 1) hpos' ?_
                intro tail
                rw [bal_close]
                have : st.depth - 1 ≠ 0 := by omega
                simp only [this, ite_false]
          · rw [scan_lit full fuel start (some 41) false b t cursor st h92 h40 h41] at h
            rw [bal_other b t _ h92 h40 h41] at hbal
            refine ih t (cursor + 1) ⟨st.result, st.group, st.depth, st.acc ++ [b]⟩ after e (by omega) hnext hstep.1 hbal ?_ h
            intro hd
            refine (hg hd).push1 b _ st.depth hpos' ?_
            intro tail
            exact bal_other b tail _ h92 h40 h41

theorem nestOK_all (full : Bytes) : ∀ (fuel : Nat), NestOK full fuel
  | 0 => by intro range _ _ e _ _ _ h; rw [expandRange.eq_1] at h; cases h
  | fuel + 1 => by
    intro range start after e hpos hesc hbal h
    rw [expandRange.eq_2] at h
    exact scan_nested full fuel (nestOK_all full fuel) start range.length range start _ after e (Nat.le_refl _) hpos hesc hbal
      (fun hc => absurd rfl hc) h
