import Wayfind.Model.CheckedParser

/-! The checked, position-based transcription of `parse_template` (per expansion) computes exactly what the list-based
model computes: `parseTemplateC raw = liftT (parseTemplate raw)` — same parts, same errors with the same positions. -/

theorem drop_cons_facts (raw : Bytes) (e : Nat) (b : Byte) (r : Bytes) (h : raw.drop e = b :: r) :
    e < raw.length ∧ raw[e]? = some b ∧ raw.drop (e + 1) = r := by
  have hl : e < raw.length := by
    have := congrArg List.length h
    simp only [List.length_drop, List.length_cons] at this
    omega
  refine ⟨hl, ?_, ?_⟩
  · have : (raw.drop e)[0]? = some b := by rw [h]; rfl
    rw [List.getElem?_drop] at this
    simpa using this
  · have : (raw.drop e).drop 1 = r := by rw [h]; rfl
    rw [List.drop_drop] at this
    exact this

theorem drop_nil_facts (raw : Bytes) (e : Nat) (h : raw.drop e = []) : ¬ e < raw.length := by
  have := congrArg List.length h
  simp only [List.length_drop, List.length_nil] at this
  omega

theorem liftT_ok {α} (a : α) : liftT (.ok a : Except TErr α) = .ok a := rfl
theorem liftT_error {α} (e : TErr) : liftT (.error e : Except TErr α) = .error (.terr e) := rfl

/-- `parse_static_part` -/
theorem parseStaticC_eq (raw : Bytes) : ∀ (fuel : Nat) (rest : Bytes) (e : Nat) (pre : Bytes), rest = raw.drop e → rest.length < fuel →
    parseStaticC raw fuel e pre = .ok ((parseStatic rest e pre).1, (parseStatic rest e pre).2.1) ∧
    (parseStatic rest e pre).2.2 = raw.drop (parseStatic rest e pre).2.1 ∧ e ≤ (parseStatic rest e pre).2.1
  | 0, _, _, _, _, hf => by omega
  | fuel + 1, rest, e, pre, hr, hf => by
    cases rest with
    | nil =>
      have hn := drop_nil_facts raw e hr.symm
      unfold parseStatic
      simp only [parseStaticC, hn, ite_false]
      exact ⟨trivial, hr, Nat.le_refl _⟩
    | cons b r =>
      obtain ⟨hl, hb, hd⟩ := drop_cons_facts raw e b r hr.symm
      unfold parseStatic
      simp only [parseStaticC, hl, ite_true, getB, hb]
      by_cases h92 : b = 92
      · simp only [h92, ite_true]
        cases r with
        | nil =>
          have hn := drop_nil_facts raw (e + 1) hd
          have hnone : raw[e + 1]? = none := by
            rw [List.getElem?_eq_none_iff]; omega
          simp only [hnone]
          have ih := parseStaticC_eq raw fuel [] (e + 1) (pre ++ [92]) hd.symm (by simp at hf ⊢; omega)
          unfold parseStatic at ih
          refine ⟨ih.1, ?_, by omega⟩
          simpa using hd.symm
        | cons c r' =>
          obtain ⟨hl2, hc, hd2⟩ := drop_cons_facts raw (e + 1) c r' hd
          simp only [hc]
          have ih := parseStaticC_eq raw fuel r' (e + 2) (pre ++ [c]) hd2.symm (by simp at hf ⊢; omega)
          exact ⟨ih.1, ih.2.1, by have := ih.2.2; omega⟩
      · simp only [h92, ite_false]
        by_cases hbr : b = 123 ∨ b = 125
        · simp only [hbr, ite_true]
          exact ⟨trivial, hr, Nat.le_refl _⟩
        · simp only [hbr, ite_false]
          have ih := parseStaticC_eq raw fuel r (e + 1) (pre ++ [b]) hd.symm (by simp at hf ⊢; omega)
          exact ⟨ih.1, ih.2.1, by have := ih.2.2; omega⟩

/-- a literal run that starts with an ordinary byte consumes at least that byte -/
theorem parseStatic_advances (b : Byte) (r : Bytes) (e : Nat) (pre : Bytes) (h1 : b ≠ 123) (h2 : b ≠ 125) (raw : Bytes)
    (hr : b :: r = raw.drop e) : e < (parseStatic (b :: r) e pre).2.1 := by
  obtain ⟨hl, hb, hd⟩ := drop_cons_facts raw e b r hr.symm
  unfold parseStatic
  by_cases h92 : b = 92
  · simp only [h92, ite_true]
    cases r with
    | nil => simp
    | cons c r' =>
      obtain ⟨_, _, hd2⟩ := drop_cons_facts raw (e + 1) c r' hd
      have := (parseStaticC_eq raw (r'.length + 1) r' (e + 2) (pre ++ [c]) hd2.symm (by omega)).2.2
      simp only []
      omega
  · have hbr : ¬ (b = 123 ∨ b = 125) := by intro h; rcases h with h | h <;> contradiction
    simp only [h92, ite_false, hbr]
    have := (parseStaticC_eq raw (r.length + 1) r (e + 1) (pre ++ [b]) hd.symm (by omega)).2.2
    omega

/-- the brace-counting loop: `braceEnd` walks the list, `braceScanC` the indices -/
theorem braceScanC_eq (raw : Bytes) (s0 : Nat) : ∀ (fuel : Nat) (rest : Bytes) (count idx : Nat), rest = raw.drop (s0 + idx) →
    1 ≤ count → rest.length < fuel →
    (∀ n, braceEnd rest count idx = some n → braceScanC raw fuel (s0 + idx) count = .ok (s0 + n, 0) ∧ idx ≤ n ∧ s0 + n < raw.length) ∧
    (braceEnd rest count idx = none → ∃ e' c, c ≠ 0 ∧ braceScanC raw fuel (s0 + idx) count = .ok (e', c))
  | 0, _, _, _, _, _, hf => by omega
  | fuel + 1, rest, count, idx, hr, hc, hf => by
    cases rest with
    | nil =>
      have hn := drop_nil_facts raw (s0 + idx) hr.symm
      refine ⟨fun n h => ?_, fun _ => ⟨s0 + idx, count, by omega, ?_⟩⟩
      · simp [braceEnd] at h
      · simp only [braceScanC, hn, ite_false]
    | cons b r =>
      obtain ⟨hl, hb, hd⟩ := drop_cons_facts raw (s0 + idx) b r hr.symm
      have hd' : r = raw.drop (s0 + (idx + 1)) := by rw [← hd]; rfl
      simp only [braceEnd, braceScanC, hl, ite_true, getB, hb]
      by_cases h123 : b = 123
      · simp only [h123, ite_true]
        have ih := braceScanC_eq raw s0 fuel r (count + 1) (idx + 1) hd' (by omega) (by simp at hf ⊢; omega)
        refine ⟨fun n h => ?_, fun h => ?_⟩
        · obtain ⟨a, b', c⟩ := ih.1 n h
          exact ⟨a, by omega, c⟩
        · exact ih.2 h
      · simp only [h123, ite_false]
        by_cases h125 : b = 125
        · simp only [h125, ite_true]
          by_cases hc1 : count = 1
          · have : count - 1 = 0 := by omega
            simp only [hc1, ite_true]
            refine ⟨fun n h => ?_, fun h => by cases h⟩
            injection h with h
            subst h
            exact ⟨rfl, Nat.le_refl _, hl⟩
          · have : ¬ (count - 1 = 0) := by omega
            simp only [hc1, this, ite_false]
            have ih := braceScanC_eq raw s0 fuel r (count - 1) (idx + 1) hd' (by omega) (by simp at hf ⊢; omega)
            refine ⟨fun n h => ?_, fun h => ?_⟩
            · obtain ⟨a, b', c⟩ := ih.1 n h
              exact ⟨a, by omega, c⟩
            · exact ih.2 h
        · simp only [h125, ite_false]
          have ih := braceScanC_eq raw s0 fuel r count (idx + 1) hd' hc (by simp at hf ⊢; omega)
          refine ⟨fun n h => ?_, fun h => ?_⟩
          · obtain ⟨a, b', c⟩ := ih.1 n h
            exact ⟨a, by omega, c⟩
          · exact ih.2 h

theorem sliceC_take (l : Bytes) (n : Nat) (site : String) (h : n ≤ l.length) : sliceC l 0 n site = .ok (l.take n) := by
  simp [sliceC, h]

theorem sliceC_drop (l : Bytes) (n : Nat) (site : String) (h : n ≤ l.length) : sliceC l n l.length site = .ok (l.drop n) := by
  simp only [sliceC, h, Nat.le_refl, and_self, ite_true]
  congr 1
  apply List.take_of_length_le
  simp

theorem idxOf?_lt (l : Bytes) (b : Byte) (p : Nat) (h : l.idxOf? b = some p) : p < l.length := by
  have := List.idxOf?_eq_some_iff.1 h
  obtain ⟨hp, _⟩ := this
  exact hp

/-- the split of the brace content at the first colon -/
theorem paramSplitC_eq (content : Bytes) :
    paramSplitC content = .ok (match content.idxOf? 58 with
      | some p => (content.take p, some (content.drop (p + 1)))
      | none => (content, none)) := by
  unfold paramSplitC
  cases h : content.idxOf? 58 with
  | none => rfl
  | some p =>
    have hp := idxOf?_lt content 58 p h
    simp only [sliceC_take content p _ (by omega), sliceC_drop content (p + 1) _ (by omega)]

theorem paramNameC_eq (name : Bytes) : paramNameC name = .ok (if name.head? == some 42 then name.drop 1 else name) := by
  unfold paramNameC
  by_cases h : (name.head? == some 42) = true
  · simp only [h, ite_true]
    have : 1 ≤ name.length := by
      cases name with
      | nil => simp at h
      | cons a b => simp
    exact sliceC_drop name 1 _ this
  · simp only [h, ite_false]
    rfl

/-- the validation tail of `parse_parameter_part` -/
theorem paramFinishC_eq (raw : Bytes) (cursor e len : Nat) (name0 : Bytes) (cons : Option Bytes) :
    paramFinishC raw cursor e len name0 cons =
      liftT (if name0.isEmpty then .error (.emptyParameter raw cursor len) else
        let isWild := name0.head? == some 42
        let name := if isWild then name0.drop 1 else name0
        if isWild && name.isEmpty then .error (.emptyWildcard raw cursor len) else
        if name.any (invalidChars.contains ·) then .error (.invalidParameter raw name cursor len) else
        match cons with
        | some c =>
          if c.isEmpty then .error (.emptyConstraint raw cursor len)
          else if c.any (invalidChars.contains ·) then .error (.invalidConstraint raw c cursor len)
          else .ok (.par (if isWild then .wildC else .dynC) {name := name, cons := c}, e + 1)
        | none => .ok (.par (if isWild then .wild else .dyn) {name := name}, e + 1)) := by
  unfold paramFinishC
  by_cases h0 : name0.isEmpty = true
  · simp only [h0, ite_true]; rfl
  · simp only [h0, Bool.false_eq_true, ite_false, paramNameC_eq]
    by_cases h1 : ((name0.head? == some 42) && (if (name0.head? == some 42) = true then name0.drop 1 else name0).isEmpty) = true
    · simp only [h1, ite_true]; rfl
    · simp only [h1, Bool.false_eq_true, ite_false]
      by_cases h2 : ((if (name0.head? == some 42) = true then name0.drop 1 else name0).any (invalidChars.contains ·)) = true
      · simp only [h2, ite_true]; rfl
      · simp only [h2, Bool.false_eq_true, ite_false]
        cases cons with
        | none => rfl
        | some c =>
          simp only []
          by_cases h3 : c.isEmpty = true
          · simp only [h3, ite_true]; rfl
          · simp only [h3, Bool.false_eq_true, ite_false]
            by_cases h4 : (c.any (invalidChars.contains ·)) = true
            · simp only [h4, ite_true]; rfl
            · simp only [h4, Bool.false_eq_true, ite_false]; rfl

/-- **`parse_parameter_part`**: the position-based transcription is the list-based one -/
theorem parseParamC_eq (raw : Bytes) (cursor : Nat) (after : Bytes) (ha : after = raw.drop (cursor + 1)) :
    parseParamC raw cursor = liftT (parseParam raw cursor after) := by
  have hb := braceScanC_eq raw (cursor + 1) (raw.length + 1) after 1 0 (by simpa using ha) (Nat.le_refl _)
    (by rw [ha]; simp; omega)
  unfold parseParamC parseParam
  cases hbe : braceEnd after 1 0 with
  | none =>
    obtain ⟨e', c, hc, hs⟩ := hb.2 hbe
    simp only [Nat.add_zero] at hs
    simp only [hs, hc, ne_eq, not_false_eq_true, ite_true]
    rfl
  | some n =>
    obtain ⟨hs, _, hlt⟩ := hb.1 n hbe
    simp only [Nat.add_zero] at hs
    have hcont : sliceC raw (cursor + 1) (cursor + 1 + n) "param: input[start..end]" = .ok (after.take n) := by
      simp only [sliceC]
      rw [if_pos ⟨by omega, by omega⟩, ha]
      congr 2
      omega
    have hsub : subC (cursor + 1 + n) cursor "param: end - cursor" = .ok (1 + n) := by
      simp only [subC]
      rw [if_pos (by omega)]
      congr 1
      omega
    simp only [hs, ne_eq, not_true_eq_false, ite_false, hcont, hsub, paramSplitC_eq]
    by_cases hce : (after.take n).isEmpty = true
    · simp only [hce, ite_true]; rfl
    · simp only [hce, Bool.false_eq_true, ite_false]
      have hlen : cursor + 1 + n - cursor + 1 = 1 + n + 1 := by omega
      rw [hlen]
      cases hidx : (after.take n).idxOf? 58 with
      | none => simp only []; exact paramFinishC_eq raw cursor (cursor + 1 + n) (1 + n + 1) _ _
      | some p => simp only []; exact paramFinishC_eq raw cursor (cursor + 1 + n) (1 + n + 1) _ _

theorem parseParam_next_gt (raw : Bytes) (cursor : Nat) (after : Bytes) (part : Part) (next : Nat)
    (h : parseParam raw cursor after = .ok (part, next)) : cursor + 2 ≤ next := by
  unfold parseParam at h
  split at h
  · cases h
  · rename_i n hn
    simp only at h
    repeat' split at h
    all_goals first | (cases h; done) | (injection h with h; injection h with h1 h2; omega)

theorem drop_drop_sub (raw : Bytes) (cursor next : Nat) (h : cursor ≤ next) : (raw.drop cursor).drop (next - cursor) = raw.drop next := by
  rw [List.drop_drop]
  congr 1
  omega

/-- **the `while cursor < raw.len()` loop of `parse_template`** -/
theorem parseLoopC_eq (raw : Bytes) : ∀ (fuel : Nat) (rest : Bytes) (cursor : Nat) (seen : List (Bytes × Nat × Nat)) (parts : List Part),
    rest = raw.drop cursor → rest.length < fuel →
    parseLoopC raw fuel cursor seen parts = liftT (parseLoop raw fuel rest cursor seen parts)
  | 0, _, _, _, _, _, hf => by omega
  | fuel + 1, rest, cursor, seen, parts, hr, hf => by
    cases rest with
    | nil =>
      have hn := drop_nil_facts raw cursor hr.symm
      simp only [parseLoopC, parseLoop, hn, ite_false]
      rfl
    | cons b after =>
      obtain ⟨hl, hb, hd⟩ := drop_cons_facts raw cursor b after hr.symm
      simp only [parseLoopC, parseLoop, hl, ite_true, getB, hb]
      by_cases h123 : b = 123
      · subst h123
        simp only [ite_true]
        rw [parseParamC_eq raw cursor after hd.symm]
        cases hpp : parseParam raw cursor after with
        | error e => rfl
        | ok pn =>
          obtain ⟨part, next⟩ := pn
          have hnext := parseParam_next_gt raw cursor after part next hpp
          simp only [liftT_ok]
          have hsub : subC next cursor "template: next_cursor - cursor" = .ok (next - cursor) := by
            simp only [subC]; rw [if_pos (by omega)]
          have hrest : ((123 : Byte) :: after).drop (next - cursor) = raw.drop next := by
            rw [hr]; exact drop_drop_sub raw cursor next (by omega)
          have hfuel : (raw.drop next).length < fuel := by
            simp only [List.length_drop]
            simp only [List.length_cons] at hf
            have : ((123 : Byte) :: after).length = raw.length - cursor := by rw [hr]; simp
            simp only [List.length_cons] at this
            omega
          -- the recursive calls
          have rec1 : ∀ seen' parts', parseLoopC raw fuel next seen' parts' =
              liftT (parseLoop raw fuel (((123 : Byte) :: after).drop (next - cursor)) next seen' parts') := by
            intro seen' parts'
            rw [hrest]
            exact parseLoopC_eq raw fuel (raw.drop next) next seen' parts' rfl hfuel
          have dup : (match touchC raw seen cursor next with
              | .error x => .error x
              | .ok () =>
                match subC next cursor "template: next_cursor - cursor" with
                | .error x => .error x
                | .ok d =>
                  match partName part with
                  | some name =>
                    match seen.find? (fun x => x.1 == name) with
                    | some (_, st, ln) => .error (.terr (.duplicateParameter raw name st ln cursor d))
                    | none => parseLoopC raw fuel next (seen ++ [(name, cursor, d)]) (parts ++ [part])
                  | none => parseLoopC raw fuel next seen (parts ++ [part])) =
              liftT (match seen.getLast? with
                | some (_, st, ln) =>
                  if cursor = st + ln then .error (.touchingParameters raw st (next - st)) else
                  parseLoop.parseLoopDup raw fuel ((123 : Byte) :: after) cursor seen parts part next
                | none => parseLoop.parseLoopDup raw fuel ((123 : Byte) :: after) cursor seen parts part next) := by
            have hdup : (match subC next cursor "template: next_cursor - cursor" with
                | .error x => .error x
                | .ok d =>
                  match partName part with
                  | some name =>
                    match seen.find? (fun x => x.1 == name) with
                    | some (_, st, ln) => .error (.terr (.duplicateParameter raw name st ln cursor d))
                    | none => parseLoopC raw fuel next (seen ++ [(name, cursor, d)]) (parts ++ [part])
                  | none => parseLoopC raw fuel next seen (parts ++ [part])) =
                liftT (parseLoop.parseLoopDup raw fuel ((123 : Byte) :: after) cursor seen parts part next) := by
              rw [hsub]
              unfold parseLoop.parseLoopDup
              cases hpn : partName part with
              | none => simp only []; exact rec1 _ _
              | some name =>
                simp only []
                cases hfd : seen.find? (fun x => x.1 == name) with
                | none => simp only []; exact rec1 _ _
                | some x => obtain ⟨nm, st, ln⟩ := x; rfl
            unfold touchC
            cases hgl : seen.getLast? with
            | none => simp only []; exact hdup
            | some x =>
              obtain ⟨nm, st, ln⟩ := x
              simp only []
              by_cases htc : cursor = st + ln
              · simp only [htc, ite_true]
                have : subC next st "template: next_cursor - start" = .ok (next - st) := by
                  simp only [subC]; rw [if_pos (by omega)]
                rw [this]
                rfl
              · simp only [htc, ite_false]; exact hdup
          exact dup
      · simp only [h123, ite_false]
        by_cases h125 : b = 125
        · simp only [h125, ite_true]; rfl
        · simp only [h125, ite_false]
          have hst := parseStaticC_eq raw (raw.length + 1) (b :: after) cursor [] hr (by rw [hr]; simp; omega)
          have hadv := parseStatic_advances b after cursor [] h123 h125 raw hr
          rw [hst.1]
          simp only []
          generalize hps : parseStatic (b :: after) cursor [] = res at hst hadv
          obtain ⟨pre, next, rest'⟩ := res
          simp only at hst hadv ⊢
          have hfuel : rest'.length < fuel := by
            rw [hst.2.1]
            simp only [List.length_drop]
            simp only [List.length_cons] at hf
            have : (b :: after).length = raw.length - cursor := by rw [hr]; simp
            simp only [List.length_cons] at this
            omega
          exact parseLoopC_eq raw fuel rest' next seen (parts ++ [.stat pre]) hst.2.1 hfuel

/-- **`parse_template`** (one expansion): same parts, same errors, same positions -/
theorem parseTemplateC_eq (raw : Bytes) : parseTemplateC raw = liftT (parseTemplate raw) := by
  unfold parseTemplateC parseTemplate
  cases raw with
  | nil =>
    simp only [List.isEmpty_nil, Bool.not_true, Bool.false_eq_true, ite_false, Bool.false_and]
    exact parseLoopC_eq [] _ [] 0 [] [] rfl (by simp)
  | cons b r =>
    simp only [List.isEmpty_cons, Bool.not_false, ite_true, getB, List.getElem?_cons_zero, List.head?_cons, Bool.true_and]
    by_cases hb : b = 47
    · subst hb
      simp only [ne_eq, not_true_eq_false, ite_false, bne_self_eq_false, Bool.false_eq_true]
      exact parseLoopC_eq _ _ _ 0 [] [] rfl (by simp)
    · have : (some b != some 47) = true := by simp [hb]
      simp only [ne_eq, hb, not_false_eq_true, ite_true, this]
      rfl

theorem mapExceptC_eq {α β} (fC : α → Except CErr β) (f : α → Except TErr β) (h : ∀ a, fC a = liftT (f a)) :
    ∀ (l : List α), mapExceptC fC l = liftT (mapExcept f l)
  | [] => rfl
  | a :: as => by
    simp only [mapExceptC, mapExcept, h a]
    cases f a with
    | error e => rfl
    | ok b =>
      simp only [liftT]
      rw [mapExceptC_eq fC f h as]
      cases mapExcept f as <;> rfl
