import Wayfind.Model.CheckedParser

/-! The checked, position-based transcription of `parse_template` (per expansion) computes exactly what the list-based
model computes: `parseTemplateC raw = liftT (parseTemplate raw)` — same parts, same errors with the same positions. -/

theorem drop_cons_facts (raw : Bytes) (e : Nat) (b : Byte) (r : Bytes) (h : raw.drop e = b :: r) :
    e < raw.length ∧ raw[e]? = some b ∧ raw.drop (e + 1) = r := by
  have hl : e < raw.length := by
    have := congrArg List.length h
    simp only [List.length_drop, List.length_cons] at this
    omega
  refine ⟨hl, ?_, ?_⟩
  · have : (raw.drop e)[0]? = some b := by rw [h]; rfl
    rw [List.getElem?_drop] at this
    simpa using this
  · have : (raw.drop e).drop 1 = r := by rw [h]; rfl
    rw [List.drop_drop] at this
    exact this

theorem drop_nil_facts (raw : Bytes) (e : Nat) (h : raw.drop e = []) : ¬ e < raw.length := by
  have := congrArg List.length h
  simp only [List.length_drop, List.length_nil] at this
  omega

theorem liftT_ok {α} (a : α) : liftT (.ok a : Except TErr α) = .ok a := rfl
theorem liftT_error {α} (e : TErr) : liftT (.error e : Except TErr α) = .error (.terr e) := rfl

/-- `parse_static_part` -/
theorem parseStaticC_eq (raw : Bytes) : ∀ (fuel : Nat) (rest : Bytes) (e : Nat) (pre : Bytes), rest = raw.drop e → rest.length < fuel →
    parseStaticC raw fuel e pre = .ok ((parseStatic rest e pre).1, (parseStatic rest e pre).2.1) ∧
    (parseStatic rest e pre).2.2 = raw.drop (parseStatic rest e pre).2.1 ∧ e ≤ (parseStatic rest e pre).2.1
  | 0, _, _, _, _, hf => by omega
  | fuel + 1, rest, e, pre, hr, hf => by
    cases rest with
    | nil =>
      have hn := drop_nil_facts raw e hr.symm
      unfold parseStatic
      simp only [parseStaticC, hn, ite_false]
      exact ⟨trivial, hr, Nat.le_refl _⟩
    | cons b r =>
      obtain ⟨hl, hb, hd⟩ := drop_cons_facts raw e b r hr.symm
      unfold parseStatic
      simp only [parseStaticC, hl, ite_true, getB, hb]
      by_cases h92 : b = 92
      · simp only [h92, ite_true]
        cases r with
        | nil =>
          have hn := drop_nil_facts raw (e + 1) hd
          have hnone : raw[e + 1]? = none := by
            rw [List.getElem?_eq_none_iff]; omega
          simp only [hnone]
          have ih := parseStaticC_eq raw fuel [] (e + 1) (pre ++ [92]) hd.symm (by simp at hf ⊢; omega)
          unfold parseStatic at ih
          refine ⟨ih.1, ?_, by omega⟩
          simpa using hd.symm
        | cons c r' =>
          obtain ⟨hl2, hc, hd2⟩ := drop_cons_facts raw (e + 1) c r' hd
          simp only [hc]
          have ih := parseStaticC_eq raw fuel r' (e + 2) (pre ++ [c]) hd2.symm (by simp at hf ⊢; omega)
          exact ⟨ih.1, ih.2.1, by have := ih.2.2; omega⟩
      · simp only [h92, ite_false]
        by_cases hbr : b = 123 ∨ b = 125
        · simp only [hbr, ite_true]
          exact ⟨trivial, hr, Nat.le_refl _⟩
        · simp only [hbr, ite_false]
          have ih := parseStaticC_eq raw fuel r (e + 1) (pre ++ [b]) hd.symm (by simp at hf ⊢; omega)
          exact ⟨ih.1, ih.2.1, by have := ih.2.2; omega⟩

/-- a literal run that starts with an ordinary byte consumes at least that byte -/
theorem parseStatic_advances (b : Byte) (r : Bytes) (e : Nat) (pre : Bytes) (h1 : b ≠ 123) (h2 : b ≠ 125) (raw : Bytes)
    (hr : b :: r = raw.drop e) : e < (parseStatic (b :: r) e pre).2.1 := by
  obtain ⟨hl, hb, hd⟩ := drop_cons_facts raw e b r hr.symm
  unfold parseStatic
  by_cases h92 : b = 92
  · simp only [h92, ite_true]
    cases r with
    | nil => simp
    | cons c r' =>
      obtain ⟨_, _, hd2⟩ := drop_cons_facts raw (e + 1) c r' hd
      have := (parseStaticC_eq raw (r'.length + 1) r' (e + 2) (pre ++ [c]) hd2.symm (by omega)).2.2
      simp only []
      omega
  · have hbr : ¬ (b = 123 ∨ b = 125) := by intro h; rcases h with h | h <;> contradiction
    simp only [h92, ite_false, hbr]
    have := (parseStaticC_eq raw (r.length + 1) r (e + 1) (pre ++ [b]) hd.symm (by omega)).2.2
    omega

/-- the brace-counting loop: `braceEnd` walks the list, `braceScanC` the indices -/
theorem braceScanC_eq (raw : Bytes) (s0 : Nat) : ∀ (fuel : Nat) (rest : Bytes) (count idx : Nat), rest = raw.drop (s0 + idx) →
    1 ≤ count → rest.length < fuel →
    (∀ n, braceEnd rest count idx = some n → braceScanC raw fuel (s0 + idx) count = .ok (s0 + n, 0) ∧ idx ≤ n ∧ s0 + n < raw.length) ∧
    (braceEnd rest count idx = none → ∃ e' c, c ≠ 0 ∧ braceScanC raw fuel (s0 + idx) count = .ok (e', c))
  | 0, _, _, _, _, _, hf => by omega
  | fuel + 1, rest, count, idx, hr, hc, hf => by
    cases rest with
    | nil =>
      have hn := drop_nil_facts raw (s0 + idx) hr.symm
      refine ⟨fun n h => ?_, fun _ => ⟨s0 + idx, count, by omega, ?_⟩⟩
      · simp [braceEnd] at h
      · simp only [braceScanC, hn, ite_false]
    | cons b r =>
      obtain ⟨hl, hb, hd⟩ := drop_cons_facts raw (s0 + idx) b r hr.symm
      have hd' : r = raw.drop (s0 + (idx + 1)) := by rw [← hd]; rfl
      simp only [braceEnd, braceScanC, hl, ite_true, getB, hb]
      by_cases h123 : b = 123
      · simp only [h123, ite_true]
        have ih := braceScanC_eq raw s0 fuel r (count + 1) (idx + 1) hd' (by omega) (by simp at hf ⊢; omega)
        refine ⟨fun n h => ?_, fun h => ?_⟩
        · obtain ⟨a, b', c⟩ := ih.1 n h
          exact ⟨a, by omega, c⟩
        · exact ih.2 h
      · simp only [h123, ite_false]
        by_cases h125 : b = 125
        · simp only [h125, ite_true]
          by_cases hc1 : count = 1
          · have : count - 1 = 0 := by omega
            simp only [hc1, ite_true]
            refine ⟨fun n h => ?_, fun h => by cases h⟩
            injection h with h
            subst h
            exact ⟨rfl, Nat.le_refl _, hl⟩
          · have : ¬ (count - 1 = 0) := by omega
            simp only [hc1, this, ite_false]
            have ih := braceScanC_eq raw s0 fuel r (count - 1) (idx + 1) hd' (by omega) (by simp at hf ⊢; omega)
            refine ⟨fun n h => ?_, fun h => ?_⟩
            · obtain ⟨a, b', c⟩ := ih.1 n h
              exact ⟨a, by omega, c⟩
            · exact ih.2 h
        · simp only [h125, ite_false]
          have ih := braceScanC_eq raw s0 fuel r count (idx + 1) hd' hc (by simp at hf ⊢; omega)
          refine ⟨fun n h => ?_, fun h => ?_⟩
          · obtain ⟨a, b', c⟩ := ih.1 n h
            exact ⟨a, by omega, c⟩
          · exact ih.2 h
