import Wayfind.Proofs.ExpandEq5
import Wayfind.Proofs.DecodeEq5

/-! **The parser theorem**: the model of `ParsedTemplate::new` (a transcription of the Rust cursor/group/depth
arithmetic) accepts exactly the templates of the grammar (`Spec/Expand.lean`, `Spec/Grammar.lean`) and produces
exactly the grammar's expansions and parts, in the same order. -/

theorem expand_top (input : Bytes) (hne : input ≠ []) :
    (∀ es, expandRange input (input.length + 1) input 0 none true = .ok es ↔ topExpansions input = some es) ∧
    ((∃ e, expandRange input (input.length + 1) input 0 none true = .error e) ↔ topExpansions input = none) := by
  obtain ⟨ha, hb⟩ := rangeEq_all input (input.length + 1) input 0 none true (by omega) (Or.inl rfl)
  have hemp : input.isEmpty = false := by cases input with | nil => exact absurd rfl hne | cons _ _ => rfl
  unfold topExpansions parseItems
  simp only [hemp, Bool.false_eq_true, ite_false]
  cases hp : parseSeq (input.length + 1) input with
  | none =>
    obtain ⟨e, he⟩ := hb hp
    refine ⟨fun es => ?_, ?_⟩
    · rw [he]; simp
    · simp only [Option.map_none, iff_true]; exact ⟨e, he⟩
  | some items =>
    have h := ha items hp
    refine ⟨fun es => ?_, ?_⟩
    · rw [h]
      simp only [finB, ite_true, Option.map_some, Option.some.injEq, Except.ok.injEq]
    · rw [h]; simp

theorem finB_nonempty (res : List Bytes) : ∀ e ∈ finB true res, e ≠ [] := by
  intro e he
  simp only [finB, ite_true, List.mem_map] at he
  obtain ⟨t, _, rfl⟩ := he
  split
  · simp
  · rename_i h; simpa using h

theorem topExpansions_nonempty {input : Bytes} {es : List Bytes} (h : topExpansions input = some es) : ∀ e ∈ es, e ≠ [] := by
  unfold topExpansions at h
  split at h
  · cases h
  · simp only [Option.map_eq_some_iff] at h
    obtain ⟨is, _, rfl⟩ := h
    exact finB_nonempty (Items.exps is)

theorem mapExcept_mapM {α β ε} (f : α → Except ε β) (g : α → Option β) : ∀ (as : List α),
    (∀ a ∈ as, ∀ b, f a = .ok b ↔ g a = some b) →
    (∀ bs, mapExcept f as = .ok bs ↔ as.mapM g = some bs)
  | [], _, bs => by simp [mapExcept]
  | a :: as, h, bs => by
    have ha := h a (by simp)
    have ih := mapExcept_mapM f g as (fun x hx => h x (by simp [hx]))
    simp only [mapExcept, List.mapM_cons]
    cases hf : f a with
    | error e =>
      have : g a = none := by
        cases hg : g a with
        | none => rfl
        | some b => rw [(ha b).2 hg] at hf; cases hf
      simp [this]
    | ok b =>
      have hg : g a = some b := (ha b).1 hf
      simp only [hg]
      cases hm : mapExcept f as with
      | error e =>
        have : as.mapM g = none := by
          cases hq : as.mapM g with
          | none => rfl
          | some l => rw [(ih l).2 hq] at hm; cases hm
        simp [this]
      | ok l =>
        have := (ih l).1 hm
        simp [this]

/-- **C11 / C04, parser theorem.** -/
theorem parseTemplates_eq_specParse (input : Bytes) (ts : List (Bytes × List Part)) :
    parseTemplates input = .ok ts ↔ specParse input = some ts := by
  unfold parseTemplates specParse
  by_cases hne : input = []
  · subst hne; simp [topExpansions]
  · have hemp : input.isEmpty = false := by cases input with | nil => exact absurd rfl hne | cons _ _ => rfl
    simp only [hemp, Bool.false_eq_true, ite_false]
    obtain ⟨hok, herr⟩ := expand_top input hne
    cases he : expandRange input (input.length + 1) input 0 none true with
    | error e =>
      have := herr.1 ⟨e, he⟩
      simp [this]
    | ok raws =>
      have htop := (hok raws).1 he
      simp only [htop]
      have hraws := topExpansions_nonempty htop
      apply mapExcept_mapM
      intro raw hraw b
      obtain ⟨braw, bps⟩ := b
      cases hp : parseTemplate raw with
      | error e =>
        have := (parseTemplate_error_iff raw (hraws raw hraw)).1 ⟨e, hp⟩
        simp [this]
      | ok ps =>
        have := (parseTemplate_eq_decode raw (hraws raw hraw) ps).1 hp
        simp [this]

/-- rejection: the model reports an error exactly when the grammar rejects -/
theorem parseTemplates_error_iff (input : Bytes) :
    (∃ e, parseTemplates input = .error e) ↔ specParse input = none := by
  constructor
  · rintro ⟨e, he⟩
    cases hs : specParse input with
    | none => rfl
    | some ts => rw [(parseTemplates_eq_specParse input ts).2 hs] at he; cases he
  · intro hs
    cases hp : parseTemplates input with
    | error e => exact ⟨e, rfl⟩
    | ok ts => rw [(parseTemplates_eq_specParse input ts).1 hp] at hs; cases hs

theorem mapM_fst {α β} (g : α → Option β) : ∀ (es : List α) (ts : List (α × β)),
    es.mapM (fun e => (g e).map (fun ps => (e, ps))) = some ts → ts.map (·.1) = es
  | [], ts, h => by simp at h; subst h; rfl
  | e :: es, ts, h => by
    simp only [List.mapM_cons] at h
    cases hg : g e with
    | none => simp [hg] at h
    | some ps =>
      simp only [hg, Option.map_some] at h
      cases hm : es.mapM (fun e => (g e).map (fun ps => (e, ps))) with
      | none => simp [hm] at h
      | some l =>
        simp only [hm] at h
        have := mapM_fst g es l hm
        simp at h
        subst h
        simp [this]

/-- the expansion texts of an accepted template are exactly the grammar's keep-or-drop expansions, in order -/
theorem parse_expansions (input : Bytes) (ts : List (Bytes × List Part)) (h : parseTemplates input = .ok ts) :
    topExpansions input = some (ts.map (·.1)) := by
  have hs := (parseTemplates_eq_specParse input ts).1 h
  unfold specParse at hs
  cases ht : topExpansions input with
  | none => rw [ht] at hs; cases hs
  | some es =>
    rw [ht] at hs
    simp only at hs
    rw [mapM_fst decode es ts hs]
