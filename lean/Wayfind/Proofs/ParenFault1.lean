import Wayfind.Proofs.ParseFault1

/-! parenthesis faults, spec side: the escape mask, the matching machine, and balance of a byte string -/

theorem escMask_pair (b2 : Byte) (tl : Bytes) : escMask (92 :: b2 :: tl) = true :: true :: escMask tl := by
  simp [escMask]

theorem escMask_lone : escMask [92] = [false] := by simp [escMask]

theorem escMask_ne (b : Byte) (tl : Bytes) (h : b ≠ 92) : escMask (b :: tl) = false :: escMask tl := by
  rw [escMask]
  intro x rest heq
  exact absurd heq h

theorem escMask_length : ∀ (n : Nat) (s : Bytes), s.length ≤ n → (escMask s).length = s.length
  | _, [], _ => by simp [escMask]
  | 0, _ :: _, h => by simp at h
  | n + 1, [b], _ => by
    by_cases h : b = 92
    · subst h; simp [escMask_lone]
    · simp [escMask_ne b [] h, escMask]
  | n + 1, b :: b2 :: tl, hl => by
    simp only [List.length_cons] at hl
    by_cases h : b = 92
    · subst h; rw [escMask_pair]; simp [escMask_length n tl (by omega)]
    · rw [escMask_ne b _ h]; simp only [List.length_cons]; rw [escMask_length n (b2 :: tl) (by simp; omega)]; simp

/-- `cursor` is not in the middle of an escape pair of `full` -/
def EscAt (full : Bytes) (cursor : Nat) : Prop := (escMask full).drop cursor = escMask (full.drop cursor)

theorem escAt_zero (full : Bytes) : EscAt full 0 := by simp [EscAt]

theorem escAt_pair {full : Bytes} {cursor : Nat} {b2 : Byte} {tl : Bytes} (h : EscAt full cursor)
    (hd : full.drop cursor = 92 :: b2 :: tl) : EscAt full (cursor + 2) := by
  unfold EscAt at *
  rw [hd, escMask_pair] at h
  have : (escMask full).drop (cursor + 2) = ((escMask full).drop cursor).drop 2 := by rw [List.drop_drop]
  rw [this, h]
  have : full.drop (cursor + 2) = (full.drop cursor).drop 2 := by rw [List.drop_drop]
  rw [this, hd]
  rfl

theorem escAt_ne {full : Bytes} {cursor : Nat} {b : Byte} {tl : Bytes} (h : EscAt full cursor)
    (hd : full.drop cursor = b :: tl) (hb : b ≠ 92) : EscAt full (cursor + 1) ∧ (escMask full)[cursor]? = some false := by
  unfold EscAt at *
  rw [hd, escMask_ne b tl hb] at h
  constructor
  · have : (escMask full).drop (cursor + 1) = ((escMask full).drop cursor).drop 1 := by rw [List.drop_drop]
    rw [this, h]
    have : full.drop (cursor + 1) = (full.drop cursor).drop 1 := by rw [List.drop_drop]
    rw [this, hd]
    rfl
  · have : ((escMask full).drop cursor)[0]? = (escMask full)[cursor + 0]? := by simp [List.getElem?_drop]
    rw [h] at this
    simpa using this.symm

theorem escAt_lone {full : Bytes} {cursor : Nat} (h : EscAt full cursor)
    (hd : full.drop cursor = [92]) : EscAt full (cursor + 1) := by
  unfold EscAt at *
  rw [hd, escMask_lone] at h
  have : (escMask full).drop (cursor + 1) = ((escMask full).drop cursor).drop 1 := by rw [List.drop_drop]
  rw [this, h]
  have : full.drop (cursor + 1) = (full.drop cursor).drop 1 := by rw [List.drop_drop]
  rw [this, hd]
  rfl

theorem getElem?_of_drop {full : Bytes} {cursor : Nat} {b : Byte} {tl : Bytes} (hd : full.drop cursor = b :: tl) :
    full[cursor]? = some b := by
  have := drop_getElem? full cursor 0
  rw [hd] at this
  simpa using this.symm

theorem drop_succ_of_drop {full : Bytes} {cursor : Nat} {b : Byte} {tl : Bytes} (hd : full.drop cursor = b :: tl) :
    full.drop (cursor + 1) = tl := by
  have : full.drop (cursor + 1) = (full.drop cursor).drop 1 := by rw [List.drop_drop]
  rw [this, hd]; rfl

/-! the matching machine -/

theorem go_nil (i : Nat) (ms : List Bool) (stack un : List Nat) : unmatchedParens.go i [] ms stack un = un ++ stack := by
  simp [unmatchedParens.go]

theorem go_esc (i : Nat) (b : Byte) (bs : Bytes) (ms : List Bool) (stack un : List Nat) :
    unmatchedParens.go i (b :: bs) (true :: ms) stack un = unmatchedParens.go (i + 1) bs ms stack un := by
  simp [unmatchedParens.go]

theorem go_open (i : Nat) (bs : Bytes) (ms : List Bool) (stack un : List Nat) :
    unmatchedParens.go i (40 :: bs) (false :: ms) stack un = unmatchedParens.go (i + 1) bs ms (i :: stack) un := by
  simp [unmatchedParens.go]

theorem go_close_pop (i : Nat) (bs : Bytes) (ms : List Bool) (x : Nat) (stack un : List Nat) :
    unmatchedParens.go i (41 :: bs) (false :: ms) (x :: stack) un = unmatchedParens.go (i + 1) bs ms stack un := by
  simp [unmatchedParens.go]

theorem go_close_stray (i : Nat) (bs : Bytes) (ms : List Bool) (un : List Nat) :
    unmatchedParens.go i (41 :: bs) (false :: ms) [] un = unmatchedParens.go (i + 1) bs ms [] (i :: un) := by
  simp [unmatchedParens.go]

theorem go_other (i : Nat) (b : Byte) (bs : Bytes) (ms : List Bool) (stack un : List Nat) (h40 : b ≠ 40) (h41 : b ≠ 41) :
    unmatchedParens.go i (b :: bs) (false :: ms) stack un = unmatchedParens.go (i + 1) bs ms stack un := by
  simp [unmatchedParens.go, h40, h41]

theorem go_un_mem : ∀ (bs : Bytes) (i : Nat) (ms : List Bool) (stack un : List Nat) (x : Nat), x ∈ un →
    x ∈ unmatchedParens.go i bs ms stack un
  | [], i, ms, stack, un, x, h => by rw [go_nil]; exact List.mem_append_left _ h
  | b :: bs, i, [], stack, un, x, h => by simp [unmatchedParens.go, h]
  | b :: bs, i, e :: ms, stack, un, x, h => by
    cases e with
    | true => rw [go_esc]; exact go_un_mem bs _ ms stack un x h
    | false =>
      by_cases h40 : b = 40
      · subst h40; rw [go_open]; exact go_un_mem bs _ ms _ un x h
      · by_cases h41 : b = 41
        · subst h41
          cases stack with
          | nil => rw [go_close_stray]; exact go_un_mem bs _ ms _ _ x (List.mem_cons_of_mem _ h)
          | cons y st => rw [go_close_pop]; exact go_un_mem bs _ ms _ un x h
        · rw [go_other _ _ _ _ _ _ h40 h41]; exact go_un_mem bs _ ms stack un x h

/-! balance: the nesting depth after reading a byte string (`none`: a closing parenthesis with nothing open) -/

def bal : Bytes → Nat → Option Nat
  | [], d => some d
  | [92], d => some d
  | 92 :: _ :: rest, d => bal rest d
  | 40 :: rest, d => bal rest (d + 1)
  | 41 :: rest, d => if d = 0 then none else bal rest (d - 1)
  | _ :: rest, d => bal rest d

theorem bal_pair (b2 : Byte) (tl : Bytes) (d : Nat) : bal (92 :: b2 :: tl) d = bal tl d := by simp [bal]
theorem bal_lone (d : Nat) : bal [92] d = some d := by simp [bal]
theorem bal_open (tl : Bytes) (d : Nat) : bal (40 :: tl) d = bal tl (d + 1) := by simp [bal]
theorem bal_close (tl : Bytes) (d : Nat) : bal (41 :: tl) d = if d = 0 then none else bal tl (d - 1) := by simp [bal]
theorem bal_other (b : Byte) (tl : Bytes) (d : Nat) (h92 : b ≠ 92) (h40 : b ≠ 40) (h41 : b ≠ 41) : bal (b :: tl) d = bal tl d := by
  rw [bal]
  · intro h; exact absurd h h92
  · intro x r h; exact absurd h h92
  · intro h; exact absurd h h40
  · intro h; exact absurd h h41
