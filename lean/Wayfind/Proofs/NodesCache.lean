import Wayfind.Model.NodesCache

/-! The `sorted` cache of `Nodes` (src/nodes.rs) is sound, and it never changes what `sort` leaves behind.
`lt` is a strict total order (the `Ord` of the node states restricted to pairwise different sibling keys). -/

namespace NodesC
variable {α : Type}

structure StrictTotal (lt : α → α → Bool) : Prop where
  irrefl : ∀ a, lt a a = false
  trans : ∀ a b c, lt a b = true → lt b c = true → lt a c = true
  total : ∀ a b, lt a b = false → lt b a = false → a = b

/-- strictly increasing -/
def Sorted (lt : α → α → Bool) : List α → Prop
  | [] => True
  | [_] => True
  | x :: y :: r => lt x y = true ∧ Sorted lt (y :: r)

/-- the invariant of the cache: a set flag means the vector is (strictly) sorted -/
def CacheOK (lt : α → α → Bool) (c : NodesC α) : Prop := c.sorted = true → Sorted lt c.vec

theorem sorted_tail {lt : α → α → Bool} {x : α} {l : List α} (h : Sorted lt (x :: l)) : Sorted lt l := by
  cases l with
  | nil => trivial
  | cons y r => exact h.2

/-- the head of a strictly sorted list is below everything behind it -/
theorem sorted_head_lt {lt : α → α → Bool} (st : StrictTotal lt) : ∀ {x : α} {l : List α}, Sorted lt (x :: l) → ∀ z ∈ l, lt x z = true
  | _, [], _, z, hz => by cases hz
  | x, y :: r, h, z, hz => by
    rcases List.mem_cons.1 hz with rfl | hz
    · exact h.1
    · exact st.trans x y z h.1 (sorted_head_lt st h.2 z hz)

theorem sorted_cons {lt : α → α → Bool} {x : α} {l : List α} (hl : Sorted lt l) (hx : ∀ z ∈ l, lt x z = true) :
    Sorted lt (x :: l) := by
  cases l with
  | nil => trivial
  | cons y r => exact ⟨hx y (by simp), hl⟩

theorem mem_insertSorted (lt : α → α → Bool) (x z : α) : ∀ (l : List α), z ∈ insertSorted lt x l ↔ z = x ∨ z ∈ l
  | [] => by simp [insertSorted]
  | y :: ys => by
    simp only [insertSorted]
    split
    · simp
    · simp only [List.mem_cons, mem_insertSorted lt x z ys]
      constructor
      · rintro (h | h | h)
        · exact .inr (.inl h)
        · exact .inl h
        · exact .inr (.inr h)
      · rintro (h | h | h)
        · exact .inr (.inl h)
        · exact .inl h
        · exact .inr (.inr h)

theorem mem_sortList (lt : α → α → Bool) (z : α) : ∀ (l : List α), z ∈ sortList lt l ↔ z ∈ l
  | [] => by simp [sortList]
  | x :: xs => by simp [sortList, mem_insertSorted, mem_sortList lt z xs]

theorem insertSorted_sorted {lt : α → α → Bool} (st : StrictTotal lt) (x : α) :
    ∀ (l : List α), Sorted lt l → x ∉ l → Sorted lt (insertSorted lt x l)
  | [], _, _ => trivial
  | y :: ys, h, hx => by
    simp only [insertSorted]
    split
    · rename_i hxy; exact ⟨hxy, h⟩
    · rename_i hxy
      have hne : x ≠ y := fun e => hx (by simp [e])
      have hyx : lt y x = true := by
        cases hyx : lt y x with
        | true => rfl
        | false => exact absurd (st.total x y (by simpa using hxy) hyx) hne
      have ih := insertSorted_sorted st x ys (sorted_tail h) (fun hm => hx (by simp [hm]))
      apply sorted_cons ih
      intro z hz
      rcases (mem_insertSorted lt x z ys).1 hz with rfl | hz
      · exact hyx
      · exact sorted_head_lt st h z hz

theorem sortList_sorted {lt : α → α → Bool} (st : StrictTotal lt) : ∀ (l : List α), l.Nodup → Sorted lt (sortList lt l)
  | [], _ => trivial
  | x :: xs, h => by
    have hx : x ∉ xs := (List.nodup_cons.1 h).1
    exact insertSorted_sorted st x _ (sortList_sorted st xs (List.nodup_cons.1 h).2) (fun hm => hx ((mem_sortList lt x xs).1 hm))

/-- sorting a strictly sorted list changes nothing -/
theorem sortList_of_sorted (lt : α → α → Bool) : ∀ (l : List α), Sorted lt l → sortList lt l = l
  | [], _ => rfl
  | [x], _ => rfl
  | x :: y :: r, h => by
    have ih := sortList_of_sorted lt (y :: r) h.2
    simp only [sortList] at ih ⊢
    rw [ih]
    simp [insertSorted, h.1]

/-! ### the cache -/

theorem cacheOK_new (lt : α → α → Bool) (v : List α) : CacheOK lt (new v) := by intro h; cases h
theorem cacheOK_push (lt : α → α → Bool) (c : NodesC α) (x : α) : CacheOK lt (c.push x) := by intro h; cases h
theorem cacheOK_iterMut (lt : α → α → Bool) (c : NodesC α) (f : α → α) : CacheOK lt (c.iterMut f) := by intro h; cases h

theorem sorted_eraseIdx {lt : α → α → Bool} (st : StrictTotal lt) : ∀ (l : List α) (i : Nat), Sorted lt l → Sorted lt (l.eraseIdx i)
  | [], _, _ => by simp; trivial
  | _ :: l, 0, h => by simpa using sorted_tail h
  | x :: l, i + 1, h => by
    simp only [List.eraseIdx_cons_succ]
    apply sorted_cons (sorted_eraseIdx st l i (sorted_tail h))
    intro z hz
    exact sorted_head_lt st h z (List.mem_of_mem_eraseIdx hz)

/-- `remove` keeps the flag: removing a child of a sorted vector leaves it sorted -/
theorem cacheOK_remove {lt : α → α → Bool} (st : StrictTotal lt) (c : NodesC α) (i : Nat) (h : CacheOK lt c) :
    CacheOK lt (c.remove i) := fun hs => sorted_eraseIdx st c.vec i (h hs)

/-- `sort` establishes the invariant (sibling keys are pairwise different) -/
theorem cacheOK_sort {lt : α → α → Bool} (st : StrictTotal lt) (c : NodesC α) (hnd : c.vec.Nodup) (h : CacheOK lt c) :
    CacheOK lt (c.sort lt) := by
  unfold sort
  split
  · exact h
  · intro _; exact sortList_sorted st c.vec hnd

/-- **The cache never changes what `sort` leaves behind**: under the invariant, `sort` — with or without its early
return — leaves exactly the sorted vector. -/
theorem sort_vec (lt : α → α → Bool) (c : NodesC α) (h : CacheOK lt c) : (c.sort lt).vec = sortList lt c.vec := by
  unfold sort
  split
  · rename_i hs; exact (sortList_of_sorted lt c.vec (h hs)).symm
  · rfl

/-- as `optimize` uses it (`for child in &mut self.X_children { child.optimize() }` then `self.X_children.sort()`), the early
return is never taken: the result is the sorted vector whatever the flag said before -/
theorem optimizeVec_vec (lt : α → α → Bool) (f : α → α) (c : NodesC α) :
    (c.optimizeVec lt f).vec = sortList lt (c.vec.map f) ∧ (c.optimizeVec lt f).sorted = true := by
  simp [optimizeVec, iterMut, sort]

end NodesC
