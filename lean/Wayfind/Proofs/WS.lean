import Wayfind.Proofs.Sort
import Wayfind.Proofs.Shape

def statPart (l : Label) : Part := .stat l.pre

mutual
/-- shape needed for "search = walk": flags off (inline strategy), no empty nodes, unique first bytes / labels,
    sorted parameter siblings, mid-route wildcard nodes carry no data, catch-all nodes are marked leaves -/
def Node.WS : Node → Prop
  | .mk _ s dc d wc w ec e ds ws _ =>
    ds = false ∧ ws = false ∧
    Kids.WSs s ∧ Kids.WSp false dc ∧ Kids.WSp false d ∧ Kids.WSp true wc ∧ Kids.WSp true w ∧
    Kids.WSe ec ∧ Kids.WSe e
def Kids.WSs : Kids → Prop
  | .nil => True
  | .cons l n r => l.pre ≠ [] ∧ Kids.noHead l.pre.head? r ∧ Node.WS n ∧ Kids.WSs r
def Kids.WSp (mid : Bool) : Kids → Prop
  | .nil => True
  | .cons _ n r => Node.WS n ∧ (mid = true → n.data = none) ∧ Kids.WSp mid r
def Kids.WSe : Kids → Prop
  | .nil => True
  | .cons _ n r => (∃ i, n = Node.mk (some i) .nil .nil .nil .nil .nil .nil .nil false false true
                        ∨ n = Node.mk (some i) .nil .nil .nil .nil .nil .nil .nil false false false) ∧ Kids.WSe r
end

-- sortedness / non-emptiness side conditions, kept separate from the recursive shape
mutual
def Node.WO : Node → Prop
  | .mk _ s dc d wc w ec e _ _ _ =>
    Kids.WOk s ∧ Kids.WOk dc ∧ Kids.WOk d ∧ Kids.WOk wc ∧ Kids.WOk w ∧
    SortedL dc.labels ∧ SortedL d.labels ∧ SortedL wc.labels ∧ SortedL w.labels ∧ SortedL ec.labels ∧ SortedL e.labels
def Kids.WOk : Kids → Prop
  | .nil => True
  | .cons _ n r => Node.WO n ∧ Node.routes n ≠ [] ∧ Kids.WOk r
end

theorem kids_routes_parts_ne (mk : Label → Part) : ∀ (ks : Kids), ∀ r ∈ Kids.routes mk ks, r.parts ≠ []
  | .nil, r, hr => by simp [Kids.routes] at hr
  | .cons l n r', r, hr => by
    simp only [Kids.routes, List.mem_append, List.mem_map] at hr
    rcases hr with ⟨r0, _, rfl⟩ | h
    · simp [Route.push]
    · exact kids_routes_parts_ne mk r' r h

theorem routes_parts_ne_of_data_none : ∀ (n : Node), n.data = none → ∀ r ∈ Node.routes n, r.parts ≠ []
  | .mk x s dc d wc w ec e _ _ _, hx, r, hr => by
    simp only [Node.data] at hx
    subst hx
    simp only [Node.routes, List.nil_append, List.mem_append] at hr
    rcases hr with ((((((h | h) | h) | h) | h) | h) | h) <;> exact kids_routes_parts_ne _ _ _ h
