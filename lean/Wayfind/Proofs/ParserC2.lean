import Wayfind.Proofs.ParserC1
import Wayfind.Proofs.CheckedParser3

/-! The checked, position-based group expander computes exactly what the list-based one computes, hence
`parseC input = liftT (parseTemplates input)`: the transcription that keeps the Rust code's indices — proved panic-free
and total in `CheckedParser1-3` — and the list-based model — proved equal to the grammar in `ParserEq` — are the same
function. -/

/-- `&input[a..b]` -/
def sl (input : Bytes) (a b : Nat) : Bytes := (input.drop a).take (b - a)

theorem sl_nil (input : Bytes) (a b : Nat) (h : b ≤ a) : sl input a b = [] := by
  unfold sl
  have : b - a = 0 := by omega
  rw [this]; rfl

theorem sl_cons (input : Bytes) (a b : Nat) (h : a < b) (hb : b ≤ input.length) :
    ∃ x, input[a]? = some x ∧ sl input a b = x :: sl input (a + 1) b := by
  have hlt : a < input.length := by omega
  refine ⟨input[a], by simp [hlt], ?_⟩
  unfold sl
  rw [List.drop_eq_getElem_cons hlt]
  obtain ⟨k, hk⟩ : ∃ k, b - a = k + 1 := ⟨b - a - 1, by omega⟩
  rw [hk, List.take_succ_cons]
  congr 2
  omega

theorem sl_snoc (input : Bytes) (a c : Nat) (x : Byte) (h : a ≤ c) (hx : input[c]? = some x) :
    sl input a c ++ [x] = sl input a (c + 1) := by
  unfold sl
  have e : c + 1 - a = (c - a) + 1 := by omega
  rw [e, List.take_succ]
  congr 1
  rw [List.getElem?_drop]
  have : a + (c - a) = c := by omega
  rw [this, hx]
  rfl

theorem sl_full (input : Bytes) : sl input 0 input.length = input := by
  unfold sl
  simp

theorem sliceC_sl (input : Bytes) (a b : Nat) (site : String) (h1 : a ≤ b) (h2 : b ≤ input.length) :
    sliceC input a b site = .ok (sl input a b) := by
  simp [sliceC, sl, h1, h2]

theorem map_append_nil (l : List Bytes) : l.map (· ++ []) = l := by
  induction l with
  | nil => rfl
  | cons a r ih => simp

theorem expandScan_nil (full : Bytes) (fuel start : Nat) (next : Option Byte) (top : Bool) (cursor : Nat) (st : ExpSt) :
    expandScan full fuel start next top [] cursor st =
    (if st.depth ≠ 0 then .error (.unbalancedParenthesis full (start + st.group - 1))
    else
      let res := st.result.map (· ++ st.acc)
      .ok (if top then res.map (fun t => if t.isEmpty then [47] else t) else res)) := by
  rw [expandScan.eq_1]
theorem expandScan_cons (full : Bytes) (fuel start : Nat) (next : Option Byte) (top : Bool) (b : Byte) (rest : Bytes) (cursor : Nat) (st : ExpSt) :
    expandScan full fuel start next top (b :: rest) cursor st =
    (if b = 92 ∧ (rest ≠ [] ∨ next.isSome) then
      match rest with
      | b2 :: rest' => expandScan full fuel start next top rest' (cursor + 2) { st with acc := st.acc ++ [b, b2] }
      | [] => expandScan full fuel start next top [] (cursor + 2) { st with acc := st.acc ++ [b] }
    else if b = 40 then
      if st.depth = 0 then
        expandScan full fuel start next top rest (cursor + 1)
          { result := st.result.map (· ++ st.acc), group := cursor + 1, depth := 1, acc := [] }
      else
        expandScan full fuel start next top rest (cursor + 1) { st with depth := st.depth + 1, acc := st.acc ++ [b] }
    else if b = 41 then
      if st.depth = 0 then .error (.unbalancedParenthesis full cursor)
      else if st.depth = 1 then
        if cursor = st.group then .error (.emptyParentheses full (cursor - 1))
        else
          match expandRange full fuel st.acc st.group (some 41) false with
          | .error e => .error e
          | .ok inner =>
            expandScan full fuel start next top rest (cursor + 1)
              { result := productStep st.result inner, group := cursor + 1, depth := 0, acc := [] }
      else
        expandScan full fuel start next top rest (cursor + 1) { st with depth := st.depth - 1, acc := st.acc ++ [b] }
    else
      expandScan full fuel start next top rest (cursor + 1) { st with acc := st.acc ++ [b] }) := by
  cases rest with
  | nil => rw [expandScan.eq_3]; rfl
  | cons b2 rest' => rw [expandScan.eq_2]; rfl

/-- the state of the list-based scan that corresponds to the counters of the position-based loop -/
def stOf (input : Bytes) (end_ cursor group depth : Nat) (result : List Bytes) : ExpSt :=
  ⟨result, group, depth, sl input group (min cursor end_)⟩

theorem expand_eq (input : Bytes) : ∀ fuelC,
    (∀ start end_ fuelR, start ≤ end_ → end_ ≤ input.length → needE (end_ - start) ≤ fuelC → end_ - start < fuelR →
      expandC input fuelC start end_ =
        liftT (expandRange input fuelR (sl input start end_) start input[end_]? (decide (start = 0 ∧ end_ = input.length)))) ∧
    (∀ start end_ cursor group depth result fuelR, start ≤ cursor → cursor ≤ end_ + 1 → end_ ≤ input.length → group ≤ cursor →
      start ≤ group → (0 < depth → start < group) → needL (end_ - start) (end_ + 2 - cursor) ≤ fuelC → end_ - start ≤ fuelR →
      expandLoopC input fuelC start end_ cursor group depth result =
        liftT (expandScan input fuelR start input[end_]? (decide (start = 0 ∧ end_ = input.length))
          (sl input cursor end_) cursor (stOf input end_ cursor group depth result))) := by
  intro fuelC
  induction fuelC with
  | zero =>
    refine ⟨fun start end_ fuelR _ _ h _ => ?_, fun start end_ cursor group depth result fuelR _ hc _ _ _ _ h _ => ?_⟩
    · have := needE_ge (end_ - start); omega
    · simp only [needL] at h; omega
  | succ fuelC ih =>
    obtain ⟨ihC, ihL⟩ := ih
    refine ⟨?_, ?_⟩
    · intro start end_ fuelR hse hel hf hfr
      obtain ⟨fr, rfl⟩ : ∃ fr, fuelR = fr + 1 := ⟨fuelR - 1, by omega⟩
      simp only [expandC, expandRange]
      have := ihL start end_ start start 0 [[]] fr (Nat.le_refl _) (by omega) hel (Nat.le_refl _) (Nat.le_refl _)
        (fun h => absurd h (Nat.lt_irrefl 0)) (by simp only [needL]; have := needE_eq (end_ - start); omega) (by omega)
      rw [this]
      simp only [stOf]
      rw [Nat.min_eq_left hse, sl_nil input start start (Nat.le_refl _)]
    · intro start end_ cursor group depth result fuelR hsc hce hel hgc hsg hd hf hfr
      simp only [expandLoopC]
      simp only [needL] at hf
      have step1 : needL (end_ - start) (end_ + 2 - (cursor + 1)) ≤ fuelC := by simp only [needL]; omega
      have step2 : cursor < end_ → needL (end_ - start) (end_ + 2 - (cursor + 2)) ≤ fuelC := by intro _; simp only [needL]; omega
      by_cases hlt : cursor < end_
      · -- inside the range: one byte
        rw [if_pos hlt]
        obtain ⟨b, hb, hrest⟩ := sl_cons input cursor end_ hlt hel
        simp only [getB, hb]
        rw [hrest]
        have hmin : min cursor end_ = cursor := Nat.min_eq_left (by omega)
        have hmin1 : min (cursor + 1) end_ = cursor + 1 := Nat.min_eq_left (by omega)
        have hacc1 : sl input group cursor ++ [b] = sl input group (cursor + 1) := sl_snoc input group cursor b hgc hb
        rw [expandScan_cons]
        simp only [stOf, hmin]
        -- the escape test: `input[cursor + 1]` exists iff the range continues or a byte follows it
        have hesc : ((sl input (cursor + 1) end_ ≠ [] ∨ (input[end_]?).isSome = true)) ↔ ((input[cursor + 1]?).isSome = true) := by
          by_cases h1 : cursor + 1 < end_
          · obtain ⟨x, hx, hx2⟩ := sl_cons input (cursor + 1) end_ h1 hel
            rw [hx2, hx]; simp
          · have he : cursor + 1 = end_ := by omega
            rw [sl_nil input (cursor + 1) end_ (by omega), he]; simp
        by_cases h92 : b = 92 ∧ (input[cursor + 1]?).isSome = true
        · have h92' : b = 92 ∧ (sl input (cursor + 1) end_ ≠ [] ∨ (input[end_]?).isSome = true) := ⟨h92.1, hesc.2 h92.2⟩
          rw [if_pos h92, if_pos h92']
          have ihx := ihL start end_ (cursor + 2) group depth result fuelR (by omega) (by omega) hel (by omega) hsg hd (step2 hlt) hfr
          rw [ihx]
          by_cases h1 : cursor + 1 < end_
          · obtain ⟨x, hx, hx2⟩ := sl_cons input (cursor + 1) end_ h1 hel
            rw [hx2]
            simp only [stOf]
            have hm2 : min (cursor + 2) end_ = cursor + 2 := Nat.min_eq_left (by omega)
            have : sl input group cursor ++ [b, x] = sl input group (cursor + 2) := by
              have := sl_snoc input group (cursor + 1) x (by omega) hx
              rw [← this, ← hacc1]; simp
            rw [hm2, this]
          · have he : cursor + 1 = end_ := by omega
            rw [sl_nil input (cursor + 1) end_ (by omega)]
            simp only [stOf]
            have hm2 : min (cursor + 2) end_ = cursor + 1 := by omega
            rw [hm2, hacc1, sl_nil input (cursor + 2) end_ (by omega)]
        · have h92' : ¬ (b = 92 ∧ (sl input (cursor + 1) end_ ≠ [] ∨ (input[end_]?).isSome = true)) :=
            fun h => h92 ⟨h.1, hesc.1 h.2⟩
          rw [if_neg h92, if_neg h92']
          by_cases h40 : b = 40
          · rw [if_pos h40, if_pos h40]
            by_cases hd0 : depth = 0
            · rw [if_pos hd0, if_pos hd0, sliceC_sl input group cursor _ hgc (by omega)]
              simp only []
              rw [ihL start end_ (cursor + 1) (cursor + 1) 1 _ fuelR (by omega) (by omega) hel (Nat.le_refl _) (by omega)
                (fun _ => by omega) step1 hfr]
              simp only [stOf, hmin1]
              rw [sl_nil input (cursor + 1) (cursor + 1) (Nat.le_refl _)]
            · rw [if_neg hd0, if_neg hd0]
              rw [ihL start end_ (cursor + 1) group (depth + 1) result fuelR (by omega) (by omega) hel (by omega) hsg
                (fun _ => hd (by omega)) step1 hfr]
              simp only [stOf, hmin1, hacc1]
          · rw [if_neg h40, if_neg h40]
            by_cases h41 : b = 41
            · rw [if_pos h41, if_pos h41]
              by_cases hd0 : depth = 0
              · rw [if_pos hd0, if_pos hd0]; rfl
              · rw [if_neg hd0, if_neg hd0]
                by_cases hd1 : depth = 1
                · rw [if_pos hd1, if_pos hd1]
                  by_cases hcg : cursor = group
                  · rw [if_pos hcg, if_pos hcg]
                    have hg1 := hd (by omega)
                    simp only [subC]
                    rw [if_pos (by omega)]
                    rfl
                  · rw [if_neg hcg, if_neg hcg]
                    have hg1 := hd (by omega)
                    have hE : needE (cursor - group) ≤ fuelC := by
                      have := nest_ge (m := cursor - group) (n := end_ - start) (by omega)
                      omega
                    have hnest := ihC group cursor fuelR (by omega) (by omega) hE (by omega)
                    have htop : decide (group = 0 ∧ cursor = input.length) = false := by
                      apply decide_eq_false; intro h; omega
                    rw [hnest, hb, h41, htop]
                    cases expandRange input fuelR (sl input group cursor) group (some 41) false with
                    | error e => rfl
                    | ok inner =>
                      simp only [liftT]
                      rw [ihL start end_ (cursor + 1) (cursor + 1) 0 _ fuelR (by omega) (by omega) hel (Nat.le_refl _) (by omega)
                        (fun h => absurd h (Nat.lt_irrefl 0)) step1 hfr]
                      simp only [stOf, hmin1]
                      rw [sl_nil input (cursor + 1) (cursor + 1) (Nat.le_refl _)]
                      rfl
                · rw [if_neg hd1, if_neg hd1]
                  rw [ihL start end_ (cursor + 1) group (depth - 1) result fuelR (by omega) (by omega) hel (by omega) hsg
                    (fun _ => hd (by omega)) step1 hfr]
                  simp only [stOf, hmin1, hacc1]
            · rw [if_neg h41, if_neg h41]
              rw [ihL start end_ (cursor + 1) group depth result fuelR (by omega) (by omega) hel (by omega) hsg hd step1 hfr]
              simp only [stOf, hmin1, hacc1]
      · -- the range is exhausted
        rw [if_neg hlt]
        rw [sl_nil input cursor end_ (by omega)]
        have hmin : min cursor end_ = end_ := Nat.min_eq_right (by omega)
        rw [expandScan_nil]
        simp only [stOf, hmin]
        by_cases hd0 : depth ≠ 0
        · rw [if_pos hd0, if_pos hd0]
          have hg1 := hd (by omega)
          simp only [subC]
          rw [if_pos (by omega)]
          rfl
        · rw [if_neg hd0, if_neg hd0]
          by_cases hge : group < end_
          · rw [if_pos hge, sliceC_sl input group end_ _ (by omega) hel]
            simp only [liftT]
            by_cases htop : start = 0 ∧ end_ = input.length
            · simp [htop]
            · simp [htop]
          · rw [if_neg hge, sl_nil input group end_ (by omega), map_append_nil]
            simp only [liftT]
            by_cases htop : start = 0 ∧ end_ = input.length
            · simp [htop]
            · simp [htop]

/-- **`ParsedTemplate::new`, position-based = list-based**: same expansions and parts, same errors at the same positions -/
theorem parseC_eq_parseTemplates (input : Bytes) : parseC input = liftT (parseTemplates input) := by
  unfold parseC parseTemplates
  by_cases he : input.isEmpty = true
  · simp only [he, ite_true]; rfl
  · simp only [he, Bool.false_eq_true, ite_false]
    have h := (expand_eq input ((input.length + 2) * (input.length + 2))).1 0 input.length (input.length + 1)
      (Nat.zero_le _) (Nat.le_refl _) (by have := needE_le_sq input.length; simp only [Nat.sub_zero]; omega) (by omega)
    rw [h, sl_full]
    have hnone : input[input.length]? = none := by simp
    have htop : decide (0 = 0 ∧ input.length = input.length) = true := by simp
    rw [hnone, htop]
    cases expandRange input (input.length + 1) input 0 none true with
    | error e => rfl
    | ok raws =>
      refine mapExceptC_eq _ _ (fun raw => ?_) raws
      rw [parseTemplateC_eq raw]
      cases parseTemplate raw <;> rfl
