import Wayfind.Proofs.ParenFault2

/-! parenthesis faults at the top level: an unbalanced-parenthesis error names an unmatched unescaped parenthesis -/

theorem faultPresent_empty {full : Bytes} {p : Nat} (h : EmptyParenAt full p) :
    faultPresent full (.emptyParentheses full p) = true := by
  obtain ⟨h1, h2, h3, h4⟩ := h
  simp [faultPresent, h1, h2, h3, h4]

theorem faultPresent_unb {full : Bytes} {p : Nat} (h : p ∈ unmatchedParens full) :
    faultPresent full (.unbalancedParenthesis full p) = true := by
  simp [faultPresent, h]

theorem faultPresent_of_nested {full : Bytes} {e : TErr} (h : ∃ p, e = .emptyParentheses full p ∧ EmptyParenAt full p) :
    faultPresent full e = true := by
  obtain ⟨p, rfl, hp⟩ := h
  exact faultPresent_empty hp

theorem scan_topfault (full : Bytes) (fuel : Nat) :
    ∀ (n : Nat) (rest : Bytes) (cursor : Nat) (st : ExpSt) (stack : List Nat) (e : TErr), rest.length ≤ n →
      full.drop cursor = rest → EscAt full cursor →
      unmatchedParens full = unmatchedParens.go cursor rest (escMask rest) stack [] →
      stack.length = st.depth → (st.depth ≠ 0 → stack.getLast? = some (st.group - 1)) →
      (st.depth ≠ 0 → GroupInv full st cursor) →
      expandScan full fuel 0 none true rest cursor st = .error e → faultPresent full e = true := by
  intro n
  have hfin : ∀ (cursor cur' : Nat) (st : ExpSt) (stack : List Nat) (e : TErr),
      unmatchedParens full = unmatchedParens.go cursor [] [] stack [] →
      (st.depth ≠ 0 → stack.getLast? = some (st.group - 1)) →
      expandScan full fuel 0 none true [] cur' st = .error e → faultPresent full e = true := by
    intro cursor cur' st stack e hgo hlast h
    by_cases hd : st.depth = 0
    · obtain ⟨res, hr⟩ := scan_end0 full fuel 0 none true cur' st hd
      rw [hr] at h; cases h
    · rw [scan_endN full fuel 0 none true cur' st hd] at h
      injection h with h; subst h
      apply faultPresent_unb
      rw [hgo, go_nil]
      have := List.mem_of_getLast? (hlast hd)
      simpa using this
  induction n with
  | zero =>
    intro rest cursor st stack e hn hpos hesc hgo hlen hlast hg h
    have : rest = [] := List.eq_nil_of_length_eq_zero (by omega)
    subst this
    exact hfin cursor cursor st stack e (by simpa [escMask] using hgo) hlast h
  | succ n ih =>
    intro rest cursor st stack e hn hpos hesc hgo hlen hlast hg h
    match rest, hn, hpos, hgo, h with
    | [], _, _, hgo, h => exact hfin cursor cursor st stack e (by simpa [escMask] using hgo) hlast h
    | b :: t, hn, hpos, hgo, h =>
      simp only [List.length_cons] at hn
      by_cases h92 : b = 92
      · subst h92
        cases t with
        | nil =>
          rw [scan_lone full fuel 0 none true cursor st rfl] at h
          rw [escMask_lone, go_other _ _ _ _ _ _ (by decide) (by decide)] at hgo
          exact hfin (cursor + 1) (cursor + 1) ⟨st.result, st.group, st.depth, st.acc ++ [92]⟩ stack e hgo hlast h
        | cons b2 t' =>
          rw [scan_esc] at h
          rw [escMask_pair, go_esc, go_esc] at hgo
          refine ih t' (cursor + 2) ⟨st.result, st.group, st.depth, st.acc ++ [92, b2]⟩ stack e (by simp only [List.length_cons] at hn; omega) ?_ (escAt_pair hesc hpos) hgo hlen hlast ?_ h
          · have : full.drop (cursor + 2) = (full.drop cursor).drop 2 := by rw [List.drop_drop]
            rw [this, hpos]; rfl
          · intro hd; exact (hg hd).push2 b2 _ hpos
      · have hstep := escAt_ne hesc hpos h92
        have hnext : full.drop (cursor + 1) = t := drop_succ_of_drop hpos
        rw [escMask_ne b t h92] at hgo
        by_cases h40 : b = 40
        · subst h40
          rw [go_open] at hgo
          by_cases hd : st.depth = 0
          · rw [scan_open0 full fuel 0 none true t cursor st hd] at h
            have hs : stack = [] := List.eq_nil_of_length_eq_zero (by omega)
            subst hs
            refine ih t (cursor + 1) _ [cursor] e (by omega) hnext hstep.1 hgo rfl ?_ ?_ h
            · intro _; simp
            · intro _; exact GroupInv.opening _ hpos hesc
          · rw [scan_openN full fuel 0 none true t cursor st hd] at h
            refine ih t (cursor + 1) _ (cursor :: stack) e (by omega) hnext hstep.1 hgo (by simp [hlen]) ?_ ?_ h
            · intro _
              cases stack with
              | nil => simp at hlen; exact absurd hlen.symm hd
              | cons x s' => rw [List.getLast?_cons_cons]; exact hlast hd
            · intro _
              refine (hg hd).push1 40 _ (st.depth + 1) hpos ?_
              intro tail
              rw [bal_open]
              congr 1; omega
        · by_cases h41 : b = 41
          · subst h41
            by_cases hd : st.depth = 0
            · rw [scan_stray full fuel 0 none true t cursor st hd] at h
              injection h with h; subst h
              have hs : stack = [] := List.eq_nil_of_length_eq_zero (by omega)
              subst hs
              rw [go_close_stray] at hgo
              apply faultPresent_unb
              rw [hgo]
              exact go_un_mem _ _ _ _ _ _ (by simp)
            · cases stack with
              | nil => simp at hlen; exact absurd hlen.symm hd
              | cons x s' =>
                rw [go_close_pop] at hgo
                simp only [List.length_cons] at hlen
                by_cases hd1 : st.depth = 1
                · rw [scan_close1 full fuel 0 none true t cursor st hd1] at h
                  have g := hg hd
                  by_cases hcg : cursor = st.group
                  · simp only [hcg, ite_true] at h
                    injection h with h; subst h
                    apply faultPresent_empty
                    refine ⟨g.opn, ?_, g.msk, ?_⟩
                    · have : st.group - 1 + 1 = cursor := by have := g.pos; omega
                      rw [this]; exact getElem?_of_drop hpos
                    · have : st.group - 1 + 1 = cursor := by have := g.pos; omega
                      rw [this]; exact hstep.2
                  · simp only [hcg, ite_false] at h
                    have hbacc : bal st.acc 0 = some 0 := by
                      have := g.acc []
                      simpa [hd1, bal] using this
                    cases hE : expandRange full fuel st.acc st.group (some 41) false with
                    | error e' =>
                      rw [hE] at h
                      injection h with h; subst h
                      apply faultPresent_of_nested
                      refine nestOK_all full fuel st.acc st.group t _ ?_ g.esc hbacc hE
                      rw [g.txt, hpos]
                    | ok inner =>
                      rw [hE] at h
                      simp only at h
                      have hs : s' = [] := List.eq_nil_of_length_eq_zero (by omega)
                      subst hs
                      refine ih t (cursor + 1) _ [] e (by omega) hnext hstep.1 hgo rfl ?_ ?_ h
                      · intro hc; exact absurd rfl hc
                      · intro hc; exact absurd rfl hc
                · rw [scan_closeN full fuel 0 none true t cursor st hd hd1] at h
                  refine ih t (cursor + 1) _ s' e (by omega) hnext hstep.1 hgo (by show s'.length = st.depth - 1; omega) ?_ ?_ h
                  · intro _
                    cases s' with
                    | nil => simp at hlen; exact absurd hlen.symm hd1
                    | cons y s'' =>
                      have := hlast hd
                      rw [List.getLast?_cons_cons] at this
                      exact this
                  · intro _
                    refine (hg hd).push1 41 _ (st.depth - 1) hpos ?_
                    intro tail
                    rw [bal_close]
                    have : st.depth - 1 ≠ 0 := by omega
                    simp only [this, ite_false]
          · rw [scan_lit full fuel 0 none true b t cursor st h92 h40 h41] at h
            rw [go_other _ _ _ _ _ _ h40 h41] at hgo
            refine ih t (cursor + 1) ⟨st.result, st.group, st.depth, st.acc ++ [b]⟩ stack e (by omega) hnext hstep.1 hgo hlen hlast ?_ h
            intro hd
            refine (hg hd).push1 b _ st.depth hpos ?_
            intro tail
            exact bal_other b tail _ h92 h40 h41

/-- **an error raised while expanding names a parenthesis fault that is present in the input** -/
theorem expand_error_fault (input : Bytes) (e : TErr)
    (h : expandRange input (input.length + 1) input 0 none true = .error e) : faultPresent input e = true := by
  rw [expandRange.eq_2] at h
  exact scan_topfault input input.length input.length input 0 _ [] e (Nat.le_refl _) (by simp) (escAt_zero _) rfl rfl
    (fun hc => absurd rfl hc) (fun hc => absurd rfl hc) h
