import Wayfind.Spec.DrawingText

/-! Reading the printed lines back: every line `Node.lines` prints parses (`parseLineC`) to the depth, label and mark of the
node it was printed for, in printing order — for every tree whose labels can be read back (`Node.drawable`). -/

def PadOK (pad : List Char) (d : Nat) : Prop := pad.length = 3 * d ∧ ∀ c ∈ pad, isPadChar c = true

def markC (m : Bool) : List Char := if m then [' ', '[', '*', ']'] else []

theorem keyOK_ne_nil {k : List Char} (h : keyOK k = true) : k ≠ [] := by
  intro e; subst e; simp [keyOK] at h

theorem keyOK_no_bracket {k : List Char} (h : keyOK k = true) : ']' ∉ k := by
  unfold keyOK at h
  simp only [Bool.and_eq_true, Bool.not_eq_true', List.contains_eq_mem, decide_eq_false_iff_not] at h
  exact h.1.2

theorem keyOK_head {k : List Char} (h : keyOK k = true) :
    ∃ c t, k = c :: t ∧ isPadChar c = false ∧ c ≠ '├' ∧ c ≠ '╰' := by
  cases k with
  | nil => simp [keyOK] at h
  | cons c t =>
    refine ⟨c, t, rfl, ?_⟩
    unfold keyOK at h
    simp only [Bool.and_eq_true, Bool.not_eq_true', Bool.or_eq_false_iff, beq_eq_false_iff_ne] at h
    exact ⟨h.2.1.1, h.2.1.2, h.2.2⟩

/-- the tail of a line: label followed by the optional mark, read from the end -/
theorem read_mark (k : List Char) (m : Bool) (hk : ']' ∉ k) (d : Nat) :
    readMark d (k ++ markC m) = some (d, k, m) := by
  unfold readMark
  cases m with
  | true =>
    simp [markC, List.reverse_append]
  | false =>
    simp only [markC, Bool.false_eq_true, if_false, List.append_nil]
    split
    · rename_i k' h
      have : ']' ∈ k.reverse := by rw [h]; simp
      exact absurd (List.mem_reverse.1 this) hk
    · rfl

theorem parse_branch_line (pad k : List Char) (g : Char) (m : Bool) (d : Nat) (hp : PadOK pad d)
    (hg : g = '├' ∨ g = '╰') (hk : keyOK k = true) :
    parseLineC (pad ++ g :: '─' :: ' ' :: (k ++ markC m)) = some (d + 1, k, m) := by
  have hgp : ¬ isPadChar g = true := by rcases hg with rfl | rfl <;> decide
  have htw : (pad ++ g :: '─' :: ' ' :: (k ++ markC m)).takeWhile isPadChar = pad := by
    rw [List.takeWhile_append_of_pos hp.2, List.takeWhile_cons_of_neg hgp, List.append_nil]
  have hdw : (pad ++ g :: '─' :: ' ' :: (k ++ markC m)).dropWhile isPadChar = g :: '─' :: ' ' :: (k ++ markC m) := by
    rw [List.dropWhile_append_of_pos hp.2, List.dropWhile_cons_of_neg hgp]
  have hgg : (g == '├' || g == '╰') = true := by rcases hg with rfl | rfl <;> decide
  have hmod : pad.length % 3 = 0 := by rw [hp.1]; omega
  have hdiv : pad.length / 3 = d := by rw [hp.1]; omega
  have hdb : lineDepthBody pad (g :: '─' :: ' ' :: (k ++ markC m)) (pad ++ g :: '─' :: ' ' :: (k ++ markC m)) = (d + 1, k ++ markC m) := by
    simp [lineDepthBody, hgg, hmod, hdiv]
  unfold parseLineC
  simp only [htw, hdw, hdb]
  have : (d + 1 == 0) = false := by simp
  simp only [this, Bool.false_and, Bool.false_eq_true, if_false]
  exact read_mark k m (keyOK_no_bracket hk) (d + 1)

theorem parse_top_line (k : List Char) (m : Bool) (hk : keyOK k = true) :
    parseLineC (k ++ markC m) = some (0, k, m) := by
  obtain ⟨c, t, rfl, hc, h1, h2⟩ := keyOK_head hk
  have hcp : ¬ isPadChar c = true := by simp [hc]
  have htw : (c :: t ++ markC m).takeWhile isPadChar = [] := by
    rw [List.cons_append, List.takeWhile_cons_of_neg hcp]
  have hdw : (c :: t ++ markC m).dropWhile isPadChar = c :: t ++ markC m := by
    rw [List.cons_append, List.dropWhile_cons_of_neg hcp]
  have hdb : lineDepthBody [] (c :: t ++ markC m) (c :: t ++ markC m) = (0, c :: t ++ markC m) := by
    have hcc : (c == '├' || c == '╰') = false := by simp [h1, h2]
    unfold lineDepthBody
    rw [List.cons_append]
    split
    · rename_i g body heq
      simp only [List.cons.injEq] at heq
      obtain ⟨rfl, _⟩ := heq
      simp [hcc]
    · rfl
  unfold parseLineC
  simp only [htw, hdw, hdb]
  simp only [beq_self_eq_true, List.isEmpty_nil, Bool.not_true, Bool.and_false, Bool.false_eq_true, if_false]
  exact read_mark (c :: t) m (keyOK_no_bracket hk) 0

/-- the characters of a printed line -/
theorem line_chars (padding key : String) (isLast m : Bool) :
    (padding ++ (if isLast then "╰─" else "├─") ++ " " ++ key ++ (if m then " [*]" else "")).toList =
      padding.toList ++ (if isLast then '╰' else '├') :: '─' :: ' ' :: (key.toList ++ markC m) := by
  cases isLast <;> cases m <;> simp [String.toList_append, markC]

theorem top_line_chars (key : String) (m : Bool) :
    (key ++ (if m then " [*]" else "")).toList = key.toList ++ markC m := by
  cases m <;> simp [String.toList_append, markC]

theorem mark_toList (m : Bool) : (if m = true then " [*]" else "").toList = markC m := by
  cases m <;> simp [markC]

theorem padOK_ext (pad : String) (d : Nat) (h : PadOK pad.toList d) (isLast : Bool) :
    PadOK (if isLast then pad ++ "   " else pad ++ "│  ").toList (d + 1) := by
  cases isLast
  · simp only [Bool.false_eq_true, if_false, String.toList_append]
    refine ⟨by simp [h.1]; omega, ?_⟩
    intro c hc
    rcases List.mem_append.1 hc with hc | hc
    · exact h.2 c hc
    · have : c = '│' ∨ c = ' ' := by simpa using hc
      rcases this with rfl | rfl <;> decide
  · simp only [if_true, String.toList_append]
    refine ⟨by simp [h.1]; omega, ?_⟩
    intro c hc
    rcases List.mem_append.1 hc with hc | hc
    · exact h.2 c hc
    · have : c = ' ' := by simpa using hc
      subst this; decide

/-- the situation in which `Node.lines` is called for a node with label `key`: either as the root (`key = ""`, nothing is
printed for it, its children are top-level lines), or as a top-level line (depth 0, no padding), or below one (depth
`d + 1`, padding of `3 d` indentation characters) -/
inductive Ctx : String → String → Bool → Nat → Prop
  | root : Ctx "" "" true 0
  | top {key : String} : keyOK key.toList = true → Ctx key "" true 0
  | inner {key pad : String} {d : Nat} : keyOK key.toList = true → PadOK pad.toList d → Ctx key pad false (d + 1)

theorem key_nonempty {key : String} (h : keyOK key.toList = true) : key.isEmpty = false := by
  cases hk : key.isEmpty with
  | false => rfl
  | true =>
    have := String.isEmpty_iff.1 hk
    subst this
    simp [keyOK] at h

mutual
theorem Node.lines_parse : ∀ (n : Node) (key padding : String) (isRoot isLast : Bool) (d : Nat),
    Ctx key padding isRoot d → Node.drawable n = true →
    (Node.lines key padding isRoot isLast n).map (fun l => parseLineC l.toList) = (Node.dents d key.toList n).map some
  | .mk x s dc dy wc w ec e _ _ _, key, padding, isRoot, isLast, d, hctx, hdr => by
    simp only [Node.drawable, Bool.and_eq_true] at hdr
    obtain ⟨⟨⟨⟨⟨⟨h0, h1⟩, h2⟩, h3⟩, h4⟩, h5⟩, h6⟩ := hdr
    cases hctx with
    | root =>
      have k0 := fun rem => Kids.lines_parse s 0 "" true rem 0 (.inl ⟨rfl, rfl, rfl⟩) h0
      have k1 := fun rem => Kids.lines_parse dc 1 "" true rem 0 (.inl ⟨rfl, rfl, rfl⟩) h1
      have k2 := fun rem => Kids.lines_parse dy 2 "" true rem 0 (.inl ⟨rfl, rfl, rfl⟩) h2
      have k3 := fun rem => Kids.lines_parse wc 3 "" true rem 0 (.inl ⟨rfl, rfl, rfl⟩) h3
      have k4 := fun rem => Kids.lines_parse w 4 "" true rem 0 (.inl ⟨rfl, rfl, rfl⟩) h4
      have k5 := fun rem => Kids.lines_parse ec 5 "" true rem 0 (.inl ⟨rfl, rfl, rfl⟩) h5
      have k6 := fun rem => Kids.lines_parse e 6 "" true rem 0 (.inl ⟨rfl, rfl, rfl⟩) h6
      have he : "".isEmpty = true := by decide
      simp [Node.lines, Node.dents, k0, k1, k2, k3, k4, k5, k6, he]
    | top hk =>
      have hne := key_nonempty hk
      have hne' : key.toList.isEmpty = false := by
        cases h : key.toList with
        | nil => exact absurd h (keyOK_ne_nil hk)
        | cons _ _ => rfl
      have k0 := fun rem => Kids.lines_parse s 0 "" false rem 1 (.inr ⟨0, rfl, rfl, ⟨rfl, by simp⟩⟩) h0
      have k1 := fun rem => Kids.lines_parse dc 1 "" false rem 1 (.inr ⟨0, rfl, rfl, ⟨rfl, by simp⟩⟩) h1
      have k2 := fun rem => Kids.lines_parse dy 2 "" false rem 1 (.inr ⟨0, rfl, rfl, ⟨rfl, by simp⟩⟩) h2
      have k3 := fun rem => Kids.lines_parse wc 3 "" false rem 1 (.inr ⟨0, rfl, rfl, ⟨rfl, by simp⟩⟩) h3
      have k4 := fun rem => Kids.lines_parse w 4 "" false rem 1 (.inr ⟨0, rfl, rfl, ⟨rfl, by simp⟩⟩) h4
      have k5 := fun rem => Kids.lines_parse ec 5 "" false rem 1 (.inr ⟨0, rfl, rfl, ⟨rfl, by simp⟩⟩) h5
      have k6 := fun rem => Kids.lines_parse e 6 "" false rem 1 (.inr ⟨0, rfl, rfl, ⟨rfl, by simp⟩⟩) h6
      simp [Node.lines, Node.dents, hne, hne', k0, k1, k2, k3, k4, k5, k6]
      rw [mark_toList]; exact parse_top_line _ _ hk
    | @inner _ _ d' hk hp =>
      have hne := key_nonempty hk
      have hne' : key.toList.isEmpty = false := by
        cases h : key.toList with
        | nil => exact absurd h (keyOK_ne_nil hk)
        | cons _ _ => rfl
      have hp' := padOK_ext padding d' hp isLast
      have k0 := fun rem => Kids.lines_parse s 0 (if isLast then padding ++ "   " else padding ++ "│  ") false rem (d' + 1 + 1) (.inr ⟨d' + 1, rfl, rfl, hp'⟩) h0
      have k1 := fun rem => Kids.lines_parse dc 1 (if isLast then padding ++ "   " else padding ++ "│  ") false rem (d' + 1 + 1) (.inr ⟨d' + 1, rfl, rfl, hp'⟩) h1
      have k2 := fun rem => Kids.lines_parse dy 2 (if isLast then padding ++ "   " else padding ++ "│  ") false rem (d' + 1 + 1) (.inr ⟨d' + 1, rfl, rfl, hp'⟩) h2
      have k3 := fun rem => Kids.lines_parse wc 3 (if isLast then padding ++ "   " else padding ++ "│  ") false rem (d' + 1 + 1) (.inr ⟨d' + 1, rfl, rfl, hp'⟩) h3
      have k4 := fun rem => Kids.lines_parse w 4 (if isLast then padding ++ "   " else padding ++ "│  ") false rem (d' + 1 + 1) (.inr ⟨d' + 1, rfl, rfl, hp'⟩) h4
      have k5 := fun rem => Kids.lines_parse ec 5 (if isLast then padding ++ "   " else padding ++ "│  ") false rem (d' + 1 + 1) (.inr ⟨d' + 1, rfl, rfl, hp'⟩) h5
      have k6 := fun rem => Kids.lines_parse e 6 (if isLast then padding ++ "   " else padding ++ "│  ") false rem (d' + 1 + 1) (.inr ⟨d' + 1, rfl, rfl, hp'⟩) h6
      simp [Node.lines, Node.dents, hne, hne', k0, k1, k2, k3, k4, k5, k6]
      rw [mark_toList]
      cases isLast
      · exact parse_branch_line padding.toList key.toList '├' x.isSome d' hp (.inl rfl) hk
      · exact parse_branch_line padding.toList key.toList '╰' x.isSome d' hp (.inr rfl) hk
/-- children: either top-level lines (the parent is the root) or lines at depth `d = d0 + 1` under padding of `3 d0` -/
theorem Kids.lines_parse : ∀ (ks : Kids) (slot : Nat) (padding : String) (isRoot : Bool) (remaining d : Nat),
    ((isRoot = true ∧ padding = "" ∧ d = 0) ∨ (∃ d0, isRoot = false ∧ d = d0 + 1 ∧ PadOK padding.toList d0)) →
    Kids.drawable slot ks = true →
    (Kids.lines slot padding isRoot remaining ks).map (fun l => parseLineC l.toList) = (Kids.dents d slot ks).map some
  | .nil, _, _, _, _, _, _, _ => rfl
  | .cons l n r, slot, padding, isRoot, remaining, d, hc, hdr => by
    simp only [Kids.drawable, Bool.and_eq_true] at hdr
    obtain ⟨⟨hk, hn⟩, hr⟩ := hdr
    have ctx : Ctx (keyOf slot l) padding isRoot d := by
      rcases hc with ⟨rfl, rfl, rfl⟩ | ⟨d0, rfl, rfl, hp⟩
      · exact .top hk
      · exact .inner hk hp
    simp only [Kids.lines, Kids.dents, List.map_append, Node.lines_parse n _ _ _ _ d ctx hn,
      Kids.lines_parse r slot padding isRoot _ d hc hr]
end

/-- **Reading the drawing back.** The lines printed for the tree of a router, read one by one, give the nodes of the tree
in order: depth, label, mark. -/
theorem root_lines_parse (root : Node) (h : Node.drawable root = true) :
    (Node.lines "" "" true true root).map (fun l => parseLineC l.toList) = (Node.dents 0 [] root).map some := by
  have := Node.lines_parse root "" "" true true 0 .root h
  simpa using this
