import Wayfind.Proofs.RouterBasics
import Wayfind.Proofs.ParseWf
import Wayfind.Proofs.Reach
import Wayfind.Proofs.CloneInv

/-! Router-level reachability: every state produced by API calls has a well-shaped, sorted, flag-sound tree. -/

/-- the calls of the public API that can change a router -/
inductive Call where
  | constraint (name ty : Bytes)
  | insert (t : Bytes) (d : Nat)
  | delete (t : Bytes)
  /-- `Clone::clone`: the history continues on the copy (the original is a value and stays what it was) -/
  | clone

/-- the state after a call (a failing call leaves the state as the model's function says) -/
def Router.step (r : Router) : Call → Router
  | .constraint name ty => match r.constraint name ty with | .ok r' => r' | .error _ => r
  | .insert t d => match r.insert t d with | .ok r' => r' | .error _ => r
  | .delete t => (r.delete t).2
  | .clone => r.clone

/-- `Router::new()` with the built-in registrations `builtins`, followed by any sequence of calls -/
def Reachable (r : Router) : Prop :=
  ∃ (builtins : List (Bytes × Bytes)) (calls : List Call), r = calls.foldl Router.step { registry := builtins }

theorem insertShared_fst (t : Bytes) (d cell : Nat) : ∀ (ts : List (Bytes × List Part)) (root : Node) (drops : Nat),
    (insertShared t d cell ts root drops).1 =
      (ts.map (fun e => (e.2, sharedInfo t d cell e))).foldl (fun n x => Node.insert n x.1 x.2) root
  | [], root, drops => rfl
  | e :: rest, root, drops => by
    simp only [insertShared, List.map_cons, List.foldl_cons]
    exact insertShared_fst t d cell rest _ _

theorem deleteAll_fst : ∀ (ts : List (Bytes × List Part)) (root : Node) (rc : List (Nat × Nat)) (out : Option Nat),
    (deleteAll ts root rc out).1 = (ts.map (fun e => e.2)).foldl (fun n x => (Node.delete false n x).1) root
  | [], root, rc, out => rfl
  | (raw, parts) :: rest, root, rc, out => by
    simp only [deleteAll, List.map_cons, List.foldl_cons]
    cases hd : Node.delete false root parts with
    | mk root' res =>
      cases res with
      | none => simp only []; exact deleteAll_fst rest _ _ _
      | some i =>
        simp only []
        cases i.cell with
        | none => simp only []; exact deleteAll_fst rest _ _ _
        | some c => simp only []; exact deleteAll_fst rest _ _ _

/-- a successful insert acts on the root as one `ROp.insert` of well-formed part lists -/
theorem insertOk_root (r : Router) (t : Bytes) (d : Nat) (ts : List (Bytes × List Part))
    (hp : parseTemplates t = .ok ts) :
    ∃ op : ROp, op.wf ∧ (r.insertOk t d ts).root = applyROp r.root op := by
  have hwf := parse_wf hp
  unfold Router.insertOk
  split
  · rename_i raw parts
    refine ⟨.insert [(parts, inlineInfo t d raw)], ?_, rfl⟩
    intro x hx
    simp only [List.mem_singleton] at hx
    subst hx
    exact hwf (raw, parts) (by simp)
  · refine ⟨.insert (ts.map (fun e => (e.2, sharedInfo t d r.next e))), ?_, ?_⟩
    · intro x hx
      simp only [List.mem_map] at hx
      obtain ⟨e, he, rfl⟩ := hx
      exact hwf e he
    · simp only [applyROp]
      rw [insertShared_fst]

/-- a delete that got past validation acts on the root as one `ROp.delete` of well-formed part lists -/
theorem deleteOk_root (r : Router) (t : Bytes) (ts : List (Bytes × List Part))
    (hp : parseTemplates t = .ok ts) :
    ∃ op : ROp, op.wf ∧ (r.deleteOk t ts).2.root = applyROp r.root op := by
  have hwf := parse_wf hp
  unfold Router.deleteOk
  generalize hres : deleteAll ts r.root r.rc none = res
  have h1 : res.1 = (ts.map (fun e => e.2)).foldl (fun n x => (Node.delete false n x).1) r.root := by
    rw [← hres]; exact deleteAll_fst ts _ _ _
  obtain ⟨a, b, c⟩ := res
  have hw : ∀ x ∈ ts.map (fun e => e.2), wfParts x = true := by
    intro x hx
    simp only [List.mem_map] at hx
    obtain ⟨e, he, rfl⟩ := hx
    exact hwf e he
  cases c with
  | none =>
    refine ⟨.delete (ts.map (fun e => e.2)) false, ?_, ?_⟩
    · exact hw
    · simp only [applyROp]; simpa using h1
  | some dd =>
    refine ⟨.delete (ts.map (fun e => e.2)) true, ?_, ?_⟩
    · exact hw
    · simp only [applyROp]; simp at h1 ⊢; rw [h1]

/-- every call keeps the tree invariants -/
theorem step_good3 (r : Router) (c : Call) (h : Good3 r.root) : Good3 (r.step c).root := by
  cases c with
  | constraint name ty =>
    simp only [Router.step, Router.constraint]
    split <;> rename_i heq
    · split at heq
      · cases heq
      · injection heq with heq; subst heq; exact h
    · exact h
  | insert t d =>
    simp only [Router.step]
    cases hi : r.insert t d with
    | error e => exact h
    | ok r' =>
      simp only []
      obtain ⟨ts, hp, _, _, rfl⟩ := (Router.insert_ok_iff r r' t d).1 hi
      obtain ⟨op, hwf, hroot⟩ := insertOk_root r t d ts hp
      rw [hroot]; exact good3_step _ op h hwf
  | delete t =>
    simp only [Router.step, Router.delete]
    split
    · exact h
    · rename_i ts hp
      split
      · exact h
      · split
        · exact h
        · obtain ⟨op, hwf, hroot⟩ := deleteOk_root r t ts hp
          rw [hroot]; exact good3_step _ op h hwf
  | clone => exact recell_Good3 r.root 0 h

theorem reachable_good3 (r : Router) (h : Reachable r) : Good3 r.root := by
  obtain ⟨b, calls, rfl⟩ := h
  have key : ∀ (calls : List Call) (r : Router), Good3 r.root → Good3 (calls.foldl Router.step r).root := by
    intro calls
    induction calls with
    | nil => intro r h; exact h
    | cons c cs ih => intro r h; exact ih _ (step_good3 r c h)
  exact key calls _ good3_empty

/-- **T-walk at the API.** On every reachable router, `search` is the documented walk over the routes stored in
its tree; hence sound and complete for `Fits`, for every constraint environment. -/
theorem Router.search_eq_walk (env : Env) (r : Router) (h : Reachable r) (path : Bytes) :
    r.search env path =
      (refWalk env path.length (Node.routes r.root) path []).map toMatch := by
  obtain ⟨hS, hR, hF⟩ := reachable_good3 r h
  unfold Router.search
  rw [Node.search_eq_refWalk env _ (TSany_of_Shp_Srt _ hS hR) hF path [] path.length (Nat.le_refl _)]
