import Wayfind.Proofs.ExpandEq1

/-! Stage 1, part 2: inside a group (depth ≥ 1) the model's scan copies bytes until the matching parenthesis —
exactly the grammar's `groupBody`. -/

theorem scan_group (full : Bytes) (fuel start : Nat) (next : Option Byte) (top : Bool) :
    ∀ (n : Nat) (rest : Bytes) (cursor : Nat) (result : List Bytes) (group d : Nat) (acc : Bytes), rest.length ≤ n → 1 ≤ d →
      (groupBody d rest = none → ∃ e, expandScan full fuel start next top rest cursor ⟨result, group, d, acc⟩ = .error e) ∧
      (∀ G rest', groupBody d rest = some (G, rest') →
        expandScan full fuel start next top rest cursor ⟨result, group, d, acc⟩ =
          expandScan full fuel start next top (41 :: rest') (cursor + G.length) ⟨result, group, 1, acc ++ G⟩) := by
  intro n
  induction n with
  | zero =>
    intro rest cursor result group d acc hn hd
    have : rest = [] := List.eq_nil_of_length_eq_zero (by omega)
    subst this
    refine ⟨fun _ => ?_, fun G r h => by simp [groupBody] at h⟩
    rw [expandScan.eq_1]
    have : d ≠ 0 := by omega
    simp only [ne_eq, this, not_false_eq_true, ite_true]
    exact ⟨_, rfl⟩
  | succ n ih =>
    intro rest cursor result group d acc hn hd
    have hd0 : d ≠ 0 := by omega
    match rest, hn with
    | [], _ =>
      refine ⟨fun _ => ?_, fun G r h => by simp [groupBody] at h⟩
      rw [expandScan.eq_1]
      simp only [ne_eq, hd0, not_false_eq_true, ite_true]
      exact ⟨_, rfl⟩
    | [b], _ =>
      rw [expandScan.eq_3]
      have hend : ∀ (cur : Nat) (st : ExpSt), st.depth ≠ 0 → ∃ e, expandScan full fuel start next top [] cur st = .error e := by
        intro cur st hst
        rw [expandScan.eq_1]
        simp only [ne_eq, hst, not_false_eq_true, ite_true]
        exact ⟨_, rfl⟩
      by_cases h92 : b = 92
      · subst h92
        refine ⟨fun _ => ?_, fun G r h => by simp [groupBody] at h⟩
        by_cases hnx : next.isSome = true
        · simp only [hnx, or_true, and_self, ite_true]
          exact hend _ _ (by simpa using hd0)
        · simp only [hnx, or_false, ne_eq, not_true_eq_false, and_false, ite_false]
          simp only [show ¬ ((92 : Byte) = 40) by decide, show ¬ ((92 : Byte) = 41) by decide, ite_false]
          exact hend _ _ (by simpa using hd0)
      · have hc : ¬ (b = 92 ∧ (([] : Bytes) ≠ [] ∨ next.isSome = true)) := fun h => h92 h.1
        simp only [hc, ite_false]
        by_cases h40 : b = 40
        · subst h40
          refine ⟨fun _ => ?_, fun G r h => by simp [groupBody] at h⟩
          simp only [ite_true, hd0, ite_false]
          exact hend _ _ (by simp)
        · simp only [h40, ite_false]
          by_cases h41 : b = 41
          · subst h41
            simp only [ite_true, hd0, ite_false]
            by_cases hd1 : d = 1
            · subst hd1
              refine ⟨fun h => by simp [groupBody] at h, ?_⟩
              intro G r h
              simp only [groupBody, Nat.le_refl, ite_true, Option.some.injEq, Prod.mk.injEq] at h
              obtain ⟨rfl, rfl⟩ := h
              rw [expandScan.eq_3]
              simp [hc]
            · have hdn : ¬ d ≤ 1 := by omega
              simp only [hd1, ite_false]
              refine ⟨fun _ => hend _ _ (by simp; omega), ?_⟩
              intro G r h
              simp [groupBody, hdn] at h
          · simp only [h41, ite_false]
            refine ⟨fun _ => hend _ _ (by simpa using hd0), ?_⟩
            intro G r h
            rw [groupBody] at h
            · simp [groupBody] at h
            all_goals simp_all
    | b :: c :: rest', hn =>
      simp only [List.length_cons] at hn
      rw [expandScan.eq_2]
      by_cases h92 : b = 92
      · subst h92
        have hc : ((92 : Byte) = 92 ∧ (c :: rest' ≠ [] ∨ next.isSome = true)) := ⟨rfl, Or.inl (by simp)⟩
        simp only [hc, and_self, ite_true]
        obtain ⟨iha, ihb⟩ := ih rest' (cursor + 2) result group d (acc ++ [92, c]) (by omega) hd
        constructor
        · intro h
          simp only [groupBody, Option.map_eq_none_iff] at h
          exact iha h
        · intro G r h
          simp only [groupBody, Option.map_eq_some_iff] at h
          obtain ⟨⟨g', r'⟩, hg, he⟩ := h
          injection he with h1 h2; subst h1 h2
          rw [ihb g' r' hg]
          simp only [List.length_cons, List.append_assoc, List.cons_append, List.nil_append]
          congr 1; omega
      · have hc : ¬ (b = 92 ∧ (c :: rest' ≠ [] ∨ next.isSome = true)) := fun h => h92 h.1
        simp only [hc, ite_false]
        by_cases h40 : b = 40
        · subst h40
          simp only [ite_true, hd0, ite_false]
          obtain ⟨iha, ihb⟩ := ih (c :: rest') (cursor + 1) result group (d + 1) (acc ++ [40]) (by simp only [List.length_cons]; omega) (by omega)
          constructor
          · intro h
            simp only [groupBody, Option.map_eq_none_iff] at h
            exact iha h
          · intro G r h
            simp only [groupBody, Option.map_eq_some_iff] at h
            obtain ⟨⟨g', r'⟩, hg, he⟩ := h
            injection he with h1 h2; subst h1 h2
            rw [ihb g' r' hg]
            simp only [List.length_cons, List.append_assoc, List.cons_append, List.nil_append]
            congr 1; omega
        · simp only [h40, ite_false]
          by_cases h41 : b = 41
          · subst h41
            simp only [ite_true, hd0, ite_false]
            by_cases hd1 : d = 1
            · subst hd1
              refine ⟨fun h => by simp [groupBody] at h, ?_⟩
              intro G r h
              simp only [groupBody, Nat.le_refl, ite_true, Option.some.injEq, Prod.mk.injEq] at h
              obtain ⟨rfl, rfl⟩ := h
              rw [expandScan.eq_2]
              simp [hc]
            · have hdn : ¬ d ≤ 1 := by omega
              simp only [hd1, ite_false]
              obtain ⟨iha, ihb⟩ := ih (c :: rest') (cursor + 1) result group (d - 1) (acc ++ [41]) (by simp only [List.length_cons]; omega) (by omega)
              constructor
              · intro h
                simp only [groupBody, hdn, ite_false, Option.map_eq_none_iff] at h
                exact iha h
              · intro G r h
                simp only [groupBody, hdn, ite_false, Option.map_eq_some_iff] at h
                obtain ⟨⟨g', r'⟩, hg, he⟩ := h
                injection he with h1 h2; subst h1 h2
                rw [ihb g' r' hg]
                simp only [List.length_cons, List.append_assoc, List.cons_append, List.nil_append]
                congr 1; omega
          · simp only [h41, ite_false]
            obtain ⟨iha, ihb⟩ := ih (c :: rest') (cursor + 1) result group d (acc ++ [b]) (by simp only [List.length_cons]; omega) hd
            have hgb : groupBody d (b :: c :: rest') = (groupBody d (c :: rest')).map (fun (g, r) => (b :: g, r)) := by
              rw [groupBody]
              all_goals simp_all
            constructor
            · intro h
              rw [hgb] at h
              simp only [Option.map_eq_none_iff] at h
              exact iha h
            · intro G r h
              rw [hgb] at h
              simp only [Option.map_eq_some_iff] at h
              obtain ⟨⟨g', r'⟩, hg, he⟩ := h
              injection he with h1 h2; subst h1 h2
              rw [ihb g' r' hg]
              simp only [List.length_cons, List.append_assoc, List.cons_append, List.nil_append]
              congr 1; omega
