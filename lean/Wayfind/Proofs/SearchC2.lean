import Wayfind.Proofs.SearchC1

/-! The checked, position-based search equals the list-based model's `Node.search` and never panics, on every tree all
of whose constraint names are registered (`Node.consOK`). -/

mutual
/-- every constraint name stored in the tree is known -/
def Node.consOK (known : Bytes → Bool) : Node → Prop
  | .mk _ s dc d wc w ec e _ _ _ =>
    Kids.consOK known false s ∧ Kids.consOK known true dc ∧ Kids.consOK known false d ∧ Kids.consOK known true wc ∧
    Kids.consOK known false w ∧ Kids.consOK known true ec ∧ Kids.consOK known false e
def Kids.consOK (known : Bytes → Bool) (constrained : Bool) : Kids → Prop
  | .nil => True
  | .cons l n r => (constrained = true → known l.cons = true) ∧ Node.consOK known n ∧ Kids.consOK known constrained r
end

theorem orElseC_ok (a b : Res) : orElseC (.ok a) (fun _ => .ok b) = .ok (orElse' a b) := by
  cases a <;> rfl

def shapeOf (short wild : Bool) : Nat := if wild then (if short then 2 else 3) else (if short then 0 else 1)

theorem candsOf_dyn (ds : Bool) (path : Bytes) :
    candsOf (if ds then 0 else 1) path = if ds then candsSegment false path else candsInline false path := by
  cases ds <;> rfl

theorem candsOf_wild (ws : Bool) (path : Bytes) :
    candsOf (if ws then 2 else 3) path = if ws then candsSegment true path else candsInline true path := by
  cases ws <;> rfl

mutual
theorem Node.searchC_eq (ce : CEnv) : ∀ (n : Node), Node.consOK ce.known n → ∀ (path : Bytes) (ps : Params),
    Node.searchC ce n path ps = .ok (Node.search ce.env n path ps)
  | .mk x s dc d wc w ec e ds ws dirty, h, path, ps => by
    simp only [Node.consOK] at h
    obtain ⟨hs, hdc, hd, hwc, hw, hec, he⟩ := h
    simp only [Node.searchC, Node.search]
    by_cases hp : path.isEmpty = true
    · simp [hp]
    · simp only [hp, Bool.false_eq_true, ite_false]
      rw [Kids.searchStaticC_eq ce s hs path ps, Kids.searchParC_eq ce _ true dc hdc path ps,
        Kids.searchParC_eq ce _ false d hd path ps, Kids.searchParC_eq ce _ true wc hwc path ps,
        Kids.searchParC_eq ce _ false w hw path ps, Kids.searchEndCC_eq ce ec hec path ps, Kids.searchEndUC_eq ce e path ps]
      simp only [orElseC_ok, candsOf_dyn, candsOf_wild]
theorem Kids.searchStaticC_eq (ce : CEnv) : ∀ (ks : Kids), Kids.consOK ce.known false ks → ∀ (path : Bytes) (ps : Params),
    Kids.searchStaticC ce ks path ps = .ok (Kids.searchStatic ce.env ks path ps)
  | .nil, _, _, _ => rfl
  | .cons l n r, h, path, ps => by
    simp only [Kids.consOK] at h
    simp only [Kids.searchStaticC, Kids.searchStatic, zip_all_prefix]
    rw [Kids.searchStaticC_eq ce r h.2.2 path ps]
    by_cases hpre : l.pre.isPrefixOf path = true
    · have hle : l.pre.length ≤ path.length := by
        have := List.IsPrefix.length_le (List.isPrefixOf_iff_prefix.1 hpre)
        exact this
      simp only [hpre, ite_true, fromC, hle]
      rw [Node.searchC_eq ce n h.2.1]
      exact orElseC_ok _ _
    · have hpre' : l.pre.isPrefixOf path = false := Bool.eq_false_iff.2 hpre
      simp only [hpre', Bool.false_eq_true, ite_false]
      exact orElseC_ok _ _
theorem Kids.searchParC_eq (ce : CEnv) (shape : Nat) (constrained : Bool) : ∀ (ks : Kids), Kids.consOK ce.known constrained ks →
    ∀ (path : Bytes) (ps : Params),
    Kids.searchParC ce shape constrained ks path ps = .ok (Kids.searchPar ce.env constrained (candsOf shape path) ks path ps)
  | .nil, _, _, _ => rfl
  | .cons l n r, h, path, ps => by
    simp only [Kids.consOK] at h
    simp only [Kids.searchParC, Kids.searchPar]
    rw [Kids.searchParC_eq ce shape constrained r h.2.2 path ps,
      childC_eq ce shape _ l.name path ps (Node.searchC ce n) (Node.search ce.env n) (fun p q => Node.searchC_eq ce n h.2.1 p q)
        (by
          intro c hc
          cases constrained with
          | false => simp at hc
          | true => simp only [ite_true, Option.some.injEq] at hc; rw [← hc]; exact h.1 rfl)]
    exact orElseC_ok _ _
theorem Kids.searchEndCC_eq (ce : CEnv) : ∀ (ks : Kids), Kids.consOK ce.known true ks → ∀ (path : Bytes) (ps : Params),
    Kids.searchEndCC ce ks path ps = .ok (Kids.searchEndC ce.env ks path ps)
  | .nil, _, _, _ => rfl
  | .cons l n r, h, path, ps => by
    simp only [Kids.consOK] at h
    have hk : ce.known l.cons = true := h.1 trivial
    simp only [Kids.searchEndCC, Kids.searchEndC, checkC, hk, ite_true]
    by_cases hv : ce.env.valid path = true
    · by_cases hc : ce.env.chk l.cons path = true
      · simp [hv, hc]
      · have hc' : ce.env.chk l.cons path = false := by simpa using hc
        simp only [hv, hc', Bool.and_false, Bool.false_eq_true, ite_false]
        exact Kids.searchEndCC_eq ce r h.2.2 path ps
    · have hv' : ce.env.valid path = false := by simpa using hv
      simp only [hv', Bool.false_and, Bool.false_eq_true, ite_false]
      exact Kids.searchEndCC_eq ce r h.2.2 path ps
theorem Kids.searchEndUC_eq (ce : CEnv) : ∀ (ks : Kids) (path : Bytes) (ps : Params),
    Kids.searchEndUC ce ks path ps = .ok (Kids.searchEnd ce.env ks path ps)
  | .nil, _, _ => rfl
  | .cons l n r, path, ps => by
    simp only [Kids.searchEndUC, Kids.searchEnd]
    by_cases hv : ce.env.valid path = true
    · simp [hv]
    · have hv' : ce.env.valid path = false := by simpa using hv
      simp [hv']
end

/-- **the search never panics**: no index, slice, subtraction or registry lookup of `src/node/search.rs` is out of
range, on any tree whose constraint names are registered, for any path and any fuel-free run of its loops -/
theorem Node.searchC_never_panics (ce : CEnv) (n : Node) (h : Node.consOK ce.known n) (path : Bytes) (ps : Params) (site : String) :
    Node.searchC ce n path ps ≠ .error site := by
  rw [Node.searchC_eq ce n h]
  intro hh; cases hh
