import Wayfind.Proofs.MapInfo
import Wayfind.Proofs.Canon3
import Wayfind.Proofs.WalkMapInfo

/-! The tree invariants do not look at the stored values beyond "is there one": they are invariant under any
relabelling `Node.mapInfo f`. Since `Clone` (every shared value gets an `Arc` of its own, `Node.recell`) agrees with
the original after `mapInfo eraseCell`, a clone of a well-shaped / sorted / flag-sound / canonical tree is one. -/

theorem Kids.labels_mapInfo (f : Info → Info) : ∀ (ks : Kids), (Kids.mapInfo f ks).labels = ks.labels
  | .nil => rfl
  | .cons l n r => by simp [Kids.mapInfo, Kids.labels, Kids.labels_mapInfo f r]

theorem Kids.heads_mapInfo (f : Info → Info) : ∀ (ks : Kids), (Kids.mapInfo f ks).heads = ks.heads
  | .nil => rfl
  | .cons l n r => by simp [Kids.mapInfo, Kids.heads, Kids.heads_mapInfo f r]

theorem Kids.noHead_mapInfo (f : Info → Info) (b : Option Byte) : ∀ (ks : Kids), Kids.noHead b (Kids.mapInfo f ks) ↔ Kids.noHead b ks
  | .nil => Iff.rfl
  | .cons l n r => by simp [Kids.mapInfo, Kids.noHead, Kids.noHead_mapInfo f b r]

theorem Kids.distinctHeads_mapInfo (f : Info → Info) : ∀ (ks : Kids), Kids.distinctHeads (Kids.mapInfo f ks) ↔ Kids.distinctHeads ks
  | .nil => Iff.rfl
  | .cons l n r => by simp [Kids.mapInfo, Kids.distinctHeads, Kids.noHead_mapInfo, Kids.distinctHeads_mapInfo f r]

theorem Kids.allSlash_mapInfo (f : Info → Info) : ∀ (ks : Kids), Kids.allSlash (Kids.mapInfo f ks) ↔ Kids.allSlash ks
  | .nil => Iff.rfl
  | .cons l n r => by simp [Kids.mapInfo, Kids.allSlash, Kids.allSlash_mapInfo f r]

theorem Kids.All_mapInfo (f : Info → Info) (P : Label → Node → Prop) (hP : ∀ l n, P l (Node.mapInfo f n) ↔ P l n) :
    ∀ (ks : Kids), Kids.All P (Kids.mapInfo f ks) ↔ Kids.All P ks
  | .nil => Iff.rfl
  | .cons l n r => by simp [Kids.mapInfo, Kids.All, hP, Kids.All_mapInfo f P hP r]

theorem Kids.mapInfo_eq_nil (f : Info → Info) : ∀ (ks : Kids), Kids.mapInfo f ks = .nil ↔ ks = .nil
  | .nil => by simp [Kids.mapInfo]
  | .cons l n r => by simp [Kids.mapInfo]

theorem Kids.isNil_mapInfo (f : Info → Info) : ∀ (ks : Kids), (Kids.mapInfo f ks).isNil = ks.isNil
  | .nil => rfl
  | .cons _ _ _ => rfl

theorem data_none_mapInfo (f : Info → Info) (n : Node) : (Node.mapInfo f n).data = none ↔ n.data = none := by
  rw [data_mapInfo]; cases n.data <;> simp

theorem onlyStatic_mapInfo (f : Info → Info) : ∀ (n : Node), (Node.mapInfo f n).onlyStatic ↔ n.onlyStatic
  | .mk x s dc d wc w ec e ds ws dirty => by simp [Node.mapInfo, Node.onlyStatic, Kids.mapInfo_eq_nil]

theorem statics_mapInfo (f : Info → Info) : ∀ (n : Node), (Node.mapInfo f n).statics = Kids.mapInfo f n.statics
  | .mk x s dc d wc w ec e ds ws dirty => rfl

theorem childOK_mapInfo (f : Info → Info) (n : Node) : childOK (Node.mapInfo f n) ↔ childOK n := by
  simp [childOK, onlyStatic_mapInfo, statics_mapInfo, Kids.allSlash_mapInfo]

theorem isLeaf_mapInfo (f : Info → Info) : ∀ (n : Node), (∃ i, isLeaf (Node.mapInfo f n) i) ↔ ∃ i, isLeaf n i
  | .mk x s dc d wc w ec e ds ws dirty => by
    constructor
    · rintro ⟨i, ds', ws', dirty', h⟩
      simp only [Node.mapInfo, Node.mk.injEq] at h
      obtain ⟨hx, hs, hdc, hd, hwc, hw, hec, he, _, _, _⟩ := h
      cases x with
      | none => cases hx
      | some j =>
        refine ⟨j, ds, ws, dirty, ?_⟩
        rw [(Kids.mapInfo_eq_nil f s).1 hs, (Kids.mapInfo_eq_nil f dc).1 hdc, (Kids.mapInfo_eq_nil f d).1 hd,
          (Kids.mapInfo_eq_nil f wc).1 hwc, (Kids.mapInfo_eq_nil f w).1 hw, (Kids.mapInfo_eq_nil f ec).1 hec,
          (Kids.mapInfo_eq_nil f e).1 he]
    · rintro ⟨i, ds', ws', dirty', h⟩
      injection h with hx hs hdc hd hwc hw hec he h1 h2 h3
      subst hx hs hdc hd hwc hw hec he
      exact ⟨f i, ds, ws, dirty, by simp [Node.mapInfo, Kids.mapInfo]⟩

theorem Kids.leaves_mapInfo (f : Info → Info) : ∀ (ks : Kids), Kids.leaves (Kids.mapInfo f ks) ↔ Kids.leaves ks
  | .nil => Iff.rfl
  | .cons l n r => by simp only [Kids.mapInfo, Kids.leaves, isLeaf_mapInfo, Kids.leaves_mapInfo f r]

mutual
theorem Node.routes_mapInfo (f : Info → Info) : ∀ (n : Node), Node.routes (Node.mapInfo f n) = (Node.routes n).map (Route.mapI f)
  | .mk x s dc d wc w ec e ds ws dirty => by
    simp only [Node.mapInfo, Node.routes, List.map_append]
    rw [Kids.routes_mapInfo f _ s, Kids.routes_mapInfo f _ dc, Kids.routes_mapInfo f _ d, Kids.routes_mapInfo f _ wc,
      Kids.routes_mapInfo f _ w, Kids.routes_mapInfo f _ ec, Kids.routes_mapInfo f _ e]
    cases x <;> simp [Route.mapI]
theorem Kids.routes_mapInfo (f : Info → Info) (mk : Label → Part) : ∀ (ks : Kids),
    Kids.routes mk (Kids.mapInfo f ks) = (Kids.routes mk ks).map (Route.mapI f)
  | .nil => rfl
  | .cons l n r => by
    simp only [Kids.mapInfo, Kids.routes, List.map_append, List.map_map]
    rw [Node.routes_mapInfo f n, Kids.routes_mapInfo f mk r, List.map_map]
    rfl
end

theorem routes_ne_nil_mapInfo (f : Info → Info) (n : Node) : Node.routes (Node.mapInfo f n) ≠ [] ↔ Node.routes n ≠ [] := by
  rw [Node.routes_mapInfo]; simp

mutual
theorem Node.Shp_mapInfo (f : Info → Info) : ∀ (n : Node), Node.Shp (Node.mapInfo f n) ↔ Node.Shp n
  | .mk x s dc d wc w ec e ds ws dirty => by
    simp only [Node.mapInfo, Node.Shp, Kids.labels_mapInfo, Kids.distinctHeads_mapInfo, Kids.leaves_mapInfo]
    rw [Kids.All_mapInfo f _ (fun _ _ => Iff.rfl) s, Kids.All_mapInfo f _ (fun _ n => data_none_mapInfo f n) wc,
      Kids.All_mapInfo f _ (fun _ n => data_none_mapInfo f n) w,
      Kids.All_mapInfo f _ (fun _ n => onlyStatic_mapInfo f n) dc, Kids.All_mapInfo f _ (fun _ n => onlyStatic_mapInfo f n) d,
      Kids.All_mapInfo f _ (fun _ n => onlyStatic_mapInfo f n) wc, Kids.All_mapInfo f _ (fun _ n => onlyStatic_mapInfo f n) w,
      Kids.Shpk_mapInfo f s, Kids.Shpk_mapInfo f dc, Kids.Shpk_mapInfo f d, Kids.Shpk_mapInfo f wc, Kids.Shpk_mapInfo f w]
theorem Kids.Shpk_mapInfo (f : Info → Info) : ∀ (ks : Kids), Kids.Shpk (Kids.mapInfo f ks) ↔ Kids.Shpk ks
  | .nil => Iff.rfl
  | .cons l n r => by
    simp only [Kids.mapInfo, Kids.Shpk]
    rw [Node.Shp_mapInfo f n, routes_ne_nil_mapInfo, Kids.Shpk_mapInfo f r]
end

mutual
theorem Node.Srt_mapInfo (f : Info → Info) : ∀ (n : Node), Node.Srt (Node.mapInfo f n) ↔ Node.Srt n
  | .mk x s dc d wc w ec e ds ws dirty => by
    simp only [Node.mapInfo, Node.Srt, Kids.labels_mapInfo]
    rw [Kids.Srtk_mapInfo f s, Kids.Srtk_mapInfo f dc, Kids.Srtk_mapInfo f d, Kids.Srtk_mapInfo f wc, Kids.Srtk_mapInfo f w]
theorem Kids.Srtk_mapInfo (f : Info → Info) : ∀ (ks : Kids), Kids.Srtk (Kids.mapInfo f ks) ↔ Kids.Srtk ks
  | .nil => Iff.rfl
  | .cons l n r => by
    simp only [Kids.mapInfo, Kids.Srtk]
    rw [Node.Srt_mapInfo f n, Kids.Srtk_mapInfo f r]
end

mutual
theorem Node.FS_mapInfo (f : Info → Info) : ∀ (n : Node), Node.FS (Node.mapInfo f n) ↔ Node.FS n
  | .mk x s dc d wc w ec e ds ws dirty => by
    simp only [Node.mapInfo, Node.FS]
    rw [Kids.All_mapInfo f _ (fun _ n => childOK_mapInfo f n) dc, Kids.All_mapInfo f _ (fun _ n => childOK_mapInfo f n) d,
      Kids.All_mapInfo f _ (fun _ n => childOK_mapInfo f n) wc, Kids.All_mapInfo f _ (fun _ n => childOK_mapInfo f n) w,
      Kids.FSk_mapInfo f s, Kids.FSk_mapInfo f dc, Kids.FSk_mapInfo f d, Kids.FSk_mapInfo f wc, Kids.FSk_mapInfo f w]
theorem Kids.FSk_mapInfo (f : Info → Info) : ∀ (ks : Kids), Kids.FSk (Kids.mapInfo f ks) ↔ Kids.FSk ks
  | .nil => Iff.rfl
  | .cons l n r => by
    simp only [Kids.mapInfo, Kids.FSk]
    rw [Node.FS_mapInfo f n, Kids.FSk_mapInfo f r]
end

mutual
theorem Node.SrtS_mapInfo (f : Info → Info) : ∀ (n : Node), Node.SrtS (Node.mapInfo f n) ↔ Node.SrtS n
  | .mk x s dc d wc w ec e ds ws dirty => by
    simp only [Node.mapInfo, Node.SrtS, SH, Kids.heads_mapInfo]
    rw [Kids.SrtSk_mapInfo f s, Kids.SrtSk_mapInfo f dc, Kids.SrtSk_mapInfo f d, Kids.SrtSk_mapInfo f wc, Kids.SrtSk_mapInfo f w]
theorem Kids.SrtSk_mapInfo (f : Info → Info) : ∀ (ks : Kids), Kids.SrtSk (Kids.mapInfo f ks) ↔ Kids.SrtSk ks
  | .nil => Iff.rfl
  | .cons l n r => by
    simp only [Kids.mapInfo, Kids.SrtSk]
    rw [Node.SrtS_mapInfo f n, Kids.SrtSk_mapInfo f r]
end

theorem Kids.single_mapInfo_none (f : Info → Info) : ∀ (ks : Kids), (Kids.mapInfo f ks).single = none ↔ ks.single = none
  | .nil => by simp [Kids.mapInfo, Kids.single]
  | .cons l n .nil => by simp [Kids.mapInfo, Kids.single]
  | .cons l n (.cons l' n' r) => by simp [Kids.mapInfo, Kids.single]

theorem compress_mapInfo_none (f : Info → Info) : ∀ (n : Node), (Node.mapInfo f n).compress? = none ↔ n.compress? = none
  | .mk x s dc d wc w ec e ds ws dirty => by
    simp only [Node.mapInfo, Node.compress?, Kids.isNil_mapInfo, Option.isNone_map]
    split
    · exact Kids.single_mapInfo_none f s
    · exact Iff.rfl

mutual
theorem Node.Cmp_mapInfo (f : Info → Info) : ∀ (n : Node), Node.Cmp (Node.mapInfo f n) ↔ Node.Cmp n
  | .mk x s dc d wc w ec e ds ws dirty => by
    simp only [Node.mapInfo, Node.Cmp]
    rw [Kids.All_mapInfo f _ (fun _ n => compress_mapInfo_none f n) s,
      Kids.Cmpk_mapInfo f s, Kids.Cmpk_mapInfo f dc, Kids.Cmpk_mapInfo f d, Kids.Cmpk_mapInfo f wc, Kids.Cmpk_mapInfo f w]
theorem Kids.Cmpk_mapInfo (f : Info → Info) : ∀ (ks : Kids), Kids.Cmpk (Kids.mapInfo f ks) ↔ Kids.Cmpk ks
  | .nil => Iff.rfl
  | .cons l n r => by
    simp only [Kids.mapInfo, Kids.Cmpk]
    rw [Node.Cmp_mapInfo f n, Kids.Cmpk_mapInfo f r]
end

/-- transfer along `Node.recell`: a predicate that is invariant under relabelling holds of the re-celled tree iff it
holds of the original -/
theorem recell_transfer (P : Node → Prop) (hP : ∀ f n, P (Node.mapInfo f n) ↔ P n) (n : Node) (nx : Nat) :
    P (Node.recell n nx).1 ↔ P n := by
  rw [← hP eraseCell (Node.recell n nx).1, Node.recell_erase, hP]

theorem recell_Shp (n : Node) (nx : Nat) : Node.Shp (Node.recell n nx).1 ↔ Node.Shp n :=
  recell_transfer Node.Shp Node.Shp_mapInfo n nx
theorem recell_Srt (n : Node) (nx : Nat) : Node.Srt (Node.recell n nx).1 ↔ Node.Srt n :=
  recell_transfer Node.Srt Node.Srt_mapInfo n nx
theorem recell_FS (n : Node) (nx : Nat) : Node.FS (Node.recell n nx).1 ↔ Node.FS n :=
  recell_transfer Node.FS Node.FS_mapInfo n nx
theorem recell_SrtS (n : Node) (nx : Nat) : Node.SrtS (Node.recell n nx).1 ↔ Node.SrtS n :=
  recell_transfer Node.SrtS Node.SrtS_mapInfo n nx
theorem recell_Cmp (n : Node) (nx : Nat) : Node.Cmp (Node.recell n nx).1 ↔ Node.Cmp n :=
  recell_transfer Node.Cmp Node.Cmp_mapInfo n nx

theorem recell_Good3 (n : Node) (nx : Nat) (h : Good3 n) : Good3 (Node.recell n nx).1 :=
  ⟨(recell_Shp n nx).2 h.1, (recell_Srt n nx).2 h.2.1, (recell_FS n nx).2 h.2.2⟩
