import Wayfind.Model.Parser

/-! The expansion model never runs out of fuel, and every parsed template has at least one expansion.

`expandRange` carries a fuel argument (recursion depth = group nesting). `expandRange … 0 … = .ok []` is the
"fuel exhausted" default; this file shows it is unreachable from `parseTemplates` (fuel = |input| + 1 and every nested
range is strictly shorter than its enclosing range), so the default never influences a result. -/

theorem productStep_ne (result inner : List Bytes) (h : result ≠ []) : productStep result inner ≠ [] := by
  cases result with
  | nil => exact absurd rfl h
  | cons t ts =>
    simp only [productStep, List.flatMap_cons]
    intro hn
    have := (List.append_eq_nil_iff.1 hn).1
    simp at this

/-- the statement for `expandRange` at a given fuel -/
def RangeNE (full : Bytes) (fuel : Nat) : Prop :=
  ∀ (range : Bytes) (start : Nat) (next : Option Byte) (top : Bool) (res : List Bytes),
    range.length < fuel → expandRange full fuel range start next top = .ok res → res ≠ []

theorem scan_ne (full : Bytes) (fuel : Nat) (hR : RangeNE full fuel) (start : Nat) (next : Option Byte) (top : Bool) :
    ∀ (n : Nat) (rest : Bytes) (cursor : Nat) (st : ExpSt) (res : List Bytes), rest.length ≤ n →
      st.result ≠ [] → st.acc.length + rest.length ≤ fuel →
      expandScan full fuel start next top rest cursor st = .ok res → res ≠ [] := by
  intro n
  induction n with
  | zero =>
    intro rest cursor st res hn hres _ h
    have : rest = [] := List.eq_nil_of_length_eq_zero (by omega)
    subst this
    rw [expandScan.eq_1] at h
    split at h
    · cases h
    · injection h with h
      subst h
      split <;> simp [hres]
  | succ n ih =>
    intro rest cursor st res hn hres hlen h
    match rest, hn, hlen, h with
    | [], _, _, h =>
      rw [expandScan.eq_1] at h
      split at h
      · cases h
      · injection h with h
        subst h
        split <;> simp [hres]
    | [b], hn, hlen, h =>
      rw [expandScan.eq_3] at h
      simp only [List.length_cons, List.length_nil] at hn hlen
      generalize hE : expandRange full fuel st.acc st.group (some 41) false = E at h
      have hacc : st.acc.length < fuel := by omega
      cases E with
      | error e =>
        try simp only [] at h
        repeat' split at h
        all_goals first
          | (cases h; done)
          | (exact ih [] _ _ res (by simp) (by first | exact hres | simp [hres])
              (by first | omega | (simp only [List.length_append, List.length_cons, List.length_nil]; omega)) h)
      | ok inner =>
        have hi : inner ≠ [] := hR st.acc st.group (some 41) false inner hacc hE
        try simp only [] at h
        repeat' split at h
        all_goals first
          | (cases h; done)
          | (exact ih [] _ _ res (by simp) (by first | exact hres | exact productStep_ne _ _ hres | simp [hres])
              (by first | omega | (simp only [List.length_append, List.length_cons, List.length_nil]; omega)) h)
    | b :: b2 :: rest', hn, hlen, h =>
      rw [expandScan.eq_2] at h
      simp only [List.length_cons] at hn hlen
      generalize hE : expandRange full fuel st.acc st.group (some 41) false = E at h
      have hacc : st.acc.length < fuel := by omega
      cases E with
      | error e =>
        try simp only [] at h
        repeat' split at h
        all_goals first
          | (cases h; done)
          | (exact ih _ _ _ res (by first | omega | (simp only [List.length_cons]; omega)) (by first | exact hres | simp [hres])
              (by first | omega | (simp only [List.length_append, List.length_cons, List.length_nil]; omega)) h)
      | ok inner =>
        have hi : inner ≠ [] := hR st.acc st.group (some 41) false inner hacc hE
        try simp only [] at h
        repeat' split at h
        all_goals first
          | (cases h; done)
          | (exact ih _ _ _ res (by first | omega | (simp only [List.length_cons]; omega))
              (by first | exact hres | exact productStep_ne _ _ hres | simp [hres])
              (by first | omega | (simp only [List.length_append, List.length_cons, List.length_nil]; omega)) h)

theorem rangeNE_all (full : Bytes) : ∀ (fuel : Nat), RangeNE full fuel
  | 0 => by intro range _ _ _ _ h; omega
  | fuel + 1 => by
    intro range start next top res hlen h
    rw [expandRange.eq_2] at h
    exact scan_ne full fuel (rangeNE_all full fuel) start next top range.length range start _ res (Nat.le_refl _)
      (by simp) (by simp; omega) h

theorem mapExcept_length {α β ε} {f : α → Except ε β} : ∀ {as : List α} {bs : List β}, mapExcept f as = .ok bs → bs.length = as.length
  | [], bs, h => by simp only [mapExcept] at h; injection h with h; subst h; rfl
  | a :: as, bs, h => by
    simp only [mapExcept] at h
    split at h
    · cases h
    · split at h
      · cases h
      · rename_i bs' hbs
        injection h with h; subst h
        simp [mapExcept_length hbs]

/-- **every accepted template has at least one expansion** (and the fuel of the expansion model is sufficient) -/
theorem parse_nonempty {input : Bytes} {ts : List (Bytes × List Part)} (h : parseTemplates input = .ok ts) : ts ≠ [] := by
  unfold parseTemplates at h
  split at h
  · cases h
  · split at h
    · cases h
    · rename_i raws hraws
      have hne : raws ≠ [] := rangeNE_all input (input.length + 1) input 0 none true raws (by omega) hraws
      have := mapExcept_length h
      intro hts
      rw [hts] at this
      exact hne (List.eq_nil_of_length_eq_zero this.symm)
