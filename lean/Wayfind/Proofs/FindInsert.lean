import Wayfind.Proofs.Shallow

/-- in the split case, `insertStatic` = split the edge, then insert into the fresh parent -/
theorem insertStatic_split_eq (l : Label) (n : Node) (r : Kids) (p : Bytes) (rest : List Part) (i : Info)
    (hh : l.pre.head? = p.head?) (hc : ¬ l.pre.length ≤ commonLen p l.pre)
    (hP : altOK (.stat p :: rest) = true) :
    Kids.insertStatic (.cons l n r) p rest i =
      .cons {pre := l.pre.take (commonLen p l.pre)}
        (Node.insert (splitParent {pre := l.pre.drop (commonLen p l.pre)} n) (below p (commonLen p l.pre) rest) i) r := by
  have hp := altOK_stat_ne hP
  simp only [Kids.insertStatic, hh, ite_true, hc, ite_false, below]
  by_cases hpl : p.length ≤ commonLen p l.pre
  · simp only [hpl, ite_true]
    cases rest with
    | nil => simp [splitParent, Node.insert]
    | cons x rest' =>
      cases x with
      | stat s => exact absurd hP (by simp [altOK])
      | par k l' =>
        simp only [splitParent, Node.insert, insertPar_nil, insertEnd_nil]
        cases k <;> cases hr : rest'.isEmpty <;> simp only [slotOf] <;>
          first
          | rfl
          | (have : rest' = [] := by simpa using hr
             subst this; simp [chain])
  · have hne := commonLen_next_ne p l.pre (by omega) (by omega)
    have : ¬ (List.drop (commonLen p l.pre) l.pre).head? = (List.drop (commonLen p l.pre) p).head? :=
      fun h => hne h.symm
    simp only [hpl, ite_false, splitParent, Node.insert]
    simp only [Kids.insertStatic, this, ite_false]

theorem Kids.findPar_insertEnd : ∀ (ks : Kids) (l l' : Label) (i : Info), Kids.allData ks →
    Kids.findPar ks l [] = none →
    Kids.findPar (Kids.insertEnd ks l i) l' [] = if l' = l then some i else Kids.findPar ks l' []
  | .nil, l, l', i, _, _ => by
    simp only [Kids.insertEnd, Kids.findPar, findPar_nil]
    by_cases h : l = l'
    · subst h; simp [Node.leaf, Node.find]
    · have : ¬ l' = l := fun h' => h h'.symm
      simp [h, this]
  | .cons l0 n r, l, l', i, hA, hnew => by
    simp only [Kids.allData] at hA
    by_cases h0 : l0 = l
    · subst h0
      exfalso
      simp only [Kids.findPar, ite_true] at hnew
      cases n with
      | mk x _ _ _ _ _ _ _ _ _ _ => simp [Node.find] at hnew; simp [Node.data, hnew] at hA
    · have hnew' : Kids.findPar r l [] = none := by simpa [Kids.findPar, h0] using hnew
      have ih := Kids.findPar_insertEnd r l l' i hA.2 hnew'
      simp only [Kids.insertEnd, h0, ite_false, Kids.findPar]
      by_cases h1 : l0 = l'
      · have : ¬ l' = l := by rintro rfl; exact h0 h1
        simp [h1, this]
      · simp only [h1, ite_false]; exact ih

mutual
theorem Node.find_insert : ∀ (n : Node) (P Q : List Part) (i : Info), Node.SOK n → altOK P = true → altOK Q = true →
    Node.find n P = none →
    Node.find (Node.insert n P i) Q = if Q = P then some i else Node.find n Q
  | .mk x s dc d wc w ec e ds ws dirty, [], Q, i, _, _, _, _ => by
    cases Q with
    | nil => simp [Node.insert, Node.find]
    | cons q Q => cases q <;> simp [Node.insert, Node.find]
  | .mk x s dc d wc w ec e ds ws dirty, .stat p :: rest, Q, i, hS, hP, hQ, hnew => by
    simp only [Node.SOK] at hS
    cases Q with
    | nil => simp [Node.insert, Node.find]
    | cons q Q =>
      cases q with
      | par k l => simp [Node.insert, Node.find]
      | stat q =>
        simp only [Node.insert, Node.find] at hnew ⊢
        rw [Kids.findStatic_insertStatic s p rest q Q i hS.1 hP hQ hnew]
        simp
  | .mk x s dc d wc w ec e ds ws dirty, .par k l :: rest, Q, i, hS, hP, hQ, hnew => by
    simp only [Node.SOK] at hS
    have hP' := altOK_tail hP
    cases Q with
    | nil => simp only [Node.insert]; split <;> simp [Node.find]
    | cons q Q =>
      cases q with
      | stat q => simp only [Node.insert]; split <;> simp [Node.find]
      | par k' l' =>
        have hQ' := altOK_tail hQ
        have hinj : (Part.par k' l' :: Q = Part.par k l :: rest) ↔ (k' = k ∧ l' = l ∧ Q = rest) := by
          constructor
          · intro h; injection h with h1 h2; injection h1 with h3 h4; exact ⟨h3, h4, h2⟩
          · rintro ⟨rfl, rfl, rfl⟩; rfl
        simp only [Node.find] at hnew
        simp only [Node.insert]
        -- split on the slot of the inserted part, then on the slot of the query
        split <;> rename_i hs <;> simp only [hs] at hnew <;> simp only [Node.find] <;> split <;> rename_i hs' <;>
          first
          -- same slot, ordinary parameter vector
          | (rw [Kids.findPar_insertPar _ l rest l' Q i (by first | exact hS.2.1 | exact hS.2.2.1 | exact hS.2.2.2.1 | exact hS.2.2.2.2.1) hP' hQ' hnew]
             by_cases hc : l' = l ∧ Q = rest
             · obtain ⟨rfl, rfl⟩ := hc
               have := slotOf_inj (hs'.trans hs.symm); subst this; simp
             · have : ¬ (k' = k ∧ l' = l ∧ Q = rest) := fun h => hc ⟨h.2.1, h.2.2⟩
               simp [hc, hinj, this])
          -- same slot, catch-all vector
          | (have hrest : rest = [] := by cases k <;> cases hr : rest.isEmpty <;> simp [slotOf, hr] at hs <;> simpa using hr
             have hQe : Q = [] := by cases k' <;> cases hr : Q.isEmpty <;> simp [slotOf, hr] at hs' <;> simpa using hr
             subst hrest hQe
             rw [Kids.findPar_insertEnd _ l l' i (by first | exact hS.2.2.2.2.2.1 | exact hS.2.2.2.2.2.2) hnew]
             by_cases hc : l' = l
             · subst hc
               have := slotOf_inj (hs'.trans hs.symm); subst this; simp
             · have : ¬ (k' = k ∧ l' = l ∧ ([] : List Part) = []) := fun h => hc h.2.1
               simp [hc, hinj, this])
          -- different slots: untouched vector, and the query differs from the inserted route
          | (have : ¬ (k' = k ∧ l' = l ∧ Q = rest) := by
               rintro ⟨rfl, rfl, rfl⟩; rw [hs] at hs'; cases hs'
             simp [hinj, this])
theorem Kids.findStatic_insertStatic : ∀ (ks : Kids) (p : Bytes) (rest : List Part) (q : Bytes) (qrest : List Part) (i : Info),
    Kids.SOKs ks → altOK (.stat p :: rest) = true → altOK (.stat q :: qrest) = true →
    Kids.findStatic ks p rest = none →
    Kids.findStatic (Kids.insertStatic ks p rest i) q qrest =
      if q = p ∧ qrest = rest then some i else Kids.findStatic ks q qrest
  | .nil, p, rest, q, qrest, i, _, hP, hQ, _ => by
    have hfc := find_chain (.stat p :: rest) (.stat q :: qrest) i hP
    simp only [chain, Node.find] at hfc
    simp only [Kids.insertStatic, findStatic_nil]
    rw [hfc]; simp
  | .cons l n r, p, rest, q, qrest, i, hS, hP, hQ, hnew => by
    simp only [Kids.SOKs] at hS
    obtain ⟨hl, hno, hSn, hSr⟩ := hS
    have hp := altOK_stat_ne hP
    by_cases hh : l.pre.head? = p.head?
    · by_cases hc : l.pre.length ≤ commonLen p l.pre
      · -- descend
        obtain ⟨t, ht⟩ := (commonLen_ge_iff p l.pre).1 hc
        have hcl : commonLen p l.pre = l.pre.length := by rw [ht, commonLen_append_left]
        have hins : Kids.insertStatic (.cons l n r) p rest i = .cons l (Node.insert n (below p l.pre.length rest) i) r := by
          simp only [Kids.insertStatic, hh, ite_true, hcl, Nat.le_refl, below]
          by_cases hpl : p.length ≤ l.pre.length <;> simp only [hpl, ite_true, ite_false]
        have hnew' : Node.find n (below p l.pre.length rest) = none := by
          rw [findStatic_cons_spec l n r p rest hl hno] at hnew
          have : l.pre.isPrefixOf p = true := by rw [List.isPrefixOf_iff_prefix]; exact ⟨t, ht.symm⟩
          simpa [this] using hnew
        rw [hins]
        exact findStatic_descend l n _ r p rest i hl t ht hP
          (fun Q' hQ' => Node.find_insert n (below p l.pre.length rest) Q' i hSn (altOK_below hP) hQ' hnew') q qrest hQ
      · -- split
        have hc' : commonLen p l.pre < l.pre.length := by omega
        have hc0 : 0 < commonLen p l.pre := commonLen_pos p l.pre hp hh
        rw [insertStatic_split_eq l n r p rest i hh hc hP]
        have hdrop : l.pre.drop (commonLen p l.pre) ≠ [] := by
          intro h; have h' := congrArg List.length h
          simp only [List.length_drop, List.length_nil] at h'; omega
        have htake : l.pre.take (commonLen p l.pre) ≠ [] := by
          intro h; have h' := congrArg List.length h
          simp only [List.length_take, List.length_nil] at h'; omega
        have hpeq : p = l.pre.take (commonLen p l.pre) ++ p.drop (commonLen p l.pre) := by
          rw [← commonLen_take p l.pre, List.take_append_drop]
        have hlen : (l.pre.take (commonLen p l.pre)).length = commonLen p l.pre := by
          simp only [List.length_take]; omega
        have hnsh : notStatHead (l.pre.drop (commonLen p l.pre)).head? (below p (commonLen p l.pre) rest) := by
          unfold below
          split
          · cases rest with
            | nil => trivial
            | cons x _ => cases x with
              | stat _ => exact absurd hP (by simp [altOK])
              | par _ _ => trivial
          · simp only [notStatHead]
            exact commonLen_next_ne p l.pre (by omega) hc'
        have H := find_insert_splitParent {pre := l.pre.drop (commonLen p l.pre)} n
          (below p (commonLen p l.pre) rest) i hdrop (altOK_below hP) hnsh
        have := findStatic_descend {pre := l.pre.take (commonLen p l.pre)}
          (splitParent {pre := l.pre.drop (commonLen p l.pre)} n) _ r p rest i htake _ hpeq hP
          (by intro Q' hQ'; rw [hlen]; exact H Q' hQ') q qrest hQ
        rw [this, findStatic_split l n r _ q qrest hc0 hc' hno hQ]
    · -- other first byte: recurse into the siblings
      have hnew' : Kids.findStatic r p rest = none := by
        simpa [Kids.findStatic, hh] using hnew
      have ih := Kids.findStatic_insertStatic r p rest q qrest i hSr hP hQ hnew'
      simp only [Kids.insertStatic, hh, ite_false, Kids.findStatic]
      by_cases h1 : l.pre.head? = q.head?
      · have hqp : ¬ (q = p ∧ qrest = rest) := by rintro ⟨rfl, _⟩; exact hh h1
        simp only [h1, ite_true, hqp, ite_false]
        split
        · rfl
        · rw [ih]; simp [hqp]
      · simp only [h1, ite_false]; exact ih
theorem Kids.findPar_insertPar : ∀ (ks : Kids) (l : Label) (rest : List Part) (l' : Label) (qrest : List Part) (i : Info),
    Kids.SOKp ks → altOK rest = true → altOK qrest = true → Kids.findPar ks l rest = none →
    Kids.findPar (Kids.insertPar ks l rest i) l' qrest =
      if l' = l ∧ qrest = rest then some i else Kids.findPar ks l' qrest
  | .nil, l, rest, l', qrest, i, _, hP, _, _ => by
    simp only [Kids.insertPar, Kids.findPar, findPar_nil]
    by_cases h : l = l'
    · subst h; simp [find_chain rest qrest i hP]
    · have : ¬ l' = l := fun h' => h h'.symm
      simp [h, this]
  | .cons l0 n r, l, rest, l', qrest, i, hS, hP, hQ, hnew => by
    simp only [Kids.SOKp] at hS
    simp only [Kids.insertPar]
    by_cases h0 : l0 = l
    · subst h0
      have hnew' : Node.find n rest = none := by simpa [Kids.findPar] using hnew
      simp only [ite_true, Kids.findPar]
      by_cases h1 : l0 = l'
      · subst h1
        simp only [ite_true, true_and]
        exact Node.find_insert n rest qrest i hS.1 hP hQ hnew'
      · have : ¬ l' = l0 := fun h => h1 h.symm
        simp [h1, this]
    · have hnew' : Kids.findPar r l rest = none := by simpa [Kids.findPar, h0] using hnew
      have ih := Kids.findPar_insertPar r l rest l' qrest i hS.2 hP hQ hnew'
      simp only [h0, ite_false, Kids.findPar]
      by_cases h1 : l0 = l'
      · have : ¬ (l' = l ∧ qrest = rest) := by rintro ⟨rfl, _⟩; exact h0 h1
        simp [h1, this]
      · simp only [h1, ite_false]; exact ih
end

#print axioms Node.find_insert
