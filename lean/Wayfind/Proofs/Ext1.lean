import Wayfind.Proofs.FindDelete

/-! the reference walk depends only on the set of normalised routes; routes that do not fit are irrelevant -/

def Mem (rs : List Route) (P : List Part) (i : Info) : Prop := ∃ r ∈ rs, norm r.parts = P ∧ r.info = i
def Fun (rs : List Route) : Prop := ∀ P i j, Mem rs P i → Mem rs P j → i = j
def SNE (rs : List Route) : Prop := ∀ r ∈ rs, statsNE r.parts
def FitsN (env : Env) (P : List Part) (path : Bytes) : Prop := ∃ vs, Fits env P path vs

/-- prepend one literal byte to a normalised part list -/
def pushByte (b : Byte) : List Part → List Part
  | .stat q :: t => .stat (b :: q) :: t
  | t => .stat [b] :: t

theorem pushByte_inj (b : Byte) : ∀ {X Y : List Part}, statsNE X → statsNE Y → pushByte b X = pushByte b Y → X = Y := by
  intro X Y hX hY h
  cases X with
  | nil =>
    cases Y with
    | nil => rfl
    | cons y Y => cases y with
      | stat q => simp [pushByte] at h; exact absurd h.1 hY.1
      | par k l => simp [pushByte] at h
  | cons x X =>
    cases x with
    | stat q =>
      cases Y with
      | nil => simp [pushByte] at h; exact absurd h.1 hX.1
      | cons y Y => cases y with
        | stat q' => simp [pushByte] at h; rw [h.1, h.2]
        | par k l => simp [pushByte] at h; exact absurd h.1 hX.1
    | par k l =>
      cases Y with
      | nil => simp [pushByte] at h
      | cons y Y => cases y with
        | stat q' => simp [pushByte] at h; exact absurd h.1 hY.1
        | par k' l' => simpa [pushByte] using h

/-- normal form of a route and of what remains after stripping its first byte -/
theorem norm_stripByte {b : Byte} {r r' : Route} (h : stripByte b r = some r') :
    norm r.parts = pushByte b (norm r'.parts) ∧ r'.info = r.info := by
  obtain ⟨p, rest, hparts, hinfo, hparts'⟩ := stripByte_some h
  refine ⟨?_, hinfo⟩
  rw [hparts, hparts']
  cases p with
  | nil =>
    simp only [List.isEmpty_nil, ite_true, norm]
    cases norm rest with
    | nil => rfl
    | cons x X => cases x <;> rfl
  | cons c p =>
    simp only [List.isEmpty_cons, Bool.false_eq_true, ite_false, norm]
    cases norm rest with
    | nil => rfl
    | cons x X => cases x <;> rfl

theorem statsNE_stripByte {b : Byte} {r r' : Route} (h : stripByte b r = some r') (hr : statsNE r.parts) : statsNE r'.parts := by
  obtain ⟨p, rest, hparts, _, hparts'⟩ := stripByte_some h
  rw [hparts] at hr
  rw [hparts']
  cases p with
  | nil => simpa using hr.2
  | cons c p => simp only [List.isEmpty_cons, Bool.false_eq_true, ite_false]; exact ⟨by simp, hr.2⟩

/-- a route whose normal form starts with byte `b` can be stripped of it -/
theorem stripByte_of_norm {b : Byte} {r : Route} {X : List Part} (hr : statsNE r.parts)
    (h : norm r.parts = pushByte b X) : ∃ r', stripByte b r = some r' := by
  cases hp : r.parts with
  | nil => rw [hp] at h; cases X with
    | nil => simp [norm, pushByte] at h
    | cons x X => cases x <;> simp [norm, pushByte] at h
  | cons x rest =>
    cases x with
    | par k l => rw [hp] at h; cases X with
      | nil => simp [norm, pushByte] at h
      | cons x X => cases x <;> simp [norm, pushByte] at h
    | stat a =>
      rw [hp] at hr h
      have ha := hr.1
      cases a with
      | nil => exact absurd rfl ha
      | cons c p =>
        have hc : c = b := by
          have hhead := norm_stat_head (c :: p) rest
          cases X with
          | nil =>
            simp only [pushByte] at h
            have := hhead [b] [] (by simp) h; simpa using this.symm
          | cons y Y =>
            cases y with
            | stat q => simp only [pushByte] at h; have := hhead (b :: q) Y (by simp) h; simpa using this.symm
            | par k l => simp only [pushByte] at h; have := hhead [b] _ (by simp) h; simpa using this.symm
        subst hc
        exact ⟨⟨if p.isEmpty then rest else .stat p :: rest, r.info⟩, by simp [stripByte, hp]⟩

theorem SNE_stripByte (b : Byte) (rs : List Route) (h : SNE rs) : SNE (rs.filterMap (stripByte b)) := by
  intro r' hr'
  simp only [List.mem_filterMap] at hr'
  obtain ⟨r, hr, hs⟩ := hr'
  exact statsNE_stripByte hs (h r hr)

theorem Mem_stripByte (b : Byte) (rs : List Route) (hS : SNE rs) (X : List Part) (hX : statsNE X) (i : Info) :
    Mem (rs.filterMap (stripByte b)) X i ↔ Mem rs (pushByte b X) i := by
  constructor
  · rintro ⟨r', hr', hn, hi⟩
    simp only [List.mem_filterMap] at hr'
    obtain ⟨r, hr, hs⟩ := hr'
    obtain ⟨h1, h2⟩ := norm_stripByte hs
    exact ⟨r, hr, by rw [h1, hn], by rw [← h2, hi]⟩
  · rintro ⟨r, hr, hn, hi⟩
    obtain ⟨r', hs⟩ := stripByte_of_norm (hS r hr) hn
    obtain ⟨h1, h2⟩ := norm_stripByte hs
    refine ⟨r', by simp only [List.mem_filterMap]; exact ⟨r, hr, hs⟩, ?_, by rw [h2, hi]⟩
    rw [hn] at h1
    exact (pushByte_inj b (norm_statsNE _ (statsNE_stripByte hs (hS r hr))) hX h1.symm)
