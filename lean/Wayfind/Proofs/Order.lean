import Wayfind.Proofs.Sort

theorem u8_lt_iff (a b : Byte) : (decide (a < b) = true) ↔ a.toNat < b.toNat := by
  simp [UInt8.lt_iff_toNat_lt]

theorem u8_eq_iff (a b : Byte) : a = b ↔ a.toNat = b.toNat := UInt8.toNat_inj.symm

theorem lexLt_cons (a b : Byte) (as bs : Bytes) :
    lexLt (a :: as) (b :: bs) = (decide (a < b) || (a == b && lexLt as bs)) := rfl

theorem lexLt_asymm : ∀ (a b : Bytes), lexLt a b = true → lexLt b a = false
  | [], [], h => by simp [lexLt] at h
  | [], _ :: _, _ => rfl
  | _ :: _, [], h => by simp [lexLt] at h
  | x :: a, y :: b, h => by
    simp only [lexLt_cons, Bool.or_eq_true, Bool.and_eq_true, beq_iff_eq, decide_eq_true_eq] at h
    simp only [lexLt_cons, Bool.or_eq_false_iff, decide_eq_false_iff_not, Bool.and_eq_false_iff, beq_eq_false_iff_ne]
    rcases h with h | ⟨rfl, h⟩
    · rw [UInt8.lt_iff_toNat_lt] at h
      constructor
      · rw [UInt8.lt_iff_toNat_lt]; omega
      · left; intro e; subst e; omega
    · exact ⟨UInt8.lt_irrefl _, Or.inr (lexLt_asymm a b h)⟩

theorem lexLt_trans : ∀ (a b c : Bytes), lexLt a b = true → lexLt b c = true → lexLt a c = true
  | [], [], _, h, _ => by simp [lexLt] at h
  | [], _ :: _, [], _, h => by simp [lexLt] at h
  | [], _ :: _, _ :: _, _, _ => rfl
  | _ :: _, [], _, h, _ => by simp [lexLt] at h
  | _ :: _, _ :: _, [], _, h => by simp [lexLt] at h
  | x :: a, y :: b, z :: c, h1, h2 => by
    simp only [lexLt_cons, Bool.or_eq_true, Bool.and_eq_true, beq_iff_eq, decide_eq_true_eq] at h1 h2 ⊢
    rcases h1 with h1 | ⟨rfl, h1⟩ <;> rcases h2 with h2 | ⟨rfl, h2⟩
    · left; rw [UInt8.lt_iff_toNat_lt] at *; omega
    · left; exact h1
    · left; exact h2
    · right; exact ⟨rfl, lexLt_trans a b c h1 h2⟩

theorem lexLt_total : ∀ (a b : Bytes), a ≠ b → lexLt a b = true ∨ lexLt b a = true
  | [], [], h => absurd rfl h
  | [], _ :: _, _ => Or.inl rfl
  | _ :: _, [], _ => Or.inr rfl
  | x :: a, y :: b, h => by
    simp only [lexLt_cons, Bool.or_eq_true, Bool.and_eq_true, beq_iff_eq, decide_eq_true_eq]
    by_cases hxy : x = y
    · subst hxy
      have hab : a ≠ b := fun e => h (by rw [e])
      rcases lexLt_total a b hab with h' | h'
      · exact Or.inl (Or.inr ⟨rfl, h'⟩)
      · exact Or.inr (Or.inr ⟨rfl, h'⟩)
    · have : x.toNat ≠ y.toNat := fun e => hxy (UInt8.toNat_inj.1 e)
      by_cases hlt : x.toNat < y.toNat
      · exact Or.inl (Or.inl (UInt8.lt_iff_toNat_lt.2 hlt))
      · exact Or.inr (Or.inl (UInt8.lt_iff_toNat_lt.2 (by omega)))

/-- triple-lexicographic order on labels, written out -/
theorem Label.lt_def (a b : Label) : Label.lt a b =
    (lexLt a.pre b.pre || (a.pre == b.pre && (lexLt a.name b.name || (a.name == b.name && lexLt a.cons b.cons)))) := rfl

theorem Label.lt_asymm (a b : Label) (h : Label.lt a b = true) : Label.lt b a = false := by
  simp only [Label.lt_def, Bool.or_eq_true, Bool.and_eq_true, beq_iff_eq] at h
  simp only [Label.lt_def, Bool.or_eq_false_iff, Bool.and_eq_false_iff, beq_eq_false_iff_ne]
  rcases h with h | ⟨hp, h | ⟨hn, h⟩⟩
  · exact ⟨lexLt_asymm _ _ h, Or.inl (fun e => by rw [e, lexLt_irrefl] at h; cases h)⟩
  · refine ⟨by rw [hp, lexLt_irrefl], Or.inr ⟨lexLt_asymm _ _ h, Or.inl (fun e => by rw [e, lexLt_irrefl] at h; cases h)⟩⟩
  · refine ⟨by rw [hp, lexLt_irrefl], Or.inr ⟨by rw [hn, lexLt_irrefl], Or.inr (lexLt_asymm _ _ h)⟩⟩

theorem Label.lt_trans (a b c : Label) (h1 : Label.lt a b = true) (h2 : Label.lt b c = true) : Label.lt a c = true := by
  simp only [Label.lt_def, Bool.or_eq_true, Bool.and_eq_true, beq_iff_eq] at h1 h2 ⊢
  rcases h1 with h1 | ⟨hp1, h1⟩ <;> rcases h2 with h2 | ⟨hp2, h2⟩
  · exact Or.inl (lexLt_trans _ _ _ h1 h2)
  · exact Or.inl (hp2 ▸ h1)
  · exact Or.inl (hp1 ▸ h2)
  · refine Or.inr ⟨hp1.trans hp2, ?_⟩
    rcases h1 with h1 | ⟨hn1, h1⟩ <;> rcases h2 with h2 | ⟨hn2, h2⟩
    · exact Or.inl (lexLt_trans _ _ _ h1 h2)
    · exact Or.inl (hn2 ▸ h1)
    · exact Or.inl (hn1 ▸ h2)
    · exact Or.inr ⟨hn1.trans hn2, lexLt_trans _ _ _ h1 h2⟩

theorem Label.lt_total (a b : Label) (h : a ≠ b) : Label.lt a b = true ∨ Label.lt b a = true := by
  simp only [Label.lt_def, Bool.or_eq_true, Bool.and_eq_true, beq_iff_eq]
  by_cases hp : a.pre = b.pre
  · by_cases hn : a.name = b.name
    · have hc : a.cons ≠ b.cons := by
        intro hc; apply h; cases a; cases b; simp_all
      rcases lexLt_total _ _ hc with h' | h'
      · exact Or.inl (Or.inr ⟨hp, Or.inr ⟨hn, h'⟩⟩)
      · exact Or.inr (Or.inr ⟨hp.symm, Or.inr ⟨hn.symm, h'⟩⟩)
    · rcases lexLt_total _ _ hn with h' | h'
      · exact Or.inl (Or.inr ⟨hp, Or.inl h'⟩)
      · exact Or.inr (Or.inr ⟨hp.symm, Or.inl h'⟩)
  · rcases lexLt_total _ _ hp with h' | h'
    · exact Or.inl (Or.inl h')
    · exact Or.inr (Or.inl h')
