import Wayfind.Proofs.CheckedParser1

/-! The checked transcription of the parser never reports a panic. Part 2: `parse_static_part`, `parse_parameter_part`,
`parse_template`, `ParsedTemplate::new`. -/

/-- `parse_static_part` never panics and never moves the cursor backwards -/
theorem parseStaticC_spec (raw : Bytes) : ∀ fuel e pre,
    NoPanic (parseStaticC raw fuel e pre) ∧ ∀ p n, parseStaticC raw fuel e pre = .ok (p, n) → e ≤ n := by
  intro fuel
  induction fuel with
  | zero => intro e pre; simp [parseStaticC]; exact NoPanic.fuel
  | succ fuel ih =>
    intro e pre
    simp only [parseStaticC]
    split
    · rename_i hlt
      rw [getB_ok hlt]
      simp only
      split
      · split
        · exact ⟨(ih (e + 2) _).1, fun p n h => by have := (ih (e + 2) _).2 p n h; omega⟩
        · have := ih (e + 1) (pre ++ [92])
          exact ⟨this.1, fun p n h => by have := this.2 p n h; omega⟩
      · split
        · exact ⟨NoPanic.ok _, fun p n h => by injection h with h; injection h with _ h; omega⟩
        · exact ⟨(ih (e + 1) _).1, fun p n h => by have := (ih (e + 1) _).2 p n h; omega⟩
    · exact ⟨NoPanic.ok _, fun p n h => by injection h with h; injection h with _ h; omega⟩

/-- the brace-counting loop never panics; its `end` stays between where it started and the end of the input -/
theorem braceScanC_spec (raw : Bytes) : ∀ fuel e count, e ≤ raw.length →
    NoPanic (braceScanC raw fuel e count) ∧ ∀ e' c', braceScanC raw fuel e count = .ok (e', c') → e ≤ e' ∧ e' ≤ raw.length := by
  intro fuel
  induction fuel with
  | zero => intro e count _; simp [braceScanC]; exact NoPanic.fuel
  | succ fuel ih =>
    intro e count hle
    simp only [braceScanC]
    split
    · rename_i hlt
      rw [getB_ok hlt]
      simp only
      split
      · have := ih (e + 1) (count + 1) (by omega)
        exact ⟨this.1, fun e' c' h => by have := this.2 e' c' h; omega⟩
      · split
        · split
          · exact ⟨NoPanic.ok _, fun e' c' h => by injection h with h; injection h with h _; omega⟩
          · have := ih (e + 1) (count - 1) (by omega)
            exact ⟨this.1, fun e' c' h => by have := this.2 e' c' h; omega⟩
        · have := ih (e + 1) count (by omega)
          exact ⟨this.1, fun e' c' h => by have := this.2 e' c' h; omega⟩
    · exact ⟨NoPanic.ok _, fun e' c' h => by injection h with h; injection h with h _; omega⟩

theorem idxOf_lt {l : Bytes} {a : Byte} {p : Nat} (h : l.idxOf? a = some p) : p < l.length := by
  obtain ⟨hp, _⟩ := List.idxOf?_eq_some_iff.1 h
  exact hp

theorem paramSplitC_np (content : Bytes) : NoPanic (paramSplitC content) := by
  unfold paramSplitC
  cases hi : content.idxOf? 58 with
  | none => exact NoPanic.ok _
  | some p =>
    have hp := idxOf_lt hi
    simp only [sliceC_ok (Nat.zero_le p) (Nat.le_of_lt hp), sliceC_ok (a := p + 1) (b := content.length) (by omega) (Nat.le_refl _)]
    exact NoPanic.ok _

theorem paramNameC_np (name : Bytes) (hne : name.isEmpty = false) : NoPanic (paramNameC name) := by
  unfold paramNameC
  split
  · have : 1 ≤ name.length := by
      cases name with
      | nil => simp at hne
      | cons _ _ => simp
    rw [sliceC_ok this (Nat.le_refl _)]
    exact NoPanic.ok _
  · exact NoPanic.ok _

theorem paramFinishC_spec (raw : Bytes) (cursor e len : Nat) (name0 : Bytes) (cons : Option Bytes) :
    NoPanic (paramFinishC raw cursor e len name0 cons) ∧
    ∀ part n, paramFinishC raw cursor e len name0 cons = .ok (part, n) → n = e + 1 := by
  unfold paramFinishC
  split
  · exact ⟨NoPanic.terr _, fun _ _ h => by cases h⟩
  · rename_i hne
    simp only
    cases hn : paramNameC name0 with
    | error x => exact ⟨NoPanic.pass (paramNameC_np name0 (by simpa using hne)) hn, fun _ _ h => by cases h⟩
    | ok name =>
      simp only
      split
      · exact ⟨NoPanic.terr _, fun _ _ h => by cases h⟩
      · split
        · exact ⟨NoPanic.terr _, fun _ _ h => by cases h⟩
        · split
          · split
            · exact ⟨NoPanic.terr _, fun _ _ h => by cases h⟩
            · split
              · exact ⟨NoPanic.terr _, fun _ _ h => by cases h⟩
              · exact ⟨NoPanic.ok _, fun _ n h => by injection h with h; injection h with _ h; omega⟩
          · exact ⟨NoPanic.ok _, fun _ n h => by injection h with h; injection h with _ h; omega⟩

/-- `parse_parameter_part` never panics, and the cursor it returns is past the one it was given -/
theorem parseParamC_spec (raw : Bytes) (cursor : Nat) (hc : cursor < raw.length) :
    NoPanic (parseParamC raw cursor) ∧ ∀ part n, parseParamC raw cursor = .ok (part, n) → cursor < n := by
  unfold parseParamC
  simp only
  have hs := braceScanC_spec raw (raw.length + 1) (cursor + 1) 1 (by omega)
  cases hb : braceScanC raw (raw.length + 1) (cursor + 1) 1 with
  | error x => exact ⟨NoPanic.pass hs.1 hb, fun _ _ h => by cases h⟩
  | ok ec =>
    obtain ⟨e, count⟩ := ec
    obtain ⟨he1, he2⟩ := hs.2 e count hb
    simp only
    split
    · exact ⟨NoPanic.terr _, fun _ _ h => by cases h⟩
    · rw [sliceC_ok he1 he2]
      simp only
      split
      · exact ⟨NoPanic.terr _, fun _ _ h => by cases h⟩
      · rw [subC_ok (by omega)]
        simp only
        cases hsp : paramSplitC (List.take (e - (cursor + 1)) (List.drop (cursor + 1) raw)) with
        | error x => exact ⟨NoPanic.pass (paramSplitC_np _) hsp, fun _ _ h => by cases h⟩
        | ok nc =>
          obtain ⟨name, cons⟩ := nc
          simp only
          have := paramFinishC_spec raw cursor e (e - cursor + 1) name cons
          exact ⟨this.1, fun part n h => by have := this.2 part n h; omega⟩

/-- loop invariant of `parse_template`: every recorded parameter starts at or before the cursor -/
def SeenInv (seen : List (Bytes × Nat × Nat)) (cursor : Nat) : Prop := ∀ x ∈ seen, x.2.1 ≤ cursor

theorem parseLoopC_np (raw : Bytes) : ∀ fuel cursor seen parts, SeenInv seen cursor →
    NoPanic (parseLoopC raw fuel cursor seen parts) := by
  intro fuel
  induction fuel with
  | zero => intro _ _ _ _; simp [parseLoopC]; exact NoPanic.fuel
  | succ fuel ih =>
    intro cursor seen parts hinv
    simp only [parseLoopC]
    split
    · rename_i hlt
      rw [getB_ok hlt]
      simp only
      split
      · have hp := parseParamC_spec raw cursor hlt
        cases hpp : parseParamC raw cursor with
        | error x => exact NoPanic.pass hp.1 hpp
        | ok pn =>
          obtain ⟨part, next⟩ := pn
          have hnext := hp.2 part next hpp
          simp only
          have hlast : ∀ n st ln, seen.getLast? = some (n, st, ln) → st ≤ cursor := by
            intro n st ln h
            exact hinv (n, st, ln) (List.mem_of_getLast? h)
          have htouch : NoPanic (touchC raw seen cursor next) := by
            unfold touchC
            cases hgl : seen.getLast? with
            | none => exact NoPanic.ok _
            | some last =>
              obtain ⟨n0, st, ln⟩ := last
              have hst := hlast n0 st ln hgl
              simp only
              split
              · rw [subC_ok (by omega)]; exact NoPanic.terr _
              · exact NoPanic.ok _
          cases ht : touchC raw seen cursor next with
          | error x => exact NoPanic.pass htouch ht
          | ok u =>
            simp only
            rw [subC_ok (Nat.le_of_lt hnext)]
            simp only
            split
            · split
              · exact NoPanic.terr _
              · apply ih
                intro x hx
                rcases List.mem_append.1 hx with hx | hx
                · have := hinv x hx; omega
                · simp only [List.mem_singleton] at hx; subst hx; simp only; omega
            · apply ih
              intro x hx; have := hinv x hx; omega
      · split
        · exact NoPanic.terr _
        · have hsp := parseStaticC_spec raw (raw.length + 1) cursor []
          cases hps : parseStaticC raw (raw.length + 1) cursor [] with
          | error x => exact NoPanic.pass hsp.1 hps
          | ok pn =>
            obtain ⟨pre, next⟩ := pn
            have := hsp.2 pre next hps
            simp only
            apply ih
            intro x hx; have := hinv x hx; omega
    · exact NoPanic.ok _

theorem parseTemplateC_np (raw : Bytes) : NoPanic (parseTemplateC raw) := by
  unfold parseTemplateC
  split
  · rename_i hne
    have hpos : 0 < raw.length := by
      cases raw with
      | nil => simp at hne
      | cons _ _ => simp
    rw [getB_ok hpos]
    simp only
    split
    · exact NoPanic.terr _
    · exact parseLoopC_np raw _ 0 [] [] (fun x hx => by cases hx)
  · exact parseLoopC_np raw _ 0 [] [] (fun x hx => by cases hx)

theorem mapExceptC_np {α β} (f : α → Except CErr β) (hf : ∀ a, NoPanic (f a)) : ∀ (l : List α), NoPanic (mapExceptC f l)
  | [] => NoPanic.ok _
  | a :: as => by
    simp only [mapExceptC]
    cases hfa : f a with
    | error e => exact NoPanic.pass (hf a) hfa
    | ok b =>
      simp only
      cases hm : mapExceptC f as with
      | error e => exact NoPanic.pass (mapExceptC_np f hf as) hm
      | ok bs => exact NoPanic.ok _

/-- **`ParsedTemplate::new` never panics**: in the checked transcription of `src/parser.rs`, no index, slice or `usize`
subtraction is ever out of range, for any input. -/
theorem parseC_never_panics (input : Bytes) : NoPanic (parseC input) := by
  unfold parseC
  split
  · exact NoPanic.terr _
  · cases hx : expandC input ((input.length + 2) * (input.length + 2)) 0 input.length with
    | error e => exact NoPanic.pass (expandC_never_panics input _ 0 input.length (Nat.le_refl _)) hx
    | ok raws =>
      simp only
      apply mapExceptC_np
      intro raw
      cases hp : parseTemplateC raw with
      | error e => exact NoPanic.pass (parseTemplateC_np raw) hp
      | ok ps => exact NoPanic.ok _

#print axioms parseC_never_panics
