import Wayfind.Proofs.Sound
import Wayfind.Proofs.TWalk

theorem orElse'_isSome_left {a b : Res} (h : a.isSome = true) : (orElse' a b).isSome = true := by
  cases a with
  | none => cases h
  | some _ => rfl

theorem orElse'_isSome_right {a b : Res} (h : b.isSome = true) : (orElse' a b).isSome = true := by
  cases a with
  | none => exact h
  | some _ => rfl

theorem firstSome_isSome {α} {f : α → Res} : ∀ {L : List α} {a : α}, a ∈ L → (f a).isSome = true → (firstSome f L).isSome = true
  | [], _, h, _ => by simp at h
  | x :: L, a, h, hf => by
    simp only [firstSome]
    simp only [List.mem_cons] at h
    rcases h with rfl | h
    · exact orElse'_isSome_left hf
    · exact orElse'_isSome_right (firstSome_isSome h hf)

theorem mem_insertLabel_self (l : Label) : ∀ (L : List Label), l ∈ insertLabel l L
  | [] => by simp [insertLabel]
  | x :: L => by
    simp only [insertLabel]
    split
    · rename_i h; subst h; simp
    · split
      · simp
      · simp [mem_insertLabel_self l L]

theorem mem_insertLabel_of_mem {x : Label} (l : Label) : ∀ (L : List Label), x ∈ L → x ∈ insertLabel l L
  | [], h => by simp at h
  | y :: L, h => by
    simp only [insertLabel]
    split
    · exact h
    · split
      · simp only [List.mem_cons] at h ⊢; exact Or.inr h
      · simp only [List.mem_cons] at h ⊢
        rcases h with rfl | h
        · exact Or.inl rfl
        · exact Or.inr (mem_insertLabel_of_mem l L h)

theorem mem_sortLabels_of_mem {x : Label} : ∀ (X : List Label), x ∈ X → x ∈ sortLabels X
  | [], h => by simp at h
  | y :: X, h => by
    simp only [sortLabels, List.foldr]
    simp only [List.mem_cons] at h
    rcases h with rfl | h
    · exact mem_insertLabel_self _ _
    · exact mem_insertLabel_of_mem _ _ (mem_sortLabels_of_mem X h)

theorem mem_labelsOf {k last} {rs : List Route} {r : Route} {l : Label} {r' : Route}
    (hr : r ∈ rs) (h : headPar k last r = some (l, r')) : l ∈ labelsOf k last rs := by
  rw [labelsOf_eq]
  apply mem_sortLabels_of_mem
  simp only [List.mem_filterMap]
  exact ⟨r, hr, by simp [hp, h]⟩

theorem labelsOf_mem_exists {k last} {rs : List Route} {l : Label} (h : l ∈ labelsOf k last rs) :
    ∃ r ∈ rs, ∃ r', headPar k last r = some (l, r') := by
  rw [labelsOf_eq] at h
  have := mem_sortLabels h
  simp only [List.mem_filterMap, hp, Option.map_eq_some_iff] at this
  obtain ⟨r, hr, ⟨⟨l', r'⟩, hh, rfl⟩⟩ := this
  exact ⟨r, hr, r', hh⟩

theorem headPar_of_parts {k : PKind} {l : Label} {rest : List Part} {r : Route} (h : r.parts = .par k l :: rest) :
    headPar k (wildK k && rest.isEmpty) r = some (l, ⟨rest, r.info⟩) := by
  simp [headPar, h]

theorem stripPar_of_parts {k : PKind} {l : Label} {rest : List Part} {r : Route} (h : r.parts = .par k l :: rest) :
    stripPar k (wildK k && rest.isEmpty) l r = some ⟨rest, r.info⟩ := by
  simp [stripPar, headPar_of_parts h]

theorem endInfo_isSome {k : PKind} {l : Label} {rs : List Route} {r : Route} (hr : r ∈ rs) (h : r.parts = [.par k l]) :
    (endInfo k l rs).isSome = true := by
  unfold endInfo
  rw [Option.isSome_map, List.find?_isSome]
  exact ⟨r, hr, by simp [h]⟩

/-- a `/`-free prefix of the path is no longer than its first segment -/
theorem prefix_le_segLen : ∀ (v path' : Bytes), (47 : Byte) ∉ v → v.length ≤ segLen (v ++ path')
  | [], _, _ => by simp
  | a :: v, path', h => by
    simp only [List.mem_cons, not_or] at h
    have ha : (a != 47) = true := by simpa using (fun e => h.1 e.symm)
    have ih := prefix_le_segLen v path' h.2
    simp only [segLen, List.cons_append, List.takeWhile_cons, ha, ite_true, List.length_cons] at ih ⊢
    omega

theorem mem_candsInline {w : Bool} {path : Bytes} {c : Nat} (h1 : 1 ≤ c) (h2 : c ≤ (if w then path.length else segLen path)) :
    c ∈ candsInline w path := by
  simp only [candsInline, List.mem_map, List.mem_range]
  exact ⟨c - 1, by omega, by omega⟩

/-- one mid-route parameter step succeeds when some route offers that parameter and fits -/
theorem parStep_complete (env : Env) (k : PKind) (rs : List Route) (ps : Params)
    (walk : List Route → Bytes → Params → Res)
    (r : Route) (hr : r ∈ rs) (l : Label) (rest : List Part) (hparts : r.parts = .par k l :: rest)
    (hmid : (wildK k && rest.isEmpty) = false)
    (v path' : Bytes) (hv : v ≠ []) (hslash : wildK k = false → (47 : Byte) ∉ v) (hval : env.valid v = true)
    (hcon : consK k = true → env.chk l.cons v = true)
    (hw : ∀ rs' ps', (∃ r' ∈ rs', ∃ vs', Fits env r'.parts path' vs') → (walk rs' path' ps').isSome = true)
    (vs' : Params) (hfits : Fits env rest path' vs') :
    (parStep env k rs (v ++ path') ps walk).isSome = true := by
  unfold parStep
  have hhead := headPar_of_parts (r := r) hparts
  rw [hmid] at hhead
  have hl : l ∈ labelsOf k false rs := mem_labelsOf hr hhead
  apply firstSome_isSome hl
  apply tryCands_isSome
  right
  have hvl : 0 < v.length := List.length_pos_iff.mpr hv
  refine ⟨v.length, ?_, ?_, ?_⟩
  · apply mem_candsInline (by omega)
    cases hk : wildK k with
    | true => simp
    | false => simpa using prefix_le_segLen v path' (hslash hk)
  · simp only [List.take_left', candOk, hval, Bool.true_and]
    cases hc : consK k with
    | true => simp [hcon hc]
    | false => simp
  · simp only [List.drop_left', List.take_left']
    apply hw
    have hsp := stripPar_of_parts (r := r) hparts
    rw [hmid] at hsp
    exact ⟨⟨rest, r.info⟩, by simp only [List.mem_filterMap]; exact ⟨r, hr, hsp⟩, vs', hfits⟩

/-- Completeness of the documented walk: if some route of the list fits the path, the walk returns a result. -/
theorem refWalk_complete (env : Env) : ∀ (f : Nat) (rs : List Route) (path : Bytes) (ps : Params), path.length ≤ f →
    (∃ r ∈ rs, ∃ vs, Fits env r.parts path vs) → (refWalk env f rs path ps).isSome = true := by
  intro f
  induction f with
  | zero =>
    intro rs path ps hf ⟨r, hr, vs, hfits⟩
    have : path = [] := List.eq_nil_of_length_eq_zero (by omega)
    subst this
    have := (hfits.nil_path' rfl).1
    simp only [refWalk, Option.isSome_map, List.find?_isSome]
    exact ⟨r, hr, by simp [this]⟩
  | succ f ih =>
    intro rs path ps hf ⟨r, hr, vs, hfits⟩
    cases path with
    | nil =>
      have := (hfits.nil_path' rfl).1
      simp only [refWalk, Option.isSome_map, List.find?_isSome]
      exact ⟨r, hr, by simp [this]⟩
    | cons b tl =>
      simp only [List.length_cons, Nat.add_le_add_iff_right] at hf
      simp only [refWalk]
      -- analyse how the route starts
      generalize hpath : b :: tl = path at hfits
      generalize hparts : r.parts = parts at hfits
      cases hfits with
      | nil => cases hpath
      | stat p path' vs rest hp hrest =>
        cases p with
        | nil => exact absurd rfl hp
        | cons c p' =>
          simp only [List.cons_append, List.cons.injEq] at hpath
          obtain ⟨rfl, rfl⟩ := hpath
          apply orElse'_isSome_left
          apply ih _ _ _ (by simpa using hf)
          have hsb : stripByte b r = some ⟨if p'.isEmpty then rest else .stat p' :: rest, r.info⟩ := by
            simp [stripByte, hparts]
          refine ⟨_, by simp only [List.mem_filterMap]; exact ⟨r, hr, hsb⟩, vs, ?_⟩
          cases p' with
          | nil => simpa using hrest
          | cons d p'' => exact Fits.stat (d :: p'') path' vs rest (by simp) hrest
      | par k l v path' vs' rest hv hslash hval hcon hrest =>
        have hlen : path'.length ≤ f := by
          have := congrArg List.length hpath
          have hvl : 0 < v.length := List.length_pos_iff.mpr hv
          simp only [List.length_cons, List.length_append] at this; omega
        have hw : ∀ rs' ps', (∃ r' ∈ rs', ∃ vs', Fits env r'.parts path' vs') →
            (refWalk env f rs' path' ps').isSome = true := fun rs' ps' h => ih rs' path' ps' hlen h
        by_cases hmid : (wildK k && rest.isEmpty) = false
        · have key := parStep_complete env k rs ps (refWalk env f) r hr l rest hparts hmid v path' hv hslash hval hcon hw vs' hrest
          cases k with
          | dynC => exact orElse'_isSome_right (orElse'_isSome_left key)
          | dyn => exact orElse'_isSome_right (orElse'_isSome_right (orElse'_isSome_left key))
          | wildC => exact orElse'_isSome_right (orElse'_isSome_right (orElse'_isSome_right (orElse'_isSome_left key)))
          | wild => exact orElse'_isSome_right (orElse'_isSome_right (orElse'_isSome_right
              (orElse'_isSome_right (orElse'_isSome_left key))))
        · -- catch-all route: nothing follows, the value is the whole rest of the path
          have hmid' : wildK k = true ∧ rest = [] := by
            simp only [Bool.and_eq_false_iff, not_or, Bool.not_eq_false] at hmid
            exact ⟨hmid.1, by simpa using hmid.2⟩
          obtain ⟨hwk, rfl⟩ := hmid'
          cases hrest
          simp only [List.append_nil] at hpath ⊢
          cases k with
          | dynC => cases hwk
          | dyn => cases hwk
          | wildC =>
            apply orElse'_isSome_right; apply orElse'_isSome_right; apply orElse'_isSome_right
            apply orElse'_isSome_right; apply orElse'_isSome_right; apply orElse'_isSome_left
            have hhead := headPar_of_parts (r := r) hparts
            simp only [wildK, List.isEmpty_nil, Bool.and_self] at hhead
            apply firstSome_isSome (mem_labelsOf hr hhead)
            simp only [hval, hcon rfl, Bool.and_self, ite_true, Option.isSome_map]
            exact endInfo_isSome hr hparts
          | wild =>
            apply orElse'_isSome_right; apply orElse'_isSome_right; apply orElse'_isSome_right
            apply orElse'_isSome_right; apply orElse'_isSome_right; apply orElse'_isSome_right
            have hhead := headPar_of_parts (r := r) hparts
            simp only [wildK, List.isEmpty_nil, Bool.and_self] at hhead
            have hmem := mem_labelsOf hr hhead
            cases hlab : labelsOf .wild true rs with
            | nil => rw [hlab] at hmem; cases hmem
            | cons l0 L =>
              simp only [hval, ite_true, Option.isSome_map]
              obtain ⟨r0, hr0, r0', hh0⟩ := labelsOf_mem_exists (by rw [hlab]; exact List.mem_cons_self : l0 ∈ labelsOf .wild true rs)
              have hp0 : r0.parts = [.par .wild l0] := by
                unfold headPar at hh0
                split at hh0
                · rename_i k' l' rest' hparts0
                  split at hh0
                  · rename_i hc
                    injection hh0 with hh0; injection hh0 with e1 _
                    subst e1
                    obtain ⟨rfl, hlast⟩ := hc
                    have : rest' = [] := by simpa [wildK] using hlast
                    rw [hparts0, this]
                  · cases hh0
                · cases hh0
              exact endInfo_isSome hr0 hp0

#print axioms refWalk_complete

/-- C01/C02 at tree level, as corollaries of T-compress and the two walk lemmas -/
theorem Node.search_sound (env : Env) (n : Node) (hTS : Node.TS n) (path : Bytes) (i : Info) (ps' : Params)
    (h : Node.search env n path [] = some (i, ps')) :
    ∃ r ∈ Node.routes n, r.info = i ∧ Fits env r.parts path ps' := by
  rw [Node.search_eq_walk env n path [] path.length hTS (Nat.le_refl _)] at h
  obtain ⟨r, hr, hi, vs, hf, hps⟩ := refWalk_sound env _ _ _ _ _ _ h
  exact ⟨r, hr, hi, by simpa [hps] using hf⟩

theorem Node.search_complete (env : Env) (n : Node) (hTS : Node.TS n) (path : Bytes)
    (h : ∃ r ∈ Node.routes n, ∃ vs, Fits env r.parts path vs) :
    (Node.search env n path []).isSome = true := by
  rw [Node.search_eq_walk env n path [] path.length hTS (Nat.le_refl _)]
  exact refWalk_complete env _ _ _ _ (Nat.le_refl _) h

#print axioms Node.search_sound
#print axioms Node.search_complete
