import Wayfind.Proofs.Chain

/-- no label of the vector starts with byte `b` -/
def Kids.noHead (b : Option Byte) : Kids → Prop
  | .nil => True
  | .cons l _ r => l.pre.head? ≠ b ∧ Kids.noHead b r

/-- every node of the vector carries data (catch-all vectors) -/
def Kids.allData : Kids → Prop
  | .nil => True
  | .cons _ n r => n.data ≠ none ∧ Kids.allData r

mutual
def Node.SOK : Node → Prop
  | .mk _ s dc d wc w ec e _ _ _ =>
    Kids.SOKs s ∧ Kids.SOKp dc ∧ Kids.SOKp d ∧ Kids.SOKp wc ∧ Kids.SOKp w ∧ Kids.allData ec ∧ Kids.allData e
def Kids.SOKs : Kids → Prop
  | .nil => True
  | .cons l n r => l.pre ≠ [] ∧ Kids.noHead l.pre.head? r ∧ Node.SOK n ∧ Kids.SOKs r
def Kids.SOKp : Kids → Prop
  | .nil => True
  | .cons _ n r => Node.SOK n ∧ Kids.SOKp r
end

theorem findStatic_noHead : ∀ (ks : Kids) (q : Bytes) (qrest : List Part), Kids.noHead q.head? ks →
    Kids.findStatic ks q qrest = none
  | .nil, _, _, _ => rfl
  | .cons l n r, q, qrest, h => by
    simp only [Kids.noHead] at h
    simp only [Kids.findStatic, h.1, ite_false]
    exact findStatic_noHead r q qrest h.2

theorem chain_SOK : ∀ (ps : List Part) (i : Info), altOK ps = true → Node.SOK (chain ps i)
  | [], i, _ => by simp [chain, Node.leaf, Node.SOK, Kids.SOKs, Kids.SOKp, Kids.allData]
  | .stat p :: rest, i, h => by
    have := chain_SOK rest i (altOK_tail h)
    simp [chain, Node.SOK, Kids.SOKs, Kids.SOKp, Kids.allData, Kids.noHead, altOK_stat_ne h, this]
  | .par k l :: rest, i, h => by
    have ih := chain_SOK rest i (altOK_tail h)
    simp only [chain]
    cases k <;> cases hr : rest.isEmpty <;>
      simp [slotOf, Node.SOK, Kids.SOKs, Kids.SOKp, Kids.allData, ih] <;>
      (have : rest = [] := by simpa using hr) <;> subst this <;> simp [chain, Node.leaf, Node.data]
